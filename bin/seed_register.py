#!/usr/bin/env python3
"""seed_register.py <seed-id> <property> <worktree> "<demo command (run in worktree)>" "<needs text>" <check ids...>
Confirms a seeded change (compiles, baseline passes, demonstration fails with it and passes without it), runs the
given checks against it in /repo (applied and undone again), and stores it under /verif/seeded/<seed-id>/."""
import sys, os, subprocess, json, shutil, re
sid, prop, wt, demo, needs = sys.argv[1:6]
checks = sys.argv[6:]
env = dict(os.environ, GOFLAGS='-mod=mod', GOPROXY='off', GOSUMDB='off', GOTOOLCHAIN='local')
def sh(cmd, cwd=None, timeout=1800):
    p = subprocess.run(cmd, shell=True, cwd=cwd, env=env, capture_output=True, text=True, timeout=timeout)
    return p.returncode, (p.stdout + p.stderr)
patch = os.path.join(wt, 'zz_patch.diff')
ran = {}
# library files touched by the patch
files = re.findall(r'^\+\+\+ b/(\S+)', open(patch).read(), flags=re.M)
rc, out = sh('go build ./... && go build -tags verif ./...', cwd=wt); ran['build'] = rc == 0
rc_with, out_with = sh(demo, cwd=wt, timeout=600)
sh('git stash push -q -- ' + ' '.join(files), cwd=wt)
rc_without, out_without = sh(demo, cwd=wt, timeout=600)
sh('git stash pop -q', cwd=wt)
ran['demo_fails_with_change'] = rc_with != 0
ran['demo_passes_without_change'] = rc_without == 0
rc, out = sh(f'python3 /tmp/tools/baseline.py {wt}', timeout=900)
m = re.search(r'baseline tests not passing: (\d+)', out)
ran['baseline_not_passing'] = int(m.group(1)) if m else -1
if ran['baseline_not_passing'] == 1 and 'TestServiceConnectAuthError' in out:
    rc, out = sh(f'python3 /tmp/tools/baseline.py {wt}', timeout=900)
    m = re.search(r'baseline tests not passing: (\d+)', out)
    ran['baseline_not_passing'] = int(m.group(1)) if m else -1
print(ran)
ok = ran['build'] and ran['demo_fails_with_change'] and ran['demo_passes_without_change'] and ran['baseline_not_passing'] == 0
results = {}
if ok:
    rc, out = sh('git diff --quiet', cwd='/repo')
    assert rc == 0, '/repo has uncommitted changes'
    rc, out = sh(f'git apply {patch}', cwd='/repo')
    assert rc == 0, out
    sh('rm -rf /verif/build/evidence.bak && cp -r /verif/evidence /verif/build/evidence.bak')
    try:
        for c in checks:
            rc, out = sh(f'bin/check {c}', cwd='/verif', timeout=2400)
            lines = [l for l in out.splitlines() if not l.startswith('KNOWN-FINDING')]
            viol = [l for l in lines if l.startswith('VIOLATION')]
            results[c] = dict(exit=rc, violations=len(viol), with_failing_input=sum(1 for l in viol if 'no-failing-input-found' not in l),
                              summary=lines[-1] if lines else '', first=viol[0] if viol else '')
            print(c, results[c]['summary'], '| first:', results[c]['first'][:140])
    finally:
        sh('git checkout -- .', cwd='/repo')
        sh('rm -rf /verif/evidence && mv /verif/build/evidence.bak /verif/evidence')  # evidence must come from runs on the unchanged tree
        for f in os.listdir('/verif/replays'):
            if f.endswith('.json'):
                os.remove(os.path.join('/verif/replays', f))
dest = f'/verif/seeded/{sid}'
os.makedirs(dest, exist_ok=True)
shutil.copy(patch, os.path.join(dest, 'patch.diff'))
rc, out = sh('git status --short', cwd=wt)
demos = [l[3:] for l in out.splitlines() if l.startswith('??') and 'zz_patch' not in l]
for d in demos:
    src = os.path.join(wt, d)
    if os.path.isdir(src):
        shutil.copytree(src, os.path.join(dest, 'demo_' + d.strip('/').replace('/', '_')), dirs_exist_ok=True)
    else:
        shutil.copy(src, os.path.join(dest, 'demo_' + d.replace('/', '_')))
meta = dict(id=sid, property=prop, patch='patch.diff', demonstration=dict(files=demos, command=demo),
            needs_to_manifest=needs, confirmed=ran, kept=ok,
            checks_run={c: r for c, r in results.items()},
            detected_by=[c for c, r in results.items() if r['violations'] > 0],
            detected_with_failing_input=[c for c, r in results.items() if r['with_failing_input'] > 0])
json.dump(meta, open(os.path.join(dest, 'meta.json'), 'w'), indent=1)
print('kept' if ok else 'NOT CONFIRMED', sid, 'detected by', meta['detected_by'])
