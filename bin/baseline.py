#!/usr/bin/env python3
"""Run the repository's pinned test suite (guard off unless --tags given) and compare with BASELINE.json."""
import json, subprocess, sys, os
tags = []
if len(sys.argv) > 1 and sys.argv[1] == '--verif':
    tags = ['-tags', 'verif']
env = dict(os.environ, GOFLAGS='-mod=mod', GOPROXY='off', GOSUMDB='off', GOTOOLCHAIN='local')
p = subprocess.run(['go', 'test', '-mod=mod', '-json', '-vet=off', '-count=1', '-timeout', '25m'] + tags + ['./...'],
                   cwd='/repo', env=env, capture_output=True, text=True)
res = {}
for line in p.stdout.splitlines():
    try:
        e = json.loads(line)
    except Exception:
        continue
    if e.get('Test') and e.get('Action') in ('pass', 'fail', 'skip'):
        res[e['Package'] + '::' + e['Test']] = e['Action']
base = json.load(open('/root/.vp/BASELINE.json'))
missing = [t for t in base['stable_pass'] if res.get(t) != 'pass']
print('passed', sum(1 for v in res.values() if v == 'pass'), 'failed', sum(1 for v in res.values() if v == 'fail'))
print('baseline tests not passing:', len(missing))
for t in missing:
    print('  ', t, res.get(t))
sys.exit(1 if missing else 0)
