#!/usr/bin/env python3
"""seed_recheck.py <seed-id> [check ids...]   re-run checks against a kept seeded change (applied to /repo and undone
again) and update seeded/<id>/meta.json; with no check ids: the checks recorded in the meta file.
seed_recheck.py --all   re-run every kept seed against the checks recorded for it."""
import sys, os, subprocess, json
def sh(cmd, cwd=None, timeout=2400):
    p = subprocess.run(cmd, shell=True, cwd=cwd, capture_output=True, text=True, timeout=timeout)
    return p.returncode, p.stdout + p.stderr
def recheck(sid, checks):
    dest = f'/verif/seeded/{sid}'
    meta = json.load(open(f'{dest}/meta.json'))
    checks = checks or list(meta['checks_run'])
    rc, _ = sh('git diff --quiet', cwd='/repo'); assert rc == 0, '/repo has uncommitted changes'
    rc, out = sh(f'git apply {dest}/patch.diff', cwd='/repo'); assert rc == 0, out
    sh('rm -rf /verif/build/evidence.bak && cp -r /verif/evidence /verif/build/evidence.bak')
    try:
        for c in checks:
            rc, out = sh(f'bin/check {c}', cwd='/verif')
            lines = [l for l in out.splitlines() if not l.startswith('KNOWN-FINDING')]
            viol = [l for l in lines if l.startswith('VIOLATION')]
            meta['checks_run'][c] = dict(exit=rc, violations=len(viol), with_failing_input=sum(1 for l in viol if 'no-failing-input-found' not in l),
                                         summary=lines[-1] if lines else '', first=viol[0] if viol else '')
            print(sid, meta['checks_run'][c]['summary'], '| first:', meta['checks_run'][c]['first'][:120], flush=True)
    finally:
        sh('git checkout -- .', cwd='/repo')
        sh('rm -rf /verif/evidence && mv /verif/build/evidence.bak /verif/evidence')  # evidence must come from runs on the unchanged tree
        for f in os.listdir('/verif/replays'):
            if f.endswith('.json'): os.remove(os.path.join('/verif/replays', f))
    meta['detected_by'] = [c for c, r in meta['checks_run'].items() if r['violations'] > 0]
    meta['detected_with_failing_input'] = [c for c, r in meta['checks_run'].items() if r['with_failing_input'] > 0]
    json.dump(meta, open(f'{dest}/meta.json', 'w'), indent=1)
    print(sid, 'detected by', meta['detected_by'], 'with failing input', meta['detected_with_failing_input'], flush=True)
if sys.argv[1] == '--all':
    for sid in sorted(os.listdir('/verif/seeded')):
        if os.path.exists(f'/verif/seeded/{sid}/meta.json'): recheck(sid, [])
else:
    recheck(sys.argv[1], sys.argv[2:])
