#!/usr/bin/env python3
"""refactor_check.py [--obligations] [Rxx ...]   apply each behaviour-preserving refactoring kept under /verif/refactors/<id>/patch.diff to /repo,
run every check (quick), undo it, and record which checks reported a violation (none should: the properties hold).
The evidence files are restored afterwards (evidence must come from runs on the unchanged tree)."""
import sys, os, subprocess, json
def sh(cmd, cwd=None, timeout=3600):
    p = subprocess.run(cmd, shell=True, cwd=cwd, capture_output=True, text=True, timeout=timeout)
    return p.returncode, p.stdout + p.stderr
obl_only = '--obligations' in sys.argv
ids = [a for a in sys.argv[1:] if not a.startswith('--')] or sorted(os.listdir('/verif/refactors'))
props = ['C%02d' % i for i in range(1, 21)]
for rid in ids:
    d = f'/verif/refactors/{rid}'
    if not os.path.exists(f'{d}/patch.diff'): continue
    rc, _ = sh('git diff --quiet', cwd='/repo'); assert rc == 0, '/repo has uncommitted changes'
    rc, out = sh(f'git apply {d}/patch.diff', cwd='/repo'); assert rc == 0, out
    sh('rm -rf /verif/build/evidence.bak && cp -r /verif/evidence /verif/build/evidence.bak')
    res = {}
    try:
        for c in props:
            rc, out = sh(('VERIF_OBLIGATIONS_ONLY=1 ' if obl_only else '') + f'bin/check {c}', cwd='/verif')
            lines = [l for l in out.splitlines() if not l.startswith('KNOWN-FINDING')]
            viol = [l for l in lines if l.startswith('VIOLATION')]
            res[c] = dict(exit=rc, violations=len(viol), summary=lines[-1] if lines else '', first=viol[0] if viol else '')
            if viol or rc != 0:
                print(rid, c, res[c]['summary'], '|', res[c]['first'][:150], flush=True)
                # keep the first replay of a false alarm for analysis
                for l in viol[:1]:
                    pth = l.split('replay=')[1].split()[0]
                    if os.path.exists(pth): sh(f'cp {pth} {d}/alarm_{c}.json')
    finally:
        sh('git checkout -- .', cwd='/repo')
        sh('rm -rf /verif/evidence && mv /verif/build/evidence.bak /verif/evidence')
        for f in os.listdir('/verif/replays'):
            if f.endswith('.json'): os.remove(os.path.join('/verif/replays', f))
    alarms = [c for c, r in res.items() if r['violations'] > 0 or r['exit'] != 0]
    json.dump(dict(id=rid, kind='behaviour-preserving refactoring', mode='obligations only (tie T1 + proofs, no drivers)' if obl_only else 'full quick checks',
                   checks=res, alarms=alarms), open(f'{d}/meta.json', 'w'), indent=1)
    print(rid, 'alarms:', alarms, flush=True)
