#!/bin/bash
# usage: run_all.sh [quick|thorough]   run every check on /repo's current tree (regenerates all evidence files)
tier=${1:-quick}
cd /verif
rc=0
for p in C01 C02 C03 C04 C05 C06 C07 C08 C09 C10 C11 C12 C13 C14 C15 C16 C17 C18 C19 C20; do
  bin/check $p --tier $tier 2>&1 | grep -v "^KNOWN-FINDING" | tail -3
  [ ${PIPESTATUS[0]} -ne 0 ] && rc=1
done
exit $rc
