"""Per-property configuration of bin/check."""

def codec_nontrivial(case, impl):
    # a script is non-trivial when at least one Encode or Decode succeeded in it
    toks = impl.split('|')
    return any(t.split()[:1] in (['10'], ['20']) for t in toks)

CODEC_C03 = r'Encode|re-encoding|decode\(encode|decoded fields|packet identifier 0|written by Encode'
CODEC_C04 = r'panicked|returned n=|failed with n=|lies outside|rejected the well-formed|no complete fixed header'

def topics_nontrivial(case, impl):
    # non-trivial: some Subscribers / Retained query returned a non-empty result
    return any(len(t.split()) > 1 and t.split()[0] == '0' for t in impl.split('|'))

def ackq_nontrivial(case, impl):
    # non-trivial: some Acked() call handed at least one entry back
    for c, o in zip(case.split('|')[1:], impl.split('|')):
        if c.split() == ['3'] and o.split()[:1] not in ([], ['0']):
            return True
    return False

def ring_nontrivial(case, impl):
    # non-trivial: some consumer call returned bytes
    return any(len(o.split()) > 2 and o.split()[0] == '0' for o in impl.split('|'))

def sched_nontrivial(case, impl):
    # a schedule is non-trivial when at least two threads took part
    tids = set(g.split()[0] for g in case.split('|')[1:] if g.split())
    return len(tids) >= 2

RING_C14 = r'byte|obtained|consumer cursor|producer committed|consumer error|producer error'
RING_C15 = r'LOST WAKE-UP|LEAKED LOCK|STUCK|did not|still locked|Close|within'

def broker_nontrivial(case, impl):
    # non-trivial: some event made the broker write a packet to a connection other than the sender's CONNACK
    return impl.count(' 1 ') > 3

def _broker(pid, n_quick, n_thorough):
    return dict(name='brokerdrv', oracle_filter=r'(^%s:|\(%s\)|^STUCK)' % (pid, pid) if pid in ('C05',) else r'(^%s:|\(%s\))' % (pid, pid),
                nontrivial=broker_nontrivial,
                env=dict(quick=dict(VERIF_BROKER_N=str(n_quick)), thorough=dict(VERIF_BROKER_N=str(n_thorough))))

BROKER_RULE = ('event histories (connect with every kind of first packet, SUBSCRIBE/UNSUBSCRIBE with valid and invalid filters, PUBLISH QoS 0-2 '
               'with PUBREL / duplicates, retained and empty payloads, acks, DISCONNECT, abrupt close, protocol errors, in-process '
               'Subscribe/Unsubscribe/Publish, Server.Close) on a real service.Server over net.Pipe, every live connection brought to a '
               'PINGREQ/PINGRESP barrier after each event; per-connection packets compared with the Coq broker model and with a reference '
               'broker written from the property texts. Non-trivial: the broker wrote packets beyond CONNACKs.')
BROKER_ASSUME = ['Proto/Broker.v is a hand-written event-step model of the broker tied to the code by running the same histories (brokerdrv); '
                 'events are separated by barriers (the concurrent window is covered by the ring / lock models and the race detector); '
                 'Go runtime, net.Pipe and goroutine scheduling are not modelled']

def client_nontrivial(case, impl):
    # non-trivial: the script got past Connect and some callback fired
    return ' 2 ' in impl or ' 3 ' in impl

def _client(pid, extra=''):
    return dict(name='clientdrv', oracle_filter=r'(^%s:|\(%s\)%s)' % (pid, pid, extra), nontrivial=client_nontrivial,
                env=dict(quick=dict(VERIF_CLIENT_N='80'), thorough=dict(VERIF_CLIENT_N='1500')))

CLIENT_RULE = ('scripts of Client API calls (Subscribe, Unsubscribe, Publish QoS 0-2, Ping) and server bytes (every CONNACK answer incl. '
               'malformed ones, SUBACK/UNSUBACK/PUBACK/PUBREC/PUBCOMP in and out of order, application messages QoS 0-2 with duplicates and '
               'PUBREL, acknowledgements for unknown ids, and the forced window in which an acknowledgement is processed before the sending '
               'call registered its request) against a scripted TCP peer on 127.0.0.1, Ping round trips as barriers. '
               'Non-trivial: Connect succeeded and a callback fired.')
CLIENT_ASSUME = ['Client/Model.v is a hand-written model of the client role tied to the code by running the same scripts (clientdrv); TCP loopback, '
                 'goroutine scheduling and timers are not modelled']

def _storm(pid, mode, n_quick, n_thorough, race=False, extra=''):
    d = dict(name='stormdrv', oracle_filter=r'(^%s:%s)' % (pid, extra), model=False,
             env=dict(quick=dict(VERIF_STORM_MODE=mode, VERIF_STORM_N=str(n_quick)),
                      thorough=dict(VERIF_STORM_MODE=mode, VERIF_STORM_N=str(n_thorough))))
    if race:
        d.update(bin='stormdrv_race', build_flags=['-race'], race=True)
    return d

STORM_RULE = ('concurrent workloads on a real broker over net.Pipe (stormdrv): storms of 3-5 publishers delivering 40-80 messages of 16 B - 31 KB '
              'each to 2-3 shared subscribers (outgoing rings wrap mid-packet), a subscriber cut off mid-delivery, teardown scenarios '
              '(causes of end x buffer conditions x orders) with a bystander pair, keep-alive scenarios with K = 1 s; checked against '
              'stream / order / liveness oracles. Each scenario run counts as one evaluation.')

PROPS = {
    'C16': dict(coq='Properties/C16.v', drivers=[_storm('C16', 'teardown,storm,cut', 3, 40)], rule=STORM_RULE,
                assumptions=['Life/ConnLife.v is an abstract blocking model of one connection (not run against the code): sockets, scheduler and '
                             'timers assumed; the ring interface is what C15 proves; the order of teardown actions comes from T1']),
    'C17': dict(coq='Properties/C17.v', drivers=[_storm('C17', 'storm,cut,resume,churn', 3, 60), _broker('C17', 60, 1500)], rule=STORM_RULE,
                assumptions=['Ring/Writers.v models writers over the byte-granular ring; mutual exclusion of sync.Mutex assumed; wmu region and '
                             'ring roles come from T1']),
    'C18': dict(coq='Properties/C18.v', drivers=[_storm('C18', 'storm,cut,teardown,churn,inproc', 3, 25, race=True)], rule=STORM_RULE + ' Run under the Go race detector.',
                assumptions=['the map from shared-object classes to guarding mutexes, the exempt and helper function lists are hand-written; '
                             'aliasing is covered only through that map; the dynamic side is a detector (go build -race), not a proof']),
    'C19': dict(coq='Properties/C19.v', drivers=[_storm('C19', 'keepalive', 1, 3), _broker('C19', 40, 300)], rule=STORM_RULE,
                assumptions=['Life/KeepAlive.v models the deadline arithmetic only; OS timers, the scheduler and net.Pipe deadlines are not modelled']),
    'C20': dict(coq='Properties/C20.v', drivers=[_client('C20', '|^STUCK')], rule=CLIENT_RULE, assumptions=CLIENT_ASSUME),
    'C12': dict(coq='Properties/C12.v', drivers=[_client('C12'), _broker('C12', 120, 2500)], rule=CLIENT_RULE + ' Plus the broker histories (identifiers of forwarded PUBLISH packets, PUBREL answers).', assumptions=CLIENT_ASSUME + BROKER_ASSUME),
    'C01': dict(coq='Properties/C01.v', drivers=[_broker('C01', 120, 2500), _storm('C01', 'storm,inproc', 1, 30)], rule=BROKER_RULE, assumptions=BROKER_ASSUME),
    'C02': dict(coq='Properties/C02.v', drivers=[_broker('C02', 120, 2500)], rule=BROKER_RULE, assumptions=BROKER_ASSUME),
    'C05': dict(coq='Properties/C05.v', drivers=[_broker('C05', 120, 2500), _storm('C05', 'cut,teardown', 3, 40)], rule=BROKER_RULE, assumptions=BROKER_ASSUME),
    'C07': dict(coq='Properties/C07.v', drivers=[_broker('C07', 120, 2500), _storm('C07', 'ackeffect', 3, 30)], rule=BROKER_RULE, assumptions=BROKER_ASSUME),
    'C08': dict(coq='Properties/C08.v', drivers=[_broker('C08', 120, 2500), _storm('C08', 'churn,retrace', 2, 30)], rule=BROKER_RULE, assumptions=BROKER_ASSUME),
    'C09': dict(coq='Properties/C09.v', drivers=[_broker('C09', 120, 2500), _storm('C09', 'graceful', 1, 5)], rule=BROKER_RULE + ' Plus: a slow consumer that leaves gracefully (DISCONNECT queued behind a blocked processor) / without DISCONNECT.', assumptions=BROKER_ASSUME),
    'C10': dict(coq='Properties/C10.v', drivers=[_broker('C10', 120, 2500)], rule=BROKER_RULE, assumptions=BROKER_ASSUME),
    'C11': dict(coq='Properties/C11.v', drivers=[_broker('C11', 120, 2500)], rule=BROKER_RULE, assumptions=BROKER_ASSUME),
    'C14': dict(
        coq='Properties/C14.v',
        drivers=[dict(name='ringdrv', oracle_filter=RING_C14, nontrivial=ring_nontrivial,
                      env=dict(quick=dict(VERIF_RING_N='500', VERIF_RING_CONC='24'), thorough=dict(VERIF_RING_N='6000', VERIF_RING_CONC='200'))),
                 dict(name='schedrv', oracle_filter=RING_C14, nontrivial=sched_nontrivial,
                      env=dict(quick=dict(VERIF_SCHED_RUNS='800', VERIF_SCHED_PER_SCENARIO='40'),
                               thorough=dict(VERIF_SCHED_RUNS='40000', VERIF_SCHED_PER_SCENARIO='2000')))],
        rule='(1) sequential histories of producer/consumer calls on 16..64-byte rings (constant wrap-around) and real-size rings, bytes = '
             'position-dependent stream, compared with Ring/Seq.v; (2) concurrent producer/consumer pairs on real goroutines (Write/Read, '
             'reserve+commit/peek+commit, ReadFrom/WriteTo, writeMessage path) against the stream oracle; (3) forced schedules at the hook '
             'points, traces replayed on Ring/Live.v. Non-trivial: a consumer call returned bytes / two threads took part.',
        assumptions=['Ring/Seq.v, Ring/Conc.v are hand-written models of service/buffer.go; sync/atomic is taken as sequentially consistent; '
                     'single producer / single consumer is a hypothesis of the property'],
    ),
    'C15': dict(
        coq='Properties/C15.v',
        drivers=[dict(name='schedrv', oracle_filter=RING_C15, nontrivial=sched_nontrivial,
                      env=dict(quick=dict(VERIF_SCHED_RUNS='1500', VERIF_SCHED_PER_SCENARIO='80'),
                               thorough=dict(VERIF_SCHED_RUNS='60000', VERIF_SCHED_PER_SCENARIO='3000'))),
                 dict(name='ringdrv', oracle_filter=RING_C15, nontrivial=ring_nontrivial,
                      env=dict(quick=dict(VERIF_RING_N='100', VERIF_RING_CONC='24'), thorough=dict(VERIF_RING_N='500', VERIF_RING_CONC='300')))],
        rule='forced schedules (systematic over the first 14 decisions, then random) of concurrent calls incl. Close (once / repeatedly / from '
             'several goroutines) on empty, partial, full and wrapped 16-byte rings at the lock / condition hook points; each trace replayed '
             'event by event on Ring/Live.v; oracles: parked with true wake condition and nobody about to broadcast, mutex held between calls, '
             'Close or a later call not returning; plus free-running concurrent pairs and Close scenarios under deadlines.',
        assumptions=['Ring/Live.v is a hand-written model of the blocking protocol of service/buffer.go; semantics of sync.Mutex / sync.Cond '
                     'as modelled; scheduler fairness assumed for progress'],
    ),
    'C13': dict(
        coq='Properties/C13.v',
        drivers=[dict(name='ackqdrv', nontrivial=ackq_nontrivial,
                      env=dict(quick=dict(VERIF_ACKQ_N='300', VERIF_ACKQ_DEPTH='4'),
                               thorough=dict(VERIF_ACKQ_N='3000', VERIF_ACKQ_DEPTH='6')))],
        rule='histories of Wait/Ack/Acked on real ack queues of initial capacity 1..16: exhaustively all operation sequences of depth 4 '
             '(quick) / 6 (thorough) over 3 identifiers (register, PUBREC, PUBREL, collect, ping), plus random histories with up to '
             'hundreds of in-flight entries (growth while wrapped). Non-trivial: an Acked() call handed an entry back.',
        assumptions=['Ackq/Model.v is a hand-written model of sessions/ackqueue.go tied to the code by running the same histories (ackqdrv); '
                     'a plain FIFO list in the harness is the specification-level oracle'],
    ),
    'C06': dict(
        coq='Properties/C06.v',
        drivers=[dict(name='topicsdrv', nontrivial=topics_nontrivial,
                      env=dict(quick=dict(VERIF_TOPICS_N='400', VERIF_TOPICS_LEVELS='3'),
                               thorough=dict(VERIF_TOPICS_N='6000', VERIF_TOPICS_LEVELS='4')))],
        rule='histories of Subscribe/Unsubscribe/Subscribers/Retain/Retained on a fresh topics.NewMemProvider(): exhaustive over all '
             'filters x topic names of up to 3 (quick) / 4 (thorough) levels over {a, b, empty, +, #}, plus random histories with '
             'several subscribers over a larger vocabulary incl. malformed levels. Non-trivial: a query returned a non-empty result.',
        assumptions=['Topics/Model.v is a hand-written model of topics/memtopics.go tied to the code by running the same histories '
                     '(topicsdrv, public API + verif export of nextTopicLevel); section 4.7 matcher in the harness is the oracle'],
    ),
    'C03': dict(
        coq='Properties/C03.v',
        drivers=[dict(name='codecdrv', oracle_filter=CODEC_C03, nontrivial=codec_nontrivial,
                      env=dict(quick=dict(VERIF_CODEC_N='1500'), thorough=dict(VERIF_CODEC_N='40000')))],
        rule='API scripts (setters, Len, Encode, Decode, getters) per packet type generated from VERIF_SEED: valid builds, '
             'round trips, mutated/truncated/random inputs, packet-id counter histories; corpus of repaired defects first. '
             'A case is non-trivial when an Encode or a Decode in it succeeded; distinct = distinct script text.',
        assumptions=['the Coq model Codec/Impl.v is a hand-written model of package message, tied to the code by running the same '
                     'API scripts on both (codecdrv); the reference codec in the harness is the specification-level oracle'],
    ),
    'C04': dict(
        coq='Properties/C04.v',
        drivers=[dict(name='codecdrv', oracle_filter=CODEC_C04, nontrivial=codec_nontrivial,
                      env=dict(quick=dict(VERIF_CODEC_N='1500'), thorough=dict(VERIF_CODEC_N='40000')))],
        rule='Decode of random bytes and of truncated / length-corrupted / flag-corrupted / bit-flipped valid packets of all 14 types, '
             'in slices with cap == len, under recover(); field slices checked against the address range of the packet. '
             'A case is non-trivial when an Encode or a Decode in it succeeded; distinct = distinct script text.',
        assumptions=['as C03'],
    ),
}
