#!/bin/bash
# usage: seedtest.sh <patch.diff> <property-id>...   apply a seeded change to /repo, run the checks, undo it
set -u
patch=$1; shift
cd /repo || exit 2
if ! git diff --quiet; then echo "/repo has uncommitted changes"; exit 2; fi
git apply "$patch" || { echo "patch does not apply"; exit 2; }
cd /verif
rm -rf build/evidence.bak && cp -r evidence build/evidence.bak
for p in "$@"; do
  timeout 1800 bin/check "$p" 2>&1 | grep -v "^KNOWN-FINDING" | tail -4
done
rm -rf /verif/evidence && mv /verif/build/evidence.bak /verif/evidence
cd /repo && git checkout -- . && git status --short | head -3
