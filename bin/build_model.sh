#!/bin/bash
# Build the Coq development (full .vo build), extract the models and build the OCaml driver.
set -e
cd /verif/coq
[ -f Makefile ] && [ Makefile -nt _CoqProject ] || coq_makefile -f _CoqProject -o Makefile >/dev/null 2>&1
timeout 3000 make -k -j16 2>&1 | grep -v "^COQDEP\|^COQC\|Warning: \|orphan" || true
[ "${PIPESTATUS[0]}" = 0 ] || exit 1
cd /verif/ocaml
if [ ! -f driver ] || [ -n "$(find /verif/coq -name '*.vo' -newer driver 2>/dev/null | head -1)" ] || [ driver.ml -nt driver ]; then
  cp /verif/coq/Extract/Extract.v .
  coqc $(grep '^-Q' /verif/coq/_CoqProject | sed 's# \([A-Za-z]*\) # /verif/coq/\1 #') Extract.v >/dev/null
  ocamlfind ocamlopt -O3 -w -a model.mli model.ml driver.ml -o driver
fi
