#!/bin/bash
# MANIFEST.setup_cmd: build the framework from files on disk only (offline).
set -e
export GOFLAGS=-mod=mod GOPROXY=off GOSUMDB=off GOTOOLCHAIN=local
cd /verif
mkdir -p build replays/tmp evidence
(cd tools/gentables && go build -o /verif/build/gentables .)
/verif/build/gentables /repo /verif/coq/Gen/Tables.v
bin/build_model.sh
cp -f /repo/go.sum harness/go.sum
for d in harness/cmd/*/; do
  n=$(basename $d)
  (cd harness && go build -tags verif -o /verif/build/$n ./cmd/$n)
done
echo setup-ok
