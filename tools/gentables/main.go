// gentables: the translator of tie T1.  It parses /repo's current working tree with go/parser
// and regenerates coq/Gen/Tables.v: constants, switch tables, case lists and lock regions that
// are syntactically unambiguous in the Go source.  The Coq models are defined in terms of
// these tables, so every theorem that depends on one is re-checked against what the source
// says now.  If a construct it relies on is no longer recognisable it fails loudly (exit 2).
package main

import (
	"bytes"
	"fmt"
	"go/ast"
	"go/parser"
	"go/token"
	"os"
	"path/filepath"
	"sort"
	"strconv"
	"strings"
)

var fset = token.NewFileSet()
var repo = "/repo"

func fail(format string, a ...interface{}) {
	panic(missing{fmt.Sprintf(format, a...)})
}

func fatal(format string, a ...interface{}) {
	fmt.Fprintf(os.Stderr, "gentables: "+format+"\n", a...)
	os.Exit(2)
}

type pkg struct {
	name   string
	files  map[string]*ast.File
	consts map[string]int64 // evaluated integer constants
	strs   map[string]string
}

func loadPkg(dir string) *pkg {
	p := &pkg{name: dir, files: map[string]*ast.File{}, consts: map[string]int64{}, strs: map[string]string{}}
	matches, _ := filepath.Glob(filepath.Join(repo, dir, "*.go"))
	sort.Strings(matches)
	for _, f := range matches {
		base := filepath.Base(f)
		if strings.HasSuffix(base, "_test.go") || strings.HasPrefix(base, "verif_") {
			continue
		}
		af, err := parser.ParseFile(fset, f, nil, parser.ParseComments)
		if err != nil {
			fatal("cannot parse %s: %v", f, err)
		}
		p.files[base] = af
	}
	if len(p.files) == 0 {
		fatal("no Go files in %s", dir)
	}
	// constants (two passes so that references resolve)
	for pass := 0; pass < 3; pass++ {
		for _, af := range p.files {
			for _, d := range af.Decls {
				gd, ok := d.(*ast.GenDecl)
				if !ok || (gd.Tok != token.CONST && gd.Tok != token.VAR) {
					continue
				}
				var lastExprs []ast.Expr
				for iota, s := range gd.Specs {
					vs := s.(*ast.ValueSpec)
					exprs := vs.Values
					if len(exprs) == 0 && gd.Tok == token.CONST {
						exprs = lastExprs
					} else {
						lastExprs = exprs
					}
					for i, n := range vs.Names {
						if i >= len(exprs) {
							continue
						}
						if v, ok := p.eval(exprs[i], int64(iota)); ok {
							p.consts[n.Name] = v
						} else if bl, ok := exprs[i].(*ast.BasicLit); ok && bl.Kind == token.STRING {
							s, _ := strconv.Unquote(bl.Value)
							p.strs[n.Name] = s
						}
					}
				}
			}
		}
	}
	return p
}

func (p *pkg) eval(e ast.Expr, iota int64) (int64, bool) {
	switch e := e.(type) {
	case *ast.BasicLit:
		if e.Kind == token.INT {
			v, err := strconv.ParseInt(e.Value, 0, 64)
			return v, err == nil
		}
		if e.Kind == token.CHAR {
			s, err := strconv.Unquote(e.Value)
			if err == nil && len(s) == 1 {
				return int64(s[0]), true
			}
		}
	case *ast.Ident:
		if e.Name == "iota" {
			return iota, true
		}
		v, ok := p.consts[e.Name]
		return v, ok
	case *ast.SelectorExpr:
		// message.X inside other packages
		if id, ok := e.X.(*ast.Ident); ok && id.Name == "message" && msgPkg != nil {
			v, ok := msgPkg.consts[e.Sel.Name]
			return v, ok
		}
	case *ast.ParenExpr:
		return p.eval(e.X, iota)
	case *ast.CallExpr: // conversions like byte(x), Type(x)
		if len(e.Args) == 1 {
			return p.eval(e.Args[0], iota)
		}
	case *ast.BinaryExpr:
		a, ok1 := p.eval(e.X, iota)
		b, ok2 := p.eval(e.Y, iota)
		if !ok1 || !ok2 {
			return 0, false
		}
		switch e.Op {
		case token.ADD:
			return a + b, true
		case token.SUB:
			return a - b, true
		case token.MUL:
			return a * b, true
		case token.QUO:
			if b != 0 {
				return a / b, true
			}
		case token.SHL:
			return a << uint(b), true
		case token.SHR:
			return a >> uint(b), true
		case token.OR:
			return a | b, true
		case token.AND:
			return a & b, true
		}
	}
	return 0, false
}

var msgPkg *pkg

// a fact the translator could not read off the source is left out of the tables (the Coq files that use it then
// no longer compile: their properties lose their obligations, the others are not affected)
type missing struct{ what string }

var nMissing int

func section(name string, f func()) {
	defer func() {
		if r := recover(); r != nil {
			m, ok := r.(missing)
			if !ok {
				panic(r)
			}
			nMissing++
			emit("(* MISSING (%s): %s *)", name, strings.ReplaceAll(m.what, "*)", "* )"))
			fmt.Fprintf(os.Stderr, "gentables: %s: %s\n", name, m.what)
		}
	}()
	f()
}

func (p *pkg) emitConst(coqName, goName string) {
	section("constant "+goName, func() { emit("Definition %s : N := %d.", coqName, p.mustConst(goName)) })
}

func (p *pkg) mustConst(name string) int64 {
	v, ok := p.consts[name]
	if !ok {
		fail("constant %s.%s not found or not an integer constant", p.name, name)
	}
	return v
}

func (p *pkg) fn(file, recv, name string) *ast.FuncDecl {
	af, ok := p.files[file]
	if !ok {
		fail("file %s/%s not found", p.name, file)
	}
	for _, d := range af.Decls {
		fd, ok := d.(*ast.FuncDecl)
		if !ok || fd.Name.Name != name {
			continue
		}
		r := ""
		if fd.Recv != nil && len(fd.Recv.List) == 1 {
			t := fd.Recv.List[0].Type
			if st, ok := t.(*ast.StarExpr); ok {
				t = st.X
			}
			if id, ok := t.(*ast.Ident); ok {
				r = id.Name
			}
		}
		if r == recv {
			return fd
		}
	}
	fail("function %s.%s in %s/%s not found", recv, name, p.name, file)
	return nil
}

func src(n ast.Node) string {
	var b bytes.Buffer
	start, end := fset.Position(n.Pos()), fset.Position(n.End())
	data, _ := os.ReadFile(start.Filename)
	b.Write(data[start.Offset:end.Offset])
	return b.String()
}

var out bytes.Buffer

func emit(format string, a ...interface{}) { fmt.Fprintf(&out, format+"\n", a...) }

func nlist(xs []int64) string {
	s := make([]string, len(xs))
	for i, x := range xs {
		s[i] = strconv.FormatInt(x, 10)
	}
	return "[" + strings.Join(s, ";") + "]"
}

func coqString(s string) string { return "\"" + strings.ReplaceAll(s, "\"", "\"\"") + "\"" }

// caseValues returns the evaluated values of all case expressions of the first switch in fd whose
// tag source text equals tag (or any switch if tag is ""), excluding default.
func hasSwitchOn(fd *ast.FuncDecl, tag string) bool {
	found := false
	ast.Inspect(fd.Body, func(n ast.Node) bool {
		if sw, ok := n.(*ast.SwitchStmt); ok && sw.Tag != nil && src(sw.Tag) == tag {
			found = true
		}
		return true
	})
	return found
}

func switchOn(p *pkg, fd *ast.FuncDecl, tag string) *ast.SwitchStmt {
	var found *ast.SwitchStmt
	ast.Inspect(fd.Body, func(n ast.Node) bool {
		if sw, ok := n.(*ast.SwitchStmt); ok && found == nil {
			if tag == "" || (sw.Tag != nil && src(sw.Tag) == tag) {
				found = sw
				return false
			}
		}
		return true
	})
	if found == nil {
		fail("switch on %q not found in %s", tag, fd.Name.Name)
	}
	return found
}

// doesUncond: the statement is the call `want`, or a call of a method of the same receiver whose body performs it
// unconditionally (at the top level of its body, possibly through further such helpers)
func doesUncond(p *pkg, es *ast.ExprStmt, want string, depth int) bool {
	if src(es.X) == want {
		return true
	}
	call, ok := es.X.(*ast.CallExpr)
	if !ok || depth > 3 {
		return false
	}
	se, ok := call.Fun.(*ast.SelectorExpr)
	if !ok {
		return false
	}
	id, ok := se.X.(*ast.Ident)
	if !ok || !strings.HasPrefix(want, id.Name+".") {
		return false
	}
	_, fd := p.findMethod("buffer", se.Sel.Name)
	if fd == nil || fd.Body == nil || len(fd.Recv.List[0].Names) != 1 || fd.Recv.List[0].Names[0].Name != id.Name {
		return false
	}
	for _, st := range fd.Body.List {
		if _, isRet := st.(*ast.ReturnStmt); isRet {
			break
		}
		if les, ok := st.(*ast.ExprStmt); ok && doesUncond(p, les, want, depth+1) {
			return true
		}
	}
	return false
}

func main() {
	if len(os.Args) > 1 {
		repo = os.Args[1]
	}
	outPath := "/verif/coq/Gen/Tables.v"
	if len(os.Args) > 2 {
		outPath = os.Args[2]
	}
	msg := loadPkg("message")
	msgPkg = msg
	topics := loadPkg("topics")
	sess := loadPkg("sessions")
	svc := loadPkg("service")

	emit("(* GENERATED by /verif/tools/gentables from /repo's current working tree -- do not edit.")
	emit("   Plain data: constants, switch tables, case lists and lock regions read off the Go source. *)")
	emit("From Coq Require Import List NArith ZArith String.")
	emit("Import ListNotations.")
	emit("Open Scope N_scope.")
	emit("")

	// ---- message: type numbering
	emit("(* message/message.go: packet type numbering (iota block) *)")
	typeNames := []string{"RESERVED", "CONNECT", "CONNACK", "PUBLISH", "PUBACK", "PUBREC", "PUBREL", "PUBCOMP",
		"SUBSCRIBE", "SUBACK", "UNSUBSCRIBE", "UNSUBACK", "PINGREQ", "PINGRESP", "DISCONNECT", "RESERVED2"}
	section("packet type numbering", func() {
	for _, n := range typeNames {
		msg.emitConst("T_"+n, n)
	}
	})
	// Type.Valid: the bounds are the two reserved type numbers (that Valid() tests exactly `lo < t < hi` is shown on the
	// translation of the function: Trans/Equiv.v typeValid_equiv)
	section("bounds of Type.Valid", func() {
		emit("(* Type.Valid: t > valid_lo && t < valid_hi *)")
		emit("Definition valid_lo : N := %d.", msg.mustConst("RESERVED"))
		emit("Definition valid_hi : N := %d.", msg.mustConst("RESERVED2"))
	})
	// DefaultFlags: the function is a switch on t whose clauses return constants; the table is what it returns for the
	// sixteen type numbers (clauses may list several values, there may be a default clause or a final return)
	section("table of Type.DefaultFlags", func() {
		fd := msg.fn("message.go", "Type", "DefaultFlags")
		sw := switchOn(msg, fd, "t")
		retConst := func(list []ast.Stmt) (int64, bool) {
			if len(list) != 1 {
				return 0, false
			}
			ret, ok := list[0].(*ast.ReturnStmt)
			if !ok || len(ret.Results) != 1 {
				return 0, false
			}
			return msg.eval(ret.Results[0], 0)
		}
		table := map[int64]int64{}
		var def int64
		hasDef := false
		for _, c := range sw.Body.List {
			cc := c.(*ast.CaseClause)
			v, ok := retConst(cc.Body)
			if !ok {
				fail("DefaultFlags: a case body is not the return of a constant")
			}
			if cc.List == nil {
				def, hasDef = v, true
				continue
			}
			for _, e := range cc.List {
				k, ok := msg.eval(e, 0)
				if !ok {
					fail("DefaultFlags: case value not constant")
				}
				if _, dup := table[k]; !dup {
					table[k] = v
				}
			}
		}
		if !hasDef {
			// what follows the switch
			idx := -1
			for k, st := range fd.Body.List {
				if st == ast.Stmt(sw) {
					idx = k
				}
			}
			if idx < 0 || idx+2 != len(fd.Body.List) {
				fail("DefaultFlags: the switch is not followed by a single return")
			}
			v, ok := retConst(fd.Body.List[idx+1:])
			if !ok {
				fail("DefaultFlags: fall-through result is not a constant")
			}
			def = v
		}
		var ents []string
		for t := int64(0); t < 16; t++ {
			v, ok := table[t]
			if !ok {
				v = def
			}
			ents = append(ents, fmt.Sprintf("(%d,%d)", t, v))
		}
		emit("(* Type.DefaultFlags, for the type numbers 0..15 *)")
		emit("Definition default_flags_table : list (N * N) :=\n  [%s].", strings.Join(ents, ";"))
	})
	// msglen thresholds
	section("fact group 3", func() {
		fd := msg.fn("header.go", "header", "msglen")
		// every comparison of the remaining length with a constant, in ascending order of the constant (whether they
		// are tested by an if chain or a switch, and how the result is computed, is shown on the translation of the
		// function: Trans/Equiv.v msglen_equiv)
		var th []int64
		ast.Inspect(fd.Body, func(n ast.Node) bool {
			be, ok := n.(*ast.BinaryExpr)
			if !ok {
				return true
			}
			x, y := src(be.X), src(be.Y)
			var k ast.Expr
			adj := int64(0)
			switch {
			case x == "h.remlen" && be.Op == token.LEQ:
				k = be.Y
			case x == "h.remlen" && be.Op == token.LSS:
				k, adj = be.Y, -1
			case y == "h.remlen" && be.Op == token.GEQ:
				k = be.X
			case y == "h.remlen" && be.Op == token.GTR:
				k, adj = be.X, -1
			default:
				return true
			}
			v, ok := msg.eval(k, 0)
			if !ok {
				fail("header.msglen: threshold not constant")
			}
			th = append(th, v+adj)
			return true
		})
		sort.Slice(th, func(i, j int) bool { return th[i] < th[j] })
		if len(th) != 3 {
			fail("header.msglen: expected 3 thresholds, found %d", len(th))
		}
		emit("(* message/header.go msglen thresholds; message/message.go limits *)")
		emit("Definition msglen_thresholds : list N := %s.", nlist(th))
	})
	msg.emitConst("maxRemainingLength", "maxRemainingLength")
	msg.emitConst("maxLPString", "maxLPString")
	msg.emitConst("maxFixedHeaderLength", "maxFixedHeaderLength")
	emit("(* QoS constants *)")
	for _, n := range []string{"QosAtMostOnce", "QosAtLeastOnce", "QosExactlyOnce", "QosFailure"} {
		msg.emitConst(""+n, n)
	}
	// SupportedVersions
	section("fact group 4", func() {
		var ents []string
		found := false
		for _, af := range msg.files {
			ast.Inspect(af, func(n ast.Node) bool {
				vs, ok := n.(*ast.ValueSpec)
				if !ok || len(vs.Names) != 1 || vs.Names[0].Name != "SupportedVersions" || len(vs.Values) != 1 {
					return true
				}
				cl, ok := vs.Values[0].(*ast.CompositeLit)
				if !ok {
					fail("SupportedVersions is not a composite literal")
				}
				found = true
				for _, el := range cl.Elts {
					kv := el.(*ast.KeyValueExpr)
					k, ok := msg.eval(kv.Key, 0)
					bl, ok2 := kv.Value.(*ast.BasicLit)
					if !ok || !ok2 {
						fail("SupportedVersions entry not constant")
					}
					s, _ := strconv.Unquote(bl.Value)
					var bs []int64
					for _, c := range []byte(s) {
						bs = append(bs, int64(c))
					}
					ents = append(ents, fmt.Sprintf("(%d, %s)", k, nlist(bs)))
				}
				return false
			})
		}
		if !found {
			fail("SupportedVersions not found")
		}
		sort.Strings(ents)
		emit("(* SupportedVersions map *)")
		emit("Definition supported_versions : list (N * list N) :=\n  [%s].", strings.Join(ents, "; "))
	})
	// suback accepted codes: from the Decode loop condition  code != a && code != b ...
	section("fact group 5", func() {
		// the return codes a SUBACK may carry: every loop over m.returnCodes in suback.go that rejects codes - by a
		// conjunction `code != c1 && code != c2 ...` or by a switch on the code whose default clause rejects - names the
		// same set of accepted codes
		af, ok := msg.files["suback.go"]
		if !ok {
			fail("message/suback.go not found")
		}
		var sets [][]int64
		ast.Inspect(af, func(n ast.Node) bool {
			rs, ok := n.(*ast.RangeStmt)
			if !ok || !strings.HasSuffix(src(rs.X), "returnCodes") || rs.Value == nil {
				return true
			}
			v := src(rs.Value)
			var codes []int64
			ast.Inspect(rs.Body, func(n ast.Node) bool {
				switch st := n.(type) {
				case *ast.IfStmt:
					var walk func(e ast.Expr) bool
					walk = func(e ast.Expr) bool {
						if pe, ok := e.(*ast.ParenExpr); ok {
							return walk(pe.X)
						}
						be, ok := e.(*ast.BinaryExpr)
						if !ok {
							return false
						}
						if be.Op == token.LAND {
							return walk(be.X) && walk(be.Y)
						}
						x, y := be.X, be.Y
						if src(y) == v {
							x, y = y, x
						}
						if be.Op != token.NEQ || src(x) != v {
							return false
						}
						c, ok := msg.eval(y, 0)
						if !ok {
							return false
						}
						codes = append(codes, c)
						return true
					}
					saved := codes
					if !walk(st.Cond) {
						codes = saved
					}
				case *ast.SwitchStmt:
					if st.Tag == nil || src(st.Tag) != v {
						return true
					}
					hasDefault := false
					var cs []int64
					for _, cl := range st.Body.List {
						cc := cl.(*ast.CaseClause)
						if cc.List == nil {
							hasDefault = true
							continue
						}
						for _, e := range cc.List {
							if c, ok := msg.eval(e, 0); ok && len(cc.Body) == 0 {
								cs = append(cs, c)
							}
						}
					}
					if hasDefault {
						codes = append(codes, cs...)
					}
				}
				return true
			})
			if len(codes) > 0 {
				sort.Slice(codes, func(i, j int) bool { return codes[i] < codes[j] })
				sets = append(sets, codes)
			}
			return true
		})
		if len(sets) == 0 {
			fail("suback.go: no check of the return codes found")
		}
		for _, cs := range sets[1:] {
			if fmt.Sprint(cs) != fmt.Sprint(sets[0]) {
				fail("suback.go: the checks of the return codes accept different sets: %v, %v", sets[0], cs)
			}
		}
		emit("(* suback.go accepted return codes; connack.go largest code *)")
		emit("Definition suback_codes : list N := %s.", nlist(sets[0]))
	})
	section("fact group 6", func() {
		fd := msg.fn("connack.go", "ConnackMessage", "Decode")
		var maxc int64 = -1
		ast.Inspect(fd.Body, func(n ast.Node) bool {
			if is, ok := n.(*ast.IfStmt); ok {
				if be, ok := is.Cond.(*ast.BinaryExpr); ok && be.Op == token.GTR {
					if _, isIdent := be.X.(*ast.Ident); isIdent {
						if v, ok := msg.eval(be.Y, 0); ok {
							maxc = v
						}
					}
				}
				if be, ok := is.Cond.(*ast.BinaryExpr); ok && be.Op == token.LSS {
					if _, isIdent := be.Y.(*ast.Ident); isIdent {
						if v, ok := msg.eval(be.X, 0); ok {
							maxc = v
						}
					}
				}
			}
			return true
		})
		if maxc < 0 {
			fail("connack Decode: return code bound (b > K) not found")
		}
		emit("Definition connack_max_code : N := %d.", maxc)
	})
	emit("")

	// ---- topics
	emit("(* topics/topics.go wildcard and separator characters; memtopics.go MaxQosAllowed *)")
	for _, n := range []string{"MWC", "SWC", "SEP", "SYS"} {
		s, ok := topics.strs[n]
		if !ok || len(s) != 1 {
			fail("topics.%s is not a one-character string constant", n)
		}
		emit("Definition %s : N := %d.", n, s[0])
	}
	section("fact group 7", func() {
		found := false
		for _, af := range topics.files {
			ast.Inspect(af, func(n ast.Node) bool {
				vs, ok := n.(*ast.ValueSpec)
				if ok && len(vs.Names) == 1 && vs.Names[0].Name == "MaxQosAllowed" && len(vs.Values) == 1 {
					v, ok := topics.eval(vs.Values[0], 0)
					if !ok {
						fail("MaxQosAllowed is not a constant expression")
					}
					emit("Definition MaxQosAllowed : N := %d.", v)
					found = true
				}
				return true
			})
		}
		if !found {
			fail("MaxQosAllowed not found")
		}
	})
	emit("")

	// ---- sessions
	emit("(* sessions/session.go, ackqueue.go *)")
	sess.emitConst("defaultQueueSize", "defaultQueueSize")
	caseList := func(fd *ast.FuncDecl, tag string, which int) []int64 {
		sw := switchOn(sess, fd, tag)
		n := 0
		for _, c := range sw.Body.List {
			cc := c.(*ast.CaseClause)
			if cc.List == nil {
				continue
			}
			if n == which {
				var vs []int64
				for _, e := range cc.List {
					v, ok := sess.eval(e, 0)
					if !ok {
						fail("%s: case value %s not constant", fd.Name.Name, src(e))
					}
					vs = append(vs, v)
				}
				return vs
			}
			n++
		}
		fail("%s: case clause %d not found", fd.Name.Name, which)
		return nil
	}
	section("Ackqueue.Acked states", func() {
		emit("(* Ackqueue.Acked: states in which the head entry is released *)")
		acked := sess.fn("ackqueue.go", "Ackqueue", "Acked")
		tag := "aq.ring[aq.head].State"
		fd, swTag := acked, tag
		if !hasSwitchOn(acked, tag) {
			// the test may have been factored out: a function of the package applied to the state, with a switch on its parameter
			ast.Inspect(acked.Body, func(n ast.Node) bool {
				ce, ok := n.(*ast.CallExpr)
				if !ok || len(ce.Args) != 1 || src(ce.Args[0]) != tag {
					return true
				}
				if id, ok := ce.Fun.(*ast.Ident); ok {
					if _, pfd := sess.findMethod("", id.Name); pfd != nil && len(pfd.Type.Params.List) == 1 && len(pfd.Type.Params.List[0].Names) == 1 {
						fd, swTag = pfd, pfd.Type.Params.List[0].Names[0].Name
					}
				}
				return true
			})
		}
		emit("Definition acked_terminal_states : list N := %s.", nlist(caseList(fd, swTag, 0)))
	})
	section("Ackqueue.Ack types", func() {
		emit("(* Ackqueue.Ack: acknowledgement types that update an indexed entry; then the ping case *)")
		emit("Definition ack_indexed_types : list N := %s.", nlist(caseList(sess.fn("ackqueue.go", "Ackqueue", "Ack"), "msg.Type()", 0)))
		emit("Definition ack_ping_types : list N := %s.", nlist(caseList(sess.fn("ackqueue.go", "Ackqueue", "Ack"), "msg.Type()", 1)))
	})
	emit("")

	// ---- service
	emit("(* service/buffer.go, client.go, server.go *)")
	for _, n := range []string{"defaultBufferSize", "defaultReadBlockSize", "defaultWriteBlockSize", "minKeepAlive",
		"DefaultKeepAlive", "DefaultConnectTimeout", "DefaultAckTimeout", "DefaultTimeoutRetries"} {
		svc.emitConst(""+n, n)
	}
	// read deadline expression in receiver: d: keepAlive + (keepAlive / K)
	section("fact group 8", func() {
		// wherever in sendrecv.go the timeoutReader is built: its field d is X + X / K for one duration X
		af, ok := svc.files["sendrecv.go"]
		if !ok {
			fail("service/sendrecv.go not found")
		}
		var div int64 = -1
		ast.Inspect(af, func(n ast.Node) bool {
			be, ok := n.(*ast.BinaryExpr)
			if !ok || be.Op != token.ADD {
				return true
			}
			y := be.Y
			if pe, ok := y.(*ast.ParenExpr); ok {
				y = pe.X
			}
			de, ok := y.(*ast.BinaryExpr)
			if !ok || de.Op != token.QUO || src(de.X) != src(be.X) {
				return true
			}
			if v, ok := svc.eval(de.Y, 0); ok {
				if div >= 0 && div != v {
					fail("sendrecv.go: two different read deadline expressions")
				}
				div = v
			}
			return true
		})
		if div < 0 {
			fail("receiver: read deadline expression not found")
		}
		emit("(* receiver: read deadline = keepAlive + keepAlive / keepalive_grace_divisor *)")
		emit("Definition keepalive_grace_divisor : N := %d.", div)
	})
	// timeoutReader.Read: the deadline is re-armed, unconditionally and from the current time, by the first
	// statement of every Read; the only other statement reads from the connection
	section("fact group 9", func() {
		fd := svc.fn("sendrecv.go", "timeoutReader", "Read")
		ok := len(fd.Body.List) == 2
		if ok {
			is, isIf := fd.Body.List[0].(*ast.IfStmt)
			ok = isIf && is.Init != nil && is.Else == nil &&
				src(is.Init) == "err := r.conn.SetReadDeadline(time.Now().Add(r.d))" && src(is.Cond) == "err != nil"
			rs, isRet := fd.Body.List[1].(*ast.ReturnStmt)
			ok = ok && isRet && len(rs.Results) == 1 && src(rs.Results[0]) == "r.conn.Read(b)"
		}
		emit("(* timeoutReader.Read re-arms the read deadline (time.Now() + d) at every read and then reads *)")
		emit("Definition reader_rearms_every_read : bool := %v.", ok)
	})
	// buffer.ReadFrom / buffer.WriteTo: the goroutine that leaves the copy loop closes the ring (first statement
	// is `defer bf.Close()`), which is what releases a producer / consumer blocked on the other side
	for _, fn := range []string{"ReadFrom", "WriteTo"} {
		fd := svc.fn("buffer.go", "buffer", fn)
		ok := false
		if len(fd.Body.List) > 0 {
			if ds, isDefer := fd.Body.List[0].(*ast.DeferStmt); isDefer {
				ok = src(ds.Call) == "bf.Close()"
			}
		}
		emit("Definition %s_closes_ring : bool := %v.", strings.ToLower(fn), ok)
	}
	// processor: its deferred function calls stop() (the teardown of a connection whose socket was cut starts there)
	section("fact group 10", func() {
		fd := svc.fn("process.go", "service", "processor")
		ok := false
		if len(fd.Body.List) > 0 {
			if ds, isDefer := fd.Body.List[0].(*ast.DeferStmt); isDefer {
				ast.Inspect(ds.Call, func(n ast.Node) bool {
					if ce, isCall := n.(*ast.CallExpr); isCall && src(ce) == "p.stop()" {
						ok = true
					}
					return true
				})
			}
		}
		emit("Definition processor_exit_calls_stop : bool := %v.", ok)
	})
	// order of the two topic-store operations of a publish (retain the message, look the subscribers up) and of a
	// subscription (register, read the retained messages)
	section("fact group 11", func() {
		callPos := func(fd *ast.FuncDecl, suffix string) token.Pos {
			pos := token.NoPos
			ast.Inspect(fd.Body, func(n ast.Node) bool {
				if ce, ok := n.(*ast.CallExpr); ok && pos == token.NoPos && strings.HasSuffix(src(ce.Fun), suffix) {
					pos = ce.Pos()
				}
				return true
			})
			if pos == token.NoPos {
				fail("%s: no call of %s", fd.Name.Name, suffix)
			}
			return pos
		}
		onp := svc.fn("process.go", "service", "onPublish")
		spub := svc.fn("server.go", "Server", "Publish")
		psub := svc.fn("process.go", "service", "processSubscribe")
		emit("(* onPublish and Server.Publish store a retained message BEFORE they look the subscribers up *)")
		emit("Definition publish_retains_before_lookup : bool := %v.",
			callPos(onp, "topicsMgr.Retain") < callPos(onp, "topicsMgr.Subscribers") && callPos(spub, "topicsMgr.Retain") < callPos(spub, "topicsMgr.Subscribers"))
		emit("(* processSubscribe registers the subscription BEFORE it reads the retained messages *)")
		emit("Definition subscribe_registers_before_retained : bool := %v.", callPos(psub, "topicsMgr.Subscribe") < callPos(psub, "topicsMgr.Retained"))
	})
	// ring buffer: every store of a cursor is followed, unconditionally and in the same block, by the broadcast on
	// the condition variable the other side waits on (cseq -> pcond, pseq -> ccond); and WriteTo hands a block to the
	// writer BEFORE it commits it (the block is a view into the ring)
	section("fact group 12", func() {
		af := svc.files["buffer.go"]
		okAll, stores := true, 0
		ast.Inspect(af, func(n ast.Node) bool {
			blk, ok := n.(*ast.BlockStmt)
			if !ok {
				return true
			}
			for i, st := range blk.List {
				es, ok := st.(*ast.ExprStmt)
				if !ok {
					continue
				}
				call := src(es.X)
				want := ""
				switch {
				case strings.HasPrefix(call, "bf.cseq.set("):
					want = "bf.pcond.Broadcast()"
				case strings.HasPrefix(call, "bf.pseq.set("):
					want = "bf.ccond.Broadcast()"
				default:
					continue
				}
				stores++
				found := false
				for _, later := range blk.List[i+1:] {
					if _, isRet := later.(*ast.ReturnStmt); isRet {
						break
					}
					if les, ok := later.(*ast.ExprStmt); ok && doesUncond(svc, les, want, 0) {
						found = true
						break
					}
				}
				if !found {
					okAll = false
				}
			}
			return true
		})
		emit("(* buffer.go: each of the %d cursor stores is followed unconditionally by the other side's broadcast *)", stores)
		emit("Definition cursor_stores_broadcast : bool := %v.", okAll && stores > 0)
		wt := svc.fn("buffer.go", "buffer", "WriteTo")
		wpos, cpos := token.NoPos, token.NoPos
		ast.Inspect(wt.Body, func(n ast.Node) bool {
			if ce, ok := n.(*ast.CallExpr); ok {
				switch src(ce.Fun) {
				case "w.Write":
					if wpos == token.NoPos {
						wpos = ce.Pos()
					}
				case "bf.ReadCommit":
					if cpos == token.NoPos {
						cpos = ce.Pos()
					}
				}
			}
			return true
		})
		emit("(* buffer.WriteTo: the peeked block is written out before it is committed *)")
		emit("Definition writeto_writes_before_commit : bool := %v.", wpos != token.NoPos && cpos != token.NoPos && wpos < cpos)
	})
	// processAcked switch on ackmsg.State
	section("fact group 13", func() {
		// the acknowledged states in which the stored PUBLISH is handed on: wherever in process.go onPublish is called
		// under a condition on the State of an acknowledged entry - a clause of a switch on X.State, or an
		// `if X.State == C (|| ...)` - that condition names them
		af, ok := svc.files["process.go"]
		if !ok {
			fail("service/process.go not found")
		}
		var pubs []int64
		found := false
		var stack []ast.Node
		ast.Inspect(af, func(n ast.Node) bool {
			if n == nil {
				stack = stack[:len(stack)-1]
				return true
			}
			stack = append(stack, n)
			ce, ok := n.(*ast.CallExpr)
			if !ok {
				return true
			}
			se, ok := ce.Fun.(*ast.SelectorExpr)
			if !ok || se.Sel.Name != "onPublish" {
				return true
			}
			// innermost enclosing condition on a State
			for i := len(stack) - 2; i >= 0; i-- {
				switch st := stack[i].(type) {
				case *ast.CaseClause:
					if i > 1 {
						if sw, ok := stack[i-2].(*ast.SwitchStmt); ok && sw.Tag != nil && strings.HasSuffix(src(sw.Tag), ".State") && st.List != nil {
							for _, e := range st.List {
								if v, ok := svc.eval(e, 0); ok {
									pubs = append(pubs, v)
									found = true
								}
							}
							return true
						}
					}
				case *ast.IfStmt:
					// only if the call is in the then-branch
					if i+1 < len(stack) && stack[i+1] == ast.Node(st.Body) {
						var vals []int64
						var walk func(e ast.Expr) bool
						walk = func(e ast.Expr) bool {
							if pe, ok := e.(*ast.ParenExpr); ok {
								return walk(pe.X)
							}
							be, ok := e.(*ast.BinaryExpr)
							if !ok {
								return false
							}
							if be.Op == token.LOR {
								return walk(be.X) && walk(be.Y)
							}
							x, y := be.X, be.Y
							if strings.HasSuffix(src(y), ".State") {
								x, y = y, x
							}
							if be.Op != token.EQL || !strings.HasSuffix(src(x), ".State") {
								return false
							}
							v, ok := svc.eval(y, 0)
							if ok {
								vals = append(vals, v)
							}
							return ok
						}
						if walk(st.Cond) {
							pubs = append(pubs, vals...)
							found = true
							return true
						}
					}
				case *ast.FuncDecl:
					return true
				}
			}
			return true
		})
		if !found {
			fail("process.go: no call of onPublish under a condition on the state of an acknowledged entry")
		}
		sort.Slice(pubs, func(i, j int) bool { return pubs[i] < pubs[j] })
		emit("(* processAcked: states that hand the stored PUBLISH on *)")
		emit("Definition acked_publish_states : list N := %s.", nlist(pubs))
	})
	// newBuffer: how the constructor initialises the ring (the hypotheses of the theorems about the translated methods)
	section("fact group 14", func() {
		af, ok := svc.files["buffer.go"]
		if !ok {
			fail("service/buffer.go not found")
		}
		inits := map[string]string{}
		found := false
		ast.Inspect(af, func(n ast.Node) bool {
			cl, ok := n.(*ast.CompositeLit)
			if !ok {
				return true
			}
			if id, ok := cl.Type.(*ast.Ident); !ok || id.Name != "buffer" {
				return true
			}
			found = true
			for _, el := range cl.Elts {
				if kv, ok := el.(*ast.KeyValueExpr); ok {
					inits[src(kv.Key)] = strings.Join(strings.Fields(src(kv.Value)), "")
				}
			}
			return true
		})
		if !found {
			fail("no composite literal of type buffer in service/buffer.go")
		}
		text := ""
		for _, d := range af.Decls {
			if fd, ok := d.(*ast.FuncDecl); ok && fd.Name.Name != "powerOfTwo64" && fd.Name.Name != "roundUpPowerOfTwo64" {
				text += src(fd)
			}
		}
		emit("(* newBuffer: the ring is created with mask = size - 1 and size bytes, after rounding the size up to a power of two *)")
		emit("Definition ring_ctor_mask_is_size_minus_1 : bool := %v.", inits["mask"] == "size-1" && inits["size"] == "size")
		emit("Definition ring_ctor_buf_has_size_bytes : bool := %v.", inits["buf"] == "make([]byte,size)")
		emit("Definition ring_ctor_rounds_size_up : bool := %v.", strings.Contains(text, "powerOfTwo64(size)") && strings.Contains(text, "size = roundUpPowerOfTwo64(size)"))
	})
	emit("")
	section("lock regions, field accesses and call table", func() {
		genLocks(map[string]*pkg{"service": svc, "topics": topics, "sessions": sess})
	})
	section("order of the teardown actions", func() { genStopOrder(svc) })
	section("ring roles", func() { genRingRoles(svc) })

	if emitTranslated(filepath.Join(filepath.Dir(outPath), "Translated.v"), msg, topics, sess, svc) {
		fmt.Println("gentables: Translated.v updated")
	}
	old, _ := os.ReadFile(outPath)
	if !bytes.Equal(old, out.Bytes()) {
		if err := os.WriteFile(outPath, out.Bytes(), 0o644); err != nil {
			fatal("%v", err)
		}
		fmt.Println("gentables: Tables.v updated")
	} else {
		fmt.Println("gentables: Tables.v unchanged")
	}
	if nMissing > 0 {
		fmt.Fprintf(os.Stderr, "gentables: %d fact group(s) could not be read off the source and are left out\n", nMissing)
		os.Exit(3)
	}
}

func writeIfChanged(path, content string) bool {
	old, _ := os.ReadFile(path)
	if string(old) == content {
		return false
	}
	if err := os.WriteFile(path, []byte(content), 0o644); err != nil {
		fail("%v", err)
	}
	return true
}
