// seq.go: the sequential reading of the blocking byte ring (service/buffer.go), a pre-pass of the translator
// (trans.go).  The methods of the ring synchronise with mutexes and condition variables; run by ONE thread to
// completion (the reading of Ring/Seq.v, and of the sequential correspondence of ringdrv) a lock, an unlock, a
// broadcast and a hook point do nothing, an atomic load / store is a plain load / store, and a call of Cond.Wait
// never returns: the method blocks.  The pre-pass rewrites a fresh parse of the package accordingly:
//
//	vpoint(..), X.L.Lock(), X.L.Unlock(), X.Broadcast(), X.Signal()   (X a *sync.Cond field)      dropped
//	X.Wait()                                                          return <zero values>, errBlocked
//	atomic.LoadInt64(&E) / atomic.StoreInt64(&E, v)                   E / E = v
//	bf.S.m(args), S a field of a struct type of the package whose
//	  method m is one statement                                       the statement / returned expression, inlined
//	bf.S.f                                                            the flattened field bf.S_f
//	for init; cond; post { body } whose body always returns           init; if cond { body }
//
// What the concurrent execution adds to this reading is the subject of Ring/Conc.v and Ring/Live.v (tie T3).
package main

import (
	"go/ast"
	"go/token"
)

const errBlockedName = "errBlocked__"

type seqRw struct {
	p      *pkg
	recv   string            // receiver variable of the function being rewritten
	conds  map[string]bool   // fields of type *sync.Cond
	nested map[string]string // field -> struct type of the package (pointer or value)
	res    []string          // result kinds of the function being rewritten
}

// fieldTypes returns the source text of the type of every field of a struct type
func (p *pkg) fieldTypes(name string) map[string]string {
	res := map[string]string{}
	for _, af := range p.files {
		for _, d := range af.Decls {
			gd, ok := d.(*ast.GenDecl)
			if !ok || gd.Tok != token.TYPE {
				continue
			}
			for _, sp := range gd.Specs {
				ts := sp.(*ast.TypeSpec)
				st, ok := ts.Type.(*ast.StructType)
				if !ok || ts.Name.Name != name {
					continue
				}
				for _, f := range st.Fields.List {
					for _, n := range f.Names {
						res[n.Name] = src(f.Type)
					}
				}
			}
		}
	}
	return res
}

func (p *pkg) isStruct(name string) bool {
	for _, af := range p.files {
		for _, d := range af.Decls {
			if gd, ok := d.(*ast.GenDecl); ok && gd.Tok == token.TYPE {
				for _, sp := range gd.Specs {
					ts := sp.(*ast.TypeSpec)
					if _, ok := ts.Type.(*ast.StructType); ok && ts.Name.Name == name {
						return true
					}
				}
			}
		}
	}
	return false
}

// seqRewrite rewrites every method of recvType (and nothing else) in place
func seqRewrite(p *pkg, recvType string) {
	rw := &seqRw{p: p, conds: map[string]bool{}, nested: map[string]string{}}
	for f, t := range p.fieldTypes(recvType) {
		switch {
		case t == "*sync.Cond":
			rw.conds[f] = true
		case len(t) > 1 && t[0] == '*' && p.isStruct(t[1:]):
			rw.nested[f] = t[1:]
		case p.isStruct(t):
			rw.nested[f] = t
		}
	}
	for _, af := range p.files {
		for _, d := range af.Decls {
			fd, ok := d.(*ast.FuncDecl)
			if !ok || fd.Recv == nil || len(fd.Recv.List) != 1 || len(fd.Recv.List[0].Names) != 1 || fd.Body == nil {
				continue
			}
			t := fd.Recv.List[0].Type
			if st, ok := t.(*ast.StarExpr); ok {
				t = st.X
			}
			if id, ok := t.(*ast.Ident); !ok || id.Name != recvType {
				continue
			}
			rw.recv = fd.Recv.List[0].Names[0].Name
			rw.res = nil
			if fd.Type.Results != nil {
				for _, f := range fd.Type.Results.List {
					n := len(f.Names)
					if n == 0 {
						n = 1
					}
					for i := 0; i < n; i++ {
						rw.res = append(rw.res, kindOfType(f.Type))
					}
				}
			}
			fd.Body.List = rw.stmts(fd.Body.List)
		}
	}
}

func (rw *seqRw) isRecv(e ast.Expr) bool {
	id, ok := e.(*ast.Ident)
	return ok && id.Name == rw.recv
}

// recv.F  (F any field)
func (rw *seqRw) recvField(e ast.Expr) (string, bool) {
	if se, ok := e.(*ast.SelectorExpr); ok && rw.isRecv(se.X) {
		return se.Sel.Name, true
	}
	return "", false
}

func (rw *seqRw) blocked(pos token.Pos) ast.Stmt {
	var rs []ast.Expr
	for _, k := range rw.res {
		switch k {
		case "int":
			rs = append(rs, &ast.BasicLit{Kind: token.INT, Value: "0", ValuePos: pos})
		case "bool":
			rs = append(rs, &ast.Ident{Name: "false", NamePos: pos})
		case "bytes":
			rs = append(rs, &ast.Ident{Name: "nil", NamePos: pos})
		case "err":
			rs = append(rs, &ast.Ident{Name: errBlockedName, NamePos: pos})
		default:
			fail("sequential reading: a blocking method with a result of unsupported type")
		}
	}
	return &ast.ReturnStmt{Return: pos, Results: rs}
}

// the method m of the struct type t, if its body is a single statement
func (rw *seqRw) oneStmtMethod(t, m string) (*ast.FuncDecl, ast.Stmt) {
	_, fd := rw.p.findMethod(t, m)
	if fd == nil || fd.Body == nil || len(fd.Body.List) != 1 || len(fd.Recv.List[0].Names) != 1 {
		return nil, nil
	}
	return fd, fd.Body.List[0]
}

// subst copies an expression, replacing the identifiers of the map (parameters, and the receiver by an expression)
func subst(e ast.Expr, m map[string]ast.Expr) ast.Expr {
	switch e := e.(type) {
	case *ast.Ident:
		if r, ok := m[e.Name]; ok {
			return r
		}
		return e
	case *ast.ParenExpr:
		return &ast.ParenExpr{Lparen: e.Lparen, X: subst(e.X, m), Rparen: e.Rparen}
	case *ast.SelectorExpr:
		return &ast.SelectorExpr{X: subst(e.X, m), Sel: e.Sel}
	case *ast.UnaryExpr:
		return &ast.UnaryExpr{OpPos: e.OpPos, Op: e.Op, X: subst(e.X, m)}
	case *ast.BinaryExpr:
		return &ast.BinaryExpr{X: subst(e.X, m), OpPos: e.OpPos, Op: e.Op, Y: subst(e.Y, m)}
	case *ast.CallExpr:
		var args []ast.Expr
		for _, a := range e.Args {
			args = append(args, subst(a, m))
		}
		fun := e.Fun
		if _, isSel := fun.(*ast.SelectorExpr); isSel {
			if x := fun.(*ast.SelectorExpr); !isPkgName(x.X) {
				fun = subst(fun, m)
			}
		}
		return &ast.CallExpr{Fun: fun, Lparen: e.Lparen, Args: args, Ellipsis: e.Ellipsis, Rparen: e.Rparen}
	case *ast.BasicLit:
		return e
	}
	fail("sequential reading: cannot inline an expression of this form")
	return nil
}

func isPkgName(e ast.Expr) bool {
	id, ok := e.(*ast.Ident)
	return ok && (id.Name == "atomic" || id.Name == "binary" || id.Name == "bytes" || id.Name == "fmt" || id.Name == "errors" || id.Name == "io" || id.Name == "bufio")
}

// expr rewrites an expression bottom-up
func (rw *seqRw) expr(e ast.Expr) ast.Expr {
	switch e := e.(type) {
	case nil:
		return nil
	case *ast.ParenExpr:
		e.X = rw.expr(e.X)
		return e
	case *ast.UnaryExpr:
		e.X = rw.expr(e.X)
		return e
	case *ast.BinaryExpr:
		e.X, e.Y = rw.expr(e.X), rw.expr(e.Y)
		return e
	case *ast.IndexExpr:
		e.X, e.Index = rw.expr(e.X), rw.expr(e.Index)
		return e
	case *ast.SliceExpr:
		e.X, e.Low, e.High, e.Max = rw.expr(e.X), rw.expr(e.Low), rw.expr(e.High), rw.expr(e.Max)
		return e
	case *ast.SelectorExpr:
		// bf.S.f  ->  bf.S_f
		if inner, ok := e.X.(*ast.SelectorExpr); ok && rw.isRecv(inner.X) {
			if _, isNested := rw.nested[inner.Sel.Name]; isNested {
				return &ast.SelectorExpr{X: inner.X, Sel: &ast.Ident{Name: inner.Sel.Name + "_" + e.Sel.Name, NamePos: e.Sel.NamePos}}
			}
		}
		return e
	case *ast.CallExpr:
		for i := range e.Args {
			e.Args[i] = rw.expr(e.Args[i])
		}
		if se, ok := e.Fun.(*ast.SelectorExpr); ok {
			// atomic.LoadInt64(&E)
			if id, ok := se.X.(*ast.Ident); ok && id.Name == "atomic" && (se.Sel.Name == "LoadInt64" || se.Sel.Name == "LoadUint64" || se.Sel.Name == "LoadInt32") && len(e.Args) == 1 {
				if ue, ok := e.Args[0].(*ast.UnaryExpr); ok && ue.Op == token.AND {
					return ue.X
				}
			}
			// bf.S.m(args) with a one-statement method returning an expression
			if f, ok := rw.recvField(se.X); ok {
				if t, isNested := rw.nested[f]; isNested {
					if fd, st := rw.oneStmtMethod(t, se.Sel.Name); fd != nil {
						if rs, ok := st.(*ast.ReturnStmt); ok && len(rs.Results) == 1 {
							return rw.expr(subst(rs.Results[0], rw.bind(fd, se.X, e.Args)))
						}
					}
				}
			}
		}
		return e
	}
	return e
}

func (rw *seqRw) bind(fd *ast.FuncDecl, recv ast.Expr, args []ast.Expr) map[string]ast.Expr {
	m := map[string]ast.Expr{fd.Recv.List[0].Names[0].Name: recv}
	i := 0
	for _, f := range fd.Type.Params.List {
		for _, n := range f.Names {
			if i < len(args) {
				m[n.Name] = args[i]
			}
			i++
		}
	}
	if i != len(args) {
		fail("sequential reading: argument count of an inlined call")
	}
	return m
}

func terminates(list []ast.Stmt) bool {
	if len(list) == 0 {
		return false
	}
	switch s := list[len(list)-1].(type) {
	case *ast.ReturnStmt:
		return true
	case *ast.BlockStmt:
		return terminates(s.List)
	case *ast.IfStmt:
		if el, ok := s.Else.(*ast.BlockStmt); ok {
			return terminates(s.Body.List) && terminates(el.List)
		}
	}
	return false
}

func (rw *seqRw) stmts(list []ast.Stmt) []ast.Stmt {
	var out []ast.Stmt
	for _, s := range list {
		out = append(out, rw.stmt(s)...)
		if terminates(out) {
			break // what follows a statement that always returns is dead (the hook point after a Wait)
		}
	}
	return out
}

func (rw *seqRw) stmt(s ast.Stmt) []ast.Stmt {
	switch s := s.(type) {
	case *ast.ExprStmt:
		call, ok := s.X.(*ast.CallExpr)
		if !ok {
			return []ast.Stmt{s}
		}
		if id, ok := call.Fun.(*ast.Ident); ok && id.Name == "vpoint" {
			return nil
		}
		if se, ok := call.Fun.(*ast.SelectorExpr); ok {
			// X.Broadcast() / X.Signal() / X.Wait()
			if f, ok := rw.recvField(se.X); ok && rw.conds[f] {
				switch se.Sel.Name {
				case "Broadcast", "Signal":
					return nil
				case "Wait":
					return []ast.Stmt{rw.blocked(s.Pos())}
				}
			}
			// X.L.Lock() / X.L.Unlock()
			if l, ok := se.X.(*ast.SelectorExpr); ok && l.Sel.Name == "L" && (se.Sel.Name == "Lock" || se.Sel.Name == "Unlock") {
				if f, ok := rw.recvField(l.X); ok && rw.conds[f] {
					return nil
				}
			}
			// atomic.StoreInt64(&E, v)
			if id, ok := se.X.(*ast.Ident); ok && id.Name == "atomic" && (se.Sel.Name == "StoreInt64" || se.Sel.Name == "StoreUint64" || se.Sel.Name == "StoreInt32") && len(call.Args) == 2 {
				if ue, ok := call.Args[0].(*ast.UnaryExpr); ok && ue.Op == token.AND {
					return []ast.Stmt{&ast.AssignStmt{Lhs: []ast.Expr{rw.expr(ue.X)}, TokPos: s.Pos(), Tok: token.ASSIGN, Rhs: []ast.Expr{rw.expr(call.Args[1])}}}
				}
			}
			// bf.S.m(args) with a one-statement method
			if f, ok := rw.recvField(se.X); ok {
				if t, isNested := rw.nested[f]; isNested {
					if fd, st := rw.oneStmtMethod(t, se.Sel.Name); fd != nil {
						if es, ok := st.(*ast.ExprStmt); ok {
							for i := range call.Args {
								call.Args[i] = rw.expr(call.Args[i])
							}
							return rw.stmt(&ast.ExprStmt{X: subst(es.X, rw.bind(fd, se.X, call.Args))})
						}
					}
				}
			}
		}
		s.X = rw.expr(s.X)
		return []ast.Stmt{s}
	case *ast.AssignStmt:
		for i := range s.Lhs {
			s.Lhs[i] = rw.expr(s.Lhs[i])
		}
		for i := range s.Rhs {
			s.Rhs[i] = rw.expr(s.Rhs[i])
		}
		return []ast.Stmt{s}
	case *ast.IncDecStmt:
		s.X = rw.expr(s.X)
		return []ast.Stmt{s}
	case *ast.ReturnStmt:
		for i := range s.Results {
			s.Results[i] = rw.expr(s.Results[i])
		}
		return []ast.Stmt{s}
	case *ast.DeclStmt:
		if gd, ok := s.Decl.(*ast.GenDecl); ok {
			for _, sp := range gd.Specs {
				if vs, ok := sp.(*ast.ValueSpec); ok {
					for i := range vs.Values {
						vs.Values[i] = rw.expr(vs.Values[i])
					}
				}
			}
		}
		return []ast.Stmt{s}
	case *ast.BlockStmt:
		s.List = rw.stmts(s.List)
		return []ast.Stmt{s}
	case *ast.IfStmt:
		if s.Init != nil {
			in := rw.stmt(s.Init)
			if len(in) != 1 {
				fail("sequential reading: initialiser of an if statement")
			}
			s.Init = in[0]
		}
		s.Cond = rw.expr(s.Cond)
		s.Body.List = rw.stmts(s.Body.List)
		switch el := s.Else.(type) {
		case *ast.BlockStmt:
			el.List = rw.stmts(el.List)
		case *ast.IfStmt:
			r := rw.stmt(el)
			s.Else = r[0]
		}
		return []ast.Stmt{s}
	case *ast.ForStmt:
		s.Cond = rw.expr(s.Cond)
		s.Body.List = rw.stmts(s.Body.List)
		var init, post []ast.Stmt
		if s.Init != nil {
			init = rw.stmt(s.Init)
		}
		if s.Post != nil {
			post = rw.stmt(s.Post)
		}
		if s.Cond != nil && terminates(s.Body.List) {
			// the body runs at most once: the loop is a conditional (the post statement is never reached)
			return append(init, &ast.IfStmt{If: s.For, Cond: s.Cond, Body: s.Body})
		}
		if len(init) > 1 || len(post) > 1 {
			fail("sequential reading: loop header")
		}
		if len(init) == 1 {
			s.Init = init[0]
		}
		if len(post) == 1 {
			s.Post = post[0]
		}
		return []ast.Stmt{s}
	case *ast.SwitchStmt:
		s.Tag = rw.expr(s.Tag)
		for _, cl := range s.Body.List {
			cc := cl.(*ast.CaseClause)
			for i := range cc.List {
				cc.List[i] = rw.expr(cc.List[i])
			}
			cc.Body = rw.stmts(cc.Body)
		}
		return []ast.Stmt{s}
	}
	return []ast.Stmt{s}
}
