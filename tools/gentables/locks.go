package main

// Lock regions and field accesses: a small syntactic lockset analysis over the structured
// control flow of every function of service, topics and sessions.

import (
	"fmt"
	"go/ast"
	"go/token"
	"sort"
	"strings"
)

type lockInfo struct {
	pkg, fn, mutex string
	read           bool
	deferred       bool
	balanced       bool
	calls          []string
}

type access struct {
	pkg, typ, fn, field string
	write               bool
	locks               []string
	atomic              bool
}

type walker struct {
	pkg, fn  string
	recv     string // receiver variable name
	recvType string
	fields   map[string]bool // fields of the receiver type
	held     map[string]bool
	deferred map[string]bool
	ok       map[string]bool // balanced so far, per mutex
	locks    map[string]*lockInfo
	order    []string
	accesses []access
}

func mutexOfCall(call *ast.CallExpr) (mutex, method string, ok bool) {
	sel, ok := call.Fun.(*ast.SelectorExpr)
	if !ok {
		return "", "", false
	}
	switch sel.Sel.Name {
	case "Lock", "Unlock", "RLock", "RUnlock", "Wait", "Broadcast", "Signal":
		return src(sel.X), sel.Sel.Name, true
	}
	return "", "", false
}

func condMutex(c string) string { return c + ".L" }

func (w *walker) heldList() []string {
	var l []string
	for m, h := range w.held {
		if h {
			l = append(l, m)
		}
	}
	sort.Strings(l)
	return l
}

func (w *walker) noteCalls(n ast.Node) {
	ast.Inspect(n, func(x ast.Node) bool {
		if _, ok := x.(*ast.FuncLit); ok {
			return false
		}
		call, ok := x.(*ast.CallExpr)
		if !ok {
			return true
		}
		if _, _, isMu := mutexOfCall(call); isMu {
			return true
		}
		name := src(call.Fun)
		if name == "vpoint" || name == "verifStopDone" {
			return true // verification hook points are not part of the library
		}
		for m, h := range w.held {
			if h {
				li := w.locks[m]
				li.calls = append(li.calls, name)
			}
		}
		return true
	})
}

func (w *walker) noteAccesses(n ast.Node, lhs bool) {
	if n == nil {
		return
	}
	ast.Inspect(n, func(x ast.Node) bool {
		if _, ok := x.(*ast.FuncLit); ok {
			return false
		}
		if call, ok := x.(*ast.CallExpr); ok {
			// atomic.XxxInt64(&recv.f, ...) accesses
			if fn := src(call.Fun); strings.HasPrefix(fn, "atomic.") {
				for _, a := range call.Args {
					if u, ok := a.(*ast.UnaryExpr); ok && u.Op == token.AND {
						if f := w.fieldOf(u.X); f != "" {
							w.accesses = append(w.accesses, access{w.pkg, w.recvType, w.fn, f, !strings.HasPrefix(fn, "atomic.Load"), w.heldList(), true})
						}
					}
				}
				return false
			}
			if fn := src(call.Fun); fn == "delete" && len(call.Args) > 0 {
				if f := w.fieldOf(call.Args[0]); f != "" {
					w.accesses = append(w.accesses, access{w.pkg, w.recvType, w.fn, f, true, w.heldList(), false})
				}
			}
		}
		if f := w.fieldOf(x); f != "" {
			w.accesses = append(w.accesses, access{w.pkg, w.recvType, w.fn, f, lhs, w.heldList(), false})
			return false
		}
		return true
	})
}

// fieldOf: x is recv.f (possibly indexed / sliced) for a field f of the receiver type
func (w *walker) fieldOf(x ast.Node) string {
	for {
		switch e := x.(type) {
		case *ast.IndexExpr:
			x = e.X
			continue
		case *ast.SliceExpr:
			x = e.X
			continue
		case *ast.ParenExpr:
			x = e.X
			continue
		case *ast.StarExpr:
			x = e.X
			continue
		}
		break
	}
	sel, ok := x.(*ast.SelectorExpr)
	if !ok {
		return ""
	}
	id, ok := sel.X.(*ast.Ident)
	if !ok || id.Name != w.recv || !w.fields[sel.Sel.Name] {
		return ""
	}
	return sel.Sel.Name
}

func (w *walker) lockEvent(call *ast.CallExpr, isDefer bool) bool {
	m, method, ok := mutexOfCall(call)
	if !ok {
		return false
	}
	get := func(m string, read bool) *lockInfo {
		if li, ok := w.locks[m]; ok {
			return li
		}
		li := &lockInfo{pkg: w.pkg, fn: w.fn, mutex: m, read: read, balanced: true}
		w.locks[m] = li
		w.order = append(w.order, m)
		return li
	}
	switch method {
	case "Lock", "RLock":
		li := get(m, method == "RLock")
		if w.held[m] {
			li.balanced = false
		}
		w.held[m] = true
	case "Unlock", "RUnlock":
		li := get(m, method == "RUnlock")
		if isDefer {
			li.deferred = true
			w.deferred[m] = true
		} else {
			if !w.held[m] {
				li.balanced = false
			}
			w.held[m] = false
		}
	case "Wait":
		if li, ok := w.locks[condMutex(m)]; ok && !w.held[condMutex(m)] {
			li.balanced = false
		}
	}
	return true
}

func (w *walker) atReturn() {
	for m, h := range w.held {
		if h && !w.deferred[m] {
			w.locks[m].balanced = false
		}
	}
}

func copyMap(m map[string]bool) map[string]bool {
	c := map[string]bool{}
	for k, v := range m {
		c[k] = v
	}
	return c
}

func sameHeld(a, b map[string]bool) bool {
	for k, v := range a {
		if v != b[k] {
			return false
		}
	}
	for k, v := range b {
		if v != a[k] {
			return false
		}
	}
	return true
}

// block walks a statement list; it returns true if control cannot fall off its end.
func (w *walker) block(stmts []ast.Stmt) bool {
	for _, s := range stmts {
		if w.stmt(s) {
			return true
		}
	}
	return false
}

func (w *walker) branch(body []ast.Stmt, entry map[string]bool, exits *[]map[string]bool) {
	w.held = copyMap(entry)
	if !w.block(body) {
		*exits = append(*exits, copyMap(w.held))
	}
}

func (w *walker) merge(entry map[string]bool, exits []map[string]bool) bool {
	if len(exits) == 0 {
		w.held = copyMap(entry)
		return true
	}
	for _, e := range exits[1:] {
		if !sameHeld(exits[0], e) {
			for m := range w.locks {
				if exits[0][m] != e[m] {
					w.locks[m].balanced = false
				}
			}
		}
	}
	w.held = exits[0]
	return false
}

func (w *walker) stmt(s ast.Stmt) (terminates bool) {
	switch s := s.(type) {
	case *ast.ExprStmt:
		if call, ok := s.X.(*ast.CallExpr); ok && w.lockEvent(call, false) {
			return false
		}
		w.noteCalls(s)
		w.noteAccesses(s.X, false)
		if call, ok := s.X.(*ast.CallExpr); ok && src(call.Fun) == "panic" {
			return true
		}
	case *ast.DeferStmt:
		if w.lockEvent(s.Call, true) {
			return false
		}
	case *ast.GoStmt:
	case *ast.ReturnStmt:
		w.noteCalls(s)
		for _, r := range s.Results {
			w.noteAccesses(r, false)
		}
		w.atReturn()
		return true
	case *ast.AssignStmt:
		w.noteCalls(s)
		for _, r := range s.Rhs {
			w.noteAccesses(r, false)
		}
		for _, l := range s.Lhs {
			w.noteAccesses(l, true)
		}
	case *ast.IncDecStmt:
		w.noteAccesses(s.X, true)
	case *ast.DeclStmt:
		w.noteCalls(s)
	case *ast.BlockStmt:
		return w.block(s.List)
	case *ast.LabeledStmt:
		return w.stmt(s.Stmt)
	case *ast.BranchStmt:
		return s.Tok == token.GOTO
	case *ast.IfStmt:
		if s.Init != nil {
			w.stmt(s.Init)
		}
		w.noteCalls(s.Cond)
		w.noteAccesses(s.Cond, false)
		entry := copyMap(w.held)
		var exits []map[string]bool
		w.branch(s.Body.List, entry, &exits)
		if s.Else != nil {
			w.branch([]ast.Stmt{s.Else}, entry, &exits)
		} else {
			exits = append(exits, entry)
		}
		return w.merge(entry, exits)
	case *ast.ForStmt:
		if s.Init != nil {
			w.stmt(s.Init)
		}
		if s.Cond != nil {
			w.noteCalls(s.Cond)
			w.noteAccesses(s.Cond, false)
		}
		entry := copyMap(w.held)
		if !w.block(s.Body.List) {
			if s.Post != nil {
				w.stmt(s.Post)
			}
			if !sameHeld(entry, w.held) {
				for m := range w.locks {
					if entry[m] != w.held[m] {
						w.locks[m].balanced = false
					}
				}
			}
		}
		w.held = entry
		return false
	case *ast.RangeStmt:
		w.noteCalls(s.X)
		w.noteAccesses(s.X, false)
		entry := copyMap(w.held)
		if !w.block(s.Body.List) && !sameHeld(entry, w.held) {
			for m := range w.locks {
				if entry[m] != w.held[m] {
					w.locks[m].balanced = false
				}
			}
		}
		w.held = entry
		return false
	case *ast.SwitchStmt, *ast.TypeSwitchStmt, *ast.SelectStmt:
		var body *ast.BlockStmt
		hasDefault := false
		switch s := s.(type) {
		case *ast.SwitchStmt:
			if s.Init != nil {
				w.stmt(s.Init)
			}
			if s.Tag != nil {
				w.noteCalls(s.Tag)
				w.noteAccesses(s.Tag, false)
			}
			body = s.Body
		case *ast.TypeSwitchStmt:
			body = s.Body
		case *ast.SelectStmt:
			body = s.Body
		}
		entry := copyMap(w.held)
		var exits []map[string]bool
		for _, c := range body.List {
			switch c := c.(type) {
			case *ast.CaseClause:
				if c.List == nil {
					hasDefault = true
				}
				w.branch(c.Body, entry, &exits)
			case *ast.CommClause:
				if c.Comm == nil {
					hasDefault = true
				}
				w.branch(c.Body, entry, &exits)
			}
		}
		if !hasDefault {
			exits = append(exits, entry)
		}
		return w.merge(entry, exits)
	}
	return false
}

func structFields(p *pkg) map[string]map[string]bool {
	res := map[string]map[string]bool{}
	for _, af := range p.files {
		ast.Inspect(af, func(n ast.Node) bool {
			ts, ok := n.(*ast.TypeSpec)
			if !ok {
				return true
			}
			st, ok := ts.Type.(*ast.StructType)
			if !ok {
				return true
			}
			fs := map[string]bool{}
			for _, f := range st.Fields.List {
				for _, n := range f.Names {
					fs[n.Name] = true
				}
			}
			res[ts.Name.Name] = fs
			return true
		})
	}
	return res
}

func genLocks(pkgs map[string]*pkg) {
	var regions []*lockInfo
	var accs []access
	names := []string{"service", "sessions", "topics"}
	for _, pn := range names {
		p := pkgs[pn]
		sf := structFields(p)
		var files []string
		for f := range p.files {
			files = append(files, f)
		}
		sort.Strings(files)
		for _, fnm := range files {
			for _, d := range p.files[fnm].Decls {
				fd, ok := d.(*ast.FuncDecl)
				if !ok || fd.Body == nil {
					continue
				}
				w := &walker{pkg: pn, fn: fd.Name.Name, held: map[string]bool{}, deferred: map[string]bool{}, locks: map[string]*lockInfo{}, fields: map[string]bool{}}
				if fd.Recv != nil && len(fd.Recv.List) == 1 {
					t := fd.Recv.List[0].Type
					if st, ok := t.(*ast.StarExpr); ok {
						t = st.X
					}
					if id, ok := t.(*ast.Ident); ok {
						w.recvType = id.Name
						w.fn = id.Name + "." + fd.Name.Name
						if fs, ok := sf[id.Name]; ok {
							w.fields = fs
						}
					}
					if len(fd.Recv.List[0].Names) == 1 {
						w.recv = fd.Recv.List[0].Names[0].Name
					}
				}
				if !w.block(fd.Body.List) {
					w.atReturn()
				}
				for _, m := range w.order {
					regions = append(regions, w.locks[m])
				}
				accs = append(accs, w.accesses...)
			}
		}
	}
	// every call made by every function (callee as written), for reasoning about helpers that
	// are only called with a lock held and about who calls the ring's producer / consumer methods
	emit("(* calls: package, function, callees as written in the source *)")
	emit("Local Open Scope string_scope.")
	emit("Local Open Scope list_scope.")
	emit("Definition func_calls : list (string * string * list string) := [")
	var fcl []string
	for _, pn := range names {
		pk := pkgs[pn]
		var files []string
		for f := range pk.files {
			files = append(files, f)
		}
		sort.Strings(files)
		for _, fnm := range files {
			for _, d := range pk.files[fnm].Decls {
				fd, ok := d.(*ast.FuncDecl)
				if !ok || fd.Body == nil {
					continue
				}
				name := fd.Name.Name
				if fd.Recv != nil && len(fd.Recv.List) == 1 {
					t := fd.Recv.List[0].Type
					if st, ok := t.(*ast.StarExpr); ok {
						t = st.X
					}
					if id, ok := t.(*ast.Ident); ok {
						name = id.Name + "." + name
					}
				}
				seen := map[string]bool{}
				var cs []string
				ast.Inspect(fd.Body, func(x ast.Node) bool {
					if call, ok := x.(*ast.CallExpr); ok {
						c := src(call.Fun)
						if !seen[c] && c != "vpoint" && c != "verifStopDone" && !strings.ContainsAny(c, "\n{") {
							seen[c] = true
							cs = append(cs, coqString(c))
						}
					}
					return true
				})
				fcl = append(fcl, fmt.Sprintf("  (%s, %s, [%s])", coqString(pn), coqString(name), strings.Join(cs, "; ")))
			}
		}
	}
	emit("%s", strings.Join(fcl, ";\n"))
	emit("].")
	emit("")
	emit("(* lock regions: package, function, mutex, read lock?, released by defer?, every syntactic path")
	emit("   from the lock to a return / the end of the function releases it?, calls made while held *)")
	emit("Record lock_region := mkLR { lr_pkg : string; lr_func : string; lr_mutex : string; lr_read : bool;")
	emit("  lr_defer : bool; lr_balanced : bool; lr_calls : list string }.")
	emit("Definition lock_regions : list lock_region := [")
	for i, r := range regions {
		seen := map[string]bool{}
		var cs []string
		for _, c := range r.calls {
			if !seen[c] {
				seen[c] = true
				cs = append(cs, coqString(c))
			}
		}
		sep := ";"
		if i == len(regions)-1 {
			sep = ""
		}
		emit("  mkLR %s %s %s %v %v %v [%s]%s", coqString(r.pkg), coqString(r.fn), coqString(r.mutex), r.read, r.deferred, r.balanced, strings.Join(cs, "; "), sep)
	}
	emit("].")
	emit("")
	emit("(* field accesses through the receiver: package, type, function, field, write?, atomic?, mutexes held *)")
	emit("Record field_access := mkFA { fa_pkg : string; fa_type : string; fa_func : string; fa_field : string;")
	emit("  fa_write : bool; fa_atomic : bool; fa_locks : list string }.")
	emit("Definition field_accesses : list field_access := [")
	// deduplicate
	seen := map[string]bool{}
	var lines []string
	for _, a := range accs {
		var ls []string
		for _, l := range a.locks {
			ls = append(ls, coqString(l))
		}
		line := fmt.Sprintf("  mkFA %s %s %s %s %v %v [%s]", coqString(a.pkg), coqString(a.typ), coqString(a.fn), coqString(a.field), a.write, a.atomic, strings.Join(ls, "; "))
		if !seen[line] {
			seen[line] = true
			lines = append(lines, line)
		}
	}
	emit("%s", strings.Join(lines, ";\n"))
	emit("].")
	emit("")
}

// genStopOrder: the order of the teardown actions in service.stop
// genRingRoles: who touches which side of the two rings of a connection.  The call graph of the methods of service
// (calls through the receiver variable, whatever it is called) is closed under "only called from": a ring operation
// belongs to a role if the function it occurs in is the role's entry function or a helper all of whose callers
// (transitively) are.  Single producer / single consumer is the hypothesis of C14 and C15.
func genRingRoles(svc *pkg) {
	type fn struct {
		name  string
		calls map[string]bool            // methods of service it calls through its receiver
		ops   map[string]map[string]bool // ring ("in" / "out") -> methods of the ring it calls
	}
	fns := map[string]*fn{}
	isMethod := map[string]bool{}
	for _, af := range svc.files {
		for _, d := range af.Decls {
			fd, ok := d.(*ast.FuncDecl)
			if !ok || fd.Body == nil || fd.Recv == nil || len(fd.Recv.List) != 1 {
				continue
			}
			t := fd.Recv.List[0].Type
			if st, ok := t.(*ast.StarExpr); ok {
				t = st.X
			}
			if id, ok := t.(*ast.Ident); ok && id.Name == "service" {
				isMethod[fd.Name.Name] = true
			}
		}
	}
	for _, af := range svc.files {
		for _, d := range af.Decls {
			fd, ok := d.(*ast.FuncDecl)
			if !ok || fd.Body == nil || fd.Recv == nil || len(fd.Recv.List) != 1 || len(fd.Recv.List[0].Names) != 1 || !isMethod[fd.Name.Name] {
				continue
			}
			t := fd.Recv.List[0].Type
			if st, ok := t.(*ast.StarExpr); ok {
				t = st.X
			}
			if id, ok := t.(*ast.Ident); !ok || id.Name != "service" {
				continue
			}
			rv := fd.Recv.List[0].Names[0].Name
			f := &fn{name: fd.Name.Name, calls: map[string]bool{}, ops: map[string]map[string]bool{"in": {}, "out": {}}}
			fns[f.name] = f
			ast.Inspect(fd.Body, func(n ast.Node) bool {
				se, ok := n.(*ast.SelectorExpr)
				if !ok {
					return true
				}
				// rv.m (called, or taken as a function value)
				if id, ok := se.X.(*ast.Ident); ok && id.Name == rv && isMethod[se.Sel.Name] {
					f.calls[se.Sel.Name] = true
				}
				// rv.in.M / rv.out.M
				if inner, ok := se.X.(*ast.SelectorExpr); ok {
					if id, ok := inner.X.(*ast.Ident); ok && id.Name == rv && (inner.Sel.Name == "in" || inner.Sel.Name == "out") {
						f.ops[inner.Sel.Name][se.Sel.Name] = true
					}
				}
				return true
			})
		}
	}
	callers := map[string][]string{}
	for _, f := range fns {
		for c := range f.calls {
			callers[c] = append(callers[c], f.name)
		}
	}
	// references from the other functions of the package (Client and Server methods reach a service through a field)
	for _, af := range svc.files {
		for _, d := range af.Decls {
			fd, ok := d.(*ast.FuncDecl)
			if !ok || fd.Body == nil {
				continue
			}
			if _, isSvc := fns[fd.Name.Name]; isSvc && fd.Recv != nil {
				t := fd.Recv.List[0].Type
				if st, ok := t.(*ast.StarExpr); ok {
					t = st.X
				}
				if id, ok := t.(*ast.Ident); ok && id.Name == "service" {
					continue
				}
			}
			outer := "(" + fd.Name.Name + ")"
			ast.Inspect(fd.Body, func(n ast.Node) bool {
				if se, ok := n.(*ast.SelectorExpr); ok && isMethod[se.Sel.Name] {
					if _, isIdent := se.X.(*ast.Ident); !isIdent || true {
						callers[se.Sel.Name] = append(callers[se.Sel.Name], outer)
					}
				}
				return true
			})
		}
	}
	var dominated func(f, root string, seen map[string]bool) bool
	dominated = func(f, root string, seen map[string]bool) bool {
		if f == root {
			return true
		}
		if seen[f] {
			return true
		}
		seen[f] = true
		if f[0] == '(' {
			return false // a function outside the service type: not under any of the roles
		}
		if len(callers[f]) == 0 {
			return true // a method nothing in the package refers to (kept for the tests): not part of any running role
		}
		for _, c := range callers[f] {
			if !dominated(c, root, seen) {
				return false
			}
		}
		return true
	}
	role := func(ring string, methods []string, root string) (bool, int) {
		ok, n := true, 0
		for _, f := range fns {
			for _, m := range methods {
				if f.ops[ring][m] {
					n++
					if !dominated(f.name, root, map[string]bool{}) {
						ok = false
					}
				}
			}
		}
		return ok, n
	}
	produce := []string{"Write", "WriteWait", "WriteCommit", "ReadFrom"}
	consume := []string{"Read", "ReadPeek", "ReadWait", "ReadCommit", "WriteTo"}
	emit("(* who uses which side of a connection's rings: every producer call on the outgoing ring lies under writeMessage (the")
	emit("   write mutex), its consumer calls under the sender goroutine; the incoming ring is produced by the receiver goroutine")
	emit("   and consumed under the processor goroutine (helpers count with the functions that alone call them) *)")
	a, n1 := role("out", produce, "writeMessage")
	b, n2 := role("out", consume, "sender")
	c, n3 := role("in", produce, "receiver")
	d, n4 := role("in", consume, "processor")
	// writeMessage takes the write mutex (unlock deferred) before it touches the outgoing ring or calls a helper that does
	wmuFirst := false
	for _, af := range svc.files {
		for _, d := range af.Decls {
			fd, ok := d.(*ast.FuncDecl)
			if !ok || fd.Body == nil || fd.Name.Name != "writeMessage" || fd.Recv == nil || len(fd.Recv.List[0].Names) != 1 {
				continue
			}
			rv := fd.Recv.List[0].Names[0].Name
			lockPos, deferPos := token.NoPos, token.NoPos
			first := token.NoPos
			ast.Inspect(fd.Body, func(n ast.Node) bool {
				switch st := n.(type) {
				case *ast.DeferStmt:
					if src(st.Call) == rv+".wmu.Unlock()" && deferPos == token.NoPos {
						deferPos = st.Pos()
					}
				case *ast.CallExpr:
					if src(st) == rv+".wmu.Lock()" && lockPos == token.NoPos {
						lockPos = st.Pos()
					}
					if se, ok := st.Fun.(*ast.SelectorExpr); ok {
						touches := false
						if inner, ok := se.X.(*ast.SelectorExpr); ok {
							if id, ok := inner.X.(*ast.Ident); ok && id.Name == rv && inner.Sel.Name == "out" {
								touches = true
							}
						}
						if id, ok := se.X.(*ast.Ident); ok && id.Name == rv && isMethod[se.Sel.Name] {
							if cf := fns[se.Sel.Name]; cf != nil && len(cf.ops["out"]) > 0 {
								touches = true
							}
						}
						if touches && (first == token.NoPos || st.Pos() < first) {
							first = st.Pos()
						}
					}
				}
				return true
			})
			wmuFirst = lockPos != token.NoPos && deferPos != token.NoPos && first != token.NoPos && lockPos < first && deferPos < first
		}
	}
	emit("Definition wmu_taken_before_ring_ops : bool := %v.", wmuFirst)
	emit("Definition ring_out_produced_under_writeMessage : bool := %v.", a && n1 > 0)
	emit("Definition ring_out_consumed_by_sender : bool := %v.", b && n2 > 0)
	emit("Definition ring_in_produced_by_receiver : bool := %v.", c && n3 > 0)
	emit("Definition ring_in_consumed_by_processor : bool := %v.", d && n4 > 0)
}

func genStopOrder(svc *pkg) {
	fd := svc.fn("service.go", "service", "stop")
	marks := []struct{ key, name string }{
		{"atomic.CompareAndSwapInt64(&svc.closed", "cas_closed"},
		{"close(svc.done)", "close_done"},
		{"svc.conn.Close()", "close_conn"},
		{"svc.in.Close()", "close_in"},
		{"svc.out.Close()", "close_out"},
		{"svc.wgStopped.Wait()", "wait_goroutines"},
		{"svc.topicsMgr.Unsubscribe(", "unsubscribe_topics"},
		{"svc.onPublish(svc.sess.Will)", "publish_will"},
		{"svc.sessMgr.Del(", "delete_clean_session"},
	}
	// the text of the body, with the calls of unexported helper methods of the service (that are not themselves one of
	// the actions) replaced by the text of their bodies, two levels deep
	isMark := func(t string) bool {
		for _, m := range marks {
			if strings.Contains(t, m.key) {
				return true
			}
		}
		return false
	}
	var expand func(fd *ast.FuncDecl, depth int) string
	expand = func(fd *ast.FuncDecl, depth int) string {
		text := src(fd.Body)
		if depth >= 2 {
			return text
		}
		rv := ""
		if fd.Recv != nil && len(fd.Recv.List) == 1 && len(fd.Recv.List[0].Names) == 1 {
			rv = fd.Recv.List[0].Names[0].Name
		}
		ast.Inspect(fd.Body, func(n ast.Node) bool {
			ce, ok := n.(*ast.CallExpr)
			if !ok {
				return true
			}
			se, ok := ce.Fun.(*ast.SelectorExpr)
			if !ok {
				return true
			}
			id, ok := se.X.(*ast.Ident)
			if !ok || id.Name != rv || isMark(src(ce)) || ast.IsExported(se.Sel.Name) {
				return true
			}
			if _, cfd := svc.findMethod("service", se.Sel.Name); cfd != nil && cfd != fd && cfd.Body != nil {
				inner := expand(cfd, depth+1)
				if crv := cfd.Recv.List[0].Names; len(crv) == 1 && crv[0].Name != "svc" {
					inner = strings.ReplaceAll(inner, crv[0].Name+".", "svc.")
				}
				text = strings.Replace(text, src(ce), inner, 1)
			}
			return true
		})
		return text
	}
	body := expand(fd, 0)
	type pos struct {
		at   int
		name string
	}
	var ps []pos
	for _, m := range marks {
		i := strings.Index(body, m.key)
		if i < 0 {
			fail("service.stop: action %q not found", m.key)
		}
		ps = append(ps, pos{i, m.name})
	}
	sort.Slice(ps, func(i, j int) bool { return ps[i].at < ps[j].at })
	var names []string
	for _, p := range ps {
		names = append(names, coqString(p.name))
	}
	emit("(* service.stop: order of the teardown actions as they appear in the source *)")
	emit("Definition stop_order : list string := [%s].", strings.Join(names, "; "))
}
