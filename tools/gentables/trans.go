// trans.go: the second translator of tie T1.  It turns pure leaf functions of the library - loops over
// byte slices, switches, early returns, slicing and indexing - into Gallina definitions over Z, list Z and
// bool (coq/Gen/Translated.v), statement by statement, so that Coq lemmas (coq/Trans/Equiv.v) relate what the
// source says NOW to the hand-written models the property theorems are about.
//
// Shallow embedding: a Go function of results (T1, ..., Tn) becomes a Coq function into
// option (T1 * ... * Tn); None stands for a run-time panic (index or slice bounds).  Integers of every
// width are Z (overflow is not modelled; narrowing conversions are `mod`), []byte is list Z with
// cap == len, error values are bool (true = non-nil).  A slice parameter the function writes to is
// returned as an additional last component.  Anything outside the fragment makes the translator fail
// loudly: the tie is then broken, not silently weakened.
package main

import (
	"fmt"
	"go/ast"
	"go/token"
	"sort"
	"strconv"
	"strings"
)

const loopFuel = 4

// a binding hoisted in front of the term that uses its result: `prefix TERM suffix`; rebinds lists the variables the
// prefix re-binds (the receiver fields a called method may have written)
type preEntry struct {
	prefix, suffix string
	rebinds        []string
}

// what is known of a translated function, for calls to it
type finfo struct {
	coqName     string
	fieldParams []string // receiver fields (read or written, directly or through methods it calls), in parameter order
	mutFields   []string // ... those written: returned after the results, in this order
	nparams     int
	paramKinds  []string
	results     []string
	extraMut    int // further extra results (package variables, slice parameters written to)
}

var translatedFns = map[string]*finfo{}

type tctx struct {
	p        *pkg
	name     string
	results  []string          // kinds of the results
	kinds    map[string]string // variable -> kind: int, bytes, bool, err
	mutated  []string          // slice parameters written to and package variables updated: returned as extra results
	pre      []preEntry        // bindings hoisted out of the expression being translated (atomic updates, calls)
	recvType string            // the struct type of the receiver, when its fields are the function's state
	nfresh   int
	inLoop   bool
	loopVars []string
	recv     string
}

func (c *tctx) bad(n ast.Node, what string) {
	fail("translator: %s: unsupported %s at %s: %s", c.name, what, fset.Position(n.Pos()), src(n))
}

func kindOfType(e ast.Expr) string {
	switch t := e.(type) {
	case *ast.Ident:
		switch t.Name {
		case "int", "int8", "int16", "int32", "int64", "uint", "uint8", "uint16", "uint32", "uint64", "byte", "Type":
			return "int"
		case "bool":
			return "bool"
		case "error":
			return "err"
		}
	case *ast.ArrayType:
		if id, ok := t.Elt.(*ast.Ident); ok && t.Len == nil && (id.Name == "byte" || id.Name == "uint8") {
			return "bytes"
		}
	}
	return ""
}

func coqType(k string) string {
	switch k {
	case "int":
		return "Z"
	case "bytes":
		return "list Z"
	}
	return "bool"
}

func zero(k string) string {
	switch k {
	case "int":
		return "0"
	case "bytes":
		return "[]"
	}
	return "false"
}

func conj(gs []string) string {
	if len(gs) == 0 {
		return ""
	}
	return "(" + strings.Join(gs, " && ") + ")"
}

// guarded wraps a term of option type with the bounds conditions of the expressions it was built from
func guarded(gs []string, term string) string {
	if len(gs) == 0 {
		return term
	}
	return "(if " + conj(gs) + " then " + term + " else None)"
}

func byteList(s string) string {
	var xs []string
	for _, b := range []byte(s) {
		xs = append(xs, strconv.Itoa(int(b)))
	}
	return "[" + strings.Join(xs, "; ") + "]"
}

// expr translates an expression: the Gallina term, the conditions under which evaluating it does not panic,
// and its kind; want is the kind the context expects (for nil)
func (c *tctx) expr(e ast.Expr, want string) (string, []string, string) {
	switch e := e.(type) {
	case *ast.ParenExpr:
		return c.expr(e.X, want)
	case *ast.BasicLit:
		switch e.Kind {
		case token.INT, token.CHAR:
			v, ok := c.p.eval(e, 0)
			if !ok {
				c.bad(e, "literal")
			}
			return fmt.Sprintf("(%d)", v), nil, "int"
		case token.STRING:
			s, _ := strconv.Unquote(e.Value)
			return byteList(s), nil, "bytes"
		}
	case *ast.Ident:
		switch e.Name {
		case "true", "false":
			return e.Name, nil, "bool"
		case "nil":
			if want == "" {
				c.bad(e, "nil of unknown kind")
			}
			return zero(want), nil, want
		}
		if k, ok := c.kinds[e.Name]; ok {
			return e.Name, nil, k
		}
		if v, ok := c.p.consts[e.Name]; ok {
			return fmt.Sprintf("(%d)", v), nil, "int"
		}
		if s, ok := c.p.strs[e.Name]; ok {
			return byteList(s), nil, "bytes"
		}
	case *ast.SelectorExpr:
		if id, ok := e.X.(*ast.Ident); ok {
			if id.Name == c.recv && c.recv != "" {
				n := c.recv + "_" + e.Sel.Name
				if k, ok := c.kinds[n]; ok {
					return n, nil, k
				}
			}
			if id.Name == "message" && msgPkg != nil {
				if v, ok := msgPkg.consts[e.Sel.Name]; ok {
					return fmt.Sprintf("(%d)", v), nil, "int"
				}
			}
		}
	case *ast.UnaryExpr:
		t, g, k := c.expr(e.X, want)
		switch e.Op {
		case token.NOT:
			return "(negb " + t + ")", g, "bool"
		case token.SUB:
			return "(- " + t + ")", g, k
		}
	case *ast.IndexExpr:
		b, g1, k := c.expr(e.X, "bytes")
		i, g2, _ := c.expr(e.Index, "int")
		if k != "bytes" {
			c.bad(e, "index of a non-slice")
		}
		g := append(append(g1, g2...), fmt.Sprintf("(0 <=? %s)", i), fmt.Sprintf("(%s <? go_len %s)", i, b))
		return fmt.Sprintf("(go_nth %s %s)", b, i), g, "int"
	case *ast.SliceExpr:
		b, g, k := c.expr(e.X, "bytes")
		if k != "bytes" || e.Slice3 {
			c.bad(e, "slice expression")
		}
		lo, hi := "0", "(go_len "+b+")"
		if e.Low != nil {
			var g1 []string
			lo, g1, _ = c.expr(e.Low, "int")
			g = append(g, g1...)
		}
		if e.High != nil {
			var g1 []string
			hi, g1, _ = c.expr(e.High, "int")
			g = append(g, g1...)
		}
		g = append(g, fmt.Sprintf("(0 <=? %s)", lo), fmt.Sprintf("(%s <=? %s)", lo, hi), fmt.Sprintf("(%s <=? go_len %s)", hi, b))
		return fmt.Sprintf("(go_sub %s %s %s)", b, lo, hi), g, "bytes"
	case *ast.CallExpr:
		// a method of the same receiver, a method of an integer-kind value, a function of the package
		if se, ok := e.Fun.(*ast.SelectorExpr); ok {
			if id, ok := se.X.(*ast.Ident); ok && c.recv != "" && id.Name == c.recv && c.recvType != "" {
				info := ensureTranslated(c.p, c.recvType, se.Sel.Name)
				if info == nil {
					c.bad(e, "call of a method that is not translated")
				}
				res := c.call(e, info, "", false)
				if len(res) != 1 {
					c.bad(e, "call that does not have exactly one result in an expression")
				}
				return res[0], nil, info.results[0]
			}
			if x := src(se.X); x != "binary.BigEndian" && x != "fmt" && x != "bytes" && x != "atomic" && x != "errors" && x != "binary" {
				// X.M() where M is a method of the package's integer type
				if _, mfd := c.p.findMethod("Type", se.Sel.Name); mfd != nil {
					if info := ensureTranslated(c.p, "Type", se.Sel.Name); info != nil {
						x, g, k := c.expr(se.X, "int")
						if k == "int" && len(g) == 0 {
							res := c.call(e, info, x, true)
							if len(res) == 1 {
								return res[0], nil, info.results[0]
							}
						}
					}
				}
			}
		}
		if id, ok := e.Fun.(*ast.Ident); ok {
			if _, isVar := c.kinds[id.Name]; !isVar {
				if _, ffd := c.p.findMethod("", id.Name); ffd != nil {
					if info := ensureTranslated(c.p, "", id.Name); info != nil {
						res := c.call(e, info, "", false)
						if len(res) == 1 {
							return res[0], nil, info.results[0]
						}
						c.bad(e, "call that does not have exactly one result in an expression")
					}
				}
			}
		}
		fn := src(e.Fun)
		switch fn {
		case "len":
			t, g, _ := c.expr(e.Args[0], "bytes")
			return "(go_len " + t + ")", g, "int"
		case "int", "int64", "uint64", "uint", "Type":
			return c.expr(e.Args[0], "int")
		case "int32":
			t, g, _ := c.expr(e.Args[0], "int")
			return "(go_int32 " + t + ")", g, "int"
		case "uint32":
			t, g, _ := c.expr(e.Args[0], "int")
			return "(" + t + " mod 4294967296)", g, "int"
		case "make":
			if len(e.Args) == 2 && kindOfType(e.Args[0]) == "bytes" {
				n, g, _ := c.expr(e.Args[1], "int")
				return "(go_make " + n + ")", append(g, "(0 <=? "+n+")"), "bytes"
			}
		case "byte", "uint8":
			t, g, _ := c.expr(e.Args[0], "int")
			return "(" + t + " mod 256)", g, "int"
		case "uint16":
			t, g, _ := c.expr(e.Args[0], "int")
			return "(" + t + " mod 65536)", g, "int"
		case "[]byte":
			return c.expr(e.Args[0], "bytes")
		case "fmt.Errorf", "errors.New":
			// the arguments are evaluated for the message only; they must not panic
			var g []string
			for _, a := range e.Args[1:] {
				if _, ga, _ := c.exprAny(a); len(ga) > 0 {
					g = append(g, ga...)
				}
			}
			return "true", g, "err"
		case "bytes.IndexByte":
			b, g1, _ := c.expr(e.Args[0], "bytes")
			x, g2, _ := c.expr(e.Args[1], "int")
			return fmt.Sprintf("(go_index_byte %s %s)", b, x), append(g1, g2...), "int"
		case "binary.BigEndian.Uint16":
			b, g, _ := c.expr(e.Args[0], "bytes")
			return "(go_be16 " + b + ")", append(g, "(2 <=? go_len "+b+")"), "int"
		case "atomic.AddUint64":
			// the new value of the package variable (a uint64: the addition wraps at 2^64); the update itself is hoisted
			// in front of the statement
			if ue, ok := e.Args[0].(*ast.UnaryExpr); ok && ue.Op == token.AND {
				if id, ok := ue.X.(*ast.Ident); ok && c.kinds[id.Name] == "int" {
					k, g, _ := c.expr(e.Args[1], "int")
					c.pre = append(c.pre, preEntry{prefix: fmt.Sprintf("let %s := ((%s + %s) mod 18446744073709551616) in ", id.Name, id.Name, k)})
					return id.Name, g, "int"
				}
			}
		}
	case *ast.BinaryExpr:
		switch e.Op {
		case token.LAND, token.LOR:
			a, g1, _ := c.expr(e.X, "bool")
			outer := c.pre
			c.pre = nil
			b, g2, _ := c.expr(e.Y, "bool")
			inner := c.pre
			c.pre = outer
			if len(inner) > 0 {
				// the right operand calls translated functions: it is evaluated - with whatever it re-binds - only if the
				// left one does not decide
				set := map[string]bool{}
				for _, pe := range inner {
					for _, r := range pe.rebinds {
						set[r] = true
					}
				}
				var rb []string
				for r := range set {
					rb = append(rb, r)
				}
				sort.Strings(rb)
				n := c.fresh()
				v := fmt.Sprintf("_v%d", n)
				tail := ""
				for _, r := range rb {
					tail += ", " + r
				}
				evalB := wrapPre(inner, guarded(g2, "Some ("+b+tail+")"))
				var cond string
				if e.Op == token.LAND {
					cond = fmt.Sprintf("(if %s then %s else Some (false%s))", a, evalB, tail)
				} else {
					cond = fmt.Sprintf("(if %s then Some (true%s) else %s)", a, tail, evalB)
				}
				pat := v
				if len(rb) > 0 {
					pat = "(" + v + tail + ")"
				}
				c.pre = append(c.pre, preEntry{prefix: fmt.Sprintf("match %s with None => None | Some %s => ", cond, pat), suffix: " end", rebinds: rb})
				return v, g1, "bool"
			}
			op := " && "
			// the right operand is evaluated only if the left one does not decide
			for i := range g2 {
				if e.Op == token.LAND {
					g2[i] = "(negb " + a + " || " + g2[i] + ")"
				} else {
					g2[i] = "(" + a + " || " + g2[i] + ")"
				}
			}
			if e.Op == token.LOR {
				op = " || "
			}
			return "(" + a + op + b + ")", append(g1, g2...), "bool"
		}
		a, g1, ka := c.exprAny(e.X)
		b, g2, kb := "", []string(nil), ""
		if ka == "" { // nil on the left
			b, g2, kb = c.exprAny(e.Y)
			a, g1, ka = c.expr(e.X, kb)
		} else {
			b, g2, kb = c.expr(e.Y, ka)
		}
		g := append(g1, g2...)
		if ka != kb {
			c.bad(e, "operands of different kinds ("+ka+", "+kb+")")
		}
		if ka == "int" {
			ops := map[token.Token]string{token.ADD: "+", token.SUB: "-", token.MUL: "*"}
			if o, ok := ops[e.Op]; ok {
				return "(" + a + " " + o + " " + b + ")", g, "int"
			}
			fns := map[token.Token]string{token.QUO: "Z.quot", token.REM: "Z.rem", token.SHL: "Z.shiftl", token.SHR: "Z.shiftr",
				token.AND: "Z.land", token.OR: "Z.lor", token.XOR: "Z.lxor"}
			if f, ok := fns[e.Op]; ok {
				return "(" + f + " " + a + " " + b + ")", g, "int"
			}
			cmp := map[token.Token]string{token.EQL: "=?", token.LSS: "<?", token.GTR: ">?", token.LEQ: "<=?", token.GEQ: ">=?"}
			if o, ok := cmp[e.Op]; ok {
				return "(" + a + " " + o + " " + b + ")", g, "bool"
			}
			if e.Op == token.NEQ {
				return "(negb (" + a + " =? " + b + "))", g, "bool"
			}
		}
		if ka == "bool" || ka == "err" {
			switch e.Op {
			case token.EQL:
				return "(Bool.eqb " + a + " " + b + ")", g, "bool"
			case token.NEQ:
				return "(negb (Bool.eqb " + a + " " + b + "))", g, "bool"
			}
		}
	}
	c.bad(e, "expression")
	return "", nil, ""
}

// exprAny translates without an expected kind; a bare nil gives kind ""
func (c *tctx) exprAny(e ast.Expr) (string, []string, string) {
	if id, ok := e.(*ast.Ident); ok && id.Name == "nil" {
		return "", nil, ""
	}
	return c.expr(e, "")
}

// withPre puts the hoisted bindings of the expressions just translated in front of the term that uses them
func (c *tctx) withPre(term string) string {
	if len(c.pre) == 0 {
		return term
	}
	t := wrapPre(c.pre, term)
	c.pre = nil
	return t
}

func wrapPre(pre []preEntry, term string) string {
	if len(pre) == 0 {
		return term
	}
	var b strings.Builder
	b.WriteString("(")
	for _, e := range pre {
		b.WriteString(e.prefix)
	}
	b.WriteString(term)
	for i := len(pre) - 1; i >= 0; i-- {
		b.WriteString(pre[i].suffix)
	}
	b.WriteString(")")
	return b.String()
}

func (c *tctx) fresh() int { c.nfresh++; return c.nfresh }

// the fields of the receiver a function reads and writes, directly or through the methods of the same receiver it calls
func (p *pkg) fieldUse(recvType string, fd *ast.FuncDecl, seen map[string]bool) (reads, writes map[string]bool) {
	reads, writes = map[string]bool{}, map[string]bool{}
	if fd.Recv == nil || len(fd.Recv.List) != 1 || len(fd.Recv.List[0].Names) != 1 {
		return
	}
	rv := fd.Recv.List[0].Names[0].Name
	calls := map[*ast.SelectorExpr]bool{}
	ast.Inspect(fd.Body, func(n ast.Node) bool {
		if ce, ok := n.(*ast.CallExpr); ok {
			if se, ok := ce.Fun.(*ast.SelectorExpr); ok {
				if id, ok := se.X.(*ast.Ident); ok && id.Name == rv {
					calls[se] = true
					key := recvType + "." + se.Sel.Name
					if !seen[key] {
						seen[key] = true
						if _, mfd := p.findMethod(recvType, se.Sel.Name); mfd != nil {
							r2, w2 := p.fieldUse(recvType, mfd, seen)
							for f := range r2 {
								reads[f] = true
							}
							for f := range w2 {
								writes[f] = true
							}
						}
					}
				}
			}
		}
		return true
	})
	sel := func(e ast.Expr) string {
		if ix, ok := e.(*ast.IndexExpr); ok {
			e = ix.X
		}
		if se, ok := e.(*ast.SelectorExpr); ok && !calls[se] {
			if id, ok := se.X.(*ast.Ident); ok && id.Name == rv {
				return se.Sel.Name
			}
		}
		return ""
	}
	ast.Inspect(fd.Body, func(n ast.Node) bool {
		switch st := n.(type) {
		case *ast.SelectorExpr:
			if !calls[st] {
				if f := sel(st); f != "" {
					reads[f] = true
				}
			}
		case *ast.AssignStmt:
			for _, l := range st.Lhs {
				if f := sel(l); f != "" {
					writes[f] = true
				}
			}
		case *ast.IncDecStmt:
			if f := sel(st.X); f != "" {
				writes[f] = true
			}
		}
		return true
	})
	return
}

// findMethod looks a method of a type up in all files of the package
func (p *pkg) findMethod(recvType, name string) (string, *ast.FuncDecl) {
	var files []string
	for f := range p.files {
		files = append(files, f)
	}
	sort.Strings(files)
	for _, f := range files {
		for _, d := range p.files[f].Decls {
			fd, ok := d.(*ast.FuncDecl)
			if !ok || fd.Name.Name != name {
				continue
			}
			r := ""
			if fd.Recv != nil && len(fd.Recv.List) == 1 {
				t := fd.Recv.List[0].Type
				if st, ok := t.(*ast.StarExpr); ok {
					t = st.X
				}
				if id, ok := t.(*ast.Ident); ok {
					r = id.Name
				}
			}
			if r == recvType {
				return f, fd
			}
		}
	}
	return "", nil
}

// call translates a call of another translated function: the call is hoisted, its results are fresh variables and
// the receiver fields the callee may have written are re-bound
func (c *tctx) call(e *ast.CallExpr, info *finfo, recvArg string, hasRecvArg bool) []string {
	var args []string
	var gs []string
	for _, f := range info.fieldParams {
		n := c.recv + "_" + f
		if _, ok := c.kinds[n]; !ok {
			c.bad(e, "call (field "+f+" of the callee is not part of the caller's state)")
		}
		args = append(args, n)
	}
	if hasRecvArg {
		args = append(args, recvArg)
	}
	if len(e.Args) != len(info.paramKinds) {
		c.bad(e, "call (argument count)")
	}
	for i, a := range e.Args {
		t, g, _ := c.expr(a, info.paramKinds[i])
		args, gs = append(args, t), append(gs, g...)
	}
	if len(gs) > 0 {
		c.bad(e, "call with an argument that may panic")
	}
	n := c.fresh()
	var res, pat, rebinds []string
	for i := range info.results {
		v := fmt.Sprintf("_r%d_%d", n, i)
		res, pat = append(res, v), append(pat, v)
	}
	for _, f := range info.mutFields {
		pat, rebinds = append(pat, c.recv+"_"+f), append(rebinds, c.recv+"_"+f)
	}
	for i := 0; i < info.extraMut; i++ {
		c.bad(e, "call of a function that updates package variables or slice arguments")
	}
	p := "_"
	if len(pat) == 1 {
		p = pat[0]
	} else if len(pat) > 1 {
		p = "(" + strings.Join(pat, ", ") + ")"
	}
	c.pre = append(c.pre, preEntry{prefix: fmt.Sprintf("match %s %s with None => None | Some %s => ", info.coqName, strings.Join(args, " "), p), suffix: " end", rebinds: rebinds})
	return res
}

func (c *tctx) tuple(xs []string) string {
	if len(xs) == 0 {
		return "tt"
	}
	if len(xs) == 1 {
		return xs[0]
	}
	return "(" + strings.Join(xs, ", ") + ")"
}

func (c *tctx) pattern(xs []string) string {
	if len(xs) == 0 {
		return "_"
	}
	if len(xs) == 1 {
		return xs[0]
	}
	return "'(" + strings.Join(xs, ", ") + ")"
}

// what falls off the end of a statement list
func (c *tctx) fallOff() string {
	if c.inLoop {
		return "Some (inl " + c.tuple(c.loopVars) + ")"
	}
	if len(c.results) == 0 {
		return "Some " + c.tuple(c.mutated)
	}
	fail("translator: %s: control reaches the end of a function with results", c.name)
	return ""
}

func (c *tctx) ret(vals []string) string {
	t := c.tuple(append(vals, c.mutated...))
	if c.inLoop {
		return "Some (inr " + t + ")"
	}
	return "Some " + t
}

// assigned collects the variables of the enclosing scopes a statement list assigns to
func assigned(list []ast.Stmt, declared map[string]bool, out map[string]bool) {
	local := map[string]bool{}
	for k := range declared {
		local[k] = true
	}
	for _, s := range list {
		ast.Inspect(s, func(n ast.Node) bool {
			switch st := n.(type) {
			case *ast.AssignStmt:
				for _, l := range st.Lhs {
					if id, ok := l.(*ast.Ident); ok && id.Name != "_" {
						if st.Tok == token.DEFINE {
							local[id.Name] = true
						} else if !local[id.Name] {
							out[id.Name] = true
						}
					}
				}
			case *ast.IncDecStmt:
				if id, ok := st.X.(*ast.Ident); ok && !local[id.Name] {
					out[id.Name] = true
				}
			case *ast.CallExpr:
				if src(st.Fun) == "atomic.AddUint64" {
					if ue, ok := st.Args[0].(*ast.UnaryExpr); ok {
						if id, ok := ue.X.(*ast.Ident); ok && !local[id.Name] {
							out[id.Name] = true
						}
					}
				}
			}
			return true
		})
	}
}

func (c *tctx) stmts(list []ast.Stmt, k func() string) string {
	if len(list) == 0 {
		return k()
	}
	rest := func() string { return c.stmts(list[1:], k) }
	switch s := list[0].(type) {
	case *ast.ReturnStmt:
		if len(s.Results) != len(c.results) {
			c.bad(s, "return")
		}
		var vals, gs []string
		for i, r := range s.Results {
			t, g, _ := c.expr(r, c.results[i])
			vals, gs = append(vals, t), append(gs, g...)
		}
		return c.withPre(guarded(gs, c.ret(vals)))
	case *ast.BranchStmt:
		if s.Tok == token.CONTINUE && c.inLoop && s.Label == nil {
			return c.fallOff()
		}
	case *ast.DeclStmt:
		gd := s.Decl.(*ast.GenDecl)
		if gd.Tok == token.CONST {
			// a local constant is a binding like any other
			var binds []string
			for _, sp := range gd.Specs {
				vs := sp.(*ast.ValueSpec)
				for i, n := range vs.Names {
					if i >= len(vs.Values) {
						c.bad(s, "constant declaration")
					}
					v, g, k := c.expr(vs.Values[i], kindOfType(vs.Type))
					if k == "" || len(g) > 0 {
						c.bad(s, "constant declaration")
					}
					c.kinds[n.Name] = k
					binds = append(binds, fmt.Sprintf("let %s := %s in ", n.Name, v))
				}
			}
			return "(" + strings.Join(binds, "") + rest() + ")"
		}
		if gd.Tok == token.VAR {
			term := ""
			var binds []string
			for _, sp := range gd.Specs {
				vs := sp.(*ast.ValueSpec)
				for i, n := range vs.Names {
					k := kindOfType(vs.Type)
					v := zero(k)
					var g []string
					if i < len(vs.Values) {
						v, g, k = c.expr(vs.Values[i], k)
					}
					if k == "" || len(g) > 0 {
						c.bad(s, "declaration")
					}
					c.kinds[n.Name] = k
					binds = append(binds, fmt.Sprintf("let %s := %s in ", n.Name, v))
				}
			}
			term = strings.Join(binds, "") + rest()
			return "(" + term + ")"
		}
	case *ast.IncDecStmt:
		id, ok := s.X.(*ast.Ident)
		if ok && c.kinds[id.Name] == "int" {
			op := "+"
			if s.Tok == token.DEC {
				op = "-"
			}
			return fmt.Sprintf("(let %s := (%s %s 1) in %s)", id.Name, id.Name, op, rest())
		}
	case *ast.AssignStmt:
		// element assignment dst[i] = v
		if len(s.Lhs) == 1 && s.Tok == token.ASSIGN {
			if ix, ok := s.Lhs[0].(*ast.IndexExpr); ok {
				if id, ok := ix.X.(*ast.Ident); ok && c.kinds[id.Name] == "bytes" {
					i, g1, _ := c.expr(ix.Index, "int")
					v, g2, _ := c.expr(s.Rhs[0], "int")
					g := append(append(g1, g2...), fmt.Sprintf("(0 <=? %s)", i), fmt.Sprintf("(%s <? go_len %s)", i, id.Name))
					return guarded(g, fmt.Sprintf("(let %s := go_set %s %s %s in %s)", id.Name, id.Name, i, v, rest()))
				}
			}
		}
		// x, n := binary.Uvarint(b)
		if len(s.Lhs) == 2 && len(s.Rhs) == 1 {
			if ce, ok := s.Rhs[0].(*ast.CallExpr); ok && src(ce.Fun) == "binary.Uvarint" {
				a, ok1 := s.Lhs[0].(*ast.Ident)
				b, ok2 := s.Lhs[1].(*ast.Ident)
				if ok1 && ok2 {
					arg, g, _ := c.expr(ce.Args[0], "bytes")
					c.kinds[a.Name], c.kinds[b.Name] = "int", "int"
					return c.withPre(guarded(g, fmt.Sprintf("(let '(%s, %s) := go_uvarint %s in %s)", a.Name, b.Name, arg, rest())))
				}
			}
		}
		// n := binary.PutUvarint(dst[lo:], v) (also with += ): writes into dst, yields the number of bytes
		if len(s.Lhs) == 1 && len(s.Rhs) == 1 {
			if ce, ok := s.Rhs[0].(*ast.CallExpr); ok && src(ce.Fun) == "binary.PutUvarint" {
				lhs, okL := s.Lhs[0].(*ast.Ident)
				dst, lo := ce.Args[0], "0"
				var g []string
				if se, ok := dst.(*ast.SliceExpr); ok && se.High == nil && !se.Slice3 {
					dst = se.X
					if se.Low != nil {
						lo, g, _ = c.expr(se.Low, "int")
					}
				}
				if did, ok := dst.(*ast.Ident); ok && okL && c.kinds[did.Name] == "bytes" {
					v, g2, _ := c.expr(ce.Args[1], "int")
					g = append(append(g, g2...), fmt.Sprintf("(0 <=? %s)", lo), fmt.Sprintf("(%s <=? go_len %s)", lo, did.Name),
						fmt.Sprintf("(go_uvarint_len %s <=? go_len %s - %s)", v, did.Name, lo)) // PutUvarint panics on a short buffer
					val := fmt.Sprintf("(go_uvarint_len %s)", v)
					switch s.Tok {
					case token.DEFINE, token.ASSIGN:
					case token.ADD_ASSIGN:
						val = fmt.Sprintf("(%s + go_uvarint_len %s)", lhs.Name, v)
					default:
						c.bad(s, "assignment operator")
					}
					c.kinds[lhs.Name] = "int"
					return c.withPre(guarded(g, fmt.Sprintf("(let %s := go_put_uvarint %s %s %s in let %s := %s in %s)", did.Name, did.Name, lo, v, lhs.Name, val, rest())))
				}
			}
		}
		if len(s.Lhs) != len(s.Rhs) {
			c.bad(s, "assignment")
		}
		var names, vals, gs []string
		for i, l := range s.Lhs {
			id, ok := l.(*ast.Ident)
			if se, isSel := l.(*ast.SelectorExpr); isSel && !ok {
				// a field of the receiver
				if rid, isId := se.X.(*ast.Ident); isId && c.recv != "" && rid.Name == c.recv {
					id, ok = &ast.Ident{Name: c.recv + "_" + se.Sel.Name, NamePos: se.Pos()}, true
					if _, known := c.kinds[id.Name]; !known {
						c.bad(s, "assignment to a field that is not part of the function's state")
					}
				}
			}
			if !ok {
				c.bad(s, "assignment target")
			}
			want := c.kinds[id.Name]
			var t string
			var g []string
			var k string
			switch s.Tok {
			case token.DEFINE, token.ASSIGN:
				t, g, k = c.expr(s.Rhs[i], want)
			case token.ADD_ASSIGN, token.SUB_ASSIGN, token.MUL_ASSIGN, token.OR_ASSIGN, token.AND_ASSIGN, token.SHL_ASSIGN, token.SHR_ASSIGN:
				op := map[token.Token]token.Token{token.ADD_ASSIGN: token.ADD, token.SUB_ASSIGN: token.SUB, token.MUL_ASSIGN: token.MUL,
					token.OR_ASSIGN: token.OR, token.AND_ASSIGN: token.AND, token.SHL_ASSIGN: token.SHL, token.SHR_ASSIGN: token.SHR}[s.Tok]
				t, g, k = c.expr(&ast.BinaryExpr{X: l, Op: op, Y: s.Rhs[i], OpPos: s.TokPos}, want)
			default:
				c.bad(s, "assignment operator")
			}
			if id.Name == "_" {
				gs = append(gs, g...)
				continue
			}
			if want != "" && want != k {
				c.bad(s, "assignment changes the kind of "+id.Name)
			}
			c.kinds[id.Name] = k
			names, vals, gs = append(names, id.Name), append(vals, t), append(gs, g...)
		}
		pre := c.pre
		c.pre = nil
		wrap := func(t string) string { c.pre = pre; return c.withPre(t) }
		if len(names) == 0 {
			return wrap(guarded(gs, rest()))
		}
		return wrap(guarded(gs, fmt.Sprintf("(let %s := %s in %s)", c.pattern(names), c.tuple(vals), rest())))
	case *ast.ExprStmt:
		if call, ok := s.X.(*ast.CallExpr); ok {
			if se, ok := call.Fun.(*ast.SelectorExpr); ok {
				if id, ok := se.X.(*ast.Ident); ok && c.recv != "" && id.Name == c.recv && c.recvType != "" {
					if info := ensureTranslated(c.p, c.recvType, se.Sel.Name); info != nil {
						c.call(call, info, "", false)
						return c.withPre(rest())
					}
				}
			}
			switch src(call.Fun) {
			case "binary.BigEndian.PutUint16":
				if id, ok := call.Args[0].(*ast.Ident); ok && c.kinds[id.Name] == "bytes" {
					v, g, _ := c.expr(call.Args[1], "int")
					g = append(g, "(2 <=? go_len "+id.Name+")")
					return guarded(g, fmt.Sprintf("(let %s := go_put16 %s %s in %s)", id.Name, id.Name, v, rest()))
				}
			case "copy":
				// copy(dst[lo:], src) / copy(dst, src)
				dst, lo := call.Args[0], "0"
				var g []string
				if se, ok := dst.(*ast.SliceExpr); ok && se.High == nil && !se.Slice3 {
					dst = se.X
					if se.Low != nil {
						lo, g, _ = c.expr(se.Low, "int")
					}
				}
				if id, ok := dst.(*ast.Ident); ok && c.kinds[id.Name] == "bytes" {
					sv, g2, _ := c.expr(call.Args[1], "bytes")
					g = append(append(g, g2...), fmt.Sprintf("(0 <=? %s)", lo), fmt.Sprintf("(%s <=? go_len %s)", lo, id.Name))
					return guarded(g, fmt.Sprintf("(let %s := go_copy %s %s %s in %s)", id.Name, id.Name, lo, sv, rest()))
				}
			}
		}
	case *ast.BlockStmt:
		return c.stmts(append(append([]ast.Stmt{}, s.List...), list[1:]...), k)
	case *ast.IfStmt:
		pre := []ast.Stmt{}
		if s.Init != nil {
			pre = append(pre, s.Init)
		}
		return c.stmts(pre, func() string {
			cond, g, _ := c.expr(s.Cond, "bool")
			pre := c.pre
			c.pre = nil
			saved := c.saveKinds()
			a := c.stmts(s.Body.List, rest)
			c.kinds = saved
			var b string
			switch el := s.Else.(type) {
			case nil:
				b = rest()
			case *ast.BlockStmt:
				b = c.stmts(el.List, rest)
			case *ast.IfStmt:
				b = c.stmts([]ast.Stmt{el}, rest)
			}
			c.kinds = saved
			c.pre = pre
			return c.withPre(guarded(g, fmt.Sprintf("(if %s then %s else %s)", cond, a, b)))
		})
	case *ast.SwitchStmt:
		pre := []ast.Stmt{}
		if s.Init != nil {
			pre = append(pre, s.Init)
		}
		return c.stmts(pre, func() string {
			tag, g, tk := "", []string(nil), "bool"
			if s.Tag != nil {
				tag, g, tk = c.exprAny(s.Tag)
			}
			tagPre := c.pre
			c.pre = nil
			var def []ast.Stmt
			hasDef := false
			type arm struct {
				cond string
				body []ast.Stmt
			}
			var arms []arm
			for _, cl := range s.Body.List {
				cc := cl.(*ast.CaseClause)
				for _, st := range cc.Body {
					if br, ok := st.(*ast.BranchStmt); ok && (br.Tok == token.FALLTHROUGH || br.Tok == token.BREAK) {
						c.bad(br, "branch in switch")
					}
				}
				if cc.List == nil {
					def, hasDef = cc.Body, true
					continue
				}
				var alts []string
				for _, ce := range cc.List {
					v, gv, _ := c.expr(ce, tk)
					if len(gv) > 0 {
						c.bad(ce, "case expression that may panic")
					}
					if s.Tag == nil {
						alts = append(alts, v)
					} else if tk == "int" {
						alts = append(alts, "("+tag+" =? "+v+")")
					} else {
						alts = append(alts, "(Bool.eqb "+tag+" "+v+")")
					}
				}
				arms = append(arms, arm{"(" + strings.Join(alts, " || ") + ")", cc.Body})
			}
			_ = hasDef
			saved := c.saveKinds()
			term := c.stmts(def, rest)
			c.kinds = saved
			for i := len(arms) - 1; i >= 0; i-- {
				body := c.stmts(arms[i].body, rest)
				c.kinds = saved
				term = fmt.Sprintf("(if %s then %s else %s)", arms[i].cond, body, term)
			}
			c.pre = tagPre
			return c.withPre(guarded(g, term))
		})
	case *ast.ForStmt:
		// for { body }: the body runs until it returns; the translation gives it loopFuel rounds (the lemma about the
		// translated function shows they suffice)
		if c.inLoop || s.Init != nil || s.Cond != nil || s.Post != nil {
			c.bad(s, "for loop")
		}
		set := map[string]bool{}
		assigned(s.Body.List, map[string]bool{}, set)
		var vars []string
		for v := range set {
			if _, ok := c.kinds[v]; ok {
				vars = append(vars, v)
			}
		}
		sort.Strings(vars)
		saved := c.saveKinds()
		c.inLoop, c.loopVars = true, vars
		body := c.stmts(s.Body.List, c.fallOff)
		c.inLoop, c.loopVars = false, nil
		c.kinds = saved
		return fmt.Sprintf("(match go_loop %d (fun %s => %s) %s with Some (inr _r) => Some _r | _ => None end)", loopFuel, c.pattern(vars), body, c.tuple(vars))
	case *ast.RangeStmt:
		if c.inLoop || s.Tok != token.DEFINE {
			c.bad(s, "range loop")
		}
		x, g, k := c.expr(s.X, "bytes")
		if k != "bytes" {
			c.bad(s, "range over a non-slice")
		}
		iv, cv := "_i", "_c"
		if id, ok := s.Key.(*ast.Ident); ok && id.Name != "_" {
			iv = id.Name
		}
		if s.Value != nil {
			if id, ok := s.Value.(*ast.Ident); ok && id.Name != "_" {
				cv = id.Name
			}
		}
		set := map[string]bool{}
		assigned(s.Body.List, map[string]bool{iv: true, cv: true}, set)
		var vars []string
		for v := range set {
			if _, ok := c.kinds[v]; ok {
				vars = append(vars, v)
			}
		}
		sort.Strings(vars)
		saved := c.saveKinds()
		c.kinds[iv], c.kinds[cv] = "int", "int"
		c.inLoop, c.loopVars = true, vars
		body := c.stmts(s.Body.List, c.fallOff)
		c.inLoop, c.loopVars = false, nil
		c.kinds = saved
		after := rest()
		retT := c.tuple(nil)
		_ = retT
		return guarded(g, fmt.Sprintf("(match go_range %s (fun %s %s %s => %s) %s with None => None | Some (inr _r) => Some _r | Some (inl %s) => %s end)",
			x, iv, cv, c.pattern(vars), body, c.tuple(vars), c.pattern(vars), after))
	}
	c.bad(list[0], "statement")
	return ""
}

func (c *tctx) saveKinds() map[string]string {
	m := map[string]string{}
	for k, v := range c.kinds {
		m[k] = v
	}
	return m
}

// structFields returns the kinds of the fields of a struct type of the package
func (p *pkg) structFields(name string) map[string]string {
	res := map[string]string{}
	for _, af := range p.files {
		for _, d := range af.Decls {
			gd, ok := d.(*ast.GenDecl)
			if !ok || gd.Tok != token.TYPE {
				continue
			}
			for _, sp := range gd.Specs {
				ts := sp.(*ast.TypeSpec)
				st, ok := ts.Type.(*ast.StructType)
				if !ok || ts.Name.Name != name {
					continue
				}
				for _, f := range st.Fields.List {
					for _, n := range f.Names {
						res[n.Name] = kindOfType(f.Type)
					}
				}
			}
		}
	}
	return res
}

// translateFn emits the Gallina definition of one function
// identifiers that are keywords of Gallina (or names the generated file relies on) get an underscore
var coqReserved = map[string]bool{"end": true, "in": true, "let": true, "fun": true, "match": true, "with": true, "then": true, "as": true,
	"at": true, "fix": true, "cofix": true, "forall": true, "exists": true, "exists2": true, "where": true, "using": true, "Prop": true, "Set": true,
	"SProp": true, "Some": true, "None": true, "inl": true, "inr": true, "negb": true, "list": true, "option": true, "Z": true, "mod": true}

func translateFn(w *strings.Builder, p *pkg, file, recv, name string) {
	fd := p.fn(file, recv, name)
	ast.Inspect(fd, func(n ast.Node) bool {
		if id, ok := n.(*ast.Ident); ok && coqReserved[id.Name] && id != fd.Name {
			id.Name += "_"
		}
		return true
	})
	c := &tctx{p: p, name: p.name + "." + name, kinds: map[string]string{}}
	info := &finfo{coqName: fmt.Sprintf("go_%s_%s", p.name, name)}
	intRecv := false
	var params []string
	addParam := func(n, k string) {
		c.kinds[n] = k
		params = append(params, fmt.Sprintf("(%s : %s)", n, coqType(k)))
	}
	if fd.Recv != nil && len(fd.Recv.List) == 1 && len(fd.Recv.List[0].Names) == 1 {
		c.recv = fd.Recv.List[0].Names[0].Name
		if k := kindOfType(fd.Recv.List[0].Type); k != "" {
			addParam(c.recv, k) // a value receiver of integer kind (Type)
			c.recv = ""
			intRecv = true
		} else {
			// the fields of the receiver the body (and the methods of the receiver it calls) reads or writes are the
			// function's state: parameters, and - those written - extra results
			fields := p.structFields(recv)
			c.recvType = recv
			reads, writes := p.fieldUse(recv, fd, map[string]bool{recv + "." + name: true})
			used := map[string]bool{}
			for f := range reads {
				used[f] = true
			}
			for f := range writes {
				used[f] = true
			}
			var us []string
			for f := range used {
				us = append(us, f)
			}
			sort.Strings(us)
			for _, f := range us {
				k := fields[f]
				if k == "" {
					fail("translator: %s: receiver field %s of unsupported type", c.name, f)
				}
				addParam(c.recv+"_"+f, k)
				info.fieldParams = append(info.fieldParams, f)
				if writes[f] {
					info.mutFields = append(info.mutFields, f)
					c.mutated = append(c.mutated, c.recv+"_"+f)
				}
			}
		}
	}
	for _, f := range fd.Type.Params.List {
		k := kindOfType(f.Type)
		if k == "" {
			fail("translator: %s: parameter of unsupported type %s", c.name, src(f.Type))
		}
		for _, n := range f.Names {
			addParam(n.Name, k)
			info.paramKinds = append(info.paramKinds, k)
		}
	}
	_ = intRecv
	if fd.Type.Results != nil {
		for _, f := range fd.Type.Results.List {
			k := kindOfType(f.Type)
			if k == "" || len(f.Names) > 0 {
				fail("translator: %s: result of unsupported type %s (or named)", c.name, src(f.Type))
			}
			c.results = append(c.results, k)
		}
	}
	// package variables of integer kind the body updates atomically: a parameter (the value before the call) and an extra
	// result (the value after it)
	ast.Inspect(fd.Body, func(n ast.Node) bool {
		if ce, ok := n.(*ast.CallExpr); ok && src(ce.Fun) == "atomic.AddUint64" {
			if ue, ok := ce.Args[0].(*ast.UnaryExpr); ok {
				if id, ok := ue.X.(*ast.Ident); ok {
					if _, known := c.kinds[id.Name]; !known {
						addParam(id.Name, "int")
						c.mutated = append(c.mutated, id.Name)
					}
				}
			}
		}
		return true
	})
	// slice parameters written to
	written := map[string]bool{}
	ast.Inspect(fd.Body, func(n ast.Node) bool {
		switch st := n.(type) {
		case *ast.AssignStmt:
			for _, l := range st.Lhs {
				if ix, ok := l.(*ast.IndexExpr); ok {
					if id, ok := ix.X.(*ast.Ident); ok {
						written[id.Name] = true
					}
				}
			}
		case *ast.CallExpr:
			f := src(st.Fun)
			if f == "copy" || f == "binary.BigEndian.PutUint16" || f == "binary.PutUvarint" {
				a := st.Args[0]
				if se, ok := a.(*ast.SliceExpr); ok {
					a = se.X
				}
				if id, ok := a.(*ast.Ident); ok {
					written[id.Name] = true
				}
			}
		}
		return true
	})
	for _, f := range fd.Type.Params.List {
		for _, n := range f.Names {
			if written[n.Name] {
				c.mutated = append(c.mutated, n.Name)
			}
		}
	}
	info.results = c.results
	info.extraMut = len(c.mutated) - len(info.mutFields)
	translatedFns[p.name+"."+recv+"."+name] = info
	var rts []string
	for _, k := range c.results {
		rts = append(rts, coqType(k))
	}
	for _, m := range c.mutated {
		rts = append(rts, coqType(c.kinds[m]))
	}
	rt := "unit"
	if len(rts) > 0 {
		rt = strings.Join(rts, " * ")
	}
	body := c.stmts(fd.Body.List, c.fallOff)
	pos := fset.Position(fd.Pos())
	fmt.Fprintf(w, "(* %s/%s: func %s *)\n", p.name, file, name)
	_ = pos
	fmt.Fprintf(w, "Definition go_%s_%s %s : option (%s) :=\n  %s.\n\n", p.name, name, strings.Join(params, " "), rt, body)
}

var transOut *strings.Builder

// ensureTranslated translates a function of the package on demand (a callee is emitted before its caller)
func ensureTranslated(p *pkg, recv, name string) *finfo {
	key := p.name + "." + recv + "." + name
	if info, ok := translatedFns[key]; ok {
		return info
	}
	file, fd := p.findMethod(recv, name)
	if fd == nil {
		return nil
	}
	translateFn(transOut, p, file, recv, name)
	return translatedFns[key]
}

// emitTranslated writes coq/Gen/Translated.v
func emitTranslated(path string, msg, topics, sess, svc *pkg) bool {
	var w strings.Builder
	w.WriteString("(* GENERATED by /verif/tools/gentables (trans.go) from /repo's current working tree -- do not edit.\n")
	w.WriteString("   Gallina translations of pure leaf functions of the library; the semantics of the fragment is Base/GoSem.v. *)\n")
	w.WriteString("From Coq Require Import List ZArith Bool.\nFrom Base Require Import GoSem.\nImport ListNotations.\nOpen Scope Z_scope.\n\n")
	transOut = &w
	translate := func(w *strings.Builder, p *pkg, file, recv, name string) {
		if _, done := translatedFns[p.name+"."+recv+"."+name]; done {
			return
		}
		section("translation of "+p.name+"."+name, func() { translateFn(w, p, file, recv, name) })
	}
	translate(&w, topics, "memtopics.go", "", "nextTopicLevel")
	translate(&w, msg, "message.go", "", "ValidTopic")
	translate(&w, msg, "message.go", "", "ValidQos")
	translate(&w, msg, "message.go", "Type", "Valid")
	translate(&w, msg, "message.go", "", "readLPBytes")
	translate(&w, msg, "message.go", "", "writeLPBytes")
	translate(&w, msg, "header.go", "header", "msglen")
	translate(&w, msg, "message.go", "Type", "DefaultFlags")
	translate(&w, msg, "header.go", "", "nextPacketID")
	translate(&w, msg, "header.go", "header", "decode")
	translate(&w, msg, "header.go", "header", "encode")
	translate(&w, msg, "header.go", "header", "SetRemainingLength")
	translate(&w, sess, "ackqueue.go", "Ackqueue", "index")
	translate(&w, sess, "ackqueue.go", "Ackqueue", "full")
	translate(&w, sess, "ackqueue.go", "Ackqueue", "empty")
	translate(&w, sess, "ackqueue.go", "", "powerOfTwo64")
	translate(&w, sess, "ackqueue.go", "", "roundUpPowerOfTwo64")
	translate(&w, svc, "buffer.go", "", "powerOfTwo64")
	translate(&w, svc, "buffer.go", "", "roundUpPowerOfTwo64")
	return writeIfChanged(path, w.String())
}
