// trans.go: the second translator of tie T1.  It turns pure leaf functions of the library - loops over
// byte slices, switches, early returns, slicing and indexing - into Gallina definitions over Z, list Z and
// bool (coq/Gen/Translated.v), statement by statement, so that Coq lemmas (coq/Trans/Equiv.v) relate what the
// source says NOW to the hand-written models the property theorems are about.
//
// Shallow embedding: a Go function of results (T1, ..., Tn) becomes a Coq function into
// option (T1 * ... * Tn); None stands for a run-time panic (index or slice bounds).  Integers of every
// width are Z (overflow is not modelled; narrowing conversions are `mod`), []byte is list Z with
// cap == len, error values are bool (true = non-nil).  A slice parameter the function writes to is
// returned as an additional last component.  Anything outside the fragment makes the translator fail
// loudly: the tie is then broken, not silently weakened.
package main

import (
	"fmt"
	"go/ast"
	"go/token"
	"sort"
	"strconv"
	"strings"
)

const loopFuel = 4

// a binding hoisted in front of the term that uses its result: `prefix TERM suffix`; rebinds lists the variables the
// prefix re-binds (the receiver fields a called method may have written)
type preEntry struct {
	prefix, suffix string
	rebinds        []string
}

// what is known of a translated function, for calls to it
type finfo struct {
	coqName     string
	fieldParams []string // receiver fields (read or written, directly or through methods it calls), in parameter order
	mutFields   []string // ... those written: returned after the results, in this order
	nparams     int
	paramKinds  []string
	results     []string
	extraMut    int // further extra results (package variables, slice parameters written to)
	mutParams   []int // indices of the slice parameters written to (returned, in this order, after the package variables)
	nPkgVars    int
}

var translatedFns = map[string]*finfo{}
var coqNames = map[string]string{}

type tctx struct {
	p        *pkg
	name     string
	results  []string          // kinds of the results
	kinds    map[string]string // variable -> kind: int, bytes, bool, err
	width    map[string]int    // integer variable -> width of its narrow unsigned type (absent / 0: not narrow)
	mutated  []string          // slice parameters written to and package variables updated: returned as extra results
	pre      []preEntry        // bindings hoisted out of the expression being translated (atomic updates, calls)
	recvType string            // the struct type of the receiver, when its fields are the function's state
	nfresh   int
	inLoop   bool
	loopVars []string
	recv     string
}

// widthOfType: the width of a narrow unsigned integer type (arithmetic in it wraps), 0 for int, int64, uint64 and the
// signed types (their overflow is not modelled: the translated functions compute lengths and positions)
func widthOfType(e ast.Expr) int {
	if id, ok := e.(*ast.Ident); ok {
		switch id.Name {
		case "byte", "uint8", "Type":
			return 8
		case "uint16":
			return 16
		case "uint32":
			return 32
		}
	}
	return 0
}

// widthOf infers the width of the type of an integer expression: 0 = not narrow (or an untyped constant)
func (c *tctx) widthOf(e ast.Expr) int {
	switch e := e.(type) {
	case *ast.ParenExpr:
		return c.widthOf(e.X)
	case *ast.Ident:
		return c.width[e.Name]
	case *ast.SelectorExpr:
		if id, ok := e.X.(*ast.Ident); ok && id.Name == c.recv && c.recv != "" {
			return c.width[c.recv+"_"+e.Sel.Name]
		}
	case *ast.IndexExpr:
		return 8
	case *ast.UnaryExpr:
		return c.widthOf(e.X)
	case *ast.BinaryExpr:
		switch e.Op {
		case token.SHL, token.SHR:
			return c.widthOf(e.X)
		case token.ADD, token.SUB, token.MUL, token.QUO, token.REM, token.AND, token.OR, token.XOR, token.AND_NOT:
			if w := c.widthOf(e.X); w != 0 {
				return w
			}
			return c.widthOf(e.Y)
		}
	case *ast.CallExpr:
		if w := widthOfType(e.Fun); w != 0 {
			return w
		}
		switch src(e.Fun) {
		case "binary.BigEndian.Uint16":
			return 16
		}
		if se, ok := e.Fun.(*ast.SelectorExpr); ok {
			// a translated method / function: the width of its (single) result type
			var fd *ast.FuncDecl
			if mt, mn, ok := c.recvCall(e.Fun); ok {
				_, fd = c.p.findMethod(mt, mn)
			} else if _, mfd := c.p.findMethod("Type", se.Sel.Name); mfd != nil {
				fd = mfd
			}
			if fd != nil && fd.Type.Results != nil && len(fd.Type.Results.List) == 1 {
				return widthOfType(fd.Type.Results.List[0].Type)
			}
		}
		if id, ok := e.Fun.(*ast.Ident); ok {
			if _, fd := c.p.findMethod("", id.Name); fd != nil && fd.Type.Results != nil && len(fd.Type.Results.List) == 1 {
				return widthOfType(fd.Type.Results.List[0].Type)
			}
		}
	}
	return 0
}

func wrapWidth(t string, w int) string {
	switch w {
	case 8:
		return "(" + t + " mod 256)"
	case 16:
		return "(" + t + " mod 65536)"
	case 32:
		return "(" + t + " mod 4294967296)"
	}
	return t
}

func (c *tctx) bad(n ast.Node, what string) {
	fail("translator: %s: unsupported %s at %s: %s", c.name, what, fset.Position(n.Pos()), src(n))
}

func kindOfType(e ast.Expr) string {
	switch t := e.(type) {
	case *ast.Ident:
		switch t.Name {
		case "int", "int8", "int16", "int32", "int64", "uint", "uint8", "uint16", "uint32", "uint64", "byte", "Type":
			return "int"
		case "bool":
			return "bool"
		case "error":
			return "err"
		case "string":
			return "str" // strings are only built for messages: their values are not represented
		}
	case *ast.ArrayType:
		if id, ok := t.Elt.(*ast.Ident); ok && t.Len == nil && (id.Name == "byte" || id.Name == "uint8") {
			return "bytes"
		}
	}
	return ""
}

// errAsCode: error values are integer codes (0 = nil) instead of booleans: used for the byte ring, whose callers
// distinguish the errors (and the sequential reading of which adds the outcome "blocks", seq.go)
var errAsCode bool

var errCodes = map[string]int{"io.EOF": 1, "bufio.ErrBufferFull": 2, "ErrBufferInsufficientData": 3, "bufio.ErrNegativeCount": 4, errBlockedName: 5}

const errOther = 9

func coqType(k string) string {
	switch k {
	case "int":
		return "Z"
	case "bytes":
		return "list Z"
	case "err":
		if errAsCode {
			return "Z"
		}
	case "str":
		return "unit"
	}
	return "bool"
}

func zero(k string) string {
	switch k {
	case "int":
		return "0"
	case "bytes":
		return "[]"
	case "err":
		if errAsCode {
			return "0"
		}
	case "str":
		return "tt"
	}
	return "false"
}

func conj(gs []string) string {
	if len(gs) == 0 {
		return ""
	}
	return "(" + strings.Join(gs, " && ") + ")"
}

// guarded wraps a term of option type with the bounds conditions of the expressions it was built from
func guarded(gs []string, term string) string {
	if len(gs) == 0 {
		return term
	}
	return "(if " + conj(gs) + " then " + term + " else None)"
}

func byteList(s string) string {
	var xs []string
	for _, b := range []byte(s) {
		xs = append(xs, strconv.Itoa(int(b)))
	}
	return "[" + strings.Join(xs, "; ") + "]"
}

// expr translates an expression: the Gallina term, the conditions under which evaluating it does not panic,
// and its kind; want is the kind the context expects (for nil)
func (c *tctx) expr(e ast.Expr, want string) (string, []string, string) {
	switch e := e.(type) {
	case *ast.ParenExpr:
		return c.expr(e.X, want)
	case *ast.BasicLit:
		switch e.Kind {
		case token.INT, token.CHAR:
			v, ok := c.p.eval(e, 0)
			if !ok {
				c.bad(e, "literal")
			}
			return fmt.Sprintf("(%d)", v), nil, "int"
		case token.STRING:
			if want == "str" {
				return "tt", nil, "str"
			}
			s, _ := strconv.Unquote(e.Value)
			return byteList(s), nil, "bytes"
		}
	case *ast.Ident:
		switch e.Name {
		case "true", "false":
			return e.Name, nil, "bool"
		case "nil":
			if want == "" {
				c.bad(e, "nil of unknown kind")
			}
			return zero(want), nil, want
		}
		if k, ok := c.kinds[e.Name]; ok {
			return e.Name, nil, k
		}
		if code, ok := errCodes[e.Name]; ok && errAsCode {
			return fmt.Sprintf("(%d)", code), nil, "err"
		}
		if v, ok := c.p.consts[e.Name]; ok {
			return fmt.Sprintf("(%d)", v), nil, "int"
		}
		if s, ok := c.p.strs[e.Name]; ok {
			return byteList(s), nil, "bytes"
		}
	case *ast.SelectorExpr:
		if id, ok := e.X.(*ast.Ident); ok {
			if code, ok := errCodes[id.Name+"."+e.Sel.Name]; ok && errAsCode {
				return fmt.Sprintf("(%d)", code), nil, "err"
			}
			if id.Name == c.recv && c.recv != "" {
				n := c.recv + "_" + e.Sel.Name
				if k, ok := c.kinds[n]; ok {
					return n, nil, k
				}
			}
			if id.Name == "message" && msgPkg != nil {
				if v, ok := msgPkg.consts[e.Sel.Name]; ok {
					return fmt.Sprintf("(%d)", v), nil, "int"
				}
			}
		}
	case *ast.UnaryExpr:
		t, g, k := c.expr(e.X, want)
		switch e.Op {
		case token.NOT:
			return "(negb " + t + ")", g, "bool"
		case token.SUB:
			return "(- " + t + ")", g, k
		}
	case *ast.IndexExpr:
		b, g1, k := c.expr(e.X, "bytes")
		i, g2, _ := c.expr(e.Index, "int")
		if k != "bytes" {
			c.bad(e, "index of a non-slice")
		}
		g := append(append(g1, g2...), fmt.Sprintf("(0 <=? %s)", i), fmt.Sprintf("(%s <? go_len %s)", i, b))
		return fmt.Sprintf("(go_nth %s %s)", b, i), g, "int"
	case *ast.SliceExpr:
		b, g, k := c.expr(e.X, "bytes")
		if k != "bytes" || e.Slice3 {
			c.bad(e, "slice expression")
		}
		lo, hi := "0", "(go_len "+b+")"
		if e.Low != nil {
			var g1 []string
			lo, g1, _ = c.expr(e.Low, "int")
			g = append(g, g1...)
		}
		if e.High != nil {
			var g1 []string
			hi, g1, _ = c.expr(e.High, "int")
			g = append(g, g1...)
		}
		g = append(g, fmt.Sprintf("(0 <=? %s)", lo), fmt.Sprintf("(%s <=? %s)", lo, hi), fmt.Sprintf("(%s <=? go_len %s)", hi, b))
		return fmt.Sprintf("(go_sub %s %s %s)", b, lo, hi), g, "bytes"
	case *ast.CallExpr:
		// a method of the same receiver, a method of an integer-kind value, a function of the package
		if se, ok := e.Fun.(*ast.SelectorExpr); ok {
			if mt, mn, ok := c.recvCall(e.Fun); ok {
				info := ensureTranslated(c.p, mt, mn)
				if info == nil {
					c.bad(e, "call of a method that is not translated")
				}
				res := c.call(e, info, "", false)
				if len(res) != 1 {
					c.bad(e, "call that does not have exactly one result in an expression")
				}
				return res[0], nil, info.results[0]
			}
			if x := src(se.X); x != "binary.BigEndian" && x != "fmt" && x != "bytes" && x != "atomic" && x != "errors" && x != "binary" {
				// X.M() where M is a method of the package's integer type
				if _, mfd := c.p.findMethod("Type", se.Sel.Name); mfd != nil {
					if info := ensureTranslated(c.p, "Type", se.Sel.Name); info != nil {
						x, g, k := c.expr(se.X, "int")
						if k == "int" && len(g) == 0 {
							res := c.call(e, info, x, true)
							if len(res) == 1 {
								return res[0], nil, info.results[0]
							}
						}
					}
				}
			}
		}
		if id, ok := e.Fun.(*ast.Ident); ok {
			if _, isVar := c.kinds[id.Name]; !isVar {
				if _, ffd := c.p.findMethod("", id.Name); ffd != nil {
					if info := ensureTranslated(c.p, "", id.Name); info != nil {
						res := c.call(e, info, "", false)
						if len(res) == 1 {
							return res[0], nil, info.results[0]
						}
						c.bad(e, "call that does not have exactly one result in an expression")
					}
				}
			}
		}
		fn := src(e.Fun)
		switch fn {
		case "len":
			t, g, _ := c.expr(e.Args[0], "bytes")
			return "(go_len " + t + ")", g, "int"
		case "int", "int64", "uint64", "uint", "Type":
			return c.expr(e.Args[0], "int")
		case "int32":
			t, g, _ := c.expr(e.Args[0], "int")
			return "(go_int32 " + t + ")", g, "int"
		case "uint32":
			t, g, _ := c.expr(e.Args[0], "int")
			return "(" + t + " mod 4294967296)", g, "int"
		case "make":
			if len(e.Args) == 2 && kindOfType(e.Args[0]) == "bytes" {
				n, g, _ := c.expr(e.Args[1], "int")
				return "(go_make " + n + ")", append(g, "(0 <=? "+n+")"), "bytes"
			}
		case "byte", "uint8":
			t, g, _ := c.expr(e.Args[0], "int")
			return "(" + t + " mod 256)", g, "int"
		case "uint16":
			t, g, _ := c.expr(e.Args[0], "int")
			return "(" + t + " mod 65536)", g, "int"
		case "[]byte":
			return c.expr(e.Args[0], "bytes")
		case "fmt.Errorf", "errors.New":
			// the arguments are evaluated for the message only; they must not panic
			var g []string
			for _, a := range e.Args[1:] {
				if _, ga, _ := c.exprAny(a); len(ga) > 0 {
					g = append(g, ga...)
				}
			}
			if errAsCode {
				return fmt.Sprintf("(%d)", errOther), g, "err"
			}
			return "true", g, "err"
		case "error":
			return c.expr(e.Args[0], "err")
		case "binary.PutUvarint":
			// binary.PutUvarint(dst[lo:], v) as a value: the write is hoisted in front of the statement, the value is the count
			if len(e.Args) == 2 {
				dst, lo := e.Args[0], "0"
				var g []string
				if se, ok := dst.(*ast.SliceExpr); ok && se.High == nil && !se.Slice3 {
					dst = se.X
					if se.Low != nil {
						lo, g, _ = c.expr(se.Low, "int")
					}
				}
				dn, _, dk := c.expr(dst, "bytes")
				if _, isVar := c.kinds[dn]; isVar && dk == "bytes" {
					v, g2, _ := c.expr(e.Args[1], "int")
					g = append(append(g, g2...), fmt.Sprintf("(0 <=? %s)", lo), fmt.Sprintf("(%s <=? go_len %s)", lo, dn),
						fmt.Sprintf("(go_uvarint_len %s <=? go_len %s - %s)", v, dn, lo)) // PutUvarint panics on a short buffer
					c.pre = append(c.pre, preEntry{prefix: fmt.Sprintf("(if %s then let %s := go_put_uvarint %s %s %s in ", conj(g), dn, dn, lo, v), suffix: " else None)", rebinds: []string{dn}})
					return fmt.Sprintf("(go_uvarint_len %s)", v), nil, "int"
				}
			}
		case "copy":
			// copy(dst[lo:hi], src) as a value: the copy is hoisted in front of the statement, the value is the count
			if len(e.Args) == 2 {
				dst, lo, hi := e.Args[0], "0", ""
				var g []string
				if se, ok := dst.(*ast.SliceExpr); ok && !se.Slice3 {
					dst = se.X
					if se.Low != nil {
						lo, g, _ = c.expr(se.Low, "int")
					}
					if se.High != nil {
						var g1 []string
						hi, g1, _ = c.expr(se.High, "int")
						g = append(g, g1...)
					}
				}
				dn, _, dk := c.expr(dst, "bytes")
				if _, isVar := c.kinds[dn]; isVar && dk == "bytes" {
					sv, g2, _ := c.expr(e.Args[1], "bytes")
					if hi == "" {
						hi = "(go_len " + dn + ")"
					}
					g = append(append(g, g2...), fmt.Sprintf("(0 <=? %s)", lo), fmt.Sprintf("(%s <=? %s)", lo, hi), fmt.Sprintf("(%s <=? go_len %s)", hi, dn))
					v := fmt.Sprintf("_cn%d", c.fresh())
					c.pre = append(c.pre, preEntry{prefix: fmt.Sprintf("(if %s then let %s := go_copy_to_n %s %s %s %s in let %s := go_copy_to %s %s %s %s in ", conj(g), v, dn, lo, hi, sv, dn, dn, lo, hi, sv),
						suffix: " else None)", rebinds: []string{dn}})
					return v, nil, "int"
				}
			}
		case "append":
			// append(a, b...)
			if len(e.Args) == 2 && e.Ellipsis.IsValid() {
				a, g1, k1 := c.expr(e.Args[0], "bytes")
				b, g2, k2 := c.expr(e.Args[1], "bytes")
				if k1 == "bytes" && k2 == "bytes" {
					return "(" + a + " ++ " + b + ")", append(g1, g2...), "bytes"
				}
			}
		case "bytes.ContainsAny":
			if lit, ok := e.Args[1].(*ast.BasicLit); ok && lit.Kind == token.STRING {
				b, g1, _ := c.expr(e.Args[0], "bytes")
				chars, _ := strconv.Unquote(lit.Value)
				return fmt.Sprintf("(go_contains_any %s %s)", b, byteList(chars)), g1, "bool"
			}
		case "bytes.IndexByte":
			b, g1, _ := c.expr(e.Args[0], "bytes")
			x, g2, _ := c.expr(e.Args[1], "int")
			return fmt.Sprintf("(go_index_byte %s %s)", b, x), append(g1, g2...), "int"
		case "binary.BigEndian.Uint16":
			b, g, _ := c.expr(e.Args[0], "bytes")
			return "(go_be16 " + b + ")", append(g, "(2 <=? go_len "+b+")"), "int"
		case "atomic.AddUint64":
			// the new value of the package variable (a uint64: the addition wraps at 2^64); the update itself is hoisted
			// in front of the statement
			if ue, ok := e.Args[0].(*ast.UnaryExpr); ok && ue.Op == token.AND {
				if id, ok := ue.X.(*ast.Ident); ok && c.kinds[id.Name] == "int" {
					k, g, _ := c.expr(e.Args[1], "int")
					c.pre = append(c.pre, preEntry{prefix: fmt.Sprintf("let %s := ((%s + %s) mod 18446744073709551616) in ", id.Name, id.Name, k)})
					return id.Name, g, "int"
				}
			}
		}
	case *ast.BinaryExpr:
		switch e.Op {
		case token.LAND, token.LOR:
			a, g1, _ := c.expr(e.X, "bool")
			outer := c.pre
			c.pre = nil
			b, g2, _ := c.expr(e.Y, "bool")
			inner := c.pre
			c.pre = outer
			if len(inner) > 0 {
				// the right operand calls translated functions: it is evaluated - with whatever it re-binds - only if the
				// left one does not decide
				set := map[string]bool{}
				for _, pe := range inner {
					for _, r := range pe.rebinds {
						set[r] = true
					}
				}
				var rb []string
				for r := range set {
					rb = append(rb, r)
				}
				sort.Strings(rb)
				n := c.fresh()
				v := fmt.Sprintf("_v%d", n)
				tail := ""
				for _, r := range rb {
					tail += ", " + r
				}
				evalB := wrapPre(inner, guarded(g2, "Some ("+b+tail+")"))
				var cond string
				if e.Op == token.LAND {
					cond = fmt.Sprintf("(if %s then %s else Some (false%s))", a, evalB, tail)
				} else {
					cond = fmt.Sprintf("(if %s then Some (true%s) else %s)", a, tail, evalB)
				}
				pat := v
				if len(rb) > 0 {
					pat = "(" + v + tail + ")"
				}
				c.pre = append(c.pre, preEntry{prefix: fmt.Sprintf("match %s with None => None | Some %s => ", cond, pat), suffix: " end", rebinds: rb})
				return v, g1, "bool"
			}
			op := " && "
			// the right operand is evaluated only if the left one does not decide
			for i := range g2 {
				if e.Op == token.LAND {
					g2[i] = "(negb " + a + " || " + g2[i] + ")"
				} else {
					g2[i] = "(" + a + " || " + g2[i] + ")"
				}
			}
			if e.Op == token.LOR {
				op = " || "
			}
			return "(" + a + op + b + ")", append(g1, g2...), "bool"
		}
		a, g1, ka := c.exprAny(e.X)
		b, g2, kb := "", []string(nil), ""
		if ka == "" { // nil on the left
			b, g2, kb = c.exprAny(e.Y)
			a, g1, ka = c.expr(e.X, kb)
		} else {
			b, g2, kb = c.expr(e.Y, ka)
		}
		g := append(g1, g2...)
		if ka != kb {
			c.bad(e, "operands of different kinds ("+ka+", "+kb+")")
		}
		if ka == "int" {
			ops := map[token.Token]string{token.ADD: "+", token.SUB: "-", token.MUL: "*"}
			if o, ok := ops[e.Op]; ok {
				// arithmetic in a narrow unsigned type wraps
				return wrapWidth("("+a+" "+o+" "+b+")", c.widthOf(e)), g, "int"
			}
			if e.Op == token.SHL {
				return wrapWidth("(Z.shiftl "+a+" "+b+")", c.widthOf(e)), g, "int"
			}
			fns := map[token.Token]string{token.QUO: "Z.quot", token.REM: "Z.rem", token.SHL: "Z.shiftl", token.SHR: "Z.shiftr",
				token.AND: "Z.land", token.OR: "Z.lor", token.XOR: "Z.lxor"}
			if f, ok := fns[e.Op]; ok {
				return "(" + f + " " + a + " " + b + ")", g, "int"
			}
			cmp := map[token.Token]string{token.EQL: "=?", token.LSS: "<?", token.GTR: ">?", token.LEQ: "<=?", token.GEQ: ">=?"}
			if o, ok := cmp[e.Op]; ok {
				return "(" + a + " " + o + " " + b + ")", g, "bool"
			}
			if e.Op == token.NEQ {
				return "(negb (" + a + " =? " + b + "))", g, "bool"
			}
		}
		if ka == "err" && errAsCode {
			switch e.Op {
			case token.EQL:
				return "(" + a + " =? " + b + ")", g, "bool"
			case token.NEQ:
				return "(negb (" + a + " =? " + b + "))", g, "bool"
			}
		}
		if ka == "bool" || ka == "err" {
			switch e.Op {
			case token.EQL:
				return "(Bool.eqb " + a + " " + b + ")", g, "bool"
			case token.NEQ:
				return "(negb (Bool.eqb " + a + " " + b + "))", g, "bool"
			}
		}
	}
	c.bad(e, "expression")
	return "", nil, ""
}

// exprAny translates without an expected kind; a bare nil gives kind ""
func (c *tctx) exprAny(e ast.Expr) (string, []string, string) {
	if id, ok := e.(*ast.Ident); ok && id.Name == "nil" {
		return "", nil, ""
	}
	return c.expr(e, "")
}

// withPre puts the hoisted bindings of the expressions just translated in front of the term that uses them
func (c *tctx) withPre(term string) string {
	if len(c.pre) == 0 {
		return term
	}
	t := wrapPre(c.pre, term)
	c.pre = nil
	return t
}

func wrapPre(pre []preEntry, term string) string {
	if len(pre) == 0 {
		return term
	}
	var b strings.Builder
	b.WriteString("(")
	for _, e := range pre {
		b.WriteString(e.prefix)
	}
	b.WriteString(term)
	for i := len(pre) - 1; i >= 0; i-- {
		b.WriteString(pre[i].suffix)
	}
	b.WriteString(")")
	return b.String()
}

func (c *tctx) fresh() int { c.nfresh++; return c.nfresh }

// the fields of the receiver a function reads and writes, directly or through the methods of the same receiver it calls
func (p *pkg) fieldUse(recvType string, fd *ast.FuncDecl, seen map[string]bool) (reads, writes map[string]bool) {
	reads, writes = map[string]bool{}, map[string]bool{}
	if fd.Recv == nil || len(fd.Recv.List) != 1 || len(fd.Recv.List[0].Names) != 1 {
		return
	}
	rv := fd.Recv.List[0].Names[0].Name
	calls := map[*ast.SelectorExpr]bool{}
	isEmbedded := map[string]bool{}
	for _, e := range p.embedded(recvType) {
		isEmbedded[e] = true
	}
	ast.Inspect(fd.Body, func(n ast.Node) bool {
		if ce, ok := n.(*ast.CallExpr); ok {
			if se, ok := ce.Fun.(*ast.SelectorExpr); ok {
				mt := ""
				if id, ok := se.X.(*ast.Ident); ok && id.Name == rv {
					calls[se] = true
					mt = p.resolveMethod(recvType, se.Sel.Name)
				} else if inner, ok := se.X.(*ast.SelectorExpr); ok {
					if id, ok := inner.X.(*ast.Ident); ok && id.Name == rv && isEmbedded[inner.Sel.Name] {
						calls[se], calls[inner] = true, true
						mt = p.resolveMethod(inner.Sel.Name, se.Sel.Name)
					}
				}
				if mt != "" {
					key := mt + "." + se.Sel.Name
					if !seen[key] {
						seen[key] = true
						if _, mfd := p.findMethod(mt, se.Sel.Name); mfd != nil {
							r2, w2 := p.fieldUse(mt, mfd, seen)
							for f := range r2 {
								reads[f] = true
							}
							for f := range w2 {
								writes[f] = true
							}
						}
					}
				}
			}
		}
		return true
	})
	sel := func(e ast.Expr) string {
		if ix, ok := e.(*ast.IndexExpr); ok {
			e = ix.X
		}
		if se, ok := e.(*ast.SelectorExpr); ok && !calls[se] {
			if id, ok := se.X.(*ast.Ident); ok && id.Name == rv {
				return se.Sel.Name
			}
		}
		return ""
	}
	ast.Inspect(fd.Body, func(n ast.Node) bool {
		switch st := n.(type) {
		case *ast.SelectorExpr:
			if !calls[st] {
				if f := sel(st); f != "" {
					reads[f] = true
				}
			}
		case *ast.AssignStmt:
			for _, l := range st.Lhs {
				if f := sel(l); f != "" {
					writes[f] = true
				}
			}
		case *ast.IncDecStmt:
			if f := sel(st.X); f != "" {
				writes[f] = true
			}
		}
		return true
	})
	for nm := range p.writtenNames(fd) {
		if strings.HasPrefix(nm, rv+".") {
			writes[nm[len(rv)+1:]] = true
			reads[nm[len(rv)+1:]] = true
		}
	}
	return
}

// aliasCheck: value semantics is only faithful when no slice that is written to is aliased by another variable of the
// function (x := y[a:b] followed by a write to x or y would have to show in the other): such functions are outside the
// fragment
func (p *pkg) aliasCheck(name string, fd *ast.FuncDecl) {
	nm := func(e ast.Expr) string {
		for {
			switch x := e.(type) {
			case *ast.ParenExpr:
				e = x.X
				continue
			case *ast.SliceExpr:
				e = x.X
				continue
			}
			break
		}
		if id, ok := e.(*ast.Ident); ok {
			return id.Name
		}
		if se, ok := e.(*ast.SelectorExpr); ok {
			if id, ok := se.X.(*ast.Ident); ok {
				return id.Name + "." + se.Sel.Name
			}
		}
		return ""
	}
	type pair struct{ a, b string }
	var pairs []pair
	ast.Inspect(fd.Body, func(n ast.Node) bool {
		if as, ok := n.(*ast.AssignStmt); ok && len(as.Lhs) == len(as.Rhs) {
			for i := range as.Lhs {
				if _, isSlice := as.Rhs[i].(*ast.SliceExpr); !isSlice {
					if _, isId := as.Rhs[i].(*ast.Ident); !isId {
						if _, isSel := as.Rhs[i].(*ast.SelectorExpr); !isSel {
							continue
						}
					}
				}
				a, b := nm(as.Lhs[i]), nm(as.Rhs[i])
				if a != "" && b != "" && a != b && a != "_" {
					pairs = append(pairs, pair{a, b})
				}
			}
		}
		return true
	})
	written := p.writtenNames(fd)
	for _, pr := range pairs {
		if written[pr.a] || written[pr.b] {
			fail("translator: %s: %s and %s may share memory and one of them is written to: outside the fragment (value semantics)", name, pr.a, pr.b)
		}
	}
}

// writtenNames: the variables (and, as "recv.f", the receiver fields) whose elements a function writes: by element
// assignment, as the destination of copy / PutUint16 / PutUvarint, or by passing them to a function of the package
// that writes to the corresponding parameter
func (p *pkg) writtenNames(fd *ast.FuncDecl) map[string]bool {
	return p.writtenNamesRec(fd, map[*ast.FuncDecl]bool{})
}

// methodsNamed returns the methods (of any receiver type) of the package with the given name
func (p *pkg) methodsNamed(name string) []*ast.FuncDecl {
	var res []*ast.FuncDecl
	var files []string
	for f := range p.files {
		files = append(files, f)
	}
	sort.Strings(files)
	for _, f := range files {
		for _, d := range p.files[f].Decls {
			if fd, ok := d.(*ast.FuncDecl); ok && fd.Recv != nil && fd.Name.Name == name && fd.Body != nil {
				res = append(res, fd)
			}
		}
	}
	return res
}

func (p *pkg) writtenNamesRec(fd *ast.FuncDecl, seen map[*ast.FuncDecl]bool) map[string]bool {
	written := map[string]bool{}
	if seen[fd] {
		return written
	}
	seen[fd] = true
	name := func(a ast.Expr) string {
		if se, ok := a.(*ast.SliceExpr); ok {
			a = se.X
		}
		if id, ok := a.(*ast.Ident); ok {
			return id.Name
		}
		if se, ok := a.(*ast.SelectorExpr); ok {
			if id, ok := se.X.(*ast.Ident); ok {
				return id.Name + "." + se.Sel.Name
			}
		}
		return ""
	}
	ast.Inspect(fd.Body, func(n ast.Node) bool {
		switch st := n.(type) {
		case *ast.AssignStmt:
			for _, l := range st.Lhs {
				if ix, ok := l.(*ast.IndexExpr); ok {
					if nm := name(ix.X); nm != "" {
						written[nm] = true
					}
				}
			}
		case *ast.CallExpr:
			if id, ok := st.Fun.(*ast.Ident); ok {
				switch id.Name {
				case "copy":
					if nm := name(st.Args[0]); nm != "" {
						written[nm] = true
					}
				default:
					if _, cfd := p.findMethod("", id.Name); cfd != nil && cfd != fd {
						w2 := p.writtenNamesRec(cfd, seen)
						i := 0
						for _, f := range cfd.Type.Params.List {
							for _, pn := range f.Names {
								if w2[pn.Name] && i < len(st.Args) {
									if nm := name(st.Args[i]); nm != "" {
										written[nm] = true
									}
								}
								i++
							}
						}
					}
				}
			} else if f := src(st.Fun); f == "binary.BigEndian.PutUint16" || f == "binary.PutUvarint" {
				if nm := name(st.Args[0]); nm != "" {
					written[nm] = true
				}
			} else if se, ok := st.Fun.(*ast.SelectorExpr); ok && !isPkgName(se.X) {
				// X.m(args): whatever method of the package is called m - if one of them writes to the parameter in that
				// position, the argument counts as written (the static type of X is not tracked)
				for _, cfd := range p.methodsNamed(se.Sel.Name) {
					if cfd == fd {
						continue
					}
					w2 := p.writtenNamesRec(cfd, seen)
					i := 0
					for _, f := range cfd.Type.Params.List {
						for _, pn := range f.Names {
							if w2[pn.Name] && i < len(st.Args) {
								if nm := name(st.Args[i]); nm != "" {
									written[nm] = true
								}
							}
							i++
						}
					}
				}
			}
		}
		return true
	})
	return written
}

// embedded returns the struct types embedded in a struct type of the package
func (p *pkg) embedded(name string) []string {
	var res []string
	for _, af := range p.files {
		for _, d := range af.Decls {
			gd, ok := d.(*ast.GenDecl)
			if !ok || gd.Tok != token.TYPE {
				continue
			}
			for _, sp := range gd.Specs {
				ts := sp.(*ast.TypeSpec)
				st, ok := ts.Type.(*ast.StructType)
				if !ok || ts.Name.Name != name {
					continue
				}
				for _, f := range st.Fields.List {
					if len(f.Names) == 0 {
						if id, ok := f.Type.(*ast.Ident); ok && p.isStruct(id.Name) {
							res = append(res, id.Name)
						}
					}
				}
			}
		}
	}
	return res
}

// resolveMethod finds the type that declares method name for a receiver of type recvType: the type itself, or a struct
// it embeds (to any depth)
func (p *pkg) resolveMethod(recvType, name string) string {
	if _, fd := p.findMethod(recvType, name); fd != nil {
		return recvType
	}
	for _, e := range p.embedded(recvType) {
		if t := p.resolveMethod(e, name); t != "" {
			return t
		}
	}
	return ""
}

// recvCall recognises recv.m(..) and recv.E.m(..) (E an embedded struct of the receiver's type) and returns the type the
// method is to be looked up in
func (c *tctx) recvCall(fun ast.Expr) (string, string, bool) {
	se, ok := fun.(*ast.SelectorExpr)
	if !ok || c.recv == "" || c.recvType == "" {
		return "", "", false
	}
	if id, ok := se.X.(*ast.Ident); ok && id.Name == c.recv {
		if t := c.p.resolveMethod(c.recvType, se.Sel.Name); t != "" {
			return t, se.Sel.Name, true
		}
		return "", "", false
	}
	if inner, ok := se.X.(*ast.SelectorExpr); ok {
		if id, ok := inner.X.(*ast.Ident); ok && id.Name == c.recv {
			for _, e := range c.p.embedded(c.recvType) {
				if e == inner.Sel.Name {
					if t := c.p.resolveMethod(e, se.Sel.Name); t != "" {
						return t, se.Sel.Name, true
					}
				}
			}
		}
	}
	return "", "", false
}

// findMethod looks a method of a type up in all files of the package
func (p *pkg) findMethod(recvType, name string) (string, *ast.FuncDecl) {
	var files []string
	for f := range p.files {
		files = append(files, f)
	}
	sort.Strings(files)
	for _, f := range files {
		for _, d := range p.files[f].Decls {
			fd, ok := d.(*ast.FuncDecl)
			if !ok || fd.Name.Name != name {
				continue
			}
			r := ""
			if fd.Recv != nil && len(fd.Recv.List) == 1 {
				t := fd.Recv.List[0].Type
				if st, ok := t.(*ast.StarExpr); ok {
					t = st.X
				}
				if id, ok := t.(*ast.Ident); ok {
					r = id.Name
				}
			}
			if r == recvType {
				return f, fd
			}
		}
	}
	return "", nil
}

// call translates a call of another translated function: the call is hoisted, its results are fresh variables and
// the receiver fields the callee may have written are re-bound
func (c *tctx) call(e *ast.CallExpr, info *finfo, recvArg string, hasRecvArg bool) []string {
	var args []string
	var gs []string
	for _, f := range info.fieldParams {
		n := c.recv + "_" + f
		if _, ok := c.kinds[n]; !ok {
			c.bad(e, "call (field "+f+" of the callee is not part of the caller's state)")
		}
		args = append(args, n)
	}
	if hasRecvArg {
		args = append(args, recvArg)
	}
	if len(e.Args) != len(info.paramKinds) {
		c.bad(e, "call (argument count)")
	}
	isMut := map[int]bool{}
	for _, i := range info.mutParams {
		isMut[i] = true
	}
	n := c.fresh()
	var res, pat, rebinds []string
	for i := range info.results {
		v := fmt.Sprintf("_r%d_%d", n, i)
		res, pat = append(res, v), append(pat, v)
	}
	for _, f := range info.mutFields {
		pat, rebinds = append(pat, c.recv+"_"+f), append(rebinds, c.recv+"_"+f)
	}
	if info.nPkgVars > 0 {
		c.bad(e, "call of a function that updates package variables")
	}
	after := ""
	var mutPat []string
	for i, a := range e.Args {
		if isMut[i] {
			// a slice argument the callee writes to: a variable (re-bound to what the callee made of it), or v[lo:] (the
			// callee's version of the sub-slice is copied back into v)
			if se, ok := a.(*ast.SliceExpr); ok && se.High == nil && !se.Slice3 {
				vn, _, vk := c.expr(se.X, "bytes")
				if _, isVar := c.kinds[vn]; !isVar || vk != "bytes" {
					c.bad(e, "call that writes to a slice argument that is not a variable")
				}
				lo := "0"
				if se.Low != nil {
					var g []string
					lo, g, _ = c.expr(se.Low, "int")
					gs = append(gs, g...)
				}
				gs = append(gs, fmt.Sprintf("(0 <=? %s)", lo), fmt.Sprintf("(%s <=? go_len %s)", lo, vn))
				args = append(args, fmt.Sprintf("(go_sub %s %s (go_len %s))", vn, lo, vn))
				mv := fmt.Sprintf("_m%d_%d", n, i)
				mutPat = append(mutPat, mv)
				after += fmt.Sprintf("let %s := go_copy %s %s %s in ", vn, vn, lo, mv)
				rebinds = append(rebinds, vn)
				continue
			}
			t, g, _ := c.expr(a, info.paramKinds[i])
			if _, isVar := c.kinds[t]; !isVar || len(g) > 0 {
				c.bad(e, "call that writes to a slice argument that is not a variable")
			}
			args = append(args, t)
			mutPat = append(mutPat, t)
			rebinds = append(rebinds, t)
			continue
		}
		t, g, _ := c.expr(a, info.paramKinds[i])
		args, gs = append(args, t), append(gs, g...)
	}
	pat = append(pat, mutPat...)
	p := "_"
	if len(pat) == 1 {
		p = pat[0]
	} else if len(pat) > 1 {
		p = "(" + strings.Join(pat, ", ") + ")"
	}
	prefix := fmt.Sprintf("match %s %s with None => None | Some %s => %s", info.coqName, strings.Join(args, " "), p, after)
	suffix := " end"
	if len(gs) > 0 {
		// the arguments are evaluated before the call: a panic in them is the call's
		prefix = "(if " + conj(gs) + " then " + prefix
		suffix = " end else None)"
	}
	c.pre = append(c.pre, preEntry{prefix: prefix, suffix: suffix, rebinds: rebinds})
	return res
}

func (c *tctx) tuple(xs []string) string {
	if len(xs) == 0 {
		return "tt"
	}
	if len(xs) == 1 {
		return xs[0]
	}
	return "(" + strings.Join(xs, ", ") + ")"
}

func (c *tctx) pattern(xs []string) string {
	if len(xs) == 0 {
		return "_"
	}
	if len(xs) == 1 {
		return xs[0]
	}
	return "'(" + strings.Join(xs, ", ") + ")"
}

// what falls off the end of a statement list
func (c *tctx) fallOff() string {
	if c.inLoop {
		return "Some (inl " + c.tuple(c.loopVars) + ")"
	}
	if len(c.results) == 0 {
		return "Some " + c.tuple(c.mutated)
	}
	fail("translator: %s: control reaches the end of a function with results", c.name)
	return ""
}

func (c *tctx) ret(vals []string) string {
	t := c.tuple(append(vals, c.mutated...))
	if c.inLoop {
		return "Some (inr " + t + ")"
	}
	return "Some " + t
}

// assigned collects the variables of the enclosing scopes a statement list assigns to
func assigned(recv string, list []ast.Stmt, declared map[string]bool, out map[string]bool) {
	local := map[string]bool{}
	for k := range declared {
		local[k] = true
	}
	for _, s := range list {
		ast.Inspect(s, func(n ast.Node) bool {
			switch st := n.(type) {
			case *ast.AssignStmt:
				for _, l := range st.Lhs {
					if id, ok := l.(*ast.Ident); ok && id.Name != "_" {
						if st.Tok == token.DEFINE {
							local[id.Name] = true
						} else if !local[id.Name] {
							out[id.Name] = true
						}
					}
					if se, ok := l.(*ast.SelectorExpr); ok && recv != "" {
						if id, ok := se.X.(*ast.Ident); ok && id.Name == recv {
							out[recv+"_"+se.Sel.Name] = true
						}
					}
				}
			case *ast.IncDecStmt:
				if id, ok := st.X.(*ast.Ident); ok && !local[id.Name] {
					out[id.Name] = true
				}
				if se, ok := st.X.(*ast.SelectorExpr); ok && recv != "" {
					if id, ok := se.X.(*ast.Ident); ok && id.Name == recv {
						out[recv+"_"+se.Sel.Name] = true
					}
				}
			case *ast.CallExpr:
				if id, ok := st.Fun.(*ast.Ident); ok && id.Name == "copy" {
					a := st.Args[0]
					if se, ok := a.(*ast.SliceExpr); ok {
						a = se.X
					}
					if id, ok := a.(*ast.Ident); ok && !local[id.Name] {
						out[id.Name] = true
					}
				}
				if src(st.Fun) == "atomic.AddUint64" {
					if ue, ok := st.Args[0].(*ast.UnaryExpr); ok {
						if id, ok := ue.X.(*ast.Ident); ok && !local[id.Name] {
							out[id.Name] = true
						}
					}
				}
			}
			return true
		})
	}
}

func (c *tctx) stmts(list []ast.Stmt, k func() string) string {
	if len(list) == 0 {
		return k()
	}
	rest := func() string { return c.stmts(list[1:], k) }
	switch s := list[0].(type) {
	case *ast.ReturnStmt:
		if len(s.Results) == 1 && len(c.results) > 1 {
			// return f(args): the results of a call with several results
			if ce, ok := s.Results[0].(*ast.CallExpr); ok {
				var info *finfo
				if mt, mn, ok := c.recvCall(ce.Fun); ok {
					info = ensureTranslated(c.p, mt, mn)
				} else if id, ok := ce.Fun.(*ast.Ident); ok {
					if _, ffd := c.p.findMethod("", id.Name); ffd != nil {
						info = ensureTranslated(c.p, "", id.Name)
					}
				}
				if info != nil && len(info.results) == len(c.results) {
					res := c.call(ce, info, "", false)
					return c.withPre(c.ret(res))
				}
			}
		}
		if len(s.Results) != len(c.results) {
			c.bad(s, "return")
		}
		var vals, gs []string
		for i, r := range s.Results {
			t, g, _ := c.expr(r, c.results[i])
			vals, gs = append(vals, t), append(gs, g...)
		}
		return c.withPre(guarded(gs, c.ret(vals)))
	case *ast.BranchStmt:
		if s.Tok == token.CONTINUE && c.inLoop && s.Label == nil {
			return c.fallOff()
		}
	case *ast.DeclStmt:
		gd := s.Decl.(*ast.GenDecl)
		if gd.Tok == token.CONST {
			// a local constant is a binding like any other
			var binds []string
			for _, sp := range gd.Specs {
				vs := sp.(*ast.ValueSpec)
				for i, n := range vs.Names {
					if i >= len(vs.Values) {
						c.bad(s, "constant declaration")
					}
					v, g, k := c.expr(vs.Values[i], kindOfType(vs.Type))
					if k == "" || len(g) > 0 {
						c.bad(s, "constant declaration")
					}
					c.kinds[n.Name] = k
					binds = append(binds, fmt.Sprintf("let %s := %s in ", n.Name, v))
				}
			}
			return "(" + strings.Join(binds, "") + rest() + ")"
		}
		if gd.Tok == token.VAR {
			term := ""
			var binds []string
			for _, sp := range gd.Specs {
				vs := sp.(*ast.ValueSpec)
				for i, n := range vs.Names {
					k := kindOfType(vs.Type)
					v := zero(k)
					var g []string
					if i < len(vs.Values) {
						v, g, k = c.expr(vs.Values[i], k)
					}
					if vs.Type != nil {
						c.width[n.Name] = widthOfType(vs.Type)
					} else if i < len(vs.Values) {
						c.width[n.Name] = c.widthOf(vs.Values[i])
					}
					if k == "" || len(g) > 0 {
						c.bad(s, "declaration")
					}
					c.kinds[n.Name] = k
					binds = append(binds, fmt.Sprintf("let %s := %s in ", n.Name, v))
				}
			}
			term = strings.Join(binds, "") + rest()
			return "(" + term + ")"
		}
	case *ast.IncDecStmt:
		id, ok := s.X.(*ast.Ident)
		if se, isSel := s.X.(*ast.SelectorExpr); isSel && !ok {
			// a field of the receiver
			if rid, isId := se.X.(*ast.Ident); isId && c.recv != "" && rid.Name == c.recv {
				id, ok = &ast.Ident{Name: c.recv + "_" + se.Sel.Name, NamePos: se.Pos()}, true
			}
		}
		if ok && c.kinds[id.Name] == "int" {
			op := "+"
			if s.Tok == token.DEC {
				op = "-"
			}
			return fmt.Sprintf("(let %s := %s in %s)", id.Name, wrapWidth(fmt.Sprintf("(%s %s 1)", id.Name, op), c.width[id.Name]), rest())
		}
	case *ast.AssignStmt:
		// dst[i], dst[j] = a, b with literal right-hand sides: one element assignment after the other
		if len(s.Lhs) > 1 && len(s.Lhs) == len(s.Rhs) && s.Tok == token.ASSIGN {
			all := true
			for i := range s.Lhs {
				_, isIx := s.Lhs[i].(*ast.IndexExpr)
				_, isLit := s.Rhs[i].(*ast.BasicLit)
				all = all && isIx && isLit
			}
			if all {
				var seq []ast.Stmt
				for i := range s.Lhs {
					seq = append(seq, &ast.AssignStmt{Lhs: []ast.Expr{s.Lhs[i]}, TokPos: s.TokPos, Tok: token.ASSIGN, Rhs: []ast.Expr{s.Rhs[i]}})
				}
				return c.stmts(append(seq, list[1:]...), k)
			}
		}
		// element assignment dst[i] = v
		if len(s.Lhs) == 1 && s.Tok == token.ASSIGN {
			if ix, ok := s.Lhs[0].(*ast.IndexExpr); ok {
				if id, ok := ix.X.(*ast.Ident); ok && c.kinds[id.Name] == "bytes" {
					i, g1, _ := c.expr(ix.Index, "int")
					v, g2, _ := c.expr(s.Rhs[0], "int")
					g := append(append(g1, g2...), fmt.Sprintf("(0 <=? %s)", i), fmt.Sprintf("(%s <? go_len %s)", i, id.Name))
					return guarded(g, fmt.Sprintf("(let %s := go_set %s %s %s in %s)", id.Name, id.Name, i, v, rest()))
				}
			}
		}
		// x, n := binary.Uvarint(b)
		if len(s.Lhs) == 2 && len(s.Rhs) == 1 {
			if ce, ok := s.Rhs[0].(*ast.CallExpr); ok && src(ce.Fun) == "binary.Uvarint" {
				a, ok1 := s.Lhs[0].(*ast.Ident)
				b, ok2 := s.Lhs[1].(*ast.Ident)
				if ok1 && ok2 {
					arg, g, _ := c.expr(ce.Args[0], "bytes")
					c.kinds[a.Name], c.kinds[b.Name] = "int", "int"
					return c.withPre(guarded(g, fmt.Sprintf("(let '(%s, %s) := go_uvarint %s in %s)", a.Name, b.Name, arg, rest())))
				}
			}
		}
		// n := binary.PutUvarint(dst[lo:], v) (also with += ): writes into dst, yields the number of bytes
		if len(s.Lhs) == 1 && len(s.Rhs) == 1 {
			if ce, ok := s.Rhs[0].(*ast.CallExpr); ok && src(ce.Fun) == "binary.PutUvarint" {
				lhs, okL := s.Lhs[0].(*ast.Ident)
				dst, lo := ce.Args[0], "0"
				var g []string
				if se, ok := dst.(*ast.SliceExpr); ok && se.High == nil && !se.Slice3 {
					dst = se.X
					if se.Low != nil {
						lo, g, _ = c.expr(se.Low, "int")
					}
				}
				if did, ok := dst.(*ast.Ident); ok && okL && c.kinds[did.Name] == "bytes" {
					v, g2, _ := c.expr(ce.Args[1], "int")
					g = append(append(g, g2...), fmt.Sprintf("(0 <=? %s)", lo), fmt.Sprintf("(%s <=? go_len %s)", lo, did.Name),
						fmt.Sprintf("(go_uvarint_len %s <=? go_len %s - %s)", v, did.Name, lo)) // PutUvarint panics on a short buffer
					val := fmt.Sprintf("(go_uvarint_len %s)", v)
					switch s.Tok {
					case token.DEFINE, token.ASSIGN:
					case token.ADD_ASSIGN:
						val = fmt.Sprintf("(%s + go_uvarint_len %s)", lhs.Name, v)
					default:
						c.bad(s, "assignment operator")
					}
					c.kinds[lhs.Name] = "int"
					return c.withPre(guarded(g, fmt.Sprintf("(let %s := go_put_uvarint %s %s %s in let %s := %s in %s)", did.Name, did.Name, lo, v, lhs.Name, val, rest())))
				}
			}
		}
		// n := copy(dst[lo:], src) (also = and +=): writes into dst, yields the number of bytes copied
		if len(s.Lhs) == 1 && len(s.Rhs) == 1 {
			if ce, ok := s.Rhs[0].(*ast.CallExpr); ok {
				if fid, ok := ce.Fun.(*ast.Ident); ok && fid.Name == "copy" && len(ce.Args) == 2 {
					lhs, okL := s.Lhs[0].(*ast.Ident)
					dst, lo := ce.Args[0], "0"
					var g []string
					if se, ok := dst.(*ast.SliceExpr); ok && se.High == nil && !se.Slice3 {
						dst = se.X
						if se.Low != nil {
							lo, g, _ = c.expr(se.Low, "int")
						}
					}
					dn, _, dk := c.expr(dst, "bytes")
					if _, isVar := c.kinds[dn]; isVar && dk == "bytes" && okL {
						sv, g2, _ := c.expr(ce.Args[1], "bytes")
						g = append(append(g, g2...), fmt.Sprintf("(0 <=? %s)", lo), fmt.Sprintf("(%s <=? go_len %s)", lo, dn))
						val := "_cn"
						switch s.Tok {
						case token.DEFINE, token.ASSIGN:
						case token.ADD_ASSIGN:
							val = fmt.Sprintf("(%s + _cn)", lhs.Name)
						default:
							c.bad(s, "assignment operator")
						}
						c.kinds[lhs.Name] = "int"
						return c.withPre(guarded(g, fmt.Sprintf("(let _cn := go_copy_n %s %s %s in let %s := go_copy %s %s %s in let %s := %s in %s)",
							dn, lo, sv, dn, dn, lo, sv, lhs.Name, val, rest())))
					}
				}
			}
		}
		// a, b, c := f(args) / recv.m(args): a call with several results
		if len(s.Lhs) > 1 && len(s.Rhs) == 1 && (s.Tok == token.DEFINE || s.Tok == token.ASSIGN) {
			if ce, ok := s.Rhs[0].(*ast.CallExpr); ok {
				var info *finfo
				if _, ok := ce.Fun.(*ast.SelectorExpr); ok {
					if mt, mn, ok := c.recvCall(ce.Fun); ok {
						info = ensureTranslated(c.p, mt, mn)
					}
				} else if id, ok := ce.Fun.(*ast.Ident); ok {
					if _, isVar := c.kinds[id.Name]; !isVar {
						if _, ffd := c.p.findMethod("", id.Name); ffd != nil {
							info = ensureTranslated(c.p, "", id.Name)
						}
					}
				}
				if info != nil && len(info.results) == len(s.Lhs) {
					res := c.call(ce, info, "", false)
					var names, vals []string
					for i, l := range s.Lhs {
						id, ok := l.(*ast.Ident)
						if !ok {
							c.bad(s, "assignment target")
						}
						if id.Name == "_" {
							continue
						}
						if want := c.kinds[id.Name]; want != "" && want != info.results[i] {
							c.bad(s, "assignment changes the kind of "+id.Name)
						}
						c.kinds[id.Name] = info.results[i]
						names, vals = append(names, id.Name), append(vals, res[i])
					}
					pre := c.pre
					c.pre = nil
					body := rest()
					c.pre = pre
					if len(names) == 0 {
						return c.withPre(body)
					}
					return c.withPre(fmt.Sprintf("(let %s := %s in %s)", c.pattern(names), c.tuple(vals), body))
				}
			}
		}
		if len(s.Lhs) != len(s.Rhs) {
			c.bad(s, "assignment")
		}
		var names, vals, gs []string
		for i, l := range s.Lhs {
			id, ok := l.(*ast.Ident)
			if se, isSel := l.(*ast.SelectorExpr); isSel && !ok {
				// a field of the receiver
				if rid, isId := se.X.(*ast.Ident); isId && c.recv != "" && rid.Name == c.recv {
					id, ok = &ast.Ident{Name: c.recv + "_" + se.Sel.Name, NamePos: se.Pos()}, true
					if _, known := c.kinds[id.Name]; !known {
						c.bad(s, "assignment to a field that is not part of the function's state")
					}
				}
			}
			if !ok {
				c.bad(s, "assignment target")
			}
			want := c.kinds[id.Name]
			var t string
			var g []string
			var k string
			switch s.Tok {
			case token.DEFINE, token.ASSIGN:
				t, g, k = c.expr(s.Rhs[i], want)
			case token.ADD_ASSIGN, token.SUB_ASSIGN, token.MUL_ASSIGN, token.OR_ASSIGN, token.AND_ASSIGN, token.SHL_ASSIGN, token.SHR_ASSIGN:
				op := map[token.Token]token.Token{token.ADD_ASSIGN: token.ADD, token.SUB_ASSIGN: token.SUB, token.MUL_ASSIGN: token.MUL,
					token.OR_ASSIGN: token.OR, token.AND_ASSIGN: token.AND, token.SHL_ASSIGN: token.SHL, token.SHR_ASSIGN: token.SHR}[s.Tok]
				t, g, k = c.expr(&ast.BinaryExpr{X: l, Op: op, Y: s.Rhs[i], OpPos: s.TokPos}, want)
			default:
				c.bad(s, "assignment operator")
			}
			if id.Name == "_" {
				gs = append(gs, g...)
				continue
			}
			if want != "" && want != k {
				c.bad(s, "assignment changes the kind of "+id.Name)
			}
			if s.Tok == token.DEFINE && k == "int" {
				c.width[id.Name] = c.widthOf(s.Rhs[i])
			}
			c.kinds[id.Name] = k
			names, vals, gs = append(names, id.Name), append(vals, t), append(gs, g...)
		}
		pre := c.pre
		c.pre = nil
		wrap := func(t string) string { c.pre = pre; return c.withPre(t) }
		if len(names) == 0 {
			return wrap(guarded(gs, rest()))
		}
		return wrap(guarded(gs, fmt.Sprintf("(let %s := %s in %s)", c.pattern(names), c.tuple(vals), rest())))
	case *ast.ExprStmt:
		if call, ok := s.X.(*ast.CallExpr); ok {
			if mt, mn, ok := c.recvCall(call.Fun); ok {
				if info := ensureTranslated(c.p, mt, mn); info != nil {
					c.call(call, info, "", false)
					return c.withPre(rest())
				}
			}
			switch src(call.Fun) {
			case "binary.BigEndian.PutUint16":
				if dn, _, dk := c.expr(call.Args[0], "bytes"); dk == "bytes" {
					if _, isVar := c.kinds[dn]; isVar {
						v, g, _ := c.expr(call.Args[1], "int")
						g = append(g, "(2 <=? go_len "+dn+")")
						return guarded(g, fmt.Sprintf("(let %s := go_put16 %s %s in %s)", dn, dn, v, rest()))
					}
				}
			case "copy":
				// copy(dst[lo:], src) / copy(dst, src)
				dst, lo := call.Args[0], "0"
				var g []string
				if se, ok := dst.(*ast.SliceExpr); ok && se.High == nil && !se.Slice3 {
					dst = se.X
					if se.Low != nil {
						lo, g, _ = c.expr(se.Low, "int")
					}
				}
				if id, ok := dst.(*ast.Ident); ok && c.kinds[id.Name] == "bytes" {
					sv, g2, _ := c.expr(call.Args[1], "bytes")
					g = append(append(g, g2...), fmt.Sprintf("(0 <=? %s)", lo), fmt.Sprintf("(%s <=? go_len %s)", lo, id.Name))
					return guarded(g, fmt.Sprintf("(let %s := go_copy %s %s %s in %s)", id.Name, id.Name, lo, sv, rest()))
				}
			}
		}
	case *ast.BlockStmt:
		return c.stmts(append(append([]ast.Stmt{}, s.List...), list[1:]...), k)
	case *ast.IfStmt:
		pre := []ast.Stmt{}
		if s.Init != nil {
			pre = append(pre, s.Init)
		}
		return c.stmts(pre, func() string {
			cond, g, _ := c.expr(s.Cond, "bool")
			pre := c.pre
			c.pre = nil
			saved := c.saveKinds()
			a := c.stmts(s.Body.List, rest)
			c.kinds = saved
			var b string
			switch el := s.Else.(type) {
			case nil:
				b = rest()
			case *ast.BlockStmt:
				b = c.stmts(el.List, rest)
			case *ast.IfStmt:
				b = c.stmts([]ast.Stmt{el}, rest)
			}
			c.kinds = saved
			c.pre = pre
			return c.withPre(guarded(g, fmt.Sprintf("(if %s then %s else %s)", cond, a, b)))
		})
	case *ast.SwitchStmt:
		pre := []ast.Stmt{}
		if s.Init != nil {
			pre = append(pre, s.Init)
		}
		return c.stmts(pre, func() string {
			tag, g, tk := "", []string(nil), "bool"
			if s.Tag != nil {
				tag, g, tk = c.exprAny(s.Tag)
			}
			tagPre := c.pre
			c.pre = nil
			var def []ast.Stmt
			hasDef := false
			type arm struct {
				cond string
				body []ast.Stmt
			}
			var arms []arm
			for _, cl := range s.Body.List {
				cc := cl.(*ast.CaseClause)
				for _, st := range cc.Body {
					if br, ok := st.(*ast.BranchStmt); ok && (br.Tok == token.FALLTHROUGH || br.Tok == token.BREAK) {
						c.bad(br, "branch in switch")
					}
				}
				if cc.List == nil {
					def, hasDef = cc.Body, true
					continue
				}
				var alts []string
				for _, ce := range cc.List {
					v, gv, _ := c.expr(ce, tk)
					if len(gv) > 0 {
						c.bad(ce, "case expression that may panic")
					}
					if s.Tag == nil {
						alts = append(alts, v)
					} else if tk == "int" {
						alts = append(alts, "("+tag+" =? "+v+")")
					} else {
						alts = append(alts, "(Bool.eqb "+tag+" "+v+")")
					}
				}
				arms = append(arms, arm{"(" + strings.Join(alts, " || ") + ")", cc.Body})
			}
			_ = hasDef
			saved := c.saveKinds()
			term := c.stmts(def, rest)
			c.kinds = saved
			for i := len(arms) - 1; i >= 0; i-- {
				body := c.stmts(arms[i].body, rest)
				c.kinds = saved
				term = fmt.Sprintf("(if %s then %s else %s)", arms[i].cond, body, term)
			}
			c.pre = tagPre
			return c.withPre(guarded(g, term))
		})
	case *ast.ForStmt:
		// for { body }: the body runs until it returns; the translation gives it loopFuel rounds (the lemma about the
		// translated function shows they suffice)
		if c.inLoop || s.Init != nil || s.Post != nil {
			c.bad(s, "for loop")
		}
		if s.Cond != nil {
			// for cond { body }: a round of the loop either runs the body (cond holds) or leaves the loop, in which case
			// the function's result is that of the statements after the loop
			set := map[string]bool{}
			assigned(c.recv, s.Body.List, map[string]bool{}, set)
			var vars []string
			for v := range set {
				if _, ok := c.kinds[v]; ok {
					vars = append(vars, v)
				}
			}
			sort.Strings(vars)
			saved := c.saveKinds()
			cond, g, _ := c.expr(s.Cond, "bool")
			if len(c.pre) > 0 {
				c.bad(s, "loop condition with calls")
			}
			c.inLoop, c.loopVars = true, vars
			body := c.stmts(s.Body.List, c.fallOff)
			c.inLoop, c.loopVars = false, nil
			c.kinds = saved
			after := rest()
			return fmt.Sprintf("(match go_loop %d (fun %s => %s) %s with Some (inr _r) => Some _r | _ => None end)", loopFuel, c.pattern(vars),
				guarded(g, fmt.Sprintf("(if %s then %s else match %s with Some _r => Some (inr _r) | None => None end)", cond, body, after)), c.tuple(vars))
		}
		set := map[string]bool{}
		assigned(c.recv, s.Body.List, map[string]bool{}, set)
		var vars []string
		for v := range set {
			if _, ok := c.kinds[v]; ok {
				vars = append(vars, v)
			}
		}
		sort.Strings(vars)
		saved := c.saveKinds()
		c.inLoop, c.loopVars = true, vars
		body := c.stmts(s.Body.List, c.fallOff)
		c.inLoop, c.loopVars = false, nil
		c.kinds = saved
		return fmt.Sprintf("(match go_loop %d (fun %s => %s) %s with Some (inr _r) => Some _r | _ => None end)", loopFuel, c.pattern(vars), body, c.tuple(vars))
	case *ast.RangeStmt:
		if c.inLoop || s.Tok != token.DEFINE {
			c.bad(s, "range loop")
		}
		x, g, k := c.expr(s.X, "bytes")
		if k != "bytes" {
			c.bad(s, "range over a non-slice")
		}
		iv, cv := "_i", "_c"
		if id, ok := s.Key.(*ast.Ident); ok && id.Name != "_" {
			iv = id.Name
		}
		if s.Value != nil {
			if id, ok := s.Value.(*ast.Ident); ok && id.Name != "_" {
				cv = id.Name
			}
		}
		set := map[string]bool{}
		assigned(c.recv, s.Body.List, map[string]bool{iv: true, cv: true}, set)
		var vars []string
		for v := range set {
			if _, ok := c.kinds[v]; ok {
				vars = append(vars, v)
			}
		}
		sort.Strings(vars)
		saved := c.saveKinds()
		c.kinds[iv], c.kinds[cv] = "int", "int"
		c.inLoop, c.loopVars = true, vars
		body := c.stmts(s.Body.List, c.fallOff)
		c.inLoop, c.loopVars = false, nil
		c.kinds = saved
		after := rest()
		retT := c.tuple(nil)
		_ = retT
		return guarded(g, fmt.Sprintf("(match go_range %s (fun %s %s %s => %s) %s with None => None | Some (inr _r) => Some _r | Some (inl %s) => %s end)",
			x, iv, cv, c.pattern(vars), body, c.tuple(vars), c.pattern(vars), after))
	}
	c.bad(list[0], "statement")
	return ""
}

func (c *tctx) saveKinds() map[string]string {
	m := map[string]string{}
	for k, v := range c.kinds {
		m[k] = v
	}
	return m
}

// structFields returns the kinds of the fields of a struct type of the package
func (p *pkg) structFields(name string) map[string]string {
	res := map[string]string{}
	for _, af := range p.files {
		for _, d := range af.Decls {
			gd, ok := d.(*ast.GenDecl)
			if !ok || gd.Tok != token.TYPE {
				continue
			}
			for _, sp := range gd.Specs {
				ts := sp.(*ast.TypeSpec)
				st, ok := ts.Type.(*ast.StructType)
				if !ok || ts.Name.Name != name {
					continue
				}
				for _, f := range st.Fields.List {
					if len(f.Names) == 0 {
						// an embedded struct of the package: its fields are promoted
						if id, ok := f.Type.(*ast.Ident); ok && id.Name != name && p.isStruct(id.Name) {
							for f2, k2 := range p.structFields(id.Name) {
								res[f2] = k2
							}
						}
					}
					for _, n := range f.Names {
						res[n.Name] = kindOfType(f.Type)
						// a field of a struct type of the package (or a pointer to one): its fields, flattened as F_f
						t := f.Type
						if se, ok := t.(*ast.StarExpr); ok {
							t = se.X
						}
						if id, ok := t.(*ast.Ident); ok && id.Name != name && p.isStruct(id.Name) {
							for f2, k2 := range p.structFields(id.Name) {
								res[n.Name+"_"+f2] = k2
							}
						}
					}
				}
			}
		}
	}
	return res
}

// translateFn emits the Gallina definition of one function
// identifiers that are keywords of Gallina (or names the generated file relies on) get an underscore
var coqReserved = map[string]bool{"end": true, "in": true, "let": true, "fun": true, "match": true, "with": true, "then": true, "as": true,
	"at": true, "fix": true, "cofix": true, "forall": true, "exists": true, "exists2": true, "where": true, "using": true, "Prop": true, "Set": true,
	"SProp": true, "Some": true, "None": true, "inl": true, "inr": true, "negb": true, "list": true, "option": true, "Z": true, "mod": true}

func translateFn(w *strings.Builder, p *pkg, file, recv, name string) {
	fd := p.fn(file, recv, name)
	ast.Inspect(fd, func(n ast.Node) bool {
		if id, ok := n.(*ast.Ident); ok && coqReserved[id.Name] && id != fd.Name {
			id.Name += "_"
		}
		return true
	})
	p.aliasCheck(p.name+"."+name, fd)
	c := &tctx{p: p, name: p.name + "." + name, kinds: map[string]string{}, width: map[string]int{}}
	info := &finfo{coqName: fmt.Sprintf("go_%s_%s", p.name, name)}
	if owner, taken := coqNames[info.coqName]; (taken && owner != p.name+"."+recv+"."+name) || (recv != "" && strings.HasSuffix(recv, "Message")) {
		info.coqName = fmt.Sprintf("go_%s_%s_%s", p.name, recv, name)
	}
	coqNames[info.coqName] = p.name + "." + recv + "." + name
	intRecv := false
	var params []string
	addParam := func(n, k string) {
		c.kinds[n] = k
		params = append(params, fmt.Sprintf("(%s : %s)", n, coqType(k)))
	}
	if fd.Recv != nil && len(fd.Recv.List) == 1 && len(fd.Recv.List[0].Names) == 1 {
		c.recv = fd.Recv.List[0].Names[0].Name
		if k := kindOfType(fd.Recv.List[0].Type); k != "" {
			addParam(c.recv, k) // a value receiver of integer kind (Type)
			c.width[c.recv] = widthOfType(fd.Recv.List[0].Type)
			c.recv = ""
			intRecv = true
		} else {
			// the fields of the receiver the body (and the methods of the receiver it calls) reads or writes are the
			// function's state: parameters, and - those written - extra results
			fields := p.structFields(recv)
			c.recvType = recv
			reads, writes := p.fieldUse(recv, fd, map[string]bool{recv + "." + name: true})
			used := map[string]bool{}
			for f := range reads {
				used[f] = true
			}
			for f := range writes {
				used[f] = true
			}
			var us []string
			for f := range used {
				us = append(us, f)
			}
			sort.Strings(us)
			for _, f := range us {
				k := fields[f]
				if k == "" {
					fail("translator: %s: receiver field %s of unsupported type", c.name, f)
				}
				addParam(c.recv+"_"+f, k)
				info.fieldParams = append(info.fieldParams, f)
				if writes[f] {
					info.mutFields = append(info.mutFields, f)
					c.mutated = append(c.mutated, c.recv+"_"+f)
				}
			}
		}
	}
	for _, f := range fd.Type.Params.List {
		k := kindOfType(f.Type)
		if k == "" {
			fail("translator: %s: parameter of unsupported type %s", c.name, src(f.Type))
		}
		for _, n := range f.Names {
			addParam(n.Name, k)
			c.width[n.Name] = widthOfType(f.Type)
			info.paramKinds = append(info.paramKinds, k)
		}
	}
	_ = intRecv
	if fd.Type.Results != nil {
		for _, f := range fd.Type.Results.List {
			k := kindOfType(f.Type)
			if k == "" || len(f.Names) > 0 {
				fail("translator: %s: result of unsupported type %s (or named)", c.name, src(f.Type))
			}
			c.results = append(c.results, k)
		}
	}
	// package variables of integer kind the body updates atomically: a parameter (the value before the call) and an extra
	// result (the value after it)
	ast.Inspect(fd.Body, func(n ast.Node) bool {
		if ce, ok := n.(*ast.CallExpr); ok && src(ce.Fun) == "atomic.AddUint64" {
			if ue, ok := ce.Args[0].(*ast.UnaryExpr); ok {
				if id, ok := ue.X.(*ast.Ident); ok {
					if _, known := c.kinds[id.Name]; !known {
						addParam(id.Name, "int")
						c.mutated = append(c.mutated, id.Name)
					}
				}
			}
		}
		return true
	})
	// slice parameters written to
	nPkg := len(c.mutated) - len(info.mutFields)
	written := p.writtenNames(fd)
	idx := 0
	for _, f := range fd.Type.Params.List {
		for _, n := range f.Names {
			if written[n.Name] {
				c.mutated = append(c.mutated, n.Name)
				info.mutParams = append(info.mutParams, idx)
			}
			idx++
		}
	}
	info.nPkgVars = nPkg
	info.results = c.results
	info.extraMut = len(c.mutated) - len(info.mutFields)
	translatedFns[p.name+"."+recv+"."+name] = info
	var rts []string
	for _, k := range c.results {
		rts = append(rts, coqType(k))
	}
	for _, m := range c.mutated {
		rts = append(rts, coqType(c.kinds[m]))
	}
	rt := "unit"
	if len(rts) > 0 {
		rt = strings.Join(rts, " * ")
	}
	body := c.stmts(fd.Body.List, c.fallOff)
	pos := fset.Position(fd.Pos())
	fmt.Fprintf(w, "(* %s/%s: func %s *)\n", p.name, file, name)
	_ = pos
	fmt.Fprintf(w, "Definition %s %s : option (%s) :=\n  %s.\n#[global] Hint Unfold %s : gotrans.\n\n", info.coqName, strings.Join(params, " "), rt, body, info.coqName)
}

var transOut *strings.Builder

// ensureTranslated translates a function of the package on demand (a callee is emitted before its caller)
func ensureTranslated(p *pkg, recv, name string) *finfo {
	key := p.name + "." + recv + "." + name
	if info, ok := translatedFns[key]; ok {
		return info
	}
	file, fd := p.findMethod(recv, name)
	if fd == nil {
		return nil
	}
	translateFn(transOut, p, file, recv, name)
	return translatedFns[key]
}

// emitTranslated writes coq/Gen/Translated.v
func emitTranslated(path string, msg, topics, sess, svc *pkg) bool {
	var w strings.Builder
	w.WriteString("(* GENERATED by /verif/tools/gentables (trans.go) from /repo's current working tree -- do not edit.\n")
	w.WriteString("   Gallina translations of pure leaf functions of the library; the semantics of the fragment is Base/GoSem.v. *)\n")
	w.WriteString("From Coq Require Import List ZArith Bool.\nFrom Base Require Import GoSem.\nImport ListNotations.\nOpen Scope Z_scope.\nCreate HintDb gotrans.\n\n")
	transOut = &w
	translate := func(w *strings.Builder, p *pkg, file, recv, name string) {
		if _, done := translatedFns[p.name+"."+recv+"."+name]; done {
			return
		}
		section("translation of "+p.name+"."+name, func() { translateFn(w, p, file, recv, name) })
	}
	translate(&w, topics, "memtopics.go", "", "nextTopicLevel")
	translate(&w, msg, "message.go", "", "ValidTopic")
	translate(&w, msg, "message.go", "", "ValidQos")
	translate(&w, msg, "message.go", "Type", "Valid")
	translate(&w, msg, "message.go", "", "readLPBytes")
	translate(&w, msg, "message.go", "", "writeLPBytes")
	translate(&w, msg, "header.go", "header", "msglen")
	translate(&w, msg, "message.go", "Type", "DefaultFlags")
	translate(&w, msg, "header.go", "", "nextPacketID")
	translate(&w, msg, "header.go", "header", "decode")
	translate(&w, msg, "header.go", "header", "encode")
	translate(&w, msg, "header.go", "header", "SetRemainingLength")
	translate(&w, msg, "header.go", "header", "PacketID")
	translate(&w, msg, "header.go", "header", "SetPacketID")
	for _, fn := range []string{"Decode", "Len", "Encode"} {
		translate(&w, msg, "disconnect.go", "DisconnectMessage", fn)
	}
	for _, fn := range []string{"msglen", "Decode", "Len", "Encode"} {
		translate(&w, msg, "puback.go", "PubackMessage", fn)
	}
	// Ackqueue.index is a one-line helper a rewrite may inline (refactors/R14): its presence is a fact of its own, and the
	// theorem about it (Trans/SpecAckq.v T_index) is about the function if it exists
	if _, ifd := sess.findMethod("Ackqueue", "index"); ifd != nil {
		w.WriteString("Definition present_sessions_index : bool := true.\n")
		translate(&w, sess, "ackqueue.go", "Ackqueue", "index")
	} else {
		w.WriteString("Definition present_sessions_index : bool := false.\n")
		w.WriteString("(* sessions/ackqueue.go has no method Ackqueue.index (any more): a stand-in, so that the statement about it can be read *)\n")
		w.WriteString("Definition go_sessions_index (aq_mask : Z) (n : Z) : option (Z) := None.\n\n")
	}
	translate(&w, sess, "ackqueue.go", "Ackqueue", "full")
	translate(&w, sess, "ackqueue.go", "Ackqueue", "empty")
	translate(&w, sess, "ackqueue.go", "", "powerOfTwo64")
	translate(&w, sess, "ackqueue.go", "", "roundUpPowerOfTwo64")
	translate(&w, svc, "buffer.go", "", "powerOfTwo64")
	translate(&w, svc, "buffer.go", "", "roundUpPowerOfTwo64")
	// the byte ring in its sequential reading (seq.go): a fresh parse of the package, rewritten; errors are codes
	w.WriteString("(* service/buffer.go in its sequential reading (tools/gentables/seq.go): locks, broadcasts and hook points dropped,\n")
	w.WriteString("   atomic loads / stores plain, Cond.Wait = the call blocks.  Error codes: 0 nil, 1 io.EOF, 2 bufio.ErrBufferFull,\n")
	w.WriteString("   3 ErrBufferInsufficientData, 4 bufio.ErrNegativeCount, 5 the call blocks, 9 any other error. *)\n\n")
	var seq *pkg
	section("sequential reading of service/buffer.go", func() {
		seq = loadPkg("service")
		seqRewrite(seq, "buffer")
	})
	if seq != nil {
		errAsCode = true
		for _, fn := range []string{"isDone", "Len", "Close", "waitForWriteSpace", "WriteWait", "WriteCommit", "ReadPeek", "ReadWait", "ReadCommit"} {
			translate(&w, seq, "buffer.go", "buffer", fn)
		}
		translate(&w, seq, "buffer.go", "", "ringCopy")
		translate(&w, seq, "buffer.go", "buffer", "Write")
		translate(&w, seq, "buffer.go", "buffer", "Read")
		errAsCode = false
	}
	return writeIfChanged(path, w.String())
}
