(* Keep-alive (service/sendrecv.go timeoutReader / receiver, server.go handleConnection): the
   receiver re-arms a read deadline of keepAlive + keepAlive / keepalive_grace_divisor at every read
   on the socket; a CONNECT keep-alive of 0 is replaced by minKeepAlive.  Time in milliseconds.
   The divisor and the default come from the regenerated tables (tie T1).  OS timers and the
   scheduler are not modelled. *)
From Base Require Import Tactics.
From Gen Require Import Tables.
Open Scope Z_scope.

(* the keep-alive the broker uses for a CONNECT that asks for k seconds *)
Definition effective (k : Z) : Z := if k =? 0 then Z.of_N minKeepAlive else k.
(* the read deadline in milliseconds *)
Definition deadline_ms (k : Z) : Z :=
  effective k * 1000 + effective k * 1000 / Z.of_N keepalive_grace_divisor.

(* arrivals: times (ms) at which bytes of the client arrive, ascending; the receiver starts a read at
   time t (connection start or the previous arrival): the connection expires at t + deadline if
   nothing arrives until then *)
Fixpoint expiry_with (rearm : bool) (k t : Z) (arrivals : list Z) : option Z :=
  match arrivals with
  | [] => Some (t + deadline_ms k)
  | a :: r => if t + deadline_ms k <? a then Some (t + deadline_ms k)
              else expiry_with rearm k (if rearm then a else t) r
  end.
(* whether every read re-arms the deadline is read off timeoutReader.Read (tie T1) *)
Definition expiry : Z -> Z -> list Z -> option Z := expiry_with reader_rearms_every_read.
Lemma expiry_nil k t : expiry k t [] = Some (t + deadline_ms k).
Proof. reflexivity. Qed.
Lemma expiry_cons k t a r :
  expiry k t (a :: r) = if t + deadline_ms k <? a then Some (t + deadline_ms k) else expiry k a r.
Proof. reflexivity. Qed.
(* a reader that does not re-arm drops an active client: the model is sensitive to the flag *)
Example no_rearm_drops_active : expiry_with false 1 0 [900; 1800] = Some 1200.
Proof. vm_compute. reflexivity. Qed.

(* the connection is still alive at time `now` *)
Definition alive (k t0 : Z) (arrivals : list Z) (now : Z) : Prop :=
  match expiry k t0 (filter (fun a => a <=? now) arrivals) with
  | Some e => now <= e
  | None => True
  end.

Fixpoint gaps_below (t : Z) (arrivals : list Z) (g : Z) : Prop :=
  match arrivals with
  | [] => True
  | a :: r => t <= a /\ a - t < g /\ gaps_below a r g
  end.

Lemma deadline_ge k : 1 <= k -> k * 1000 <= deadline_ms k.
Proof.
  intros H. unfold deadline_ms, effective. destruct (k =? 0) eqn:E; [lia|].
  unfold keepalive_grace_divisor. change (Z.of_N 5) with 5. lia.
Qed.

Lemma deadline_is_1200 k : 1 <= k -> deadline_ms k = 1200 * k.
Proof.
  intros H. unfold deadline_ms, effective. destruct (k =? 0) eqn:E; [lia|].
  unfold keepalive_grace_divisor. change (Z.of_N 5) with 5. lia.
Qed.

Lemma last_default (l : list Z) : forall x d d', List.last (x :: l) d = List.last (x :: l) d'.
Proof. induction l as [|y r IH]; intros x d d'; [reflexivity|]. change (List.last (y :: r) d = List.last (y :: r) d'). apply IH. Qed.
Lemma last_cons (l : list Z) a d : List.last (a :: l) d = List.last l a.
Proof. destruct l as [|y r]; [reflexivity|]. change (List.last (y :: r) d = List.last (y :: r) a). apply last_default. Qed.

(* a client that sends something at intervals shorter than K seconds never expires while it does so *)
Lemma active_never_expires k : 1 <= k -> forall arrivals t,
  gaps_below t arrivals (k * 1000) ->
  exists last, expiry k t arrivals = Some (last + deadline_ms k) /\ last = List.last arrivals t.
Proof.
  intros Hk. induction arrivals as [|a r IH]; intros t Hg.
  - exists t. split; reflexivity.
  - cbn [gaps_below] in Hg. destruct Hg as [H1 [H2 H3]].
    rewrite expiry_cons. pose proof (deadline_ge k Hk) as Hd.
    destruct (t + deadline_ms k <? a) eqn:E; [lia|].
    destruct (IH a H3) as [l [He Hl]]. exists l. split; [exact He|].
    rewrite Hl. symmetry. apply last_cons.
Qed.

(* a client that is silent for well over 1.5 K (indeed for more than 1.2 K) is dropped *)
Lemma silent_expires k t arrivals next :
  1 <= k -> arrivals = [next] -> t + 1500 * k <= next -> expiry k t arrivals = Some (t + 1200 * k).
Proof.
  intros Hk -> Hn. rewrite expiry_cons, expiry_nil. rewrite (deadline_is_1200 k Hk).
  destruct (t + 1200 * k <? next) eqn:E; [reflexivity | lia].
Qed.
Lemma silent_forever_expires k t : 1 <= k -> expiry k t [] = Some (t + 1200 * k).
Proof. intros Hk. rewrite expiry_nil. rewrite (deadline_is_1200 k Hk). reflexivity. Qed.

(* keep-alive 0 in the CONNECT means minKeepAlive *)
Lemma zero_means_default : deadline_ms 0 = 36000.
Proof. vm_compute. reflexivity. Qed.
