(* The life and the teardown of one broker-side connection: the three goroutines of a service
   (receiver, processor, sender), its two rings, the socket, and the closing sequence service.stop,
   over abstract blocking states.

   What the rings contribute is exactly what C15 proves of them: Close wakes every waiter and later
   calls return end-of-stream - so a goroutine blocked on a ring leaves as soon as that ring is
   closed.  Three facts come from the regenerated tables (tie T1): the goroutine that leaves
   buffer.ReadFrom / buffer.WriteTo closes its ring, the processor's deferred function calls stop(),
   and the order of the actions inside stop.  Sockets and the scheduler are abstract: a blocked
   socket call returns once the socket is closed (by the peer or by stop).

   The teardown can begin in two ways: the peer cuts the socket (then nobody has called stop yet: the
   receiver and the sender fail on the socket, the rings they close release the processor, and the
   processor's exit calls stop), or stop is called from outside (Server.Close).  C16 says it
   completes in both cases, from every buffer condition, unless the processor is inside a delivery
   to another still-open connection whose peer has stopped reading. *)
From Base Require Import Tactics.
From Gen Require Import Tables.
Open Scope nat_scope.

Inductive recv := RRead | RSpace | RExit.   (* in a socket read / waiting for space in `in` / gone *)
Inductive procs :=
| PData          (* waiting for (or about to take) the next packet of `in` *)
| PRun           (* processing a packet *)
| PWriteOwn      (* inside writeMessage on the connection's OWN outgoing ring, waiting for space *)
| PWriteOther    (* inside writeMessage on another connection's outgoing ring, waiting for space *)
| PExit.
Inductive send := SData | SWrite | SExit.   (* waiting for data in `out` / in a socket write / gone *)
Inductive closer := CIdle | CClosedConn | CClosedIn | CClosedOut | CUnsubscribed (n : nat) | CWill | CDone.

Record st := mkSt {
  conn_closed : bool;          (* the socket is dead: cut by the peer or closed by stop *)
  in_done : bool; out_done : bool;   (* the rings are closed *)
  pending : nat;               (* complete packets waiting in `in` *)
  out_full : bool;             (* `out` holds data and has no room for the packet being written *)
  r : recv; p : procs; s : send; c : closer;
  other_blocked : bool         (* the other connection's ring the processor writes to is full, its peer does not
                                  read and that connection is still open: the excuse of C16 *)
}.

Definition upd_r x v := mkSt (conn_closed x) (in_done x) (out_done x) (pending x) (out_full x) v (p x) (s x) (c x) (other_blocked x).
Definition upd_p x v := mkSt (conn_closed x) (in_done x) (out_done x) (pending x) (out_full x) (r x) v (s x) (c x) (other_blocked x).
Definition upd_s x v := mkSt (conn_closed x) (in_done x) (out_done x) (pending x) (out_full x) (r x) (p x) v (c x) (other_blocked x).
Definition upd_c x v := mkSt (conn_closed x) (in_done x) (out_done x) (pending x) (out_full x) (r x) (p x) (s x) v (other_blocked x).

Section Steps.
Variable cap : nat.   (* packets `in` can hold *)

(* one step of a goroutine of the connection or of the goroutine running stop; `ext` marks the steps that need
   somebody outside the connection (the peer, Server.Close, another connection) *)
Inductive step : bool -> st -> st -> Prop :=
(* ----- stop: CAS on closed, close socket, close `in`, close `out`, wait, unsubscribe, will, session ----- *)
| st_stop_proc x : c x = CIdle -> p x = PExit -> processor_exit_calls_stop = true ->
    step false x (mkSt true (in_done x) (out_done x) (pending x) (out_full x) (r x) (p x) (s x) CClosedConn (other_blocked x))
| st_stop_ext x : c x = CIdle ->
    step true x (mkSt true (in_done x) (out_done x) (pending x) (out_full x) (r x) (p x) (s x) CClosedConn (other_blocked x))
| st_close_in x : c x = CClosedConn ->
    step false x (mkSt (conn_closed x) true (out_done x) (pending x) (out_full x) (r x) (p x) (s x) CClosedIn (other_blocked x))
| st_close_out x : c x = CClosedIn ->
    step false x (mkSt (conn_closed x) (in_done x) true (pending x) (out_full x) (r x) (p x) (s x) CClosedOut (other_blocked x))
| st_wait x n : c x = CClosedOut -> r x = RExit -> p x = PExit -> s x = SExit ->
    step false x (upd_c x (CUnsubscribed n))
| st_unsub x n : c x = CUnsubscribed (S n) -> step false x (upd_c x (CUnsubscribed n))
| st_unsub_done x : c x = CUnsubscribed 0 -> step false x (upd_c x CWill)
| st_will x : c x = CWill -> step false x (upd_c x CDone)
(* ----- the peer ----- *)
| st_peer_cut x : conn_closed x = false ->
    step true x (mkSt true (in_done x) (out_done x) (pending x) (out_full x) (r x) (p x) (s x) (c x) (other_blocked x))
(* ----- receiver (buffer.ReadFrom): wait for space, read the socket; on its way out it closes `in` ----- *)
| st_recv_packet x r' : r x = RRead -> conn_closed x = false -> (r' = RRead \/ r' = RSpace) ->
    step true x (mkSt (conn_closed x) (in_done x) (out_done x) (S (pending x)) (out_full x) r' (p x) (s x) (c x) (other_blocked x))
| st_recv_read x : r x = RRead -> conn_closed x = true ->
    step false x (mkSt (conn_closed x) (in_done x || readfrom_closes_ring) (out_done x) (pending x) (out_full x) RExit (p x) (s x) (c x) (other_blocked x))
| st_recv_space x : r x = RSpace -> pending x < cap -> in_done x = false ->
    step false x (upd_r x RRead)
| st_recv_space_eof x : r x = RSpace -> in_done x = true ->
    step false x (upd_r x RExit)
(* ----- processor: take a packet, process it (a delivery may block on a full ring), leave at end-of-stream ----- *)
| st_proc_take x n : p x = PData -> pending x = S n -> in_done x = false ->
    step false x (mkSt (conn_closed x) (in_done x) (out_done x) n (out_full x) (r x) PRun (s x) (c x) (other_blocked x))
| st_proc_eof x : p x = PData -> in_done x = true ->
    step false x (upd_p x PExit)
| st_proc_block_own x : p x = PRun -> out_full x = true -> out_done x = false -> step false x (upd_p x PWriteOwn)
| st_proc_block_other x : p x = PRun -> step false x (upd_p x PWriteOther)
| st_proc_done x : p x = PRun -> step false x (upd_p x PData)
| st_proc_own_space x : p x = PWriteOwn -> out_full x = false -> step false x (upd_p x PData)
| st_proc_own_eof x : p x = PWriteOwn -> out_done x = true -> step false x (upd_p x PData)
| st_proc_other x : p x = PWriteOther -> other_blocked x = false -> step false x (upd_p x PData)
(* ----- sender (buffer.WriteTo): wait for data, write the socket; on its way out it closes `out` ----- *)
| st_send_take x : s x = SData -> out_full x = true -> out_done x = false -> step false x (upd_s x SWrite)
| st_send_eof x : s x = SData -> out_done x = true -> step false x (upd_s x SExit)
| st_send_written x : s x = SWrite -> conn_closed x = false ->
    step true x (mkSt (conn_closed x) (in_done x) (out_done x) (pending x) false (r x) (p x) SData (c x) (other_blocked x))
| st_send_fail x : s x = SWrite -> conn_closed x = true ->
    step false x (mkSt (conn_closed x) (in_done x) (out_done x || writeto_closes_ring) (pending x) (out_full x) (r x) (p x) SExit (c x) (other_blocked x))
(* ----- the other connection ----- *)
| st_other x b : step true x (mkSt (conn_closed x) (in_done x) (out_done x) (pending x) (out_full x) (r x) (p x) (s x) (c x) b)
(* the processor fills its own ring *)
| st_fill x : p x = PRun -> out_full x = false -> step false x (mkSt (conn_closed x) (in_done x) (out_done x) (pending x) true (r x) (p x) (s x) (c x) (other_blocked x)).

Definition init (n : nat) (full oth : bool) : st := mkSt false false false n full RRead PData SData CIdle oth.

Inductive reachable : st -> Prop :=
| reach_init n full oth : reachable (init n full oth)
| reach_step x y e : reachable x -> step e x y -> reachable y.

(* what holds in every reachable state *)
Definition inv (x : st) : Prop :=
  (r x = RExit -> in_done x = true) /\
  (s x = SExit -> out_done x = true) /\
  (c x <> CIdle -> conn_closed x = true) /\
  (match c x with CIdle | CClosedConn => True | _ => in_done x = true end) /\
  (match c x with CIdle | CClosedConn | CClosedIn => True | _ => out_done x = true end) /\
  (match c x with CUnsubscribed _ | CWill | CDone => r x = RExit /\ p x = PExit /\ s x = SExit | _ => True end).

Definition finished (x : st) : Prop := r x = RExit /\ p x = PExit /\ s x = SExit /\ c x = CDone.

(* the excuse of the property *)
Definition held_up (x : st) : Prop := p x = PWriteOther /\ other_blocked x = true.

(* ---------- statements ---------- *)

Definition C16_invariant : Prop := forall x, reachable x -> inv x.

(* progress: once the socket is dead - however that came about, whatever the goroutines were doing, whatever is
   in the rings - some goroutine of the connection can take a step until the teardown is complete, unless the
   processor is held up by another connection; nothing from outside is needed *)
Definition C16_progress : Prop := 0 < cap -> forall x,
  reachable x -> conn_closed x = true ->
  finished x \/ held_up x \/ exists y, step false x y.

(* bounded: every such step decreases the remaining work, which is bounded by the packets waiting in `in` and the
   number of stored subscriptions *)
Definition w_recv (v : recv) := match v with RExit => 0 | RRead => 1 | RSpace => 2 end.
Definition w_proc (v : procs) := match v with PExit => 0 | PData => 1 | PWriteOwn => 2 | PWriteOther => 2 | PRun => 3 end.
Definition w_send (v : send) := match v with SExit => 0 | SWrite => 1 | SData => 2 end.
Definition w_closer (v : closer) :=
  match v with CIdle => 5 | CClosedConn => 4 | CClosedIn => 3 | CClosedOut => 2 | CUnsubscribed n => 2 + n | CWill => 1 | CDone => 0 end.
Definition work (x : st) : nat :=
  w_recv (r x) + 3 * pending x + w_proc (p x) + (if out_full x then 0 else 1) + w_send (s x) + w_closer (c x).

Definition C16_bounded : Prop := forall x y, conn_closed x = true -> step false x y ->
  match c x, c y with
  | CClosedOut, CUnsubscribed n => work y <= work x + n
  | _, _ => work y < work x
  end.

End Steps.

(* ---------- proofs ---------- *)

Lemma tables_facts : readfrom_closes_ring = true /\ writeto_closes_ring = true /\ processor_exit_calls_stop = true.
Proof. repeat split; reflexivity. Qed.

Lemma invariant cap : C16_invariant cap.
Proof.
  unfold C16_invariant. intros x H. induction H as [n full oth|x y e _ IH Hs].
  - unfold inv, init; cbn. repeat split; intros; try discriminate; try congruence.
  - destruct tables_facts as [Hrf [Hwt _]].
    destruct IH as [I1 [I2 [I3 [I4 [I5 I6]]]]].
    destruct Hs; unfold inv, upd_r, upd_p, upd_s, upd_c; cbn [conn_closed in_done out_done pending out_full r p s c other_blocked];
      repeat match goal with H : c _ = _ |- _ => rewrite H in * end;
      repeat match goal with H : r _ = _ |- _ => rewrite H in * end;
      repeat match goal with H : p _ = _ |- _ => rewrite H in * end;
      repeat match goal with H : s _ = _ |- _ => rewrite H in * end;
      rewrite ?Hrf, ?Hwt, ?Bool.orb_true_r;
      repeat split; intros; try discriminate; try congruence; auto;
      try (match goal with |- context [match c ?x with _ => _ end] => destruct (c x) end; auto; try congruence; try tauto);
      try (destruct I6 as [? [? ?]]; congruence);
      try (apply I3; discriminate);
      try (match goal with H : _ \/ _ |- _ => destruct H; congruence end).
Qed.

Lemma progress cap : C16_progress cap.
Proof.
  unfold C16_progress, finished, held_up. intros Hcap x Hr Hcc.
  destruct (invariant cap x Hr) as [I1 [I2 [I3 [I4 [I5 I6]]]]].
  destruct tables_facts as [_ [_ Hps]].
  destruct (r x) eqn:Er.
  - right; right. eexists. apply st_recv_read; assumption.
  - destruct (in_done x) eqn:Ei.
    + right; right. eexists. apply st_recv_space_eof; assumption.
    + destruct (Nat.ltb (pending x) cap) eqn:El.
      * apply Nat.ltb_lt in El. right; right. eexists. apply st_recv_space; eassumption.
      * apply Nat.ltb_ge in El.
        destruct (p x) eqn:Ep.
        -- destruct (pending x) as [|n] eqn:En; [lia|]. right; right. eexists. eapply st_proc_take; eassumption.
        -- right; right. eexists. apply st_proc_done; assumption.
        -- destruct (out_full x) eqn:Ef.
           ++ destruct (out_done x) eqn:Eo.
              ** right; right. eexists. apply st_proc_own_eof; assumption.
              ** destruct (s x) eqn:Es.
                 --- right; right. eexists. apply st_send_take; assumption.
                 --- right; right. eexists. apply st_send_fail; assumption.
                 --- specialize (I2 eq_refl). congruence.
           ++ right; right. eexists. apply st_proc_own_space; assumption.
        -- destruct (other_blocked x) eqn:Eb; [right; left; auto|].
           right; right. eexists. apply st_proc_other; assumption.
        -- (* the processor is gone: stop runs *)
           destruct (c x) eqn:Ec.
           ++ right; right. eexists. apply st_stop_proc; assumption.
           ++ right; right. eexists. apply st_close_in; assumption.
           ++ congruence.
           ++ congruence.
           ++ destruct I6 as [? _]. congruence.
           ++ destruct I6 as [? _]. congruence.
           ++ destruct I6 as [? _]. congruence.
  - specialize (I1 eq_refl).
    destruct (p x) eqn:Ep.
    + right; right. eexists. apply st_proc_eof; assumption.
    + right; right. eexists. apply st_proc_done; assumption.
    + destruct (out_full x) eqn:Ef.
      * destruct (out_done x) eqn:Eo.
        -- right; right. eexists. apply st_proc_own_eof; assumption.
        -- destruct (s x) eqn:Es.
           ++ right; right. eexists. apply st_send_take; assumption.
           ++ right; right. eexists. apply st_send_fail; assumption.
           ++ specialize (I2 eq_refl). congruence.
      * right; right. eexists. apply st_proc_own_space; assumption.
    + destruct (other_blocked x) eqn:Eb; [right; left; auto|].
      right; right. eexists. apply st_proc_other; assumption.
    + destruct (c x) eqn:Ec.
      * right; right. eexists. apply st_stop_proc; assumption.
      * right; right. eexists. apply st_close_in; assumption.
      * right; right. eexists. apply st_close_out; assumption.
      * destruct (s x) eqn:Es.
        -- right; right. eexists. apply st_send_eof; assumption.
        -- right; right. eexists. apply st_send_fail; assumption.
        -- right; right. exists (upd_c x (CUnsubscribed 0)). apply st_wait; assumption.
      * right; right. destruct n; eexists; [apply st_unsub_done | apply st_unsub]; eassumption.
      * right; right. eexists. apply st_will; assumption.
      * left. destruct I6 as [? [? ?]]. auto.
Qed.

Lemma bounded cap : C16_bounded cap.
Proof.
  unfold C16_bounded, work. intros x y Hcc Hs.
  inversion Hs; subst; unfold upd_r, upd_p, upd_s, upd_c; cbn [conn_closed in_done out_done pending out_full r p s c other_blocked] in *;
    repeat match goal with H : c _ = _ |- _ => rewrite H in * end;
    repeat match goal with H : r _ = _ |- _ => rewrite H in * end;
    repeat match goal with H : p _ = _ |- _ => rewrite H in * end;
    repeat match goal with H : s _ = _ |- _ => rewrite H in * end;
    repeat match goal with H : pending _ = _ |- _ => rewrite H in * end;
    repeat match goal with H : out_full _ = _ |- _ => rewrite H in * end;
    cbn [w_recv w_proc w_send w_closer]; try congruence; try lia;
    try (destruct (c x); cbn [w_closer]; lia);
    try (destruct (out_full x); destruct (c x); cbn [w_closer]; lia).
Qed.

(* non-vacuity: the state of the seeded scenario - the peer is gone, the processor blocked on the connection's own
   full outgoing ring, the sender in a socket write, the receiver waiting for space - is reachable, and from it
   the teardown proceeds *)
Example own_ring_full_reachable :
  reachable 1 (mkSt true false false 1 true RSpace PWriteOwn SWrite CIdle false).
Proof.
  pose (s0 := init 0 false false).
  pose (s1 := mkSt false false false 1 false RRead PData SData CIdle false).
  pose (s2 := mkSt false false false 2 false RSpace PData SData CIdle false).
  pose (s3 := mkSt false false false 1 false RSpace PRun SData CIdle false).
  pose (s4 := mkSt false false false 1 true RSpace PRun SData CIdle false).
  pose (s5 := mkSt false false false 1 true RSpace PRun SWrite CIdle false).
  pose (s6 := mkSt false false false 1 true RSpace PWriteOwn SWrite CIdle false).
  assert (H0 : reachable 1 s0) by apply reach_init.
  assert (H1 : reachable 1 s1).
  { eapply reach_step; [exact H0|]. apply (st_recv_packet 1 s0 RRead); auto. }
  assert (H2 : reachable 1 s2).
  { eapply reach_step; [exact H1|]. apply (st_recv_packet 1 s1 RSpace); auto. }
  assert (H3 : reachable 1 s3).
  { eapply reach_step; [exact H2|]. apply (st_proc_take 1 s2 1); reflexivity. }
  assert (H4 : reachable 1 s4).
  { eapply reach_step; [exact H3|]. apply (st_fill 1 s3); reflexivity. }
  assert (H5 : reachable 1 s5).
  { eapply reach_step; [exact H4|]. apply (st_send_take 1 s4); reflexivity. }
  assert (H6 : reachable 1 s6).
  { eapply reach_step; [exact H5|]. apply (st_proc_block_own 1 s5); reflexivity. }
  eapply reach_step; [exact H6|]. apply (st_peer_cut 1 s6); reflexivity.
Qed.
