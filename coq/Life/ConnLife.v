(* Teardown of one connection (service.stop and the three goroutines of a service) over the
   abstract blocking states of the goroutines.  What the rings contribute is exactly what C15 proves
   of them: Close wakes every waiter, later calls return end-of-stream, no mutex stays locked - so a
   goroutine blocked on a ring of this connection leaves as soon as that ring is closed.  The order
   of the teardown actions is the one the translator reads off service.stop (Locks.Discipline
   stop_order_lemma).  Sockets and the scheduler are abstract: a blocked socket call returns once the
   socket is closed. *)
From Base Require Import Tactics.
Open Scope nat_scope.

Inductive recv := RRead | RSpace | RExit.          (* in socket read / waiting for space in `in` *)
Inductive procs := PData | PWriteOther | PRun | PExit.  (* waiting for data in `in` / inside writeMessage
                                                           on another connection's outgoing ring *)
Inductive send := SData | SWrite | SExit.          (* waiting for data in `out` / in socket write *)
Inductive closer := CStart | CClosedConn | CClosedIn | CClosedOut | CWaited | CUnsubscribed (n : nat) | CWill | CDone.

Record st := mkSt {
  conn_closed : bool; in_done : bool; out_done : bool;
  r : recv; p : procs; s : send; c : closer;
  other_blocked : bool        (* the other connection's ring the processor writes to is full, its peer
                                 does not read, and that connection is still open (the excuse of C16) *)
}.

(* one step of some goroutine of the connection, or of the closing goroutine *)
Inductive step : st -> st -> Prop :=
| st_close_conn x : c x = CStart ->
    step x (mkSt true (in_done x) (out_done x) (r x) (p x) (s x) CClosedConn (other_blocked x))
| st_close_in x : c x = CClosedConn ->
    step x (mkSt (conn_closed x) true (out_done x) (r x) (p x) (s x) CClosedIn (other_blocked x))
| st_close_out x : c x = CClosedIn ->
    step x (mkSt (conn_closed x) (in_done x) true (r x) (p x) (s x) CClosedOut (other_blocked x))
| st_wait x n : c x = CClosedOut -> r x = RExit -> p x = PExit -> s x = SExit ->
    step x (mkSt (conn_closed x) (in_done x) (out_done x) (r x) (p x) (s x) (CUnsubscribed n) (other_blocked x))
| st_unsub x n : c x = CUnsubscribed (S n) ->
    step x (mkSt (conn_closed x) (in_done x) (out_done x) (r x) (p x) (s x) (CUnsubscribed n) (other_blocked x))
| st_unsub_done x : c x = CUnsubscribed 0 ->
    step x (mkSt (conn_closed x) (in_done x) (out_done x) (r x) (p x) (s x) CWill (other_blocked x))
| st_will x : c x = CWill ->
    step x (mkSt (conn_closed x) (in_done x) (out_done x) (r x) (p x) (s x) CDone (other_blocked x))
(* receiver: a socket read returns once the socket is closed; a wait for space returns once `in` is closed;
   on its way out ReadFrom closes `in` (defer) *)
| st_recv_read x : r x = RRead -> conn_closed x = true ->
    step x (mkSt (conn_closed x) true (out_done x) RExit (p x) (s x) (c x) (other_blocked x))
| st_recv_space x : r x = RSpace -> in_done x = true ->
    step x (mkSt (conn_closed x) true (out_done x) RExit (p x) (s x) (c x) (other_blocked x))
(* processor: a wait for data returns once `in` is closed; a packet in progress finishes; a write to another
   connection's ring returns when that ring has space again or is closed *)
| st_proc_data x : p x = PData -> in_done x = true ->
    step x (mkSt (conn_closed x) (in_done x) (out_done x) (r x) PExit (s x) (c x) (other_blocked x))
| st_proc_run x : p x = PRun ->
    step x (mkSt (conn_closed x) (in_done x) (out_done x) (r x) PData (s x) (c x) (other_blocked x))
| st_proc_write x : p x = PWriteOther -> other_blocked x = false ->
    step x (mkSt (conn_closed x) (in_done x) (out_done x) (r x) PRun (s x) (c x) (other_blocked x))
(* sender: a wait for data returns once `out` is closed; a socket write returns once the socket is closed;
   on its way out WriteTo closes `out` (defer) *)
| st_send_data x : s x = SData -> out_done x = true ->
    step x (mkSt (conn_closed x) (in_done x) true (r x) (p x) SExit (c x) (other_blocked x))
| st_send_write x : s x = SWrite -> conn_closed x = true ->
    step x (mkSt (conn_closed x) (in_done x) true (r x) (p x) SExit (c x) (other_blocked x)).

(* remaining work of the teardown *)
Definition w_recv (x : recv) := match x with RExit => 0 | _ => 1 end.
Definition w_proc (x : procs) := match x with PExit => 0 | PData => 1 | PRun => 2 | PWriteOther => 3 end.
Definition w_send (x : send) := match x with SExit => 0 | _ => 1 end.
Definition w_closer (x : closer) :=
  match x with CStart => 6 | CClosedConn => 5 | CClosedIn => 4 | CClosedOut => 3 | CWaited => 3
          | CUnsubscribed n => 2 + n | CWill => 1 | CDone => 0 end.
Definition measure (x : st) (subs : nat) : nat :=
  w_recv (r x) + w_proc (p x) + w_send (s x) + (match c x with CStart | CClosedConn | CClosedIn | CClosedOut | CWaited => 3 + subs + w_closer (c x) - 3 | y => w_closer y end).

(* stop has closed the socket and both rings *)
Definition stopping (x : st) : Prop :=
  conn_closed x = true /\ in_done x = true /\ out_done x = true /\ c x = CClosedOut.

Definition finished (x : st) : Prop := r x = RExit /\ p x = PExit /\ s x = SExit /\ c x = CDone.

(* C16 progress: once stop has closed socket and rings, some step is enabled until the teardown is
   complete - unless the processor is inside a delivery to a still-open connection whose peer has stopped
   reading (the excuse in the property) *)
Definition C16_progress : Prop := forall x,
  conn_closed x = true -> in_done x = true -> out_done x = true ->
  (c x = CClosedOut \/ (exists n, c x = CUnsubscribed n) \/ c x = CWill \/ c x = CDone) ->
  (c x = CClosedOut \/ (r x = RExit /\ p x = PExit /\ s x = SExit)) ->
  finished x \/ (p x = PWriteOther /\ other_blocked x = true) \/ exists y, step x y.

(* C16 bounded: every step decreases the remaining work, which is at most 11 + the number of stored
   subscriptions when stop begins: the teardown finishes within that many steps *)
Definition work (x : st) : nat :=
  w_recv (r x) + w_proc (p x) + w_send (s x) + w_closer (c x).
Definition C16_bounded : Prop := forall x y, step x y ->
  (forall n, c x = CClosedOut -> c y = CUnsubscribed n -> True) ->
  match c x, c y with
  | CClosedOut, CUnsubscribed n => work y <= w_recv (r x) + w_proc (p x) + w_send (s x) + 2 + n
  | _, _ => work y < work x
  end.

Lemma progress : C16_progress.
Proof.
  unfold C16_progress, finished. intros x Hc Hi Ho Hcl Hex.
  destruct (r x) eqn:Er.
  - right; right. eexists. apply st_recv_read; assumption.
  - right; right. eexists. apply st_recv_space; assumption.
  - destruct (p x) eqn:Ep.
    + right; right. eexists. apply st_proc_data; assumption.
    + destruct (other_blocked x) eqn:Eb; [right; left; auto|].
      right; right. eexists. apply st_proc_write; assumption.
    + right; right. eexists. apply st_proc_run; assumption.
    + destruct (s x) eqn:Es.
      * right; right. eexists. apply st_send_data; assumption.
      * right; right. eexists. apply st_send_write; assumption.
      * destruct Hcl as [H|[[n H]|[H|H]]].
        -- right; right. exists (mkSt (conn_closed x) (in_done x) (out_done x) (r x) (p x) (s x) (CUnsubscribed 0) (other_blocked x)).
           apply st_wait; assumption.
        -- right; right. destruct n; eexists; [apply st_unsub_done | apply st_unsub]; eassumption.
        -- right; right. eexists. apply st_will; assumption.
        -- left. auto.
Qed.

Lemma bounded : C16_bounded.
Proof.
  unfold C16_bounded, work. intros x y Hs _.
  destruct Hs; cbn [r p s c] in *;
    repeat match goal with H : c _ = _ |- _ => rewrite H; clear H | H : r _ = _ |- _ => rewrite H; clear H
                      | H : p _ = _ |- _ => rewrite H; clear H | H : s _ = _ |- _ => rewrite H; clear H end;
    cbn [w_recv w_proc w_send w_closer]; try lia;
    try (destruct (c x); cbn [w_closer]; lia).
Qed.
