(* The full statement of C06 (empty levels included) is false of the faithful model: witnesses.
   These are the entries of the known finding "empty-level" in /verif/known_findings.json. *)
From Base Require Import Tactics Bytes.
From Topics Require Import Model Spec.

Lemma empty_level_refuted : C06_empty_level_refuted.
Proof.
  split; eexists; (split; [reflexivity|]); split; vm_compute; reflexivity.
Qed.

(* non-vacuity of the partial theorems: a three-level history with both wildcards is in the domain *)
Example domain_nonempty :
  forallb op_in_domain
    [OSub [97;47;43;47;99] 1 1; OSub [97;47;35] 2 2; OUnsub [97;47;35] 2; OSub [97;47;98;35] 1 3;
     ORetain (mkR [97;47;98;47;99] [1;2] 1)] = true
  /\ good_name [97;47;98;47;99] = true
  /\ sub_ids (t_subscribers (run_ops [OSub [97;47;43;47;99] 1 1; OSub [97;47;35] 2 2]) [97;47;98;47;99] 2) = [1; 2].
Proof. vm_compute. repeat split; reflexivity. Qed.
