(* C06, part 1: the level splitter nextTopicLevel (scan / levels_lazy) against split_sep.
   - levels_good:     on a good filter the lazy splitter yields exactly the 4.7 levels, no error;
   - invalid_refused: every misuse of a wildcard (and the empty filter) is refused. *)
From Coq Require Import Permutation.
From Base Require Import Tactics Bytes.
From Gen Require Import Tables.
From Topics Require Import Model Spec.
Open Scope N_scope.

(* ---------- beq_bytes is equality ---------- *)

Lemma beq_bytes_eq : forall a b, beq_bytes a b = true <-> a = b.
Proof.
  induction a as [|x a IH]; intros [|y b]; cbn; split; intro H; try congruence; try discriminate.
  - apply andb_true_iff in H as [H1 H2]. apply N.eqb_eq in H1. apply IH in H2. congruence.
  - inv H. rewrite N.eqb_refl. cbn. apply IH. reflexivity.
Qed.

Lemma beq_bytes_refl : forall a, beq_bytes a a = true.
Proof. intros a. apply beq_bytes_eq. reflexivity. Qed.

Lemma beq_bytes_neq : forall a b, beq_bytes a b = false <-> a <> b.
Proof.
  intros a b. split; intro H.
  - intro E. apply beq_bytes_eq in E. congruence.
  - destruct (beq_bytes a b) eqn:E; [|reflexivity]. apply beq_bytes_eq in E. contradiction.
Qed.

Lemma beq_bytes_sym : forall a b, beq_bytes a b = beq_bytes b a.
Proof.
  intros a b. destruct (beq_bytes a b) eqn:E1, (beq_bytes b a) eqn:E2; try reflexivity.
  - apply beq_bytes_eq in E1. subst. rewrite beq_bytes_refl in E2. discriminate.
  - apply beq_bytes_eq in E2. subst. rewrite beq_bytes_refl in E1. discriminate.
Qed.

(* ---------- split_acc ---------- *)

Lemma split_acc_nonempty : forall t cur, split_acc t cur <> [].
Proof.
  induction t as [|c t IH]; intros cur; cbn [split_acc].
  - discriminate.
  - destruct (c =? SEP); [discriminate | apply IH].
Qed.

Lemma split_sep_nonempty : forall t, split_sep t <> [].
Proof. intros t. apply split_acc_nonempty. Qed.

Lemma split_acc_cases : forall t cur,
  (existsb (N.eqb SEP) t = false /\ split_acc t cur = [rev cur ++ t]) \/
  (exists l r, t = l ++ SEP :: r /\ existsb (N.eqb SEP) l = false
               /\ split_acc t cur = (rev cur ++ l) :: split_acc r []).
Proof.
  induction t as [|c t IH]; intros cur.
  - left. split; [reflexivity|]. cbn. rewrite app_nil_r. reflexivity.
  - cbn [split_acc]. destruct (c =? SEP) eqn:E.
    + right. exists [], t. apply N.eqb_eq in E. subst c.
      split; [reflexivity|]. split; [reflexivity|]. rewrite app_nil_r. reflexivity.
    + destruct (IH (c :: cur)) as [[Hn Hs] | (l & r & Ht & Hn & Hs)].
      * left. split.
        -- cbn [existsb]. rewrite N.eqb_sym, E. exact Hn.
        -- rewrite Hs. cbn [rev]. rewrite <- app_assoc. reflexivity.
      * right. exists (c :: l), r. split; [cbn; rewrite Ht; reflexivity|]. split.
        -- cbn [existsb]. rewrite N.eqb_sym, E. exact Hn.
        -- rewrite Hs. cbn [rev]. rewrite <- app_assoc. reflexivity.
Qed.

Lemma split_sep_cases : forall t,
  (existsb (N.eqb SEP) t = false /\ split_sep t = [t]) \/
  (exists l r, t = l ++ SEP :: r /\ existsb (N.eqb SEP) l = false
               /\ split_sep t = l :: split_sep r).
Proof. intros t. exact (split_acc_cases t []). Qed.

(* joining the levels gives the topic back: split_sep is injective *)
Fixpoint join (ls : list bytes) : bytes :=
  match ls with
  | [] => []
  | l :: r => match r with [] => l | _ => l ++ SEP :: join r end
  end.

Lemma join_split_acc : forall t cur, join (split_acc t cur) = rev cur ++ t.
Proof.
  induction t as [|c t IH]; intros cur; cbn [split_acc].
  - cbn. rewrite app_nil_r. reflexivity.
  - destruct (c =? SEP) eqn:E.
    + apply N.eqb_eq in E. subst c. cbn [join].
      destruct (split_acc t []) eqn:Es; [exfalso; eapply split_acc_nonempty; eauto|].
      rewrite <- Es, IH. reflexivity.
    + rewrite IH. cbn [rev]. rewrite <- app_assoc. reflexivity.
Qed.

Lemma join_split_sep : forall t, join (split_sep t) = t.
Proof. intros t. unfold split_sep. rewrite join_split_acc. reflexivity. Qed.

Lemma split_sep_inj : forall a b, split_sep a = split_sep b -> a = b.
Proof. intros a b H. rewrite <- (join_split_sep a), <- (join_split_sep b), H. reflexivity. Qed.

(* ---------- levels_fuel unfolding ---------- *)

Lemma levels_fuel_nil : forall fuel, levels_fuel fuel [] = ([], false).
Proof. destruct fuel; reflexivity. Qed.

Lemma levels_fuel_S : forall fuel t, t <> [] ->
  levels_fuel (S fuel) t =
  match next_level t with
  | None => ([], true)
  | Some (l, rem) => let '(ls, bad) := levels_fuel fuel rem in (l :: ls, bad)
  end.
Proof. intros fuel [|c t] H; [congruence | reflexivity]. Qed.

(* ---------- scan on a well-formed level ---------- *)

Lemma scan_lit : forall l acc i s tail,
  (s = sCHR \/ s = sSYS) ->
  existsb is_wild l = false -> existsb (N.eqb SEP) l = false ->
  (i = O -> match l with c :: _ => (c =? SYS) = false | [] => False end) ->
  (tail = [] \/ exists r, tail = SEP :: r) ->
  scan (l ++ tail) i s acc = Some (rev acc ++ l, tl tail).
Proof.
  induction l as [|c l IH]; intros acc i s tail Hs Hw Hn Hi Ht.
  - cbn [app]. destruct Ht as [Ht | [r Ht]]; subst tail.
    + cbn. rewrite app_nil_r. reflexivity.
    + cbn [scan tl]. change (SEP =? SEP) with true. cbn iota.
      destruct i as [|i]; [exfalso; apply Hi; reflexivity|].
      rewrite app_nil_r. destruct Hs; subst s; reflexivity.
  - cbn [existsb] in Hw, Hn. apply orb_false_iff in Hw as [Hw1 Hw2].
    apply orb_false_iff in Hn as [Hn1 Hn2].
    unfold is_wild in Hw1. apply orb_false_iff in Hw1 as [Hm Hp].
    rewrite N.eqb_sym in Hn1.
    cbn [app scan]. rewrite Hn1, Hm, Hp.
    assert (Hr : rev (c :: acc) ++ l = rev acc ++ c :: l).
    { cbn [rev]. rewrite <- app_assoc. reflexivity. }
    destruct (c =? SYS) eqn:Ey.
    + destruct i as [|i]; [specialize (Hi eq_refl); cbn in Hi; congruence|].
      cbn [Nat.eqb]. rewrite <- Hr.
      destruct Hs; subst s; apply IH; auto; discriminate.
    + rewrite <- Hr.
      destruct Hs; subst s; apply IH; auto; discriminate.
Qed.

Lemma filter_level_cases : forall l, filter_level l = true ->
  lit_level l = true \/ l = [SWC] \/ l = [MWC].
Proof.
  intros l H. unfold filter_level in H.
  apply orb_true_iff in H as [H | H]; [apply orb_true_iff in H as [H | H]|].
  - auto.
  - right. left. apply beq_bytes_eq. exact H.
  - right. right. apply beq_bytes_eq. exact H.
Qed.

Lemma lit_level_inv : forall l, lit_level l = true ->
  exists c l', l = c :: l' /\ (c =? SYS) = false /\ existsb is_wild l = false
               /\ existsb (N.eqb SEP) l = false.
Proof.
  intros [|c l'] H; [discriminate|]. cbn [lit_level] in H.
  apply andb_true_iff in H as [H H3]. apply andb_true_iff in H as [H1 H2].
  exists c, l'. repeat split.
  - destruct (c =? SYS); [discriminate | reflexivity].
  - destruct (existsb is_wild (c :: l')); [discriminate | reflexivity].
  - destruct (existsb (N.eqb SEP) (c :: l')); [discriminate | reflexivity].
Qed.

Lemma lit_not_mwc : forall l, lit_level l = true -> l <> [MWC].
Proof.
  intros l H E. subst l. vm_compute in H. discriminate.
Qed.

Lemma lit_not_swc : forall l, lit_level l = true -> l <> [SWC].
Proof.
  intros l H E. subst l. vm_compute in H. discriminate.
Qed.

Lemma next_level_filter : forall l tail,
  filter_level l = true ->
  (tail = [] \/ (l <> [MWC] /\ exists r, tail = SEP :: r)) ->
  next_level (l ++ tail) = Some (l, tl tail).
Proof.
  intros l tail Hf Ht. unfold next_level.
  destruct (filter_level_cases l Hf) as [Hl | [Hl | Hl]].
  - destruct (lit_level_inv l Hl) as (c & l' & El & Hy & Hw & Hn).
    rewrite (scan_lit l [] O sCHR tail); auto.
    + intros _. subst l. exact Hy.
    + destruct Ht as [Ht | [_ Ht]]; auto.
  - subst l. destruct Ht as [Ht | [_ [r Ht]]]; subst tail; reflexivity.
  - subst l. destruct Ht as [Ht | [Hne _]]; [subst tail; reflexivity | congruence].
Qed.

(* ---------- C06_levels_good ---------- *)

Lemma filter_level_nonempty : forall l, filter_level l = true -> l <> [].
Proof. intros l H E. subst l. vm_compute in H. discriminate. Qed.

Lemma levels_fuel_good : forall fuel f,
  (length f < fuel)%nat -> good_filter_levels (split_sep f) = true ->
  levels_fuel fuel f = (split_sep f, false).
Proof.
  induction fuel as [|fuel IH]; intros f Hlen Hg; [lia|].
  unfold good_filter_levels in Hg.
  apply andb_true_iff in Hg as [Hg Hm]. apply andb_true_iff in Hg as [_ Hall].
  destruct (split_sep_cases f) as [[Hn Hs] | (l & r & Hf & Hn & Hs)].
  - rewrite Hs in *. cbn [forallb] in Hall. apply andb_true_iff in Hall as [Hfl _].
    rewrite levels_fuel_S by (apply filter_level_nonempty; exact Hfl).
    pose proof (next_level_filter f [] Hfl (or_introl eq_refl)) as Hnl.
    rewrite app_nil_r in Hnl. rewrite Hnl. cbn [tl].
    rewrite levels_fuel_nil. reflexivity.
  - rewrite Hs in *. cbn [forallb] in Hall. apply andb_true_iff in Hall as [Hfl Hall].
    assert (Hne : split_sep r <> []) by apply split_sep_nonempty.
    assert (Hm' : negb (beq_bytes l [MWC]) = true /\ mwc_last (split_sep r) = true).
    { cbn [mwc_last] in Hm. destruct (split_sep r) eqn:Er; [congruence|].
      apply andb_true_iff in Hm. exact Hm. }
    destruct Hm' as [Hm1 Hm2].
    assert (Hlm : l <> [MWC]).
    { apply beq_bytes_neq. destruct (beq_bytes l [MWC]); [discriminate | reflexivity]. }
    assert (Hfne : f <> []).
    { subst f. destruct l; discriminate. }
    rewrite (levels_fuel_S fuel f Hfne). rewrite Hf.
    rewrite (next_level_filter l (SEP :: r) Hfl) by (right; split; [exact Hlm | eexists; reflexivity]).
    cbn [tl]. rewrite IH.
    + reflexivity.
    + subst f. rewrite app_length in Hlen. cbn [length] in Hlen. lia.
    + unfold good_filter_levels. rewrite Hall, Hm2.
      destruct (split_sep r); [congruence | reflexivity].
Qed.

Lemma levels_good : C06_levels_good.
Proof.
  intros f Hg. unfold levels_lazy. apply levels_fuel_good; [lia | exact Hg].
Qed.

Lemma good_filter_nonempty : forall f, good_filter f = true -> f <> [].
Proof. intros f H E. subst f. vm_compute in H. discriminate. Qed.

Lemma good_filter_not_refused : forall f, good_filter f = true -> refused f = false.
Proof.
  intros f H. unfold refused. rewrite (levels_good f H). cbn [snd orb].
  pose proof (good_filter_nonempty f H). destruct f; [congruence | reflexivity].
Qed.

Lemma lit_is_filter_level : forall l, lit_level l = true -> filter_level l = true.
Proof. intros l H. unfold filter_level. rewrite H. reflexivity. Qed.

Lemma good_name_levels_filter : forall ls,
  good_name_levels ls = true -> good_filter_levels ls = true.
Proof.
  intros ls H. unfold good_name_levels in H. apply andb_true_iff in H as [H1 H2].
  unfold good_filter_levels. rewrite H1. cbn [andb].
  clear H1. induction ls as [|l ls IH]; [reflexivity|].
  cbn [forallb] in H2. apply andb_true_iff in H2 as [Hl Hr].
  specialize (IH Hr). apply andb_true_iff in IH as [IH1 IH2].
  cbn [forallb]. rewrite (lit_is_filter_level l Hl), IH1. cbn [andb mwc_last].
  destruct ls as [|l2 ls]; [reflexivity|].
  rewrite IH2. pose proof (lit_not_mwc l Hl) as Hne. apply beq_bytes_neq in Hne.
  rewrite Hne. reflexivity.
Qed.

Lemma good_name_good_filter : forall t, good_name t = true -> good_filter t = true.
Proof. intros t H. apply good_name_levels_filter. exact H. Qed.

(* ---------- C06_invalid_refused ---------- *)

Definition st_ok (s : lstate) (acc : bytes) : Prop :=
  match s with
  | sMWC => acc = [MWC]
  | sSWC => acc = [SWC]
  | _ => existsb is_wild acc = false
  end.

Definition lv_bad (ls : list bytes) : bool :=
  existsb level_misuses_wildcard ls || negb (mwc_last ls).

Lemma existsb_rev : forall (f : N -> bool) l, existsb f (rev l) = existsb f l.
Proof.
  intros f l. induction l as [|x l IH]; [reflexivity|].
  cbn [rev existsb]. rewrite existsb_app, IH. cbn. rewrite orb_false_r. apply orb_comm.
Qed.

Lemma st_ok_no_misuse : forall s acc, st_ok s acc ->
  level_misuses_wildcard (rev acc) = false.
Proof.
  intros s acc H. unfold level_misuses_wildcard.
  destruct s; cbn [st_ok] in H; try (rewrite existsb_rev, H; reflexivity); subst acc; reflexivity.
Qed.

Lemma st_ok_not_mwc : forall s acc, st_ok s acc -> s <> sMWC ->
  beq_bytes (rev acc) [MWC] = false.
Proof.
  intros s acc H Hs. apply beq_bytes_neq. intro E.
  destruct s; cbn [st_ok] in H; try congruence.
  - rewrite <- existsb_rev, E in H. vm_compute in H. discriminate.
  - subst acc. vm_compute in E. discriminate.
  - rewrite <- existsb_rev, E in H. vm_compute in H. discriminate.
Qed.

Lemma lv_bad_cons : forall x ls, ls <> [] ->
  level_misuses_wildcard x = false -> beq_bytes x [MWC] = false ->
  lv_bad (x :: ls) = lv_bad ls.
Proof.
  intros x ls Hne Hx Hm. unfold lv_bad. cbn [existsb mwc_last].
  destruct ls as [|y ls]; [congruence|]. rewrite Hx, Hm. reflexivity.
Qed.

Lemma scan_bad : forall rest acc i s,
  i = length acc -> st_ok s acc -> lv_bad (split_acc rest acc) = true ->
  scan rest i s acc = None \/
  exists l rem, scan rest i s acc = Some (l, rem) /\ lv_bad (split_sep rem) = true.
Proof.
  induction rest as [|c rest IH]; intros acc i s Hi Hok Hbad.
  - exfalso. cbn [split_acc] in Hbad. unfold lv_bad in Hbad. cbn [existsb mwc_last] in Hbad.
    rewrite (st_ok_no_misuse s acc Hok) in Hbad. discriminate.
  - cbn [split_acc] in Hbad. cbn [scan].
    destruct (c =? SEP) eqn:Esep.
    + destruct s; try (left; reflexivity).
      all: rewrite lv_bad_cons in Hbad;
        [ | apply split_acc_nonempty | eapply st_ok_no_misuse; eauto
          | eapply st_ok_not_mwc; eauto; discriminate ].
      all: right; destruct (i =? 0)%nat; eexists _, rest; (split; [reflexivity | exact Hbad]).
    + destruct (c =? MWC) eqn:Em.
      { destruct i as [|i]; [|left; reflexivity]. cbn [Nat.eqb negb].
        destruct acc; [|discriminate]. apply N.eqb_eq in Em. subst c.
        apply IH; [reflexivity | reflexivity | exact Hbad]. }
      destruct (c =? SWC) eqn:Ep.
      { destruct i as [|i]; [|left; reflexivity]. cbn [Nat.eqb negb].
        destruct acc; [|discriminate]. apply N.eqb_eq in Ep. subst c.
        apply IH; [reflexivity | reflexivity | exact Hbad]. }
      assert (Hw : is_wild c = false) by (unfold is_wild; rewrite Em, Ep; reflexivity).
      destruct (c =? SYS) eqn:Ey.
      { destruct (i =? 0)%nat; [left; reflexivity|].
        destruct s; try (left; reflexivity).
        all: apply IH; [cbn; lia | cbn [st_ok existsb] in *; rewrite Hw, Hok; reflexivity | exact Hbad]. }
      destruct s; try (left; reflexivity).
      all: apply IH; [cbn; lia | cbn [st_ok existsb] in *; rewrite Hw, Hok; reflexivity | exact Hbad].
Qed.

Lemma levels_fuel_bad : forall fuel t,
  lv_bad (split_sep t) = true -> snd (levels_fuel fuel t) = true.
Proof.
  induction fuel as [|fuel IH]; intros t Hbad.
  - destruct t; [vm_compute in Hbad; discriminate | reflexivity].
  - destruct t as [|c t]; [vm_compute in Hbad; discriminate|].
    rewrite levels_fuel_S by discriminate. unfold next_level.
    destruct (scan_bad (c :: t) [] O sCHR eq_refl eq_refl Hbad) as [Hs | (l & rem & Hs & Hb)];
      rewrite Hs; [reflexivity|].
    specialize (IH rem Hb). destruct (levels_fuel fuel rem) as [ls bad]. exact IH.
Qed.

Lemma invalid_refused : C06_invalid_refused.
Proof.
  intros f H. unfold spec_invalid_filter in H. unfold refused.
  destruct (length f =? 0)%nat; [apply orb_true_r|].
  rewrite orb_false_r. cbn [orb] in H.
  unfold levels_lazy. apply levels_fuel_bad. exact H.
Qed.

Print Assumptions levels_good.
Print Assumptions invalid_refused.
