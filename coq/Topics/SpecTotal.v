(* C06 on the WHOLE input space: what the topic store of Topics/Model.v does for every string,
   strings with empty levels included (where Topics/Spec.v is silent and ProofsRefuted.v shows
   that plain section 4.7 is not what the code does).

   The store never looks at a topic string except through its level splitter, so everything is
   keyed by the levels the splitter PRODUCES:
     qlevels t = Some ls   the splitter walks t to its end without error and yields ls,
     qlevels t = None      the splitter reports an error somewhere in t.
   [qspec] is a closed form of qlevels in terms of the 4.7 levels [split_sep]:
     - t is accepted iff every NON-EMPTY 4.7 level is an ordinary level, "+" or "#", and "#"
       is only the last 4.7 level;
     - the produced levels are the 4.7 levels with the LAST one dropped when it is empty and every
       other empty level replaced by "+"   ("/b" -> +,b   "a/" -> a   "a//b" -> a,+,b
       "/" -> +   "" -> no level at all).
   Against these produced levels the store is an exact implementation of the 4.7 matching
   relation [fmatch]: for EVERY history of operations, without any domain restriction. *)
From Coq Require Import Permutation.
From Base Require Import Tactics Bytes.
From Gen Require Import Tables.
From Topics Require Import Model Spec.
Open Scope N_scope.

(* ---------- the produced levels ---------- *)

Definition qlevels (t : bytes) : option (list bytes) :=
  let '(ls, bad) := levels_lazy t in if bad then None else Some ls.

(* closed form.  quirk: drop a trailing empty level, turn the other empty levels into "+" *)
Fixpoint quirk (ls : list bytes) : list bytes :=
  match ls with
  | [] => []
  | l :: r =>
      match l, r with
      | [], [] => []
      | [], _ => [SWC] :: quirk r
      | _, _ => l :: quirk r
      end
  end.
Definition qlevel_ok (l : bytes) : bool := (length l =? 0)%nat || filter_level l.
Definition qaccepts (t : bytes) : bool :=
  forallb qlevel_ok (split_sep t) && mwc_last (split_sep t).
Definition qspec (t : bytes) : option (list bytes) :=
  if qaccepts t then Some (quirk (split_sep t)) else None.

Definition C06_qlevels_closed_form : Prop := forall t, qlevels t = qspec t.

(* the closed form at work (47 '/', 35 '#', 43 '+', 36 '$', 97 'a', 98 'b', 120 'x'), and what
   fmatch says on produced levels: these are the two witnesses of Spec.C06_empty_level_refuted,
   now instances of the total theorem instead of counterexamples *)
Definition C06_quirk_examples : Prop :=
  qlevels [47; 98] = Some [[43]; [98]] /\                 (* "/b"   -> +,b *)
  qlevels [97; 47] = Some [[97]] /\                       (* "a/"   -> a *)
  qlevels [97; 47; 47; 98] = Some [[97]; [43]; [98]] /\   (* "a//b" -> a,+,b *)
  qlevels [47] = Some [[43]] /\                           (* "/"    -> + *)
  qlevels [47; 47] = Some [[43]; [43]] /\                 (* "//"   -> +,+ *)
  qlevels [] = Some [] /\                                 (* ""     -> no level *)
  qlevels [97; 47; 35; 47; 98] = None /\                  (* "a/#/b" refused *)
  qlevels [35; 47] = None /\                              (* "#/"   refused: "#" not last 4.7 level *)
  qlevels [97; 43] = None /\                              (* "a+"   refused *)
  qlevels [36; 97] = None /\                              (* "$a"   refused by design *)
  qlevels [97; 36] = Some [[97; 36]] /\                   (* "a$"   accepted *)
  (* filter "/b" receives name "x/b"; name "/b" is not received by filter "x/b" but by "+/b", "/b", "#" *)
  fmatch [[43]; [98]] [[120]; [98]] = true /\
  fmatch [[120]; [98]] [[43]; [98]] = false /\
  fmatch [[43]; [98]] [[43]; [98]] = true /\
  fmatch [[35]] [[43]; [98]] = true /\
  (* filter "a/" receives name "a" *)
  fmatch [[97]] [[97]] = true.

(* shape of what the splitter produces (also for the levels before an error): no empty level,
   "#" only in last position; a non-empty accepted string yields at least one level *)
Definition C06_qlevels_shape : Prop := forall t ls,
  qlevels t = Some ls ->
  forallb filter_level ls = true /\ mwc_last ls = true /\ (t <> [] -> ls <> []).

(* ---------- abstract subscription list, keyed by produced levels ---------- *)

(* all subscriptions held under exactly these levels *)
Definition at_levels (f : list bytes) (e : asub) : bool := beq_levels (snd (fst e)) f.

(* Reaction of the specification to an operation - what the model really does:
   - Subscribe: invalid QoS, nil subscriber (0), the empty string, or a string the splitter
     refuses: nothing changes (the model does create the path nodes of the levels before the
     error, sinsert ls None; they hold no subscriber and are invisible to every query whose
     name the splitter accepts - part of the proof of C06_subscribers_total).
     Otherwise (s, produced levels) is added or its QoS replaced, QoS capped by MaxQosAllowed.
   - Unsubscribe with a refused string: nothing changes.
     Unsubscribe with subscriber s <> 0: the entry (s, produced levels) is removed if present.
     Unsubscribe with the NIL subscriber 0 is NOT a no-op in the model: sremove ls None empties
     the node, i.e. EVERY subscriber held under exactly these produced levels is dropped.
     The empty string needs no special case: it produces no level, nothing is ever held under
     the empty level list (C06_aq_run_shape), so both variants leave the list alone.
   - Retain does not touch subscriptions. *)
Definition aq_apply (a : list asub) (o : top_op) : list asub :=
  match o with
  | OSub t q s =>
      if valid_qos q && negb (s =? 0) && negb (length t =? 0)%nat then
        match qlevels t with
        | Some ls => a_subscribe a s ls (capq q)
        | None => a
        end
      else a
  | OUnsub t s =>
      match qlevels t with
      | Some ls =>
          if s =? 0 then filter (fun e => negb (at_levels ls e)) a
          else match a_unsubscribe a s ls with Some a' => a' | None => a end
      | None => a
      end
  | ORetain _ => a
  end.
Definition aq_run (h : list top_op) : list asub := fold_left aq_apply h [].

(* every held subscription sits under produced levels of a non-empty string; one entry per
   (subscriber, levels) *)
Definition C06_aq_run_shape : Prop := forall h,
  NoDup (map fst (aq_run h)) /\
  Forall (fun e => snd (fst e) <> [] /\ mwc_last (snd (fst e)) = true /\ fst (fst e) <> 0) (aq_run h).

(* THE TOTAL THEOREM.  No restriction on the history h, none on the topic name t beyond being
   accepted by the splitter.
   Side conditions:
   - valid_qos q: with q > 2 t_subscribers returns the error before looking at anything
     (C06_subscribers_invalid_qos);
   - qlevels t = Some ls: a name the splitter refuses has no levels to match against; the
     model then returns an error or a partial list (C06_subscribers_refused_name).
   fmatch on produced levels IS the quirk semantics: a name "/b" has levels +,b and a "+" level
   in a NAME is met only by "+" or "#" in a filter; a filter "/b" has levels +,b and receives
   x/b; filter "a/" has level a and receives a. *)
Definition C06_subscribers_total : Prop := forall h t q ls,
  valid_qos q = true -> qlevels t = Some ls ->
  exists l, t_subscribers (run_ops h) t q = Some l
            /\ Permutation l (a_subscribers (aq_run h) ls q).

Definition C06_subscribers_invalid_qos : Prop := forall h t q,
  valid_qos q = false -> t_subscribers (run_ops h) t q = None.

(* A name the splitter refuses (levels ls walked before the error): the traversal fails exactly
   when it reaches the error position.  Whenever it does NOT fail, the answer is exactly the
   subscriptions that match "ls followed by one more level" for whatever that level x is
   (i.e. the "#" filters over a prefix of ls).  Whether it fails depends on path nodes, which
   are not determined by the held subscriptions (bad Subscribes create them), so only this
   conditional form holds. *)
Definition C06_subscribers_refused_name : Prop := forall h t q l x,
  valid_qos q = true -> qlevels t = None ->
  t_subscribers (run_ops h) t q = Some l ->
  Permutation l (a_subscribers (aq_run h) (fst (levels_lazy t) ++ [x]) q).

(* results of the operations themselves, for every history and every argument *)
Definition C06_subscribe_result_total : Prop := forall h t q s,
  snd (t_subscribe (run_ops h) t q s) =
  (if valid_qos q && negb (s =? 0) && negb (length t =? 0)%nat then
     match qlevels t with Some _ => Some (capq q) | None => None end
   else None).
(* s <> 0 is needed: with the nil subscriber the result reports whether the NODE exists, and
   nodes are also created by refused Subscribes (witness: C06_unsubscribe_nil_result_witness) *)
Definition C06_unsubscribe_result_total : Prop := forall h t s,
  s <> 0 ->
  snd (t_unsubscribe (run_ops h) t s) =
  match qlevels t with
  | Some ls => match a_unsubscribe (aq_run h) s ls with Some _ => true | None => false end
  | None => false
  end.
(* "a/b#" is refused after creating node a; "x" was never mentioned: same (empty) abstract
   list, different answers to Unsubscribe(nil) *)
Definition C06_unsubscribe_nil_result_witness : Prop :=
  let h := [OSub [97; 47; 98; 35] 1 7] in
  aq_run h = [] /\
  snd (t_unsubscribe (run_ops h) [97] 0) = true /\
  snd (t_unsubscribe (run_ops h) [120] 0) = false.

(* the total theorem generalises the partial one: inside the old domain the two abstract lists
   are EQUAL and good names produce their 4.7 levels, so C06_subscribers_partial is the
   restriction of C06_subscribers_total *)
Definition C06_total_extends_partial : Prop :=
  (forall h, forallb op_in_domain h = true -> aq_run h = a_run h) /\
  (forall f, good_filter f = true -> qlevels f = Some (split_sep f)) /\
  (forall t, good_name t = true -> qlevels t = Some (split_sep t)).
Definition C06_total_implies_partial : Prop :=
  C06_subscribers_total -> C06_subscribers_partial.

(* ---------- retained messages, keyed by the produced levels of the topic name ---------- *)

(* the message is held under these levels *)
Definition rq_at (ls : list bytes) (x : rmsg) : bool :=
  match qlevels (r_topic x) with Some ls' => beq_levels ls' ls | None => false end.

(* Retain with a name the splitter refuses: nothing changes (again only message-free path nodes).
   Otherwise the message held under the SAME PRODUCED LEVELS is replaced (non-empty payload) or
   removed (empty payload).  Two different names with the same produced levels share one slot:
   "/b", "+/b" and "/b/" all produce +,b, so retaining under one replaces / deletes what was
   retained under another.  No special case for the empty name either: it produces no level and
   the model really stores such a message at the root, reported for the filters "" and "#". *)
Definition rq_retain (r : list rmsg) (m : rmsg) : list rmsg :=
  match qlevels (r_topic m) with
  | Some ls =>
      let others := filter (fun x => negb (rq_at ls x)) r in
      if (length (r_payload m) =? 0)%nat then others else others ++ [m]
  | None => r
  end.
Definition rq_apply (r : list rmsg) (o : top_op) : list rmsg :=
  match o with
  | ORetain m => rq_retain r m
  | _ => r
  end.
Definition rq_run (h : list top_op) : list rmsg := fold_left rq_apply h [].

Definition aq_retained (r : list rmsg) (f : list bytes) : list rmsg :=
  filter (fun m => match qlevels (r_topic m) with Some tl => fmatch f tl | None => false end) r.

(* for EVERY history and every filter string the splitter accepts *)
Definition C06_retained_total : Prop := forall h f fl,
  qlevels f = Some fl ->
  exists l, t_retained (run_ops h) f = Some l
            /\ Permutation l (aq_retained (rq_run h) fl).

(* held messages have accepted names and pairwise different produced levels, non-empty payload *)
Definition C06_rq_run_shape : Prop := forall h,
  NoDup (map (fun m => qlevels (r_topic m)) (rq_run h)) /\
  Forall (fun m => qlevels (r_topic m) <> None /\ (length (r_payload m) =? 0)%nat = false) (rq_run h).

(* the slot sharing, concretely: "/b" then "+/b" keeps only the second; deleting through "/b/"
   removes it *)
Definition C06_retained_slot_sharing : Prop :=
  let m1 := mkR [47; 98] [1] 0 in
  let m2 := mkR [43; 47; 98] [2] 0 in
  let m3 := mkR [47; 98; 47] [] 0 in
  t_retained (run_ops [ORetain m1; ORetain m2]) [35] = Some [m2] /\
  t_retained (run_ops [ORetain m1; ORetain m2; ORetain m3]) [35] = Some [].

Definition C06_retained_extends_partial : Prop :=
  forall h, forallb op_in_domain h = true ->
    rq_run h = r_run h /\
    (forall f, good_filter f = true ->
       aq_retained (rq_run h) (split_sep f) = a_retained (r_run h) (split_sep f)).
Definition C06_retained_total_implies_partial : Prop :=
  C06_retained_total -> C06_retained_partial.
