(* Executable model of topics/memtopics.go (after the fix: commits): the level splitter
   nextTopicLevel, the subscription trie (sinsert / sremove / smatch / matchQos) and the
   retained-message trie (rinsert / rremove / rmatch / allRetained), plus the MemTopics
   provider API on top of them.

   nextTopicLevel is called lazily by the Go recursion: a malformed level only produces an
   error when the traversal reaches it.  [levels_lazy] therefore returns the levels up to the
   first malformed one and a flag; the match functions raise the error exactly where the Go
   code would call nextTopicLevel on the malformed remainder.  Children are Go maps: the model
   keeps them as association lists with distinct keys and results are compared as multisets. *)
From Base Require Import Tactics Bytes.
From Gen Require Import Tables.
Open Scope N_scope.

(* ---------- nextTopicLevel ---------- *)

Inductive lstate := sCHR | sMWC | sSWC | sSYS.

(* scan topic from position i (acc = bytes of the level so far, reversed) *)
Fixpoint scan (rest : bytes) (i : nat) (s : lstate) (acc : bytes) : option (bytes * bytes) :=
  match rest with
  | [] => Some (rev acc, [])
  | c :: r =>
      if c =? SEP then
        match s with
        | sMWC => None
        | _ => if (i =? 0)%nat then Some ([SWC], r) else Some (rev acc, r)
        end
      else if c =? MWC then
        if negb (i =? 0)%nat then None else scan r (S i) sMWC (c :: acc)
      else if c =? SWC then
        if negb (i =? 0)%nat then None else scan r (S i) sSWC (c :: acc)
      else if c =? SYS then
        if (i =? 0)%nat then None else
        match s with
        | sMWC | sSWC => None
        | _ => scan r (S i) sSYS (c :: acc)
        end
      else
        match s with
        | sMWC | sSWC => None
        | _ => scan r (S i) sCHR (c :: acc)
        end
  end.

(* nextTopicLevel(topic): level and remainder, None = error *)
Definition next_level (topic : bytes) : option (bytes * bytes) := scan topic 0 sCHR [].

(* the levels the recursion sees until the topic is exhausted (false) or malformed (true) *)
Fixpoint levels_fuel (fuel : nat) (topic : bytes) : list bytes * bool :=
  match topic with
  | [] => ([], false)
  | _ =>
      match fuel with
      | O => ([], true)
      | S f =>
          match next_level topic with
          | None => ([], true)
          | Some (l, rem) => let '(ls, bad) := levels_fuel f rem in (l :: ls, bad)
          end
      end
  end.
Definition levels_lazy (topic : bytes) : list bytes * bool := levels_fuel (S (length topic)) topic.

(* ---------- subscription trie ---------- *)

Definition sub := N.                       (* subscriber identity; 0 is never used (nil) *)

Inductive snode := SNode (subs : list (sub * N)) (kids : list (bytes * snode)).
Definition s_subs (n : snode) := let 'SNode s _ := n in s.
Definition s_kids (n : snode) := let 'SNode _ k := n in k.
Definition s_empty : snode := SNode [] [].

Fixpoint upd_sub (l : list (sub * N)) (s : sub) (q : N) : list (sub * N) :=
  match l with
  | [] => [(s, q)]
  | (s', q') :: r => if s' =? s then (s', q) :: r else (s', q') :: upd_sub r s q
  end.

Fixpoint del_sub (l : list (sub * N)) (s : sub) : option (list (sub * N)) :=
  match l with
  | [] => None
  | (s', q') :: r => if s' =? s then Some r else option_map (cons (s', q')) (del_sub r s)
  end.

(* e = None: only the nodes along the path are created (what a Subscribe does before it fails on
   a malformed later level) *)
Fixpoint sinsert (ls : list bytes) (e : option (N * sub)) (n : snode) : snode :=
  match ls with
  | [] => match e with Some (q, s) => SNode (upd_sub (s_subs n) s q) (s_kids n) | None => n end
  | l :: r =>
      let fix go (ks : list (bytes * snode)) : list (bytes * snode) :=
        match ks with
        | [] => [(l, sinsert r e s_empty)]
        | (k, c) :: ks' => if beq_bytes k l then (k, sinsert r e c) :: ks' else (k, c) :: go ks'
        end in
      SNode (s_subs n) (go (s_kids n))
  end.

(* sremove: s = None removes all subscribers of the node; None result = error *)
Fixpoint sremove (ls : list bytes) (s : option sub) (n : snode) : option snode :=
  match ls with
  | [] =>
      match s with
      | None => Some (SNode [] (s_kids n))
      | Some s => option_map (fun l => SNode l (s_kids n)) (del_sub (s_subs n) s)
      end
  | l :: r =>
      let fix go (ks : list (bytes * snode)) : option (list (bytes * snode)) :=
        match ks with
        | [] => None
        | (k, c) :: ks' =>
            if beq_bytes k l then
              match sremove r s c with
              | None => None
              | Some c' =>
                  match c' with
                  | SNode [] [] => Some ks'
                  | _ => Some ((k, c') :: ks')
                  end
              end
            else option_map (cons (k, c)) (go ks')
        end in
      option_map (SNode (s_subs n)) (go (s_kids n))
  end.

Definition match_qos (q : N) (n : snode) : list (sub * N) :=
  map (fun sq => (fst sq, if snd sq <? q then snd sq else q)) (s_subs n).

Definition find_kid {A} (l : bytes) (ks : list (bytes * A)) : option A :=
  match find (fun kc => beq_bytes (fst kc) l) ks with Some kc => Some (snd kc) | None => None end.

(* smatch: None = error (nextTopicLevel failed where the traversal reached it) *)
Fixpoint smatch (ls : list bytes) (bad : bool) (q : N) (n : snode) : option (list (sub * N)) :=
  match ls with
  | [] =>
      if bad then None else
      Some (match_qos q n ++ match find_kid [MWC] (s_kids n) with Some c => match_qos q c | None => [] end)
  | l :: r =>
      let fix go (ks : list (bytes * snode)) : option (list (sub * N)) :=
        match ks with
        | [] => Some []
        | (k, c) :: ks' =>
            let here :=
              if beq_bytes k [MWC] then Some (match_qos q c)
              else if beq_bytes k [SWC] || beq_bytes k l then smatch r bad q c
              else Some [] in
            match here, go ks' with
            | Some a, Some b => Some (a ++ b)
            | _, _ => None
            end
        end in
      go (s_kids n)
  end.

(* ---------- retained trie ---------- *)

Record rmsg := mkR { r_topic : bytes; r_payload : bytes; r_qos : N }.

Inductive rnode := RNode (msg : option rmsg) (kids : list (bytes * rnode)).
Definition r_msg (n : rnode) := let 'RNode m _ := n in m.
Definition r_kids (n : rnode) := let 'RNode _ k := n in k.
Definition r_empty : rnode := RNode None [].

Fixpoint rinsert (ls : list bytes) (m : option rmsg) (n : rnode) : rnode :=
  match ls with
  | [] => match m with Some _ => RNode m (r_kids n) | None => n end
  | l :: r =>
      let fix go (ks : list (bytes * rnode)) : list (bytes * rnode) :=
        match ks with
        | [] => [(l, rinsert r m r_empty)]
        | (k, c) :: ks' => if beq_bytes k l then (k, rinsert r m c) :: ks' else (k, c) :: go ks'
        end in
      RNode (r_msg n) (go (r_kids n))
  end.

Fixpoint rremove (ls : list bytes) (n : rnode) : option rnode :=
  match ls with
  | [] => Some (RNode None (r_kids n))
  | l :: r =>
      let fix go (ks : list (bytes * rnode)) : option (list (bytes * rnode)) :=
        match ks with
        | [] => None
        | (k, c) :: ks' =>
            if beq_bytes k l then
              match rremove r c with
              | None => None
              | Some c' =>
                  match c' with
                  | RNode None [] => Some ks'
                  | _ => Some ((k, c') :: ks')
                  end
              end
            else option_map (cons (k, c)) (go ks')
        end in
      option_map (RNode (r_msg n)) (go (r_kids n))
  end.

Fixpoint all_retained (n : rnode) : list rmsg :=
  let 'RNode m ks := n in
  (match m with Some x => [x] | None => [] end)
  ++ (fix go (ks : list (bytes * rnode)) : list rmsg :=
        match ks with [] => [] | (_, c) :: ks' => all_retained c ++ go ks' end) ks.

Fixpoint rmatch (ls : list bytes) (bad : bool) (n : rnode) : option (list rmsg) :=
  match ls with
  | [] => if bad then None else Some (match r_msg n with Some x => [x] | None => [] end)
  | l :: r =>
      if beq_bytes l [MWC] then Some (all_retained n)
      else if beq_bytes l [SWC] then
        (fix go (ks : list (bytes * rnode)) : option (list rmsg) :=
           match ks with
           | [] => Some []
           | (_, c) :: ks' =>
               match rmatch r bad c, go ks' with
               | Some a, Some b => Some (a ++ b)
               | _, _ => None
               end
           end) (r_kids n)
      else match find_kid l (r_kids n) with
           | Some c => rmatch r bad c
           | None => Some []
           end
  end.

(* ---------- MemTopics provider ---------- *)

Record store := mkStore { sroot : snode; rroot : rnode }.
Definition store0 : store := mkStore s_empty r_empty.

Definition valid_qos (q : N) : bool := q <? 3.

(* Subscribe: granted QoS or error; sub = 0 stands for a nil subscriber *)
Definition t_subscribe (st : store) (topic : bytes) (q : N) (s : sub) : store * option N :=
  if negb (valid_qos q) then (st, None) else
  if s =? 0 then (st, None) else
  if (length topic =? 0)%nat then (st, None) else
  let q := if MaxQosAllowed <? q then MaxQosAllowed else q in
  let '(ls, bad) := levels_lazy topic in
  if bad then (mkStore (sinsert ls None (sroot st)) (rroot st), None) else
  (mkStore (sinsert ls (Some (q, s)) (sroot st)) (rroot st), Some q).

Definition t_unsubscribe (st : store) (topic : bytes) (s : sub) : store * bool :=
  let '(ls, bad) := levels_lazy topic in
  if bad then (st, false) else
  match sremove ls (if s =? 0 then None else Some s) (sroot st) with
  | Some n => (mkStore n (rroot st), true)
  | None => (st, false)
  end.

Definition t_subscribers (st : store) (topic : bytes) (q : N) : option (list (sub * N)) :=
  if negb (valid_qos q) then None else
  let '(ls, bad) := levels_lazy topic in
  smatch ls bad q (sroot st).

Definition t_retain (st : store) (m : rmsg) : store * bool :=
  let '(ls, bad) := levels_lazy (r_topic m) in
  if bad then
    (if (length (r_payload m) =? 0)%nat then st else mkStore (sroot st) (rinsert ls None (rroot st)), false)
  else
  if (length (r_payload m) =? 0)%nat then
    match rremove ls (rroot st) with
    | Some n => (mkStore (sroot st) n, true)
    | None => (st, false)
    end
  else (mkStore (sroot st) (rinsert ls (Some m) (rroot st)), true).

Definition t_retained (st : store) (filter : bytes) : option (list rmsg) :=
  let '(ls, bad) := levels_lazy filter in
  rmatch ls bad (rroot st).
