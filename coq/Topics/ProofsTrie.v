(* C06, part 2: the subscription trie refines the abstract subscription list of Topics/Spec.v.
   flatten enumerates the (subscriber, path, qos) triples held in a trie; on well-formed tries
   (distinct child keys, distinct subscriber ids per node)
     - smatch on the levels of a good topic name returns exactly the 4.7 selection of flatten,
     - sinsert / sremove change flatten like a_subscribe / a_unsubscribe,
     - path creation (sinsert ls None) and pruning do not change flatten.
   The history theorems follow by induction with the invariant [inv]. *)
From Coq Require Import Permutation.
From Base Require Import Tactics Bytes.
From Gen Require Import Tables.
From Topics Require Import Model Spec ProofsLevels.
Open Scope N_scope.

(* ---------- flatten and well-formedness ---------- *)

Definition pre (k : bytes) (e : asub) : asub := (fst (fst e), k :: snd (fst e), snd e).
Definition own (sq : sub * N) : asub := (fst sq, [], snd sq).

Fixpoint flatten (n : snode) : list asub :=
  let 'SNode subs kids := n in
  map own subs ++
  (fix go (ks : list (bytes * snode)) : list asub :=
     match ks with
     | [] => []
     | (k, c) :: ks' => map (pre k) (flatten c) ++ go ks'
     end) kids.

Definition flat_kids (ks : list (bytes * snode)) : list asub :=
  flat_map (fun kc => map (pre (fst kc)) (flatten (snd kc))) ks.

Lemma flatten_eq : forall subs kids,
  flatten (SNode subs kids) = map own subs ++ flat_kids kids.
Proof.
  intros subs kids. cbn [flatten]. f_equal.
  induction kids as [|[k c] ks IH]; [reflexivity|].
  cbn [flat_kids flat_map fst snd]. rewrite IH. reflexivity.
Qed.

Lemma flat_kids_cons : forall k c ks,
  flat_kids ((k, c) :: ks) = map (pre k) (flatten c) ++ flat_kids ks.
Proof. reflexivity. Qed.

Lemma flat_kids_app : forall a b, flat_kids (a ++ b) = flat_kids a ++ flat_kids b.
Proof. intros a b. unfold flat_kids. apply flat_map_app. Qed.

Inductive wf : snode -> Prop :=
| wf_node : forall subs kids,
    NoDup (map fst subs) -> NoDup (map fst kids) ->
    Forall (fun kc => wf (snd kc)) kids -> wf (SNode subs kids).

Lemma wf_empty : wf s_empty.
Proof. constructor; constructor. Qed.

Lemma wf_inv : forall subs kids, wf (SNode subs kids) ->
  NoDup (map fst subs) /\ NoDup (map fst kids) /\ Forall (fun kc => wf (snd kc)) kids.
Proof. intros subs kids H. inversion H; subst. auto. Qed.

(* ---------- the recursions over the children as stand-alone functions ---------- *)

Fixpoint ins_kid (l : bytes) (f : snode -> snode) (ks : list (bytes * snode)) : list (bytes * snode) :=
  match ks with
  | [] => [(l, f s_empty)]
  | (k, c) :: ks' => if beq_bytes k l then (k, f c) :: ks' else (k, c) :: ins_kid l f ks'
  end.

Lemma sinsert_cons : forall l r e n,
  sinsert (l :: r) e n = SNode (s_subs n) (ins_kid l (sinsert r e) (s_kids n)).
Proof.
  intros l r e n. cbn [sinsert]. f_equal.
  induction (s_kids n) as [|[k c] ks IH]; [reflexivity|].
  cbn [ins_kid]. rewrite <- IH. reflexivity.
Qed.

Fixpoint rem_kid (l : bytes) (f : snode -> option snode) (ks : list (bytes * snode))
  : option (list (bytes * snode)) :=
  match ks with
  | [] => None
  | (k, c) :: ks' =>
      if beq_bytes k l then
        match f c with
        | None => None
        | Some c' =>
            match c' with
            | SNode [] [] => Some ks'
            | _ => Some ((k, c') :: ks')
            end
        end
      else option_map (cons (k, c)) (rem_kid l f ks')
  end.

Lemma sremove_cons : forall l r s n,
  sremove (l :: r) s n = option_map (SNode (s_subs n)) (rem_kid l (sremove r s) (s_kids n)).
Proof.
  intros l r s n. cbn [sremove]. f_equal.
  induction (s_kids n) as [|[k c] ks IH]; [reflexivity|].
  cbn [rem_kid]. rewrite <- IH. reflexivity.
Qed.

Fixpoint match_kids (l : bytes) (f : snode -> option (list (sub * N))) (q : N)
  (ks : list (bytes * snode)) : option (list (sub * N)) :=
  match ks with
  | [] => Some []
  | (k, c) :: ks' =>
      let here :=
        if beq_bytes k [MWC] then Some (match_qos q c)
        else if beq_bytes k [SWC] || beq_bytes k l then f c
        else Some [] in
      match here, match_kids l f q ks' with
      | Some a, Some b => Some (a ++ b)
      | _, _ => None
      end
  end.

Lemma smatch_cons : forall l r bad q n,
  smatch (l :: r) bad q n = match_kids l (smatch r bad q) q (s_kids n).
Proof.
  intros l r bad q n. cbn [smatch].
  induction (s_kids n) as [|[k c] ks IH]; [reflexivity|].
  cbn [match_kids]. rewrite <- IH. reflexivity.
Qed.

(* ---------- same_sub on flattened entries ---------- *)

Lemma beq_levels_eq : forall a b, beq_levels a b = true <-> a = b.
Proof.
  induction a as [|x a IH]; intros [|y b]; cbn; split; intro H; try congruence; try discriminate.
  - apply andb_true_iff in H as [H1 H2]. apply beq_bytes_eq in H1. apply IH in H2. congruence.
  - inv H. rewrite beq_bytes_refl. cbn. apply IH. reflexivity.
Qed.

Lemma same_sub_key : forall s f e, same_sub s f e = true <-> fst e = (s, f).
Proof.
  intros s f [[s' p] q]. unfold same_sub. cbn [fst snd]. split; intro H.
  - apply andb_true_iff in H as [H1 H2]. apply N.eqb_eq in H1. apply beq_levels_eq in H2. congruence.
  - inv H. rewrite N.eqb_refl. cbn. apply beq_levels_eq. reflexivity.
Qed.

Definition keep (s : sub) (f : list bytes) (e : asub) : bool := negb (same_sub s f e).
Definition nosame (s : sub) (f : list bytes) (X : list asub) : Prop :=
  Forall (fun e => same_sub s f e = false) X.

Lemma same_sub_pre_nil : forall s k e, same_sub s [] (pre k e) = false.
Proof. intros s k e. unfold same_sub, pre. cbn. apply andb_false_r. Qed.

Lemma same_sub_pre_cons : forall s l r k e,
  same_sub s (l :: r) (pre k e) = beq_bytes k l && same_sub s r e.
Proof.
  intros s l r k e. unfold same_sub, pre. cbn [fst snd beq_levels].
  destruct (fst (fst e) =? s), (beq_bytes k l); reflexivity.
Qed.

Lemma same_sub_own_cons : forall s l r sq, same_sub s (l :: r) (own sq) = false.
Proof. intros s l r sq. unfold same_sub, own. cbn. apply andb_false_r. Qed.

Lemma same_sub_own_nil : forall s sq, same_sub s [] (own sq) = (fst sq =? s).
Proof. intros s sq. unfold same_sub, own. cbn. apply andb_true_r. Qed.

Lemma nosame_filter : forall s f X, nosame s f X -> filter (keep s f) X = X.
Proof.
  intros s f X H. induction H as [|e X He HX IH]; [reflexivity|].
  cbn [filter]. unfold keep at 1. rewrite He. cbn [negb]. rewrite IH. reflexivity.
Qed.

Lemma nosame_existsb : forall s f X, nosame s f X -> existsb (same_sub s f) X = false.
Proof.
  intros s f X H. induction H as [|e X He HX IH]; [reflexivity|].
  cbn [existsb]. rewrite He, IH. reflexivity.
Qed.

Lemma nosame_own_cons : forall s l r subs, nosame s (l :: r) (map own subs).
Proof.
  intros s l r subs. apply Forall_forall. intros e He.
  apply in_map_iff in He as (x & <- & _). apply same_sub_own_cons.
Qed.

Lemma nosame_pre_nil : forall s k X, nosame s [] (map (pre k) X).
Proof.
  intros s k X. apply Forall_forall. intros e He.
  apply in_map_iff in He as (x & <- & _). apply same_sub_pre_nil.
Qed.

Lemma nosame_pre_ne : forall s l r k X, beq_bytes k l = false -> nosame s (l :: r) (map (pre k) X).
Proof.
  intros s l r k X Hk. apply Forall_forall. intros e He.
  apply in_map_iff in He as (x & <- & _). rewrite same_sub_pre_cons, Hk. reflexivity.
Qed.

Lemma nosame_kids_nil : forall s ks, nosame s [] (flat_kids ks).
Proof.
  intros s ks. apply Forall_forall. intros e He. unfold flat_kids in He.
  apply in_flat_map in He as (kc & _ & He).
  apply in_map_iff in He as (x & <- & _). apply same_sub_pre_nil.
Qed.

Lemma nosame_kids_notin : forall s l r ks, ~ In l (map fst ks) -> nosame s (l :: r) (flat_kids ks).
Proof.
  intros s l r ks Hn. apply Forall_forall. intros e He. unfold flat_kids in He.
  apply in_flat_map in He as (kc & Hkc & He).
  apply in_map_iff in He as (x & <- & _). rewrite same_sub_pre_cons.
  destruct (beq_bytes (fst kc) l) eqn:E; [|reflexivity].
  apply beq_bytes_eq in E. exfalso. apply Hn. rewrite <- E. apply in_map. exact Hkc.
Qed.

Lemma keep_pre_eq : forall s k r e, keep s (k :: r) (pre k e) = keep s r e.
Proof. intros. unfold keep. rewrite same_sub_pre_cons, beq_bytes_refl. reflexivity. Qed.

Lemma filter_keep_pre_eq : forall s k r X,
  filter (keep s (k :: r)) (map (pre k) X) = map (pre k) (filter (keep s r) X).
Proof.
  intros s k r X. induction X as [|e X IH]; [reflexivity|].
  cbn [map filter]. rewrite keep_pre_eq, IH.
  destruct (keep s r e); reflexivity.
Qed.

Lemma existsb_same_pre_eq : forall s k r X,
  existsb (same_sub s (k :: r)) (map (pre k) X) = existsb (same_sub s r) X.
Proof.
  intros s k r X. induction X as [|e X IH]; [reflexivity|].
  cbn [map existsb]. rewrite same_sub_pre_cons, beq_bytes_refl, IH. reflexivity.
Qed.

(* ---------- smatch = the 4.7 selection of flatten ---------- *)

Definition gq (q : N) (e : asub) : sub * N := (fst (fst e), if snd e <? q then snd e else q).

Lemma asubs_unfold : forall a t q,
  a_subscribers a t q = map (gq q) (filter (fun e => fmatch (snd (fst e)) t) a).
Proof. reflexivity. Qed.

Lemma asubs_app : forall a b t q,
  a_subscribers (a ++ b) t q = a_subscribers a t q ++ a_subscribers b t q.
Proof. intros. rewrite !asubs_unfold, filter_app, map_app. reflexivity. Qed.

Lemma asubs_none : forall X t q,
  Forall (fun e => fmatch (snd (fst e)) t = false) X -> a_subscribers X t q = [].
Proof.
  intros X t q H. rewrite asubs_unfold. induction H as [|e X He HX IH]; [reflexivity|].
  cbn [filter]. rewrite He. exact IH.
Qed.

Lemma asubs_all : forall X t q,
  Forall (fun e => fmatch (snd (fst e)) t = true) X -> a_subscribers X t q = map (gq q) X.
Proof.
  intros X t q H. rewrite asubs_unfold. induction H as [|e X He HX IH]; [reflexivity|].
  cbn [filter map]. rewrite He. cbn [map]. rewrite IH. reflexivity.
Qed.

Lemma map_gq_own : forall q subs kids, map (gq q) (map own subs) = match_qos q (SNode subs kids).
Proof.
  intros q subs kids. unfold match_qos. cbn [s_subs]. rewrite map_map. reflexivity.
Qed.

Lemma map_gq_pre : forall q k X, map (gq q) (map (pre k) X) = map (gq q) X.
Proof. intros q k X. rewrite map_map. reflexivity. Qed.

Lemma fmatch_cons_cons : forall k p l r,
  fmatch (k :: p) (l :: r) =
  if beq_bytes k [MWC] && (length p =? 0)%nat then true
  else (beq_bytes k [SWC] || beq_bytes k l) && fmatch p r.
Proof. reflexivity. Qed.

Lemma fmatch_cons_nil : forall k p,
  fmatch (k :: p) [] = beq_bytes k [MWC] && (length p =? 0)%nat.
Proof. intros k p. cbn [fmatch]. destruct (beq_bytes k [MWC] && (length p =? 0)%nat); reflexivity. Qed.

(* a '#' child: exactly its own subscribers match, whatever remains of the name *)
Lemma asubs_pre_mwc : forall q c t,
  match t with l :: _ => l <> [MWC] | [] => True end ->
  a_subscribers (map (pre [MWC]) (flatten c)) t q = match_qos q c.
Proof.
  intros q [subs kids] t Ht. rewrite flatten_eq, map_app, asubs_app.
  rewrite (asubs_all (map (pre [MWC]) (map own subs))).
  - rewrite (asubs_none (map (pre [MWC]) (flat_kids kids))).
    + rewrite app_nil_r, map_gq_pre. apply map_gq_own.
    + apply Forall_forall. intros e He.
      apply in_map_iff in He as (x & <- & Hx). unfold flat_kids in Hx.
      apply in_flat_map in Hx as (kc & _ & Hx). apply in_map_iff in Hx as (y & <- & _).
      unfold pre. cbn [fst snd]. destruct t as [|l t].
      * reflexivity.
      * rewrite fmatch_cons_cons. cbn [length Nat.eqb andb].
        rewrite beq_bytes_refl. cbn [andb].
        assert (E : beq_bytes [MWC] l = false) by (apply beq_bytes_neq; congruence).
        rewrite E. reflexivity.
  - apply Forall_forall. intros e He.
    apply in_map_iff in He as (x & <- & Hx). apply in_map_iff in Hx as (y & <- & _).
    unfold pre, own. cbn [fst snd]. destruct t; reflexivity.
Qed.

Lemma asubs_pre_other_nil : forall q k X,
  beq_bytes k [MWC] = false -> a_subscribers (map (pre k) X) [] q = [].
Proof.
  intros q k X Hk. apply asubs_none. apply Forall_forall. intros e He.
  apply in_map_iff in He as (x & <- & _). unfold pre. cbn [fst snd].
  rewrite fmatch_cons_nil, Hk. reflexivity.
Qed.

Lemma filter_map_comm : forall {A B} (f : A -> B) (p : B -> bool) (l : list A),
  filter p (map f l) = map f (filter (fun x => p (f x)) l).
Proof.
  intros A B f p l. induction l as [|x l IH]; [reflexivity|].
  cbn [map filter]. rewrite IH. destruct (p (f x)); reflexivity.
Qed.

Lemma filter_none : forall {A} (l : list A), filter (fun _ => false) l = [].
Proof. intros A l. induction l; [reflexivity | assumption]. Qed.

Lemma asubs_pre_other_cons : forall q k X l r,
  beq_bytes k [MWC] = false ->
  a_subscribers (map (pre k) X) (l :: r) q =
  if beq_bytes k [SWC] || beq_bytes k l then a_subscribers X r q else [].
Proof.
  intros q k X l r Hk. rewrite !asubs_unfold, filter_map_comm, map_gq_pre.
  destruct (beq_bytes k [SWC] || beq_bytes k l) eqn:Ec.
  - f_equal. apply filter_ext. intros e. unfold pre. cbn [fst snd].
    rewrite fmatch_cons_cons, Hk, Ec. reflexivity.
  - rewrite (filter_ext _ (fun _ => false)); [rewrite filter_none; reflexivity|].
    intros e. unfold pre. cbn [fst snd]. rewrite fmatch_cons_cons, Hk, Ec. reflexivity.
Qed.

Lemma find_kid_cons : forall (l k : bytes) (c : snode) ks,
  find_kid l ((k, c) :: ks) = if beq_bytes k l then Some c else find_kid l ks.
Proof.
  intros l k c ks. unfold find_kid. cbn [find fst]. destruct (beq_bytes k l); reflexivity.
Qed.

Lemma asubs_kids_nil_notin : forall q ks,
  ~ In [MWC] (map fst ks) -> a_subscribers (flat_kids ks) [] q = [].
Proof.
  intros q ks Hn. induction ks as [|[k c] ks IH]; [reflexivity|].
  rewrite flat_kids_cons, asubs_app. cbn [map fst In] in Hn.
  rewrite asubs_pre_other_nil.
  - apply IH. tauto.
  - apply beq_bytes_neq. tauto.
Qed.

Lemma find_kid_notin : forall (l : bytes) (ks : list (bytes * snode)),
  ~ In l (map fst ks) -> find_kid l ks = None.
Proof.
  intros l ks Hn. induction ks as [|[k c] ks IH]; [reflexivity|].
  rewrite find_kid_cons. cbn [map fst In] in Hn.
  assert (E : beq_bytes k l = false) by (apply beq_bytes_neq; tauto).
  rewrite E. apply IH. tauto.
Qed.

Lemma asubs_kids_nil : forall q ks, NoDup (map fst ks) ->
  a_subscribers (flat_kids ks) [] q =
  match find_kid [MWC] ks with Some c => match_qos q c | None => [] end.
Proof.
  intros q ks Hnd. induction ks as [|[k c] ks IH]; [reflexivity|].
  cbn [map fst] in Hnd. inversion Hnd as [|? ? Hk Hnd']; subst.
  rewrite flat_kids_cons, asubs_app, find_kid_cons.
  destruct (beq_bytes k [MWC]) eqn:E.
  - apply beq_bytes_eq in E. subst k.
    rewrite asubs_pre_mwc by exact I.
    rewrite asubs_kids_nil_notin by exact Hk. apply app_nil_r.
  - rewrite asubs_pre_other_nil by exact E. cbn [app]. apply IH. exact Hnd'.
Qed.

Lemma match_kids_ok : forall q l r f ks,
  l <> [MWC] ->
  Forall (fun kc => f (snd kc) = Some (a_subscribers (flatten (snd kc)) r q)) ks ->
  match_kids l f q ks = Some (a_subscribers (flat_kids ks) (l :: r) q).
Proof.
  intros q l r f ks Hl H. induction H as [|[k c] ks Hc Hks IH]; [reflexivity|].
  cbn [snd] in Hc. cbn [match_kids]. rewrite IH, flat_kids_cons, asubs_app.
  destruct (beq_bytes k [MWC]) eqn:E.
  - apply beq_bytes_eq in E. subst k. rewrite asubs_pre_mwc by exact Hl. reflexivity.
  - rewrite asubs_pre_other_cons by exact E.
    destruct (beq_bytes k [SWC] || beq_bytes k l); [rewrite Hc|]; reflexivity.
Qed.

Lemma smatch_ok : forall ls q n,
  forallb lit_level ls = true -> wf n ->
  smatch ls false q n = Some (a_subscribers (flatten n) ls q).
Proof.
  induction ls as [|l r IH]; intros q [subs kids] Hlit Hwf;
    apply wf_inv in Hwf as (Hs & Hk & Hkids).
  - cbn [smatch s_kids]. rewrite flatten_eq, asubs_app, asubs_kids_nil by exact Hk.
    rewrite asubs_all.
    + rewrite (map_gq_own q subs kids). reflexivity.
    + apply Forall_forall. intros e He. apply in_map_iff in He as (x & <- & _). reflexivity.
  - cbn [forallb] in Hlit. apply andb_true_iff in Hlit as [Hl Hr].
    rewrite smatch_cons. cbn [s_kids].
    rewrite (match_kids_ok q l r).
    + rewrite flatten_eq, asubs_app. rewrite (asubs_none (map own subs)); [reflexivity|].
      apply Forall_forall. intros e He. apply in_map_iff in He as (x & <- & _). reflexivity.
    + apply lit_not_mwc. exact Hl.
    + eapply Forall_impl; [|exact Hkids]. intros kc Hw. apply IH; assumption.
Qed.

(* ---------- sinsert ---------- *)

Lemma in_upd_sub : forall subs s q x,
  In x (map fst (upd_sub subs s q)) -> x = s \/ In x (map fst subs).
Proof.
  induction subs as [|[s' q'] subs IH]; intros s q x H.
  - cbn in H. destruct H as [H | []]. auto.
  - cbn [upd_sub] in H. destruct (s' =? s) eqn:E.
    + right. exact H.
    + cbn [map fst In] in H |- *. destruct H as [H | H]; [auto|].
      apply IH in H. tauto.
Qed.

Lemma nodup_upd_sub : forall subs s q,
  NoDup (map fst subs) -> NoDup (map fst (upd_sub subs s q)).
Proof.
  induction subs as [|[s' q'] subs IH]; intros s q H.
  - cbn. constructor; [intros []|constructor].
  - cbn [map fst] in H. inversion H as [|? ? Hn Hd]; subst.
    cbn [upd_sub]. destruct (s' =? s) eqn:E.
    + cbn [map fst]. constructor; assumption.
    + cbn [map fst]. constructor; [|apply IH; exact Hd].
      intro Hin. apply in_upd_sub in Hin as [Hin | Hin]; [|contradiction].
      subst. rewrite N.eqb_refl in E. discriminate.
Qed.

Lemma in_ins_kid : forall l f ks x,
  In x (map fst (ins_kid l f ks)) -> x = l \/ In x (map fst ks).
Proof.
  intros l f ks x. induction ks as [|[k c] ks IH]; intro H.
  - cbn in H. destruct H as [H | []]. auto.
  - cbn [ins_kid] in H. destruct (beq_bytes k l) eqn:E.
    + right. exact H.
    + cbn [map fst In] in H |- *. destruct H as [H | H]; [auto|].
      apply IH in H. tauto.
Qed.

Lemma nodup_ins_kid : forall l f ks,
  NoDup (map fst ks) -> NoDup (map fst (ins_kid l f ks)).
Proof.
  intros l f ks. induction ks as [|[k c] ks IH]; intro H.
  - cbn. constructor; [intros []|constructor].
  - cbn [map fst] in H. inversion H as [|? ? Hn Hd]; subst.
    cbn [ins_kid]. destruct (beq_bytes k l) eqn:E.
    + cbn [map fst]. constructor; assumption.
    + cbn [map fst]. constructor; [|apply IH; exact Hd].
      intro Hin. apply in_ins_kid in Hin as [Hin | Hin]; [|contradiction].
      subst. rewrite beq_bytes_refl in E. discriminate.
Qed.

Lemma wf_sinsert : forall ls e n, wf n -> wf (sinsert ls e n).
Proof.
  induction ls as [|l r IH]; intros e [subs kids] Hwf.
  - cbn [sinsert]. destruct e as [[q s]|]; [|exact Hwf].
    apply wf_inv in Hwf as (Hs & Hk & Hkids). cbn [s_subs s_kids].
    constructor; auto. apply nodup_upd_sub. exact Hs.
  - rewrite sinsert_cons. cbn [s_subs s_kids].
    apply wf_inv in Hwf as (Hs & Hk & Hkids).
    constructor; [exact Hs | apply nodup_ins_kid; exact Hk |].
    clear Hk. induction Hkids as [|[k c] ks Hc Hks IHk].
    + cbn [ins_kid]. constructor; [|constructor]. cbn [snd]. apply IH. apply wf_empty.
    + cbn [ins_kid]. destruct (beq_bytes k l).
      * constructor; [|exact Hks]. cbn [snd] in *. apply IH. exact Hc.
      * constructor; [exact Hc | exact IHk].
Qed.

Lemma s_subs_sinsert_cons : forall l r e n, s_subs (sinsert (l :: r) e n) = s_subs n.
Proof. intros. rewrite sinsert_cons. reflexivity. Qed.

Lemma s_subs_sinsert_none : forall ls n, s_subs (sinsert ls None n) = s_subs n.
Proof. intros [|l r] n; [reflexivity | apply s_subs_sinsert_cons]. Qed.

(* path creation leaves the held subscriptions alone *)
Lemma flatten_sinsert_none : forall ls n, flatten (sinsert ls None n) = flatten n.
Proof.
  induction ls as [|l r IH]; intros [subs kids]; [reflexivity|].
  rewrite sinsert_cons. cbn [s_subs s_kids]. rewrite !flatten_eq. f_equal.
  induction kids as [|[k c] ks IHk].
  - cbn [ins_kid]. rewrite flat_kids_cons, IH. reflexivity.
  - cbn [ins_kid]. destruct (beq_bytes k l).
    + rewrite !flat_kids_cons, IH. reflexivity.
    + rewrite !flat_kids_cons, IHk. reflexivity.
Qed.

Lemma upd_sub_perm : forall subs s q, NoDup (map fst subs) ->
  Permutation (map own (upd_sub subs s q)) ((s, [], q) :: filter (keep s []) (map own subs)).
Proof.
  induction subs as [|[s' q'] subs IH]; intros s q H.
  - cbn. apply Permutation_refl.
  - cbn [map fst] in H. inversion H as [|? ? Hn Hd]; subst.
    cbn [upd_sub map filter]. unfold keep at 1. rewrite same_sub_own_nil. cbn [fst].
    destruct (s' =? s) eqn:E.
    + apply N.eqb_eq in E. subst s'. cbn [negb map]. unfold own at 1. cbn [fst snd].
      rewrite nosame_filter; [apply Permutation_refl|].
      apply Forall_forall. intros e He. apply in_map_iff in He as (x & <- & Hx).
      rewrite same_sub_own_nil. apply N.eqb_neq. intro Ex. apply Hn. rewrite <- Ex.
      apply in_map. exact Hx.
    + cbn [negb map]. eapply Permutation_trans; [apply perm_skip, IH; exact Hd|].
      apply perm_swap.
Qed.

Lemma ins_kid_perm : forall s q l r ks,
  NoDup (map fst ks) ->
  (forall c, wf c -> Permutation (flatten (sinsert r (Some (q, s)) c))
                                 ((s, r, q) :: filter (keep s r) (flatten c))) ->
  Forall (fun kc => wf (snd kc)) ks ->
  Permutation (flat_kids (ins_kid l (sinsert r (Some (q, s))) ks))
              ((s, l :: r, q) :: filter (keep s (l :: r)) (flat_kids ks)).
Proof.
  intros s q l r ks Hnd IH' Hwf.
  induction Hwf as [|[k c] ks Hc Hks IHk].
  - cbn [ins_kid]. rewrite flat_kids_cons. cbn [flat_kids flat_map filter].
    rewrite app_nil_r.
    eapply Permutation_trans; [apply Permutation_map, IH', wf_empty|].
    cbn. apply Permutation_refl.
  - cbn [map fst] in Hnd. inversion Hnd as [|? ? Hn Hd]; subst. cbn [snd] in Hc.
    cbn [ins_kid]. rewrite flat_kids_cons, filter_app. destruct (beq_bytes k l) eqn:E.
    + apply beq_bytes_eq in E. subst k. rewrite flat_kids_cons.
      rewrite filter_keep_pre_eq.
      rewrite (nosame_filter s (l :: r) (flat_kids ks)) by (apply nosame_kids_notin; exact Hn).
      change ((s, l :: r, q) :: map (pre l) (filter (keep s r) (flatten c)) ++ flat_kids ks)
        with (map (pre l) ((s, r, q) :: filter (keep s r) (flatten c)) ++ flat_kids ks).
      apply Permutation_app_tail, Permutation_map, IH'. exact Hc.
    + rewrite flat_kids_cons.
      rewrite (nosame_filter s (l :: r) (map (pre k) (flatten c))) by (apply nosame_pre_ne; exact E).
      eapply Permutation_trans; [apply Permutation_app_head, IHk; exact Hd|].
      apply Permutation_sym, Permutation_middle.
Qed.

Lemma flatten_sinsert : forall ls q s n, wf n ->
  Permutation (flatten (sinsert ls (Some (q, s)) n))
              ((s, ls, q) :: filter (keep s ls) (flatten n)).
Proof.
  induction ls as [|l r IH]; intros q s [subs kids] Hwf;
    pose proof Hwf as Hwf0; apply wf_inv in Hwf as (Hs & Hk & Hkids).
  - cbn [sinsert s_subs s_kids]. rewrite !flatten_eq, filter_app.
    rewrite (nosame_filter s [] (flat_kids kids)) by apply nosame_kids_nil.
    change ((s, [], q) :: filter (keep s []) (map own subs) ++ flat_kids kids)
      with (((s, [], q) :: filter (keep s []) (map own subs)) ++ flat_kids kids).
    apply Permutation_app_tail, upd_sub_perm. exact Hs.
  - rewrite sinsert_cons. cbn [s_subs s_kids]. rewrite !flatten_eq, filter_app.
    rewrite (nosame_filter s (l :: r) (map own subs)) by apply nosame_own_cons.
    eapply Permutation_trans.
    + apply Permutation_app_head. apply ins_kid_perm; [exact Hk | | exact Hkids].
      intros c Hc. apply IH. exact Hc.
    + apply Permutation_sym, Permutation_middle.
Qed.

(* ---------- sremove ---------- *)

Lemma nosame_own_notin : forall s subs, ~ In s (map fst subs) -> nosame s [] (map own subs).
Proof.
  intros s subs Hn. apply Forall_forall. intros e He. apply in_map_iff in He as (x & <- & Hx).
  rewrite same_sub_own_nil. apply N.eqb_neq. intro Ex. apply Hn. rewrite <- Ex.
  apply in_map. exact Hx.
Qed.

Lemma nosame_pre_eq : forall s k r X, nosame s r X -> nosame s (k :: r) (map (pre k) X).
Proof.
  intros s k r X H. apply Forall_forall. intros e He. apply in_map_iff in He as (x & <- & Hx).
  rewrite same_sub_pre_cons. unfold nosame in H. rewrite Forall_forall in H. rewrite (H x Hx). apply andb_false_r.
Qed.

Lemma del_sub_ok : forall subs s, NoDup (map fst subs) ->
  match del_sub subs s with
  | Some r' => NoDup (map fst r') /\ incl (map fst r') (map fst subs)
               /\ existsb (same_sub s []) (map own subs) = true
               /\ map own r' = filter (keep s []) (map own subs)
  | None => nosame s [] (map own subs)
  end.
Proof.
  induction subs as [|[s' q'] subs IH]; intros s H.
  - constructor.
  - cbn [map fst] in H. inversion H as [|? ? Hn Hd]; subst.
    cbn [del_sub]. destruct (s' =? s) eqn:E.
    + split; [exact Hd|]. split; [apply incl_tl, incl_refl|].
      cbn [map existsb filter]. unfold keep at 1. rewrite same_sub_own_nil. cbn [fst].
      rewrite E. cbn [negb orb]. split; [reflexivity|].
      apply N.eqb_eq in E. subst s'.
      rewrite nosame_filter; [reflexivity | apply nosame_own_notin; exact Hn].
    + specialize (IH s Hd). destruct (del_sub subs s) as [r'|]; cbn [option_map].
      * destruct IH as (H1 & H2 & H3 & H4). split; [|split; [|split]].
        -- cbn [map fst]. constructor; [|exact H1]. intro Hin. apply Hn, H2, Hin.
        -- cbn [map fst]. intros x [Hx | Hx]; [left; exact Hx | right; apply H2, Hx].
        -- cbn [map existsb]. rewrite H3. apply orb_true_r.
        -- cbn [map filter]. unfold keep at 1. rewrite same_sub_own_nil. cbn [fst].
           rewrite E. cbn [negb]. rewrite H4. reflexivity.
      * constructor; [|exact IH]. rewrite same_sub_own_nil. exact E.
Qed.

Definition rem_spec (s : sub) (ls : list bytes) (n : snode) (res : option snode) : Prop :=
  match res with
  | Some n' => wf n' /\ existsb (same_sub s ls) (flatten n) = true
               /\ flatten n' = filter (keep s ls) (flatten n)
  | None => nosame s ls (flatten n)
  end.

Lemma prune_cases : forall (k : bytes) (c' : snode) (ks : list (bytes * snode)),
  let res := match c' with
             | SNode [] [] => Some ks
             | _ => Some ((k, c') :: ks)
             end in
  (res = Some ks /\ flatten c' = []) \/ res = Some ((k, c') :: ks).
Proof. intros k [[|sq ss] [|kc kk]] ks; cbn; auto. Qed.

Lemma rem_kid_ok : forall s l r ks,
  NoDup (map fst ks) -> Forall (fun kc => wf (snd kc)) ks ->
  (forall c, wf c -> rem_spec s r c (sremove r (Some s) c)) ->
  match rem_kid l (sremove r (Some s)) ks with
  | Some ks' => NoDup (map fst ks') /\ incl (map fst ks') (map fst ks)
                /\ Forall (fun kc => wf (snd kc)) ks'
                /\ existsb (same_sub s (l :: r)) (flat_kids ks) = true
                /\ flat_kids ks' = filter (keep s (l :: r)) (flat_kids ks)
  | None => nosame s (l :: r) (flat_kids ks)
  end.
Proof.
  intros s l r ks Hnd Hwf IH. induction Hwf as [|[k c] ks Hc Hks IHk].
  - constructor.
  - cbn [map fst] in Hnd. inversion Hnd as [|? ? Hn Hd]; subst. cbn [snd] in Hc.
    cbn [rem_kid]. rewrite flat_kids_cons. destruct (beq_bytes k l) eqn:E.
    + apply beq_bytes_eq in E. subst k. specialize (IH c Hc). unfold rem_spec in IH.
      destruct (sremove r (Some s) c) as [c'|].
      * destruct IH as (Hw' & Hex & Hfl).
        assert (Hrest : filter (keep s (l :: r)) (flat_kids ks) = flat_kids ks)
          by (apply nosame_filter, nosame_kids_notin; exact Hn).
        assert (Hexx : existsb (same_sub s (l :: r)) (map (pre l) (flatten c) ++ flat_kids ks) = true)
          by (rewrite existsb_app, existsb_same_pre_eq, Hex; reflexivity).
        destruct (prune_cases l c' ks) as [[Hres Hemp] | Hres]; cbn zeta in Hres; rewrite Hres.
        -- split; [exact Hd|]. split; [apply incl_tl, incl_refl|]. split; [exact Hks|].
           split; [exact Hexx|].
           rewrite filter_app, filter_keep_pre_eq, <- Hfl, Hemp, Hrest. reflexivity.
        -- split; [cbn [map fst]; constructor; assumption|]. split; [apply incl_refl|].
           split; [constructor; assumption|]. split; [exact Hexx|].
           rewrite flat_kids_cons, filter_app, filter_keep_pre_eq, <- Hfl, Hrest. reflexivity.
      * unfold nosame. apply Forall_app. split; [apply nosame_pre_eq; exact IH|].
        apply nosame_kids_notin; exact Hn.
    + specialize (IHk Hd). destruct (rem_kid l (sremove r (Some s)) ks) as [ks'|]; cbn [option_map].
      * destruct IHk as (H1 & H2 & H3 & H4 & H5). split; [|split; [|split; [|split]]].
        -- cbn [map fst]. constructor; [|exact H1]. intro Hin. apply Hn, H2, Hin.
        -- cbn [map fst]. intros x [Hx | Hx]; [left; exact Hx | right; apply H2, Hx].
        -- constructor; assumption.
        -- rewrite existsb_app, H4. apply orb_true_r.
        -- rewrite flat_kids_cons, filter_app, <- H5.
           rewrite nosame_filter by (apply nosame_pre_ne; exact E). reflexivity.
      * unfold nosame. apply Forall_app. split; [apply nosame_pre_ne; exact E | exact IHk].
Qed.

Lemma sremove_ok : forall ls s n, wf n -> rem_spec s ls n (sremove ls (Some s) n).
Proof.
  induction ls as [|l r IH]; intros s [subs kids] Hwf;
    apply wf_inv in Hwf as (Hs & Hk & Hkids).
  - cbn [sremove s_subs s_kids]. pose proof (del_sub_ok subs s Hs) as Hd.
    destruct (del_sub subs s) as [r'|]; cbn [option_map]; unfold rem_spec; rewrite !flatten_eq.
    + destruct Hd as (H1 & H2 & H3 & H4). split; [constructor; assumption|]. split.
      * rewrite existsb_app, H3. reflexivity.
      * rewrite filter_app, H4, (nosame_filter s [] (flat_kids kids)) by apply nosame_kids_nil.
        reflexivity.
    + unfold nosame. apply Forall_app. split; [exact Hd | apply nosame_kids_nil].
  - rewrite sremove_cons. cbn [s_subs s_kids].
    pose proof (rem_kid_ok s l r kids Hk Hkids (fun c Hc => IH s c Hc)) as Hr.
    destruct (rem_kid l (sremove r (Some s)) kids) as [ks'|]; cbn [option_map];
      unfold rem_spec; rewrite !flatten_eq.
    + destruct Hr as (H1 & H2 & H3 & H4 & H5). split; [constructor; assumption|]. split.
      * rewrite existsb_app, H4. apply orb_true_r.
      * rewrite filter_app, H5, (nosame_filter s (l :: r) (map own subs)) by apply nosame_own_cons.
        reflexivity.
    + unfold nosame. apply Forall_app. split; [apply nosame_own_cons | exact Hr].
Qed.

Lemma s_subs_sremove_cons : forall l r s n n',
  sremove (l :: r) s n = Some n' -> s_subs n' = s_subs n.
Proof.
  intros l r s n n' H. rewrite sremove_cons in H.
  destruct (rem_kid l (sremove r s) (s_kids n)); cbn [option_map] in H; [|discriminate].
  inv H. reflexivity.
Qed.

(* ---------- the abstract list: Permutation-invariance ---------- *)

Lemma perm_filter : forall {A} (p : A -> bool) (a b : list A),
  Permutation a b -> Permutation (filter p a) (filter p b).
Proof.
  intros A p a b H. induction H as [| x a b H IH | x y a | a b c H1 IH1 H2 IH2].
  - constructor.
  - cbn [filter]. destruct (p x); [apply perm_skip|]; exact IH.
  - cbn [filter]. destruct (p x), (p y); try apply Permutation_refl. apply perm_swap.
  - eapply Permutation_trans; eassumption.
Qed.

Lemma perm_existsb : forall {A} (p : A -> bool) (a b : list A),
  Permutation a b -> existsb p a = existsb p b.
Proof.
  intros A p a b H. induction H as [| x a b H IH | x y a | a b c H1 IH1 H2 IH2].
  - reflexivity.
  - cbn [existsb]. rewrite IH. reflexivity.
  - cbn [existsb]. destruct (p x), (p y); reflexivity.
  - congruence.
Qed.

Lemma perm_asubs : forall a b t q,
  Permutation a b -> Permutation (a_subscribers a t q) (a_subscribers b t q).
Proof. intros a b t q H. rewrite !asubs_unfold. apply Permutation_map, perm_filter, H. Qed.

Lemma nodup_map_filter : forall {A B} (f : A -> B) (p : A -> bool) (l : list A),
  NoDup (map f l) -> NoDup (map f (filter p l)).
Proof.
  intros A B f p l. induction l as [|x l IH]; intro H; [constructor|].
  cbn [map] in H. inversion H as [|? ? Hn Hd]; subst. cbn [filter].
  destruct (p x); [|apply IH; exact Hd]. cbn [map]. constructor; [|apply IH; exact Hd].
  intro Hin. apply Hn. apply in_map_iff in Hin as (y & Hy & Hin). apply filter_In in Hin as [Hin _].
  rewrite <- Hy. apply in_map. exact Hin.
Qed.

Lemma nosame_notin : forall s f (a : list asub), ~ In (s, f) (map fst a) -> nosame s f a.
Proof.
  intros s f a Hn. apply Forall_forall. intros e He.
  destruct (same_sub s f e) eqn:E; [|reflexivity]. apply same_sub_key in E.
  exfalso. apply Hn. rewrite <- E. apply in_map. exact He.
Qed.

Lemma notin_filter_keep : forall s f (a : list asub), ~ In (s, f) (map fst (filter (keep s f) a)).
Proof.
  intros s f a Hin. apply in_map_iff in Hin as (e & He & Hin). apply filter_In in Hin as [_ Hk].
  apply same_sub_key in He. unfold keep in Hk. rewrite He in Hk. discriminate.
Qed.

Lemma a_subscribe_perm : forall a s f q, NoDup (map fst a) ->
  Permutation (a_subscribe a s f q) ((s, f, q) :: filter (keep s f) a).
Proof.
  induction a as [|e a IH]; intros s f q H; [apply Permutation_refl|].
  cbn [map] in H. inversion H as [|? ? Hn Hd]; subst.
  cbn [a_subscribe filter]. unfold keep at 1. destruct (same_sub s f e) eqn:E; cbn [negb].
  - apply same_sub_key in E. rewrite E in Hn.
    rewrite nosame_filter by (apply nosame_notin; exact Hn). apply Permutation_refl.
  - eapply Permutation_trans; [apply perm_skip, IH; exact Hd | apply perm_swap].
Qed.

Lemma a_subscribe_nodup : forall a s f q, NoDup (map fst a) -> NoDup (map fst (a_subscribe a s f q)).
Proof.
  intros a s f q H.
  eapply Permutation_NoDup.
  - apply Permutation_map, Permutation_sym, a_subscribe_perm. exact H.
  - cbn [map fst]. constructor; [apply notin_filter_keep | apply nodup_map_filter; exact H].
Qed.

(* ---------- the provider functions in normal form ---------- *)

Lemma t_subscribe_good : forall st t q s,
  valid_qos q = true -> (s =? 0) = false -> good_filter t = true ->
  t_subscribe st t q s =
  (mkStore (sinsert (split_sep t) (Some (capq q, s)) (sroot st)) (rroot st), Some (capq q)).
Proof.
  intros st t q s Hq Hs Hg. unfold t_subscribe. rewrite Hq, Hs. cbn [negb].
  pose proof (good_filter_nonempty t Hg) as Hne. destruct t as [|c t]; [congruence|].
  cbn [length Nat.eqb]. rewrite (levels_good _ Hg). reflexivity.
Qed.

Lemma t_subscribe_other : forall st t q s,
  valid_qos q = true -> (s =? 0) = false -> good_filter t = false -> refused t = true ->
  exists ls, t_subscribe st t q s = (mkStore (sinsert ls None (sroot st)) (rroot st), None).
Proof.
  intros st t q s Hq Hs Hg Hr. unfold t_subscribe. rewrite Hq, Hs. cbn [negb].
  destruct t as [|c t].
  - exists []. destruct st. reflexivity.
  - cbn [length Nat.eqb]. unfold refused in Hr. cbn [length Nat.eqb] in Hr. rewrite orb_false_r in Hr.
    destruct (levels_lazy (c :: t)) as [ls bad]. cbn [snd] in Hr. subst bad.
    exists ls. reflexivity.
Qed.

Lemma sroot_retain : forall st m, sroot (fst (t_retain st m)) = sroot st.
Proof.
  intros st m. unfold t_retain. destruct (levels_lazy (r_topic m)) as [ls bad].
  destruct bad, (length (r_payload m) =? 0)%nat; try reflexivity.
  destruct (rremove ls (rroot st)); reflexivity.
Qed.

Lemma levels_lazy_nil : levels_lazy [] = ([], false).
Proof. reflexivity. Qed.

(* ---------- the invariant over histories ---------- *)

Definition inv (st : store) (a : list asub) : Prop :=
  wf (sroot st) /\ s_subs (sroot st) = [] /\ NoDup (map fst a) /\ Permutation (flatten (sroot st)) a.

Lemma inv_init : inv store0 [].
Proof. split; [apply wf_empty|]. split; [reflexivity|]. split; constructor. Qed.

Lemma inv_sub : forall st a t q s,
  op_in_domain (OSub t q s) = true -> inv st a ->
  inv (fst (t_subscribe st t q s)) (a_apply a (OSub t q s)).
Proof.
  intros st a t q s Hd Hinv. pose proof Hinv as (Hwf & Hroot & Hnd & Hperm).
  cbn [op_in_domain] in Hd. cbn [a_apply].
  destruct (valid_qos q) eqn:Eq; [|unfold t_subscribe; rewrite Eq; exact Hinv].
  destruct (s =? 0) eqn:Es; [unfold t_subscribe; rewrite Eq, Es; exact Hinv|].
  cbn [negb andb]. destruct (good_filter t) eqn:Eg.
  - rewrite t_subscribe_good by assumption. unfold inv. cbn [fst sroot].
    split; [apply wf_sinsert; exact Hwf|]. split; [|split].
    + destruct (split_sep t) as [|l r] eqn:El; [exfalso; eapply split_sep_nonempty; eauto|].
      rewrite s_subs_sinsert_cons. exact Hroot.
    + apply a_subscribe_nodup. exact Hnd.
    + eapply Permutation_trans; [apply flatten_sinsert; exact Hwf|].
      eapply Permutation_trans; [apply perm_skip, perm_filter, Hperm|].
      apply Permutation_sym, a_subscribe_perm. exact Hnd.
  - cbn [orb] in Hd. destruct (t_subscribe_other st t q s Eq Es Eg Hd) as [ls Hls].
    rewrite Hls. unfold inv. cbn [fst sroot]. split; [apply wf_sinsert; exact Hwf|]. split; [|split].
    + rewrite s_subs_sinsert_none. exact Hroot.
    + exact Hnd.
    + rewrite flatten_sinsert_none. exact Hperm.
Qed.

(* t_unsubscribe in the domain: result and new trie *)
Lemma t_unsubscribe_dom : forall st a t s,
  op_in_domain (OUnsub t s) = true -> inv st a ->
  snd (t_unsubscribe st t s) =
    (good_filter t && match a_unsubscribe a s (split_sep t) with Some _ => true | None => false end)
  /\ inv (fst (t_unsubscribe st t s)) (a_apply a (OUnsub t s)).
Proof.
  intros st a t s Hd Hinv. pose proof Hinv as (Hwf & Hroot & Hnd & Hperm).
  cbn [op_in_domain] in Hd. apply andb_true_iff in Hd as [Hs Hd].
  cbn [a_apply]. rewrite Hs. cbn [andb].
  assert (Es : (s =? 0) = false) by (destruct (s =? 0); [discriminate | reflexivity]).
  unfold t_unsubscribe. rewrite Es.
  destruct (good_filter t) eqn:Eg.
  - rewrite (levels_good _ Eg). cbn [andb].
    pose proof (sremove_ok (split_sep t) s (sroot st) Hwf) as Hrem. unfold rem_spec in Hrem.
    unfold a_unsubscribe.
    rewrite <- (perm_existsb (same_sub s (split_sep t)) _ _ Hperm).
    destruct (sremove (split_sep t) (Some s) (sroot st)) as [n'|] eqn:Er.
    + destruct Hrem as (Hw' & Hex & Hfl). rewrite Hex. unfold inv. cbn [fst snd sroot].
      split; [reflexivity|]. split; [exact Hw'|]. split; [|split].
      * destruct (split_sep t) as [|l r] eqn:El; [exfalso; eapply split_sep_nonempty; eauto|].
        rewrite (s_subs_sremove_cons _ _ _ _ _ Er). exact Hroot.
      * apply nodup_map_filter. exact Hnd.
      * rewrite Hfl. apply (perm_filter (keep s (split_sep t))). exact Hperm.
    + rewrite (nosame_existsb _ _ _ Hrem). cbn [fst snd]. split; [reflexivity | exact Hinv].
  - cbn [orb andb] in Hd |- *. destruct t as [|c t].
    + rewrite levels_lazy_nil. cbn [sremove]. rewrite Hroot. cbn [del_sub option_map fst snd].
      split; [reflexivity | exact Hinv].
    + unfold refused in Hd. cbn [length Nat.eqb] in Hd. rewrite orb_false_r in Hd.
      destruct (levels_lazy (c :: t)) as [ls bad]. cbn [snd] in Hd. subst bad. cbn [fst snd].
      split; [reflexivity | exact Hinv].
Qed.

Lemma inv_step : forall st a o, op_in_domain o = true -> inv st a ->
  inv (apply_op st o) (a_apply a o).
Proof.
  intros st a [t q s | t s | m] Hd Hinv.
  - apply inv_sub; assumption.
  - apply t_unsubscribe_dom; assumption.
  - cbn [apply_op a_apply]. unfold inv. rewrite sroot_retain. exact Hinv.
Qed.

Lemma inv_fold : forall h st a, forallb op_in_domain h = true -> inv st a ->
  inv (fold_left apply_op h st) (fold_left a_apply h a).
Proof.
  induction h as [|o h IH]; intros st a Hd Hinv; [exact Hinv|].
  cbn [forallb] in Hd. apply andb_true_iff in Hd as [Ho Hh].
  cbn [fold_left]. apply IH; [exact Hh | apply inv_step; assumption].
Qed.

Lemma inv_run : forall h, forallb op_in_domain h = true -> inv (run_ops h) (a_run h).
Proof. intros h Hd. apply inv_fold; [exact Hd | apply inv_init]. Qed.

(* ---------- the statements ---------- *)

Lemma subscribers_partial : C06_subscribers_partial.
Proof.
  intros h t q Hd Hn Hq. destruct (inv_run h Hd) as (Hwf & Hroot & Hnd & Hperm).
  unfold t_subscribers. rewrite Hq. cbn [negb].
  rewrite (levels_good t (good_name_good_filter t Hn)).
  assert (Hlit : forallb lit_level (split_sep t) = true).
  { unfold good_name, good_name_levels in Hn. apply andb_true_iff in Hn as [_ Hn]. exact Hn. }
  rewrite (smatch_ok _ q _ Hlit Hwf). eexists. split; [reflexivity|].
  apply perm_asubs. exact Hperm.
Qed.

Lemma subscribe_result : C06_subscribe_result.
Proof.
  intros h t q s _ Hd. cbn [op_in_domain] in Hd.
  destruct (valid_qos q) eqn:Eq; [|unfold t_subscribe; rewrite Eq; reflexivity].
  destruct (s =? 0) eqn:Es; [unfold t_subscribe; rewrite Eq, Es; reflexivity|].
  cbn [negb andb]. destruct (good_filter t) eqn:Eg.
  - rewrite t_subscribe_good by assumption. reflexivity.
  - cbn [orb] in Hd. destruct (t_subscribe_other (run_ops h) t q s Eq Es Eg Hd) as [ls Hls].
    rewrite Hls. reflexivity.
Qed.

Lemma unsubscribe_result : C06_unsubscribe_result.
Proof.
  intros h t s Hh Hd. apply t_unsubscribe_dom; [exact Hd | apply inv_run; exact Hh].
Qed.

Print Assumptions subscribers_partial.
Print Assumptions subscribe_result.
Print Assumptions unsubscribe_result.
