(* C06, part 3: the retained-message trie refines the abstract retained store of Topics/Spec.v.
   rflatten enumerates (path, message); on well-formed tries (distinct child keys) whose
   messages sit at the path split_sep (r_topic m), rmatch on a good filter is the 4.7 selection,
   rinsert / rremove act like a_retain. *)
From Coq Require Import Permutation.
From Base Require Import Tactics Bytes.
From Gen Require Import Tables.
From Topics Require Import Model Spec ProofsLevels ProofsTrie.
Open Scope N_scope.

(* ---------- nested induction over rnode ---------- *)

Fixpoint rnode_ind' (P : rnode -> Prop)
  (H : forall m kids, Forall (fun kc => P (snd kc)) kids -> P (RNode m kids)) (n : rnode) : P n :=
  match n with
  | RNode m kids =>
      H m kids
        ((fix go (ks : list (bytes * rnode)) : Forall (fun kc => P (snd kc)) ks :=
            match ks with
            | [] => Forall_nil _
            | (k, c) :: ks' =>
                @Forall_cons _ (fun kc => P (snd kc)) (k, c) ks' (rnode_ind' P H c) (go ks')
            end) kids)
  end.

(* ---------- rflatten and well-formedness ---------- *)

Definition rent := (list bytes * rmsg)%type.
Definition rpre (k : bytes) (e : rent) : rent := (k :: fst e, snd e).
Definition rown (m : option rmsg) : list rent := match m with Some x => [([], x)] | None => [] end.

Fixpoint rflatten (n : rnode) : list rent :=
  let 'RNode m kids := n in
  rown m ++
  (fix go (ks : list (bytes * rnode)) : list rent :=
     match ks with
     | [] => []
     | (k, c) :: ks' => map (rpre k) (rflatten c) ++ go ks'
     end) kids.

Definition rflat_kids (ks : list (bytes * rnode)) : list rent :=
  flat_map (fun kc => map (rpre (fst kc)) (rflatten (snd kc))) ks.

Lemma rflatten_eq : forall m kids, rflatten (RNode m kids) = rown m ++ rflat_kids kids.
Proof.
  intros m kids. cbn [rflatten]. f_equal.
  induction kids as [|[k c] ks IH]; [reflexivity|].
  cbn [rflat_kids flat_map fst snd]. rewrite IH. reflexivity.
Qed.

Lemma rflat_kids_cons : forall k c ks,
  rflat_kids ((k, c) :: ks) = map (rpre k) (rflatten c) ++ rflat_kids ks.
Proof. reflexivity. Qed.

Lemma map_snd_rpre : forall k X, map snd (map (rpre k) X) = map snd X.
Proof. intros k X. rewrite map_map. reflexivity. Qed.

Lemma all_retained_eq : forall n, all_retained n = map snd (rflatten n).
Proof.
  induction n as [m kids IH] using rnode_ind'.
  rewrite rflatten_eq, map_app. cbn [all_retained]. f_equal.
  - destruct m; reflexivity.
  - induction IH as [|[k c] ks Hc Hks IHk]; [reflexivity|].
    cbn [snd] in Hc. rewrite rflat_kids_cons, map_app, map_snd_rpre, <- Hc, <- IHk. reflexivity.
Qed.

Inductive wfr : rnode -> Prop :=
| wfr_node : forall m kids,
    NoDup (map fst kids) -> Forall (fun kc => wfr (snd kc)) kids -> wfr (RNode m kids).

Lemma wfr_empty : wfr r_empty.
Proof. constructor; constructor. Qed.

Lemma wfr_inv : forall m kids, wfr (RNode m kids) ->
  NoDup (map fst kids) /\ Forall (fun kc => wfr (snd kc)) kids.
Proof. intros m kids H. inversion H; subst. auto. Qed.

(* ---------- the recursions over the children as stand-alone functions ---------- *)

Fixpoint rins_kid (l : bytes) (f : rnode -> rnode) (ks : list (bytes * rnode)) : list (bytes * rnode) :=
  match ks with
  | [] => [(l, f r_empty)]
  | (k, c) :: ks' => if beq_bytes k l then (k, f c) :: ks' else (k, c) :: rins_kid l f ks'
  end.

Lemma rinsert_cons : forall l r m n,
  rinsert (l :: r) m n = RNode (r_msg n) (rins_kid l (rinsert r m) (r_kids n)).
Proof.
  intros l r m n. cbn [rinsert]. f_equal.
  induction (r_kids n) as [|[k c] ks IH]; [reflexivity|].
  cbn [rins_kid]. rewrite <- IH. reflexivity.
Qed.

Fixpoint rrem_kid (l : bytes) (f : rnode -> option rnode) (ks : list (bytes * rnode))
  : option (list (bytes * rnode)) :=
  match ks with
  | [] => None
  | (k, c) :: ks' =>
      if beq_bytes k l then
        match f c with
        | None => None
        | Some c' =>
            match c' with
            | RNode None [] => Some ks'
            | _ => Some ((k, c') :: ks')
            end
        end
      else option_map (cons (k, c)) (rrem_kid l f ks')
  end.

Lemma rremove_cons : forall l r n,
  rremove (l :: r) n = option_map (RNode (r_msg n)) (rrem_kid l (rremove r) (r_kids n)).
Proof.
  intros l r n. cbn [rremove]. f_equal.
  induction (r_kids n) as [|[k c] ks IH]; [reflexivity|].
  cbn [rrem_kid]. rewrite <- IH. reflexivity.
Qed.

Fixpoint rmatch_all (f : rnode -> option (list rmsg)) (ks : list (bytes * rnode)) : option (list rmsg) :=
  match ks with
  | [] => Some []
  | (_, c) :: ks' =>
      match f c, rmatch_all f ks' with
      | Some a, Some b => Some (a ++ b)
      | _, _ => None
      end
  end.

Lemma rmatch_cons : forall l r bad n,
  rmatch (l :: r) bad n =
  if beq_bytes l [MWC] then Some (all_retained n)
  else if beq_bytes l [SWC] then rmatch_all (rmatch r bad) (r_kids n)
  else match find_kid l (r_kids n) with
       | Some c => rmatch r bad c
       | None => Some []
       end.
Proof.
  intros l r bad n. cbn [rmatch].
  destruct (beq_bytes l [MWC]); [reflexivity|].
  destruct (beq_bytes l [SWC]); [|reflexivity].
  induction (r_kids n) as [|[k c] ks IH]; [reflexivity|].
  cbn [rmatch_all]. rewrite <- IH. reflexivity.
Qed.

(* ---------- rmatch = the 4.7 selection of rflatten ---------- *)

Definition rsel (f : list bytes) (X : list rent) : list rmsg :=
  map snd (filter (fun e => fmatch f (fst e)) X).

Lemma rsel_app : forall f a b, rsel f (a ++ b) = rsel f a ++ rsel f b.
Proof. intros. unfold rsel. rewrite filter_app, map_app. reflexivity. Qed.

Lemma rsel_pre : forall f k X,
  rsel f (map (rpre k) X) = map snd (filter (fun e => fmatch f (k :: fst e)) X).
Proof. intros f k X. unfold rsel. rewrite filter_map_comm, map_snd_rpre. reflexivity. Qed.

Lemma filter_all : forall {A} (l : list A), filter (fun _ => true) l = l.
Proof. intros A l. induction l as [|x l IH]; [reflexivity|]. cbn. rewrite IH. reflexivity. Qed.

Lemma rsel_mwc : forall X, rsel [[MWC]] X = map snd X.
Proof.
  intros X. unfold rsel. rewrite (filter_ext _ (fun _ => true)); [rewrite filter_all; reflexivity|].
  intros e. reflexivity.
Qed.

Lemma rsel_own_cons : forall l r m, beq_bytes l [MWC] = false -> rsel (l :: r) (rown m) = [].
Proof.
  intros l r m Hl. destruct m; [|reflexivity]. unfold rsel. cbn [rown filter fst fmatch].
  rewrite Hl. reflexivity.
Qed.

Lemma rsel_pre_swc : forall r k X, rsel ([SWC] :: r) (map (rpre k) X) = rsel r X.
Proof.
  intros r k X. rewrite rsel_pre. reflexivity.
Qed.

Lemma rsel_pre_lit : forall l r k X,
  beq_bytes l [MWC] = false -> beq_bytes l [SWC] = false ->
  rsel (l :: r) (map (rpre k) X) = if beq_bytes k l then rsel r X else [].
Proof.
  intros l r k X Hm Hs. rewrite rsel_pre. rewrite (beq_bytes_sym k l).
  destruct (beq_bytes l k) eqn:E.
  - unfold rsel. f_equal. apply filter_ext. intros e.
    rewrite fmatch_cons_cons, Hm, Hs, E. reflexivity.
  - rewrite (filter_ext _ (fun _ => false)); [rewrite filter_none; reflexivity|].
    intros e. rewrite fmatch_cons_cons, Hm, Hs, E. reflexivity.
Qed.

Lemma find_kid_cons_r : forall (l k : bytes) (c : rnode) ks,
  find_kid l ((k, c) :: ks) = if beq_bytes k l then Some c else find_kid l ks.
Proof.
  intros l k c ks. unfold find_kid. cbn [find fst]. destruct (beq_bytes k l); reflexivity.
Qed.

Lemma rsel_kids_notin : forall l r ks,
  beq_bytes l [MWC] = false -> beq_bytes l [SWC] = false ->
  ~ In l (map fst ks) -> rsel (l :: r) (rflat_kids ks) = [].
Proof.
  intros l r ks Hm Hs Hn. induction ks as [|[k c] ks IH]; [reflexivity|].
  cbn [map fst In] in Hn. rewrite rflat_kids_cons, rsel_app, rsel_pre_lit by assumption.
  assert (E : beq_bytes k l = false) by (apply beq_bytes_neq; tauto).
  rewrite E. apply IH. tauto.
Qed.

Lemma rsel_kids_lit : forall l r ks,
  beq_bytes l [MWC] = false -> beq_bytes l [SWC] = false -> NoDup (map fst ks) ->
  rsel (l :: r) (rflat_kids ks) =
  match find_kid l ks with Some c => rsel r (rflatten c) | None => [] end.
Proof.
  intros l r ks Hm Hs Hnd. induction ks as [|[k c] ks IH]; [reflexivity|].
  cbn [map fst] in Hnd. inversion Hnd as [|? ? Hk Hnd']; subst.
  rewrite rflat_kids_cons, rsel_app, rsel_pre_lit, find_kid_cons_r by assumption.
  destruct (beq_bytes k l) eqn:E.
  - apply beq_bytes_eq in E. subst k. rewrite rsel_kids_notin by assumption. apply app_nil_r.
  - apply IH. exact Hnd'.
Qed.

Lemma rmatch_all_ok : forall r f ks,
  Forall (fun kc => f (snd kc) = Some (rsel r (rflatten (snd kc)))) ks ->
  rmatch_all f ks = Some (rsel ([SWC] :: r) (rflat_kids ks)).
Proof.
  intros r f ks H. induction H as [|[k c] ks Hc Hks IH]; [reflexivity|].
  cbn [snd] in Hc. cbn [rmatch_all]. rewrite Hc, IH, rflat_kids_cons, rsel_app, rsel_pre_swc.
  reflexivity.
Qed.

Lemma rsel_nil_kids : forall ks, rsel [] (rflat_kids ks) = [].
Proof.
  intros ks. induction ks as [|[k c] ks IH]; [reflexivity|].
  rewrite rflat_kids_cons, rsel_app, IH, rsel_pre, app_nil_r.
  rewrite (filter_ext _ (fun _ => false)); [rewrite filter_none; reflexivity|].
  intros e. reflexivity.
Qed.

Lemma mwc_last_tail : forall l r, mwc_last (l :: r) = true -> mwc_last r = true.
Proof.
  intros l [|l2 r] H; [reflexivity|]. cbn [mwc_last] in H.
  apply andb_true_iff in H as [_ H]. exact H.
Qed.

Lemma mwc_last_head : forall r, mwc_last ([MWC] :: r) = true -> r = [].
Proof. intros [|l2 r] H; [reflexivity|]. cbn in H. discriminate. Qed.

Lemma rmatch_ok : forall ls n,
  mwc_last ls = true -> wfr n -> rmatch ls false n = Some (rsel ls (rflatten n)).
Proof.
  induction ls as [|l r IH]; intros [m kids] Hml Hwf;
    pose proof Hwf as Hwf0; apply wfr_inv in Hwf as (Hk & Hkids).
  - cbn [rmatch r_msg]. rewrite rflatten_eq, rsel_app.
    rewrite rsel_nil_kids, app_nil_r. destruct m; reflexivity.
  - rewrite rmatch_cons. cbn [r_kids].
    destruct (beq_bytes l [MWC]) eqn:Em.
    + apply beq_bytes_eq in Em. subst l. apply mwc_last_head in Hml. subst r.
      rewrite rsel_mwc, all_retained_eq. reflexivity.
    + pose proof (mwc_last_tail l r Hml) as Hmr.
      rewrite rflatten_eq, rsel_app, rsel_own_cons by exact Em. cbn [app].
      destruct (beq_bytes l [SWC]) eqn:Es.
      * apply beq_bytes_eq in Es. subst l. apply rmatch_all_ok.
        eapply Forall_impl; [|exact Hkids]. intros kc Hw. apply IH; assumption.
      * rewrite rsel_kids_lit by assumption.
        destruct (find_kid l kids) as [c|] eqn:Ef; [|reflexivity].
        apply IH; [exact Hmr|].
        unfold find_kid in Ef. destruct (find (fun kc => beq_bytes (fst kc) l) kids) as [kc|] eqn:Eff;
          [|discriminate]. inv Ef. apply find_some in Eff as [Hin _].
        rewrite Forall_forall in Hkids. apply Hkids. exact Hin.
Qed.

(* ---------- entries at a given path ---------- *)

Definition rkeep (f : list bytes) (e : rent) : bool := negb (beq_levels (fst e) f).
Definition rnone (f : list bytes) (X : list rent) : Prop :=
  Forall (fun e => beq_levels (fst e) f = false) X.

Lemma rnone_filter : forall f X, rnone f X -> filter (rkeep f) X = X.
Proof.
  intros f X H. induction H as [|e X He HX IH]; [reflexivity|].
  cbn [filter]. unfold rkeep at 1. rewrite He. cbn [negb]. rewrite IH. reflexivity.
Qed.

Lemma rkeep_pre : forall k l r e, rkeep (l :: r) (rpre k e) = negb (beq_bytes k l && negb (rkeep r e)).
Proof.
  intros k l r e. unfold rkeep, rpre. cbn [fst beq_levels]. rewrite negb_involutive. reflexivity.
Qed.

Lemma rnone_pre_nil : forall k X, rnone [] (map (rpre k) X).
Proof.
  intros k X. apply Forall_forall. intros e He. apply in_map_iff in He as (x & <- & _). reflexivity.
Qed.

Lemma rnone_pre_ne : forall k l r X, beq_bytes k l = false -> rnone (l :: r) (map (rpre k) X).
Proof.
  intros k l r X Hk. apply Forall_forall. intros e He. apply in_map_iff in He as (x & <- & _).
  unfold rpre. cbn [fst beq_levels]. rewrite Hk. reflexivity.
Qed.

Lemma rnone_pre_eq : forall k r X, rnone r X -> rnone (k :: r) (map (rpre k) X).
Proof.
  intros k r X H. apply Forall_forall. intros e He. apply in_map_iff in He as (x & <- & Hx).
  unfold rpre. cbn [fst beq_levels]. unfold rnone in H. rewrite Forall_forall in H.
  rewrite (H x Hx). apply andb_false_r.
Qed.

Lemma rnone_kids_nil : forall ks, rnone [] (rflat_kids ks).
Proof.
  intros ks. apply Forall_forall. intros e He. unfold rflat_kids in He.
  apply in_flat_map in He as (kc & _ & He). apply in_map_iff in He as (x & <- & _). reflexivity.
Qed.

Lemma rnone_kids_notin : forall l r ks, ~ In l (map fst ks) -> rnone (l :: r) (rflat_kids ks).
Proof.
  intros l r ks Hn. apply Forall_forall. intros e He. unfold rflat_kids in He.
  apply in_flat_map in He as (kc & Hkc & He). apply in_map_iff in He as (x & <- & _).
  unfold rpre. cbn [fst beq_levels].
  destruct (beq_bytes (fst kc) l) eqn:E; [|reflexivity].
  apply beq_bytes_eq in E. exfalso. apply Hn. rewrite <- E. apply in_map. exact Hkc.
Qed.

Lemma rnone_own_cons : forall l r m, rnone (l :: r) (rown m).
Proof. intros l r [x|]; repeat constructor. Qed.

Lemma filter_rkeep_own_nil : forall m, filter (rkeep []) (rown m) = [].
Proof. intros [x|]; reflexivity. Qed.

Lemma filter_rkeep_pre_eq : forall k r X,
  filter (rkeep (k :: r)) (map (rpre k) X) = map (rpre k) (filter (rkeep r) X).
Proof.
  intros k r X. rewrite filter_map_comm. f_equal. apply filter_ext. intros e.
  rewrite rkeep_pre, beq_bytes_refl. cbn [andb]. apply negb_involutive.
Qed.

(* ---------- rinsert ---------- *)

Lemma in_rins_kid : forall l f ks x,
  In x (map fst (rins_kid l f ks)) -> x = l \/ In x (map fst ks).
Proof.
  intros l f ks x. induction ks as [|[k c] ks IH]; intro H.
  - cbn in H. destruct H as [H | []]. auto.
  - cbn [rins_kid] in H. destruct (beq_bytes k l) eqn:E.
    + right. exact H.
    + cbn [map fst In] in H |- *. destruct H as [H | H]; [auto|].
      apply IH in H. tauto.
Qed.

Lemma nodup_rins_kid : forall l f ks,
  NoDup (map fst ks) -> NoDup (map fst (rins_kid l f ks)).
Proof.
  intros l f ks. induction ks as [|[k c] ks IH]; intro H.
  - cbn. constructor; [intros []|constructor].
  - cbn [map fst] in H. inversion H as [|? ? Hn Hd]; subst.
    cbn [rins_kid]. destruct (beq_bytes k l) eqn:E.
    + cbn [map fst]. constructor; assumption.
    + cbn [map fst]. constructor; [|apply IH; exact Hd].
      intro Hin. apply in_rins_kid in Hin as [Hin | Hin]; [|contradiction].
      subst. rewrite beq_bytes_refl in E. discriminate.
Qed.

Lemma wfr_rinsert : forall ls m n, wfr n -> wfr (rinsert ls m n).
Proof.
  induction ls as [|l r IH]; intros m [m0 kids] Hwf.
  - cbn [rinsert]. destruct m as [x|]; [|exact Hwf].
    apply wfr_inv in Hwf as (Hk & Hkids). cbn [r_kids]. constructor; assumption.
  - rewrite rinsert_cons. cbn [r_msg r_kids].
    apply wfr_inv in Hwf as (Hk & Hkids).
    constructor; [apply nodup_rins_kid; exact Hk|].
    clear Hk. induction Hkids as [|[k c] ks Hc Hks IHk].
    + cbn [rins_kid]. constructor; [|constructor]. cbn [snd]. apply IH. apply wfr_empty.
    + cbn [rins_kid]. destruct (beq_bytes k l).
      * constructor; [|exact Hks]. cbn [snd] in *. apply IH. exact Hc.
      * constructor; [exact Hc | exact IHk].
Qed.

Lemma rflatten_rinsert_none : forall ls n, rflatten (rinsert ls None n) = rflatten n.
Proof.
  induction ls as [|l r IH]; intros [m0 kids]; [reflexivity|].
  rewrite rinsert_cons. cbn [r_msg r_kids]. rewrite !rflatten_eq. f_equal.
  induction kids as [|[k c] ks IHk].
  - cbn [rins_kid]. rewrite rflat_kids_cons, IH. reflexivity.
  - cbn [rins_kid]. destruct (beq_bytes k l).
    + rewrite !rflat_kids_cons, IH. reflexivity.
    + rewrite !rflat_kids_cons, IHk. reflexivity.
Qed.

Lemma rins_kid_perm : forall x l r ks,
  NoDup (map fst ks) ->
  (forall c, wfr c -> Permutation (rflatten (rinsert r (Some x) c))
                                  ((r, x) :: filter (rkeep r) (rflatten c))) ->
  Forall (fun kc => wfr (snd kc)) ks ->
  Permutation (rflat_kids (rins_kid l (rinsert r (Some x)) ks))
              ((l :: r, x) :: filter (rkeep (l :: r)) (rflat_kids ks)).
Proof.
  intros x l r ks Hnd IH' Hwf.
  induction Hwf as [|[k c] ks Hc Hks IHk].
  - cbn [rins_kid]. rewrite rflat_kids_cons. cbn [rflat_kids flat_map filter].
    rewrite app_nil_r.
    eapply Permutation_trans; [apply Permutation_map, IH', wfr_empty|].
    cbn. apply Permutation_refl.
  - cbn [map fst] in Hnd. inversion Hnd as [|? ? Hn Hd]; subst. cbn [snd] in Hc.
    cbn [rins_kid]. rewrite rflat_kids_cons, filter_app. destruct (beq_bytes k l) eqn:E.
    + apply beq_bytes_eq in E. subst k. rewrite rflat_kids_cons.
      rewrite filter_rkeep_pre_eq.
      rewrite (rnone_filter (l :: r) (rflat_kids ks)) by (apply rnone_kids_notin; exact Hn).
      change ((l :: r, x) :: map (rpre l) (filter (rkeep r) (rflatten c)) ++ rflat_kids ks)
        with (map (rpre l) ((r, x) :: filter (rkeep r) (rflatten c)) ++ rflat_kids ks).
      apply Permutation_app_tail, Permutation_map, IH'. exact Hc.
    + rewrite rflat_kids_cons.
      rewrite (rnone_filter (l :: r) (map (rpre k) (rflatten c))) by (apply rnone_pre_ne; exact E).
      eapply Permutation_trans; [apply Permutation_app_head, IHk; exact Hd|].
      apply Permutation_sym, Permutation_middle.
Qed.

Lemma rflatten_rinsert : forall ls x n, wfr n ->
  Permutation (rflatten (rinsert ls (Some x) n)) ((ls, x) :: filter (rkeep ls) (rflatten n)).
Proof.
  induction ls as [|l r IH]; intros x [m0 kids] Hwf; apply wfr_inv in Hwf as (Hk & Hkids).
  - cbn [rinsert r_kids]. rewrite !rflatten_eq, filter_app, filter_rkeep_own_nil.
    rewrite (rnone_filter [] (rflat_kids kids)) by apply rnone_kids_nil.
    apply Permutation_refl.
  - rewrite rinsert_cons. cbn [r_msg r_kids]. rewrite !rflatten_eq, filter_app.
    rewrite (rnone_filter (l :: r) (rown m0)) by apply rnone_own_cons.
    eapply Permutation_trans.
    + apply Permutation_app_head. apply rins_kid_perm; [exact Hk | | exact Hkids].
      intros c Hc. apply IH. exact Hc.
    + apply Permutation_sym, Permutation_middle.
Qed.

(* ---------- rremove ---------- *)

Definition rrem_spec (ls : list bytes) (n : rnode) (res : option rnode) : Prop :=
  match res with
  | Some n' => wfr n' /\ rflatten n' = filter (rkeep ls) (rflatten n)
  | None => rnone ls (rflatten n)
  end.

Lemma rprune_cases : forall (k : bytes) (c' : rnode) (ks : list (bytes * rnode)),
  let res := match c' with
             | RNode None [] => Some ks
             | _ => Some ((k, c') :: ks)
             end in
  (res = Some ks /\ rflatten c' = []) \/ res = Some ((k, c') :: ks).
Proof. intros k [[x|] [|kc kk]] ks; cbn; auto. Qed.

Lemma rrem_kid_ok : forall l r ks,
  NoDup (map fst ks) -> Forall (fun kc => wfr (snd kc)) ks ->
  (forall c, wfr c -> rrem_spec r c (rremove r c)) ->
  match rrem_kid l (rremove r) ks with
  | Some ks' => NoDup (map fst ks') /\ incl (map fst ks') (map fst ks)
                /\ Forall (fun kc => wfr (snd kc)) ks'
                /\ rflat_kids ks' = filter (rkeep (l :: r)) (rflat_kids ks)
  | None => rnone (l :: r) (rflat_kids ks)
  end.
Proof.
  intros l r ks Hnd Hwf IH. induction Hwf as [|[k c] ks Hc Hks IHk].
  - constructor.
  - cbn [map fst] in Hnd. inversion Hnd as [|? ? Hn Hd]; subst. cbn [snd] in Hc.
    cbn [rrem_kid]. rewrite rflat_kids_cons. destruct (beq_bytes k l) eqn:E.
    + apply beq_bytes_eq in E. subst k. specialize (IH c Hc). unfold rrem_spec in IH.
      destruct (rremove r c) as [c'|].
      * destruct IH as (Hw' & Hfl).
        assert (Hrest : filter (rkeep (l :: r)) (rflat_kids ks) = rflat_kids ks)
          by (apply rnone_filter, rnone_kids_notin; exact Hn).
        destruct (rprune_cases l c' ks) as [[Hres Hemp] | Hres]; cbn zeta in Hres; rewrite Hres.
        -- split; [exact Hd|]. split; [apply incl_tl, incl_refl|]. split; [exact Hks|].
           rewrite filter_app, filter_rkeep_pre_eq, <- Hfl, Hemp, Hrest. reflexivity.
        -- split; [cbn [map fst]; constructor; assumption|]. split; [apply incl_refl|].
           split; [constructor; assumption|].
           rewrite rflat_kids_cons, filter_app, filter_rkeep_pre_eq, <- Hfl, Hrest. reflexivity.
      * unfold rnone. apply Forall_app. split; [apply rnone_pre_eq; exact IH|].
        apply rnone_kids_notin; exact Hn.
    + specialize (IHk Hd). destruct (rrem_kid l (rremove r) ks) as [ks'|]; cbn [option_map].
      * destruct IHk as (H1 & H2 & H3 & H5). split; [|split; [|split]].
        -- cbn [map fst]. constructor; [|exact H1]. intro Hin. apply Hn, H2, Hin.
        -- cbn [map fst]. intros x [Hx | Hx]; [left; exact Hx | right; apply H2, Hx].
        -- constructor; assumption.
        -- rewrite rflat_kids_cons, filter_app, <- H5.
           rewrite rnone_filter by (apply rnone_pre_ne; exact E). reflexivity.
      * unfold rnone. apply Forall_app. split; [apply rnone_pre_ne; exact E | exact IHk].
Qed.

Lemma rremove_ok : forall ls n, wfr n -> rrem_spec ls n (rremove ls n).
Proof.
  induction ls as [|l r IH]; intros [m0 kids] Hwf; apply wfr_inv in Hwf as (Hk & Hkids).
  - cbn [rremove r_kids]. unfold rrem_spec. rewrite !rflatten_eq.
    split; [constructor; assumption|].
    rewrite filter_app, filter_rkeep_own_nil, (rnone_filter [] (rflat_kids kids)) by apply rnone_kids_nil.
    reflexivity.
  - rewrite rremove_cons. cbn [r_msg r_kids].
    pose proof (rrem_kid_ok l r kids Hk Hkids (fun c Hc => IH c Hc)) as Hr.
    destruct (rrem_kid l (rremove r) kids) as [ks'|]; cbn [option_map];
      unfold rrem_spec; rewrite !rflatten_eq.
    + destruct Hr as (H1 & H2 & H3 & H5). split; [constructor; assumption|].
      rewrite filter_app, H5, (rnone_filter (l :: r) (rown m0)) by apply rnone_own_cons.
      reflexivity.
    + unfold rnone. apply Forall_app. split; [apply rnone_own_cons | exact Hr].
Qed.

(* ---------- paths and topics ---------- *)

Definition tied (X : list rent) : Prop :=
  Forall (fun e => fst e = split_sep (r_topic (snd e))) X.

Lemma beq_levels_split : forall a b, beq_levels (split_sep a) (split_sep b) = beq_bytes a b.
Proof.
  intros a b. destruct (beq_bytes a b) eqn:E.
  - apply beq_bytes_eq in E. subst. apply beq_levels_eq. reflexivity.
  - destruct (beq_levels (split_sep a) (split_sep b)) eqn:E2; [|reflexivity].
    apply beq_levels_eq, split_sep_inj in E2. subst. rewrite beq_bytes_refl in E. discriminate.
Qed.

Lemma tied_sel : forall fl X, tied X ->
  rsel fl X = filter (fun m => fmatch fl (split_sep (r_topic m))) (map snd X).
Proof.
  intros fl X H. unfold rsel. induction H as [|e X He HX IH]; [reflexivity|].
  cbn [filter map]. rewrite <- He.
  destruct (fmatch fl (fst e)); cbn [map]; rewrite IH; reflexivity.
Qed.

Lemma tied_keep : forall t X, tied X ->
  map snd (filter (rkeep (split_sep t)) X) =
  filter (fun x => negb (beq_bytes (r_topic x) t)) (map snd X).
Proof.
  intros t X H. induction H as [|e X He HX IH]; [reflexivity|].
  cbn [filter map]. unfold rkeep at 1. rewrite He, beq_levels_split.
  destruct (beq_bytes (r_topic (snd e)) t); cbn [negb map]; rewrite IH; reflexivity.
Qed.

Lemma tied_filter : forall p X, tied X -> tied (filter p X).
Proof.
  intros p X H. unfold tied in *. rewrite Forall_forall in *. intros e He.
  apply filter_In in He as [He _]. apply H. exact He.
Qed.

(* ---------- the invariant over histories ---------- *)

Definition rinv (st : store) (r : list rmsg) : Prop :=
  wfr (rroot st) /\ tied (rflatten (rroot st)) /\ Permutation (map snd (rflatten (rroot st))) r.

Lemma rinv_init : rinv store0 [].
Proof. split; [apply wfr_empty|]. split; constructor. Qed.

Lemma rroot_subscribe : forall st t q s, rroot (fst (t_subscribe st t q s)) = rroot st.
Proof.
  intros st t q s. unfold t_subscribe.
  destruct (negb (valid_qos q)); [reflexivity|].
  destruct (s =? 0); [reflexivity|].
  destruct (length t =? 0)%nat; [reflexivity|].
  destruct (levels_lazy t) as [ls bad]. destruct bad; reflexivity.
Qed.

Lemma rroot_unsubscribe : forall st t s, rroot (fst (t_unsubscribe st t s)) = rroot st.
Proof.
  intros st t s. unfold t_unsubscribe.
  destruct (levels_lazy t) as [ls bad]. destruct bad; [reflexivity|].
  destruct (sremove ls (if s =? 0 then None else Some s) (sroot st)); reflexivity.
Qed.

Lemma rinv_retain : forall st r m,
  op_in_domain (ORetain m) = true -> rinv st r ->
  rinv (fst (t_retain st m)) (r_apply r (ORetain m)).
Proof.
  intros st r m Hd Hinv. pose proof Hinv as (Hwf & Htied & Hperm).
  cbn [op_in_domain] in Hd. cbn [r_apply]. unfold t_retain.
  destruct (good_name (r_topic m)) eqn:Eg.
  - rewrite (levels_good _ (good_name_good_filter _ Eg)). unfold a_retain.
    set (p := fun x : rmsg => negb (beq_bytes (r_topic x) (r_topic m))).
    assert (Hpf : Permutation (map snd (filter (rkeep (split_sep (r_topic m))) (rflatten (rroot st))))
                              (filter p r)).
    { rewrite tied_keep by exact Htied. apply perm_filter. exact Hperm. }
    destruct (length (r_payload m) =? 0)%nat.
    + pose proof (rremove_ok (split_sep (r_topic m)) (rroot st) Hwf) as Hrem. unfold rrem_spec in Hrem.
      destruct (rremove (split_sep (r_topic m)) (rroot st)) as [n'|]; unfold rinv; cbn [fst rroot].
      * destruct Hrem as (Hw' & Hfl). rewrite Hfl.
        split; [exact Hw'|]. split; [apply tied_filter; exact Htied | exact Hpf].
      * split; [exact Hwf|]. split; [exact Htied|].
        rewrite (rnone_filter _ _ Hrem) in Hpf. exact Hpf.
    + unfold rinv. cbn [fst rroot].
      pose proof (rflatten_rinsert (split_sep (r_topic m)) m (rroot st) Hwf) as Hins.
      split; [apply wfr_rinsert; exact Hwf|]. split.
      * unfold tied. eapply Permutation_Forall; [apply Permutation_sym; exact Hins|].
        constructor; [reflexivity | apply tied_filter; exact Htied].
      * eapply Permutation_trans; [apply Permutation_map; exact Hins|]. cbn [map snd].
        eapply Permutation_trans; [apply perm_skip; exact Hpf|].
        apply Permutation_cons_append.
  - cbn [orb] in Hd. destruct (levels_lazy (r_topic m)) as [ls bad]. cbn [snd] in Hd. subst bad.
    destruct (length (r_payload m) =? 0)%nat; [exact Hinv|].
    unfold rinv. cbn [fst rroot]. rewrite rflatten_rinsert_none.
    split; [apply wfr_rinsert; exact Hwf|]. split; assumption.
Qed.

Lemma rinv_step : forall st r o, op_in_domain o = true -> rinv st r ->
  rinv (apply_op st o) (r_apply r o).
Proof.
  intros st r [t q s | t s | m] Hd Hinv.
  - cbn [apply_op r_apply]. unfold rinv. rewrite rroot_subscribe. exact Hinv.
  - cbn [apply_op r_apply]. unfold rinv. rewrite rroot_unsubscribe. exact Hinv.
  - apply rinv_retain; assumption.
Qed.

Lemma rinv_fold : forall h st r, forallb op_in_domain h = true -> rinv st r ->
  rinv (fold_left apply_op h st) (fold_left r_apply h r).
Proof.
  induction h as [|o h IH]; intros st r Hd Hinv; [exact Hinv|].
  cbn [forallb] in Hd. apply andb_true_iff in Hd as [Ho Hh].
  cbn [fold_left]. apply IH; [exact Hh | apply rinv_step; assumption].
Qed.

Lemma rinv_run : forall h, forallb op_in_domain h = true -> rinv (run_ops h) (r_run h).
Proof. intros h Hd. apply rinv_fold; [exact Hd | apply rinv_init]. Qed.

(* ---------- the statement ---------- *)

Lemma retained_partial : C06_retained_partial.
Proof.
  intros h f Hd Hg. destruct (rinv_run h Hd) as (Hwf & Htied & Hperm).
  unfold t_retained. rewrite (levels_good f Hg).
  assert (Hml : mwc_last (split_sep f) = true).
  { unfold good_filter, good_filter_levels in Hg. apply andb_true_iff in Hg as [_ Hg]. exact Hg. }
  rewrite (rmatch_ok _ _ Hml Hwf). eexists. split; [reflexivity|].
  rewrite tied_sel by exact Htied. unfold a_retained. apply perm_filter. exact Hperm.
Qed.

Print Assumptions retained_partial.
