(* Operation scripts over the MemTopics model: the interface the correspondence check drives. *)
From Base Require Import Tactics Bytes.
From Gen Require Import Tables.
From Topics Require Import Model.
Open Scope N_scope.

Fixpoint ins_sorted (x : N) (l : list N) : list N :=
  match l with
  | [] => [x]
  | y :: r => if x <=? y then x :: l else y :: ins_sorted x r
  end.
Definition sort_n (l : list N) : list N := fold_right ins_sorted [] l.

Fixpoint ble_bytes (a b : bytes) : bool :=
  match a, b with
  | [], _ => true
  | _ :: _, [] => false
  | x :: a', y :: b' => if x <? y then true else if y <? x then false else ble_bytes a' b'
  end.
Fixpoint ins_msg (x : rmsg) (l : list rmsg) : list rmsg :=
  match l with
  | [] => [x]
  | y :: r => if ble_bytes (r_topic x) (r_topic y) then x :: l else y :: ins_msg x r
  end.
Definition sort_msgs (l : list rmsg) : list rmsg := fold_right ins_msg [] l.

Definition take (n : N) (l : bytes) : bytes := firstn (N.to_nat n) l.
Definition drop (n : N) (l : bytes) : bytes := skipn (N.to_nat n) l.

Definition enc_msg (m : rmsg) : list N :=
  r_qos m :: len (r_topic m) :: r_topic m ++ len (r_payload m) :: r_payload m.

Definition t_step (st : store) (op : list N) : store * list N :=
  match op with
  | 1 :: q :: s :: topic =>
      let '(st', r) := t_subscribe st topic q s in
      (st', match r with Some g => [0; g] | None => [1] end)
  | 2 :: s :: topic =>
      let '(st', ok) := t_unsubscribe st topic s in (st', if ok then [0] else [1])
  | 3 :: q :: topic =>
      (st, match t_subscribers st topic q with
           | Some l => 0 :: flat_map (fun k => [k / 4; k mod 4]) (sort_n (map (fun sq => fst sq * 4 + snd sq) l))
           | None => [1]
           end)
  | 4 :: q :: tl :: rest =>
      let '(st', ok) := t_retain st (mkR (take tl rest) (drop tl rest) q) in (st', if ok then [0] else [1])
  | 5 :: filter =>
      (st, match t_retained st filter with
           | Some l => 0 :: flat_map enc_msg (sort_msgs l)
           | None => [1]
           end)
  | 6 :: topic =>
      (st, match next_level topic with
           | Some (l, rem) => 0 :: len l :: l ++ rem
           | None => [1]
           end)
  | _ => (st, [99])
  end.

Fixpoint t_run (st : store) (ops : list (list N)) : list (list N) :=
  match ops with
  | [] => []
  | op :: r => let '(st', o) := t_step st op in o :: t_run st' r
  end.

Definition run_topics (ops : list (list N)) : list (list N) := t_run store0 ops.
