(* C06 on the whole input space: proofs of the statements of Topics/SpecTotal.v.
   Part 1: the splitter in closed form (qlevels = qspec) and the shape of what it produces.
   Part 2: the subscription trie against aq_run for EVERY history.  The trie lemmas of ProofsTrie.v
           are over level lists and are reused as they are; only smatch_ok was tied to good names
           (it needed "no name level is #") and is replaced by smatch_tot, which instead uses that
           no held filter has "#" before its last level - a fact about produced levels.
   Part 3: the retained trie against rq_run for every history (rmatch_ok, rinsert / rremove lemmas
           of ProofsRetained.v reused unchanged).
   Part 4: the total statements restricted to the old domain are the partial ones. *)
From Coq Require Import Permutation.
From Base Require Import Tactics Bytes.
From Gen Require Import Tables.
From Topics Require Import Model Spec SpecTotal ProofsLevels ProofsTrie ProofsRetained.
Open Scope N_scope.

(* ====================================================================================== *)
(* Part 1: the splitter                                                                   *)
(* ====================================================================================== *)

Lemma qlevels_of : forall t ls bad,
  levels_lazy t = (ls, bad) -> qlevels t = if bad then None else Some ls.
Proof. intros t ls bad H. unfold qlevels. rewrite H. reflexivity. Qed.

Definition qlev_fuel (fuel : nat) (t : bytes) : option (list bytes) :=
  let '(ls, bad) := levels_fuel fuel t in if bad then None else Some ls.

Lemma qlev_fuel_nil : forall fuel, qlev_fuel fuel [] = Some [].
Proof. intros fuel. unfold qlev_fuel. rewrite levels_fuel_nil. reflexivity. Qed.

Lemma qlev_fuel_S : forall fuel t, t <> [] ->
  qlev_fuel (S fuel) t =
  match next_level t with
  | None => None
  | Some (l, rem) => option_map (cons l) (qlev_fuel fuel rem)
  end.
Proof.
  intros fuel t H. unfold qlev_fuel. rewrite levels_fuel_S by exact H.
  destruct (next_level t) as [[l rem]|]; [|reflexivity].
  destruct (levels_fuel fuel rem) as [ls bad]. destruct bad; reflexivity.
Qed.

(* ---------- a level that scan returns is a filter level ---------- *)

Definition st_inv (s : lstate) (p : bytes) : Prop :=
  match s with
  | sMWC => p = [MWC]
  | sSWC => p = [SWC]
  | _ => p = [] \/ lit_level p = true
  end.

Lemma lit_level_single : forall c,
  (c =? SEP) = false -> (c =? MWC) = false -> (c =? SWC) = false -> (c =? SYS) = false ->
  lit_level [c] = true.
Proof.
  intros c H1 H2 H3 H4. cbn [lit_level existsb]. unfold is_wild.
  rewrite H2, H3, H4, (N.eqb_sym SEP c), H1. reflexivity.
Qed.

Lemma lit_level_snoc : forall p c,
  lit_level p = true -> (c =? SEP) = false -> (c =? MWC) = false -> (c =? SWC) = false ->
  lit_level (p ++ [c]) = true.
Proof.
  intros [|a p] c H H1 H2 H3; [discriminate|].
  cbn [lit_level] in H. apply andb_true_iff in H as [H Hc]. apply andb_true_iff in H as [Ha Hb].
  change ((a :: p) ++ [c]) with (a :: (p ++ [c])). cbn [lit_level]. rewrite Ha. cbn [andb].
  assert (Hw : is_wild c = false) by (unfold is_wild; rewrite H2, H3; reflexivity).
  rewrite (app_comm_cons p [c] a), !existsb_app.
  change (existsb is_wild [c]) with (is_wild c || false).
  change (existsb (N.eqb SEP) [c]) with ((SEP =? c) || false).
  rewrite Hw, (N.eqb_sym SEP c), H1. cbn [orb]. rewrite !orb_false_r, Hb, Hc. reflexivity.
Qed.

Lemma snoc_scan_args : forall (p : bytes) c,
  S (length p) = length (p ++ [c]) /\ c :: rev p = rev (p ++ [c]).
Proof.
  intros p c. split; [rewrite app_length; cbn; lia | rewrite rev_app_distr; reflexivity].
Qed.

Lemma scan_some_filter : forall l p s tail x rem,
  existsb (N.eqb SEP) l = false -> st_inv s p ->
  scan (l ++ tail) (length p) s (rev p) = Some (x, rem) ->
  p ++ l = [] \/ filter_level (p ++ l) = true.
Proof.
  induction l as [|c l IH]; intros p s tail x rem Hn Hinv Hs.
  - rewrite app_nil_r. destruct s; cbn [st_inv] in Hinv.
    + destruct Hinv as [-> | H]; [left; reflexivity | right; apply lit_is_filter_level; exact H].
    + subst p. right. reflexivity.
    + subst p. right. reflexivity.
    + destruct Hinv as [-> | H]; [left; reflexivity | right; apply lit_is_filter_level; exact H].
  - cbn [existsb] in Hn. apply orb_false_iff in Hn as [Hc Hn]. rewrite N.eqb_sym in Hc.
    destruct (snoc_scan_args p c) as [El Er].
    cbn [app scan] in Hs. rewrite Hc in Hs.
    assert (Hgo : forall s', st_inv s' (p ++ [c]) ->
              scan (l ++ tail) (S (length p)) s' (c :: rev p) = Some (x, rem) ->
              p ++ c :: l = [] \/ filter_level (p ++ c :: l) = true).
    { intros s' Hi' Hs'. rewrite El, Er in Hs'.
      specialize (IH (p ++ [c]) s' tail x rem Hn Hi' Hs'). rewrite <- app_assoc in IH. exact IH. }
    destruct (c =? MWC) eqn:Em.
    { destruct p as [|a p]; [|discriminate]. apply N.eqb_eq in Em. subst c.
      apply (Hgo sMWC); [reflexivity | exact Hs]. }
    destruct (c =? SWC) eqn:Ep.
    { destruct p as [|a p]; [|discriminate]. apply N.eqb_eq in Ep. subst c.
      apply (Hgo sSWC); [reflexivity | exact Hs]. }
    destruct (c =? SYS) eqn:Ey.
    { destruct p as [|a p]; [discriminate|]. cbn [length Nat.eqb] in Hs.
      destruct s; try discriminate; cbn [st_inv] in Hinv;
        (destruct Hinv as [Hinv | Hinv]; [discriminate|]);
        (apply (Hgo sSYS); [right; apply lit_level_snoc; assumption | exact Hs]). }
    destruct s; try discriminate; cbn [st_inv] in Hinv;
      (apply (Hgo sCHR); [|exact Hs]); right;
      (destruct Hinv as [-> | Hinv];
       [apply lit_level_single; assumption | apply lit_level_snoc; assumption]).
Qed.

(* next_level on the first 4.7 level l of a string *)
Lemma next_level_not_filter : forall l tail,
  existsb (N.eqb SEP) l = false -> l <> [] -> filter_level l = false ->
  next_level (l ++ tail) = None.
Proof.
  intros l tail Hn Hne Hf. unfold next_level.
  destruct (scan (l ++ tail) 0 sCHR []) as [[x rem]|] eqn:E; [|reflexivity].
  destruct (scan_some_filter l [] sCHR tail x rem Hn (or_introl eq_refl) E) as [H | H].
  - cbn [app] in H. contradiction.
  - cbn [app] in H. congruence.
Qed.

Lemma next_level_empty : forall r, next_level (SEP :: r) = Some ([SWC], r).
Proof. reflexivity. Qed.

Lemma next_level_mwc_sep : forall r, next_level ([MWC] ++ SEP :: r) = None.
Proof. reflexivity. Qed.

(* ---------- qspec unfolded along split_sep ---------- *)

Lemma qacc_cons : forall l sr, sr <> [] ->
  forallb qlevel_ok (l :: sr) && mwc_last (l :: sr) =
  qlevel_ok l && negb (beq_bytes l [MWC]) && (forallb qlevel_ok sr && mwc_last sr).
Proof.
  intros l [|x sr] H; [congruence|]. cbn [forallb mwc_last].
  destruct (qlevel_ok l), (negb (beq_bytes l [MWC])), (qlevel_ok x), (forallb qlevel_ok sr),
    (mwc_last (x :: sr)); reflexivity.
Qed.

Lemma quirk_cons : forall l sr, sr <> [] ->
  quirk (l :: sr) = (if (length l =? 0)%nat then [SWC] else l) :: quirk sr.
Proof. intros [|c l] [|x sr] H; try congruence; reflexivity. Qed.

Lemma qspec_sep : forall t l r, split_sep t = l :: split_sep r ->
  qspec t =
  if qlevel_ok l && negb (beq_bytes l [MWC])
  then option_map (cons (if (length l =? 0)%nat then [SWC] else l)) (qspec r)
  else None.
Proof.
  intros t l r H. unfold qspec, qaccepts. rewrite H.
  rewrite qacc_cons, quirk_cons by apply split_sep_nonempty.
  destruct (qlevel_ok l && negb (beq_bytes l [MWC])); cbn [andb]; [|reflexivity].
  destruct (forallb qlevel_ok (split_sep r) && mwc_last (split_sep r)); reflexivity.
Qed.

Lemma qspec_single : forall t, t <> [] -> split_sep t = [t] ->
  qspec t = if filter_level t then Some [t] else None.
Proof.
  intros [|c t] Hne H; [congruence|]. unfold qspec, qaccepts. rewrite H.
  cbn [forallb mwc_last qlevel_ok length Nat.eqb orb quirk]. rewrite !andb_true_r. reflexivity.
Qed.

Lemma qlev_fuel_closed : forall fuel t, (length t < fuel)%nat -> qlev_fuel fuel t = qspec t.
Proof.
  induction fuel as [|fuel IH]; intros t Hlen; [lia|].
  destruct (split_sep_cases t) as [[Hn Hs] | (l & r & Ht & Hn & Hs)].
  - destruct t as [|c t]; [reflexivity|].
    rewrite qspec_single by (congruence || exact Hs).
    rewrite qlev_fuel_S by discriminate.
    destruct (filter_level (c :: t)) eqn:Ef.
    + pose proof (next_level_filter (c :: t) [] Ef (or_introl eq_refl)) as Hnl.
      rewrite app_nil_r in Hnl. rewrite Hnl. cbn [tl]. rewrite qlev_fuel_nil. reflexivity.
    + pose proof (next_level_not_filter (c :: t) [] Hn) as Hnl.
      rewrite app_nil_r in Hnl. rewrite Hnl; [reflexivity | discriminate | exact Ef].
  - rewrite (qspec_sep t l r Hs).
    assert (Hne : t <> []) by (subst t; destruct l; discriminate).
    assert (Hlr : (length r < fuel)%nat).
    { subst t. rewrite app_length in Hlen. cbn [length] in Hlen. lia. }
    rewrite qlev_fuel_S by exact Hne. rewrite Ht.
    destruct l as [|c l].
    + cbn [app]. rewrite next_level_empty, (IH r Hlr). reflexivity.
    + cbn [qlevel_ok length Nat.eqb orb]. destruct (filter_level (c :: l)) eqn:Ef.
      * cbn [andb]. destruct (beq_bytes (c :: l) [MWC]) eqn:Em.
        -- apply beq_bytes_eq in Em. rewrite Em. rewrite next_level_mwc_sep. reflexivity.
        -- rewrite (next_level_filter (c :: l) (SEP :: r) Ef).
           ++ cbn [tl negb]. rewrite (IH r Hlr). reflexivity.
           ++ right. split; [apply beq_bytes_neq; exact Em | eexists; reflexivity].
      * cbn [andb]. rewrite (next_level_not_filter (c :: l) (SEP :: r) Hn); [reflexivity | discriminate | exact Ef].
Qed.

Lemma qlevels_closed_form : C06_qlevels_closed_form.
Proof.
  intros t. transitivity (qlev_fuel (S (length t)) t); [reflexivity|].
  apply qlev_fuel_closed. lia.
Qed.

(* ---------- shape of the produced levels ---------- *)

Lemma mwc_last_cons_intro : forall l r,
  beq_bytes l [MWC] = false -> mwc_last r = true -> mwc_last (l :: r) = true.
Proof.
  intros l [|x r] H1 H2; [reflexivity|].
  change (mwc_last (l :: x :: r)) with (negb (beq_bytes l [MWC]) && mwc_last (x :: r)).
  rewrite H1, H2. reflexivity.
Qed.

Lemma quirk_filter_levels : forall ls,
  forallb qlevel_ok ls = true -> forallb filter_level (quirk ls) = true.
Proof.
  induction ls as [|l r IH]; intro H; [reflexivity|].
  cbn [forallb] in H. apply andb_true_iff in H as [Hl Hr]. specialize (IH Hr).
  destruct l as [|c l].
  - destruct r as [|x r]; [reflexivity|].
    change (quirk ([] :: x :: r)) with ([SWC] :: quirk (x :: r)). cbn [forallb].
    rewrite IH. reflexivity.
  - change (quirk ((c :: l) :: r)) with ((c :: l) :: quirk r). cbn [forallb].
    cbn [qlevel_ok length Nat.eqb orb] in Hl. rewrite Hl, IH. reflexivity.
Qed.

Lemma quirk_mwc_last : forall ls, mwc_last ls = true -> mwc_last (quirk ls) = true.
Proof.
  induction ls as [|l r IH]; intro H; [reflexivity|].
  destruct r as [|x r].
  - destruct l; reflexivity.
  - cbn [mwc_last] in H. apply andb_true_iff in H as [Hl Hr]. specialize (IH Hr).
    rewrite quirk_cons by discriminate. apply mwc_last_cons_intro; [|exact IH].
    destruct l as [|c l]; [reflexivity|]. cbn [length Nat.eqb].
    destruct (beq_bytes (c :: l) [MWC]); [discriminate | reflexivity].
Qed.

Lemma quirk_split_nonempty : forall t, t <> [] -> quirk (split_sep t) <> [].
Proof.
  intros t Hne. destruct (split_sep_cases t) as [[_ Hs] | (l & r & _ & _ & Hs)]; rewrite Hs.
  - destruct t; [congruence | discriminate].
  - rewrite quirk_cons by apply split_sep_nonempty. discriminate.
Qed.

Lemma qlevels_shape : C06_qlevels_shape.
Proof.
  intros t ls H. rewrite qlevels_closed_form in H. unfold qspec in H.
  destruct (qaccepts t) eqn:Ea; [|discriminate]. inv H.
  unfold qaccepts in Ea. apply andb_true_iff in Ea as [E1 E2].
  split; [apply quirk_filter_levels; exact E1|].
  split; [apply quirk_mwc_last; exact E2 | apply quirk_split_nonempty].
Qed.

Lemma quirk_examples : C06_quirk_examples.
Proof. vm_compute. repeat split; reflexivity. Qed.

Lemma qlevels_nil : qlevels [] = Some [].
Proof. reflexivity. Qed.

Lemma qlevels_good : forall f, good_filter f = true -> qlevels f = Some (split_sep f).
Proof. intros f H. unfold qlevels. rewrite (levels_good f H). reflexivity. Qed.

(* ====================================================================================== *)
(* Part 2: subscriptions                                                                  *)
(* ====================================================================================== *)

(* ---------- smatch without a restriction on the name ---------- *)

(* "#" only as last level of a held filter *)
Definition okp (e : asub) : Prop := mwc_last (snd (fst e)) = true.

(* a '#' child holds nothing below itself, so exactly its own subscribers match - whatever the
   remaining levels of the name are (ProofsTrie.asubs_pre_mwc needed a name level <> "#") *)
Lemma asubs_pre_mwc_tot : forall q c t,
  Forall okp (map (pre [MWC]) (flatten c)) ->
  a_subscribers (map (pre [MWC]) (flatten c)) t q = match_qos q c.
Proof.
  intros q [subs kids] t H. rewrite flatten_eq, map_app in H. apply Forall_app in H as [_ H].
  rewrite flatten_eq, map_app, asubs_app.
  rewrite (asubs_all (map (pre [MWC]) (map own subs))).
  - rewrite (asubs_none (map (pre [MWC]) (flat_kids kids))).
    + rewrite app_nil_r, map_gq_pre. apply map_gq_own.
    + apply Forall_forall. intros e He. exfalso.
      rewrite Forall_forall in H. specialize (H e He).
      apply in_map_iff in He as (x & <- & Hx). unfold flat_kids in Hx.
      apply in_flat_map in Hx as (kc & _ & Hx). apply in_map_iff in Hx as (y & <- & _).
      unfold okp, pre in H. cbn [fst snd] in H.
      change (mwc_last ([MWC] :: fst kc :: snd (fst y)))
        with (negb (beq_bytes [MWC] [MWC]) && mwc_last (fst kc :: snd (fst y))) in H.
      rewrite beq_bytes_refl in H. discriminate.
  - apply Forall_forall. intros e He.
    apply in_map_iff in He as (x & <- & Hx). apply in_map_iff in Hx as (y & <- & _).
    unfold pre, own. cbn [fst snd]. destruct t; reflexivity.
Qed.

Lemma okp_kids : forall ks, Forall okp (flat_kids ks) ->
  Forall (fun kc => Forall okp (flatten (snd kc))) ks.
Proof.
  induction ks as [|[k c] ks IH]; intro H; [constructor|].
  rewrite flat_kids_cons in H. apply Forall_app in H as [H1 H2].
  constructor; [|apply IH; exact H2]. cbn [snd].
  apply Forall_forall. intros x Hx. rewrite Forall_forall in H1.
  specialize (H1 (pre k x) (in_map _ _ _ Hx)). unfold okp, pre in *. cbn [fst snd] in H1.
  eapply mwc_last_tail. exact H1.
Qed.

Lemma match_kids_tot : forall q l r f ks,
  Forall okp (flat_kids ks) ->
  Forall (fun kc => f (snd kc) = Some (a_subscribers (flatten (snd kc)) r q)) ks ->
  match_kids l f q ks = Some (a_subscribers (flat_kids ks) (l :: r) q).
Proof.
  intros q l r f ks Hok H. induction H as [|[k c] ks Hc Hks IH]; [reflexivity|].
  rewrite flat_kids_cons in Hok. apply Forall_app in Hok as [Hok1 Hok2].
  cbn [snd] in Hc. cbn [match_kids]. rewrite (IH Hok2), flat_kids_cons, asubs_app.
  destruct (beq_bytes k [MWC]) eqn:E.
  - apply beq_bytes_eq in E. subst k. rewrite asubs_pre_mwc_tot by exact Hok1. reflexivity.
  - rewrite asubs_pre_other_cons by exact E.
    destruct (beq_bytes k [SWC] || beq_bytes k l); [rewrite Hc|]; reflexivity.
Qed.

Lemma smatch_tot : forall ls q n,
  wf n -> Forall okp (flatten n) ->
  smatch ls false q n = Some (a_subscribers (flatten n) ls q).
Proof.
  induction ls as [|l r IH]; intros q [subs kids] Hwf Hok;
    apply wf_inv in Hwf as (Hs & Hk & Hkids).
  - cbn [smatch s_kids]. rewrite flatten_eq, asubs_app, asubs_kids_nil by exact Hk.
    rewrite asubs_all.
    + rewrite (map_gq_own q subs kids). reflexivity.
    + apply Forall_forall. intros e He. apply in_map_iff in He as (x & <- & _). reflexivity.
  - rewrite flatten_eq in Hok. apply Forall_app in Hok as [_ Hok].
    rewrite smatch_cons. cbn [s_kids].
    rewrite (match_kids_tot q l r).
    + rewrite flatten_eq, asubs_app. rewrite (asubs_none (map own subs)); [reflexivity|].
      apply Forall_forall. intros e He. apply in_map_iff in He as (x & <- & _). reflexivity.
    + exact Hok.
    + pose proof (okp_kids kids Hok) as Hokk.
      rewrite Forall_forall in *. intros kc Hin. apply IH; [apply Hkids | apply Hokk]; exact Hin.
Qed.

(* the traversal of a refused name: if it does not hit the error it has collected exactly the
   matches of "levels so far, then anything" *)
Lemma match_kids_cond : forall q l r f ks res,
  Forall okp (flat_kids ks) ->
  Forall (fun kc => forall l', f (snd kc) = Some l' ->
                               l' = a_subscribers (flatten (snd kc)) r q) ks ->
  match_kids l f q ks = Some res -> res = a_subscribers (flat_kids ks) (l :: r) q.
Proof.
  intros q l r f ks. induction ks as [|[k c] ks IHk]; intros res Hok H Hm.
  - cbn in Hm. inv Hm. reflexivity.
  - cbn [match_kids] in Hm. rewrite flat_kids_cons in Hok. apply Forall_app in Hok as [Hok1 Hok2].
    inversion H as [|? ? Hc Hks]; subst. cbn [snd] in Hc.
    destruct (match_kids l f q ks) as [b|] eqn:Eb.
    2:{ destruct (if beq_bytes k [MWC] then Some (match_qos q c)
                  else if beq_bytes k [SWC] || beq_bytes k l then f c else Some []); discriminate. }
    rewrite flat_kids_cons, asubs_app, <- (IHk b Hok2 Hks eq_refl).
    destruct (beq_bytes k [MWC]) eqn:E.
    + inv Hm. apply beq_bytes_eq in E. subst k. rewrite asubs_pre_mwc_tot by exact Hok1. reflexivity.
    + rewrite asubs_pre_other_cons by exact E.
      destruct (beq_bytes k [SWC] || beq_bytes k l).
      * destruct (f c) as [a|] eqn:Ef; [|discriminate]. inv Hm. rewrite (Hc a eq_refl). reflexivity.
      * inv Hm. reflexivity.
Qed.

Lemma smatch_bad : forall ls x q n res,
  wf n -> Forall okp (flatten n) ->
  smatch ls true q n = Some res -> res = a_subscribers (flatten n) (ls ++ [x]) q.
Proof.
  induction ls as [|l r IH]; intros x q [subs kids] res Hwf Hok Hm;
    apply wf_inv in Hwf as (Hs & Hk & Hkids).
  - cbn in Hm. discriminate.
  - rewrite flatten_eq in Hok. apply Forall_app in Hok as [_ Hok].
    rewrite smatch_cons in Hm. cbn [s_kids] in Hm.
    change ((l :: r) ++ [x]) with (l :: (r ++ [x])).
    rewrite flatten_eq, asubs_app. rewrite (asubs_none (map own subs)).
    + cbn [app]. apply (match_kids_cond q l (r ++ [x]) (smatch r true q) kids res Hok); [|exact Hm].
      pose proof (okp_kids kids Hok) as Hokk.
      rewrite Forall_forall in *. intros kc Hin l' Hl'.
      apply IH; [apply Hkids | apply Hokk | exact Hl']; exact Hin.
    + apply Forall_forall. intros e He. apply in_map_iff in He as (y & <- & _). reflexivity.
Qed.

(* ---------- sremove with the nil subscriber: the node is emptied ---------- *)

Definition keepall (f : list bytes) (e : asub) : bool := negb (at_levels f e).
Definition noneat (f : list bytes) (X : list asub) : Prop :=
  Forall (fun e => at_levels f e = false) X.

Lemma at_pre_cons : forall l r k e, at_levels (l :: r) (pre k e) = beq_bytes k l && at_levels r e.
Proof. reflexivity. Qed.

Lemma noneat_filter : forall f X, noneat f X -> filter (keepall f) X = X.
Proof.
  intros f X H. induction H as [|e X He HX IH]; [reflexivity|].
  cbn [filter]. unfold keepall at 1. rewrite He. cbn [negb]. rewrite IH. reflexivity.
Qed.

Lemma noneat_own_cons : forall l r subs, noneat (l :: r) (map own subs).
Proof.
  intros l r subs. apply Forall_forall. intros e He.
  apply in_map_iff in He as (x & <- & _). reflexivity.
Qed.

Lemma noneat_pre_ne : forall l r k X, beq_bytes k l = false -> noneat (l :: r) (map (pre k) X).
Proof.
  intros l r k X Hk. apply Forall_forall. intros e He.
  apply in_map_iff in He as (x & <- & _). rewrite at_pre_cons, Hk. reflexivity.
Qed.

Lemma noneat_pre_eq : forall k r X, noneat r X -> noneat (k :: r) (map (pre k) X).
Proof.
  intros k r X H. apply Forall_forall. intros e He. apply in_map_iff in He as (x & <- & Hx).
  rewrite at_pre_cons. unfold noneat in H. rewrite Forall_forall in H. rewrite (H x Hx).
  apply andb_false_r.
Qed.

Lemma noneat_kids_nil : forall ks, noneat [] (flat_kids ks).
Proof.
  intros ks. apply Forall_forall. intros e He. unfold flat_kids in He.
  apply in_flat_map in He as (kc & _ & He).
  apply in_map_iff in He as (x & <- & _). reflexivity.
Qed.

Lemma noneat_kids_notin : forall l r ks, ~ In l (map fst ks) -> noneat (l :: r) (flat_kids ks).
Proof.
  intros l r ks Hn. apply Forall_forall. intros e He. unfold flat_kids in He.
  apply in_flat_map in He as (kc & Hkc & He).
  apply in_map_iff in He as (x & <- & _). rewrite at_pre_cons.
  destruct (beq_bytes (fst kc) l) eqn:E; [|reflexivity].
  apply beq_bytes_eq in E. exfalso. apply Hn. rewrite <- E. apply in_map. exact Hkc.
Qed.

Lemma filter_keepall_own_nil : forall subs, filter (keepall []) (map own subs) = [].
Proof. induction subs as [|sq subs IH]; [reflexivity | exact IH]. Qed.

Lemma filter_keepall_pre_eq : forall k r X,
  filter (keepall (k :: r)) (map (pre k) X) = map (pre k) (filter (keepall r) X).
Proof.
  intros k r X. rewrite filter_map_comm. f_equal. apply filter_ext. intros e.
  unfold keepall. rewrite at_pre_cons, beq_bytes_refl. reflexivity.
Qed.

Definition rem_all_spec (ls : list bytes) (n : snode) (res : option snode) : Prop :=
  match res with
  | Some n' => wf n' /\ flatten n' = filter (keepall ls) (flatten n)
  | None => noneat ls (flatten n)
  end.

Lemma rem_kid_all_ok : forall l r ks,
  NoDup (map fst ks) -> Forall (fun kc => wf (snd kc)) ks ->
  (forall c, wf c -> rem_all_spec r c (sremove r None c)) ->
  match rem_kid l (sremove r None) ks with
  | Some ks' => NoDup (map fst ks') /\ incl (map fst ks') (map fst ks)
                /\ Forall (fun kc => wf (snd kc)) ks'
                /\ flat_kids ks' = filter (keepall (l :: r)) (flat_kids ks)
  | None => noneat (l :: r) (flat_kids ks)
  end.
Proof.
  intros l r ks Hnd Hwf IH. induction Hwf as [|[k c] ks Hc Hks IHk].
  - constructor.
  - cbn [map fst] in Hnd. inversion Hnd as [|? ? Hn Hd]; subst. cbn [snd] in Hc.
    cbn [rem_kid]. rewrite flat_kids_cons. destruct (beq_bytes k l) eqn:E.
    + apply beq_bytes_eq in E. subst k. specialize (IH c Hc). unfold rem_all_spec in IH.
      destruct (sremove r None c) as [c'|].
      * destruct IH as (Hw' & Hfl).
        assert (Hrest : filter (keepall (l :: r)) (flat_kids ks) = flat_kids ks)
          by (apply noneat_filter, noneat_kids_notin; exact Hn).
        destruct (prune_cases l c' ks) as [[Hres Hemp] | Hres]; cbn zeta in Hres; rewrite Hres.
        -- split; [exact Hd|]. split; [apply incl_tl, incl_refl|]. split; [exact Hks|].
           rewrite filter_app, filter_keepall_pre_eq, <- Hfl, Hemp, Hrest. reflexivity.
        -- split; [cbn [map fst]; constructor; assumption|]. split; [apply incl_refl|].
           split; [constructor; assumption|].
           rewrite flat_kids_cons, filter_app, filter_keepall_pre_eq, <- Hfl, Hrest. reflexivity.
      * unfold noneat. apply Forall_app. split; [apply noneat_pre_eq; exact IH|].
        apply noneat_kids_notin; exact Hn.
    + specialize (IHk Hd). destruct (rem_kid l (sremove r None) ks) as [ks'|]; cbn [option_map].
      * destruct IHk as (H1 & H2 & H3 & H5). split; [|split; [|split]].
        -- cbn [map fst]. constructor; [|exact H1]. intro Hin. apply Hn, H2, Hin.
        -- cbn [map fst]. intros x [Hx | Hx]; [left; exact Hx | right; apply H2, Hx].
        -- constructor; assumption.
        -- rewrite flat_kids_cons, filter_app, <- H5.
           rewrite noneat_filter by (apply noneat_pre_ne; exact E). reflexivity.
      * unfold noneat. apply Forall_app. split; [apply noneat_pre_ne; exact E | exact IHk].
Qed.

Lemma sremove_all_ok : forall ls n, wf n -> rem_all_spec ls n (sremove ls None n).
Proof.
  induction ls as [|l r IH]; intros [subs kids] Hwf; apply wf_inv in Hwf as (Hs & Hk & Hkids).
  - cbn [sremove s_kids]. unfold rem_all_spec. rewrite !flatten_eq.
    split; [constructor; [constructor | exact Hk | exact Hkids]|].
    rewrite filter_app, filter_keepall_own_nil, (noneat_filter [] (flat_kids kids))
      by apply noneat_kids_nil.
    reflexivity.
  - rewrite sremove_cons. cbn [s_subs s_kids].
    pose proof (rem_kid_all_ok l r kids Hk Hkids (fun c Hc => IH c Hc)) as Hr.
    destruct (rem_kid l (sremove r None) kids) as [ks'|]; cbn [option_map];
      unfold rem_all_spec; rewrite !flatten_eq.
    + destruct Hr as (H1 & H2 & H3 & H5). split; [constructor; assumption|].
      rewrite filter_app, H5, (noneat_filter (l :: r) (map own subs)) by apply noneat_own_cons.
      reflexivity.
    + unfold noneat. apply Forall_app. split; [apply noneat_own_cons | exact Hr].
Qed.

(* ---------- the invariant over ALL histories ---------- *)

Definition okent (e : asub) : Prop :=
  snd (fst e) <> [] /\ mwc_last (snd (fst e)) = true /\ fst (fst e) <> 0.

Definition invq (st : store) (a : list asub) : Prop :=
  wf (sroot st) /\ NoDup (map fst a) /\ Permutation (flatten (sroot st)) a /\ Forall okent a.

Lemma invq_init : invq store0 [].
Proof. split; [apply wf_empty|]. split; [constructor|]. split; constructor. Qed.

Lemma Forall_filter : forall {A} (P : A -> Prop) (p : A -> bool) (l : list A),
  Forall P l -> Forall P (filter p l).
Proof.
  intros A P p l H. rewrite Forall_forall in *. intros x Hx.
  apply filter_In in Hx as [Hx _]. apply H. exact Hx.
Qed.

Lemma invq_okp : forall st a, invq st a -> Forall okp (flatten (sroot st)).
Proof.
  intros st a (_ & _ & Hperm & Hok).
  eapply Permutation_Forall; [apply Permutation_sym; exact Hperm|].
  eapply Forall_impl; [|exact Hok]. intros e (_ & H & _). exact H.
Qed.

Lemma invq_sub : forall st a t q s, invq st a ->
  invq (fst (t_subscribe st t q s)) (aq_apply a (OSub t q s)).
Proof.
  intros st a t q s Hinv. pose proof Hinv as (Hwf & Hnd & Hperm & Hok).
  unfold t_subscribe. cbn [aq_apply].
  destruct (valid_qos q) eqn:Eq; cbn [negb andb]; [|exact Hinv].
  destruct (s =? 0) eqn:Es; cbn [negb andb]; [exact Hinv|].
  destruct t as [|c t]; [exact Hinv|]. cbn [length Nat.eqb negb].
  destruct (levels_lazy (c :: t)) as [ls bad] eqn:El. rewrite (qlevels_of _ _ _ El).
  destruct bad; unfold invq; cbn [fst sroot].
  - split; [apply wf_sinsert; exact Hwf|]. split; [exact Hnd|].
    split; [rewrite flatten_sinsert_none; exact Hperm | exact Hok].
  - fold (capq q).
    destruct (qlevels_shape (c :: t) ls) as (_ & Hml & Hne);
      [rewrite (qlevels_of _ _ _ El); reflexivity|].
    split; [apply wf_sinsert; exact Hwf|]. split; [apply a_subscribe_nodup; exact Hnd|].
    split.
    + eapply Permutation_trans; [apply flatten_sinsert; exact Hwf|].
      eapply Permutation_trans; [apply perm_skip, perm_filter, Hperm|].
      apply Permutation_sym, a_subscribe_perm. exact Hnd.
    + eapply Permutation_Forall; [apply Permutation_sym, a_subscribe_perm; exact Hnd|].
      constructor; [|apply Forall_filter; exact Hok].
      unfold okent. cbn [fst snd]. split; [apply Hne; discriminate|].
      split; [exact Hml | apply N.eqb_neq; exact Es].
Qed.

Lemma t_unsubscribe_tot : forall st a t s, invq st a ->
  (s <> 0 ->
   snd (t_unsubscribe st t s) =
   match qlevels t with
   | Some ls => match a_unsubscribe a s ls with Some _ => true | None => false end
   | None => false
   end)
  /\ invq (fst (t_unsubscribe st t s)) (aq_apply a (OUnsub t s)).
Proof.
  intros st a t s Hinv. pose proof Hinv as (Hwf & Hnd & Hperm & Hok).
  unfold t_unsubscribe. cbn [aq_apply].
  destruct (levels_lazy t) as [ls bad] eqn:El. rewrite (qlevels_of _ _ _ El).
  destruct bad; [split; [reflexivity | exact Hinv]|].
  destruct (s =? 0) eqn:Es; cbv iota.
  - split; [intro Hs; apply N.eqb_eq in Es; contradiction|].
    pose proof (sremove_all_ok ls (sroot st) Hwf) as Hrem. unfold rem_all_spec in Hrem.
    change (fun e : asub => negb (at_levels ls e)) with (keepall ls).
    destruct (sremove ls None (sroot st)) as [n'|]; cbn [fst].
    + destruct Hrem as (Hw' & Hfl). unfold invq. cbn [sroot].
      split; [exact Hw'|]. split; [apply nodup_map_filter; exact Hnd|].
      split; [rewrite Hfl; apply perm_filter; exact Hperm | apply Forall_filter; exact Hok].
    + rewrite noneat_filter; [exact Hinv|].
      unfold noneat. eapply Permutation_Forall; [exact Hperm | exact Hrem].
  - pose proof (sremove_ok ls s (sroot st) Hwf) as Hrem. unfold rem_spec in Hrem.
    unfold a_unsubscribe.
    rewrite <- (perm_existsb (same_sub s ls) _ _ Hperm).
    destruct (sremove ls _ (sroot st)) as [n'|].
    + destruct Hrem as (Hw' & Hex & Hfl). rewrite Hex. cbn [fst snd].
      split; [reflexivity|]. unfold invq. cbn [sroot].
      split; [exact Hw'|]. split; [apply nodup_map_filter; exact Hnd|].
      split; [rewrite Hfl; apply (perm_filter (keep s ls)); exact Hperm|].
      apply Forall_filter. exact Hok.
    + rewrite (nosame_existsb _ _ _ Hrem). cbn [fst snd]. split; [reflexivity | exact Hinv].
Qed.

Lemma invq_step : forall st a o, invq st a -> invq (apply_op st o) (aq_apply a o).
Proof.
  intros st a [t q s | t s | m] Hinv.
  - apply invq_sub. exact Hinv.
  - apply t_unsubscribe_tot. exact Hinv.
  - cbn [apply_op aq_apply]. unfold invq. rewrite sroot_retain. exact Hinv.
Qed.

Lemma invq_fold : forall h st a, invq st a ->
  invq (fold_left apply_op h st) (fold_left aq_apply h a).
Proof.
  induction h as [|o h IH]; intros st a Hinv; [exact Hinv|].
  cbn [fold_left]. apply IH, invq_step, Hinv.
Qed.

Lemma invq_run : forall h, invq (run_ops h) (aq_run h).
Proof. intros h. apply invq_fold, invq_init. Qed.

(* ---------- the statements ---------- *)

Lemma aq_run_shape : C06_aq_run_shape.
Proof. intros h. destruct (invq_run h) as (_ & Hnd & _ & Hok). split; assumption. Qed.

Lemma subscribers_total : C06_subscribers_total.
Proof.
  intros h t q ls Hq Hl. pose proof (invq_run h) as Hinv.
  pose proof (invq_okp _ _ Hinv) as Hokp. destruct Hinv as (Hwf & Hnd & Hperm & Hok).
  unfold t_subscribers. rewrite Hq. cbn [negb].
  unfold qlevels in Hl. destruct (levels_lazy t) as [ls' bad]. destruct bad; inv Hl.
  rewrite (smatch_tot _ q _ Hwf Hokp). eexists. split; [reflexivity|].
  apply perm_asubs. exact Hperm.
Qed.

Lemma subscribers_invalid_qos : C06_subscribers_invalid_qos.
Proof. intros h t q Hq. unfold t_subscribers. rewrite Hq. reflexivity. Qed.

Lemma subscribers_refused_name : C06_subscribers_refused_name.
Proof.
  intros h t q l x Hq Hl Hres. pose proof (invq_run h) as Hinv.
  pose proof (invq_okp _ _ Hinv) as Hokp. destruct Hinv as (Hwf & Hnd & Hperm & Hok).
  unfold t_subscribers in Hres. rewrite Hq in Hres. cbn [negb] in Hres.
  unfold qlevels in Hl. destruct (levels_lazy t) as [ls' bad]. destruct bad; [|discriminate].
  cbn [fst]. rewrite (smatch_bad ls' x q _ l Hwf Hokp Hres).
  apply perm_asubs. exact Hperm.
Qed.

Lemma subscribe_result_total : C06_subscribe_result_total.
Proof.
  intros h t q s. unfold t_subscribe.
  destruct (valid_qos q); cbn [negb andb]; [|reflexivity].
  destruct (s =? 0); cbn [negb andb]; [reflexivity|].
  destruct t as [|c t]; [reflexivity|]. cbn [length Nat.eqb negb].
  unfold qlevels. destruct (levels_lazy (c :: t)) as [ls bad]. destruct bad; reflexivity.
Qed.

Lemma unsubscribe_result_total : C06_unsubscribe_result_total.
Proof. intros h t s Hs. apply t_unsubscribe_tot; [apply invq_run | exact Hs]. Qed.

Lemma unsubscribe_nil_result_witness : C06_unsubscribe_nil_result_witness.
Proof. vm_compute. repeat split; reflexivity. Qed.

(* ====================================================================================== *)
(* Part 3: retained messages                                                              *)
(* ====================================================================================== *)

(* every stored message sits at the produced levels of its topic name *)
Definition tiedq (X : list rent) : Prop :=
  Forall (fun e => qlevels (r_topic (snd e)) = Some (fst e)) X.

Lemma tiedq_sel : forall fl X, tiedq X -> rsel fl X = aq_retained (map snd X) fl.
Proof.
  intros fl X H. unfold rsel, aq_retained. induction H as [|e X He HX IH]; [reflexivity|].
  cbn [filter map]. rewrite He.
  destruct (fmatch fl (fst e)); cbn [map]; rewrite IH; reflexivity.
Qed.

Lemma tiedq_keep : forall ls X, tiedq X ->
  map snd (filter (rkeep ls) X) = filter (fun x => negb (rq_at ls x)) (map snd X).
Proof.
  intros ls X H. induction H as [|e X He HX IH]; [reflexivity|].
  cbn [filter map]. unfold rkeep at 1, rq_at at 1. rewrite He.
  destruct (beq_levels (fst e) ls); cbn [negb map]; rewrite IH; reflexivity.
Qed.

Lemma tiedq_filter : forall p X, tiedq X -> tiedq (filter p X).
Proof. intros p X H. apply Forall_filter. exact H. Qed.

Definition rinvq (st : store) (r : list rmsg) : Prop :=
  wfr (rroot st) /\ tiedq (rflatten (rroot st)) /\ Permutation (map snd (rflatten (rroot st))) r.

Lemma rinvq_init : rinvq store0 [].
Proof. split; [apply wfr_empty|]. split; constructor. Qed.

Lemma rinvq_retain : forall st r m, rinvq st r ->
  rinvq (fst (t_retain st m)) (rq_apply r (ORetain m)).
Proof.
  intros st r m Hinv. pose proof Hinv as (Hwf & Htied & Hperm).
  cbn [rq_apply]. unfold t_retain, rq_retain.
  destruct (levels_lazy (r_topic m)) as [ls bad] eqn:El. rewrite (qlevels_of _ _ _ El).
  destruct bad.
  - destruct (length (r_payload m) =? 0)%nat; [exact Hinv|].
    unfold rinvq. cbn [fst rroot]. rewrite rflatten_rinsert_none.
    split; [apply wfr_rinsert; exact Hwf|]. split; assumption.
  - set (p := fun x : rmsg => negb (rq_at ls x)).
    assert (Hpf : Permutation (map snd (filter (rkeep ls) (rflatten (rroot st)))) (filter p r)).
    { rewrite tiedq_keep by exact Htied. apply perm_filter. exact Hperm. }
    destruct (length (r_payload m) =? 0)%nat.
    + pose proof (rremove_ok ls (rroot st) Hwf) as Hrem. unfold rrem_spec in Hrem.
      destruct (rremove ls (rroot st)) as [n'|]; unfold rinvq; cbn [fst rroot].
      * destruct Hrem as (Hw' & Hfl). rewrite Hfl.
        split; [exact Hw'|]. split; [apply tiedq_filter; exact Htied | exact Hpf].
      * split; [exact Hwf|]. split; [exact Htied|].
        rewrite (rnone_filter _ _ Hrem) in Hpf. exact Hpf.
    + unfold rinvq. cbn [fst rroot].
      pose proof (rflatten_rinsert ls m (rroot st) Hwf) as Hins.
      split; [apply wfr_rinsert; exact Hwf|]. split.
      * unfold tiedq. eapply Permutation_Forall; [apply Permutation_sym; exact Hins|].
        constructor; [|apply tiedq_filter; exact Htied].
        cbn [fst snd]. rewrite (qlevels_of _ _ _ El). reflexivity.
      * eapply Permutation_trans; [apply Permutation_map; exact Hins|]. cbn [map snd].
        eapply Permutation_trans; [apply perm_skip; exact Hpf|].
        apply Permutation_cons_append.
Qed.

Lemma rinvq_step : forall st r o, rinvq st r -> rinvq (apply_op st o) (rq_apply r o).
Proof.
  intros st r [t q s | t s | m] Hinv.
  - cbn [apply_op rq_apply]. unfold rinvq. rewrite rroot_subscribe. exact Hinv.
  - cbn [apply_op rq_apply]. unfold rinvq. rewrite rroot_unsubscribe. exact Hinv.
  - apply rinvq_retain. exact Hinv.
Qed.

Lemma rinvq_fold : forall h st r, rinvq st r ->
  rinvq (fold_left apply_op h st) (fold_left rq_apply h r).
Proof.
  induction h as [|o h IH]; intros st r Hinv; [exact Hinv|].
  cbn [fold_left]. apply IH, rinvq_step, Hinv.
Qed.

Lemma rinvq_run : forall h, rinvq (run_ops h) (rq_run h).
Proof. intros h. apply rinvq_fold, rinvq_init. Qed.

Lemma retained_total : C06_retained_total.
Proof.
  intros h f fl Hf. destruct (rinvq_run h) as (Hwf & Htied & Hperm).
  destruct (qlevels_shape f fl Hf) as (_ & Hml & _).
  unfold t_retained. unfold qlevels in Hf. destruct (levels_lazy f) as [ls bad].
  destruct bad; inv Hf.
  rewrite (rmatch_ok _ _ Hml Hwf). eexists. split; [reflexivity|].
  rewrite tiedq_sel by exact Htied. unfold aq_retained. apply perm_filter. exact Hperm.
Qed.

(* shape of the abstract retained list *)
Definition rkey (m : rmsg) : option (list bytes) := qlevels (r_topic m).
Definition rshape (r : list rmsg) : Prop :=
  NoDup (map rkey r) /\
  Forall (fun m => qlevels (r_topic m) <> None /\ (length (r_payload m) =? 0)%nat = false) r.

Lemma rshape_retain : forall r m, rshape r -> rshape (rq_retain r m).
Proof.
  intros r m [Hnd Hall]. unfold rq_retain.
  destruct (qlevels (r_topic m)) as [ls|] eqn:Em; [|split; assumption].
  assert (Ho : rshape (filter (fun x => negb (rq_at ls x)) r)).
  { split; [apply nodup_map_filter; exact Hnd | apply Forall_filter; exact Hall]. }
  destruct (length (r_payload m) =? 0)%nat eqn:Ep; [exact Ho|].
  destruct Ho as [Hnd' Hall']. split.
  - eapply Permutation_NoDup.
    + apply Permutation_map, Permutation_cons_append.
    + cbn [map]. constructor; [|exact Hnd'].
      intro Hin. apply in_map_iff in Hin as (x & Hx & Hin). apply filter_In in Hin as [_ Hk].
      unfold rkey in Hx. unfold rq_at in Hk. rewrite Hx, Em in Hk.
      assert (E : beq_levels ls ls = true) by (apply beq_levels_eq; reflexivity).
      rewrite E in Hk. discriminate.
  - apply Forall_app. split; [exact Hall'|]. constructor; [|constructor].
    split; [rewrite Em; discriminate | exact Ep].
Qed.

Lemma rshape_fold : forall h r, rshape r -> rshape (fold_left rq_apply h r).
Proof.
  induction h as [|o h IH]; intros r Hr; [exact Hr|].
  cbn [fold_left]. apply IH. destruct o; [exact Hr | exact Hr | apply rshape_retain; exact Hr].
Qed.

Lemma rq_run_shape : C06_rq_run_shape.
Proof. intros h. apply (rshape_fold h []). split; constructor. Qed.

Lemma retained_slot_sharing : C06_retained_slot_sharing.
Proof. vm_compute. split; reflexivity. Qed.

(* ====================================================================================== *)
(* Part 4: the total statements extend the partial ones                                   *)
(* ====================================================================================== *)

Lemma qlevels_good_name : forall t, good_name t = true -> qlevels t = Some (split_sep t).
Proof. intros t H. apply qlevels_good, good_name_good_filter, H. Qed.

Lemma aq_apply_dom : forall a o,
  op_in_domain o = true -> Forall okent a -> aq_apply a o = a_apply a o.
Proof.
  intros a [t q s | t s | m] Hd Hok; [| |reflexivity]; cbn [op_in_domain] in Hd;
    cbn [aq_apply a_apply].
  - destruct (good_filter t) eqn:Eg.
    + rewrite (qlevels_good t Eg). pose proof (good_filter_nonempty t Eg) as Hne.
      destruct t as [|c t]; [congruence|]. cbn [length Nat.eqb negb]. reflexivity.
    + cbn [orb] in Hd. rewrite andb_false_r. unfold refused in Hd.
      destruct t as [|c t]; [cbn [length Nat.eqb negb]; rewrite andb_false_r; reflexivity|].
      cbn [length Nat.eqb] in Hd. rewrite orb_false_r in Hd.
      unfold qlevels. destruct (levels_lazy (c :: t)) as [ls bad]. cbn [snd] in Hd. subst bad.
      destruct (valid_qos q && negb (s =? 0) && negb (length (c :: t) =? 0)%nat); reflexivity.
  - apply andb_true_iff in Hd as [Hs Hd]. rewrite Hs. cbn [andb].
    assert (Es : (s =? 0) = false) by (destruct (s =? 0); [discriminate | reflexivity]).
    destruct (good_filter t) eqn:Eg.
    + rewrite (qlevels_good t Eg), Es. reflexivity.
    + cbn [orb] in Hd. unfold refused in Hd. destruct t as [|c t].
      * rewrite qlevels_nil, Es. unfold a_unsubscribe. rewrite nosame_existsb; [reflexivity|].
        unfold nosame. eapply Forall_impl; [|exact Hok]. intros e (Hne & _ & _).
        unfold same_sub. destruct (snd (fst e)); [congruence|]. apply andb_false_r.
      * cbn [length Nat.eqb] in Hd. rewrite orb_false_r in Hd.
        unfold qlevels. destruct (levels_lazy (c :: t)) as [ls bad]. cbn [snd] in Hd. subst bad.
        reflexivity.
Qed.

Lemma aq_run_dom : forall h, forallb op_in_domain h = true -> aq_run h = a_run h.
Proof.
  induction h as [|o h IH] using rev_ind; intro Hd; [reflexivity|].
  rewrite forallb_app in Hd. apply andb_true_iff in Hd as [Hh Ho].
  cbn [forallb] in Ho. rewrite andb_true_r in Ho.
  unfold aq_run, a_run. rewrite !fold_left_app. cbn [fold_left].
  fold (aq_run h). fold (a_run h). rewrite <- (IH Hh).
  apply aq_apply_dom; [exact Ho|]. destruct (aq_run_shape h) as [_ H]. exact H.
Qed.

Lemma total_extends_partial : C06_total_extends_partial.
Proof. split; [exact aq_run_dom|]. split; [exact qlevels_good | exact qlevels_good_name]. Qed.

Lemma total_implies_partial : C06_total_implies_partial.
Proof.
  intros Htot h t q Hd Hn Hq.
  destruct (Htot h t q (split_sep t) Hq (qlevels_good_name t Hn)) as (l & H1 & H2).
  exists l. split; [exact H1|]. rewrite <- (aq_run_dom h Hd). exact H2.
Qed.

(* retained *)
Definition rgood (r : list rmsg) : Prop := Forall (fun x => good_name (r_topic x) = true) r.

Lemma rq_apply_dom : forall r o, op_in_domain o = true -> rgood r ->
  rq_apply r o = r_apply r o /\ rgood (r_apply r o).
Proof.
  intros r [t q s | t s | m] Hd Hg; [split; [reflexivity | exact Hg] ..|].
  cbn [op_in_domain] in Hd. cbn [rq_apply r_apply]. unfold rq_retain.
  destruct (good_name (r_topic m)) eqn:Eg.
  - rewrite (qlevels_good_name _ Eg). unfold a_retain.
    assert (Ef : filter (fun x => negb (rq_at (split_sep (r_topic m)) x)) r =
                 filter (fun x => negb (beq_bytes (r_topic x) (r_topic m))) r).
    { apply filter_ext_in. intros x Hx. unfold rgood in Hg. rewrite Forall_forall in Hg.
      unfold rq_at. rewrite (qlevels_good_name _ (Hg x Hx)), beq_levels_split. reflexivity. }
    rewrite Ef. split; [reflexivity|].
    assert (Hf : rgood (filter (fun x => negb (beq_bytes (r_topic x) (r_topic m))) r))
      by (apply Forall_filter; exact Hg).
    destruct (length (r_payload m) =? 0)%nat; [exact Hf|].
    unfold rgood. apply Forall_app. split; [exact Hf|]. constructor; [exact Eg | constructor].
  - cbn [orb] in Hd. unfold qlevels. destruct (levels_lazy (r_topic m)) as [ls bad].
    cbn [snd] in Hd. subst bad. split; [reflexivity | exact Hg].
Qed.

Lemma rq_fold_dom : forall h r, forallb op_in_domain h = true -> rgood r ->
  fold_left rq_apply h r = fold_left r_apply h r /\ rgood (fold_left r_apply h r).
Proof.
  induction h as [|o h IH]; intros r Hd Hg; [split; [reflexivity | exact Hg]|].
  cbn [forallb] in Hd. apply andb_true_iff in Hd as [Ho Hh].
  destruct (rq_apply_dom r o Ho Hg) as [E Hg']. cbn [fold_left]. rewrite E.
  apply IH; assumption.
Qed.

Lemma retained_extends_partial : C06_retained_extends_partial.
Proof.
  intros h Hd. destruct (rq_fold_dom h [] Hd (Forall_nil _)) as [E Hg].
  fold (rq_run h) in E. fold (r_run h) in E, Hg. split; [exact E|].
  intros f _. rewrite E. unfold aq_retained, a_retained. apply filter_ext_in. intros m Hm.
  unfold rgood in Hg. rewrite Forall_forall in Hg.
  rewrite (qlevels_good_name _ (Hg m Hm)). reflexivity.
Qed.

Lemma retained_total_implies_partial : C06_retained_total_implies_partial.
Proof.
  intros Htot h f Hd Hg.
  destruct (Htot h f (split_sep f) (qlevels_good f Hg)) as (l & H1 & H2).
  exists l. split; [exact H1|].
  destruct (retained_extends_partial h Hd) as [_ E]. rewrite <- (E f Hg). exact H2.
Qed.

Print Assumptions qlevels_closed_form.
Print Assumptions qlevels_shape.
Print Assumptions quirk_examples.
Print Assumptions aq_run_shape.
Print Assumptions subscribers_total.
Print Assumptions subscribers_invalid_qos.
Print Assumptions subscribers_refused_name.
Print Assumptions subscribe_result_total.
Print Assumptions unsubscribe_result_total.
Print Assumptions unsubscribe_nil_result_witness.
Print Assumptions total_extends_partial.
Print Assumptions total_implies_partial.
Print Assumptions retained_total.
Print Assumptions rq_run_shape.
Print Assumptions retained_slot_sharing.
Print Assumptions retained_extends_partial.
Print Assumptions retained_total_implies_partial.
