(* MQTT 3.1.1 section 4.7 as a specification: topic levels, filter matching, and the abstract
   stores (a list of held subscriptions, a map from topic name to retained message) that the
   tries of Topics/Model.v are proved to implement.  Also the statements of property C06. *)
From Coq Require Import Permutation.
From Base Require Import Tactics Bytes.
From Gen Require Import Tables.
From Topics Require Import Model.
Open Scope N_scope.

(* ---------- levels ---------- *)

(* split on '/': a topic of n separators has n+1 levels, empty ones included (4.7.1.1) *)
Fixpoint split_acc (t : bytes) (cur : bytes) : list bytes :=
  match t with
  | [] => [rev cur]
  | c :: r => if c =? SEP then rev cur :: split_acc r [] else split_acc r (c :: cur)
  end.
Definition split_sep (t : bytes) : list bytes := split_acc t [].

Definition is_wild (c : N) : bool := (c =? MWC) || (c =? SWC).
(* an ordinary level: non-empty, no wildcard characters, not starting with '$' *)
Definition lit_level (l : bytes) : bool :=
  match l with
  | [] => false
  | c :: _ => negb (c =? SYS) && negb (existsb is_wild l) && negb (existsb (N.eqb SEP) l)
  end.
Definition filter_level (l : bytes) : bool := lit_level l || beq_bytes l [SWC] || beq_bytes l [MWC].

(* '#' only as the last level *)
Fixpoint mwc_last (ls : list bytes) : bool :=
  match ls with
  | [] => true
  | [l] => true
  | l :: r => negb (beq_bytes l [MWC]) && mwc_last r
  end.

Definition good_filter_levels (ls : list bytes) : bool :=
  negb (length ls =? 0)%nat && forallb filter_level ls && mwc_last ls.
Definition good_name_levels (ls : list bytes) : bool :=
  negb (length ls =? 0)%nat && forallb lit_level ls.

(* the domain on which C06 is proved: valid filters / names without empty levels and without
   levels starting with '$' (the latter are refused by the store by design) *)
Definition good_filter (f : bytes) : bool := good_filter_levels (split_sep f).
Definition good_name (t : bytes) : bool := good_name_levels (split_sep t).

(* a filter every conforming broker must refuse: a wildcard that does not fill its level, or '#'
   before the last level (4.7.1.2, 4.7.1.3), or the empty filter (4.7.3) *)
Definition level_misuses_wildcard (l : bytes) : bool :=
  existsb is_wild l && negb (length l =? 1)%nat.
Definition spec_invalid_filter (f : bytes) : bool :=
  (length f =? 0)%nat || existsb level_misuses_wildcard (split_sep f) || negb (mwc_last (split_sep f)).

(* ---------- matching (4.7.1, 4.7.2) ---------- *)

Fixpoint fmatch (f t : list bytes) : bool :=
  match f with
  | [] => match t with [] => true | _ => false end
  | l :: f' =>
      if beq_bytes l [MWC] && (length f' =? 0)%nat then true
      else match t with
           | [] => false
           | l' :: t' => (beq_bytes l [SWC] || beq_bytes l l') && fmatch f' t'
           end
  end.

(* ---------- abstract subscription store ---------- *)

Definition asub := (sub * list bytes * N)%type.      (* subscriber, filter levels, granted QoS *)

Fixpoint beq_levels (a b : list bytes) : bool :=
  match a, b with
  | [], [] => true
  | x :: a', y :: b' => beq_bytes x y && beq_levels a' b'
  | _, _ => false
  end.

Definition same_sub (s : sub) (f : list bytes) (e : asub) : bool :=
  (fst (fst e) =? s) && beq_levels (snd (fst e)) f.

Fixpoint a_subscribe (a : list asub) (s : sub) (f : list bytes) (q : N) : list asub :=
  match a with
  | [] => [(s, f, q)]
  | e :: r => if same_sub s f e then (s, f, q) :: r else e :: a_subscribe r s f q
  end.

Definition a_unsubscribe (a : list asub) (s : sub) (f : list bytes) : option (list asub) :=
  if existsb (same_sub s f) a then Some (filter (fun e => negb (same_sub s f e)) a) else None.

Definition a_subscribers (a : list asub) (t : list bytes) (q : N) : list (sub * N) :=
  map (fun e => (fst (fst e), if snd e <? q then snd e else q))
      (filter (fun e => fmatch (snd (fst e)) t) a).

(* ---------- histories ---------- *)

Inductive top_op :=
| OSub (topic : bytes) (q : N) (s : sub)
| OUnsub (topic : bytes) (s : sub)
| ORetain (m : rmsg).

Definition apply_op (st : store) (o : top_op) : store :=
  match o with
  | OSub t q s => fst (t_subscribe st t q s)
  | OUnsub t s => fst (t_unsubscribe st t s)
  | ORetain m => fst (t_retain st m)
  end.
Definition run_ops (h : list top_op) : store := fold_left apply_op h store0.

Definition capq (q : N) : N := if MaxQosAllowed <? q then MaxQosAllowed else q.

(* the specification's reaction to the same operations: an operation the store must refuse
   (invalid QoS, nil subscriber, refused filter, unknown subscription) changes nothing *)
Definition a_apply (a : list asub) (o : top_op) : list asub :=
  match o with
  | OSub t q s =>
      if valid_qos q && negb (s =? 0) && good_filter t then a_subscribe a s (split_sep t) (capq q) else a
  | OUnsub t s =>
      if negb (s =? 0) && good_filter t then
        match a_unsubscribe a s (split_sep t) with Some a' => a' | None => a end
      else a
  | ORetain _ => a
  end.
Definition a_run (h : list top_op) : list asub := fold_left a_apply h [].

(* operations inside the domain of the partial theorem: the filter is either good (then it must be
   accepted) or one the splitter refuses (then it must be rejected without effect); filters with
   empty levels are neither (known finding), '$' levels are refused by design *)
Definition refused (t : bytes) : bool := snd (levels_lazy t) || (length t =? 0)%nat.
Definition op_in_domain (o : top_op) : bool :=
  match o with
  | OSub t _ s => good_filter t || refused t
  | OUnsub t s => negb (s =? 0) && (good_filter t || refused t)
  | ORetain m => good_name (r_topic m) || snd (levels_lazy (r_topic m))
  end.

(* ---------- abstract retained store ---------- *)

Definition a_retain (r : list rmsg) (m : rmsg) : list rmsg :=
  let others := filter (fun x => negb (beq_bytes (r_topic x) (r_topic m))) r in
  if (length (r_payload m) =? 0)%nat then others else others ++ [m].
Definition r_apply (r : list rmsg) (o : top_op) : list rmsg :=
  match o with
  | ORetain m => if good_name (r_topic m) then a_retain r m else r
  | _ => r
  end.
Definition r_run (h : list top_op) : list rmsg := fold_left r_apply h [].
Definition a_retained (r : list rmsg) (f : list bytes) : list rmsg :=
  filter (fun m => fmatch f (split_sep (r_topic m))) r.

(* ---------- statements of C06 ---------- *)

(* the splitter agrees with section 4.7 on good filters and refuses every misuse of a wildcard *)
Definition C06_levels_good : Prop := forall f,
  good_filter f = true -> levels_lazy f = (split_sep f, false).
Definition C06_invalid_refused : Prop := forall f,
  spec_invalid_filter f = true -> refused f = true.

(* after ANY history of in-domain operations, the subscribers reported for a good topic name are
   exactly the held (subscriber, filter) pairs whose filter matches under 4.7, each with
   min(publish QoS, granted QoS); resubscribing replaces, removing one pair leaves the others,
   refused operations have no effect (all contained in a_run) *)
Definition C06_subscribers_partial : Prop := forall h t q,
  forallb op_in_domain h = true -> good_name t = true -> valid_qos q = true ->
  exists l, t_subscribers (run_ops h) t q = Some l
            /\ Permutation l (a_subscribers (a_run h) (split_sep t) q).

(* results of the operations themselves: granted QoS / rejection exactly as specified *)
Definition C06_subscribe_result : Prop := forall h t q s,
  forallb op_in_domain h = true -> op_in_domain (OSub t q s) = true ->
  snd (t_subscribe (run_ops h) t q s) =
  (if valid_qos q && negb (s =? 0) && good_filter t then Some (capq q) else None).
Definition C06_unsubscribe_result : Prop := forall h t s,
  forallb op_in_domain h = true -> op_in_domain (OUnsub t s) = true ->
  snd (t_unsubscribe (run_ops h) t s) =
  (good_filter t && match a_unsubscribe (a_run h) s (split_sep t) with Some _ => true | None => false end).

(* the same relation selects the retained messages: last non-empty payload per topic since the
   last empty one, for every good filter *)
Definition C06_retained_partial : Prop := forall h f,
  forallb op_in_domain h = true -> good_filter f = true ->
  exists l, t_retained (run_ops h) f = Some l
            /\ Permutation l (a_retained (r_run h) (split_sep f)).

(* the full statement (empty levels included) is false of the faithful model: witnesses *)
Definition sub_ids (o : option (list (sub * N))) : list N :=
  match o with Some l => map fst l | None => [] end.
Definition C06_empty_level_refuted : Prop :=
  (* "/b" behaves as "+/b": it receives x/b *)
  (exists st, st = fst (t_subscribe store0 [47; 98] 1 7) /\
      sub_ids (t_subscribers st [120; 47; 98] 1) = [7] /\
      fmatch (split_sep [47; 98]) (split_sep [120; 47; 98]) = false)
  /\
  (* "a/" behaves as "a": it receives a *)
  (exists st, st = fst (t_subscribe store0 [97; 47] 1 7) /\
      sub_ids (t_subscribers st [97] 1) = [7] /\
      fmatch (split_sep [97; 47]) (split_sep [97]) = false).
