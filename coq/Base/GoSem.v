(* The meaning of the Go fragment that tools/gentables/trans.go translates (coq/Gen/Translated.v).
   Integers of every width are Z (overflow is not modelled: the translated functions only compute
   lengths and byte values; narrowing conversions are emitted as `mod`); a []byte is a list Z whose
   capacity equals its length; an error value is a bool (true = non-nil).  The translated
   functions return option: None is a run-time panic.  The translator emits the bounds conditions of
   every index and slice expression itself (as the guard of an `if ... else None`), so the
   operations below are total and are only applied inside their bounds. *)
From Coq Require Import List ZArith Bool Lia.
Import ListNotations.
Open Scope Z_scope.

Definition go_len (l : list Z) : Z := Z.of_nat (length l).
(* l[i] *)
Definition go_nth (l : list Z) (i : Z) : Z := nth (Z.to_nat i) l 0.
(* l[lo:hi] *)
Definition go_sub (l : list Z) (lo hi : Z) : list Z := firstn (Z.to_nat (hi - lo)) (skipn (Z.to_nat lo) l).
(* l[i] = v *)
Fixpoint set_nth (l : list Z) (i : nat) (v : Z) : list Z :=
  match l, i with
  | [], _ => []
  | _ :: r, O => v :: r
  | x :: r, S j => x :: set_nth r j v
  end.
Definition go_set (l : list Z) (i v : Z) : list Z := set_nth l (Z.to_nat i) v.
(* bytes.IndexByte *)
Fixpoint index_from (l : list Z) (c : Z) (i : Z) : Z :=
  match l with
  | [] => -1
  | x :: r => if x =? c then i else index_from r c (i + 1)
  end.
Definition go_index_byte (l : list Z) (c : Z) : Z := index_from l c 0.
(* binary.BigEndian.Uint16 / PutUint16 *)
Definition go_be16 (l : list Z) : Z := go_nth l 0 * 256 + go_nth l 1.
Definition go_put16 (l : list Z) (v : Z) : list Z := (v / 256) mod 256 :: v mod 256 :: skipn 2 l.
(* copy(dst[lo:], src): min(len(dst) - lo, len(src)) bytes *)
Definition go_copy (dst : list Z) (lo : Z) (src : list Z) : list Z :=
  let n := Nat.min (length dst - Z.to_nat lo) (length src) in
  firstn (Z.to_nat lo) dst ++ firstn n src ++ skipn (Z.to_nat lo + n) dst.
(* n := copy(dst[lo:], src): the number of bytes copied *)
Definition go_copy_n (dst : list Z) (lo : Z) (src : list Z) : Z := Z.min (go_len dst - lo) (go_len src).

(* for i, c := range l { body }: the body maps the loop state to the next state (inl) or to the
   function's result (inr, an early return); None is a panic *)
Fixpoint go_range_from {S R : Type} (i : Z) (l : list Z) (body : Z -> Z -> S -> option (S + R)) (s : S)
  : option (S + R) :=
  match l with
  | [] => Some (inl s)
  | c :: r =>
      match body i c s with
      | Some (inl s') => go_range_from (i + 1) r body s'
      | x => x
      end
  end.
Definition go_range {S R : Type} (l : list Z) (body : Z -> Z -> S -> option (S + R)) (s : S) : option (S + R) :=
  go_range_from 0 l body s.

(* for { body }: at most `fuel` rounds; the body maps the loop state to the next state (inl) or to the function's
   result (inr); None is a panic, and running out of fuel is reported as None as well (the lemmas about the
   translated functions show that neither happens) *)
Fixpoint go_loop {S R : Type} (fuel : nat) (body : S -> option (S + R)) (s : S) : option (S + R) :=
  match fuel with
  | O => None
  | Datatypes.S f =>
      match body s with
      | Some (inl s') => go_loop f body s'
      | x => x
      end
  end.

(* make([]byte, n) *)
Definition go_make (n : Z) : list Z := repeat 0 (Z.to_nat n).
(* int32(x): the low 32 bits, signed *)
Definition go_int32 (x : Z) : Z := (x + 2147483648) mod 4294967296 - 2147483648.
(* encoding/binary.Uvarint: value and number of bytes read; (0, 0) if the buffer ends inside the number, (0, -(i+1))
   if it does not fit 64 bits *)
Fixpoint uvarint_from (l : list Z) (i : nat) (x s : Z) : Z * Z :=
  match l with
  | [] => (0, 0)
  | b :: r =>
      if (i =? 10)%nat then (0, - (Z.of_nat i + 1))
      else if b <? 128 then
        (if (i =? 9)%nat && (b >? 1) then (0, - (Z.of_nat i + 1))
         else (Z.lor x (Z.shiftl b s), Z.of_nat i + 1))
      else uvarint_from r (S i) (Z.lor x (Z.shiftl (Z.land b 127) s)) (s + 7)
  end.
Definition go_uvarint (l : list Z) : Z * Z := uvarint_from l 0 0 0.

(* encoding/binary.PutUvarint: the bytes it writes for v >= 0 *)
Fixpoint uvarint_bytes (fuel : nat) (v : Z) : list Z :=
  match fuel with
  | O => []
  | Datatypes.S f => if v <? 128 then [v] else (v mod 128 + 128) :: uvarint_bytes f (v / 128)
  end.
Definition go_uvarint_enc (v : Z) : list Z := uvarint_bytes 10 v.
Definition go_uvarint_len (v : Z) : Z := go_len (go_uvarint_enc v).
(* binary.PutUvarint(dst[lo:], v) (the translator emits the condition under which it does not panic) *)
Definition go_put_uvarint (dst : list Z) (lo v : Z) : list Z := go_copy dst lo (go_uvarint_enc v).

(* n := copy(dst[lo:hi], src): at most hi - lo bytes *)
Definition go_copy_to_n (dst : list Z) (lo hi : Z) (src : list Z) : Z := Z.min (hi - lo) (go_len src).
Definition go_copy_to (dst : list Z) (lo hi : Z) (src : list Z) : list Z :=
  let n := Z.to_nat (go_copy_to_n dst lo hi src) in
  firstn (Z.to_nat lo) dst ++ firstn n src ++ skipn (Z.to_nat lo + n) dst.

(* bytes.ContainsAny(l, chars) for a string of single-byte characters *)
Definition go_contains_any (l chars : list Z) : bool := existsb (fun c => existsb (Z.eqb c) chars) l.
