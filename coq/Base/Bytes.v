(* Bytes are N below 256; a Go []byte is a list of them. Slice operations are partial:
   an access the Go runtime would answer with a panic is the explicit outcome Panic. *)
From Base Require Import Tactics.
Open Scope N_scope.

Definition bytes := list N.
Definition byte_ok (b : N) : bool := b <? 256.
Definition bytes_ok (l : bytes) : bool := forallb byte_ok l.

(* outcome of a modelled Go function: normal return, error return (class, returned count), panic *)
Inductive outcome (A : Type) : Type :=
| Ok (a : A)
| Err (class : N) (count : nat)
| Panic.
Arguments Ok {A} a.
Arguments Err {A} class count.
Arguments Panic {A}.

Definition bind {A B} (x : outcome A) (f : A -> outcome B) : outcome B :=
  match x with Ok a => f a | Err c n => Err c n | Panic => Panic end.
Notation "'do' x <- e ; f" := (bind e (fun x => f)) (at level 200, x pattern, e at level 100, f at level 200, right associativity).

(* src[i] *)
Definition idx (l : bytes) (i : nat) : outcome N :=
  match nth_error l i with Some b => Ok b | None => Panic end.
(* src[i:j] on a slice whose capacity equals its length *)
Definition sl (l : bytes) (i j : nat) : outcome bytes :=
  if (i <=? j)%nat && (j <=? length l)%nat then Ok (firstn (j - i) (skipn i l)) else Panic.
(* src[i:] *)
Definition from (l : bytes) (i : nat) : outcome bytes :=
  if (i <=? length l)%nat then Ok (skipn i l) else Panic.

Definition be16 (n : N) : bytes := [n / 256 mod 256; n mod 256].
Definition rd16 (hi lo : N) : N := hi * 256 + lo.

Definition len (l : bytes) : N := N.of_nat (length l).

Fixpoint beq_bytes (a b : bytes) : bool :=
  match a, b with
  | [], [] => true
  | x :: a', y :: b' => (x =? y) && beq_bytes a' b'
  | _, _ => false
  end.
