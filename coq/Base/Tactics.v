(* Shared arithmetic set-up: lia understands /, mod and boolean comparisons on nat, N and Z. *)
From Coq Require Export List Arith NArith ZArith Lia Bool.
From Coq Require Export ZifyBool ZifyNat ZifyN.
Export ListNotations.
Ltac Zify.zify_post_hook ::= Z.div_mod_to_equations.

Ltac inv H := inversion H; subst; clear H.
Ltac destr_if :=
  match goal with
  | |- context [if ?c then _ else _] => let E := fresh "E" in destruct c eqn:E
  end.
Ltac destr_if_in H :=
  match type of H with
  | context [if ?c then _ else _] => let E := fresh "E" in destruct c eqn:E
  end.
