(* Statement tying the translation of topics.nextTopicLevel to Topics/Model.v (see Trans/Spec.v for the conventions). *)
From Coq Require Import ZArith.
From Base Require Import Tactics Bytes GoSem.
From Gen Require Import Tables Translated.
From Topics Require Import Model.
From Trans Require Export Common.
Open Scope N_scope.

(* topics.nextTopicLevel = Topics.Model.next_level: level, remainder, error *)
Definition T_nextTopicLevel : Prop := forall t : bytes,
  go_topics_nextTopicLevel (zb t) =
  Some (match next_level t with Some (l, r) => (zb l, zb r, false) | None => ([], [], true) end).
