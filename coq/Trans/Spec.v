(* Statements that tie the Gallina translations of the library's leaf functions (Gen/Translated.v,
   regenerated from /repo on every run by tools/gentables/trans.go) to the hand-written models the
   property theorems are about.  Each says: for every input, the translated source function does not
   panic and returns what the model function returns.  When the source of such a function changes,
   the translation changes and the proof of its statement is re-checked against it. *)
From Coq Require Import ZArith.
From Base Require Import Tactics Bytes GoSem.
From Gen Require Import Tables Translated.
From Codec Require Import Wire Impl.
From Trans Require Export Common.
Open Scope N_scope.



(* message.ValidTopic = Codec.Wire.valid_topic *)
Definition T_ValidTopic : Prop := forall t : bytes,
  go_message_ValidTopic (zb t) = Some (valid_topic t).

(* message.ValidQos: the QoS values 0, 1, 2 *)
Definition T_ValidQos : Prop := forall q : N,
  go_message_ValidQos (Z.of_N q) = Some (q <? 3).

(* message.Type.Valid = Codec.Impl.type_valid *)
Definition T_TypeValid : Prop := forall t : N,
  go_message_Valid (Z.of_N t) = Some (type_valid t).

(* message.Type.DefaultFlags = the table the codec model uses *)
Definition T_DefaultFlags : Prop := forall t : N,
  go_message_DefaultFlags (Z.of_N t) = Some (Z.of_N (default_flags t)).

(* header.msglen = Codec.Impl.hdr_msglen_of *)
Definition T_msglen : Prop := forall r : N,
  go_message_msglen (Z.of_N r) = Some (Z.of_nat (hdr_msglen_of r)).

(* message.readLPBytes = Codec.Impl.read_lp: never panics; string, count and error agree *)
Definition T_readLPBytes : Prop := forall buf : bytes,
  bytes_ok buf = true ->
  go_message_readLPBytes (zb buf) =
  Some (match read_lp buf with
        | Ok (s, n) => (zb s, Z.of_nat n, false)
        | Err _ n => ([], Z.of_nat n, true)
        | Panic => ([], 0%Z, true)
        end)
  /\ read_lp buf <> Panic.

(* message.writeLPBytes: never panics; refuses strings longer than maxLPString and buffers that are too
   short without touching the buffer; otherwise writes Codec.Wire.lp b at the start of the buffer *)
Definition T_writeLPBytes : Prop := forall buf b : bytes,
  go_message_writeLPBytes (zb buf) (zb b) =
  Some (if (maxLPString <? len b) || (len buf <? 2 + len b) then (0%Z, true, zb buf)
        else (Z.of_N (2 + len b), false, zb (lp b ++ skipn (2 + length b) buf)))
  /\ (write_lp b = None <-> maxLPString < len b)
  /\ (forall w, write_lp b = Some w -> w = lp b).





(* message.nextPacketID = Codec.Impl.next_pid: the identifier handed out and the counter afterwards (a uint64: it
   wraps at 2^64), for every value of the counter; the loop needs at most two rounds *)
Definition T_nextPacketID : Prop := forall c : N,
  c < 2 ^ 64 ->
  go_message_nextPacketID (Z.of_N c) =
  Some (Z.of_N (snd (next_pid c)), Z.of_N (fst (next_pid c) mod 2 ^ 64)).

(* header.decode (with the methods Type, Flags, Valid, DefaultFlags and the function ValidQos it calls, all translated)
   = Codec.Impl.hdr_decode, for a header whose type/flags byte is present: never panics; on success the bytes consumed
   and every field of the header agree with the model; on an error the count agrees *)
Definition T_header_decode : Prop := forall (h : hdr) (src : bytes),
  bytes_ok src = true -> tf h < 256 ->
  hdr_decode h src <> Panic /\
  match hdr_decode h src with
  | Ok (h', n) =>
      go_message_decode (zb (dbuf h)) (dirty h) [Z.of_N (tf h)] (Z.of_N (remlen h)) (zb src) =
      Some (Z.of_nat n, false, zb (dbuf h'), dirty h', [Z.of_N (tf h')], Z.of_N (remlen h'))
  | Err _ n =>
      exists d di m r,
        go_message_decode (zb (dbuf h)) (dirty h) [Z.of_N (tf h)] (Z.of_N (remlen h)) (zb src) =
        Some (Z.of_nat n, true, d, di, m, r)
  | Panic => False
  end.

(* header.encode (with msglen, Type, Valid) = Codec.Impl.hdr_encode: never panics; refuses - without touching the
   destination - a destination that is too short, a remaining length out of range and an invalid type; otherwise writes
   the type/flags byte and the minimal encoding of the remaining length at the start of the destination *)
Definition T_header_encode : Prop := forall (h : hdr) (dst : bytes),
  match hdr_encode h (length dst) with
  | Ok bs =>
      go_message_encode (dirty h) [Z.of_N (tf h)] (Z.of_N (remlen h)) (zb dst) =
      Some (Z.of_nat (length bs), false, dirty h, [Z.of_N (tf h)], zb (bs ++ skipn (length bs) dst))
  | Err _ _ =>
      go_message_encode (dirty h) [Z.of_N (tf h)] (Z.of_N (remlen h)) (zb dst) =
      Some (0%Z, true, dirty h, [Z.of_N (tf h)], zb dst)
  | Panic => False
  end.

(* header.SetRemainingLength = Codec.Impl.set_remlen *)
Definition T_SetRemainingLength : Prop := forall (h : hdr) (r : N),
  go_message_SetRemainingLength (dirty h) (Z.of_N (remlen h)) (Z.of_N r) =
  Some (match set_remlen h r with
        | Some h' => (false, dirty h', Z.of_N (remlen h'))
        | None => (true, dirty h, Z.of_N (remlen h))
        end).
