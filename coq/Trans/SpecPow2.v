(* Statements tying the translations of the ring arithmetic of sessions/ackqueue.go and service/buffer.go (powerOfTwo64,
   roundUpPowerOfTwo64: both copies) to their models (see Trans/Spec.v for the conventions). *)
From Coq Require Import ZArith.
From Base Require Import Tactics Bytes GoSem.
From Gen Require Import Tables Translated.
From Trans Require Export Common.
Open Scope N_scope.

(* powerOfTwo64 (both copies): true exactly on the powers of two *)
Definition T_powerOfTwo : Prop := forall n : N,
  (go_sessions_powerOfTwo64 (Z.of_N n) = Some true <-> exists k, n = 2 ^ k)
  /\ go_service_powerOfTwo64 (Z.of_N n) = go_sessions_powerOfTwo64 (Z.of_N n)
  /\ go_sessions_powerOfTwo64 (Z.of_N n) <> None.

(* roundUpPowerOfTwo64 (both copies): the least power of two that is not below n, for 0 < n <= 2^62 *)
Definition T_roundUp : Prop := forall n : N,
  0 < n -> n <= 2 ^ 62 ->
  exists k, go_sessions_roundUpPowerOfTwo64 (Z.of_N n) = Some (Z.of_N (2 ^ k))
            /\ go_service_roundUpPowerOfTwo64 (Z.of_N n) = Some (Z.of_N (2 ^ k))
            /\ n <= 2 ^ k /\ 2 ^ k < 2 * n.
