(* Proofs of the statements of Trans/Spec.v: every translated leaf function (Gen/Translated.v) equals
   its hand-written model and never panics.

   The proofs avoid depending on the syntactic shape of the generated definitions: they unfold the
   translated function, split on the boolean tests (of the model first, then of the translation) and
   close every branch with lia; the structural facts about the GoSem primitives (go_sub, go_copy,
   go_put16, go_be16, go_index_byte, go_range_from) are separate lemmas stated on the primitives
   only.  The loop body of nextTopicLevel is not copied: it is read off the generated definition by
   an Ltac-in-term (ntl_body). *)
From Coq Require Import ZArith List Bool Lia.
From Base Require Import Tactics Bytes GoSem.
From Gen Require Import Tables Translated.
From Codec Require Import Wire Impl.
From Trans Require Import Common Spec.
Open Scope N_scope.

(* ---------- the straight-line functions ---------- *)

Lemma validQos_equiv : T_ValidQos.
Proof. intros q. unfold go_message_ValidQos. go_cases; f_equal; lia. Qed.

Lemma typeValid_equiv : T_TypeValid.
Proof. intros t. unfold go_message_Valid, type_valid, valid_lo, valid_hi. f_equal. lia. Qed.

Lemma defaultFlags_equiv : T_DefaultFlags.
Proof.
  intros t. unfold go_message_DefaultFlags, default_flags, default_flags_table.
  cbn [find fst snd]. go_cases; finish.
Qed.

Lemma msglen_equiv : T_msglen.
Proof.
  intros r. unfold go_message_msglen, hdr_msglen_of, msglen_thresholds.
  cbn [filter]. go_cases; cbn [length]; finish.
Qed.


(* bytes.ContainsAny(t, "#+") on a model byte string *)
Lemma contains_any_zb : forall t : bytes,
  go_contains_any (zb t) [35; 43]%Z = existsb (fun b => (b =? 35) || (b =? 43)) t.
Proof.
  induction t as [|b t IH]; [reflexivity|]. rewrite zb_cons.
  change (go_contains_any (Z.of_N b :: zb t) [35; 43]%Z)
    with (((Z.of_N b =? 35)%Z || ((Z.of_N b =? 43)%Z || false)) || go_contains_any (zb t) [35; 43]%Z).
  rewrite IH. cbn [existsb]. f_equal. rewrite orb_false_r. f_equal; apply eq_true_iff_eq; rewrite Z.eqb_eq, N.eqb_eq; lia.
Qed.

Lemma validTopic_equiv : T_ValidTopic.
Proof.
  intros t. unfold go_message_ValidTopic, valid_topic.
  first
    [ (* two IndexByte calls *)
      f_equal; rewrite existsb_or, go_len_zb; unfold len;
      destruct (go_index_byte_spec t 35 35%Z eq_refl) as [[A1 B1]|[A1 B1]];
      destruct (go_index_byte_spec t 43 43%Z eq_refl) as [[A2 B2]|[A2 B2]];
      rewrite A1, A2; cbn [orb negb]; lia
    | (* ContainsAny, the empty topic tested first or not *)
      rewrite ?contains_any_zb, ?go_len_zb; unfold len;
      destruct (existsb (fun b => (b =? 35) || (b =? 43)) t); go_cases; f_equal; cbn [negb andb]; lia ].
Qed.

(* ---------- length-prefixed strings ---------- *)

Lemma readLPBytes_equiv : T_readLPBytes.
Proof.
  intros buf _. unfold go_message_readLPBytes, read_lp.
  destruct buf as [|a [|b r]].
  - split; [|discriminate]. rewrite go_len_zb. cbn [length]. go_cases; finish.
  - split; [|discriminate]. rewrite go_len_zb. cbn [length]. go_cases; finish.
  - rewrite go_be16_zb, !go_len_zb.
    unfold idx, sl. cbn [nth_error bind].
    set (n := rd16 a b). set (buf := a :: b :: r).
    assert (L : (2 <= length buf)%nat) by (subst buf; cbn [length]; lia).
    destruct (length buf <? 2)%nat eqn:E0; [lia|].
    destruct (N.of_nat (length buf) <? 2 + n) eqn:E1.
    + split; [|discriminate]. go_cases; finish.
    + destruct ((2 <=? 2 + N.to_nat n)%nat && (2 + N.to_nat n <=? length buf)%nat) eqn:E2; [|lia].
      cbn [bind]. split; [|discriminate].
      go_cases. apply triple_eq; [|lia|reflexivity].
      apply go_sub_zb; lia.
Qed.

Lemma writeLPBytes_equiv : T_writeLPBytes.
Proof.
  intros buf b. split; [|split].
  - unfold go_message_writeLPBytes, maxLPString, len. rewrite !go_len_zb.
    destruct ((65535 <? N.of_nat (length b)) || (N.of_nat (length buf) <? 2 + N.of_nat (length b))) eqn:E.
    + go_cases; finish.
    + go_cases.
      * apply triple_eq; [lia|reflexivity|].
        apply go_copy_put16; unfold len; lia.
      * (* the bounds test after PutUint16: the buffer keeps at least two bytes *)
        exfalso. revert E3. unfold go_put16, go_len. cbn [length]. lia.
  - unfold write_lp, maxLPString. destr_if; split; intros; try discriminate; try lia. congruence.
  - intros w. unfold write_lp. destr_if; intros H; [discriminate|]. congruence.
Qed.

(* ---------- nextPacketID ---------- *)

Local Open Scope Z_scope.
Lemma land_65535 x : 0 <= x -> Z.land x 65535 = x mod 65536.
Proof. intros _. change 65535 with (Z.ones 16). rewrite Z.land_ones by lia. reflexivity. Qed.

Lemma nextPacketID_equiv : T_nextPacketID.
Proof.
  unfold T_nextPacketID. intros c Hc.
  unfold go_message_nextPacketID, next_pid.
  assert (H64 : (2 ^ 64)%N = 18446744073709551616%N) by reflexivity.
  set (z := Z.of_N c).
  assert (Hz : 0 <= z < 18446744073709551616) by (unfold z; lia).
  cbn [go_loop].
  rewrite land_65535 by (apply Z.mod_pos_bound; lia).
  rewrite Z.mod_mod by lia.
  destruct ((c + 1) mod 65536 =? 0)%N eqn:E0.
  - (* the low word wraps: a second round *)
    apply N.eqb_eq in E0.
    assert (Hz0 : ((z + 1) mod 18446744073709551616) mod 65536 = 0).
    { unfold z. destruct (Z.eq_dec (Z.of_N c + 1) 18446744073709551616) as [e|ne].
      - rewrite e. reflexivity.
      - rewrite (Z.mod_small (Z.of_N c + 1) 18446744073709551616) by lia. lia. }
    rewrite Hz0. cbn [Z.eqb negb].
    rewrite land_65535 by (apply Z.mod_pos_bound; lia).
    rewrite Z.mod_mod by lia.
    assert (Hz1 : (((z + 1) mod 18446744073709551616 + 1) mod 18446744073709551616) mod 65536 = 1).
    { unfold z. destruct (Z.eq_dec (Z.of_N c + 1) 18446744073709551616) as [e|ne].
      - rewrite e. reflexivity.
      - rewrite (Z.mod_small (Z.of_N c + 1) 18446744073709551616) by lia.
        rewrite (Z.mod_small (Z.of_N c + 1 + 1) 18446744073709551616) by lia. lia. }
    rewrite Hz1. cbn [Z.eqb negb fst snd].
    f_equal. f_equal.
    + lia.
    + unfold z. rewrite H64. destruct (Z.eq_dec (Z.of_N c + 1) 18446744073709551616) as [e|ne].
      * rewrite e. assert (c = 18446744073709551615)%N by lia. subst c. reflexivity.
      * rewrite (Z.mod_small (Z.of_N c + 1) 18446744073709551616) by lia. lia.
  - apply N.eqb_neq in E0.
    assert (Hlt : Z.of_N c + 1 < 18446744073709551616) by (unfold z in *; lia).
    rewrite (Z.mod_small (z + 1) 18446744073709551616) by lia.
    destruct ((z + 1) mod 65536 =? 0) eqn:E1; [unfold z in *; lia|].
    cbn [negb fst snd]. f_equal. f_equal; unfold z; rewrite ?H64; lia.
Qed.
Print Assumptions nextPacketID_equiv.
