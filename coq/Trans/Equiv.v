(* Proofs of the statements of Trans/Spec.v: every translated leaf function (Gen/Translated.v) equals
   its hand-written model and never panics.

   The proofs avoid depending on the syntactic shape of the generated definitions: they unfold the
   translated function, split on the boolean tests (of the model first, then of the translation) and
   close every branch with lia; the structural facts about the GoSem primitives (go_sub, go_copy,
   go_put16, go_be16, go_index_byte, go_range_from) are separate lemmas stated on the primitives
   only.  The loop body of nextTopicLevel is not copied: it is read off the generated definition by
   an Ltac-in-term (ntl_body). *)
From Coq Require Import ZArith List Bool Lia.
From Base Require Import Tactics Bytes GoSem.
From Gen Require Import Tables Translated.
From Codec Require Import Wire Impl.
From Topics Require Import Model.
From Ackq Require Import Model.
From Trans Require Import Spec.
Open Scope N_scope.

(* ---------- generic tactics ---------- *)

(* split on every `if` of the goal, discarding impossible branches *)
Ltac go_cases := repeat (destr_if; try lia).
(* split on every `if` of a hypothesis, discarding impossible branches *)
Ltac go_cases_in H := repeat (destr_if_in H; try lia).
(* close an equation between results *)
Ltac finish := try reflexivity; try lia; try (repeat f_equal; lia).

(* equality of two three-component results, component by component *)
Lemma triple_eq : forall (A B C : Type) (a a' : A) (b b' : B) (c c' : C),
  a = a' -> b = b' -> c = c' -> Some (a, b, c) = Some (a', b', c').
Proof. intros. subst. reflexivity. Qed.

(* ---------- the GoSem primitives on translated byte strings ---------- *)

Lemma go_len_zb : forall l, go_len (zb l) = Z.of_nat (length l).
Proof. intros. unfold go_len, zb. rewrite map_length. reflexivity. Qed.

Lemma zb_app : forall a b, zb (a ++ b) = zb a ++ zb b.
Proof. intros. unfold zb. apply map_app. Qed.

Lemma zb_cons : forall a l, zb (a :: l) = Z.of_N a :: zb l.
Proof. reflexivity. Qed.

(* l[lo:hi] of a translated string *)
Lemma go_sub_zb : forall l lo hi (a b : nat),
  lo = Z.of_nat a -> hi = Z.of_nat b -> (a <= b)%nat ->
  go_sub (zb l) lo hi = zb (firstn (b - a) (skipn a l)).
Proof.
  intros l lo hi a b -> -> Hab. unfold go_sub, zb.
  rewrite skipn_map, firstn_map. f_equal. f_equal; [lia|]. f_equal. lia.
Qed.

(* (pre ++ c :: r)[0:len pre] and (pre ++ c :: r)[len pre + 1 : len] *)
Lemma go_sub_pre : forall (pre r : list Z) c lo hi,
  lo = 0%Z -> hi = Z.of_nat (length pre) -> go_sub (pre ++ c :: r) lo hi = pre.
Proof.
  intros pre r c lo hi -> ->. unfold go_sub. rewrite Z.sub_0_r, Nat2Z.id.
  change (Z.to_nat 0) with 0%nat. cbn [skipn].
  rewrite firstn_app, Nat.sub_diag, firstn_all. cbn [firstn]. apply app_nil_r.
Qed.

Lemma go_sub_post : forall (pre r : list Z) c lo hi,
  lo = (Z.of_nat (length pre) + 1)%Z -> hi = (Z.of_nat (length pre) + 1 + Z.of_nat (length r))%Z ->
  go_sub (pre ++ c :: r) lo hi = r.
Proof.
  intros pre r c lo hi -> ->. unfold go_sub.
  replace (Z.to_nat (Z.of_nat (length pre) + 1)) with (length (pre ++ [c])) by (rewrite app_length; cbn [length]; lia).
  replace (pre ++ c :: r) with ((pre ++ [c]) ++ r) by (rewrite <- app_assoc; reflexivity).
  rewrite skipn_app, skipn_all, Nat.sub_diag. cbn [skipn app].
  replace (Z.to_nat _) with (length r) by lia. apply firstn_all.
Qed.

(* bytes.IndexByte: -1 exactly when the byte does not occur, a position otherwise *)
Lemma index_from_spec : forall (t : bytes) (c : N) (cz i : Z),
  cz = Z.of_N c -> (0 <= i)%Z ->
  (existsb (fun b => b =? c) t = false /\ index_from (zb t) cz i = (-1)%Z)
  \/ (existsb (fun b => b =? c) t = true /\ (i <= index_from (zb t) cz i)%Z).
Proof.
  induction t as [|x t IH]; intros c cz i Hc Hi.
  - left. split; reflexivity.
  - rewrite zb_cons. cbn [existsb index_from].
    destruct (x =? c) eqn:E.
    + right. split; [reflexivity|]. destr_if; lia.
    + destr_if; [lia|]. cbn [orb].
      destruct (IH c cz (i + 1)%Z Hc ltac:(lia)) as [[A B]|[A B]]; [left|right]; split; auto; lia.
Qed.

Lemma go_index_byte_spec : forall (t : bytes) (c : N) (cz : Z),
  cz = Z.of_N c ->
  (existsb (fun b => b =? c) t = false /\ go_index_byte (zb t) cz = (-1)%Z)
  \/ (existsb (fun b => b =? c) t = true /\ (0 <= go_index_byte (zb t) cz)%Z).
Proof. intros. unfold go_index_byte. apply index_from_spec; [assumption|lia]. Qed.

Lemma existsb_or : forall (A : Type) (f g : A -> bool) l,
  existsb (fun x => f x || g x) l = existsb f l || existsb g l.
Proof.
  induction l as [|x l IH]; [reflexivity|]. cbn [existsb]. rewrite IH.
  destruct (f x), (g x), (existsb f l), (existsb g l); reflexivity.
Qed.

Lemma skipn_skipn' : forall (A : Type) (a b : nat) (l : list A), skipn a (skipn b l) = skipn (b + a) l.
Proof.
  intros A a b. induction b as [|b IH]; intros l; [reflexivity|].
  destruct l as [|x l]; [rewrite !skipn_nil; reflexivity|]. cbn [skipn Nat.add]. apply IH.
Qed.

(* binary.BigEndian.Uint16 of a translated string *)
Lemma go_be16_zb : forall a b r, go_be16 (zb (a :: b :: r)) = Z.of_N (rd16 a b).
Proof. intros. unfold go_be16, go_nth, rd16. rewrite !zb_cons. cbn [Z.to_nat nth]. change (Pos.to_nat 1) with 1%nat. cbn [nth]. lia. Qed.

(* PutUint16 followed by copy(buf[2:], b), the destination being long enough *)
Lemma go_copy_put16 : forall (buf b : bytes) (v tot : Z),
  v = Z.of_N (len b) -> len b <= 65535 -> tot = 2%Z -> (2 + length b <= length buf)%nat ->
  go_copy (go_put16 (zb buf) v) tot (zb b) = zb (lp b ++ skipn (2 + length b) buf).
Proof.
  intros buf b v tot -> Hb -> Hl.
  destruct buf as [|x [|y buf]]; cbn [length] in Hl; try lia.
  unfold go_copy, go_put16, lp, be16.
  change (Z.to_nat 2) with 2%nat. rewrite !zb_cons. cbn [skipn length Nat.add].
  assert (Lb : length (zb b) = length b) by (unfold zb; apply map_length).
  assert (Lf : length (zb buf) = length buf) by (unfold zb; apply map_length).
  rewrite Lb, Lf.
  replace (Nat.min (S (S (length buf)) - 2) (length b)) with (length b) by lia.
  cbn [firstn]. rewrite <- Lb, firstn_all, Lb.
  rewrite !zb_app. cbn [app]. rewrite !zb_cons. cbn [zb map app].
  f_equal; [lia|]. f_equal; [lia|]. f_equal.
  unfold zb. rewrite skipn_map. reflexivity.
Qed.

(* ---------- the straight-line functions ---------- *)

Lemma validQos_equiv : T_ValidQos.
Proof. intros q. unfold go_message_ValidQos. f_equal. lia. Qed.

Lemma typeValid_equiv : T_TypeValid.
Proof. intros t. unfold go_message_Valid, type_valid, valid_lo, valid_hi. f_equal. lia. Qed.

Lemma defaultFlags_equiv : T_DefaultFlags.
Proof.
  intros t. unfold go_message_DefaultFlags, default_flags, default_flags_table.
  cbn [find fst snd]. go_cases; finish.
Qed.

Lemma msglen_equiv : T_msglen.
Proof.
  intros r. unfold go_message_msglen, hdr_msglen_of, msglen_thresholds.
  cbn [filter]. go_cases; cbn [length]; finish.
Qed.

Lemma full_empty_equiv : T_full_empty.
Proof. intros count size. unfold go_sessions_full, go_sessions_empty. split; f_equal; lia. Qed.

Lemma validTopic_equiv : T_ValidTopic.
Proof.
  intros t. unfold go_message_ValidTopic, valid_topic. f_equal.
  rewrite existsb_or, go_len_zb. unfold len.
  destruct (go_index_byte_spec t 35 35%Z eq_refl) as [[A1 B1]|[A1 B1]];
  destruct (go_index_byte_spec t 43 43%Z eq_refl) as [[A2 B2]|[A2 B2]];
  rewrite A1, A2; cbn [orb negb]; lia.
Qed.

(* ---------- length-prefixed strings ---------- *)

Lemma readLPBytes_equiv : T_readLPBytes.
Proof.
  intros buf _. unfold go_message_readLPBytes, read_lp.
  destruct buf as [|a [|b r]].
  - split; [|discriminate]. rewrite go_len_zb. cbn [length]. go_cases; finish.
  - split; [|discriminate]. rewrite go_len_zb. cbn [length]. go_cases; finish.
  - rewrite go_be16_zb, !go_len_zb.
    unfold idx, sl. cbn [nth_error bind].
    set (n := rd16 a b). set (buf := a :: b :: r).
    assert (L : (2 <= length buf)%nat) by (subst buf; cbn [length]; lia).
    destruct (length buf <? 2)%nat eqn:E0; [lia|].
    destruct (N.of_nat (length buf) <? 2 + n) eqn:E1.
    + split; [|discriminate]. go_cases; finish.
    + destruct ((2 <=? 2 + N.to_nat n)%nat && (2 + N.to_nat n <=? length buf)%nat) eqn:E2; [|lia].
      cbn [bind]. split; [|discriminate].
      go_cases. apply triple_eq; [|lia|reflexivity].
      apply go_sub_zb; lia.
Qed.

Lemma writeLPBytes_equiv : T_writeLPBytes.
Proof.
  intros buf b. split; [|split].
  - unfold go_message_writeLPBytes, maxLPString, len. rewrite !go_len_zb.
    destruct ((65535 <? N.of_nat (length b)) || (N.of_nat (length buf) <? 2 + N.of_nat (length b))) eqn:E.
    + go_cases; finish.
    + go_cases.
      * apply triple_eq; [lia|reflexivity|].
        apply go_copy_put16; unfold len; lia.
      * (* the bounds test after PutUint16: the buffer keeps at least two bytes *)
        exfalso. revert E3. unfold go_put16, go_len. cbn [length]. lia.
  - unfold write_lp, maxLPString. destr_if; split; intros; try discriminate; try lia. congruence.
  - intros w. unfold write_lp. destr_if; intros H; [discriminate|]. congruence.
Qed.

(* ---------- the ack queue ring arithmetic ---------- *)

Lemma index_equiv : T_index.
Proof.
  intros k n.
  assert (H : N.land n (2 ^ k - 1) = n mod 2 ^ k).
  { rewrite <- N.land_ones. f_equal. rewrite N.ones_equiv, N.pred_sub. reflexivity. }
  split; [|exact H].
  assert (HZ : Z.land (Z.of_N n) (Z.of_N (2 ^ k - 1)) = Z.of_N (n mod 2 ^ k)).
  { assert (P : (0 < 2 ^ k)) by (apply N.neq_0_lt_0, N.pow_nonzero; discriminate).
    rewrite N2Z.inj_sub by lia. rewrite N2Z.inj_mod, N2Z.inj_pow.
    change (Z.of_N 2) with 2%Z. change (Z.of_N 1) with 1%Z.
    rewrite <- Z.land_ones by lia. f_equal. rewrite Z.ones_equiv. lia. }
  unfold go_sessions_index. f_equal.
  first [exact HZ | rewrite Z.land_comm; exact HZ].
Qed.

(* n & (n-1) == 0 on positive integers: the powers of two *)
Lemma land_pred_pow2 : forall z : Z, (0 < z)%Z ->
  (Z.land z (z - 1) = 0%Z <-> exists k : Z, (0 <= k)%Z /\ z = (2 ^ k)%Z).
Proof.
  intros z Hz. split.
  - intros H. exists (Z.log2 z). split; [apply Z.log2_nonneg|].
    pose proof (Z.log2_spec z Hz) as [Lo Hi].
    destruct (Z.eq_dec z (2 ^ Z.log2 z)) as [|Ne]; [assumption|exfalso].
    assert (L1 : Z.log2 (z - 1) = Z.log2 z)
      by (apply Z.log2_unique; [apply Z.log2_nonneg|lia]).
    assert (B : Z.testbit (Z.land z (z - 1)) (Z.log2 z) = true).
    { rewrite Z.land_spec, (Z.bit_log2 z Hz).
      rewrite <- L1. rewrite Z.bit_log2; [reflexivity|].
      assert (0 < 2 ^ Z.log2 z)%Z by (apply Z.pow_pos_nonneg; [lia|apply Z.log2_nonneg]). lia. }
    rewrite H, Z.bits_0 in B. discriminate.
  - intros [k [Hk ->]].
    replace (2 ^ k - 1)%Z with (Z.ones k) by (rewrite Z.ones_equiv; lia).
    rewrite Z.land_ones by assumption. apply Z_mod_same_full.
Qed.

Definition pow2_test (z : Z) : bool := negb (z =? 0)%Z && (Z.land z (z - 1) =? 0)%Z.

Lemma pow2_test_spec : forall n : N, pow2_test (Z.of_N n) = true <-> exists k, n = 2 ^ k.
Proof.
  intros n. unfold pow2_test. split.
  - intros H. apply andb_true_iff in H as [H1 H2].
    assert (Hz : (0 < Z.of_N n)%Z) by lia.
    apply Z.eqb_eq in H2. apply (land_pred_pow2 _ Hz) in H2 as [k [Hk E]].
    exists (Z.to_N k). apply N2Z.inj. rewrite N2Z.inj_pow, Z2N.id by assumption. exact E.
  - intros [k ->].
    assert (Hz : (0 < Z.of_N (2 ^ k))%Z).
    { rewrite N2Z.inj_pow. apply Z.pow_pos_nonneg; lia. }
    apply andb_true_iff. split; [lia|]. apply Z.eqb_eq.
    apply (land_pred_pow2 _ Hz). exists (Z.of_N k). split; [lia|]. apply N2Z.inj_pow.
Qed.

Lemma powerOfTwo_equiv : T_powerOfTwo.
Proof.
  intros n.
  assert (A : go_sessions_powerOfTwo64 (Z.of_N n) = Some (pow2_test (Z.of_N n))).
  { unfold go_sessions_powerOfTwo64, pow2_test. f_equal; lia. }
  assert (B : go_service_powerOfTwo64 (Z.of_N n) = Some (pow2_test (Z.of_N n))).
  { unfold go_service_powerOfTwo64, pow2_test. f_equal; lia. }
  rewrite A, B. split; [|split; [reflexivity|discriminate]].
  rewrite <- pow2_test_spec. split; [congruence|intros ->; reflexivity].
Qed.

(* ---------- roundUpPowerOfTwo64: the or-cascade ---------- *)

(* bit i of y is set exactly when one of the bits i .. i+j-1 of x is *)
Definition covers (x j y : Z) : Prop :=
  forall i, (0 <= i)%Z ->
  (Z.testbit y i = true <-> exists d, (0 <= d < j)%Z /\ Z.testbit x (i + d) = true).

Lemma covers_init : forall x, covers x 1 x.
Proof.
  intros x i Hi. split.
  - intros H. exists 0%Z. split; [lia|]. rewrite Z.add_0_r. exact H.
  - intros [d [Hd H]]. replace d with 0%Z in H by lia. rewrite Z.add_0_r in H. exact H.
Qed.

Lemma covers_step : forall x j j' y, (0 < j)%Z -> j' = (2 * j)%Z ->
  covers x j y -> covers x j' (Z.lor y (Z.shiftr y j)).
Proof.
  intros x j j' y Hj -> C i Hi.
  rewrite Z.lor_spec, Z.shiftr_spec by assumption. rewrite orb_true_iff.
  rewrite (C i Hi), (C (i + j)%Z ltac:(lia)). split.
  - intros [[d [Hd H]]|[d [Hd H]]].
    + exists d. split; [lia|exact H].
    + exists (j + d)%Z. split; [lia|]. rewrite Z.add_assoc. exact H.
  - intros [d [Hd H]]. destruct (Z_lt_ge_dec d j) as [Lt|Ge].
    + left. exists d. split; [lia|exact H].
    + right. exists (d - j)%Z. split; [lia|]. replace (i + j + (d - j))%Z with (i + d)%Z by lia. exact H.
Qed.

Lemma covers_step_comm : forall x j j' y, (0 < j)%Z -> j' = (2 * j)%Z ->
  covers x j y -> covers x j' (Z.lor (Z.shiftr y j) y).
Proof. intros. rewrite Z.lor_comm. eapply covers_step; eassumption. Qed.

(* once 64 positions are covered, everything below the top bit of x < 2^64 is set *)
Lemma covers_final : forall x y, (0 < x < 2 ^ 64)%Z -> covers x 64 y ->
  y = Z.ones (Z.log2 x + 1).
Proof.
  intros x y [Hx Hb] C. apply Z.bits_inj'. intros i Hi.
  pose proof (Z.log2_nonneg x) as K0.
  assert (K : (Z.log2 x < 64)%Z) by (apply Z.log2_lt_pow2; assumption).
  destruct (Z_lt_ge_dec i (Z.log2 x + 1)) as [Lt|Ge].
  - rewrite Z.ones_spec_low by lia. apply (C i Hi).
    exists (Z.log2 x - i)%Z. split; [lia|].
    replace (i + (Z.log2 x - i))%Z with (Z.log2 x) by lia. apply Z.bit_log2. assumption.
  - rewrite Z.ones_spec_high by lia.
    destruct (Z.testbit y i) eqn:E; [|reflexivity].
    apply (C i Hi) in E as [d [Hd H]].
    rewrite Z.bits_above_log2 in H by lia. discriminate.
Qed.

Lemma covers_succ : forall x y, (0 < x < 2 ^ 64)%Z -> covers x 64 y ->
  (y + 1 = 2 ^ (Z.log2 x + 1))%Z.
Proof. intros x y Hx C. rewrite (covers_final x y Hx C), Z.ones_equiv. lia. Qed.

(* prove `covers x 64 (cascade)` for a cascade of steps y |= y >> j, j = 1, 2, 4, ..., 32 *)
Ltac cascade :=
  repeat (first [eapply covers_step | eapply covers_step_comm]; [lia|lia|]); apply covers_init.
Ltac round_up :=
  first [apply covers_succ | rewrite Z.add_comm; apply covers_succ]; [lia|cascade].

Lemma roundUp_sessions : forall z, (1 < z <= 2 ^ 64)%Z ->
  go_sessions_roundUpPowerOfTwo64 z = Some (2 ^ (Z.log2 (z - 1) + 1))%Z.
Proof.
  intros z Hz. unfold go_sessions_roundUpPowerOfTwo64. cbv zeta. f_equal.
  round_up.
Qed.

Lemma roundUp_service : forall z, (1 < z <= 2 ^ 64)%Z ->
  go_service_roundUpPowerOfTwo64 z = Some (2 ^ (Z.log2 (z - 1) + 1))%Z.
Proof.
  intros z Hz. unfold go_service_roundUpPowerOfTwo64. cbv zeta. f_equal.
  round_up.
Qed.

Lemma roundUp_equiv : T_roundUp.
Proof.
  intros n Hn Hb.
  destruct (N.eq_dec n 1) as [->|N1].
  - exists 0. repeat split; try reflexivity; lia.
  - assert (B62 : (Z.of_N n <= 2 ^ 62)%Z).
    { change (2 ^ 62)%Z with (Z.of_N (2 ^ 62)). lia. }
    assert (Hz : (1 < Z.of_N n <= 2 ^ 64)%Z) by lia.
    set (x := (Z.of_N n - 1)%Z) in *.
    assert (Hx : (0 < x)%Z) by lia.
    pose proof (Z.log2_nonneg x) as K0.
    pose proof (Z.log2_spec x Hx) as [Lo Hi].
    exists (Z.to_N (Z.log2 x + 1)).
    assert (P : Z.of_N (2 ^ Z.to_N (Z.log2 x + 1)) = (2 ^ (Z.log2 x + 1))%Z).
    { rewrite N2Z.inj_pow, Z2N.id by lia. reflexivity. }
    rewrite P.
    split; [apply roundUp_sessions; exact Hz|].
    split; [apply roundUp_service; exact Hz|].
    assert (S2 : (2 ^ (Z.log2 x + 1) = 2 * 2 ^ Z.log2 x)%Z) by (apply Z.pow_succ_r; lia).
    unfold Z.succ in Hi.
    generalize dependent (2 ^ Z.to_N (Z.log2 x + 1)). intros p P.
    generalize dependent (2 ^ (Z.log2 x + 1))%Z. intros q Hi S2 P.
    generalize dependent (2 ^ Z.log2 x)%Z. intros q0 Lo S2.
    subst x. lia.
Qed.

(* ---------- nextTopicLevel: the scanning loop ---------- *)

(* the loop body of the translation, read off the generated definition *)
Definition ntl_body (topic : list Z) : Z -> Z -> Z -> option (Z + (list Z * list Z * bool)) :=
  ltac:(let d := eval cbv beta zeta delta [go_topics_nextTopicLevel go_range] in (go_topics_nextTopicLevel topic) in
        match d with context [go_range_from _ _ ?b _] => exact b end).

(* what the function does with the outcome of the loop: panic, early return, or fall through to
   `return topic, nil, nil` *)
Definition ntl_fin (topic : list Z) (x : option (Z + (list Z * list Z * bool))) : option (list Z * list Z * bool) :=
  match x with
  | None => None
  | Some (inr r) => Some r
  | Some (inl _) => Some (topic, [], false)
  end.

(* the scanner states as the Go constants stateCHR, stateMWC, stateSWC, stateSYS *)
Definition st (s : lstate) : Z :=
  match s with sCHR => 0 | sMWC => 1 | sSWC => 2 | sSYS => 4 end.

Lemma ntl_unfold : forall topic,
  go_topics_nextTopicLevel topic = ntl_fin topic (go_range_from 0 topic (ntl_body topic) (st sCHR)).
Proof. reflexivity. Qed.

(* the result of the model as the translation returns it *)
Definition ntl_res (r : option (bytes * bytes)) : list Z * list Z * bool :=
  match r with Some (l, r) => (zb l, zb r, false) | None => ([], [], true) end.

(* the loop from position i = length pre in state s, topic = pre ++ rest, is the model's scan with
   accumulator rev pre *)
Lemma ntl_loop : forall (topic rest pre : bytes) (s : lstate) (i z : Z),
  topic = pre ++ rest -> i = Z.of_nat (length pre) -> z = st s ->
  ntl_fin (zb topic) (go_range_from i (zb rest) (ntl_body (zb topic)) z) =
  Some (ntl_res (scan rest (length pre) s (rev pre))).
Proof.
  intros topic rest. induction rest as [|c r IH]; intros pre s i z HT Hi Hz.
  - cbn [zb map go_range_from ntl_fin scan ntl_res]. rewrite rev_involutive.
    subst topic. rewrite app_nil_r. reflexivity.
  - rewrite zb_cons. cbn [go_range_from].
    (* facts about the slices of topic the body may take *)
    assert (TZ : zb topic = zb pre ++ Z.of_N c :: zb r) by (subst topic; rewrite zb_app, zb_cons; reflexivity).
    assert (LP : length (zb pre) = length pre) by (unfold zb; apply map_length).
    assert (LR : length (zb r) = length r) by (unfold zb; apply map_length).
    assert (L : go_len (zb topic) = (i + 1 + Z.of_nat (length r))%Z).
    { rewrite TZ. unfold go_len. rewrite app_length. cbn [length]. lia. }
    assert (P1 : forall lo hi, lo = 0%Z -> hi = i -> go_sub (zb topic) lo hi = zb pre).
    { intros lo hi H1 H2. rewrite TZ. apply go_sub_pre; [assumption|]. rewrite LP. lia. }
    assert (P2 : forall lo hi, lo = (i + 1)%Z -> hi = go_len (zb topic) -> go_sub (zb topic) lo hi = zb r).
    { intros lo hi H1 H2. rewrite L in H2. rewrite TZ. apply go_sub_post; rewrite LP, ?LR; lia. }
    (* the induction hypothesis at pre ++ [c] *)
    specialize (IH (pre ++ [c])).
    rewrite app_length, rev_app_distr in IH. cbn [length rev app] in IH.
    rewrite Nat.add_1_r, <- app_assoc in IH. cbn [app] in IH.
    specialize (fun s' z' => IH s' (i + 1)%Z z' HT ltac:(lia)).
    clear TZ HT LP LR.
    remember (zb topic) as T eqn:ET. clear ET.
    (* one iteration *)
    remember (ntl_body T i (Z.of_N c) z) as B eqn:EB.
    unfold ntl_body in EB. cbn [scan]. unfold SEP, MWC, SWC, SYS.
    destruct s; cbn [st] in Hz; subst z;
      go_cases; go_cases_in EB; subst B;
      try (apply IH; reflexivity);
      cbn [ntl_fin ntl_res]; rewrite ?rev_involutive;
      try reflexivity;
      apply triple_eq; try reflexivity; try (apply P1; lia); try (apply P2; lia).
Qed.

Lemma nextTopicLevel_equiv : T_nextTopicLevel.
Proof.
  intros t. rewrite ntl_unfold.
  rewrite (ntl_loop t t [] sCHR 0%Z (st sCHR) eq_refl eq_refl eq_refl).
  unfold next_level, ntl_res. cbn [length rev]. reflexivity.
Qed.

(* ---------- nextPacketID ---------- *)

Local Open Scope Z_scope.
Lemma land_65535 x : 0 <= x -> Z.land x 65535 = x mod 65536.
Proof. intros _. change 65535 with (Z.ones 16). rewrite Z.land_ones by lia. reflexivity. Qed.

Lemma nextPacketID_equiv : T_nextPacketID.
Proof.
  unfold T_nextPacketID. intros c Hc.
  unfold go_message_nextPacketID, next_pid.
  assert (H64 : (2 ^ 64)%N = 18446744073709551616%N) by reflexivity.
  set (z := Z.of_N c).
  assert (Hz : 0 <= z < 18446744073709551616) by (unfold z; lia).
  cbn [go_loop].
  rewrite land_65535 by (apply Z.mod_pos_bound; lia).
  rewrite Z.mod_mod by lia.
  destruct ((c + 1) mod 65536 =? 0)%N eqn:E0.
  - (* the low word wraps: a second round *)
    apply N.eqb_eq in E0.
    assert (Hz0 : ((z + 1) mod 18446744073709551616) mod 65536 = 0).
    { unfold z. destruct (Z.eq_dec (Z.of_N c + 1) 18446744073709551616) as [e|ne].
      - rewrite e. reflexivity.
      - rewrite (Z.mod_small (Z.of_N c + 1) 18446744073709551616) by lia. lia. }
    rewrite Hz0. cbn [Z.eqb negb].
    rewrite land_65535 by (apply Z.mod_pos_bound; lia).
    rewrite Z.mod_mod by lia.
    assert (Hz1 : (((z + 1) mod 18446744073709551616 + 1) mod 18446744073709551616) mod 65536 = 1).
    { unfold z. destruct (Z.eq_dec (Z.of_N c + 1) 18446744073709551616) as [e|ne].
      - rewrite e. reflexivity.
      - rewrite (Z.mod_small (Z.of_N c + 1) 18446744073709551616) by lia.
        rewrite (Z.mod_small (Z.of_N c + 1 + 1) 18446744073709551616) by lia. lia. }
    rewrite Hz1. cbn [Z.eqb negb fst snd].
    f_equal. f_equal.
    + lia.
    + unfold z. rewrite H64. destruct (Z.eq_dec (Z.of_N c + 1) 18446744073709551616) as [e|ne].
      * rewrite e. assert (c = 18446744073709551615)%N by lia. subst c. reflexivity.
      * rewrite (Z.mod_small (Z.of_N c + 1) 18446744073709551616) by lia. lia.
  - apply N.eqb_neq in E0.
    assert (Hlt : Z.of_N c + 1 < 18446744073709551616) by (unfold z in *; lia).
    rewrite (Z.mod_small (z + 1) 18446744073709551616) by lia.
    destruct ((z + 1) mod 65536 =? 0) eqn:E1; [unfold z in *; lia|].
    cbn [negb fst snd]. f_equal. f_equal; unfold z; rewrite ?H64; lia.
Qed.

Print Assumptions nextTopicLevel_equiv.
Print Assumptions validTopic_equiv.
Print Assumptions validQos_equiv.
Print Assumptions typeValid_equiv.
Print Assumptions defaultFlags_equiv.
Print Assumptions msglen_equiv.
Print Assumptions readLPBytes_equiv.
Print Assumptions writeLPBytes_equiv.
Print Assumptions index_equiv.
Print Assumptions full_empty_equiv.
Print Assumptions powerOfTwo_equiv.
Print Assumptions roundUp_equiv.
Print Assumptions nextPacketID_equiv.
