(* Proof of Trans/SpecTopics.v.  The loop body of nextTopicLevel is not copied: it is read off the generated definition by an
   Ltac-in-term (ntl_body). *)
From Coq Require Import ZArith List Bool Lia.
From Base Require Import Tactics Bytes GoSem.
From Gen Require Import Tables Translated.
From Topics Require Import Model.
From Trans Require Import Common SpecTopics.
Open Scope N_scope.

(* ---------- nextTopicLevel: the scanning loop ---------- *)

(* the loop body of the translation, read off the generated definition *)
Definition ntl_body (topic : list Z) : Z -> Z -> Z -> option (Z + (list Z * list Z * bool)) :=
  ltac:(let d := eval cbv beta zeta delta [go_topics_nextTopicLevel go_range] in (go_topics_nextTopicLevel topic) in
        match d with context [go_range_from _ _ ?b _] => exact b end).

(* what the function does with the outcome of the loop: panic, early return, or fall through to
   `return topic, nil, nil` *)
Definition ntl_fin (topic : list Z) (x : option (Z + (list Z * list Z * bool))) : option (list Z * list Z * bool) :=
  match x with
  | None => None
  | Some (inr r) => Some r
  | Some (inl _) => Some (topic, [], false)
  end.

(* the scanner states as the Go constants stateCHR, stateMWC, stateSWC, stateSYS *)
Definition st (s : lstate) : Z :=
  match s with sCHR => 0 | sMWC => 1 | sSWC => 2 | sSYS => 4 end.

Lemma ntl_unfold : forall topic,
  go_topics_nextTopicLevel topic = ntl_fin topic (go_range_from 0 topic (ntl_body topic) (st sCHR)).
Proof. reflexivity. Qed.

(* the result of the model as the translation returns it *)
Definition ntl_res (r : option (bytes * bytes)) : list Z * list Z * bool :=
  match r with Some (l, r) => (zb l, zb r, false) | None => ([], [], true) end.

(* the loop from position i = length pre in state s, topic = pre ++ rest, is the model's scan with
   accumulator rev pre *)
Lemma ntl_loop : forall (topic rest pre : bytes) (s : lstate) (i z : Z),
  topic = pre ++ rest -> i = Z.of_nat (length pre) -> z = st s ->
  ntl_fin (zb topic) (go_range_from i (zb rest) (ntl_body (zb topic)) z) =
  Some (ntl_res (scan rest (length pre) s (rev pre))).
Proof.
  intros topic rest. induction rest as [|c r IH]; intros pre s i z HT Hi Hz.
  - cbn [zb map go_range_from ntl_fin scan ntl_res]. rewrite rev_involutive.
    subst topic. rewrite app_nil_r. reflexivity.
  - rewrite zb_cons. cbn [go_range_from].
    (* facts about the slices of topic the body may take *)
    assert (TZ : zb topic = zb pre ++ Z.of_N c :: zb r) by (subst topic; rewrite zb_app, zb_cons; reflexivity).
    assert (LP : length (zb pre) = length pre) by (unfold zb; apply map_length).
    assert (LR : length (zb r) = length r) by (unfold zb; apply map_length).
    assert (L : go_len (zb topic) = (i + 1 + Z.of_nat (length r))%Z).
    { rewrite TZ. unfold go_len. rewrite app_length. cbn [length]. lia. }
    assert (P1 : forall lo hi, lo = 0%Z -> hi = i -> go_sub (zb topic) lo hi = zb pre).
    { intros lo hi H1 H2. rewrite TZ. apply go_sub_pre; [assumption|]. rewrite LP. lia. }
    assert (P2 : forall lo hi, lo = (i + 1)%Z -> hi = go_len (zb topic) -> go_sub (zb topic) lo hi = zb r).
    { intros lo hi H1 H2. rewrite L in H2. rewrite TZ. apply go_sub_post; rewrite LP, ?LR; lia. }
    (* the induction hypothesis at pre ++ [c] *)
    specialize (IH (pre ++ [c])).
    rewrite app_length, rev_app_distr in IH. cbn [length rev app] in IH.
    rewrite Nat.add_1_r, <- app_assoc in IH. cbn [app] in IH.
    specialize (fun s' z' => IH s' (i + 1)%Z z' HT ltac:(lia)).
    clear TZ HT LP LR.
    remember (zb topic) as T eqn:ET. clear ET.
    (* one iteration *)
    remember (ntl_body T i (Z.of_N c) z) as B eqn:EB.
    unfold ntl_body in EB. cbn [scan]. unfold SEP, MWC, SWC, SYS.
    destruct s; cbn [st] in Hz; subst z;
      go_cases; go_cases_in EB; subst B;
      try (apply IH; reflexivity);
      cbn [ntl_fin ntl_res]; rewrite ?rev_involutive;
      try reflexivity;
      apply triple_eq; try reflexivity; try (apply P1; lia); try (apply P2; lia).
Qed.

Lemma nextTopicLevel_equiv : T_nextTopicLevel.
Proof.
  intros t. rewrite ntl_unfold.
  rewrite (ntl_loop t t [] sCHR 0%Z (st sCHR) eq_refl eq_refl eq_refl).
  unfold next_level, ntl_res. cbn [length rev]. reflexivity.
Qed.

