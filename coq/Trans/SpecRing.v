(* Statements that tie the Gallina translation of service/buffer.go in its sequential reading (Gen/Translated.v,
   regenerated from /repo on every run by tools/gentables/trans.go after the pre-pass seq.go) to the sequential
   model of the byte ring, Ring/Seq.v - the model the sequential correspondence of ringdrv runs and whose
   operations the byte-granular model Ring/Conc.v splits into steps.  Each statement says: on every well-formed
   ring state and for every argument the translated method does not panic, leaves the cursors / gate / done flag
   / ring bytes as the model operation does, and returns what it returns (error codes: 0 nil, 1 io.EOF,
   2 bufio.ErrBufferFull, 3 ErrBufferInsufficientData, 5 the call would block). *)
From Coq Require Import ZArith List Bool.
From Base Require Import Tactics Bytes GoSem.
From Gen Require Import Translated.
From Ring Require Import Seq.
Open Scope Z_scope.

Definition zb (l : list N) : list Z := map Z.of_N l.
Definition dz (b : bool) : Z := if b then 1 else 0.

(* what newBuffer establishes and every method maintains: the size is a power of two, mask = size - 1 (passed as
   such below), the ring holds size bytes *)
Definition ring_ok (r : ring) : Prop :=
  (exists k, 0 <= k /\ size r = 2 ^ k) /\ Z.of_nat (length (buf r)) = size r.

Definition set_gate (r : ring) (g : Z) : ring := mkRing (size r) (buf r) (pseq r) (cseq r) g (done r).

(* isDone, Len, Close *)
Definition T_ring_isDone : Prop := forall r : ring, go_service_isDone (dz (done r)) = Some (done r).
Definition T_ring_Len : Prop := forall r : ring, go_service_Len (cseq r) (pseq r) = Some (rlen r).
Definition T_ring_Close : Prop := forall r : ring, go_service_Close (dz (done r)) = Some (0, dz (done (r_close r))).

(* waitForWriteSpace(n) = wfs: start position and count, or EOF, or the call blocks; only the gate changes
   (pw: the counter of waiting producers, which only a blocking call touches) *)
Definition T_ring_waitForWriteSpace : Prop := forall (r : ring) (n pw : Z),
  go_service_waitForWriteSpace (cseq r) (dz (done r)) (pseq r) (gate r) pw (size r) n =
  Some (match wfs r n with
        | (r', ROk start) => (start, n, 0, gate r', pw)
        | (r', REof) => (0, 0, 1, gate r', pw)
        | (r', _) => (0, 0, 5, gate r', pw + 1)
        end)
  /\ fst (wfs r n) = set_gate r (gate (fst (wfs r n))).

(* WriteCommit(n) *)
Definition T_ring_WriteCommit : Prop := forall (r : ring) (n pw : Z),
  go_service_WriteCommit (cseq r) (dz (done r)) (pseq r) (gate r) pw (size r) n =
  Some (match r_write_commit r n with
        | (r', ROk k) => (k, 0, pseq r', gate r', pw)
        | (r', REof) => (0, 1, pseq r', gate r', pw)
        | (r', _) => (0, 5, pseq r', gate r', pw + 1)
        end).

(* ReadCommit(n), n >= 0 *)
Definition T_ring_ReadCommit : Prop := forall (r : ring) (n : Z), 0 <= n ->
  go_service_ReadCommit (cseq r) (pseq r) (size r) n =
  Some (match r_read_commit r n with
        | (r', ROk k) => (k, 0, cseq r')
        | (r', RFull) => (0, 2, cseq r')
        | (r', _) => (0, 3, cseq r')
        end).

(* WriteWait(n), 0 <= n <= size: the window is the slice of the ring the model describes by start index, length and
   wrap flag *)
Definition T_ring_WriteWait : Prop := forall (r : ring) (n pw : Z), ring_ok r -> 0 <= n <= size r ->
  go_service_WriteWait (zb (buf r)) (cseq r) (dz (done r)) (size r - 1) (pseq r) (gate r) pw (size r) n =
  Some (match r_write_wait r n with
        | (r', ROk (s, l, w)) => (go_sub (zb (buf r)) s (s + l), w, 0, gate r', pw)
        | (r', REof) => ([], false, 1, gate r', pw)
        | (r', _) => ([], false, 5, gate r', pw + 1)
        end).

(* ReadWait(n), n >= 0: the n bytes at the consumer cursor (copied into the scratch buffer when they wrap), or
   EOF / buffer full / the call blocks; tmp: the scratch buffer, of which nothing is assumed *)
Definition T_ring_ReadWait : Prop := forall (r : ring) (tmp : list Z) (n : Z), ring_ok r -> 0 <= n ->
  exists tmp',
  go_service_ReadWait (zb (buf r)) (cseq r) (dz (done r)) (size r - 1) (pseq r) (size r) tmp n =
  Some (match r_read_wait r n with
        | ROk l => (zb l, 0, tmp')
        | REof => ([], 1, tmp')
        | RFull => ([], 2, tmp')
        | _ => ([], 5, tmp')
        end).

(* ReadPeek(n), n >= 0: up to n bytes at the consumer cursor; error 3 when fewer than n are there *)
Definition T_ring_ReadPeek : Prop := forall (r : ring) (tmp : list Z) (n cw : Z), ring_ok r -> 0 <= n -> cseq r <= pseq r <= cseq r + size r ->
  exists tmp' cw',
  go_service_ReadPeek (zb (buf r)) (cseq r) cw (dz (done r)) (size r - 1) (pseq r) (size r) tmp n =
  Some (match r_read_peek r n with
        | ROk (l, short) => (zb l, if short then 3 else 0, cw', tmp')
        | REof => ([], 1, cw', tmp')
        | RFull => ([], 2, cw', tmp')
        | _ => ([], 5, cw', tmp')
        end).

(* ringCopy(dst, src, start), 0 <= start < len(dst), len(src) <= len(dst): byte k of src goes to index
   (start + k) mod len(dst) *)
Definition T_ring_ringCopy : Prop := forall (dst src : list N) (start : Z),
  0 <= start < Z.of_nat (length dst) -> (length src <= length dst)%nat ->
  go_service_ringCopy (zb dst) (zb src) start =
  Some (Z.of_nat (length src), zb (ring_copy (Z.of_nat (length dst)) dst src start)).

(* Write(p), len(p) <= size *)
Definition T_ring_Write : Prop := forall (r : ring) (p : list N) (pw : Z), ring_ok r -> Z.of_nat (length p) <= size r ->
  go_service_Write (zb (buf r)) (cseq r) (dz (done r)) (size r - 1) (pseq r) (gate r) pw (size r) (zb p) =
  Some (match r_write r p with
        | (r', ROk k) => (k, 0, zb (buf r'), pseq r', gate r', pw)
        | (r', REof) => (0, 1, zb (buf r'), pseq r', gate r', pw)
        | (r', _) => (0, 5, zb (buf r'), pseq r', gate r', pw + 1)
        end).

(* Read(p): the bytes copied are the first n bytes of p afterwards *)
Definition T_ring_Read : Prop := forall (r : ring) (p : list Z) (cw : Z), ring_ok r -> cseq r <= pseq r <= cseq r + size r ->
  exists cw',
  go_service_Read (zb (buf r)) (cseq r) cw (dz (done r)) (size r - 1) (pseq r) (size r) p =
  Some (match r_read r (go_len p) with
        | (r', ROk l) => (go_len (zb l), 0, cseq r', cw', zb l ++ skipn (length l) p)
        | (r', REof) => (0, 1, cseq r', cw', p)
        | (r', _) => (0, 5, cseq r', cw', p)
        end).
