(* Proofs of the last two statements of Trans/Spec.v: the translated header.encode (Gen/Translated.v,
   go_message_encode, with the translated msglen, Type and Valid it calls) agrees with the model
   Codec.Impl.hdr_encode, and the translated header.SetRemainingLength with Codec.Impl.set_remlen.

   As in Trans/Equiv.v and Trans/EquivDecode.v the proofs do not depend on the syntactic shape of the
   generated definitions: the calls of the translated functions are rewritten by lemmas stated on those
   functions only (msglen_equiv, Type_len1, typeValid_equiv), the writes into the destination by one
   lemma stated on the GoSem primitives (put_header: dst[i] = tf followed by PutUvarint(dst[lo:], r)),
   and the remaining boolean tests are split one by one and closed by lia.  The arithmetic facts of
   substance are that encoding/binary.PutUvarint writes the model's varint (uvarint_enc_varint: both
   have fuel 10, so this holds for every value) and that, up to maxRemainingLength, the number of bytes
   it writes is what header.msglen predicts (varint_msglen). *)
From Coq Require Import ZArith List Bool Lia.
From Base Require Import Tactics Bytes GoSem.
From Gen Require Import Tables Translated.
From Codec Require Import Wire Impl.
From Trans Require Import Spec Equiv EquivDecode.
Open Scope N_scope.

(* ---------- encoding/binary.PutUvarint against Codec.Wire.varint ---------- *)

Lemma uvarint_bytes_varint : forall (f : nat) (n : N),
  uvarint_bytes f (Z.of_N n) = zb (varint_fuel f n).
Proof.
  induction f as [|f IH]; intros n; [reflexivity|].
  cbn [varint_fuel uvarint_bytes].
  destruct (n <? 128) eqn:E; destruct (Z.of_N n <? 128)%Z eqn:EZ; try lia.
  - reflexivity.
  - rewrite zb_cons, <- IH. f_equal; [lia|]. f_equal. lia.
Qed.

(* the bytes PutUvarint writes are the model's remaining-length encoding, for every value *)
Lemma uvarint_enc_varint : forall r : N, go_uvarint_enc (Z.of_N r) = zb (varint r).
Proof. intros r. unfold go_uvarint_enc, varint. apply uvarint_bytes_varint. Qed.

Lemma uvarint_len_varint : forall r : N, go_uvarint_len (Z.of_N r) = Z.of_nat (length (varint r)).
Proof. intros r. unfold go_uvarint_len. rewrite uvarint_enc_varint. apply go_len_zb. Qed.

(* header.msglen is one more than the length of the encoding, up to the largest remaining length *)
Lemma varint_msglen : forall r : N, r <= maxRemainingLength ->
  hdr_msglen_of r = S (length (varint r)).
Proof.
  intros r Hr. unfold maxRemainingLength in Hr.
  unfold hdr_msglen_of, msglen_thresholds, varint.
  cbn [varint_fuel filter]. go_cases; cbn [length]; lia.
Qed.

(* ---------- the writes into the destination ---------- *)

Lemma go_nth_single : forall (v i : Z), i = 0%Z -> go_nth [v] i = v.
Proof. intros v i ->. reflexivity. Qed.

Lemma go_len_single : forall v : Z, go_len [v] = 1%Z.
Proof. reflexivity. Qed.

Lemma set_nth_length : forall (l : list Z) (i : nat) (v : Z), length (GoSem.set_nth l i v) = length l.
Proof.
  induction l as [|x l IH]; intros i v; [reflexivity|].
  destruct i; cbn [GoSem.set_nth length]; [reflexivity|]. rewrite IH. reflexivity.
Qed.

(* dst[i] = v does not change len(dst) *)
Lemma go_len_set : forall (l : list Z) (i v : Z), go_len (go_set l i v) = go_len l.
Proof. intros. unfold go_len, go_set. rewrite set_nth_length. reflexivity. Qed.

(* dst[0] = tf; PutUvarint(dst[1:], r), the destination being long enough: the destination keeps its tail *)
Lemma put_header : forall (dst : bytes) (t r : N) (i lo : Z),
  i = 0%Z -> lo = 1%Z -> (S (length (varint r)) <= length dst)%nat ->
  go_put_uvarint (go_set (zb dst) i (Z.of_N t)) lo (Z.of_N r) =
  zb ((t :: varint r) ++ skipn (length (t :: varint r)) dst).
Proof.
  intros dst t r i lo -> -> Hl.
  destruct dst as [|x dst]; cbn [length] in Hl; [lia|].
  unfold go_put_uvarint, go_copy, go_set. rewrite uvarint_enc_varint.
  change (Z.to_nat 0) with 0%nat. change (Z.to_nat 1) with 1%nat.
  rewrite zb_cons. cbn [GoSem.set_nth length firstn skipn Nat.add app].
  assert (Lv : length (zb (varint r)) = length (varint r)) by (unfold zb; apply map_length).
  assert (Ld : length (zb dst) = length dst) by (unfold zb; apply map_length).
  rewrite Lv, Ld.
  replace (Nat.min (S (length dst) - 1) (length (varint r))) with (length (varint r)) by lia.
  rewrite <- Lv, firstn_all, Lv.
  rewrite zb_cons, zb_app. cbn [app]. f_equal. f_equal.
  unfold zb. rewrite skipn_map. reflexivity.
Qed.

(* ---------- header.encode ---------- *)

(* rewrite the next call of a translated function (its receiver fields being what they are at that
   point), then expose what follows it *)
Ltac enc_calls :=
  repeat (first
    [ rewrite msglen_equiv
    | rewrite Type_len1
    | rewrite typeValid_equiv
    | rewrite go_len_set
    | rewrite go_len_zb
    | rewrite go_len_single
    | rewrite uvarint_len_varint
    | rewrite go_nth_single by lia ];
    cbv beta iota zeta).

(* helpers the source may have factored out of the functions below (and for which there is no lemma): unfolded *)
Ltac enc_unfold := autounfold with gotrans; cbv beta iota zeta.

Lemma header_encode_equiv : T_header_encode.
Proof.
  intros h dst. unfold hdr_encode, hdr_msglen, h_type.
  change (tf h / 16) with (nib_hi (tf h)).
  unfold go_message_encode. cbv beta iota zeta. enc_calls. enc_unfold. enc_calls.
  unfold maxRemainingLength.
  destruct (length dst <? hdr_msglen_of (remlen h))%nat eqn:E1.
  - (* the destination is too short *)
    go_cases; finish.
  - destruct (268435455 <? remlen h) eqn:E2.
    + (* the remaining length is out of range *)
      go_cases; finish.
    + assert (M : hdr_msglen_of (remlen h) = S (length (varint (remlen h))))
        by (apply varint_msglen; unfold maxRemainingLength; lia).
      rewrite M in *.
      destruct (type_valid (nib_hi (tf h))) eqn:E3; cbn [negb].
      * (* the type/flags byte, then the remaining length *)
        repeat (first [ progress enc_calls | destr_if; try lia; cbv beta iota zeta ]).
        rewrite put_header by lia. repeat f_equal. cbn [length]. lia.
      * (* the type is not valid *)
        repeat (first [ progress enc_calls | destr_if; try lia; cbv beta iota zeta ]); finish.
Qed.

(* ---------- header.SetRemainingLength ---------- *)

Lemma setRemainingLength_equiv : T_SetRemainingLength.
Proof.
  intros h r. unfold go_message_SetRemainingLength, set_remlen, maxRemainingLength.
  cbv beta iota zeta. enc_unfold.
  destruct (268435455 <? r) eqn:E; go_cases; cbn [dirty remlen]; finish.
Qed.

Print Assumptions header_encode_equiv.
Print Assumptions setRemainingLength_equiv.
