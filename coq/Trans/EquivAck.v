(* Proofs of Trans/SpecAck.v.  The translated methods are unfolded once; the calls of the translated header methods
   are rewritten by their own equivalence theorems (header_decode_equiv, header_encode_equiv, msglen_equiv,
   setRemainingLength_equiv, Type_len1), the rest is case analysis. *)
From Coq Require Import ZArith List Bool Lia.
From Base Require Import Tactics Bytes GoSem.
From Gen Require Import Tables Translated.
From Codec Require Import Wire Impl ProofsHeader.
From Trans Require Import Spec Equiv EquivDecode EquivEncode SpecAck.
Open Scope N_scope.

Lemma Name_len1 : forall (d : bool) (t : N), go_message_Name d [Z.of_N t] = Some (tt, d, [Z.of_N t]).
Proof.
  intros d t. unfold go_message_Name. rewrite Type_len1. unfold go_message_Type_Name.
  repeat match goal with |- context [if ?c then _ else _] => destruct c end; reflexivity.
Qed.

Lemma hdr_decode_tf : forall h src h' n, hdr_decode h src = Ok (h', n) -> bytes_ok src = true -> tf h' < 256.
Proof.
  intros h src h' n E Hok. pose proof (hdr_decode_spec h src) as HS. rewrite E in HS.
  destruct HS as (B & L & D & TF & _). rewrite TF.
  destruct src as [|b0 r]; [cbn in L; lia|]. cbn [nth]. now destruct (bytes_ok_cons _ _ Hok).
Qed.

Theorem empty_decode_equiv : T_empty_decode.
Proof.
  intros h src Hok Htf. unfold empty_decode, go_message_DisconnectMessage_Decode.
  destruct (header_decode_equiv h src Hok Htf) as [Hnp Hd].
  destruct (hdr_decode h src) as [[h' n]|c n|] eqn:E; [| |contradiction]; cbn [bind].
  - rewrite Hd. cbn beta iota zeta. cbn [Bool.eqb negb].
    destruct (remlen h' =? 0) eqn:E0; cbn [negb].
    + apply N.eqb_eq in E0. rewrite E0. cbn. split; [discriminate|]. unfold h_clean. cbn [dbuf dirty tf remlen]. now rewrite E0.
    + assert (Hz : (Z.of_N (remlen h') =? 0)%Z = false) by (apply N.eqb_neq in E0; lia).
      rewrite Hz. cbn [negb]. rewrite Name_len1. split; [discriminate|]. do 4 eexists. reflexivity.
  - destruct Hd as (d & di & m & r & ->). cbn beta iota zeta. cbn [Bool.eqb negb].
    split; [discriminate|]. do 4 eexists. reflexivity.
Qed.

Theorem empty_len_equiv : T_empty_len.
Proof.
  intro h. unfold go_message_DisconnectMessage_Len, empty_len. destruct (dirty h); cbn [negb].
  - rewrite msglen_equiv. reflexivity.
  - now rewrite go_len_zb.
Qed.

(* copy(dst, src) when src fits: src, then the rest of dst *)
Lemma go_copy_to_fits : forall (dst src : bytes), (length src <= length dst)%nat ->
  go_copy_to (zb dst) 0 (go_len (zb dst)) (zb src) = zb (src ++ skipn (length src) dst)
  /\ go_copy_to_n (zb dst) 0 (go_len (zb dst)) (zb src) = Z.of_nat (length src).
Proof.
  intros dst src H. unfold go_copy_to, go_copy_to_n. rewrite !go_len_zb.
  replace (Z.to_nat (Z.min (Z.of_nat (length dst) - 0) (Z.of_nat (length src)))) with (length src) by lia.
  split; [|lia]. cbn [Z.to_nat firstn app Nat.add]. unfold zb. rewrite map_app, skipn_map.
  f_equal. rewrite <- (map_length Z.of_N src) at 1. apply firstn_all.
Qed.

Theorem empty_encode_equiv : T_empty_encode.
Proof.
  intros h dst. unfold empty_encode, go_message_DisconnectMessage_Encode. destruct (dirty h) eqn:Ed; cbn [negb].
  - pose proof (header_encode_equiv h dst) as He. rewrite Ed in He.
    destruct (hdr_encode h (length dst)) as [bs|c n|]; [| |contradiction]; rewrite He; reflexivity.
  - autounfold with gotrans; cbv beta iota zeta. rewrite !go_len_zb.
    destruct (length dst <? length (dbuf h))%nat eqn:E1.
    + assert (Hz : (Z.of_nat (length dst) <? Z.of_nat (length (dbuf h)))%Z = true) by lia. rewrite Hz. reflexivity.
    + assert (Hz : (Z.of_nat (length dst) <? Z.of_nat (length (dbuf h)))%Z = false) by lia. rewrite Hz.
      destruct (go_copy_to_fits dst (dbuf h) ltac:(lia)) as [Hc Hn]. rewrite go_len_zb in Hc, Hn.
      rewrite Hc, Hn.
      repeat match goal with |- context [if ?c then _ else _] => destruct c eqn:?; try lia end. reflexivity.
Qed.

(* ---------- PUBACK family ---------- *)

Lemma be16_rd16 : forall hi lo : N, hi < 256 -> lo < 256 -> be16 (rd16 hi lo) = [hi; lo].
Proof.
  intros hi lo H1 H2. unfold be16, rd16. f_equal; [|f_equal].
  - clear - H1 H2. lia.
  - clear - H1 H2. lia.
Qed.

Lemma rd16_lt : forall hi lo : N, hi < 256 -> lo < 256 -> rd16 hi lo < 65536.
Proof. intros. unfold rd16. lia. Qed.

Theorem packetID_equiv : T_PacketID.
Proof.
  intros h Hp. unfold go_message_PacketID, pidz, packet_id, pid_ok in *. destruct (pid h) as [v|].
  - unfold be16, zb. cbn [map]. change (go_len [Z.of_N (v / 256 mod 256); Z.of_N (v mod 256)]) with 2%Z.
    replace (go_be16 [Z.of_N (v / 256 mod 256); Z.of_N (v mod 256)]) with (Z.of_N v)
      by (unfold go_be16, go_nth; change (Z.to_nat 0) with 0%nat; change (Z.to_nat 1) with 1%nat; cbn [nth]; clear - Hp; lia).
    go_cases; reflexivity.
  - change (go_len []) with 0%Z. go_cases; reflexivity.
Qed.

Lemma bytes_ok_nth : forall (l : bytes) i, bytes_ok l = true -> (i < length l)%nat -> nth i l 0 < 256.
Proof.
  induction l as [|b r IH]; intros i Hok Hi; [cbn in Hi; lia|].
  destruct (bytes_ok_cons _ _ Hok) as [Hb Hr]. destruct i; [exact Hb|]. cbn [nth]. apply IH; [exact Hr|cbn in Hi; lia].
Qed.

Lemma slice2 : forall (l : bytes) (t : nat), (t + 2 <= length l)%nat ->
  firstn (t + 2 - t) (skipn t l) = [nth t l 0; nth (S t) l 0].
Proof.
  intros l t H. replace (t + 2 - t)%nat with 2%nat by lia. revert l H. induction t as [|t IH]; intros l H.
  - destruct l as [|a [|b r]]; cbn in H; try lia. reflexivity.
  - destruct l as [|a r]; [cbn in H; lia|]. cbn [skipn nth]. apply IH. cbn in H. lia.
Qed.

Theorem ack_decode_equiv : T_ack_decode.
Proof.
  intros h src Hok Htf. unfold ack_decode, go_message_PubackMessage_Decode.
  destruct (header_decode_equiv h src Hok Htf) as [Hnp Hd].
  pose proof (hdr_decode_spec h src) as HS.
  cbn beta iota zeta. rewrite go_len_zb.
  assert (Hsub : go_sub (zb src) 0 (Z.of_nat (length src)) = zb src) by (rewrite <- go_len_zb; unfold go_sub, go_len; rewrite Z.sub_0_r, Nat2Z.id; apply firstn_all).
  rewrite Hsub.
  replace ((0 <=? 0)%Z && (0 <=? Z.of_nat (length src))%Z && (Z.of_nat (length src) <=? Z.of_nat (length src))%Z) with true by lia.
  destruct (hdr_decode h src) as [[h' n]|c n|] eqn:E; [| |contradiction]; cbn [bind].
  - rewrite Hd. cbn beta iota zeta. cbn [Bool.eqb negb].
    destruct HS as (B & L & D & TF & PI & DI & HA & PA & RL & _).
    destruct (remlen h' =? 2) eqn:E2; cbn [negb].
    + apply N.eqb_eq in E2. rewrite E2 in *. cbn [Z.of_N Z.eqb Pos.eqb negb].
      rewrite sl_ok by lia. cbn [bind]. rewrite slice2 by lia. cbn [idx nth_error bind].
      split; [discriminate|].
      assert (H1 : nth n src 0 < 256) by (apply bytes_ok_nth; [exact Hok|lia]).
      assert (H2 : nth (S n) src 0 < 256) by (apply bytes_ok_nth; [exact Hok|lia]).
      replace ((0 <=? 0 + Z.of_nat n)%Z && (0 + Z.of_nat n <=? 0 + Z.of_nat n + 2)%Z && (0 + Z.of_nat n + 2 <=? Z.of_nat (length src))%Z) with true by lia.
      split.
      * unfold pidz. cbn [pid dbuf dirty tf remlen]. rewrite be16_rd16 by assumption.
        rewrite (go_sub_zb src _ _ n (n + 2)) by lia. rewrite slice2 by lia.
        replace (0 + Z.of_nat n + 2)%Z with (Z.of_nat (n + 2)) by lia. reflexivity.
      * unfold pid_ok. cbn [pid]. now apply rd16_lt.
    + assert (Hz : (Z.of_N (remlen h') =? 2)%Z = false) by (apply N.eqb_neq in E2; lia).
      rewrite Hz. cbn [negb]. split; [discriminate|]. do 5 eexists. rewrite Z.add_0_l. reflexivity.
  - destruct Hd as (d & di & m & r & ->). cbn beta iota zeta. cbn [Bool.eqb negb].
    split; [discriminate|]. do 5 eexists. rewrite Z.add_0_l. reflexivity.
Qed.

Theorem ack_len_equiv : T_ack_len.
Proof.
  intro h. unfold go_message_PubackMessage_Len, ack_len, go_message_PubackMessage_msglen.
  destruct (dirty h) eqn:Ed; cbn [negb fst snd]; [|now rewrite go_len_zb, Ed].
  change (go_int32 2) with (Z.of_N 2). pose proof (setRemainingLength_equiv h 2) as Hs. rewrite Ed in Hs. rewrite Hs.
  destruct (set_remlen h 2) as [h'|]; cbn beta iota zeta; cbn [Bool.eqb negb fst snd].
  - rewrite msglen_equiv. cbn beta iota. do 2 f_equal. f_equal. unfold hdr_msglen. lia.
  - now rewrite Ed.
Qed.

Lemma go_copy_same_len : forall (dst src : list Z), length src = length dst -> go_copy dst 0 src = src.
Proof.
  intros dst src H. unfold go_copy. cbn [Z.to_nat firstn app Nat.add]. rewrite Nat.sub_0_r, H, Nat.min_id.
  rewrite <- H at 1. rewrite firstn_all. rewrite skipn_all. apply app_nil_r.
Qed.

Lemma zb_length : forall l, length (zb l) = length l.
Proof. intro l. unfold zb. apply map_length. Qed.

Lemma set_nth_app : forall (a : list Z) x r v, GoSem.set_nth (a ++ x :: r) (length a) v = a ++ v :: r.
Proof. induction a as [|y a IH]; intros x r v; [reflexivity|]. cbn [app length GoSem.set_nth]. now rewrite IH. Qed.

Lemma hdr_msglen_of_ge2 : forall r, (2 <= hdr_msglen_of r)%nat.
Proof. intro r. unfold hdr_msglen_of. repeat destr_if; lia. Qed.

Theorem ack_encode_equiv : T_ack_encode.
Proof.
  intros h dst Hp. unfold ack_encode, go_message_PubackMessage_Encode, go_message_PubackMessage_msglen.
  destruct (dirty h) eqn:Ed; cbn [negb].
  - (* dirty: header, then the identifier *)
    rewrite msglen_equiv. cbn beta iota zeta. rewrite !go_len_zb.
    pose proof (hdr_msglen_of_ge2 (remlen h)) as Hge. fold (hdr_msglen h) in Hge.
    destruct (length dst <? hdr_msglen h + 2)%nat eqn:E1.
    { assert (Hz : (Z.of_nat (length dst) <? Z.of_nat (hdr_msglen_of (remlen h)) + 2)%Z = true) by (unfold hdr_msglen in *; lia).
      rewrite Hz. do 2 eexists. reflexivity. }
    assert (Hz : (Z.of_nat (length dst) <? Z.of_nat (hdr_msglen_of (remlen h)) + 2)%Z = false) by (unfold hdr_msglen in *; lia).
    rewrite Hz. change (go_int32 2) with (Z.of_N 2). pose proof (setRemainingLength_equiv h 2) as Hs. rewrite Ed in Hs. rewrite Hs.
    destruct (set_remlen h 2) as [h'|] eqn:Esr; cbn beta iota zeta; cbn [Bool.eqb negb].
    2:{ do 2 eexists. reflexivity. }
    assert (Hh' : remlen h' = 2 /\ tf h' = tf h /\ pid h' = pid h /\ dirty h' = true).
    { unfold set_remlen in Esr. destruct (maxRemainingLength <? 2); [discriminate|]. injection Esr as <-. cbn. auto. }
    destruct Hh' as (Hr & Ht & Hpid & Hd').
    assert (Hsub : go_sub (zb dst) 0 (Z.of_nat (length dst)) = zb dst) by (rewrite <- go_len_zb; unfold go_sub, go_len; rewrite Z.sub_0_r, Nat2Z.id; apply firstn_all).
    rewrite Hsub.
    replace ((0 <=? 0)%Z && (0 <=? Z.of_nat (length dst))%Z) with true by lia.
    pose proof (header_encode_equiv h' dst) as He. rewrite Ht in He.
    destruct (hdr_encode h' (length dst)) as [hb|c k|] eqn:Ehe; [| |contradiction]; cbn [bind]; rewrite He; cbn beta iota zeta; cbn [Bool.eqb negb].
    2:{ rewrite go_copy_same_len by reflexivity. do 2 eexists. reflexivity. }
    assert (Hhb : hb = [tf h'; 2]).
    { unfold hdr_encode in Ehe. repeat destr_if_in Ehe; try discriminate. injection Ehe as <-. rewrite Hr. reflexivity. }
    subst hb. cbn [length].
    rewrite go_copy_same_len by (rewrite !zb_length, app_length, skipn_length; cbn [length]; lia).
    assert (Hl4 : (4 <= length dst)%nat) by lia.
    destruct dst as [|d0 [|d1 [|d2 [|d3 rest]]]]; cbn [length] in Hl4; try lia.
    cbn [skipn app]. rewrite !go_len_zb. cbn [length].
    change (Z.of_nat 2) with 2%Z. change (0 + 2)%Z with 2%Z. change (2 + 2)%Z with 4%Z. change (2 + 1)%Z with 3%Z.
    change (Z.of_nat 4) with 4%Z.
    replace ((0 <=? 2)%Z && (2 <=? 4)%Z && (4 <=? Z.of_nat (S (S (S (S (length rest))))))%Z) with true by lia.
    unfold pidz, packet_id. rewrite Hpid. destruct (pid h) as [v|] eqn:Epid.
    + unfold go_copy_to, go_copy_to_n. unfold be16, zb. cbn [map].
      change (go_len [Z.of_N (v / 256 mod 256); Z.of_N (v mod 256)]) with 2%Z.
      change (Z.min (4 - 2) 2) with 2%Z. cbn [Z.eqb Pos.eqb negb].
      change (Z.to_nat 2) with 2%nat. cbn [firstn skipn app Nat.add length]. rewrite ?Ht. reflexivity.
    + unfold go_copy_to, go_copy_to_n. change (go_len []) with 0%Z.
      change (Z.min (4 - 2) 0) with 0%Z. cbn [Z.eqb negb].
      change (Z.to_nat 0) with 0%nat. change (Z.to_nat 2) with 2%nat. cbn [firstn skipn app Nat.add].
      change (be16 0) with [0; 0]%N.
      unfold zb. cbn [map app]. unfold go_len, go_set. change (Z.to_nat 2) with 2%nat. change (Z.to_nat 3) with 3%nat.
      cbn [GoSem.set_nth length app skipn]. rewrite ?Ht.
      repeat match goal with |- context [if ?c then _ else _] => destruct c eqn:?; try lia end. reflexivity.
  - (* not dirty: the decoded bytes *)
    autounfold with gotrans; cbv beta iota zeta. rewrite !go_len_zb.
    destruct (length dst <? length (dbuf h))%nat eqn:E1.
    + assert (Hz : (Z.of_nat (length dst) <? Z.of_nat (length (dbuf h)))%Z = true) by lia. rewrite Hz. do 2 eexists. reflexivity.
    + assert (Hz : (Z.of_nat (length dst) <? Z.of_nat (length (dbuf h)))%Z = false) by lia. rewrite Hz.
      destruct (go_copy_to_fits dst (dbuf h) ltac:(lia)) as [Hc Hn]. rewrite go_len_zb in Hc, Hn.
      rewrite Hc, Hn, Ed.
      repeat match goal with |- context [if ?c then _ else _] => destruct c eqn:?; try lia end. reflexivity.
Qed.
