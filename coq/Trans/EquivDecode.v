(* Proof of the last statement of Trans/Spec.v: the translated header.decode (Gen/Translated.v,
   go_message_decode, with the translated methods Type, Flags, Valid, DefaultFlags and the function
   ValidQos it calls) agrees with the model Codec.Impl.hdr_decode.

   The proof does not depend on the syntactic shape of the generated definition: the calls of the
   translated methods are rewritten by lemmas stated on those methods only (whatever the receiver
   fields they are applied to), the slice expressions by lemmas on go_sub that are applied to every
   occurrence whose bounds lia can establish, and the remaining boolean tests are split one by one and
   closed by lia.  The one arithmetic fact of substance is that encoding/binary.Uvarint followed by the
   caller's test `m <= 0 || m > 4` is the model's four-byte decoder uvarint4 (uvarint_agree). *)
From Coq Require Import ZArith List Bool Lia.
From Base Require Import Tactics Bytes GoSem.
From Gen Require Import Tables Translated.
From Codec Require Import Wire Impl.
From Trans Require Import Spec Equiv.
Open Scope N_scope.

(* ---------- bit operations on bytes ---------- *)

Lemma shiftr4_N : forall t : N, Z.shiftr (Z.of_N t) 4 = Z.of_N (t / 16).
Proof. intros t. rewrite Z.shiftr_div_pow2 by lia. change (2 ^ 4)%Z with 16%Z. lia. Qed.

Lemma land15_N : forall t : N, Z.land (Z.of_N t) 15 = Z.of_N (t mod 16).
Proof. intros t. change 15%Z with (Z.ones 4). rewrite Z.land_ones by lia. change (2 ^ 4)%Z with 16%Z. lia. Qed.

Lemma land127_N : forall t : N, Z.land (Z.of_N t) 127 = Z.of_N (t mod 128).
Proof. intros t. change 127%Z with (Z.ones 7). rewrite Z.land_ones by lia. change (2 ^ 7)%Z with 128%Z. lia. Qed.

(* (flags >> 1) & 3 *)
Lemma qos_bits_N : forall f : N, Z.land (Z.shiftr (Z.of_N f) 1) 3 = Z.of_N (publish_qos_of_flags f).
Proof.
  intros f. unfold publish_qos_of_flags. rewrite Z.shiftr_div_pow2 by lia.
  change 3%Z with (Z.ones 2). rewrite Z.land_ones by lia.
  change (2 ^ 1)%Z with 2%Z. change (2 ^ 2)%Z with 4%Z. lia.
Qed.

(* x | (b << s) when x is below 2^s *)
Lemma lor_shiftl_add : forall x b s : Z, (0 <= s)%Z -> (0 <= x < 2 ^ s)%Z ->
  Z.lor x (Z.shiftl b s) = (x + b * 2 ^ s)%Z.
Proof.
  intros x b s Hs Hx.
  assert (D : Z.land x (Z.shiftl b s) = 0%Z).
  { apply Z.bits_inj'. intros n Hn. rewrite Z.land_spec, Z.bits_0.
    destruct (Z_lt_ge_dec n s) as [Lt|Ge].
    - rewrite Z.shiftl_spec_low by assumption. apply andb_false_r.
    - rewrite <- (Z.mod_small x (2 ^ s)) by assumption.
      rewrite Z.mod_pow2_bits_high by lia. reflexivity. }
  rewrite <- Z.lxor_lor, <- Z.add_nocarry_lxor by assumption.
  rewrite Z.shiftl_mul_pow2 by assumption. reflexivity.
Qed.

Lemma go_int32_small : forall x : Z, (0 <= x < 2147483648)%Z -> go_int32 x = x.
Proof. intros x Hx. unfold go_int32. lia. Qed.

(* ---------- encoding/binary.Uvarint and the caller's test on the byte count ---------- *)

(* the byte counts header.decode rejects: m <= 0 || m > 4 *)
Definition bad_count (m : Z) : Prop := (m <= 0 \/ 4 < m)%Z.

(* from the fifth byte on, Uvarint can only return a rejected count *)
Lemma uvarint_from_far : forall (l : list Z) (i : nat) (x s : Z), (4 <= i)%nat ->
  bad_count (snd (uvarint_from l i x s)).
Proof.
  unfold bad_count. induction l as [|b r IH]; intros i x s Hi; cbn [uvarint_from].
  - cbn [snd]. lia.
  - repeat (destr_if; cbn [snd]; try lia). apply IH. lia.
Qed.

Lemma bytes_ok_cons : forall b r, bytes_ok (b :: r) = true -> b < 256 /\ bytes_ok r = true.
Proof.
  intros b r H. unfold bytes_ok in *. cbn [forallb] in H. apply andb_true_iff in H as [A B].
  unfold byte_ok in A. split; [lia|exact B].
Qed.

(* the loop of Uvarint at byte i < 4, accumulator below 2^(7i), against the model's loop with the
   remaining fuel *)
Lemma uvarint_from_agree : forall (fuel : nat) (l : bytes) (i : nat) (sh acc : N) (s : Z),
  (i + fuel = 4)%nat -> bytes_ok l = true ->
  sh = 2 ^ (7 * N.of_nat i) -> s = (7 * Z.of_nat i)%Z -> acc < sh ->
  match uvarint_fuel fuel l sh acc i with
  | Some (v, u) =>
      uvarint_from (zb l) i (Z.of_N acc) s = (Z.of_N v, Z.of_nat u) /\ (i < u <= 4)%nat /\ (u <= i + length l)%nat /\ v < 2 ^ 28
  | None => bad_count (snd (uvarint_from (zb l) i (Z.of_N acc) s))
  end.
Proof.
  induction fuel as [|f IH]; intros l i sh acc s Hi Hok Hsh Hs Hacc.
  - cbn [uvarint_fuel]. apply uvarint_from_far. lia.
  - destruct l as [|b r]; cbn [uvarint_fuel].
    + cbn [zb map uvarint_from snd]. unfold bad_count. lia.
    + apply bytes_ok_cons in Hok as [Hb Hr].
      rewrite zb_cons. cbn [uvarint_from].
      assert (Hs0 : (0 <= s)%Z) by lia.
      assert (P : Z.of_N sh = (2 ^ s)%Z).
      { subst sh s. rewrite N2Z.inj_pow. f_equal. lia. }
      assert (I : i = 0%nat \/ i = 1%nat \/ i = 2%nat \/ i = 3%nat) by lia.
      destruct (i =? 10)%nat eqn:E10; [lia|].
      destruct (b <? 128) eqn:E128.
      * destruct (Z.of_N b <? 128)%Z eqn:E128z; [|lia].
        destruct ((i =? 9)%nat && (Z.of_N b >? 1)%Z) eqn:E9; [lia|].
        rewrite lor_shiftl_add by lia. rewrite <- P.
        split; [f_equal; lia|]. split; [lia|]. split; [cbn [length]; lia|].
        destruct I as [-> | [-> | [-> | ->]]]; vm_compute in Hsh; subst sh; lia.
      * destruct (Z.of_N b <? 128)%Z eqn:E128z; [lia|].
        rewrite land127_N, lor_shiftl_add by lia. rewrite <- P.
        replace (Z.of_N acc + Z.of_N (b mod 128) * Z.of_N sh)%Z with (Z.of_N (acc + b mod 128 * sh)) by lia.
        assert (Q : sh * 128 = 2 ^ (7 * N.of_nat (S i)))
          by (destruct I as [-> | [-> | [-> | ->]]]; subst sh; reflexivity).
        assert (B0 : b mod 128 * sh <= 127 * sh) by (apply N.mul_le_mono_r; lia).
        assert (B : acc + b mod 128 * sh < sh * 128) by lia.
        pose proof (IH r (S i) (sh * 128) (acc + b mod 128 * sh) (s + 7)%Z ltac:(lia) Hr Q ltac:(lia) B) as H.
        destruct (uvarint_fuel f r (sh * 128) (acc + b mod 128 * sh) (S i)) as [[v u]|]; [|exact H].
        destruct H as [A [C [D F]]]. split; [exact A|]. split; [lia|]. split; [cbn [length]; lia|exact F].
Qed.

(* binary.Uvarint and uvarint4 agree on acceptance, value and byte count *)
Lemma uvarint_agree : forall l : bytes, bytes_ok l = true ->
  match uvarint4 l with
  | Some (v, u) => go_uvarint (zb l) = (Z.of_N v, Z.of_nat u) /\ (1 <= u <= 4)%nat /\ (u <= length l)%nat /\ v < 268435456
  | None => bad_count (snd (go_uvarint (zb l)))
  end.
Proof.
  intros l Hok. unfold uvarint4, go_uvarint.
  pose proof (uvarint_from_agree 4 l 0 1 0 0%Z eq_refl Hok eq_refl eq_refl ltac:(lia)) as H.
  change (Z.of_N 0) with 0%Z in H.
  destruct (uvarint_fuel 4 l 1 0 0) as [[v u]|]; [|exact H].
  destruct H as [A [B [C D]]]. split; [exact A|]. split; [lia|]. split; [lia|]. change (2 ^ 28) with 268435456 in D. exact D.
Qed.

(* ---------- the translated methods header.decode calls ---------- *)

(* the two halves of the type/flags byte; header.decode only compares them, so the proof keeps them
   folded (lia then treats them as atoms instead of eliminating the divisions at every call) *)
Definition nib_hi (t : N) : N := t / 16.
Definition nib_lo (t : N) : N := t mod 16.

(* header.Type() on a header whose mtypeflags has its one byte: no reallocation, dirty untouched *)
Lemma Type_len1 : forall (d : bool) (t : N),
  go_message_Type d [Z.of_N t] = Some (Z.of_N (nib_hi t), d, [Z.of_N t]).
Proof.
  intros d t. unfold go_message_Type.
  replace (go_len [Z.of_N t]) with 1%Z by reflexivity.
  unfold nib_hi. go_cases; rewrite <- shiftr4_N; reflexivity.
Qed.

Lemma Flags_len1 : forall t : N, go_message_Flags [Z.of_N t] = Some (Z.of_N (nib_lo t)).
Proof.
  intros t. unfold go_message_Flags.
  replace (go_len [Z.of_N t]) with 1%Z by reflexivity.
  unfold nib_lo. go_cases; rewrite <- land15_N; reflexivity.
Qed.

(* ---------- slices of the source buffer ---------- *)

(* len(src[lo:hi]), whatever the bounds *)
Lemma go_len_go_sub_zb : forall (l : bytes) (lo hi : Z),
  go_len (go_sub (zb l) lo hi) = Z.of_nat (Nat.min (Z.to_nat (hi - lo)) (length l - Z.to_nat lo)).
Proof.
  intros l lo hi. unfold go_len, go_sub, zb. rewrite firstn_length, skipn_length, map_length. reflexivity.
Qed.

(* src[0:1] *)
Lemma go_sub_first : forall (b0 : N) (r : bytes) (lo hi : Z), lo = 0%Z -> hi = 1%Z ->
  go_sub (zb (b0 :: r)) lo hi = [Z.of_N b0].
Proof. intros b0 r lo hi -> ->. reflexivity. Qed.

(* src[1:] *)
Lemma go_sub_tail : forall (b0 : N) (r : bytes) (lo hi : Z), lo = 1%Z -> hi = go_len (zb (b0 :: r)) ->
  go_sub (zb (b0 :: r)) lo hi = zb r.
Proof.
  intros b0 r lo hi -> ->. rewrite go_len_zb.
  rewrite (go_sub_zb (b0 :: r) 1%Z _ 1%nat (length (b0 :: r)) eq_refl eq_refl) by (cbn [length]; lia).
  cbn [length skipn]. replace (S (length r) - 1)%nat with (length r) by lia.
  rewrite firstn_all. reflexivity.
Qed.

(* src[0:n] *)
Lemma go_sub_prefix : forall (l : bytes) (lo hi : Z) (n : nat), lo = 0%Z -> hi = Z.of_nat n ->
  go_sub (zb l) lo hi = zb (firstn (n - 0) (skipn 0 l)).
Proof. intros l lo hi n -> ->. apply go_sub_zb; [reflexivity|reflexivity|lia]. Qed.

(* ---------- header.decode ---------- *)

(* an error return with count n, whatever the receiver's fields are *)
Definition is_err (n : Z) (x : option (Z * bool * list Z * bool * list Z * Z)) : Prop :=
  match x with
  | Some (c, e, _, _, _, _) => c = n /\ e = true
  | None => False
  end.

Lemma is_err_ex : forall n x, is_err n x -> exists d di m r, x = Some (n, true, d, di, m, r).
Proof.
  intros n [[[[[[c e] d] di] m] r]|] H; cbn [is_err] in H; [|contradiction].
  destruct H as [-> ->]. exists d, di, m, r. reflexivity.
Qed.

(* rewrite the slices src[0:1] and src[1:], wherever they occur and however their bounds are written *)
Ltac step_subs :=
  repeat first
    [ match goal with |- context [go_sub ?s ?lo ?hi] => rewrite (go_sub_first _ _ lo hi) by lia end
    | match goal with |- context [go_sub ?s ?lo ?hi] =>
        rewrite (go_sub_tail _ _ lo hi) by (rewrite ?go_len_zb; cbn [length]; lia) end ].

(* rewrite the next call of a translated method (its receiver fields being what they are at that
   point), then expose what follows it *)
Ltac step_calls :=
  repeat (first
    [ rewrite Type_len1
    | rewrite Flags_len1
    | rewrite typeValid_equiv
    | rewrite defaultFlags_equiv
    | rewrite qos_bits_N
    | rewrite validQos_equiv ];
    cbv beta iota zeta).

(* the statement T_header_decode relates the two results by *)
Definition agrees (o : outcome (hdr * nat)) (g : option (Z * bool * list Z * bool * list Z * Z)) : Prop :=
  match o with
  | Ok (h', n) => g = Some (Z.of_nat n, false, zb (dbuf h'), dirty h', [Z.of_N (tf h')], Z.of_N (remlen h'))
  | Err _ n => is_err (Z.of_nat n) g
  | Panic => False
  end.

Lemma agrees_stmt : forall o g, agrees o g ->
  o <> Panic /\
  match o with
  | Ok (h', n) => g = Some (Z.of_nat n, false, zb (dbuf h'), dirty h', [Z.of_N (tf h')], Z.of_N (remlen h'))
  | Err _ n => exists d di m r, g = Some (Z.of_nat n, true, d, di, m, r)
  | Panic => False
  end.
Proof.
  intros [[h' n]|c n|] g H; cbn [agrees] in H; [| |contradiction].
  - split; [discriminate|exact H].
  - split; [discriminate|apply is_err_ex; exact H].
Qed.

Lemma header_decode_equiv : T_header_decode.
Proof.
  intros h src Hok _. apply agrees_stmt.
  destruct src as [|b0 [|b1 r]].
  - (* len(src) = 0 *)
    cbn [hdr_decode length Nat.ltb Nat.leb agrees].
    unfold go_message_decode. rewrite go_len_zb. cbn [length].
    cbv beta iota zeta. go_cases. split; reflexivity.
  - (* len(src) = 1 *)
    cbn [hdr_decode length Nat.ltb Nat.leb agrees].
    unfold go_message_decode. rewrite go_len_zb. cbn [length].
    cbv beta iota zeta. go_cases. split; reflexivity.
  - apply bytes_ok_cons in Hok as [Hb0 Hok].
    assert (L : length (b0 :: b1 :: r) = S (S (length r))) by reflexivity.
    unfold hdr_decode, idx, from, h_type. rewrite L.
    cbn [nth_error bind Nat.ltb Nat.leb skipn].
    change (tf h / 16) with (nib_hi (tf h)). change (b0 / 16) with (nib_hi b0). change (b0 mod 16) with (nib_lo b0).
    unfold go_message_decode. cbv beta iota zeta.
    step_subs. step_calls.
    unfold T_PUBLISH, maxRemainingLength, sl. rewrite ?go_len_go_sub_zb, ?go_len_zb, ?L.
    (* Uvarint against uvarint4 *)
    pose proof (uvarint_agree (b1 :: r) Hok) as HU. revert HU.
    destruct (go_uvarint (zb (b1 :: r))) as [rv mz].
    destruct (uvarint4 (b1 :: r)) as [[rl m]|]; intros HU;
      [ destruct HU as [HU [Hm [Hml Hrl]]]; cbn [length] in Hml; inversion HU; subst rv mz; clear HU; rewrite go_int32_small by lia
      | cbn [snd] in HU; unfold bad_count in HU ].
    all: rewrite ?go_len_go_sub_zb, ?go_len_zb, ?L.
    all: repeat (first
           [ progress step_calls
           | destr_if; try lia; cbv beta iota zeta; cbn [bind agrees is_err dbuf dirty tf remlen] ]).
    all: first
           [ split; [lia|reflexivity]
           | repeat f_equal; first [lia | apply go_sub_prefix; lia] ].
Qed.

Print Assumptions header_decode_equiv.
