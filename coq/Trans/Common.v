(* What the files of Trans/ share: the view of a model byte string as the translation sees it, generic tactics and
   the structural facts about the GoSem primitives.  Nothing here mentions a translated function, so a function the
   translator cannot handle (any more) breaks only the statements about that function. *)
From Coq Require Import ZArith List Bool Lia.
From Base Require Import Tactics Bytes GoSem.
From Codec Require Import Wire Impl.
Open Scope N_scope.

(* a model byte string as the translation sees it *)
Definition zb (l : bytes) : list Z := map Z.of_N l.

(* ---------- generic tactics ---------- *)

(* split on every `if` of the goal, discarding impossible branches *)
Ltac go_cases := repeat (destr_if; try lia).
(* split on every `if` of a hypothesis, discarding impossible branches *)
Ltac go_cases_in H := repeat (destr_if_in H; try lia).
(* close an equation between results *)
Ltac finish := try reflexivity; try lia; try (repeat f_equal; lia).

(* equality of two three-component results, component by component *)
Lemma triple_eq : forall (A B C : Type) (a a' : A) (b b' : B) (c c' : C),
  a = a' -> b = b' -> c = c' -> Some (a, b, c) = Some (a', b', c').
Proof. intros. subst. reflexivity. Qed.

(* ---------- the GoSem primitives on translated byte strings ---------- *)

Lemma go_len_zb : forall l, go_len (zb l) = Z.of_nat (length l).
Proof. intros. unfold go_len, zb. rewrite map_length. reflexivity. Qed.

Lemma zb_app : forall a b, zb (a ++ b) = zb a ++ zb b.
Proof. intros. unfold zb. apply map_app. Qed.

Lemma zb_cons : forall a l, zb (a :: l) = Z.of_N a :: zb l.
Proof. reflexivity. Qed.

(* l[lo:hi] of a translated string *)
Lemma go_sub_zb : forall l lo hi (a b : nat),
  lo = Z.of_nat a -> hi = Z.of_nat b -> (a <= b)%nat ->
  go_sub (zb l) lo hi = zb (firstn (b - a) (skipn a l)).
Proof.
  intros l lo hi a b -> -> Hab. unfold go_sub, zb.
  rewrite skipn_map, firstn_map. f_equal. f_equal; [lia|]. f_equal. lia.
Qed.

(* (pre ++ c :: r)[0:len pre] and (pre ++ c :: r)[len pre + 1 : len] *)
Lemma go_sub_pre : forall (pre r : list Z) c lo hi,
  lo = 0%Z -> hi = Z.of_nat (length pre) -> go_sub (pre ++ c :: r) lo hi = pre.
Proof.
  intros pre r c lo hi -> ->. unfold go_sub. rewrite Z.sub_0_r, Nat2Z.id.
  change (Z.to_nat 0) with 0%nat. cbn [skipn].
  rewrite firstn_app, Nat.sub_diag, firstn_all. cbn [firstn]. apply app_nil_r.
Qed.

Lemma go_sub_post : forall (pre r : list Z) c lo hi,
  lo = (Z.of_nat (length pre) + 1)%Z -> hi = (Z.of_nat (length pre) + 1 + Z.of_nat (length r))%Z ->
  go_sub (pre ++ c :: r) lo hi = r.
Proof.
  intros pre r c lo hi -> ->. unfold go_sub.
  replace (Z.to_nat (Z.of_nat (length pre) + 1)) with (length (pre ++ [c])) by (rewrite app_length; cbn [length]; lia).
  replace (pre ++ c :: r) with ((pre ++ [c]) ++ r) by (rewrite <- app_assoc; reflexivity).
  rewrite skipn_app, skipn_all, Nat.sub_diag. cbn [skipn app].
  replace (Z.to_nat _) with (length r) by lia. apply firstn_all.
Qed.

(* bytes.IndexByte: -1 exactly when the byte does not occur, a position otherwise *)
Lemma index_from_spec : forall (t : bytes) (c : N) (cz i : Z),
  cz = Z.of_N c -> (0 <= i)%Z ->
  (existsb (fun b => b =? c) t = false /\ index_from (zb t) cz i = (-1)%Z)
  \/ (existsb (fun b => b =? c) t = true /\ (i <= index_from (zb t) cz i)%Z).
Proof.
  induction t as [|x t IH]; intros c cz i Hc Hi.
  - left. split; reflexivity.
  - rewrite zb_cons. cbn [existsb index_from].
    destruct (x =? c) eqn:E.
    + right. split; [reflexivity|]. destr_if; lia.
    + destr_if; [lia|]. cbn [orb].
      destruct (IH c cz (i + 1)%Z Hc ltac:(lia)) as [[A B]|[A B]]; [left|right]; split; auto; lia.
Qed.

Lemma go_index_byte_spec : forall (t : bytes) (c : N) (cz : Z),
  cz = Z.of_N c ->
  (existsb (fun b => b =? c) t = false /\ go_index_byte (zb t) cz = (-1)%Z)
  \/ (existsb (fun b => b =? c) t = true /\ (0 <= go_index_byte (zb t) cz)%Z).
Proof. intros. unfold go_index_byte. apply index_from_spec; [assumption|lia]. Qed.

Lemma existsb_or : forall (A : Type) (f g : A -> bool) l,
  existsb (fun x => f x || g x) l = existsb f l || existsb g l.
Proof.
  induction l as [|x l IH]; [reflexivity|]. cbn [existsb]. rewrite IH.
  destruct (f x), (g x), (existsb f l), (existsb g l); reflexivity.
Qed.

Lemma skipn_skipn' : forall (A : Type) (a b : nat) (l : list A), skipn a (skipn b l) = skipn (b + a) l.
Proof.
  intros A a b. induction b as [|b IH]; intros l; [reflexivity|].
  destruct l as [|x l]; [rewrite !skipn_nil; reflexivity|]. cbn [skipn Nat.add]. apply IH.
Qed.

(* binary.BigEndian.Uint16 of a translated string *)
Lemma go_be16_zb : forall a b r, go_be16 (zb (a :: b :: r)) = Z.of_N (rd16 a b).
Proof. intros. unfold go_be16, go_nth, rd16. rewrite !zb_cons. cbn [Z.to_nat nth]. change (Pos.to_nat 1) with 1%nat. cbn [nth]. lia. Qed.

(* PutUint16 followed by copy(buf[2:], b), the destination being long enough *)
Lemma go_copy_put16 : forall (buf b : bytes) (v tot : Z),
  v = Z.of_N (len b) -> len b <= 65535 -> tot = 2%Z -> (2 + length b <= length buf)%nat ->
  go_copy (go_put16 (zb buf) v) tot (zb b) = zb (lp b ++ skipn (2 + length b) buf).
Proof.
  intros buf b v tot -> Hb -> Hl.
  destruct buf as [|x [|y buf]]; cbn [length] in Hl; try lia.
  unfold go_copy, go_put16, lp, be16.
  change (Z.to_nat 2) with 2%nat. rewrite !zb_cons. cbn [skipn length Nat.add].
  assert (Lb : length (zb b) = length b) by (unfold zb; apply map_length).
  assert (Lf : length (zb buf) = length buf) by (unfold zb; apply map_length).
  rewrite Lb, Lf.
  replace (Nat.min (S (S (length buf)) - 2) (length b)) with (length b) by lia.
  cbn [firstn]. rewrite <- Lb, firstn_all, Lb.
  rewrite !zb_app. cbn [app]. rewrite !zb_cons. cbn [zb map app].
  f_equal; [lia|]. f_equal; [lia|]. f_equal.
  unfold zb. rewrite skipn_map. reflexivity.
Qed.

