(* Proofs of Trans/SpecPow2.v. *)
From Coq Require Import ZArith List Bool Lia.
From Base Require Import Tactics Bytes GoSem.
From Gen Require Import Tables Translated.
From Trans Require Import Common SpecPow2.
Open Scope N_scope.

(* n & (n-1) == 0 on positive integers: the powers of two *)
Lemma land_pred_pow2 : forall z : Z, (0 < z)%Z ->
  (Z.land z (z - 1) = 0%Z <-> exists k : Z, (0 <= k)%Z /\ z = (2 ^ k)%Z).
Proof.
  intros z Hz. split.
  - intros H. exists (Z.log2 z). split; [apply Z.log2_nonneg|].
    pose proof (Z.log2_spec z Hz) as [Lo Hi].
    destruct (Z.eq_dec z (2 ^ Z.log2 z)) as [|Ne]; [assumption|exfalso].
    assert (L1 : Z.log2 (z - 1) = Z.log2 z)
      by (apply Z.log2_unique; [apply Z.log2_nonneg|lia]).
    assert (B : Z.testbit (Z.land z (z - 1)) (Z.log2 z) = true).
    { rewrite Z.land_spec, (Z.bit_log2 z Hz).
      rewrite <- L1. rewrite Z.bit_log2; [reflexivity|].
      assert (0 < 2 ^ Z.log2 z)%Z by (apply Z.pow_pos_nonneg; [lia|apply Z.log2_nonneg]). lia. }
    rewrite H, Z.bits_0 in B. discriminate.
  - intros [k [Hk ->]].
    replace (2 ^ k - 1)%Z with (Z.ones k) by (rewrite Z.ones_equiv; lia).
    rewrite Z.land_ones by assumption. apply Z_mod_same_full.
Qed.

Definition pow2_test (z : Z) : bool := negb (z =? 0)%Z && (Z.land z (z - 1) =? 0)%Z.

Lemma pow2_test_spec : forall n : N, pow2_test (Z.of_N n) = true <-> exists k, n = 2 ^ k.
Proof.
  intros n. unfold pow2_test. split.
  - intros H. apply andb_true_iff in H as [H1 H2].
    assert (Hz : (0 < Z.of_N n)%Z) by lia.
    apply Z.eqb_eq in H2. apply (land_pred_pow2 _ Hz) in H2 as [k [Hk E]].
    exists (Z.to_N k). apply N2Z.inj. rewrite N2Z.inj_pow, Z2N.id by assumption. exact E.
  - intros [k ->].
    assert (Hz : (0 < Z.of_N (2 ^ k))%Z).
    { rewrite N2Z.inj_pow. apply Z.pow_pos_nonneg; lia. }
    apply andb_true_iff. split; [lia|]. apply Z.eqb_eq.
    apply (land_pred_pow2 _ Hz). exists (Z.of_N k). split; [lia|]. apply N2Z.inj_pow.
Qed.

Lemma powerOfTwo_equiv : T_powerOfTwo.
Proof.
  intros n.
  assert (A : go_sessions_powerOfTwo64 (Z.of_N n) = Some (pow2_test (Z.of_N n))).
  { unfold go_sessions_powerOfTwo64, pow2_test. f_equal; lia. }
  assert (B : go_service_powerOfTwo64 (Z.of_N n) = Some (pow2_test (Z.of_N n))).
  { unfold go_service_powerOfTwo64, pow2_test. f_equal; lia. }
  rewrite A, B. split; [|split; [reflexivity|discriminate]].
  rewrite <- pow2_test_spec. split; [congruence|intros ->; reflexivity].
Qed.

(* ---------- roundUpPowerOfTwo64: the or-cascade ---------- *)

(* bit i of y is set exactly when one of the bits i .. i+j-1 of x is *)
Definition covers (x j y : Z) : Prop :=
  forall i, (0 <= i)%Z ->
  (Z.testbit y i = true <-> exists d, (0 <= d < j)%Z /\ Z.testbit x (i + d) = true).

Lemma covers_init : forall x, covers x 1 x.
Proof.
  intros x i Hi. split.
  - intros H. exists 0%Z. split; [lia|]. rewrite Z.add_0_r. exact H.
  - intros [d [Hd H]]. replace d with 0%Z in H by lia. rewrite Z.add_0_r in H. exact H.
Qed.

Lemma covers_step : forall x j j' y, (0 < j)%Z -> j' = (2 * j)%Z ->
  covers x j y -> covers x j' (Z.lor y (Z.shiftr y j)).
Proof.
  intros x j j' y Hj -> C i Hi.
  rewrite Z.lor_spec, Z.shiftr_spec by assumption. rewrite orb_true_iff.
  rewrite (C i Hi), (C (i + j)%Z ltac:(lia)). split.
  - intros [[d [Hd H]]|[d [Hd H]]].
    + exists d. split; [lia|exact H].
    + exists (j + d)%Z. split; [lia|]. rewrite Z.add_assoc. exact H.
  - intros [d [Hd H]]. destruct (Z_lt_ge_dec d j) as [Lt|Ge].
    + left. exists d. split; [lia|exact H].
    + right. exists (d - j)%Z. split; [lia|]. replace (i + j + (d - j))%Z with (i + d)%Z by lia. exact H.
Qed.

Lemma covers_step_comm : forall x j j' y, (0 < j)%Z -> j' = (2 * j)%Z ->
  covers x j y -> covers x j' (Z.lor (Z.shiftr y j) y).
Proof. intros. rewrite Z.lor_comm. eapply covers_step; eassumption. Qed.

(* once 64 positions are covered, everything below the top bit of x < 2^64 is set *)
Lemma covers_final : forall x y, (0 < x < 2 ^ 64)%Z -> covers x 64 y ->
  y = Z.ones (Z.log2 x + 1).
Proof.
  intros x y [Hx Hb] C. apply Z.bits_inj'. intros i Hi.
  pose proof (Z.log2_nonneg x) as K0.
  assert (K : (Z.log2 x < 64)%Z) by (apply Z.log2_lt_pow2; assumption).
  destruct (Z_lt_ge_dec i (Z.log2 x + 1)) as [Lt|Ge].
  - rewrite Z.ones_spec_low by lia. apply (C i Hi).
    exists (Z.log2 x - i)%Z. split; [lia|].
    replace (i + (Z.log2 x - i))%Z with (Z.log2 x) by lia. apply Z.bit_log2. assumption.
  - rewrite Z.ones_spec_high by lia.
    destruct (Z.testbit y i) eqn:E; [|reflexivity].
    apply (C i Hi) in E as [d [Hd H]].
    rewrite Z.bits_above_log2 in H by lia. discriminate.
Qed.

Lemma covers_succ : forall x y, (0 < x < 2 ^ 64)%Z -> covers x 64 y ->
  (y + 1 = 2 ^ (Z.log2 x + 1))%Z.
Proof. intros x y Hx C. rewrite (covers_final x y Hx C), Z.ones_equiv. lia. Qed.

(* prove `covers x 64 (cascade)` for a cascade of steps y |= y >> j, j = 1, 2, 4, ..., 32 *)
Ltac cascade :=
  repeat (first [eapply covers_step | eapply covers_step_comm]; [lia|lia|]); apply covers_init.
Ltac round_up :=
  first [apply covers_succ | rewrite Z.add_comm; apply covers_succ]; [lia|cascade].

Lemma roundUp_sessions : forall z, (1 < z <= 2 ^ 64)%Z ->
  go_sessions_roundUpPowerOfTwo64 z = Some (2 ^ (Z.log2 (z - 1) + 1))%Z.
Proof.
  intros z Hz. unfold go_sessions_roundUpPowerOfTwo64. cbv zeta. f_equal.
  round_up.
Qed.

Lemma roundUp_service : forall z, (1 < z <= 2 ^ 64)%Z ->
  go_service_roundUpPowerOfTwo64 z = Some (2 ^ (Z.log2 (z - 1) + 1))%Z.
Proof.
  intros z Hz. unfold go_service_roundUpPowerOfTwo64. cbv zeta. f_equal.
  round_up.
Qed.

Lemma roundUp_equiv : T_roundUp.
Proof.
  intros n Hn Hb.
  destruct (N.eq_dec n 1) as [->|N1].
  - exists 0. repeat split; try reflexivity; lia.
  - assert (B62 : (Z.of_N n <= 2 ^ 62)%Z).
    { change (2 ^ 62)%Z with (Z.of_N (2 ^ 62)). lia. }
    assert (Hz : (1 < Z.of_N n <= 2 ^ 64)%Z) by lia.
    set (x := (Z.of_N n - 1)%Z) in *.
    assert (Hx : (0 < x)%Z) by lia.
    pose proof (Z.log2_nonneg x) as K0.
    pose proof (Z.log2_spec x Hx) as [Lo Hi].
    exists (Z.to_N (Z.log2 x + 1)).
    assert (P : Z.of_N (2 ^ Z.to_N (Z.log2 x + 1)) = (2 ^ (Z.log2 x + 1))%Z).
    { rewrite N2Z.inj_pow, Z2N.id by lia. reflexivity. }
    rewrite P.
    split; [apply roundUp_sessions; exact Hz|].
    split; [apply roundUp_service; exact Hz|].
    assert (S2 : (2 ^ (Z.log2 x + 1) = 2 * 2 ^ Z.log2 x)%Z) by (apply Z.pow_succ_r; lia).
    unfold Z.succ in Hi.
    generalize dependent (2 ^ Z.to_N (Z.log2 x + 1)). intros p P.
    generalize dependent (2 ^ (Z.log2 x + 1))%Z. intros q Hi S2 P.
    generalize dependent (2 ^ Z.log2 x)%Z. intros q0 Lo S2.
    subst x. lia.
Qed.

Print Assumptions powerOfTwo_equiv.
Print Assumptions roundUp_equiv.
