(* Proofs of Trans/SpecAckq.v. *)
From Coq Require Import ZArith List Bool Lia.
From Base Require Import Tactics Bytes GoSem.
From Gen Require Import Tables Translated.
From Ackq Require Import Model.
From Trans Require Import Common SpecAckq.
Open Scope N_scope.

Lemma full_empty_equiv : T_full_empty.
Proof. intros count size. unfold go_sessions_full, go_sessions_empty. split; f_equal; lia. Qed.

(* ---------- the ack queue ring arithmetic ---------- *)

Lemma index_equiv : T_index.
Proof.
  intros k n.
  assert (H : N.land n (2 ^ k - 1) = n mod 2 ^ k).
  { rewrite <- N.land_ones. f_equal. rewrite N.ones_equiv, N.pred_sub. reflexivity. }
  split; [|exact H]. intro Hpresent.
  first
    [ discriminate Hpresent
    | assert (HZ : Z.land (Z.of_N n) (Z.of_N (2 ^ k - 1)) = Z.of_N (n mod 2 ^ k))
        by (assert (P : (0 < 2 ^ k)) by (apply N.neq_0_lt_0, N.pow_nonzero; discriminate);
            rewrite N2Z.inj_sub by lia; rewrite N2Z.inj_mod, N2Z.inj_pow;
            change (Z.of_N 2) with 2%Z; change (Z.of_N 1) with 1%Z;
            rewrite <- Z.land_ones by lia; f_equal; rewrite Z.ones_equiv; lia);
      unfold go_sessions_index; f_equal;
      first [exact HZ | rewrite Z.land_comm; exact HZ] ].
Qed.

Print Assumptions index_equiv.
Print Assumptions full_empty_equiv.
