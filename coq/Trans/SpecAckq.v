(* Statements tying the translations of the ring arithmetic of sessions/ackqueue.go and service/buffer.go (index, full,
   empty, powerOfTwo64, roundUpPowerOfTwo64) to their models (see Trans/Spec.v for the conventions). *)
From Coq Require Import ZArith.
From Base Require Import Tactics Bytes GoSem.
From Gen Require Import Tables Translated.
From Ackq Require Import Model.
From Trans Require Export Common.
Open Scope N_scope.

(* Ackqueue.index with mask = size - 1, size a power of two, is the position modulo the size (the ring
   model Ackq.Model.index uses the same land).  The helper is one line and a rewrite may inline it (refactors/R14):
   the statement is about the method if the source has it (present_sessions_index, read off the source); the second
   half - the model's own land is the position modulo the size - does not depend on it *)
Definition T_index : Prop := forall k n : N,
  (present_sessions_index = true -> go_sessions_index (Z.of_N (2 ^ k - 1)) (Z.of_N n) = Some (Z.of_N (n mod 2 ^ k)))
  /\ N.land n (2 ^ k - 1) = n mod 2 ^ k.

Definition T_full_empty : Prop := forall count size : N,
  go_sessions_full (Z.of_N count) (Z.of_N size) = Some (count =? size)
  /\ go_sessions_empty (Z.of_N count) = Some (count =? 0).
