(* Statements that tie the Gallina translations of the per-type codec methods of the two smallest packet families -
   DisconnectMessage (DISCONNECT, PINGREQ, PINGRESP: Decode, Len, Encode) and PubackMessage (PUBACK, PUBREC, PUBREL,
   PUBCOMP, UNSUBACK: Decode, Len, Encode), eight of the fourteen packet types - to the codec model Codec/Impl.v
   (the empty_ and ack_ functions), which the theorems of C03 / C04 are about.  The translated methods call the translated
   header.decode / encode / msglen / SetRemainingLength / Type / Name; the packet identifier is the two-byte slice the
   header holds (pidz).  Value semantics: the aliasing between the identifier / type byte and the decode buffer
   (model fields hal, pal) is not represented in the translation, so SetPacketID on a decoded message is outside
   these statements. *)
From Coq Require Import ZArith List Bool.
From Base Require Import Tactics Bytes GoSem.
From Gen Require Import Tables Translated.
From Codec Require Import Wire Impl.
From Trans Require Import Spec.
Open Scope N_scope.

(* header.packetID: two bytes when an identifier is present, empty otherwise *)
Definition pidz (h : hdr) : list Z := match pid h with Some v => zb (be16 v) | None => [] end.
Definition pid_ok (h : hdr) : Prop := match pid h with Some v => v < 65536 | None => True end.

(* header.PacketID *)
Definition T_PacketID : Prop := forall h : hdr, pid_ok h ->
  go_message_PacketID (pidz h) = Some (Z.of_N (packet_id h)).

(* DisconnectMessage.Decode = empty_decode *)
Definition T_empty_decode : Prop := forall (h : hdr) (src : bytes),
  bytes_ok src = true -> tf h < 256 ->
  empty_decode h src <> Panic /\
  match empty_decode h src with
  | Ok (h', n) =>
      go_message_DisconnectMessage_Decode (zb (dbuf h)) (dirty h) [Z.of_N (tf h)] (Z.of_N (remlen h)) (zb src) =
      Some (Z.of_nat n, false, zb (dbuf h'), dirty h', [Z.of_N (tf h')], Z.of_N (remlen h'))
  | Err _ n =>
      exists d di m r,
        go_message_DisconnectMessage_Decode (zb (dbuf h)) (dirty h) [Z.of_N (tf h)] (Z.of_N (remlen h)) (zb src) =
        Some (Z.of_nat n, true, d, di, m, r)
  | Panic => False
  end.

(* DisconnectMessage.Len = empty_len *)
Definition T_empty_len : Prop := forall h : hdr,
  go_message_DisconnectMessage_Len (zb (dbuf h)) (dirty h) (Z.of_N (remlen h)) = Some (Z.of_nat (empty_len h)).

(* DisconnectMessage.Encode = empty_encode *)
Definition T_empty_encode : Prop := forall (h : hdr) (dst : bytes),
  match empty_encode h (length dst) with
  | Ok bs =>
      go_message_DisconnectMessage_Encode (zb (dbuf h)) (dirty h) [Z.of_N (tf h)] (Z.of_N (remlen h)) (zb dst) =
      Some (Z.of_nat (length bs), false, dirty h, [Z.of_N (tf h)], zb (bs ++ skipn (length bs) dst))
  | Err _ _ =>
      go_message_DisconnectMessage_Encode (zb (dbuf h)) (dirty h) [Z.of_N (tf h)] (Z.of_N (remlen h)) (zb dst) =
      Some (0%Z, true, dirty h, [Z.of_N (tf h)], zb dst)
  | Panic => False
  end.

(* PubackMessage.Decode = ack_decode: on success the identifier is the two bytes after the fixed header *)
Definition T_ack_decode : Prop := forall (h : hdr) (src : bytes),
  bytes_ok src = true -> tf h < 256 ->
  ack_decode h src <> Panic /\
  match ack_decode h src with
  | Ok (h', n) =>
      go_message_PubackMessage_Decode (zb (dbuf h)) (dirty h) [Z.of_N (tf h)] (pidz h) (Z.of_N (remlen h)) (zb src) =
      Some (Z.of_nat n, false, zb (dbuf h'), dirty h', [Z.of_N (tf h')], pidz h', Z.of_N (remlen h'))
      /\ pid_ok h'
  | Err _ n =>
      exists d di m p r,
        go_message_PubackMessage_Decode (zb (dbuf h)) (dirty h) [Z.of_N (tf h)] (pidz h) (Z.of_N (remlen h)) (zb src) =
        Some (Z.of_nat n, true, d, di, m, p, r)
  | Panic => False
  end.

(* PubackMessage.Len = ack_len *)
Definition T_ack_len : Prop := forall h : hdr,
  go_message_PubackMessage_Len (zb (dbuf h)) (dirty h) (Z.of_N (remlen h)) =
  Some (Z.of_nat (snd (ack_len h)), dirty (fst (ack_len h)), Z.of_N (remlen (fst (ack_len h)))).

(* PubackMessage.Encode = ack_encode: fixed header, then the identifier (zeros when none is set) *)
Definition T_ack_encode : Prop := forall (h : hdr) (dst : bytes), pid_ok h ->
  match ack_encode h (length dst) with
  | Ok (h', bs) =>
      go_message_PubackMessage_Encode (zb (dbuf h)) (dirty h) [Z.of_N (tf h)] (pidz h) (Z.of_N (remlen h)) (zb dst) =
      Some (Z.of_nat (length bs), false, dirty h', [Z.of_N (tf h')], Z.of_N (remlen h'), zb (bs ++ skipn (length bs) dst))
  | Err _ _ =>
      exists di r,
      go_message_PubackMessage_Encode (zb (dbuf h)) (dirty h) [Z.of_N (tf h)] (pidz h) (Z.of_N (remlen h)) (zb dst) =
      Some (0%Z, true, di, [Z.of_N (tf h)], r, zb dst)
  | Panic => False
  end.
