(* Proofs of the statements of Trans/SpecRing.v: the translated methods of service/buffer.go (sequential reading)
   equal the operations of Ring/Seq.v.  The proofs unfold the translation and decide by case analysis on the
   comparisons + lia, they do not match on its shape. *)
From Coq Require Import ZArith List Bool Lia.
From Base Require Import Tactics Bytes GoSem.
From Gen Require Import Translated.
From Ring Require Import Seq.
From Trans Require Import SpecRing.
Open Scope Z_scope.

Ltac bcase :=
  repeat match goal with
         | |- context [if ?c then _ else _] => let E := fresh "E" in destruct c eqn:E; try lia
         end.

Lemma dz_eqb b : (dz b =? 1) = b.
Proof. destruct b; reflexivity. Qed.

Theorem ring_isDone : T_ring_isDone.
Proof. intro r. unfold go_service_isDone. now rewrite dz_eqb. Qed.

Theorem ring_Len : T_ring_Len.
Proof. intro r. reflexivity. Qed.

Theorem ring_Close : T_ring_Close.
Proof. intro r. reflexivity. Qed.

(* decide every integer comparison in the goal, dropping the contradictory combinations *)
Ltac cmp_all :=
  repeat match goal with
         | |- context [Z.ltb ?a ?b] => let E := fresh "E" in destruct (Z.ltb a b) eqn:E; try lia
         | |- context [Z.gtb ?a ?b] => let E := fresh "E" in destruct (Z.gtb a b) eqn:E; try lia
         | |- context [Z.leb ?a ?b] => let E := fresh "E" in destruct (Z.leb a b) eqn:E; try lia
         | |- context [Z.geb ?a ?b] => let E := fresh "E" in destruct (Z.geb a b) eqn:E; try lia
         end.

(* a <= b is known: give every comparison of the two in the goal its value, however it is written *)
Ltac know_le a b :=
  try replace (a <=? b) with true by lia; try replace (b >=? a) with true by lia;
  try replace (a >? b) with false by lia; try replace (b <? a) with false by lia.
(* a < b is known *)
Ltac know_lt a b :=
  try replace (a <? b) with true by lia; try replace (b >? a) with true by lia;
  try replace (a >=? b) with false by lia; try replace (b <=? a) with false by lia.

Theorem ring_waitForWriteSpace : T_ring_waitForWriteSpace.
Proof.
  intros r n pw. unfold go_service_waitForWriteSpace, go_service_isDone, wfs, set_gate. rewrite ?dz_eqb.
  destruct r as [sz b ps cs g d]; cbn [Seq.size Seq.buf Seq.pseq Seq.cseq Seq.gate Seq.done].
  destruct d; cbn [fst Seq.gate Seq.size Seq.buf Seq.pseq Seq.cseq Seq.done]; [split; reflexivity|].
  cbn beta iota zeta. cmp_all; cbn [orb andb negb fst Seq.gate Seq.size Seq.buf Seq.pseq Seq.cseq Seq.done]; split; reflexivity.
Qed.

Lemma wfs_shape r n : exists g res, wfs r n = (set_gate r g, res).
Proof.
  destruct (ring_waitForWriteSpace r n 0) as [_ H]. destruct (wfs r n) as [r' res] eqn:E. cbn [fst] in H.
  exists (gate r'), res. now rewrite H at 1.
Qed.

Theorem ring_WriteCommit : T_ring_WriteCommit.
Proof.
  intros r n pw. unfold go_service_WriteCommit, r_write_commit.
  destruct (ring_waitForWriteSpace r n pw) as [-> _].
  destruct (wfs_shape r n) as (g & res & ->). unfold set_gate.
  destruct res; cbn [Seq.size Seq.buf Seq.pseq Seq.cseq Seq.gate Seq.done]; reflexivity.
Qed.

Theorem ring_ReadCommit : T_ring_ReadCommit.
Proof.
  intros r n Hn. unfold go_service_ReadCommit, r_read_commit. cbv beta iota zeta.
  cmp_all; cbn [Seq.cseq]; reflexivity.
Qed.

(* ---------- lists ---------- *)
Lemma go_len_zb l : go_len (zb l) = Z.of_nat (length l).
Proof. unfold go_len, zb. now rewrite map_length. Qed.

Lemma zb_nth l j : nth j (zb l) 0 = Z.of_N (nth j l 0%N).
Proof. unfold zb. change 0 with (Z.of_N 0%N) at 1. apply map_nth. Qed.

Lemma go_sub_length (l : list Z) lo hi : 0 <= lo -> lo <= hi -> hi <= go_len l -> length (go_sub l lo hi) = Z.to_nat (hi - lo).
Proof. intros H1 H2 H3. unfold go_sub, go_len in *. rewrite firstn_length, skipn_length. lia. Qed.

Lemma nth_firstn_lt (A : Type) (l : list A) : forall n j d, (j < n)%nat -> nth j (firstn n l) d = nth j l d.
Proof.
  induction l as [|x l IH]; intros n j d Hj; [now rewrite firstn_nil|].
  destruct n as [|n]; [lia|]. destruct j as [|j]; [reflexivity|]. cbn [firstn nth]. apply IH. lia.
Qed.

Lemma nth_skipn_add (A : Type) (l : list A) : forall i j d, nth j (skipn i l) d = nth (i + j) l d.
Proof.
  induction l as [|x l IH]; intros i j d; [rewrite skipn_nil; destruct j; destruct (i + _)%nat; reflexivity|].
  destruct i as [|i]; [reflexivity|]. cbn [skipn Nat.add nth]. apply IH.
Qed.

Lemma go_sub_nth (l : list Z) lo hi j d : 0 <= lo -> lo <= hi -> hi <= go_len l -> (j < Z.to_nat (hi - lo))%nat ->
  nth j (go_sub l lo hi) d = nth (Z.to_nat lo + j) l d.
Proof.
  intros H1 H2 H3 Hj. unfold go_sub. rewrite nth_firstn_lt by exact Hj. apply nth_skipn_add.
Qed.

Lemma go_sub_all (l : list Z) : go_sub l 0 (go_len l) = l.
Proof. unfold go_sub, go_len. rewrite Z.sub_0_r, Nat2Z.id. cbn [Z.to_nat skipn]. apply firstn_all. Qed.

Lemma go_sub_all' (l : list Z) n : go_len l = n -> go_sub l 0 n = l.
Proof. intros <-. apply go_sub_all. Qed.

Lemma go_sub_nil (l : list Z) : go_sub l 0 0 = [].
Proof. reflexivity. Qed.

Lemma ring_get_length sz b : forall m pos, length (ring_get sz b pos m) = m.
Proof. induction m as [|m IH]; intro pos; cbn [ring_get length]; [reflexivity|now rewrite IH]. Qed.

Lemma ring_get_nth sz b : forall m pos j d, (j < m)%nat ->
  nth j (ring_get sz b pos m) d = nth (Z.to_nat ((pos + Z.of_nat j) mod sz)) b 0%N.
Proof.
  induction m as [|m IH]; intros pos j d Hj; [lia|]. cbn [ring_get]. destruct j as [|j].
  - cbn [nth]. now rewrite Z.add_0_r.
  - cbn [nth]. rewrite IH by lia. do 3 f_equal. lia.
Qed.

(* ---------- index arithmetic ---------- *)
Lemma mod_add_small pos j sz : 0 < sz -> 0 <= j -> pos mod sz + j < sz -> (pos + j) mod sz = pos mod sz + j.
Proof.
  intros Hs Hj Hlt. rewrite <- (Zplus_mod_idemp_l pos j sz). apply Z.mod_small.
  pose proof (Z.mod_pos_bound pos sz Hs). lia.
Qed.

Lemma mod_add_wrap pos j sz : 0 < sz -> sz <= pos mod sz + j -> pos mod sz + j < 2 * sz -> (pos + j) mod sz = pos mod sz + j - sz.
Proof.
  intros Hs H1 H2. rewrite <- (Zplus_mod_idemp_l pos j sz).
  set (i := pos mod sz) in *. pose proof (Z.mod_pos_bound pos sz Hs) as Hb. fold i in Hb.
  transitivity (((i + j - sz) + 1 * sz) mod sz); [f_equal; ring|].
  rewrite Z_mod_plus_full. apply Z.mod_small. lia.
Qed.

Lemma land_mask x sz : (exists k, 0 <= k /\ sz = 2 ^ k) -> Z.land x (sz - 1) = x mod sz.
Proof.
  intros (k & Hk & ->). rewrite <- Z.land_ones by exact Hk. f_equal. rewrite Z.ones_equiv. lia.
Qed.

Lemma pow2_pos sz : (exists k, 0 <= k /\ sz = 2 ^ k) -> 0 < sz.
Proof. intros (k & Hk & ->). apply Z.pow_pos_nonneg; lia. Qed.

(* the m bytes at position pos, when they do not wrap / when they wrap *)
Lemma ring_get_nowrap sz b pos m : 0 < sz -> Z.of_nat (length b) = sz -> pos mod sz + Z.of_nat m <= sz ->
  zb (ring_get sz b pos m) = go_sub (zb b) (pos mod sz) (pos mod sz + Z.of_nat m).
Proof.
  intros Hs Hl Hm. pose proof (Z.mod_pos_bound pos sz Hs) as Hb.
  apply (nth_ext _ _ 0 0).
  - unfold zb at 1. rewrite map_length, ring_get_length, go_sub_length; rewrite ?go_len_zb; lia.
  - unfold zb at 1. rewrite map_length, ring_get_length. intros j Hj.
    rewrite zb_nth, ring_get_nth by exact Hj. rewrite go_sub_nth; rewrite ?go_len_zb; try lia.
    rewrite zb_nth. do 2 f_equal. rewrite mod_add_small by lia. lia.
Qed.

Lemma ring_get_wrap sz b pos m : 0 < sz -> Z.of_nat (length b) = sz -> sz < pos mod sz + Z.of_nat m -> Z.of_nat m <= sz ->
  zb (ring_get sz b pos m) = go_sub (zb b) (pos mod sz) sz ++ go_sub (zb b) 0 (Z.of_nat m - (sz - pos mod sz)).
Proof.
  intros Hs Hl Hm Hle. pose proof (Z.mod_pos_bound pos sz Hs) as Hb.
  apply (nth_ext _ _ 0 0).
  - unfold zb at 1. rewrite map_length, ring_get_length, app_length, !go_sub_length; rewrite ?go_len_zb; lia.
  - unfold zb at 1. rewrite map_length, ring_get_length. intros j Hj.
    rewrite zb_nth, ring_get_nth by exact Hj.
    destruct (Z_lt_dec (pos mod sz + Z.of_nat j) sz) as [Hlt|Hge].
    + rewrite app_nth1 by (rewrite go_sub_length; rewrite ?go_len_zb; lia).
      rewrite go_sub_nth; rewrite ?go_len_zb; try lia. rewrite zb_nth. do 2 f_equal. rewrite mod_add_small by lia. lia.
    + rewrite app_nth2 by (rewrite go_sub_length; rewrite ?go_len_zb; lia).
      rewrite go_sub_length; rewrite ?go_len_zb; try lia.
      rewrite go_sub_nth; rewrite ?go_len_zb; try lia. rewrite zb_nth. do 2 f_equal. rewrite mod_add_wrap by lia. lia.
Qed.

Theorem ring_WriteWait : T_ring_WriteWait.
Proof.
  intros r n pw [Hp Hl] Hn. unfold go_service_WriteWait, r_write_wait.
  destruct (ring_waitForWriteSpace r n pw) as [-> _].
  destruct (wfs_shape r n) as (g & res & ->). unfold set_gate.
  destruct res as [start| | | |]; cbn [Seq.size Seq.buf Seq.pseq Seq.cseq Seq.gate Seq.done]; try reflexivity.
  cbn beta iota zeta. change (negb (0 =? 0)) with false. cbn iota.
  rewrite land_mask by exact Hp. pose proof (Z.mod_pos_bound start (size r) (pow2_pos _ Hp)) as Hb.
  rewrite go_len_zb, Hl.
  destruct (size r <? start mod size r + n) eqn:E1; destruct (start mod size r + n >? size r) eqn:E2; try lia.
  - replace (start mod size r + (size r - start mod size r)) with (size r) by ring.
    bcase. reflexivity.
  - bcase. reflexivity.
Qed.

Lemma go_len_nonneg (l : list Z) : 0 <= go_len l.
Proof. unfold go_len. lia. Qed.

Lemma go_len_app (a b : list Z) : go_len (a ++ b) = go_len a + go_len b.
Proof. unfold go_len. rewrite app_length. lia. Qed.

Lemma go_sub_len (l : list Z) lo hi : 0 <= lo -> lo <= hi -> hi <= go_len l -> go_len (go_sub l lo hi) = hi - lo.
Proof. intros. unfold go_len at 1. rewrite go_sub_length by assumption. lia. Qed.

(* the bytes a peek of m bytes at the consumer cursor yields, as the translation computes them *)
Lemma peek_bytes_wrap r m : ring_ok r -> 0 <= m <= size r -> size r < cseq r mod size r + m ->
  go_sub (zb (buf r)) (cseq r mod size r) (size r) ++ go_sub (zb (buf r)) 0 (m - (size r - cseq r mod size r))
  = zb (ring_get (size r) (buf r) (cseq r) (Z.to_nat m))
  /\ go_len (go_sub (zb (buf r)) (cseq r mod size r) (size r) ++ go_sub (zb (buf r)) 0 (m - (size r - cseq r mod size r))) = m.
Proof.
  intros [Hp Hl] Hm Hw. pose proof (pow2_pos _ Hp) as Hs. pose proof (Z.mod_pos_bound (cseq r) (size r) Hs) as Hb.
  split.
  - rewrite ring_get_wrap; rewrite ?Z2Nat.id; try lia. reflexivity.
  - rewrite go_len_app, !go_sub_len; rewrite ?go_len_zb; lia.
Qed.

Theorem ring_ReadWait : T_ring_ReadWait.
Proof.
  intros r tmp n Hok Hn. pose proof Hok as [Hp Hl]. pose proof (pow2_pos _ Hp) as Hs.
  pose proof (Z.mod_pos_bound (cseq r) (size r) Hs) as Hb. pose proof (go_len_nonneg tmp) as Ht.
  unfold go_service_ReadWait, r_read_wait. autounfold with gotrans. cbv beta iota zeta.
  rewrite ?dz_eqb, ?land_mask by exact Hp.
  know_le 0 n.
  destruct (size r <? n) eqn:E1.
  { know_lt (size r) n. eexists; reflexivity. }
  know_le n (size r).
  destruct (pseq r <? cseq r + n) eqn:E4.
  { know_lt (pseq r) (cseq r + n). destruct (done r); eexists; reflexivity. }
  know_le (cseq r + n) (pseq r).
  destruct (Z_le_dec (cseq r mod size r + n) (size r)) as [Hnw|Hw].
  - know_le (cseq r mod size r + n) (size r). rewrite ?go_len_zb, ?Hl. bcase. eexists.
    pose proof (ring_get_nowrap (size r) (buf r) (cseq r) (Z.to_nat n) Hs Hl) as Hnw'.
    rewrite Z2Nat.id in Hnw' by lia. rewrite Hnw' by lia. reflexivity.
  - know_lt (size r) (cseq r mod size r + n).
    destruct (peek_bytes_wrap r n Hok ltac:(lia) ltac:(lia)) as [Hbytes Hlen].
    rewrite ?go_sub_nil, ?app_nil_l. rewrite ?go_len_zb, ?Hl.
    rewrite ?go_sub_len by (rewrite ?go_len_zb; lia).
    set (T := go_sub (zb (buf r)) (cseq r mod size r) (size r) ++ go_sub (zb (buf r)) 0 (n - (size r - cseq r mod size r))) in *.
    bcase. eexists. rewrite (go_sub_all' T n Hlen), Hbytes. reflexivity.
Qed.

(* the tail of a peek: the m bytes at the consumer cursor, wrapped (through the scratch buffer) or not *)
Ltac peek_tail r m Hok Hs Hl :=
  let Hbytes := fresh "Hbytes" in let Hlen := fresh "Hlen" in let Hnw := fresh "Hnw" in
  let Hc := fresh "Hc" in
  destruct (Z_le_dec (cseq r mod size r + m) (size r)) as [Hc|Hc];
  [ know_le (cseq r mod size r + m) (size r); rewrite ?go_len_zb, ?Hl; bcase; do 2 eexists;
    pose proof (ring_get_nowrap (size r) (buf r) (cseq r) (Z.to_nat m) Hs Hl) as Hnw;
    rewrite Z2Nat.id in Hnw by lia; rewrite Hnw by lia; reflexivity
  | know_lt (size r) (cseq r mod size r + m);
    destruct (peek_bytes_wrap r m Hok ltac:(lia) ltac:(lia)) as [Hbytes Hlen];
    rewrite ?go_sub_nil, ?app_nil_l; rewrite ?go_len_zb, ?Hl;
    rewrite ?go_sub_len by (rewrite ?go_len_zb; lia);
    bcase; do 2 eexists; rewrite ?Hbytes; reflexivity ].

Theorem ring_ReadPeek : T_ring_ReadPeek.
Proof.
  intros r tmp n cw Hok Hn Hinv. pose proof Hok as [Hp Hl]. pose proof (pow2_pos _ Hp) as Hs.
  pose proof (Z.mod_pos_bound (cseq r) (size r) Hs) as Hb. pose proof (go_len_nonneg tmp) as Ht.
  unfold go_service_ReadPeek, r_read_peek. autounfold with gotrans. cbv beta iota zeta.
  rewrite ?dz_eqb, ?land_mask by exact Hp.
  know_le 0 n.
  destruct (size r <? n) eqn:E1.
  { know_lt (size r) n. do 2 eexists; reflexivity. }
  know_le n (size r).
  destruct (pseq r <=? cseq r) eqn:E4.
  { know_le (pseq r) (cseq r). destruct (done r); do 2 eexists; reflexivity. }
  know_lt (cseq r) (pseq r).
  destruct (Z_le_dec n (pseq r - cseq r)) as [Hm|Hm].
  - know_le n (pseq r - cseq r). know_le (cseq r + n) (pseq r). peek_tail r n Hok Hs Hl.
  - know_lt (pseq r - cseq r) n. know_le (cseq r + (pseq r - cseq r)) (pseq r). peek_tail r (pseq r - cseq r) Hok Hs Hl.
Qed.

(* ---------- ringCopy ---------- *)
Lemma set_at_eq (b : list N) : forall i x, (i < length b)%nat -> set_at b i x = firstn i b ++ x :: skipn (S i) b.
Proof.
  induction b as [|y b IH]; intros i x Hi; [cbn in Hi; lia|].
  destruct i as [|i]; [reflexivity|]. cbn [set_at firstn skipn app]. f_equal. apply IH. cbn in Hi. lia.
Qed.

Lemma skipn_add (A : Type) (l : list A) : forall m n, skipn n (skipn m l) = skipn (m + n) l.
Proof.
  induction l as [|x l IH]; intros m n; [now rewrite !skipn_nil|].
  destruct m as [|m]; [reflexivity|]. cbn [skipn Nat.add]. apply IH.
Qed.

Lemma ring_copy_nowrap sz : 0 < sz -> forall p b pos, Z.of_nat (length b) = sz ->
  pos mod sz + Z.of_nat (length p) <= sz ->
  ring_copy sz b p pos = firstn (Z.to_nat (pos mod sz)) b ++ p ++ skipn (Z.to_nat (pos mod sz) + length p) b.
Proof.
  intros Hs. induction p as [|x p IH]; intros b pos Hl Hp; pose proof (Z.mod_pos_bound pos sz Hs) as Hb.
  - cbn [ring_copy length app]. now rewrite Nat.add_0_r, firstn_skipn.
  - cbn [ring_copy]. set (i := Z.to_nat (pos mod sz)). cbn [length] in Hp.
    assert (Hi : (i < length b)%nat) by (unfold i; lia).
    destruct p as [|y p].
    + cbn [ring_copy length app]. rewrite set_at_eq by exact Hi. now rewrite Nat.add_1_r.
    + assert (Hm : (pos + 1) mod sz = pos mod sz + 1) by (apply mod_add_small; cbn [length] in Hp; lia).
      rewrite IH; [|rewrite set_at_eq by exact Hi; rewrite app_length, firstn_length; cbn [length]; rewrite skipn_length; lia
                   |rewrite Hm; cbn [length] in *; lia].
      rewrite Hm. replace (Z.to_nat (pos mod sz + 1)) with (S i) by (unfold i; lia).
      rewrite set_at_eq by exact Hi.
      assert (Hfi : length (firstn i b) = i) by (rewrite firstn_length; lia).
      rewrite firstn_app, Hfi. rewrite firstn_all2 by lia. replace (S i - i)%nat with 1%nat by lia.
      rewrite skipn_app, Hfi. rewrite (skipn_all2 (firstn i b)) by lia.
      replace (S i + length (y :: p) - i)%nat with (S (length (y :: p))) by lia.
      cbn [firstn]. change (skipn (S (length (y :: p))) (x :: skipn (S i) b)) with (skipn (length (y :: p)) (skipn (S i) b)).
      rewrite skipn_add. rewrite <- app_assoc. cbn [app].
      do 5 f_equal. cbn [length]. lia.
Qed.

Lemma ring_copy_app sz : forall p1 p2 b pos,
  ring_copy sz b (p1 ++ p2) pos = ring_copy sz (ring_copy sz b p1 pos) p2 (pos + Z.of_nat (length p1)).
Proof.
  induction p1 as [|x p1 IH]; intros p2 b pos; cbn [app ring_copy length].
  - now rewrite Z.add_0_r.
  - rewrite IH. f_equal. lia.
Qed.

Lemma ring_copy_length sz : forall p b pos, length (ring_copy sz b p pos) = length b.
Proof.
  induction p as [|x p IH]; intros b pos; [reflexivity|]. cbn [ring_copy]. rewrite IH.
  generalize (Z.to_nat (pos mod sz)). clear. induction b as [|y b IHb]; intros i; [reflexivity|].
  destruct i; cbn [set_at length]; [reflexivity|]. f_equal. apply IHb.
Qed.

(* copy(dst[lo:], src) on model bytes, when everything fits *)
Lemma go_copy_fits (b p : list N) lo : 0 <= lo -> lo + Z.of_nat (length p) <= Z.of_nat (length b) ->
  go_copy (zb b) lo (zb p) = zb (firstn (Z.to_nat lo) b ++ p ++ skipn (Z.to_nat lo + length p) b).
Proof.
  intros H0 H1. unfold go_copy, zb. rewrite !map_length.
  replace (Nat.min (length b - Z.to_nat lo) (length p)) with (length p) by lia.
  rewrite !map_app, firstn_map, skipn_map. rewrite <- (map_length Z.of_N p) at 1. now rewrite firstn_all.
Qed.

Lemma go_copy_n_zb (b p : list N) lo : go_copy_n (zb b) lo (zb p) = Z.min (Z.of_nat (length b) - lo) (Z.of_nat (length p)).
Proof. unfold go_copy_n. now rewrite !go_len_zb. Qed.

Lemma zb_go_sub (l : list N) lo hi : go_sub (zb l) lo hi = zb (firstn (Z.to_nat (hi - lo)) (skipn (Z.to_nat lo) l)).
Proof. unfold go_sub, zb. now rewrite skipn_map, firstn_map. Qed.

Lemma go_sub_all_zb (l : list N) : go_sub (zb l) 0 (Z.of_nat (length l)) = zb l.
Proof. rewrite <- go_len_zb. apply go_sub_all. Qed.

Lemma go_loop_S (S R : Type) f (body : S -> option (S + R)) s :
  go_loop (Datatypes.S f) body s = match body s with Some (inl s') => go_loop f body s' | x => x end.
Proof. reflexivity. Qed.

Theorem ring_ringCopy : T_ring_ringCopy.
Proof.
  intros dst src start Hst Hlen. unfold go_service_ringCopy. rewrite go_len_zb. cbn beta iota zeta.
  assert (Hs : 0 < Z.of_nat (length dst)) by lia.
  assert (Hmod : start mod Z.of_nat (length dst) = start) by (apply Z.mod_small; lia).
  match goal with |- context [go_loop 4 ?f _] => set (body := f) end.
  destruct (Nat.eq_dec (length src) 0) as [Hnil|Hne].
  - destruct src; [reflexivity|discriminate].
  - destruct (Z_le_dec (start + Z.of_nat (length src)) (Z.of_nat (length dst))) as [Hfit|Hwrap].
    + (* one copy *)
      rewrite go_loop_S. unfold body at 1. cbn beta iota zeta. rewrite !go_len_zb.
      destruct (Z.of_nat (length src) >? 0) eqn:E0; try lia.
      rewrite go_sub_all_zb, go_copy_n_zb.
      replace (Z.min (Z.of_nat (length dst) - start) (Z.of_nat (length src))) with (Z.of_nat (length src)) by lia.
      rewrite Z.sub_diag. change (0 >? 0) with false. cbn iota.
      bcase. rewrite go_loop_S. unfold body at 1. cbn beta iota zeta. change (0 >? 0) with false. cbn iota.
      rewrite go_copy_fits by lia. rewrite ring_copy_nowrap by lia. rewrite Hmod. reflexivity.
    + (* two copies: up to the end of dst, then from its beginning *)
      set (c1 := Z.of_nat (length dst) - start) in *.
      set (s1 := firstn (Z.to_nat c1) src). set (s2 := skipn (Z.to_nat c1) src).
      assert (Hl1 : Z.of_nat (length s1) = c1) by (unfold s1; rewrite firstn_length; lia).
      assert (Hl2 : Z.of_nat (length s2) = Z.of_nat (length src) - c1) by (unfold s2; rewrite skipn_length; lia).
      assert (Hsrc : src = s1 ++ s2) by (unfold s1, s2; now rewrite firstn_skipn).
      set (b1 := firstn (Z.to_nat start) dst ++ s1 ++ skipn (Z.to_nat start + length s1) dst).
      assert (Hb1 : Z.of_nat (length b1) = Z.of_nat (length dst))
        by (unfold b1; rewrite !app_length, firstn_length, skipn_length; lia).
      assert (Hd1 : go_copy (zb dst) start (zb src) = zb b1).
      { unfold b1. rewrite <- go_copy_fits by lia. unfold go_copy, zb. rewrite !map_length.
        replace (Nat.min (length dst - Z.to_nat start) (length src)) with (Z.to_nat c1) by lia.
        replace (Nat.min (length dst - Z.to_nat start) (length s1)) with (Z.to_nat c1) by lia.
        do 2 f_equal. unfold s1. rewrite !firstn_map. now rewrite firstn_firstn, Nat.min_id. }
      assert (Hs2 : go_sub (zb src) c1 (Z.of_nat (length src)) = zb s2).
      { rewrite zb_go_sub. unfold s2. f_equal. apply firstn_all2. rewrite skipn_length. lia. }
      rewrite go_loop_S. unfold body at 1. cbn beta iota zeta. rewrite !go_len_zb.
      destruct (Z.of_nat (length src) >? 0) eqn:E0; try lia.
      rewrite go_sub_all_zb, go_copy_n_zb.
      replace (Z.min (Z.of_nat (length dst) - start) (Z.of_nat (length src))) with c1 by lia.
      destruct (Z.of_nat (length src) - c1 >? 0) eqn:E1; try lia.
      bcase. rewrite Hd1, Z.add_0_l.
      rewrite go_loop_S. unfold body at 1. cbn beta iota zeta. rewrite E1, Hs2, !go_len_zb, go_copy_n_zb.
      replace (Z.min (Z.of_nat (length b1) - 0) (Z.of_nat (length s2))) with (Z.of_nat (length src) - c1) by lia.
      rewrite Z.sub_diag. change (0 >? 0) with false. cbn iota.
      bcase. rewrite go_loop_S. unfold body at 1. cbn beta iota zeta. change (0 >? 0) with false. cbn iota.
      rewrite go_copy_fits by lia. f_equal. f_equal; [lia|]. f_equal.
      rewrite Hsrc at 1. rewrite ring_copy_app.
      rewrite (ring_copy_nowrap _ Hs s1) by lia. rewrite Hmod. fold b1.
      rewrite (ring_copy_nowrap _ Hs s2) by (rewrite ?Hb1; rewrite ?Hl1; unfold c1; rewrite ?Zplus_minus, ?Z_mod_same_full; lia).
      rewrite Hl1. unfold c1. rewrite Zplus_minus, Z_mod_same_full. reflexivity.
Qed.

Lemma ring_copy_mod sz : forall p b pos, ring_copy sz b p pos = ring_copy sz b p (pos mod sz).
Proof.
  induction p as [|x p IH]; intros b pos; [reflexivity|]. cbn [ring_copy]. rewrite Zmod_mod.
  rewrite (IH _ (pos + 1)), (IH _ (pos mod sz + 1)). now rewrite Zplus_mod_idemp_l.
Qed.

Theorem ring_Write : T_ring_Write.
Proof.
  intros r p pw Hok Hlen. pose proof Hok as [Hp Hl]. pose proof (pow2_pos _ Hp) as Hs.
  unfold go_service_Write, r_write, go_service_isDone. rewrite dz_eqb.
  destruct (done r) eqn:Ed; [reflexivity|].
  rewrite go_len_zb. destruct (ring_waitForWriteSpace r (Z.of_nat (length p)) pw) as [Hw _].
  rewrite Ed in Hw. cbn [dz] in *. rewrite Hw.
  destruct (wfs_shape r (Z.of_nat (length p))) as (g & res & ->). unfold set_gate.
  destruct res as [start| | | |]; cbn [Seq.size Seq.buf Seq.pseq Seq.cseq Seq.gate Seq.done]; try reflexivity.
  cbn beta iota zeta. change (negb (0 =? 0)) with false. cbn iota.
  rewrite land_mask by exact Hp. pose proof (Z.mod_pos_bound start (size r) Hs) as Hb.
  rewrite ring_ringCopy by lia. rewrite Hl, <- ring_copy_mod. reflexivity.
Qed.

(* copy(p, buf[i:hi]) at the consumer cursor: the bytes copied are the model's, the rest of p stays *)
Lemma read_copy r (p : list Z) hi n : ring_ok r -> cseq r mod size r <= hi -> hi <= size r ->
  n = Z.min (go_len p) (hi - cseq r mod size r) ->
  go_copy p 0 (go_sub (zb (buf r)) (cseq r mod size r) hi) =
    zb (ring_get (size r) (buf r) (cseq r) (Z.to_nat n)) ++ skipn (length (ring_get (size r) (buf r) (cseq r) (Z.to_nat n))) p
  /\ go_copy_n p 0 (go_sub (zb (buf r)) (cseq r mod size r) hi) = n
  /\ go_len (zb (ring_get (size r) (buf r) (cseq r) (Z.to_nat n))) = n.
Proof.
  intros [Hp Hl] Hlo Hhi Hn. pose proof (pow2_pos _ Hp) as Hs. pose proof (Z.mod_pos_bound (cseq r) (size r) Hs) as Hb.
  pose proof (go_len_nonneg p) as Hpl.
  assert (Hsl : go_len (go_sub (zb (buf r)) (cseq r mod size r) hi) = hi - cseq r mod size r)
    by (apply go_sub_len; rewrite ?go_len_zb; lia).
  assert (Hn0 : 0 <= n) by lia.
  pose proof (ring_get_nowrap (size r) (buf r) (cseq r) (Z.to_nat n) Hs Hl) as Hnw.
  rewrite Z2Nat.id in Hnw by lia. rewrite Hnw by lia.
  split; [|split].
  - unfold go_copy. cbn [Z.to_nat firstn app Nat.add]. rewrite Nat.sub_0_r.
    unfold go_len in *. rewrite ring_get_length.
    replace (Nat.min (length p) (length (go_sub (zb (buf r)) (cseq r mod size r) hi))) with (Z.to_nat n) by lia.
    f_equal. unfold go_sub. rewrite firstn_firstn. f_equal; lia.
  - unfold go_copy_n. lia.
  - rewrite go_sub_len; rewrite ?go_len_zb; lia.
Qed.

(* copy(p, src) as a value and as a statement are the same copy *)
Lemma go_copy_to_whole (p src : list Z) :
  go_copy_to p 0 (go_len p) src = go_copy p 0 src /\ go_copy_to_n p 0 (go_len p) src = go_copy_n p 0 src.
Proof.
  unfold go_copy_to, go_copy_to_n, go_copy, go_copy_n, go_len. split; [|reflexivity].
  cbn [Z.to_nat firstn app Nat.add]. rewrite Nat.sub_0_r. do 2 f_equal; f_equal; lia.
Qed.

Theorem ring_Read : T_ring_Read.
Proof.
  intros r p cw Hok Hinv. pose proof Hok as [Hp Hl]. pose proof (pow2_pos _ Hp) as Hs.
  pose proof (Z.mod_pos_bound (cseq r) (size r) Hs) as Hb. pose proof (go_len_nonneg p) as Hpl.
  unfold go_service_Read, r_read, rlen. autounfold with gotrans. cbv beta iota zeta. rewrite ?dz_eqb.
  assert (Hhead : (if done r then Some (pseq r - cseq r =? 0) else Some false) = Some (done r && (pseq r - cseq r =? 0)))
    by (destruct (done r); reflexivity).
  rewrite ?Hhead. destruct (done r && (pseq r - cseq r =? 0)) eqn:E0; [eexists; reflexivity|].
  rewrite go_loop_S. cbv beta iota zeta. rewrite ?land_mask by exact Hp. rewrite ?go_len_zb, ?Hl.
  rewrite ?(proj1 (go_copy_to_whole p _)), ?(proj2 (go_copy_to_whole p _)).
  destruct (Z_lt_dec (cseq r + go_len p) (pseq r)) as [HA|HA].
  - know_lt (cseq r + go_len p) (pseq r).
    destruct (read_copy r p (size r) (Z.min (go_len p) (size r - cseq r mod size r)) Hok ltac:(lia) ltac:(lia) eq_refl) as (Hc & Hcn & Hlen).
    rewrite ?Hc, ?Hcn. bcase. rewrite ?Hc, ?Hcn, ?Hlen. eexists. reflexivity.
  - know_le (pseq r) (cseq r + go_len p).
    destruct (Z_lt_dec (cseq r) (pseq r)) as [HB|HB].
    + know_lt (cseq r) (pseq r).
      destruct (Z_lt_dec (cseq r mod size r + (pseq r - cseq r)) (size r)) as [HB1|HB1].
      * know_lt (cseq r mod size r + (pseq r - cseq r)) (size r).
        destruct (read_copy r p (cseq r mod size r + (pseq r - cseq r)) (Z.min (go_len p) (pseq r - cseq r)) Hok ltac:(lia) ltac:(lia) ltac:(lia)) as (Hc & Hcn & Hlen).
        rewrite ?Hc, ?Hcn. bcase. rewrite ?Hc, ?Hcn, ?Hlen. eexists. reflexivity.
      * know_le (size r) (cseq r mod size r + (pseq r - cseq r)).
        destruct (read_copy r p (size r) (Z.min (go_len p) (size r - cseq r mod size r)) Hok ltac:(lia) ltac:(lia) eq_refl) as (Hc & Hcn & Hlen).
        rewrite ?Hc, ?Hcn. bcase. rewrite ?Hc, ?Hcn, ?Hlen. eexists. reflexivity.
    + know_le (pseq r) (cseq r). destruct (done r); eexists; reflexivity.
Qed.
