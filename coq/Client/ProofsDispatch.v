(* C20: dispatch of inbound application messages through the client's private store, and what the
   completions of SUBSCRIBE / UNSUBSCRIBE do to that store (Client/Props.v: C20_dispatch,
   C20_suback_registers, C20_unsuback_removes). *)
From Base Require Import Tactics Bytes.
From Gen Require Import Tables.
From Codec Require Import Wire Impl Script.
From Topics Require Import Model.
From Ackq Require Import Model Spec.
From Proto Require Import Broker.
From Client Require Import Model Props.
Open Scope N_scope.

(* ---------- dispatch ---------- *)

Lemma pub_set_qos_fields m q m1 : pub_set_qos m q = Some m1 ->
  p_topic m1 = p_topic m /\ p_payload m1 = p_payload m.
Proof.
  unfold pub_set_qos. destruct (negb (q <? 3)); [discriminate|].
  intros H. inv H. split; reflexivity.
Qed.

Lemma dispatch_subs_calls cl t p subs : forall m,
  p_topic m = t -> p_payload m = p ->
  map pub_call (dispatch_subs cl m subs) = map (fun sq => Some (cb_of cl (fst sq), t, p)) subs.
Proof.
  induction subs as [|[s q] r IH]; intros m HT HP; [reflexivity|].
  cbn [dispatch_subs].
  set (m1 := match pub_set_qos m q with Some x => x | None => m end).
  assert (F : p_topic m1 = t /\ p_payload m1 = p).
  { unfold m1. destruct (pub_set_qos m q) as [x|] eqn:E.
    - apply pub_set_qos_fields in E. destruct E as [E1 E2]. rewrite E1, E2. split; assumption.
    - split; assumption. }
  destruct F as [F1 F2].
  cbn [map pub_call fst]. rewrite F1, F2. fold (cb_of cl s).
  f_equal. apply IH; assumption.
Qed.

Lemma dispatch : C20_dispatch.
Proof.
  intros cl m cl1 o H. unfold Model.dispatch in H. cbv zeta in H.
  set (st := if pub_retain m then fst (t_retain (cl_store cl) (mkR (p_topic m) (p_payload m) (pub_qos m))) else cl_store cl) in H.
  destruct (t_subscribers st (p_topic m) (pub_qos m)) as [subs|] eqn:ES; inv H;
    cbn [with_cstore cl_subcb cl_store]; (split; [reflexivity|]); rewrite ES.
  - rewrite (dispatch_subs_calls _ (p_topic m) (p_payload m)) by reflexivity.
    reflexivity.
  - reflexivity.
Qed.

(* ---------- completion of a SUBSCRIBE ---------- *)

Lemma suback_registers : C20_suback_registers.
Proof.
  intros cl e sm n1 sa n2 cl1 o HT HS HA HL H.
  unfold complete in H. cbv zeta in H. rewrite HT in H.
  change (T_SUBSCRIBE =? T_PUBLISH) with false in H.
  change (T_SUBSCRIBE =? T_SUBSCRIBE) with true in H. cbv iota in H.
  rewrite HS, HA in H. rewrite HL, Nat.eqb_refl in H. cbn [negb] in H.
  destruct (sub_register (cl_store cl) (cl_nextsub cl) (s_topics sm) (sa_codes sa)) as [st err] eqn:ER.
  inv H. cbn [with_cstore cl_store cl_nextsub fst].
  split; [reflexivity|]. split; [|split; [|reflexivity]].
  - unfold cb_of. cbn [with_cstore cl_subcb find fst snd]. rewrite N.eqb_refl. reflexivity.
  - intros s HNE. unfold cb_of. cbn [with_cstore cl_subcb find fst snd].
    destruct (cl_nextsub cl =? s) eqn:E; [|reflexivity].
    apply N.eqb_eq in E. congruence.
Qed.

(* ---------- completion of an UNSUBSCRIBE ---------- *)

Lemma unsub_all_c_store ts : forall st, fst (unsub_all_c st ts) = unsub_store st ts.
Proof.
  induction ts as [|t r IH]; intros st; [reflexivity|].
  cbn [unsub_all_c unsub_store].
  destruct (t_unsubscribe st t 0) as [st1 ok]. cbn [fst].
  rewrite <- IH. destruct (unsub_all_c st1 r) as [st2 e]. reflexivity.
Qed.

Lemma unsuback_removes : C20_unsuback_removes.
Proof.
  intros cl e um n1 h n2 cl1 o HT HU HA H.
  unfold complete in H. cbv zeta in H. rewrite HT in H.
  change (T_UNSUBSCRIBE =? T_PUBLISH) with false in H.
  change (T_UNSUBSCRIBE =? T_SUBSCRIBE) with false in H.
  change (T_UNSUBSCRIBE =? T_UNSUBSCRIBE) with true in H. cbv iota in H.
  rewrite HU, HA in H.
  pose proof (unsub_all_c_store (u_topics um) (cl_store cl)) as ES.
  destruct (unsub_all_c (cl_store cl) (u_topics um)) as [st err].
  inv H. cbn [with_cstore cl_store cl_subcb]. split; [exact ES|reflexivity].
Qed.

Print Assumptions dispatch.
Print Assumptions suback_registers.
Print Assumptions unsuback_removes.
