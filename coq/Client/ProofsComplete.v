(* C12 over the client model (Client/Props.v): PUBREL follows PUBREC, registrations of waiting
   requests are unique in every reachable state, an acknowledgement completes exactly what the FIFO
   queue releases, and a completion fires its callback at most once.

   C12_ack_completes_released is FALSE as stated (for arbitrary, not necessarily reachable client
   states): see ack_completes_released_counterexample; the closest true statement is
   C12_ack_completes_released_corrected, and ack_completes_released_reach shows that the extra
   hypothesis holds in every reachable state. *)
From Base Require Import Tactics Bytes.
From Gen Require Import Tables.
From Codec Require Import Wire Impl Script.
From Topics Require Import Model.
From Ackq Require Import Model Spec ProofsFifo.
From Proto Require Import Broker ProofsSub.
From Client Require Import Model Props.
Open Scope N_scope.

(* ====================================================================== *)
(* C12: PUBREL follows PUBREC                                              *)
(* ====================================================================== *)

Lemma lenenc_ack ty pid c : is_ack_type ty = true -> pid < 65536 ->
  exists m', lenenc (mk_ack ty pid) c = (m', c, Ok (wire (PAck ty pid))).
Proof.
  intros HT HP.
  pose proof (send_ack (mkB store0 [] [] [] c 0 false) 0 ty pid HT HP) as S.
  unfold send, with_counter in S. cbn [br_counter br_store br_raw br_sess br_conns br_anon br_closed] in S.
  destruct (lenenc (mk_ack ty pid) c) as [[m' c'] [b| |]]; inv S.
  exists m'. reflexivity.
Qed.

Lemma csend_ack cl ty pid : is_ack_type ty = true -> pid < 65536 ->
  csend cl (mk_ack ty pid) = (with_ccounter cl (cl_counter cl), [CPkt (wire (PAck ty pid))]).
Proof.
  intros HT HP. unfold csend, cwrite.
  destruct (lenenc_ack ty pid (cl_counter cl) HT HP) as [m' E]. rewrite E. reflexivity.
Qed.

Lemma pubrec_pubrel : C12_pubrec_pubrel.
Proof.
  intros cl raw h cl1 o r HT HP H.
  unfold process_in in H. cbv zeta in H. rewrite HT in H.
  change (T_PUBREC =? T_PUBACK) with false in H.
  change (T_PUBREC =? T_PUBREC) with true in H. cbv iota in H.
  rewrite csend_ack in H by (reflexivity || exact HP).
  inv H. split; reflexivity.
Qed.

(* ====================================================================== *)
(* what the pieces of the processor leave alone                            *)
(* ====================================================================== *)

(* every queue, the registrations and the registration counter are unchanged *)
Definition frame (cl cl1 : client) : Prop :=
  cl_pub1 cl1 = cl_pub1 cl /\ cl_pub2out cl1 = cl_pub2out cl /\ cl_sub cl1 = cl_sub cl /\
  cl_unsub cl1 = cl_unsub cl /\ cl_ping cl1 = cl_ping cl /\ cl_pub2in cl1 = cl_pub2in cl /\
  cl_regs cl1 = cl_regs cl /\ cl_nextreg cl1 = cl_nextreg cl.

Ltac frame_triv := unfold frame; repeat split; reflexivity.

Lemma frame_refl cl : frame cl cl.
Proof. frame_triv. Qed.

Lemma frame_trans a b c : frame a b -> frame b c -> frame a c.
Proof.
  unfold frame. intros (A1 & A2 & A3 & A4 & A5 & A6 & A7 & A8) (B1 & B2 & B3 & B4 & B5 & B6 & B7 & B8).
  repeat split; congruence.
Qed.

Lemma frame_cstore cl st sc ns : frame cl (with_cstore cl st sc ns).
Proof. frame_triv. Qed.
Lemma frame_ccounter cl c : frame cl (with_ccounter cl c).
Proof. frame_triv. Qed.
Lemma frame_closed cl : frame cl (closed cl).
Proof. frame_triv. Qed.

Lemma frame_get_q cl cl1 w : frame cl cl1 -> In w [1; 2; 3; 4; 5; 6] -> get_q cl1 w = get_q cl w.
Proof.
  intros (A1 & A2 & A3 & A4 & A5 & A6 & _) HW. cbn [In] in HW.
  destruct HW as [<-|[<-|[<-|[<-|[<-|[<-|[]]]]]]]; cbn [get_q]; assumption.
Qed.

Lemma dispatch_frame cl m cl1 o : dispatch cl m = (cl1, o) -> frame cl cl1.
Proof.
  unfold dispatch. cbv zeta. intros H.
  destruct (t_subscribers _ _ _); inv H; apply frame_cstore.
Qed.

Lemma complete_frame cl e cl1 o : complete cl e = (cl1, o) -> frame cl cl1.
Proof.
  unfold complete. cbv zeta. intros H.
  destruct (e_mtype e =? T_PUBLISH).
  { destruct (pub_decode pub_new (e_msg e)) as [[m n]|c k|];
      destruct (ack_decode (ack_new (e_state e)) (e_ack e)) as [[h n2]|c2 k2|];
      try (inv H; apply frame_refl).
    destruct (e_state e =? T_PUBREL).
    - destruct (dispatch cl m) as [c2 o2] eqn:ED. inv H. exact (dispatch_frame _ _ _ _ ED).
    - inv H. apply frame_refl. }
  destruct (e_mtype e =? T_SUBSCRIBE).
  { destruct (sub_decode sub_new (e_msg e)) as [[sm n]|c k|];
      destruct (suback_decode suback_new (e_ack e)) as [[sa n2]|c2 k2|];
      try (inv H; apply frame_refl).
    destruct (negb (length (s_topics sm) =? length (sa_codes sa))%nat).
    - inv H. apply frame_refl.
    - destruct (sub_register _ _ _ _) as [st err]. inv H. apply frame_cstore. }
  destruct (e_mtype e =? T_UNSUBSCRIBE).
  { destruct (unsub_decode unsub_new (e_msg e)) as [[um n]|c k|];
      destruct (ack_decode (ack_new (e_state e)) (e_ack e)) as [[h n2]|c2 k2|];
      try (inv H; apply frame_refl).
    destruct (unsub_all_c _ _) as [st err]. inv H. apply frame_cstore. }
  destruct (e_mtype e =? T_PINGREQ); inv H; apply frame_refl.
Qed.

Lemma complete_all_frame l : forall cl cl1 o, complete_all cl l = (cl1, o) -> frame cl cl1.
Proof.
  induction l as [|e l IH]; intros cl cl1 o H; cbn [complete_all] in H.
  - inv H. apply frame_refl.
  - destruct (complete cl e) as [c1 o1] eqn:E1.
    destruct (complete_all c1 l) as [c2 o2] eqn:E2. inv H.
    eapply frame_trans; [exact (complete_frame _ _ _ _ E1)|exact (IH _ _ _ E2)].
Qed.

Lemma csend_frame cl m cl1 o : csend cl m = (cl1, o) -> frame cl cl1.
Proof.
  unfold csend, cwrite. intros H.
  destruct (lenenc m (cl_counter cl)) as [[m' c'] [b|c k|]]; inv H; apply frame_ccounter.
Qed.

Lemma cwrite_frame cl m cl1 m1 ob : cwrite cl m = (cl1, m1, ob) -> frame cl cl1.
Proof.
  unfold cwrite. intros H.
  destruct (lenenc m (cl_counter cl)) as [[m' c'] [b|c k|]]; inv H; apply frame_ccounter.
Qed.

(* ====================================================================== *)
(* C12: one completion                                                     *)
(* ====================================================================== *)

Lemma done_if (d st : N) (err : bool) :
  done_calls (if d =? 0 then [] else [CDone d st err]) = [] \/
  done_calls (if d =? 0 then [] else [CDone d st err]) = [d].
Proof. destruct (d =? 0); [left|right]; reflexivity. Qed.

Lemma complete_once : C12_complete_once.
Proof.
  intros cl e cl1 o HT H.
  pose proof (complete_frame _ _ _ _ H) as F.
  split.
  2:{ split; [apply F|]. split; [apply F|].
      intros w HW. apply (frame_get_q _ _ _ F). cbn [In].
      destruct HW as [->|[->|[->|[->| ->]]]]; auto 10. }
  unfold complete in H. cbv zeta in H.
  destruct HT as [HT|[HT|[HT|[HT HS]]]]; rewrite HT in H.
  - change (T_SUBSCRIBE =? T_PUBLISH) with false in H.
    change (T_SUBSCRIBE =? T_SUBSCRIBE) with true in H. cbv iota in H.
    destruct (sub_decode sub_new (e_msg e)) as [[sm n]|c k|];
      destruct (suback_decode suback_new (e_ack e)) as [[sa n2]|c2 k2|];
      try (inv H; left; reflexivity).
    destruct (negb (length (s_topics sm) =? length (sa_codes sa))%nat).
    + inv H. apply done_if.
    + destruct (sub_register _ _ _ _) as [st err]. inv H. apply done_if.
  - change (T_UNSUBSCRIBE =? T_PUBLISH) with false in H.
    change (T_UNSUBSCRIBE =? T_SUBSCRIBE) with false in H.
    change (T_UNSUBSCRIBE =? T_UNSUBSCRIBE) with true in H. cbv iota in H.
    destruct (unsub_decode unsub_new (e_msg e)) as [[um n]|c k|];
      destruct (ack_decode (ack_new (e_state e)) (e_ack e)) as [[h n2]|c2 k2|];
      try (inv H; left; reflexivity).
    destruct (unsub_all_c _ _) as [st err]. inv H. apply done_if.
  - change (T_PINGREQ =? T_PUBLISH) with false in H.
    change (T_PINGREQ =? T_SUBSCRIBE) with false in H.
    change (T_PINGREQ =? T_UNSUBSCRIBE) with false in H.
    change (T_PINGREQ =? T_PINGREQ) with true in H. cbv iota in H.
    inv H. apply done_if.
  - change (T_PUBLISH =? T_PUBLISH) with true in H. cbv iota in H.
    destruct (pub_decode pub_new (e_msg e)) as [[m n]|c k|];
      destruct (ack_decode (ack_new (e_state e)) (e_ack e)) as [[h n2]|c2 k2|];
      try (inv H; left; reflexivity).
    destruct (e_state e =? T_PUBREL) eqn:E; [apply N.eqb_eq in E; contradiction|].
    inv H. apply done_if.
Qed.

(* ====================================================================== *)
(* C12: an acknowledgement completes exactly the released requests         *)
(* ====================================================================== *)

(* The statement of Props.v quantifies over every client state.  Each queue has a PINGREQ cell
   (s_ping); s_acked also hands that cell back when it is acknowledged, in front of the released
   list entries.  In a state where the PINGREQ cell of one of the queues 1..4 is in use and
   acknowledged, ack_and_complete therefore completes one more request than `release` returns. *)
Definition cx_client : client :=
  mkCl store0 [] 1 (mkS [] (mkE T_PINGREQ T_PINGRESP 0 [] [] 1)) s_new s_new s_new s_new s_new 0
       [(1, mkReg 7 0)] 2 true.

Lemma ack_completes_released_counterexample : ~ C12_ack_completes_released.
Proof.
  intros C.
  specialize (C cx_client 1 T_PUBACK 5 [] (fst (ack_and_complete cx_client 1 T_PUBACK 5 []))
                [CDone 7 13 false] (or_introl eq_refl)).
  assert (E : ack_and_complete cx_client 1 T_PUBACK 5 []
              = (fst (ack_and_complete cx_client 1 T_PUBACK 5 []), [CDone 7 13 false])).
  { vm_compute. reflexivity. }
  specialize (C E). vm_compute in C. destruct C as (_ & _ & C). discriminate C.
Qed.

(* corrected: the PINGREQ cell of the acknowledged queue is not in the acknowledged state (after the
   acknowledgement was recorded) *)
Definition C12_ack_completes_released_corrected : Prop := forall cl which atype pid raw cl1 o,
  (which = 1 \/ which = 2 \/ which = 3 \/ which = 4) ->
  e_state (s_ping (fst (s_ack (get_q cl which) atype pid raw))) <> T_PINGRESP ->
  ack_and_complete cl which atype pid raw = (cl1, o) ->
  let q1 := fst (s_ack (get_q cl which) atype pid raw) in
  let '(d, rest) := release (s_list q1) in
  s_list (get_q cl1 which) = rest /\
  (forall w, (w = 1 \/ w = 2 \/ w = 3 \/ w = 4) -> w <> which -> get_q cl1 w = get_q cl w) /\
  o = snd (complete_all (upd_q cl which (fst (s_acked q1))) d).

Lemma get_upd_same cl w q : In w [1; 2; 3; 4; 5; 6] -> get_q (upd_q cl w q) w = q.
Proof.
  intros HW. cbn [In] in HW.
  destruct HW as [<-|[<-|[<-|[<-|[<-|[<-|[]]]]]]]; reflexivity.
Qed.

Lemma get_upd_other cl w w' q : In w [1; 2; 3; 4; 5; 6] -> In w' [1; 2; 3; 4; 5; 6] -> w' <> w ->
  get_q (upd_q cl w q) w' = get_q cl w'.
Proof.
  intros HW HW' NE. cbn [In] in HW, HW'.
  destruct HW as [<-|[<-|[<-|[<-|[<-|[<-|[]]]]]]];
    destruct HW' as [<-|[<-|[<-|[<-|[<-|[<-|[]]]]]]]; try reflexivity; contradiction.
Qed.

Lemma out_in6 w : (w = 1 \/ w = 2 \/ w = 3 \/ w = 4) -> In w [1; 2; 3; 4; 5; 6].
Proof. intros [->|[->|[->| ->]]]; cbn [In]; auto 10. Qed.

Lemma ack_completes_released_corrected : C12_ack_completes_released_corrected.
Proof.
  intros cl which atype pid raw cl1 o HW HP H. cbv zeta.
  unfold ack_and_complete in H. cbv zeta in H.
  set (q1 := fst (s_ack (get_q cl which) atype pid raw)) in *.
  rewrite s_acked_eq in H. rewrite s_acked_eq. cbn [fst].
  assert (E : (e_state (s_ping q1) =? T_PINGRESP) = false) by (apply N.eqb_neq; exact HP).
  rewrite E in H. rewrite E. cbn [app] in H.
  destruct (release (s_list q1)) as [d rest]. cbn [fst snd] in *.
  pose proof (complete_all_frame _ _ _ _ H) as F.
  pose proof (out_in6 _ HW) as HW6.
  split; [|split].
  - rewrite (frame_get_q _ _ _ F HW6), get_upd_same by exact HW6. reflexivity.
  - intros w Hw NE. pose proof (out_in6 _ Hw) as Hw6.
    rewrite (frame_get_q _ _ _ F Hw6). apply get_upd_other; assumption.
  - rewrite H. reflexivity.
Qed.

(* ====================================================================== *)
(* C12: registrations are unique in every reachable state                  *)
(* ====================================================================== *)

(* occurrences of a registration among the entries of a queue *)
Definition cbl (q : aspec) : list N := map e_cb (s_list q).
Definition cnt (q : aspec) (x : N) : nat := count_occ N.eq_dec (cbl q) x.
(* the PINGREQ cell of a queue is unused *)
Definition pz (q : aspec) : Prop := s_ping q = e_zero.

(* a queue after processing: no registration occurs more often, an unused cell stays unused *)
Definition qle (q q1 : aspec) : Prop := (forall x, (cnt q1 x <= cnt q x)%nat) /\ (pz q -> pz q1).

Lemma qle_refl q : qle q q.
Proof. split; [intros x; lia|intros H; exact H]. Qed.

Lemma qle_trans a b c : qle a b -> qle b c -> qle a c.
Proof.
  intros [A1 A2] [B1 B2]. split.
  - intros x. specialize (A1 x). specialize (B1 x). lia.
  - intros H. apply B2, A2, H.
Qed.

Lemma map_cb_ack l a p raw :
  map e_cb (map (fun e => if e_pid e =? p then mkE (e_mtype e) a (e_pid e) (e_msg e) raw (e_cb e) else e) l)
  = map e_cb l.
Proof.
  rewrite map_map. apply map_ext. intros e. destruct (e_pid e =? p); reflexivity.
Qed.

Lemma qle_s_ack q a p raw : qle q (fst (s_ack q a p raw)).
Proof.
  unfold s_ack.
  destruct (existsb (N.eqb a) ack_indexed_types); cbn [fst].
  { split.
    - intros x. unfold cnt, cbl. cbn [s_list]. rewrite map_cb_ack. lia.
    - intros H. exact H. }
  destruct (existsb (N.eqb a) ack_ping_types); [|apply qle_refl].
  destruct (e_mtype (s_ping q) =? T_PINGREQ) eqn:E; cbn [fst]; [|apply qle_refl].
  split.
  - intros x. unfold cnt, cbl. cbn [s_list]. lia.
  - intros H. unfold pz in H. rewrite H in E. vm_compute in E. discriminate E.
Qed.

Lemma qle_s_acked q : qle q (fst (s_acked q)).
Proof.
  rewrite s_acked_eq. cbn [fst]. split.
  - intros x. unfold cnt, cbl. cbn [s_list].
    pose proof (release_split (s_list q)) as [S _].
    destruct (release (s_list q)) as [d rest]. cbn [fst snd] in *.
    rewrite S, map_app, count_occ_app. lia.
  - intros H. unfold pz in *. cbn [s_ping]. rewrite H. reflexivity.
Qed.

Lemma s_wait_ping s mt qos p cb b : mt <> T_PINGREQ -> s_ping (fst (s_wait s mt qos p cb b)) = s_ping s.
Proof.
  intros NE. unfold s_wait.
  destruct (mt =? T_PUBLISH).
  { destruct (qos =? 0); reflexivity. }
  destruct ((mt =? T_SUBSCRIBE) || (mt =? T_UNSUBSCRIBE)); [reflexivity|].
  destruct (mt =? T_PINGREQ) eqn:E; [|reflexivity].
  apply N.eqb_eq in E. contradiction.
Qed.

Lemma s_wait_cnt s mt qos p cb b x :
  (cnt (fst (s_wait s mt qos p cb b)) x <= cnt s x + (if N.eq_dec cb x then 1 else 0))%nat.
Proof.
  unfold cnt, cbl. rewrite s_wait_list, map_app, count_occ_app.
  destruct (accept mt qos && negb (has_pid (s_list s) p)); cbn [map count_occ e_cb].
  - destruct (N.eq_dec cb x); lia.
  - destruct (N.eq_dec cb x); lia.
Qed.

(* the client after processing *)
Definition R (cl cl1 : client) : Prop :=
  qle (cl_pub1 cl) (cl_pub1 cl1) /\ qle (cl_pub2out cl) (cl_pub2out cl1) /\
  qle (cl_sub cl) (cl_sub cl1) /\ qle (cl_unsub cl) (cl_unsub cl1) /\
  (pz (cl_pub2in cl) -> pz (cl_pub2in cl1)) /\
  cl_regs cl1 = cl_regs cl /\ cl_nextreg cl1 = cl_nextreg cl.

Lemma R_refl cl : R cl cl.
Proof. unfold R. repeat split; try apply qle_refl; try reflexivity. Qed.

Lemma R_trans a b c : R a b -> R b c -> R a c.
Proof.
  intros (A1 & A2 & A3 & A4 & A5 & A6 & A7) (B1 & B2 & B3 & B4 & B5 & B6 & B7).
  unfold R. repeat split; try (eapply qle_trans; eassumption); try congruence.
  intros H. apply B5, A5, H.
Qed.

Lemma frame_R cl cl1 : frame cl cl1 -> R cl cl1.
Proof.
  intros (A1 & A2 & A3 & A4 & A5 & A6 & A7 & A8). unfold R.
  rewrite A1, A2, A3, A4, A6. repeat split; try apply qle_refl; try assumption; try (intros H; exact H).
Qed.

Lemma R_upd_q cl w q : In w [1; 2; 3; 4; 5; 6] -> qle (get_q cl w) q -> R cl (upd_q cl w q).
Proof.
  intros HW HQ. cbn [In] in HW.
  destruct HW as [<-|[<-|[<-|[<-|[<-|[<-|[]]]]]]]; cbn [get_q] in HQ; unfold R;
    cbn [upd_q cl_pub1 cl_pub2out cl_sub cl_unsub cl_pub2in cl_regs cl_nextreg];
    repeat split; try apply qle_refl; try exact HQ; try (intros H; exact H).
  all: try apply HQ.
Qed.

Lemma R_upd_6 cl q : (pz (cl_pub2in cl) -> pz q) -> R cl (upd_q cl 6 q).
Proof.
  intros HQ. unfold R. cbn [upd_q cl_pub1 cl_pub2out cl_sub cl_unsub cl_pub2in cl_regs cl_nextreg].
  repeat split; try apply qle_refl. exact HQ.
Qed.

Lemma ack_and_complete_R cl w a p raw cl1 o : In w [1; 2; 3; 4; 5; 6] ->
  ack_and_complete cl w a p raw = (cl1, o) -> R cl cl1.
Proof.
  intros HW H. unfold ack_and_complete in H. cbv zeta in H.
  pose proof (qle_s_acked (fst (s_ack (get_q cl w) a p raw))) as Q2.
  destruct (s_acked (fst (s_ack (get_q cl w) a p raw))) as [q2 rel]. cbn [fst] in Q2.
  eapply R_trans.
  - apply (R_upd_q cl w q2 HW). eapply qle_trans; [apply qle_s_ack|exact Q2].
  - apply frame_R. exact (complete_all_frame _ _ _ _ H).
Qed.

Ltac in6 := cbn [In]; auto 10.

Lemma process_in_R cl raw m cl1 o r : process_in cl raw m = (cl1, o, r) -> R cl cl1.
Proof.
  unfold process_in. intros H.
  destruct m as [p|h|h|k|s|sm|um|cm]; try (inv H; apply R_refl).
  - (* PUBLISH *)
    cbv zeta in H.
    destruct (pub_qos p =? 2).
    { destruct (csend _ _) as [cl2 o2] eqn:ES in H. inv H.
      eapply R_trans; [|apply frame_R; exact (csend_frame _ _ _ _ ES)].
      apply R_upd_6. intros HZ. unfold pz in *. rewrite s_wait_ping by discriminate. exact HZ. }
    destruct (pub_qos p =? 1).
    { destruct (csend _ _) as [cl2 o2] eqn:ES in H.
      destruct (dispatch cl2 p) as [cl3 o3] eqn:ED. inv H.
      apply frame_R. eapply frame_trans; [exact (csend_frame _ _ _ _ ES)|exact (dispatch_frame _ _ _ _ ED)]. }
    destruct (dispatch cl p) as [cl3 o3] eqn:ED. inv H.
    apply frame_R. exact (dispatch_frame _ _ _ _ ED).
  - (* acknowledgements *)
    cbv zeta in H.
    destruct (h_type h =? T_PUBACK).
    { destruct (ack_and_complete _ _ _ _ _) as [c2 o2] eqn:EA in H. inv H.
      (eapply ack_and_complete_R; [|exact EA]; in6). }
    destruct (h_type h =? T_PUBREC).
    { destruct (csend _ _) as [cl2 o2] eqn:ES in H. inv H.
      eapply R_trans; [|apply frame_R; exact (csend_frame _ _ _ _ ES)].
      apply (R_upd_q cl 2); [in6|]. cbn [get_q]. apply qle_s_ack. }
    destruct (h_type h =? T_PUBREL).
    { destruct (ack_and_complete _ _ _ _ _) as [c2 o2] eqn:EA in H.
      destruct (csend _ _) as [cl2 o3] eqn:ES in H. inv H.
      eapply R_trans; [(eapply ack_and_complete_R; [|exact EA]; in6)|].
      apply frame_R; exact (csend_frame _ _ _ _ ES). }
    destruct (h_type h =? T_PUBCOMP).
    { destruct (ack_and_complete _ _ _ _ _) as [c2 o2] eqn:EA in H. inv H.
      (eapply ack_and_complete_R; [|exact EA]; in6). }
    destruct (ack_and_complete _ _ _ _ _) as [c2 o2] eqn:EA in H. inv H.
    (eapply ack_and_complete_R; [|exact EA]; in6).
  - (* PINGRESP / PINGREQ *)
    cbv zeta in H.
    destruct (h_type h =? T_PINGRESP).
    { destruct (ack_and_complete _ _ _ _ _) as [c2 o2] eqn:EA in H. inv H.
      (eapply ack_and_complete_R; [|exact EA]; in6). }
    destruct (h_type h =? T_PINGREQ).
    { destruct (csend _ _) as [cl2 o2] eqn:ES in H. inv H.
      apply frame_R; exact (csend_frame _ _ _ _ ES). }
    inv H. apply R_refl.
  - (* SUBACK *)
    destruct (ack_and_complete _ _ _ _ _) as [c2 o2] eqn:EA in H. inv H.
    (eapply ack_and_complete_R; [|exact EA]; in6).
Qed.

Ltac close_R H := inv H; apply frame_R, frame_closed.

Lemma cproc_R fuel bufsize : forall cl b cl1 o rest,
  cproc fuel bufsize cl b = (cl1, o, rest) -> R cl cl1.
Proof.
  induction fuel as [|f IH]; intros cl b cl1 o rest H; cbn [cproc] in H.
  { inv H. apply R_refl. }
  destruct (Broker.frame bufsize b) as [| |ty total].
  - inv H. apply R_refl.
  - close_R H.
  - destruct (new_msg ty) as [m0|]; [|close_R H].
    destruct (do_dec m0 (firstn total b)) as [m l].
    destruct l as [|x l]; [close_R H|].
    destruct x as [|px]; [close_R H|].
    do 5 (try (destruct px as [px|px|]; try (close_R H))).
    destruct (process_in cl (firstn total b) m) as [[c1 o1] r] eqn:EP.
    pose proof (process_in_R _ _ _ _ _ _ EP) as R1.
    destruct r.
    + destruct (cproc f bufsize c1 (skipn total b)) as [[c2 o2] rest'] eqn:EC. inv H.
      eapply R_trans; [exact R1|exact (IH _ _ _ _ _ EC)].
    + inv H. eapply R_trans; [exact R1|apply frame_R, frame_closed].
Qed.

(* ---------- the invariant ---------- *)

Definition tot (cl : client) (x : N) : nat :=
  (cnt (cl_pub1 cl) x + cnt (cl_pub2out cl) x + cnt (cl_sub cl) x + cnt (cl_unsub cl) x)%nat.

Definition regs_ok (regs : list (N * creg)) (next : N) : Prop :=
  NoDup (map fst regs) /\ (forall x, In x regs -> fst x < next).

Definition Inv (cl : client) : Prop :=
  (forall x, (tot cl x <= 1)%nat) /\ (forall x, (1 <= tot cl x)%nat -> x < cl_nextreg cl) /\
  pz (cl_pub1 cl) /\ pz (cl_pub2out cl) /\ pz (cl_sub cl) /\ pz (cl_unsub cl) /\ pz (cl_pub2in cl) /\
  regs_ok (cl_regs cl) (cl_nextreg cl).

Lemma Inv_R cl cl1 : Inv cl -> R cl cl1 -> Inv cl1.
Proof.
  intros (I1 & I2 & P1 & P2 & P3 & P4 & P6 & RG) ((A1 & Z1) & (A2 & Z2) & (A3 & Z3) & (A4 & Z4) & Z6 & E1 & E2).
  assert (LE : forall x, (tot cl1 x <= tot cl x)%nat).
  { intros x. unfold tot. specialize (A1 x). specialize (A2 x). specialize (A3 x). specialize (A4 x). lia. }
  unfold Inv. rewrite E1, E2.
  split; [intros x; specialize (LE x); specialize (I1 x); lia|].
  split; [intros x Hx; apply I2; specialize (LE x); lia|].
  repeat split; auto; apply RG.
Qed.

Lemma regs_ok_add regs next r : regs_ok regs next -> regs_ok ((next, r) :: regs) (next + 1).
Proof.
  intros [N1 N2]. split.
  - cbn [map fst]. constructor; [|exact N1].
    intros HI. apply in_map_iff in HI. destruct HI as [x [E HI]]. apply N2 in HI. lia.
  - intros x [<-|HI]; [cbn [fst]; lia|]. apply N2 in HI. lia.
Qed.

Ltac solve_cnt I1 I2 B x :=
  specialize (I1 x); specialize (I2 x); unfold tot in I1, I2;
  match goal with
  | |- context [cnt (fst (s_wait ?q _ _ _ _ _)) x] => specialize (B q x)
  | HH : context [cnt (fst (s_wait ?q _ _ _ _ _)) x] |- _ => specialize (B q x)
  end;
  match type of B with
  | context [N.eq_dec ?a x] => destruct (N.eq_dec a x); lia
  end.

(* registering a request: a fresh registration, appended to one of the outgoing queues *)
Lemma Inv_register cl w reg mt qos p b :
  Inv cl -> (w = 1 \/ w = 2 \/ w = 3 \/ w = 4) -> mt <> T_PINGREQ ->
  Inv (upd_q (fst (add_reg cl reg)) w (fst (s_wait (get_q (fst (add_reg cl reg)) w) mt qos p (cl_nextreg cl) b))).
Proof.
  intros (I1 & I2 & P1 & P2 & P3 & P4 & P6 & RG) HW NE.
  unfold add_reg. cbn [fst].
  assert (B : forall q x, (cnt (fst (s_wait q mt qos p (cl_nextreg cl) b)) x
                           <= cnt q x + (if N.eq_dec (cl_nextreg cl) x then 1 else 0))%nat)
    by (intros; apply s_wait_cnt).
  assert (Z : forall q, pz q -> pz (fst (s_wait q mt qos p (cl_nextreg cl) b))).
  { intros q HZ. unfold pz in *. rewrite s_wait_ping by exact NE. exact HZ. }
  destruct HW as [->|[->|[->| ->]]]; unfold Inv, tot;
    cbn [upd_q get_q cl_pub1 cl_pub2out cl_sub cl_unsub cl_pub2in cl_regs cl_nextreg];
    (split; [intros x; solve_cnt I1 I2 B x|split; [intros x Hx; solve_cnt I1 I2 B x|]]);
    repeat match goal with |- _ /\ _ => split end;
    first [assumption | apply Z; assumption | apply regs_ok_add; exact RG].
Qed.

Lemma Inv_init : Inv client0.
Proof.
  unfold Inv. split; [intros x; cbn; lia|]. split; [intros x H; cbn in H; lia|].
  repeat split; try reflexivity; try constructor. intros x [].
Qed.

Lemma creach_Inv bufsize cl : creach bufsize cl -> Inv cl.
Proof.
  induction 1 as [|cl pid done pubcb fs cl1 o ok HR IH H
                  |cl pid done fs cl1 o ok HR IH H
                  |cl q ret pid done t p early cl1 o ok HR IH H
                  |cl done cl1 o ok HR IH H
                  |cl fuel b cl1 o rest HR IH H].
  - apply Inv_init.
  - (* Subscribe *)
    unfold c_subscribe in H.
    destruct (pubcb =? 0); [inv H; exact IH|]. cbv zeta in H.
    destruct (cwrite cl _) as [[c1 m1] [b|]] eqn:EW.
    + pose proof (Inv_R _ _ IH (frame_R _ _ (cwrite_frame _ _ _ _ _ EW))) as I1.
      unfold add_reg in H. inv H.
      apply (Inv_register c1 3 (mkReg done pubcb) T_SUBSCRIBE 0 (msg_pid m1) b I1); [auto|discriminate].
    + inv H. exact (Inv_R _ _ IH (frame_R _ _ (cwrite_frame _ _ _ _ _ EW))).
  - (* Unsubscribe *)
    unfold c_unsubscribe in H. cbv zeta in H.
    destruct (cwrite cl _) as [[c1 m1] [b|]] eqn:EW.
    + pose proof (Inv_R _ _ IH (frame_R _ _ (cwrite_frame _ _ _ _ _ EW))) as I1.
      unfold add_reg in H. inv H.
      apply (Inv_register c1 4 (mkReg done 0) T_UNSUBSCRIBE 0 (msg_pid m1) b I1); [auto|discriminate].
    + inv H. exact (Inv_R _ _ IH (frame_R _ _ (cwrite_frame _ _ _ _ _ EW))).
  - (* Publish *)
    unfold c_publish in H.
    destruct (cwrite cl _) as [[c1 m1] [b|]] eqn:EW.
    + pose proof (Inv_R _ _ IH (frame_R _ _ (cwrite_frame _ _ _ _ _ EW))) as I1.
      destruct (cproc (S (length early)) bufsize c1 early) as [[c1' oe] rest'] eqn:EC.
      pose proof (Inv_R _ _ I1 (cproc_R _ _ _ _ _ _ _ EC)) as I2.
      destruct (q =? 0); [inv H; exact I2|].
      unfold add_reg in H. cbv zeta in H.
      destruct (q =? 1); inv H.
      * apply (Inv_register c1' 1 (mkReg done 0) T_PUBLISH q (msg_pid m1) b I2); [auto|discriminate].
      * apply (Inv_register c1' 2 (mkReg done 0) T_PUBLISH q (msg_pid m1) b I2); [auto|discriminate].
    + inv H. exact (Inv_R _ _ IH (frame_R _ _ (cwrite_frame _ _ _ _ _ EW))).
  - (* Ping *)
    unfold c_ping in H.
    destruct (cwrite cl _) as [[c1 m1] [b|]] eqn:EW.
    + pose proof (Inv_R _ _ IH (frame_R _ _ (cwrite_frame _ _ _ _ _ EW))) as I1.
      unfold add_reg in H. inv H.
      destruct I1 as (J1 & J2 & P1 & P2 & P3 & P4 & P6 & RG).
      unfold Inv, tot. cbn [upd_q cl_pub1 cl_pub2out cl_sub cl_unsub cl_pub2in cl_regs cl_nextreg].
      split; [exact J1|]. split; [intros x Hx; specialize (J2 x Hx); lia|].
      repeat split; auto; apply regs_ok_add; exact RG.
    + inv H. exact (Inv_R _ _ IH (frame_R _ _ (cwrite_frame _ _ _ _ _ EW))).
  - (* bytes from the server *)
    exact (Inv_R _ _ IH (cproc_R _ _ _ _ _ _ _ H)).
Qed.

Lemma tot_outgoing cl x : count_occ N.eq_dec (map e_cb (outgoing_entries cl)) x = tot cl x.
Proof.
  unfold outgoing_entries, tot, cnt, cbl. rewrite !map_app, !count_occ_app. lia.
Qed.

Lemma registrations_unique : C12_registrations_unique.
Proof.
  intros bufsize cl HR. apply creach_Inv in HR.
  destruct HR as (I1 & I2 & _ & _ & _ & _ & _ & RG1 & RG2).
  split; [|split; [|split; [exact RG1|exact RG2]]].
  - apply (NoDup_count_occ N.eq_dec). intros x. rewrite tot_outgoing. apply I1.
  - intros e HI. apply I2. rewrite <- tot_outgoing.
    apply (count_occ_In N.eq_dec). apply in_map. exact HI.
Qed.

(* ---------- the original C12_ack_completes_released holds in every reachable state ---------- *)

Lemma reach_ping_cells bufsize cl w : creach bufsize cl -> (w = 1 \/ w = 2 \/ w = 3 \/ w = 4 \/ w = 6) ->
  s_ping (get_q cl w) = e_zero.
Proof.
  intros HR HW. apply creach_Inv in HR.
  destruct HR as (_ & _ & P1 & P2 & P3 & P4 & P6 & _).
  destruct HW as [->|[->|[->|[->| ->]]]]; assumption.
Qed.

Lemma ack_completes_released_reach : forall bufsize cl which atype pid raw cl1 o,
  creach bufsize cl ->
  (which = 1 \/ which = 2 \/ which = 3 \/ which = 4) ->
  ack_and_complete cl which atype pid raw = (cl1, o) ->
  let q1 := fst (s_ack (get_q cl which) atype pid raw) in
  let '(d, rest) := release (s_list q1) in
  s_list (get_q cl1 which) = rest /\
  (forall w, (w = 1 \/ w = 2 \/ w = 3 \/ w = 4) -> w <> which -> get_q cl1 w = get_q cl w) /\
  o = snd (complete_all (upd_q cl which (fst (s_acked q1))) d).
Proof.
  intros bufsize cl which atype pid raw cl1 o HR HW H.
  apply ack_completes_released_corrected; [exact HW| |exact H].
  assert (Z : pz (get_q cl which)).
  { apply (reach_ping_cells bufsize); [exact HR|]. destruct HW as [->|[->|[->| ->]]]; auto 10. }
  apply (qle_s_ack (get_q cl which) atype pid raw) in Z. unfold pz in Z. rewrite Z.
  discriminate.
Qed.

Print Assumptions pubrec_pubrel.
Print Assumptions registrations_unique.
Print Assumptions ack_completes_released_counterexample.
Print Assumptions ack_completes_released_corrected.
Print Assumptions ack_completes_released_reach.
Print Assumptions complete_once.
