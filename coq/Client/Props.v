(* Statements of the client-role properties (C20, C12) over Client/Model.v.  Proofs are in
   Client/Proofs*.v; Properties/C12.v and C20.v only close these with `exact`. *)
From Base Require Import Tactics Bytes.
From Gen Require Import Tables.
From Codec Require Import Wire Impl Script.
From Topics Require Import Model.
From Ackq Require Import Model Spec.
From Proto Require Import Broker.
From Client Require Import Model.
Open Scope N_scope.

(* ---------- C20: the result of Connect mirrors the CONNACK ---------- *)

(* the fixed header of a CONNACK: type byte 0x20 and a remaining length of 2, in any encoding the
   framing accepts; vb are the length bytes *)
Definition connack_bytes (vb : bytes) (sp code : N) (rest : bytes) : bytes := 32 :: vb ++ sp :: code :: rest.

(* Connect succeeds when the server answers CONNACK with return code 0 (session-present 0 or 1);
   the bytes behind the CONNACK are kept for the processor *)
Definition C20_connect_ok : Prop := forall sp rest,
  sp < 2 -> bytes_ok rest = true -> connect_result (connack_bytes [2] sp 0 rest) = ConnOk rest.

(* a refusal code 1..5 is returned as such *)
Definition C20_connect_refused : Prop := forall code rest,
  0 < code -> code <= connack_max_code -> bytes_ok rest = true ->
  connect_result (connack_bytes [2] 0 code rest) = ConnRefused code.

(* exactly: Connect succeeds ONLY on a CONNACK with code 0, and reports a refusal code ONLY when
   that code was in a CONNACK *)
Definition C20_connect_ok_only : Prop := forall b rest,
  bytes_ok b = true -> connect_result b = ConnOk rest ->
  exists vb sp, b = connack_bytes vb sp 0 rest /\ sp < 2 /\ uvarint4 (vb ++ sp :: 0 :: rest) = Some (2, length vb).
Definition C20_connect_refused_only : Prop := forall b code,
  bytes_ok b = true -> connect_result b = ConnRefused code ->
  0 < code /\ exists vb sp rest, b = connack_bytes vb sp code rest /\ uvarint4 (vb ++ sp :: code :: rest) = Some (2, length vb).

(* ---------- C20: dispatch of inbound application messages ---------- *)

Definition cb_of (cl : client) (s : N) : N :=
  match find (fun x => fst x =? s) (cl_subcb cl) with Some x => snd x | None => 0 end.

Definition pub_call (x : cout) : option (N * bytes * bytes) :=
  match x with CPub cb _ t p => Some (cb, t, p) | _ => None end.

(* an inbound PUBLISH handed to dispatch calls exactly the callbacks of the subscriptions the private
   store reports for its topic - one call per reported subscription, with the message's topic and
   payload - and nothing else *)
Definition C20_dispatch : Prop := forall cl m cl1 o,
  dispatch cl m = (cl1, o) ->
  cl_subcb cl1 = cl_subcb cl /\
  match t_subscribers (cl_store cl1) (p_topic m) (pub_qos m) with
  | None => o = []
  | Some subs => map pub_call o = map (fun sq => Some (cb_of cl (fst sq), p_topic m, p_payload m)) subs
  end.

(* what is in the private store: the completion of a SUBSCRIBE registers the request's publish callback
   under a fresh subscriber id for exactly the filters the SUBACK granted, with the granted QoS *)
Definition C20_suback_registers : Prop := forall cl e sm n1 sa n2 cl1 o,
  e_mtype e = T_SUBSCRIBE ->
  sub_decode sub_new (e_msg e) = Ok (sm, n1) -> suback_decode suback_new (e_ack e) = Ok (sa, n2) ->
  length (s_topics sm) = length (sa_codes sa) ->
  complete cl e = (cl1, o) ->
  cl_store cl1 = fst (sub_register (cl_store cl) (cl_nextsub cl) (s_topics sm) (sa_codes sa)) /\
  cb_of cl1 (cl_nextsub cl) = rg_pub (reg_of cl (e_cb e)) /\
  (forall s, s <> cl_nextsub cl -> cb_of cl1 s = cb_of cl s) /\
  cl_nextsub cl1 = cl_nextsub cl + 1.

(* the completion of an UNSUBSCRIBE removes every subscription of each of its filters, whether or not the
   client held one for it, and never stops early *)
Fixpoint unsub_store (st : store) (ts : list bytes) : store :=
  match ts with [] => st | t :: r => unsub_store (fst (t_unsubscribe st t 0)) r end.
Definition C20_unsuback_removes : Prop := forall cl e um n1 h n2 cl1 o,
  e_mtype e = T_UNSUBSCRIBE ->
  unsub_decode unsub_new (e_msg e) = Ok (um, n1) -> ack_decode (ack_new (e_state e)) (e_ack e) = Ok (h, n2) ->
  complete cl e = (cl1, o) ->
  cl_store cl1 = unsub_store (cl_store cl) (u_topics um) /\ cl_subcb cl1 = cl_subcb cl.

(* ---------- C12: PUBREL follows PUBREC ---------- *)

(* every PUBREC - known identifier or not - is answered by a PUBREL with the same identifier, and by
   nothing else *)
Definition C12_pubrec_pubrel : Prop := forall cl raw h cl1 o r,
  h_type h = T_PUBREC -> packet_id h < 65536 ->
  process_in cl raw (MAck h) = (cl1, o, r) ->
  o = [CPkt (98 :: 2 :: be16 (packet_id h))] /\ r = PContinue.

(* ---------- C12: completion callbacks ---------- *)

(* all requests waiting in the client's queues *)
Definition all_entries (cl : client) : list entry :=
  s_list (cl_pub1 cl) ++ s_list (cl_pub2out cl) ++ s_list (cl_sub cl) ++ s_list (cl_unsub cl) ++ s_list (cl_pub2in cl).

(* the states of a client: API calls and bytes from the server, in any order *)
Inductive creach (bufsize : N) : client -> Prop :=
| cr_init : creach bufsize client0
| cr_sub cl pid done pubcb fs cl1 o ok : creach bufsize cl -> c_subscribe cl pid done pubcb fs = (cl1, o, ok) -> creach bufsize cl1
| cr_unsub cl pid done fs cl1 o ok : creach bufsize cl -> c_unsubscribe cl pid done fs = (cl1, o, ok) -> creach bufsize cl1
| cr_pub cl q ret pid done t p early cl1 o ok : creach bufsize cl ->
    c_publish cl q ret pid done t p bufsize early = (cl1, o, ok) -> creach bufsize cl1
| cr_ping cl done cl1 o ok : creach bufsize cl -> c_ping cl done = (cl1, o, ok) -> creach bufsize cl1
| cr_in cl fuel b cl1 o rest : creach bufsize cl -> cproc fuel bufsize cl b = (cl1, o, rest) -> creach bufsize cl1.

(* the registrations of the waiting outgoing requests are pairwise distinct and were all handed out: a
   registration belongs to one request, and a released request leaves its queue, so its completion
   cannot fire a second time *)
Definition outgoing_entries (cl : client) : list entry :=
  s_list (cl_pub1 cl) ++ s_list (cl_pub2out cl) ++ s_list (cl_sub cl) ++ s_list (cl_unsub cl).
Definition C12_registrations_unique : Prop := forall bufsize cl,
  creach bufsize cl ->
  NoDup (map e_cb (outgoing_entries cl)) /\
  (forall e, In e (outgoing_entries cl) -> e_cb e < cl_nextreg cl) /\
  NoDup (map fst (cl_regs cl)) /\ (forall x, In x (cl_regs cl) -> fst x < cl_nextreg cl).

(* what an acknowledgement does: the entries the FIFO specification releases - the longest prefix of the
   queue whose requests are terminally acknowledged - are removed from the queue and completed, in
   order; nothing else is completed *)
Definition C12_ack_completes_released : Prop := forall cl which atype pid raw cl1 o,
  (which = 1 \/ which = 2 \/ which = 3 \/ which = 4) ->
  ack_and_complete cl which atype pid raw = (cl1, o) ->
  let q1 := fst (s_ack (get_q cl which) atype pid raw) in
  let '(d, rest) := release (s_list q1) in
  s_list (get_q cl1 which) = rest /\
  (forall w, (w = 1 \/ w = 2 \/ w = 3 \/ w = 4) -> w <> which -> get_q cl1 w = get_q cl w) /\
  o = snd (complete_all (upd_q cl which (fst (s_acked q1))) d).

(* one released request: exactly one completion call (if a callback was given), with the callback of its
   registration *)
Definition done_calls (o : list cout) : list N :=
  flat_map (fun x => match x with CDone cb _ _ => [cb] | _ => [] end) o.
Definition C12_complete_once : Prop := forall cl e cl1 o,
  (e_mtype e = T_SUBSCRIBE \/ e_mtype e = T_UNSUBSCRIBE \/ e_mtype e = T_PINGREQ \/ (e_mtype e = T_PUBLISH /\ e_state e <> T_PUBREL)) ->
  complete cl e = (cl1, o) ->
  (done_calls o = [] \/ done_calls o = [rg_done (reg_of cl (e_cb e))]) /\
  cl_regs cl1 = cl_regs cl /\ cl_nextreg cl1 = cl_nextreg cl /\
  (forall w, (w = 1 \/ w = 2 \/ w = 3 \/ w = 4 \/ w = 5) -> get_q cl1 w = get_q cl w).
