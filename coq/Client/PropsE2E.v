(* C20 end to end: the client model composed with the topic-store specification (section 4.7).
   Client/Props.v relates the callbacks invoked for an inbound PUBLISH to what the client's private topic
   store reports, and the completions of SUBSCRIBE / UNSUBSCRIBE to the store operations they perform;
   Topics/Spec.v relates what a store reports after a history of operations to the abstract list of held
   subscriptions matched by the rules of section 4.7.  Here the two are joined (as Proto/PropsE2E.v does
   for the broker): the client is tracked together with the history of the operations on its private
   store, and the callbacks are stated against the ABSTRACT subscription list.

   One extension is needed.  The completion of an UNSUBSCRIBE calls Unsubscribe(filter, nil) - subscriber
   0 of the model - which removes EVERY subscriber of the filter.  Topics/Spec.v excludes that call from
   its domain (op_in_domain (OUnsub t 0) = false, a_apply ignores it).  Histories keep the type top_op and
   the store side run_ops is unchanged (apply_op (OUnsub t 0) is already the nil call); the abstract side
   is extended: ca_apply interprets OUnsub t 0 as a_unsubscribe_all, cop_in_domain accepts it. *)
From Coq Require Import Permutation.
From Base Require Import Tactics Bytes.
From Gen Require Import Tables.
From Codec Require Import Wire Impl Script.
From Topics Require Import Model Spec.
From Ackq Require Import Model Spec.
From Proto Require Import Broker.
From Client Require Import Model Script Props.
Open Scope N_scope.

(* ---------- Unsubscribe(filter, nil) on the abstract list ---------- *)

(* the entry is a subscription to exactly the filter with levels f (whoever holds it) *)
Definition samef (f : list bytes) (e : asub) : bool := beq_levels (snd (fst e)) f.

(* remove every entry whose filter levels equal f *)
Definition a_unsubscribe_all (a : list asub) (f : list bytes) : list asub :=
  filter (fun e => negb (samef f e)) a.

(* the specification's reaction to an operation of a client history: as Topics/Spec.v, except that an
   unsubscribe with the nil subscriber removes every subscriber of a good filter (and, like every other
   refused operation, does nothing for a filter the splitter refuses) *)
Definition ca_apply (a : list asub) (o : top_op) : list asub :=
  match o with
  | OUnsub t s =>
      if s =? 0 then (if good_filter t then a_unsubscribe_all a (split_sep t) else a)
      else a_apply a o
  | _ => a_apply a o
  end.
Definition ca_run (h : list top_op) : list asub := fold_left ca_apply h [].

(* the domain: as op_in_domain, with the nil subscriber allowed for unsubscribe *)
Definition cop_in_domain (o : top_op) : bool :=
  match o with
  | OUnsub t _ => good_filter t || refused t
  | _ => op_in_domain o
  end.

(* on the histories of Topics/Spec.v nothing changes *)
Definition C20_history_conservative : Prop := forall h,
  forallb op_in_domain h = true -> forallb cop_in_domain h = true /\ ca_run h = a_run h.

(* C06_subscribers_partial for the extended histories: after ANY history of operations in the extended
   domain - nil unsubscribes included - the subscribers the store reports for a good topic name are exactly
   the entries of the extended abstract list whose filter matches under 4.7 *)
Definition C20_store_subscribers : Prop := forall h t q,
  forallb cop_in_domain h = true -> good_name t = true -> valid_qos q = true ->
  exists l, t_subscribers (run_ops h) t q = Some l
            /\ Permutation l (a_subscribers (ca_run h) (split_sep t) q).

(* the result of Unsubscribe(filter, nil): success whenever somebody holds the filter ... *)
Definition C20_unsubscribe_all_result : Prop := forall h t,
  forallb cop_in_domain h = true -> good_filter t = true ->
  existsb (samef (split_sep t)) (ca_run h) = true ->
  snd (t_unsubscribe (run_ops h) t 0) = true.
(* ... but NOT only then: success means "the trie has a node for the filter", and nodes are also created by a
   Subscribe that fails on a later level and left behind above other subscriptions.  Witness: a refused
   subscription to "a/#/b" creates the node "a"; unsubscribing "a", which nobody ever held, succeeds,
   while unsubscribing "z" reports an error *)
Definition C20_unsubscribe_all_result_not_exact : Prop :=
  let h := [OSub [97; 47; 35; 47; 98] 1 5] in
  forallb cop_in_domain h = true /\ ca_run h = [] /\
  snd (t_unsubscribe (run_ops h) [97] 0) = true /\
  snd (t_unsubscribe (run_ops h) [122] 0) = false.

(* ---------- the client with the history of its private store ---------- *)

Definition ctracks (cl : client) (h : list top_op) : Prop :=
  cl_store cl = run_ops h /\ forallb cop_in_domain h = true.

Example ctracks_initial : ctracks client0 [].
Proof. split; reflexivity. Qed.

(* ----- completion of a SUBSCRIBE ----- *)

(* one OSub under the fresh subscriber id for every filter whose return code is not 0x80, in order; a
   filter answered 0x80 is not handed to the store at all.  A filter the store refuses (malformed) IS
   handed to the store and is in the history: it leaves trie nodes behind but no subscription (a_apply
   ignores it), and the completion callback gets an error *)
Definition granted_ops (s : N) (ts : list bytes) (codes : list N) : list top_op :=
  flat_map (fun tc => if snd tc =? QosFailure then [] else [OSub (fst tc) (snd tc) s]) (combine ts codes).

(* full strength: only the filters that reach the store have to be in the domain *)
Definition C20_suback_tracks_granted : Prop := forall cl h e sm n1 sa n2 cl1 o,
  ctracks cl h ->
  e_mtype e = T_SUBSCRIBE ->
  sub_decode sub_new (e_msg e) = Ok (sm, n1) -> suback_decode suback_new (e_ack e) = Ok (sa, n2) ->
  length (s_topics sm) = length (sa_codes sa) ->
  forallb (fun tc => (snd tc =? QosFailure) || good_filter (fst tc) || refused (fst tc))
          (combine (s_topics sm) (sa_codes sa)) = true ->
  complete cl e = (cl1, o) ->
  ctracks cl1 (h ++ granted_ops (cl_nextsub cl) (s_topics sm) (sa_codes sa)).

Definition C20_suback_tracks : Prop := forall cl h e sm n1 sa n2 cl1 o,
  ctracks cl h ->
  e_mtype e = T_SUBSCRIBE ->
  sub_decode sub_new (e_msg e) = Ok (sm, n1) -> suback_decode suback_new (e_ack e) = Ok (sa, n2) ->
  length (s_topics sm) = length (sa_codes sa) ->
  forallb (fun t => good_filter t || refused t) (s_topics sm) = true ->
  complete cl e = (cl1, o) ->
  ctracks cl1 (h ++ granted_ops (cl_nextsub cl) (s_topics sm) (sa_codes sa)).

(* what the added operations mean on the abstract list: a granted good filter becomes (or replaces) the
   entry (s, levels, min(code, 2)); everything else adds nothing *)
Definition C20_granted_abstract : Prop := forall s ts codes a,
  fold_left ca_apply (granted_ops s ts codes) a =
  fold_left (fun a tc =>
               if negb (snd tc =? QosFailure) && valid_qos (snd tc) && negb (s =? 0) && good_filter (fst tc)
               then a_subscribe a s (split_sep (fst tc)) (capq (snd tc)) else a)
            (combine ts codes) a.

(* ----- completion of an UNSUBSCRIBE ----- *)

Definition unsub_ops (ts : list bytes) : list top_op := map (fun t => OUnsub t 0) ts.

Definition C20_unsuback_tracks : Prop := forall cl h e um n1 hd n2 cl1 o,
  ctracks cl h ->
  e_mtype e = T_UNSUBSCRIBE ->
  unsub_decode unsub_new (e_msg e) = Ok (um, n1) -> ack_decode (ack_new (e_state e)) (e_ack e) = Ok (hd, n2) ->
  forallb (fun t => good_filter t || refused t) (u_topics um) = true ->
  complete cl e = (cl1, o) ->
  ctracks cl1 (h ++ unsub_ops (u_topics um)) /\ cl_subcb cl1 = cl_subcb cl /\ cl_nextsub cl1 = cl_nextsub cl.

(* on the abstract list: every entry of every named good filter goes, whoever registered it *)
Definition C20_unsub_abstract : Prop := forall ts a,
  fold_left ca_apply (unsub_ops ts) a =
  fold_left (fun a t => if good_filter t then a_unsubscribe_all a (split_sep t) else a) ts a.

(* ----- an inbound PUBLISH ----- *)

(* a retained message is also stored in the private store *)
Definition retain_ops (m : pubmsg) : list top_op :=
  if pub_retain m then [ORetain (mkR (p_topic m) (p_payload m) (pub_qos m))] else [].

(* the entries of the abstract list selected by section 4.7 for a topic name *)
Definition matching (a : list asub) (t : bytes) : list asub :=
  filter (fun e => fmatch (snd (fst e)) (split_sep t)) a.

(* C20 end to end: an inbound PUBLISH with a good topic name invokes exactly one callback per abstract
   subscription (subscriber, filter, qos) whose filter matches the topic under 4.7 - the callback registered
   for that subscriber, with the message's topic and payload - and nothing else (map pub_call o has an entry
   for every output; all of them are callback invocations) *)
Definition C20_end_to_end : Prop := forall cl h m cl1 o,
  ctracks cl h -> good_name (p_topic m) = true -> valid_qos (pub_qos m) = true ->
  dispatch cl m = (cl1, o) ->
  ctracks cl1 (h ++ retain_ops m) /\ ca_run (h ++ retain_ops m) = ca_run h /\
  cl_subcb cl1 = cl_subcb cl /\ cl_nextsub cl1 = cl_nextsub cl /\
  Permutation (map pub_call o)
              (map (fun e => Some (cb_of cl (fst (fst e)), p_topic m, p_payload m))
                   (matching (ca_run h) (p_topic m))).

(* the remaining case of the QoS bits (3, which the decoder refuses): nobody is called *)
Definition C20_dispatch_qos3 : Prop := forall cl m cl1 o,
  valid_qos (pub_qos m) = false -> dispatch cl m = (cl1, o) -> o = [].

(* ---------- C20 in plain words ---------- *)

(* the events that touch the private store, with the conditions of the theorems above *)
Inductive cevent :=
| EvSuback (cb : N) (ts : list bytes) (codes : list N)     (* a SUBSCRIBE for filters ts with publish callback cb completes *)
| EvUnsuback (ts : list bytes)                               (* an UNSUBSCRIBE for filters ts completes *)
| EvPublish (m : pubmsg).                                    (* an inbound PUBLISH is dispatched *)

Inductive cstep : client -> cevent -> client -> list cout -> Prop :=
| step_suback cl e sm n1 sa n2 cl1 o :
    e_mtype e = T_SUBSCRIBE ->
    sub_decode sub_new (e_msg e) = Ok (sm, n1) -> suback_decode suback_new (e_ack e) = Ok (sa, n2) ->
    length (s_topics sm) = length (sa_codes sa) ->
    forallb (fun t => good_filter t || refused t) (s_topics sm) = true ->
    complete cl e = (cl1, o) ->
    cstep cl (EvSuback (rg_pub (reg_of cl (e_cb e))) (s_topics sm) (sa_codes sa)) cl1 o
| step_unsuback cl e um n1 hd n2 cl1 o :
    e_mtype e = T_UNSUBSCRIBE ->
    unsub_decode unsub_new (e_msg e) = Ok (um, n1) -> ack_decode (ack_new (e_state e)) (e_ack e) = Ok (hd, n2) ->
    forallb (fun t => good_filter t || refused t) (u_topics um) = true ->
    complete cl e = (cl1, o) ->
    cstep cl (EvUnsuback (u_topics um)) cl1 o
| step_publish cl m cl1 o :
    good_name (p_topic m) = true -> valid_qos (pub_qos m) = true ->
    dispatch cl m = (cl1, o) ->
    cstep cl (EvPublish m) cl1 o.

Inductive csteps : client -> list cevent -> client -> Prop :=
| steps_nil cl : csteps cl [] cl
| steps_cons cl ev cl1 o evs cl2 : cstep cl ev cl1 o -> csteps cl1 evs cl2 -> csteps cl (ev :: evs) cl2.

(* the store operations of a sequence of events; n is the next subscriber id *)
Definition ev_ops (n : N) (ev : cevent) : list top_op :=
  match ev with
  | EvSuback _ ts codes => granted_ops n ts codes
  | EvUnsuback ts => unsub_ops ts
  | EvPublish m => retain_ops m
  end.
Definition ev_next (n : N) (ev : cevent) : N := match ev with EvSuback _ _ _ => n + 1 | _ => n end.
Fixpoint evs_ops (n : N) (evs : list cevent) : list top_op :=
  match evs with
  | [] => []
  | ev :: r => ev_ops n ev ++ evs_ops (ev_next n ev) r
  end.

Definition C20_steps_track : Prop := forall cl h evs cl2,
  ctracks cl h -> csteps cl evs cl2 ->
  ctracks cl2 (h ++ evs_ops (cl_nextsub cl) evs) /\ cl_nextsub cl <= cl_nextsub cl2.

Definition unsub_names (f : bytes) (ev : cevent) : bool :=
  match ev with EvUnsuback ts => existsb (fun t => beq_bytes t f) ts | _ => false end.
Definition sub_grants (f : bytes) (ev : cevent) : bool :=
  match ev with
  | EvSuback _ ts codes => existsb (fun tc => beq_bytes (fst tc) f && negb (snd tc =? QosFailure)) (combine ts codes)
  | _ => false
  end.

(* after a SUBSCRIBE with callback cb has completed, and as long as no UNSUBSCRIBE naming its granted filter f
   has completed - whatever else completes or arrives in between - every PUBLISH whose topic matches f
   invokes cb with the message's topic and payload *)
Definition C20_callback_while_subscribed : Prop := forall cl h cb ts codes cl1 o1 f c evs cl2 m cl3 o,
  ctracks cl h -> cl_nextsub cl <> 0 ->
  cstep cl (EvSuback cb ts codes) cl1 o1 ->
  In (f, c) (combine ts codes) -> good_filter f = true -> valid_qos c = true ->
  csteps cl1 evs cl2 -> existsb (unsub_names f) evs = false ->
  cstep cl2 (EvPublish m) cl3 o ->
  fmatch (split_sep f) (split_sep (p_topic m)) = true ->
  In (Some (cb, p_topic m, p_payload m)) (map pub_call o).

(* after an UNSUBSCRIBE naming f has completed, and until a SUBSCRIBE granting f completes again, no
   subscription to f is held: the callbacks a PUBLISH invokes are one per held subscription whose filter
   matches, and none of these subscriptions is to f *)
Definition C20_no_callback_after_unsubscribe : Prop := forall cl h ts cl1 o1 f evs cl2 m cl3 o,
  ctracks cl h ->
  cstep cl (EvUnsuback ts) cl1 o1 -> In f ts -> good_filter f = true ->
  csteps cl1 evs cl2 -> existsb (sub_grants f) evs = false ->
  cstep cl2 (EvPublish m) cl3 o ->
  exists h2 subs,
    ctracks cl2 h2 /\ subs = matching (ca_run h2) (p_topic m) /\
    Permutation (map pub_call o)
                (map (fun e => Some (cb_of cl2 (fst (fst e)), p_topic m, p_payload m)) subs) /\
    Forall (fun e => snd (fst e) <> split_sep f) (ca_run h2).

(* a request with the single filter f, unsubscribed before anything else happens to its subscriber: its
   subscriber id holds nothing afterwards, so no callback is invoked on its behalf *)
Definition C20_single_filter_silenced : Prop := forall cl h cb f c cl1 o1 evs cl2 ts cl3 o2 evs' cl4 m cl5 o,
  ctracks cl h ->
  Forall (fun e => fst (fst e) <> cl_nextsub cl) (ca_run h) ->          (* the id is fresh *)
  cstep cl (EvSuback cb [f] [c]) cl1 o1 ->
  csteps cl1 evs cl2 ->
  cstep cl2 (EvUnsuback ts) cl3 o2 -> In f ts -> good_filter f = true ->
  csteps cl3 evs' cl4 ->
  cstep cl4 (EvPublish m) cl5 o ->
  exists h4,
    ctracks cl4 h4 /\
    Forall (fun e => fst (fst e) <> cl_nextsub cl) (ca_run h4) /\
    Permutation (map pub_call o)
                (map (fun e => Some (cb_of cl4 (fst (fst e)), p_topic m, p_payload m))
                     (matching (ca_run h4) (p_topic m))).

(* "exactly once" holds per held subscription, not per request or per callback: a request whose filters
   overlap, or a second SUBSCRIBE for the same filter (each completion registers a fresh subscriber id, so
   the second does NOT replace the first), makes one inbound PUBLISH invoke the same callback more than
   once.  Witnesses as event scripts of Client/Script.v through the whole client (Connect, Subscribe, the
   SUBACK bytes, the PUBLISH bytes): filters "a/+" and "a/#" in one request with callback 101, PUBLISH on
   "a/b"; the filter "a" in two requests (QoS 0, then QoS 1) with callback 101, PUBLISH on "a".  The last
   observation is two invocations [2; 101; flags; topic; payload] each time *)
Definition C20_once_per_subscription_only : Prop :=
  last (run_client [262144]
          [[0;32;2;0;0]; [1;5;1;101;2;0;3;97;47;43;0;3;97;47;35]; [5;144;4;0;5;0;0]; [5;48;6;0;3;97;47;98;49]]) []
    = [0; 2;101;0;3;97;47;98;1;49; 2;101;0;3;97;47;98;1;49] /\
  last (run_client [262144]
          [[0;32;2;0;0]; [1;5;1;101;1;0;1;97]; [5;144;3;0;5;0]; [1;6;2;101;1;1;1;97]; [5;144;3;0;6;1]; [5;48;4;0;1;97;49]]) []
    = [0; 2;101;0;1;97;1;49; 2;101;0;1;97;1;49].
