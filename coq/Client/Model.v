(* Executable model of the client role (service/client.go Connect; service/service.go publish /
   subscribe / unsubscribe / ping; service/process.go in client mode): the connect handshake,
   requests that wait for acknowledgement in FIFO ack queues with their completion callbacks, and
   the dispatch of inbound PUBLISH packets through the client's private topic store.  Built from
   the codec model, the topic-store model and the ack-queue specification. *)
From Base Require Import Tactics Bytes.
From Gen Require Import Tables.
From Codec Require Import Wire Impl Script.
From Topics Require Import Model Script.
From Ackq Require Import Model Spec.
From Proto Require Import Broker.
Open Scope N_scope.

(* ---------- Connect: the answer to the CONNECT ---------- *)

Inductive conn_result := ConnOk (rest : bytes) | ConnRefused (code : N) | ConnError.

(* getConnackMessage: framing (at most 4 length bytes), decode, return code *)
Definition connect_result (b : bytes) : conn_result :=
  match b with
  | [] | [_] => ConnError
  | b0 :: rest =>
      match uvarint4 rest with
      | None => ConnError
      | Some (rl, m) =>
          let total := N.to_nat (rl + 1 + N.of_nat m) in
          if (length b <? total)%nat then ConnError else
          match connack_decode connack_new (firstn total b) with
          | Ok (k, _) => if k_code k =? 0 then ConnOk (skipn total b) else ConnRefused (k_code k)
          | _ => ConnError
          end
      end
  end.

(* ---------- state ---------- *)

Record creg := mkReg { rg_done : N; rg_pub : N }.      (* completion callback, publish callback (0 = nil) *)

Record client := mkCl {
  cl_store : store;                  (* private MemTopics; subscriber ids are allocated per processed SUBACK *)
  cl_subcb : list (N * N);           (* subscriber id -> publish callback of the application *)
  cl_nextsub : N;
  cl_pub1 : aspec; cl_pub2out : aspec; cl_sub : aspec; cl_unsub : aspec; cl_ping : aspec; cl_pub2in : aspec;
  cl_counter : N;
  cl_regs : list (N * creg);         (* registration id (the entry's callback slot) -> callbacks *)
  cl_nextreg : N;
  cl_open : bool
}.

Definition client0 : client := mkCl store0 [] 1 s_new s_new s_new s_new s_new s_new 0 [] 1 true.

Inductive cout :=
| CPkt (b : bytes)                                   (* written to the server *)
| CPub (cb : N) (flags : N) (topic payload : bytes)   (* OnPublishFunc cb called *)
| CDone (cb : N) (ack : N) (err : bool)               (* OnCompleteFunc cb called *)
| CClosed.

Definition reg_of (cl : client) (r : N) : creg :=
  match find (fun x => fst x =? r) (cl_regs cl) with Some x => snd x | None => mkReg 0 0 end.

Definition upd_q (cl : client) (which : N) (q : aspec) : client :=
  match which with
  | 1 => mkCl (cl_store cl) (cl_subcb cl) (cl_nextsub cl) q (cl_pub2out cl) (cl_sub cl) (cl_unsub cl) (cl_ping cl) (cl_pub2in cl) (cl_counter cl) (cl_regs cl) (cl_nextreg cl) (cl_open cl)
  | 2 => mkCl (cl_store cl) (cl_subcb cl) (cl_nextsub cl) (cl_pub1 cl) q (cl_sub cl) (cl_unsub cl) (cl_ping cl) (cl_pub2in cl) (cl_counter cl) (cl_regs cl) (cl_nextreg cl) (cl_open cl)
  | 3 => mkCl (cl_store cl) (cl_subcb cl) (cl_nextsub cl) (cl_pub1 cl) (cl_pub2out cl) q (cl_unsub cl) (cl_ping cl) (cl_pub2in cl) (cl_counter cl) (cl_regs cl) (cl_nextreg cl) (cl_open cl)
  | 4 => mkCl (cl_store cl) (cl_subcb cl) (cl_nextsub cl) (cl_pub1 cl) (cl_pub2out cl) (cl_sub cl) q (cl_ping cl) (cl_pub2in cl) (cl_counter cl) (cl_regs cl) (cl_nextreg cl) (cl_open cl)
  | 5 => mkCl (cl_store cl) (cl_subcb cl) (cl_nextsub cl) (cl_pub1 cl) (cl_pub2out cl) (cl_sub cl) (cl_unsub cl) q (cl_pub2in cl) (cl_counter cl) (cl_regs cl) (cl_nextreg cl) (cl_open cl)
  | _ => mkCl (cl_store cl) (cl_subcb cl) (cl_nextsub cl) (cl_pub1 cl) (cl_pub2out cl) (cl_sub cl) (cl_unsub cl) (cl_ping cl) q (cl_counter cl) (cl_regs cl) (cl_nextreg cl) (cl_open cl)
  end.
Definition get_q (cl : client) (which : N) : aspec :=
  match which with 1 => cl_pub1 cl | 2 => cl_pub2out cl | 3 => cl_sub cl | 4 => cl_unsub cl | 5 => cl_ping cl | _ => cl_pub2in cl end.

Definition with_cstore (cl : client) (st : store) (subcb : list (N * N)) (nextsub : N) : client :=
  mkCl st subcb nextsub (cl_pub1 cl) (cl_pub2out cl) (cl_sub cl) (cl_unsub cl) (cl_ping cl) (cl_pub2in cl) (cl_counter cl) (cl_regs cl) (cl_nextreg cl) (cl_open cl).
Definition with_ccounter (cl : client) (c : N) : client :=
  mkCl (cl_store cl) (cl_subcb cl) (cl_nextsub cl) (cl_pub1 cl) (cl_pub2out cl) (cl_sub cl) (cl_unsub cl) (cl_ping cl) (cl_pub2in cl) c (cl_regs cl) (cl_nextreg cl) (cl_open cl).
Definition add_reg (cl : client) (r : creg) : client * N :=
  (mkCl (cl_store cl) (cl_subcb cl) (cl_nextsub cl) (cl_pub1 cl) (cl_pub2out cl) (cl_sub cl) (cl_unsub cl) (cl_ping cl) (cl_pub2in cl) (cl_counter cl)
        ((cl_nextreg cl, r) :: cl_regs cl) (cl_nextreg cl + 1) (cl_open cl), cl_nextreg cl).
Definition closed (cl : client) : client :=
  mkCl (cl_store cl) (cl_subcb cl) (cl_nextsub cl) (cl_pub1 cl) (cl_pub2out cl) (cl_sub cl) (cl_unsub cl) (cl_ping cl) (cl_pub2in cl) (cl_counter cl) (cl_regs cl) (cl_nextreg cl) false.

(* writeMessage: Len, Encode (may assign an identifier); the message afterwards, the bytes *)
Definition cwrite (cl : client) (m : msg) : client * msg * option bytes :=
  match lenenc m (cl_counter cl) with
  | (m', c', Ok b) => (with_ccounter cl c', m', Some b)
  | (m', c', _) => (with_ccounter cl c', m', None)
  end.

Definition msg_pid (m : msg) : N := packet_id (hdr_of m).

(* ---------- inbound PUBLISH: onPublish in the client role ---------- *)

Fixpoint dispatch_subs (cl : client) (m : pubmsg) (subs : list (sub * N)) : list cout :=
  match subs with
  | [] => []
  | (s, q) :: r =>
      let m1 := match pub_set_qos m q with Some x => x | None => m end in
      let cb := match find (fun x => fst x =? s) (cl_subcb cl) with Some x => snd x | None => 0 end in
      CPub cb (h_flags (p_h m1)) (p_topic m1) (p_payload m1) :: dispatch_subs cl m1 r
  end.

Definition dispatch (cl : client) (m : pubmsg) : client * list cout :=
  (* a retained message is also stored in the private store (not observable) *)
  let st := if pub_retain m then fst (t_retain (cl_store cl) (mkR (p_topic m) (p_payload m) (pub_qos m))) else cl_store cl in
  let cl1 := with_cstore cl st (cl_subcb cl) (cl_nextsub cl) in
  match t_subscribers st (p_topic m) (pub_qos m) with
  | None => (cl1, [])
  | Some subs => (cl1, dispatch_subs cl1 m subs)
  end.

(* ---------- processAcked ---------- *)

(* the completion closure of subscribe: register the publish callback for every granted filter *)
Fixpoint sub_register (st : store) (s : sub) (ts : list bytes) (codes : list N) : store * bool :=
  match ts, codes with
  | t :: ts', c :: cs' =>
      if c =? QosFailure then let '(st', _) := sub_register st s ts' cs' in (st', true)
      else
        let '(st1, r) := t_subscribe st t c s in
        let '(st2, e) := sub_register st1 s ts' cs' in
        (st2, match r with Some _ => e | None => true end)
  | _, _ => (st, false)
  end.

Fixpoint unsub_all_c (st : store) (ts : list bytes) : store * bool :=
  match ts with
  | [] => (st, false)
  | t :: r =>
      let '(st1, ok) := t_unsubscribe st t 0 in       (* Unsubscribe(tb, nil): every subscriber of the filter *)
      let '(st2, e) := unsub_all_c st1 r in
      (st2, e || negb ok)
  end.

Definition complete (cl : client) (e : entry) : client * list cout :=
  let r := reg_of cl (e_cb e) in
  let ty := e_mtype e in
  if ty =? T_PUBLISH then
    match pub_decode pub_new (e_msg e), ack_decode (ack_new (e_state e)) (e_ack e) with
    | Ok (m, _), Ok _ =>
        if e_state e =? T_PUBREL then
          let '(cl1, o) := dispatch cl m in (cl1, o)          (* incoming QoS 2: no completion callback *)
        else (cl, if rg_done r =? 0 then [] else [CDone (rg_done r) (e_state e) false])
    | _, _ => (cl, [])
    end
  else if ty =? T_SUBSCRIBE then
    match sub_decode sub_new (e_msg e), suback_decode suback_new (e_ack e) with
    | Ok (sm, _), Ok (sa, _) =>
        if negb (length (s_topics sm) =? length (sa_codes sa))%nat then
          (cl, if rg_done r =? 0 then [] else [CDone (rg_done r) (e_state e) true])
        else
          let s := cl_nextsub cl in
          let '(st, err) := sub_register (cl_store cl) s (s_topics sm) (sa_codes sa) in
          let cl1 := with_cstore cl st ((s, rg_pub r) :: cl_subcb cl) (s + 1) in
          (cl1, if rg_done r =? 0 then [] else [CDone (rg_done r) (e_state e) err])
    | _, _ => (cl, [])
    end
  else if ty =? T_UNSUBSCRIBE then
    match unsub_decode unsub_new (e_msg e), ack_decode (ack_new (e_state e)) (e_ack e) with
    | Ok (um, _), Ok _ =>
        let '(st, err) := unsub_all_c (cl_store cl) (u_topics um) in
        let cl1 := with_cstore cl st (cl_subcb cl) (cl_nextsub cl) in
        (cl1, if rg_done r =? 0 then [] else [CDone (rg_done r) (e_state e) err])
    | _, _ => (cl, [])
    end
  else if ty =? T_PINGREQ then
    (cl, if rg_done r =? 0 then [] else [CDone (rg_done r) (e_state e) false])
  else (cl, []).

Fixpoint complete_all (cl : client) (l : list entry) : client * list cout :=
  match l with
  | [] => (cl, [])
  | e :: r => let '(cl1, o1) := complete cl e in let '(cl2, o2) := complete_all cl1 r in (cl2, o1 ++ o2)
  end.

(* Ack on queue `which`, then processAcked *)
Definition ack_and_complete (cl : client) (which : N) (atype pid : N) (raw : bytes) : client * list cout :=
  let q1 := fst (s_ack (get_q cl which) atype pid raw) in
  let '(q2, rel) := s_acked q1 in
  complete_all (upd_q cl which q2) rel.

Definition csend (cl : client) (m : msg) : client * list cout :=
  match cwrite cl m with
  | (cl1, _, Some b) => (cl1, [CPkt b])
  | (cl1, _, None) => (cl1, [])
  end.

(* ---------- one decoded inbound packet ---------- *)

Definition process_in (cl : client) (raw : bytes) (m : msg) : client * list cout * pres :=
  match m with
  | MPub p =>
      let q := pub_qos p in
      if q =? 2 then
        let cl1 := upd_q cl 6 (fst (s_wait (cl_pub2in cl) T_PUBLISH 2 (packet_id (p_h p)) 0 raw)) in
        let '(cl2, o) := csend cl1 (mk_ack T_PUBREC (packet_id (p_h p))) in (cl2, o, PContinue)
      else if q =? 1 then
        let '(cl1, o1) := csend cl (mk_ack T_PUBACK (packet_id (p_h p))) in
        let '(cl2, o2) := dispatch cl1 p in (cl2, o1 ++ o2, PContinue)
      else let '(cl1, o) := dispatch cl p in (cl1, o, PContinue)
  | MAck h =>
      let ty := h_type h in
      if ty =? T_PUBACK then let '(cl1, o) := ack_and_complete cl 1 ty (packet_id h) raw in (cl1, o, PContinue)
      else if ty =? T_PUBREC then
        let cl1 := upd_q cl 2 (fst (s_ack (cl_pub2out cl) ty (packet_id h) raw)) in
        let '(cl2, o) := csend cl1 (mk_ack T_PUBREL (packet_id h)) in (cl2, o, PContinue)
      else if ty =? T_PUBREL then
        let '(cl1, o1) := ack_and_complete cl 6 ty (packet_id h) raw in
        let '(cl2, o2) := csend cl1 (mk_ack T_PUBCOMP (packet_id h)) in (cl2, o1 ++ o2, PContinue)
      else if ty =? T_PUBCOMP then let '(cl1, o) := ack_and_complete cl 2 ty (packet_id h) raw in (cl1, o, PContinue)
      else let '(cl1, o) := ack_and_complete cl 4 ty (packet_id h) raw in (cl1, o, PContinue)     (* UNSUBACK *)
  | MSuback s => let '(cl1, o) := ack_and_complete cl 3 T_SUBACK (packet_id (sa_h s)) raw in (cl1, o, PContinue)
  | MEmpty h =>
      let ty := h_type h in
      if ty =? T_PINGRESP then let '(cl1, o) := ack_and_complete cl 5 ty 0 raw in (cl1, o, PContinue)
      else if ty =? T_PINGREQ then let '(cl1, o) := csend cl (MEmpty (empty_new T_PINGRESP)) in (cl1, o, PContinue)
      else (cl, [], PStop)
  | _ => (cl, [], PContinue)
  end.

Fixpoint cproc (fuel : nat) (bufsize : N) (cl : client) (b : bytes) : client * list cout * bytes :=
  match fuel with
  | O => (cl, [], b)
  | S f =>
      match frame bufsize b with
      | FMore => (cl, [], b)
      | FBad => (closed cl, [CClosed], [])
      | FPkt ty total =>
          let raw := firstn total b in
          let rest := skipn total b in
          match new_msg ty with
          | None => (closed cl, [CClosed], [])
          | Some m0 =>
              match do_dec m0 raw with
              | (m, 20 :: _) =>
                  let '(cl1, o1, r) := process_in cl raw m in
                  match r with
                  | PStop => (closed cl1, o1 ++ [CClosed], [])
                  | PContinue => let '(cl2, o2, rest') := cproc f bufsize cl1 rest in (cl2, o1 ++ o2, rest')
                  end
              | _ => (closed cl, [CClosed], [])
              end
          end
      end
  end.

(* ---------- the API ---------- *)

Fixpoint build_sub (m : submsg) (fs : list (bytes * N)) : submsg :=
  match fs with
  | [] => m
  | (t, q) :: r => build_sub (match sub_add_topic m t q with Some x => x | None => m end) r
  end.

(* Subscribe(msg, onComplete, onPublish): false = the call returned an error *)
Definition c_subscribe (cl : client) (pid done pubcb : N) (fs : list (bytes * N)) : client * list cout * bool :=
  if pubcb =? 0 then (cl, [], false) else
  let m := MSub (sub_set_pid (build_sub sub_new fs) pid) in
  match cwrite cl m with
  | (cl1, m1, Some b) =>
      let '(cl2, r) := add_reg cl1 (mkReg done pubcb) in
      let q := fst (s_wait (cl_sub cl2) T_SUBSCRIBE 0 (msg_pid m1) r b) in
      (upd_q cl2 3 q, [CPkt b], true)
  | (cl1, _, None) => (cl1, [], false)
  end.

Definition c_unsubscribe (cl : client) (pid done : N) (fs : list bytes) : client * list cout * bool :=
  let m := MUnsub (unsub_set_pid (fold_left unsub_add_topic fs unsub_new) pid) in
  match cwrite cl m with
  | (cl1, m1, Some b) =>
      let '(cl2, r) := add_reg cl1 (mkReg done 0) in
      let q := fst (s_wait (cl_unsub cl2) T_UNSUBSCRIBE 0 (msg_pid m1) r b) in
      (upd_q cl2 4 q, [CPkt b], true)
  | (cl1, _, None) => (cl1, [], false)
  end.

Definition build_pub (q : N) (retain : bool) (pid : N) (topic payload : bytes) : pubmsg :=
  let w1 := match pub_set_qos pub_new q with Some x => x | None => pub_new end in
  let w2 := match pub_set_topic w1 topic with Some x => x | None => w1 end in
  pub_set_pid (pub_set_retain (pub_set_payload w2 payload) retain) pid.

(* Publish(msg, onComplete); early = the acknowledgement bytes the peer sends and the client
   processes between writing the request and registering it (the window of service.publish) *)
Definition c_publish (cl : client) (q : N) (retain : bool) (pid done : N) (topic payload : bytes)
           (bufsize : N) (early : bytes) : client * list cout * bool :=
  match cwrite cl (MPub (build_pub q retain pid topic payload)) with
  | (cl1, m1, Some b) =>
      let '(cl1', oe, _) := cproc (S (length early)) bufsize cl1 early in
      if q =? 0 then (cl1', CPkt b :: oe ++ (if done =? 0 then [] else [CDone done 0 false]), true)
      else
        let '(cl2, r) := add_reg cl1' (mkReg done 0) in
        let which := if q =? 1 then 1 else 2 in
        let qq := fst (s_wait (get_q cl2 which) T_PUBLISH q (msg_pid m1) r b) in
        (upd_q cl2 which qq, CPkt b :: oe, true)
  | (cl1, _, None) => (cl1, [], false)
  end.

Definition c_ping (cl : client) (done : N) : client * list cout * bool :=
  match cwrite cl (MEmpty (empty_new T_PINGREQ)) with
  | (cl1, _, Some b) =>
      let '(cl2, r) := add_reg cl1 (mkReg done 0) in
      let q := fst (s_wait (cl_ping cl2) T_PINGREQ 0 0 r b) in
      (upd_q cl2 5 q, [CPkt b], true)
  | (cl1, _, None) => (cl1, [], false)
  end.
