(* C20: the result of Connect mirrors the CONNACK (Client/Props.v, the four C20_connect_* statements).
   One inversion lemma over connect_result gives the two "only" directions; the two positive
   directions are computations. *)
From Base Require Import Tactics Bytes.
From Gen Require Import Tables.
From Codec Require Import Wire Impl Script Statements ProofsHeader.
From Topics Require Import Model.
From Ackq Require Import Model Spec.
From Proto Require Import Broker.
From Client Require Import Model Props.
Open Scope N_scope.

(* ---------- the positive directions ---------- *)

Lemma connect_ok : C20_connect_ok.
Proof.
  intros sp rest HS _.
  assert (C : sp = 0 \/ sp = 1) by lia.
  unfold connack_bytes. cbn [app].
  destruct C as [-> | ->]; vm_compute; reflexivity.
Qed.

Lemma connect_refused : C20_connect_refused.
Proof.
  intros code rest H0 H5 _. unfold connack_max_code in H5.
  assert (C : code = 1 \/ code = 2 \/ code = 3 \/ code = 4 \/ code = 5) by lia.
  unfold connack_bytes. cbn [app].
  destruct C as [-> | [-> | [-> | [-> | ->]]]]; vm_compute; reflexivity.
Qed.

(* ---------- inversion of connect_result ---------- *)

(* the length prefix only depends on the bytes it uses *)
Lemma uvarint_fuel_prefix fuel : forall l shift acc used v u k,
  uvarint_fuel fuel l shift acc used = Some (v, u) -> (u - used <= k)%nat ->
  uvarint_fuel fuel (firstn k l) shift acc used = Some (v, u).
Proof.
  induction fuel as [|f IH]; intros l shift acc used v u k H HK; [discriminate H|].
  cbn [uvarint_fuel] in H. destruct l as [|b r]; [discriminate H|].
  pose proof (uvarint_fuel_used (S f) (b :: r) shift acc used v u) as HU.
  cbn [uvarint_fuel] in HU. specialize (HU H).
  destruct k as [|k]; [lia|].
  cbn [firstn uvarint_fuel].
  destruct (b <? 128) eqn:E; [exact H|].
  apply IH; [exact H|].
  apply uvarint_fuel_used in H. lia.
Qed.

Lemma uvarint4_prefix l v u k : uvarint4 l = Some (v, u) -> (u <= k)%nat ->
  uvarint4 (firstn k l) = Some (v, u).
Proof. unfold uvarint4. intros H HK. apply uvarint_fuel_prefix; [exact H|lia]. Qed.

Lemma split_two (l : bytes) m : (m + 2 <= length l)%nat ->
  l = firstn m l ++ nth m l 0 :: nth (S m) l 0 :: skipn (m + 2) l.
Proof.
  revert l. induction m as [|m IH]; intros l H.
  - destruct l as [|a [|b l]]; cbn [length] in H; try lia. reflexivity.
  - destruct l as [|a l]; cbn [length] in H; [lia|].
    cbn [firstn nth app plus skipn]. f_equal. apply IH. lia.
Qed.

(* the shape of every answer Connect does not report as a plain error *)
Definition connack_shape (b : bytes) (code : N) (rest : bytes) : Prop :=
  exists vb sp, b = connack_bytes vb sp code rest /\ N.land sp 254 = 0 /\ code <= 5
    /\ uvarint4 (vb ++ sp :: code :: rest) = Some (2, length vb).

Lemma byte_eq_32 b0 : b0 / 16 = 2 -> b0 mod 16 = 0 -> b0 = 32.
Proof. intros H1 H2. lia. Qed.

Lemma connect_result_inv b :
  match connect_result b with
  | ConnOk rest => connack_shape b 0 rest
  | ConnRefused code => 0 < code /\ exists rest, connack_shape b code rest
  | ConnError => True
  end.
Proof.
  unfold connect_result.
  destruct b as [|b0 [|b1 r]]; [exact I|exact I|].
  set (r' := b1 :: r).
  destruct (uvarint4 r') as [[rl m]|] eqn:EU; [|exact I].
  pose proof (uvarint4_used _ _ _ EU) as [HM HML].
  destruct (length (b0 :: r') <? N.to_nat (rl + 1 + N.of_nat m))%nat eqn:EL; [exact I|].
  assert (ET : N.to_nat (rl + 1 + N.of_nat m) = S (N.to_nat rl + m)) by lia.
  rewrite ET. rewrite ET in EL. cbn [length] in EL.
  set (k := (N.to_nat rl + m)%nat) in *.
  cbn [firstn skipn].
  assert (LK : length (firstn k r') = k) by (apply firstn_length_le'; lia).
  (* open the decoder *)
  unfold connack_decode, hdr_decode.
  change (k_h connack_new) with (new_hdr T_CONNACK).
  rewrite new_hdr_type.
  destruct (length (b0 :: firstn k r') <? 2)%nat eqn:E0; [exact I|].
  rewrite idx_cons0. cbn [bind].
  destruct (negb (type_valid (b0 / 16))) eqn:E1; [exact I|].
  destruct (negb (T_CONNACK =? b0 / 16)) eqn:E2; [exact I|].
  apply negb_false_iff in E2. apply N.eqb_eq in E2. rewrite <- E2.
  change (negb (T_CONNACK =? T_PUBLISH)) with true.
  change (T_CONNACK =? T_PUBLISH) with false.
  change (default_flags T_CONNACK) with 0. cbn [andb].
  destruct (negb (b0 mod 16 =? 0)) eqn:E3; [exact I|].
  apply negb_false_iff in E3. apply N.eqb_eq in E3.
  assert (B0 : b0 = 32) by (apply byte_eq_32; [symmetry; exact E2|exact E3]).
  rewrite from_ok by (cbn [length]; lia). cbn [bind skipn].
  rewrite (uvarint4_prefix _ _ _ k EU) by lia.
  destruct (maxRemainingLength <? rl) eqn:E5; [exact I|].
  destruct (N.of_nat (length (b0 :: firstn k r') - S m) <? rl) eqn:E6; [exact I|].
  rewrite sl_ok by (cbn [length]; lia). cbn [bind remlen].
  destruct (negb (rl =? 2)) eqn:E7; [exact I|].
  apply negb_false_iff in E7. apply N.eqb_eq in E7. subst rl.
  assert (EK : k = (m + 2)%nat) by lia.
  assert (HL : (m + 2 <= length r')%nat) by lia.
  rewrite !idx_lt by (cbn [length]; lia). cbn [bind nth].
  rewrite !nth_firstn_lt by lia.
  set (sp := nth m r' 0). set (code := nth (S m) r' 0).
  destruct (negb (N.land sp 254 =? 0)) eqn:E8; [exact I|].
  apply negb_false_iff in E8. apply N.eqb_eq in E8.
  destruct (5 <? code) eqn:E9; [exact I|].
  cbn [k_code].
  assert (SH : connack_shape (b0 :: r') code (skipn k r')).
  { exists (firstn m r'), sp. unfold connack_bytes. rewrite B0, EK.
    split; [f_equal; exact (split_two r' m HL)|]. split; [exact E8|]. split; [lia|].
    rewrite firstn_length_le' by lia.
    replace (firstn m r' ++ sp :: code :: skipn (m + 2) r') with r' by exact (split_two r' m HL).
    exact EU. }
  destruct (code =? 0) eqn:E10.
  - apply N.eqb_eq in E10. rewrite E10 in SH. exact SH.
  - split; [lia|]. exists (skipn k r'). exact SH.
Qed.

Lemma land254_lt2 sp : sp < 256 -> N.land sp 254 = 0 -> sp < 2.
Proof.
  intros H L.
  pose proof (byte_range_forall (fun t => implb (N.land t 254 =? 0) (t <? 2))) as F.
  assert (G : implb (N.land sp 254 =? 0) (sp <? 2) = true) by (apply F; [vm_compute; reflexivity|exact H]).
  rewrite L in G. cbn in G. lia.
Qed.

Lemma bytes_ok_in l x : bytes_ok l = true -> In x l -> x < 256.
Proof.
  unfold bytes_ok. rewrite forallb_forall. intros H HI. specialize (H x HI). unfold byte_ok in H. lia.
Qed.

Lemma connect_ok_only : C20_connect_ok_only.
Proof.
  intros b rest HB H.
  pose proof (connect_result_inv b) as I. rewrite H in I.
  destruct I as (vb & sp & EB & L & _ & U).
  exists vb, sp. split; [exact EB|]. split; [|exact U].
  apply land254_lt2; [|exact L].
  apply (bytes_ok_in b); [exact HB|].
  rewrite EB. unfold connack_bytes. right. apply in_or_app. right. left. reflexivity.
Qed.

Lemma connect_refused_only : C20_connect_refused_only.
Proof.
  intros b code HB H.
  pose proof (connect_result_inv b) as I. rewrite H in I.
  destruct I as (HC & rest & vb & sp & EB & L & _ & U).
  split; [exact HC|]. exists vb, sp, rest. split; [exact EB|exact U].
Qed.

(* additional: the refusal code is one of the five of the protocol, and the session-present byte
   is 0 or 1 also for a refusal (the decoder does not reject session-present 1 with a non-zero
   code, which MQTT-3.2.2-4 forbids) *)
Lemma connect_refused_range b code : bytes_ok b = true -> connect_result b = ConnRefused code ->
  code <= connack_max_code.
Proof.
  intros HB H. pose proof (connect_result_inv b) as I. rewrite H in I.
  destruct I as (_ & rest & vb & sp & _ & _ & HC & _). exact HC.
Qed.

Print Assumptions connect_ok.
Print Assumptions connect_refused.
Print Assumptions connect_ok_only.
Print Assumptions connect_refused_only.
