(* C20 end to end (Client/PropsE2E.v): the client model composed with the topic-store specification.

   1. sremove with the nil subscriber (Unsubscribe(filter, nil)) refines a_unsubscribe_all: the lemmas of
      Topics/ProofsTrie.v about sremove ls (Some s) are repeated for sremove ls None, with the predicate
      "same filter levels" in place of "same subscriber and filter levels".
   2. the invariant of Topics/ProofsTrie.v is carried through the extended histories; the subscribers
      theorem follows for them (store_subscribers).
   3. the completions of SUBSCRIBE / UNSUBSCRIBE and the dispatch of a PUBLISH extend the history
      (suback_tracks, unsuback_tracks, end_to_end).
   4. sequences of events; the statements in plain words. *)
From Coq Require Import Permutation.
From Base Require Import Tactics Bytes.
From Gen Require Import Tables.
From Codec Require Import Wire Impl Script.
From Topics Require Import Model Spec ProofsLevels ProofsTrie.
From Ackq Require Import Model Spec.
From Proto Require Import Broker.
From Client Require Import Model Script Props PropsE2E ProofsDispatch.
Open Scope N_scope.

(* ================= 1. sremove with the nil subscriber ================= *)

Definition keepf (f : list bytes) (e : asub) : bool := negb (samef f e).
Definition nosamef (f : list bytes) (X : list asub) : Prop := Forall (fun e => samef f e = false) X.

Lemma samef_own_nil : forall sq, samef [] (own sq) = true.
Proof. reflexivity. Qed.
Lemma samef_own_cons : forall l r sq, samef (l :: r) (own sq) = false.
Proof. reflexivity. Qed.
Lemma samef_pre_nil : forall k e, samef [] (pre k e) = false.
Proof. reflexivity. Qed.
Lemma samef_pre_cons : forall l r k e, samef (l :: r) (pre k e) = beq_bytes k l && samef r e.
Proof. reflexivity. Qed.

Lemma samef_eq : forall f e, samef f e = true <-> snd (fst e) = f.
Proof. intros f e. unfold samef. apply beq_levels_eq. Qed.

Lemma samef_false : forall f e, samef f e = false <-> snd (fst e) <> f.
Proof.
  intros f e. split; intro H.
  - intro E. apply samef_eq in E. congruence.
  - destruct (samef f e) eqn:E; [|reflexivity]. apply samef_eq in E. contradiction.
Qed.

Lemma nosamef_filter : forall f X, nosamef f X -> filter (keepf f) X = X.
Proof.
  intros f X H. induction H as [|e X He HX IH]; [reflexivity|].
  cbn [filter]. unfold keepf at 1. rewrite He. cbn [negb]. rewrite IH. reflexivity.
Qed.

Lemma keepf_pre_eq : forall k r e, keepf (k :: r) (pre k e) = keepf r e.
Proof. intros. unfold keepf. rewrite samef_pre_cons, beq_bytes_refl. reflexivity. Qed.

Lemma filter_keepf_pre_eq : forall k r X,
  filter (keepf (k :: r)) (map (pre k) X) = map (pre k) (filter (keepf r) X).
Proof.
  intros k r X. induction X as [|e X IH]; [reflexivity|].
  cbn [map filter]. rewrite keepf_pre_eq, IH.
  destruct (keepf r e); reflexivity.
Qed.

Lemma nosamef_own_cons : forall l r subs, nosamef (l :: r) (map own subs).
Proof.
  intros l r subs. apply Forall_forall. intros e He.
  apply in_map_iff in He as (x & <- & _). apply samef_own_cons.
Qed.

Lemma nosamef_pre_ne : forall l r k X, beq_bytes k l = false -> nosamef (l :: r) (map (pre k) X).
Proof.
  intros l r k X Hk. apply Forall_forall. intros e He.
  apply in_map_iff in He as (x & <- & _). rewrite samef_pre_cons, Hk. reflexivity.
Qed.

Lemma nosamef_pre_eq : forall k r X, nosamef r X -> nosamef (k :: r) (map (pre k) X).
Proof.
  intros k r X H. apply Forall_forall. intros e He. apply in_map_iff in He as (x & <- & Hx).
  rewrite samef_pre_cons. unfold nosamef in H. rewrite Forall_forall in H. rewrite (H x Hx). apply andb_false_r.
Qed.

Lemma nosamef_kids_nil : forall ks, nosamef [] (flat_kids ks).
Proof.
  intros ks. apply Forall_forall. intros e He. unfold flat_kids in He.
  apply in_flat_map in He as (kc & _ & He).
  apply in_map_iff in He as (x & <- & _). apply samef_pre_nil.
Qed.

Lemma nosamef_kids_notin : forall l r ks, ~ In l (map fst ks) -> nosamef (l :: r) (flat_kids ks).
Proof.
  intros l r ks Hn. apply Forall_forall. intros e He. unfold flat_kids in He.
  apply in_flat_map in He as (kc & Hkc & He).
  apply in_map_iff in He as (x & <- & _). rewrite samef_pre_cons.
  destruct (beq_bytes (fst kc) l) eqn:E; [|reflexivity].
  apply beq_bytes_eq in E. exfalso. apply Hn. rewrite <- E. apply in_map. exact Hkc.
Qed.

Lemma filter_keepf_own_nil : forall subs, filter (keepf []) (map own subs) = [].
Proof. induction subs as [|sq subs IH]; [reflexivity|]. cbn [map filter]. exact IH. Qed.

(* what sremove ls None does to a well-formed trie: every subscription to exactly ls goes, the rest stays;
   it fails only when the trie has no node for ls - and then nobody holds ls *)
Definition rem_all_spec (ls : list bytes) (n : snode) (res : option snode) : Prop :=
  match res with
  | Some n' => wf n' /\ flatten n' = filter (keepf ls) (flatten n)
  | None => nosamef ls (flatten n)
  end.

Lemma rem_kid_all_ok : forall l r ks,
  NoDup (map fst ks) -> Forall (fun kc => wf (snd kc)) ks ->
  (forall c, wf c -> rem_all_spec r c (sremove r None c)) ->
  match rem_kid l (sremove r None) ks with
  | Some ks' => NoDup (map fst ks') /\ incl (map fst ks') (map fst ks)
                /\ Forall (fun kc => wf (snd kc)) ks'
                /\ flat_kids ks' = filter (keepf (l :: r)) (flat_kids ks)
  | None => nosamef (l :: r) (flat_kids ks)
  end.
Proof.
  intros l r ks Hnd Hwf IH. induction Hwf as [|[k c] ks Hc Hks IHk].
  - constructor.
  - cbn [map fst] in Hnd. inversion Hnd as [|? ? Hn Hd]; subst. cbn [snd] in Hc.
    cbn [rem_kid]. rewrite flat_kids_cons. destruct (beq_bytes k l) eqn:E.
    + apply beq_bytes_eq in E. subst k. specialize (IH c Hc). unfold rem_all_spec in IH.
      destruct (sremove r None c) as [c'|].
      * destruct IH as (Hw' & Hfl).
        assert (Hrest : filter (keepf (l :: r)) (flat_kids ks) = flat_kids ks)
          by (apply nosamef_filter, nosamef_kids_notin; exact Hn).
        destruct (prune_cases l c' ks) as [[Hres Hemp] | Hres]; cbn zeta in Hres; rewrite Hres.
        -- split; [exact Hd|]. split; [apply incl_tl, incl_refl|]. split; [exact Hks|].
           rewrite filter_app, filter_keepf_pre_eq, <- Hfl, Hemp, Hrest. reflexivity.
        -- split; [cbn [map fst]; constructor; assumption|]. split; [apply incl_refl|].
           split; [constructor; assumption|].
           rewrite flat_kids_cons, filter_app, filter_keepf_pre_eq, <- Hfl, Hrest. reflexivity.
      * unfold nosamef. apply Forall_app. split; [apply nosamef_pre_eq; exact IH|].
        apply nosamef_kids_notin; exact Hn.
    + specialize (IHk Hd). destruct (rem_kid l (sremove r None) ks) as [ks'|]; cbn [option_map].
      * destruct IHk as (H1 & H2 & H3 & H5). split; [|split; [|split]].
        -- cbn [map fst]. constructor; [|exact H1]. intro Hin. apply Hn, H2, Hin.
        -- cbn [map fst]. intros x [Hx | Hx]; [left; exact Hx | right; apply H2, Hx].
        -- constructor; assumption.
        -- rewrite flat_kids_cons, filter_app, <- H5.
           rewrite nosamef_filter by (apply nosamef_pre_ne; exact E). reflexivity.
      * unfold nosamef. apply Forall_app. split; [apply nosamef_pre_ne; exact E | exact IHk].
Qed.

Lemma sremove_all_ok : forall ls n, wf n -> rem_all_spec ls n (sremove ls None n).
Proof.
  induction ls as [|l r IH]; intros [subs kids] Hwf;
    apply wf_inv in Hwf as (Hs & Hk & Hkids).
  - cbn [sremove s_kids]. unfold rem_all_spec. rewrite !flatten_eq. split.
    + constructor; [constructor | exact Hk | exact Hkids].
    + rewrite filter_app, filter_keepf_own_nil, (nosamef_filter [] (flat_kids kids)) by apply nosamef_kids_nil.
      reflexivity.
  - rewrite sremove_cons. cbn [s_subs s_kids].
    pose proof (rem_kid_all_ok l r kids Hk Hkids (fun c Hc => IH c Hc)) as Hr.
    destruct (rem_kid l (sremove r None) kids) as [ks'|]; cbn [option_map];
      unfold rem_all_spec; rewrite !flatten_eq.
    + destruct Hr as (H1 & H2 & H3 & H5). split; [constructor; assumption|].
      rewrite filter_app, H5, (nosamef_filter (l :: r) (map own subs)) by apply nosamef_own_cons.
      reflexivity.
    + unfold nosamef. apply Forall_app. split; [apply nosamef_own_cons | exact Hr].
Qed.

(* ================= 2. the invariant over the extended histories ================= *)

Lemma a_unsubscribe_all_keepf : forall a f, a_unsubscribe_all a f = filter (keepf f) a.
Proof. reflexivity. Qed.

Lemma nosamef_perm : forall f X Y, Permutation X Y -> nosamef f X -> nosamef f Y.
Proof. intros f X Y HP H. unfold nosamef in *. rewrite <- HP. exact H. Qed.

Lemma inv_unsub_all : forall st a t,
  (good_filter t || refused t) = true -> inv st a ->
  inv (fst (t_unsubscribe st t 0)) (ca_apply a (OUnsub t 0)).
Proof.
  intros st a t Hd Hinv. pose proof Hinv as (Hwf & Hroot & Hnd & Hperm).
  cbn [ca_apply]. change (0 =? 0) with true. cbv iota.
  unfold t_unsubscribe. change (0 =? 0) with true. cbv iota.
  destruct (good_filter t) eqn:Eg.
  - rewrite (levels_good _ Eg). rewrite a_unsubscribe_all_keepf.
    pose proof (sremove_all_ok (split_sep t) (sroot st) Hwf) as Hrem. unfold rem_all_spec in Hrem.
    destruct (sremove (split_sep t) None (sroot st)) as [n'|] eqn:Er.
    + destruct Hrem as (Hw' & Hfl). unfold inv. cbn [fst sroot].
      split; [exact Hw'|]. split; [|split].
      * destruct (split_sep t) as [|l r] eqn:El; [exfalso; eapply split_sep_nonempty; eauto|].
        rewrite (s_subs_sremove_cons _ _ _ _ _ Er). exact Hroot.
      * apply nodup_map_filter. exact Hnd.
      * rewrite Hfl. apply (perm_filter (keepf (split_sep t))). exact Hperm.
    + cbn [fst]. rewrite (nosamef_filter _ a) by (eapply nosamef_perm; eassumption). exact Hinv.
  - cbn [orb] in Hd. destruct t as [|c t].
    + rewrite levels_lazy_nil. cbn [sremove fst].
      destruct st as [[subs kids] rr]. cbn [sroot s_subs] in Hroot. subst subs. exact Hinv.
    + unfold refused in Hd. cbn [length Nat.eqb] in Hd. rewrite orb_false_r in Hd.
      destruct (levels_lazy (c :: t)) as [ls bad]. cbn [snd] in Hd. subst bad. exact Hinv.
Qed.

Lemma cop_domain_not_nil : forall t s, (s =? 0) = false ->
  cop_in_domain (OUnsub t s) = op_in_domain (OUnsub t s).
Proof. intros t s E. cbn [cop_in_domain op_in_domain]. rewrite E. reflexivity. Qed.

Lemma cinv_step : forall st a o, cop_in_domain o = true -> inv st a ->
  inv (apply_op st o) (ca_apply a o).
Proof.
  intros st a [t q s | t s | m] Hd Hinv.
  - apply (inv_step st a (OSub t q s)); assumption.
  - destruct (s =? 0) eqn:Es.
    + apply N.eqb_eq in Es. subst s. cbn [apply_op]. apply inv_unsub_all; assumption.
    + rewrite (cop_domain_not_nil t s Es) in Hd.
      replace (ca_apply a (OUnsub t s)) with (a_apply a (OUnsub t s))
        by (cbn [ca_apply]; rewrite Es; reflexivity).
      apply inv_step; assumption.
  - apply (inv_step st a (ORetain m)); assumption.
Qed.

Lemma cinv_fold : forall h st a, forallb cop_in_domain h = true -> inv st a ->
  inv (fold_left apply_op h st) (fold_left ca_apply h a).
Proof.
  induction h as [|o h IH]; intros st a Hd Hinv; [exact Hinv|].
  cbn [forallb] in Hd. apply andb_true_iff in Hd as [Ho Hh].
  cbn [fold_left]. apply IH; [exact Hh | apply cinv_step; assumption].
Qed.

Lemma cinv_run : forall h, forallb cop_in_domain h = true -> inv (run_ops h) (ca_run h).
Proof. intros h Hd. apply cinv_fold; [exact Hd | apply inv_init]. Qed.

Lemma store_subscribers : C20_store_subscribers.
Proof.
  intros h t q Hd Hn Hq. destruct (cinv_run h Hd) as (Hwf & Hroot & Hnd & Hperm).
  unfold t_subscribers. rewrite Hq. cbn [negb].
  rewrite (levels_good t (good_name_good_filter t Hn)).
  assert (Hlit : forallb lit_level (split_sep t) = true).
  { unfold good_name, good_name_levels in Hn. apply andb_true_iff in Hn as [_ Hn]. exact Hn. }
  rewrite (smatch_ok _ q _ Hlit Hwf). eexists. split; [reflexivity|].
  apply perm_asubs. exact Hperm.
Qed.

Lemma op_domain_cop : forall o, op_in_domain o = true -> cop_in_domain o = true /\ forall a, ca_apply a o = a_apply a o.
Proof.
  intros [t q s | t s | m] H.
  - split; [exact H | reflexivity].
  - cbn [op_in_domain] in H. apply andb_true_iff in H as [H1 H2]. split; [exact H2|].
    intros a. cbn [ca_apply]. destruct (s =? 0); [discriminate H1 | reflexivity].
  - split; [exact H | reflexivity].
Qed.

Lemma history_conservative : C20_history_conservative.
Proof.
  intros h Hd. unfold ca_run, a_run. generalize (@nil asub).
  induction h as [|o h IH]; intros a; [split; reflexivity|].
  cbn [forallb] in Hd. apply andb_true_iff in Hd as [Ho Hh].
  destruct (op_domain_cop o Ho) as [H1 H2]. destruct (IH Hh (ca_apply a o)) as [I1 I2].
  cbn [forallb fold_left]. rewrite H1, I1. split; [reflexivity|]. rewrite I2, H2. reflexivity.
Qed.

Lemma unsubscribe_all_result : C20_unsubscribe_all_result.
Proof.
  intros h t Hd Hg Hex. destruct (cinv_run h Hd) as (Hwf & Hroot & Hnd & Hperm).
  unfold t_unsubscribe. change (0 =? 0) with true. cbv iota.
  rewrite (levels_good _ Hg).
  pose proof (sremove_all_ok (split_sep t) (sroot (run_ops h)) Hwf) as Hrem. unfold rem_all_spec in Hrem.
  destruct (sremove (split_sep t) None (sroot (run_ops h))) as [n'|]; [reflexivity|].
  exfalso. apply (nosamef_perm _ _ _ Hperm) in Hrem.
  apply existsb_exists in Hex as (e & He & Hs).
  unfold nosamef in Hrem. rewrite Forall_forall in Hrem. rewrite (Hrem e He) in Hs. discriminate.
Qed.

Lemma unsubscribe_all_result_not_exact : C20_unsubscribe_all_result_not_exact.
Proof. vm_compute. repeat split; reflexivity. Qed.

(* ================= 3. the client's events extend the history ================= *)

Lemma run_ops_app h l : run_ops (h ++ l) = fold_left apply_op l (run_ops h).
Proof. unfold run_ops. apply fold_left_app. Qed.

Lemma ca_run_app h l : ca_run (h ++ l) = fold_left ca_apply l (ca_run h).
Proof. unfold ca_run. apply fold_left_app. Qed.

Lemma ctracks_app cl h cl1 l :
  ctracks cl h ->
  cl_store cl1 = fold_left apply_op l (cl_store cl) ->
  forallb cop_in_domain l = true ->
  ctracks cl1 (h ++ l).
Proof.
  intros [TS TD] HS HD. split.
  - rewrite run_ops_app, HS, TS. reflexivity.
  - rewrite forallb_app, TD, HD. reflexivity.
Qed.

(* ---------- completion of a SUBSCRIBE ---------- *)

Lemma granted_ops_cons s t ts c cs :
  granted_ops s (t :: ts) (c :: cs) =
  (if c =? QosFailure then [] else [OSub t c s]) ++ granted_ops s ts cs.
Proof. reflexivity. Qed.

Lemma sub_register_run s ts : forall codes st,
  fst (sub_register st s ts codes) = fold_left apply_op (granted_ops s ts codes) st.
Proof.
  induction ts as [|t ts IH]; intros codes st; [reflexivity|].
  destruct codes as [|c cs]; [reflexivity|].
  rewrite granted_ops_cons. cbn [sub_register].
  destruct (c =? QosFailure).
  - cbn [app]. rewrite <- IH. destruct (sub_register st s ts cs). reflexivity.
  - cbn [app fold_left apply_op].
    destruct (t_subscribe st t c s) as [st1 r]. cbn [fst]. rewrite <- IH.
    destruct (sub_register st1 s ts cs). reflexivity.
Qed.

Lemma granted_ops_domain s ts : forall codes,
  forallb (fun tc => (snd tc =? QosFailure) || good_filter (fst tc) || refused (fst tc)) (combine ts codes) = true ->
  forallb cop_in_domain (granted_ops s ts codes) = true.
Proof.
  induction ts as [|t ts IH]; intros codes HD; [reflexivity|].
  destruct codes as [|c cs]; [reflexivity|].
  cbn [combine forallb fst snd] in HD. apply andb_true_iff in HD as [H1 H2].
  rewrite granted_ops_cons, forallb_app, (IH cs H2), andb_true_r.
  destruct (c =? QosFailure); [reflexivity|].
  cbn [forallb cop_in_domain op_in_domain]. cbn [orb] in H1. rewrite H1. reflexivity.
Qed.

Lemma domain_all_granted ts : forall codes,
  forallb (fun t => good_filter t || refused t) ts = true ->
  forallb (fun tc => (snd tc =? QosFailure) || good_filter (fst tc) || refused (fst tc)) (combine ts codes) = true.
Proof.
  induction ts as [|t ts IH]; intros codes HD; [reflexivity|].
  destruct codes as [|c cs]; [reflexivity|].
  cbn [forallb] in HD. apply andb_true_iff in HD as [H1 H2].
  cbn [combine forallb fst snd]. rewrite (IH cs H2), andb_true_r.
  rewrite <- orb_assoc, H1. apply orb_true_r.
Qed.

Lemma suback_tracks_granted : C20_suback_tracks_granted.
Proof.
  intros cl h e sm n1 sa n2 cl1 o T HT HS HA HL HD H.
  destruct (suback_registers cl e sm n1 sa n2 cl1 o HT HS HA HL H) as (R1 & _).
  apply (ctracks_app cl h cl1 _ T).
  - rewrite R1. apply sub_register_run.
  - apply granted_ops_domain. exact HD.
Qed.

Lemma suback_tracks : C20_suback_tracks.
Proof.
  intros cl h e sm n1 sa n2 cl1 o T HT HS HA HL HD H.
  apply (suback_tracks_granted cl h e sm n1 sa n2 cl1 o T HT HS HA HL); [|exact H].
  apply domain_all_granted. exact HD.
Qed.

Lemma granted_abstract : C20_granted_abstract.
Proof.
  intros s ts. induction ts as [|t ts IH]; intros codes a; [reflexivity|].
  destruct codes as [|c cs]; [reflexivity|].
  rewrite granted_ops_cons, fold_left_app. cbn [combine fold_left fst snd].
  rewrite <- IH. f_equal.
  destruct (c =? QosFailure); [reflexivity|].
  cbn [fold_left ca_apply a_apply negb andb]. reflexivity.
Qed.

(* what sub_register does with the two kinds of filters that add nothing to the abstract list: a filter
   answered 0x80 never reaches the store (store untouched, error reported to the completion callback); a
   malformed filter with a granted code reaches the store, which refuses it but keeps the trie nodes it
   created on the way (store changed, abstract list unchanged, error reported) *)
Example sub_register_failure_code :
  sub_register store0 1 [[97]] [QosFailure] = (store0, true) /\ granted_ops 1 [[97]] [QosFailure] = [].
Proof. vm_compute. split; reflexivity. Qed.

Example sub_register_refused_filter :
  let r := sub_register store0 1 [[97; 47; 35; 47; 98]] [0] in
  fst r <> store0 /\ snd r = true /\
  granted_ops 1 [[97; 47; 35; 47; 98]] [0] = [OSub [97; 47; 35; 47; 98] 0 1] /\
  ca_run (granted_ops 1 [[97; 47; 35; 47; 98]] [0]) = [].
Proof. vm_compute. split; [discriminate | repeat split; reflexivity]. Qed.

(* ---------- completion of an UNSUBSCRIBE ---------- *)

Lemma unsub_store_run ts : forall st,
  unsub_store st ts = fold_left apply_op (unsub_ops ts) st.
Proof.
  induction ts as [|t r IH]; intros st; [reflexivity|].
  cbn [unsub_store unsub_ops map fold_left apply_op]. apply IH.
Qed.

Lemma unsub_ops_domain ts :
  forallb (fun t => good_filter t || refused t) ts = true ->
  forallb cop_in_domain (unsub_ops ts) = true.
Proof.
  induction ts as [|t r IH]; intros HD; [reflexivity|].
  cbn [forallb] in HD. apply andb_true_iff in HD as [H1 H2].
  cbn [unsub_ops map forallb cop_in_domain]. rewrite H1. exact (IH H2).
Qed.

Lemma complete_unsub_nextsub cl e um n1 hd n2 cl1 o :
  e_mtype e = T_UNSUBSCRIBE ->
  unsub_decode unsub_new (e_msg e) = Ok (um, n1) -> ack_decode (ack_new (e_state e)) (e_ack e) = Ok (hd, n2) ->
  complete cl e = (cl1, o) -> cl_nextsub cl1 = cl_nextsub cl.
Proof.
  intros HT HU HA H.
  unfold complete in H. cbv zeta in H. rewrite HT in H.
  change (T_UNSUBSCRIBE =? T_PUBLISH) with false in H.
  change (T_UNSUBSCRIBE =? T_SUBSCRIBE) with false in H.
  change (T_UNSUBSCRIBE =? T_UNSUBSCRIBE) with true in H. cbv iota in H.
  rewrite HU, HA in H.
  destruct (unsub_all_c (cl_store cl) (u_topics um)) as [st err].
  inv H. reflexivity.
Qed.

Lemma unsuback_tracks : C20_unsuback_tracks.
Proof.
  intros cl h e um n1 hd n2 cl1 o T HT HU HA HD H.
  destruct (unsuback_removes cl e um n1 hd n2 cl1 o HT HU HA H) as (R1 & R2).
  split; [|split; [exact R2 | exact (complete_unsub_nextsub _ _ _ _ _ _ _ _ HT HU HA H)]].
  apply (ctracks_app cl h cl1 _ T).
  - rewrite R1. apply unsub_store_run.
  - apply unsub_ops_domain. exact HD.
Qed.

Lemma unsub_abstract : C20_unsub_abstract.
Proof.
  intros ts. induction ts as [|t ts IH]; intros a; [reflexivity|].
  cbn [unsub_ops map fold_left]. fold (unsub_ops ts). rewrite IH. reflexivity.
Qed.

(* ---------- an inbound PUBLISH ---------- *)

Lemma dispatch_store cl m cl1 o :
  Model.dispatch cl m = (cl1, o) ->
  cl_store cl1 = fold_left apply_op (retain_ops m) (cl_store cl) /\ cl_nextsub cl1 = cl_nextsub cl.
Proof.
  unfold Model.dispatch, retain_ops. cbv zeta. intros H.
  destruct (pub_retain m); cbn [fold_left apply_op];
    match type of H with context [t_subscribers ?st ?t ?q] => destruct (t_subscribers st t q) end;
    inv H; split; reflexivity.
Qed.

Lemma retain_ops_domain m : good_name (p_topic m) = true -> forallb cop_in_domain (retain_ops m) = true.
Proof.
  intros GN. unfold retain_ops. destruct (pub_retain m); [|reflexivity].
  cbn [forallb cop_in_domain op_in_domain r_topic]. rewrite GN. reflexivity.
Qed.

Lemma retain_ops_abstract m a : fold_left ca_apply (retain_ops m) a = a.
Proof. unfold retain_ops. destruct (pub_retain m); reflexivity. Qed.

Lemma end_to_end : C20_end_to_end.
Proof.
  intros cl h m cl1 o T GN VQ H.
  destruct (dispatch_store cl m cl1 o H) as [S1 S2].
  assert (T1 : ctracks cl1 (h ++ retain_ops m))
    by (apply (ctracks_app cl h cl1 _ T); [exact S1 | apply retain_ops_domain; exact GN]).
  assert (A1 : ca_run (h ++ retain_ops m) = ca_run h)
    by (rewrite ca_run_app; apply retain_ops_abstract).
  destruct (dispatch cl m cl1 o H) as [C1 C2].
  split; [exact T1|]. split; [exact A1|]. split; [exact C1|]. split; [exact S2|].
  destruct T1 as [TS TD].
  destruct (store_subscribers _ (p_topic m) (pub_qos m) TD GN VQ) as (l & L1 & L2).
  rewrite TS, L1 in C2. rewrite C2. rewrite A1 in L2.
  eapply Permutation_trans; [apply Permutation_map; exact L2|].
  unfold a_subscribers, matching. rewrite map_map. cbn [fst]. apply Permutation_refl.
Qed.

Lemma dispatch_qos3 : C20_dispatch_qos3.
Proof.
  intros cl m cl1 o VQ H. unfold Model.dispatch in H. cbv zeta in H.
  unfold t_subscribers in H. rewrite VQ in H. cbn [negb] in H. inv H. reflexivity.
Qed.

(* ================= 4. sequences of events; C20 in plain words ================= *)

(* ---------- split_sep is injective ---------- *)

Fixpoint join (ls : list bytes) : bytes :=
  match ls with
  | [] => []
  | x :: r => match r with [] => x | _ => x ++ SEP :: join r end
  end.

Lemma split_acc_nonempty : forall t cur, split_acc t cur <> [].
Proof.
  induction t as [|c r IH]; intros cur; cbn [split_acc]; [discriminate|].
  destruct (c =? SEP); [discriminate | apply IH].
Qed.

Lemma join_split_acc : forall t cur, join (split_acc t cur) = rev cur ++ t.
Proof.
  induction t as [|c r IH]; intros cur; cbn [split_acc].
  - cbn [join]. rewrite app_nil_r. reflexivity.
  - destruct (c =? SEP) eqn:E.
    + apply N.eqb_eq in E. subst c.
      pose proof (IH []) as I0. pose proof (split_acc_nonempty r []) as NE.
      destruct (split_acc r []) as [|x xs]; [congruence|].
      change (join (rev cur :: x :: xs)) with (rev cur ++ SEP :: join (x :: xs)).
      rewrite I0. reflexivity.
    + rewrite IH. cbn [rev]. rewrite <- app_assoc. reflexivity.
Qed.

Lemma split_sep_inj : forall a b, split_sep a = split_sep b -> a = b.
Proof.
  intros a b H. pose proof (join_split_acc a []) as Ha. pose proof (join_split_acc b []) as Hb.
  unfold split_sep in H. rewrite H in Ha. cbn [rev app] in Ha, Hb. congruence.
Qed.

(* ---------- the abstract list under ca_apply ---------- *)

Lemma in_a_subscribe : forall a s f q e, In e (a_subscribe a s f q) -> e = (s, f, q) \/ In e a.
Proof.
  induction a as [|x a IH]; intros s f q e H.
  - destruct H as [H | []]. left. symmetry. exact H.
  - cbn [a_subscribe] in H. destruct (same_sub s f x).
    + destruct H as [H | H]; [left; symmetry; exact H | right; right; exact H].
    + destruct H as [H | H]; [right; left; exact H|].
      apply IH in H. destruct H as [H | H]; [left; exact H | right; right; exact H].
Qed.

Lemma a_subscribe_has : forall a s f q, In (s, f, q) (a_subscribe a s f q).
Proof.
  induction a as [|x a IH]; intros s f q; [left; reflexivity|].
  cbn [a_subscribe]. destruct (same_sub s f x); [left; reflexivity | right; apply IH].
Qed.

Definition holds (a : list asub) (s : sub) (lv : list bytes) : Prop := exists q, In (s, lv, q) a.

Lemma a_subscribe_keeps : forall a s f q s' lv, holds a s' lv -> holds (a_subscribe a s f q) s' lv.
Proof.
  induction a as [|x a IH]; intros s f q s' lv [q' H]; [destruct H|].
  cbn [a_subscribe]. destruct (same_sub s f x) eqn:E.
  - destruct H as [H | H].
    + subst x. apply same_sub_key in E. cbn [fst] in E. inv E. exists q. left. reflexivity.
    + exists q'. right. exact H.
  - destruct H as [H | H].
    + exists q'. left. exact H.
    + destruct (IH s f q s' lv (ex_intro _ q' H)) as [q'' H']. exists q''. right. exact H'.
Qed.

Lemma ca_apply_keeps : forall a o s lv,
  holds a s lv -> (forall t s', o = OUnsub t s' -> split_sep t <> lv) -> holds (ca_apply a o) s lv.
Proof.
  intros a [t c s1 | t s1 | m] s lv H Hn.
  - cbn [ca_apply a_apply]. destruct (valid_qos c && negb (s1 =? 0) && good_filter t); [|exact H].
    apply a_subscribe_keeps. exact H.
  - specialize (Hn t s1 eq_refl). destruct H as [q H].
    assert (K : forall p, (forall e, snd (fst e) <> split_sep t -> p e = true) -> holds (filter p a) s lv).
    { intros p Hp. exists q. apply filter_In. split; [exact H|]. apply Hp. cbn [fst snd]. congruence. }
    cbn [ca_apply]. destruct (s1 =? 0).
    + destruct (good_filter t); [|exists q; exact H].
      apply K. intros e He. apply samef_false in He. rewrite He. reflexivity.
    + cbn [a_apply]. destruct (negb (s1 =? 0) && good_filter t); [|exists q; exact H].
      unfold a_unsubscribe. destruct (existsb (same_sub s1 (split_sep t)) a); [|exists q; exact H].
      apply K. intros e He. unfold same_sub.
      destruct (beq_levels (snd (fst e)) (split_sep t)) eqn:E; [|rewrite andb_false_r; reflexivity].
      apply beq_levels_eq in E. contradiction.
  - exact H.
Qed.

Lemma ca_apply_adds : forall a t c s,
  valid_qos c = true -> s <> 0 -> good_filter t = true -> holds (ca_apply a (OSub t c s)) s (split_sep t).
Proof.
  intros a t c s Hc Hs Hg. cbn [ca_apply a_apply]. apply N.eqb_neq in Hs. rewrite Hc, Hs, Hg. cbn [negb andb].
  eexists. apply a_subscribe_has.
Qed.

Definition op_unsubs (f : bytes) (o : top_op) : bool :=
  match o with OUnsub t _ => beq_bytes t f | _ => false end.
Definition op_subs (f : bytes) (o : top_op) : bool :=
  match o with OSub t _ _ => beq_bytes t f | _ => false end.

Lemma fold_keeps : forall f s, s <> 0 -> good_filter f = true -> forall l a,
  existsb (op_unsubs f) l = false ->
  (holds a s (split_sep f) \/ exists c, In (OSub f c s) l /\ valid_qos c = true) ->
  holds (fold_left ca_apply l a) s (split_sep f).
Proof.
  intros f s Hs Hg. induction l as [|o l IH]; intros a Hu H.
  - destruct H as [H | (c & [] & _)]. exact H.
  - cbn [existsb] in Hu. apply orb_false_iff in Hu as [Hu1 Hu2]. cbn [fold_left].
    apply IH; [exact Hu2|]. destruct H as [H | (c & [H | H] & Hc)].
    + left. apply ca_apply_keeps; [exact H|]. intros t s' Eo. subst o. cbn [op_unsubs] in Hu1.
      apply beq_bytes_neq in Hu1. intro E. apply split_sep_inj in E. contradiction.
    + left. subst o. apply ca_apply_adds; assumption.
    + right. exists c. split; assumption.
Qed.

(* a property of the keys (subscriber, filter levels) of all entries is kept by every operation that does
   not subscribe a key violating it *)
Lemma ca_apply_Forall (Q : sub -> list bytes -> Prop) : forall a o,
  Forall (fun e => Q (fst (fst e)) (snd (fst e))) a ->
  (forall t c s, o = OSub t c s -> Q s (split_sep t)) ->
  Forall (fun e => Q (fst (fst e)) (snd (fst e))) (ca_apply a o).
Proof.
  intros a [t c s | t s | m] H Ho.
  - cbn [ca_apply a_apply]. destruct (valid_qos c && negb (s =? 0) && good_filter t); [|exact H].
    apply Forall_forall. intros e He. apply in_a_subscribe in He. destruct He as [He | He].
    + subst e. cbn [fst snd]. apply (Ho t c s eq_refl).
    + rewrite Forall_forall in H. apply H. exact He.
  - cbn [ca_apply]. destruct (s =? 0).
    + destruct (good_filter t); [|exact H].
      eapply incl_Forall; [apply incl_filter | exact H].
    + cbn [a_apply]. destruct (negb (s =? 0) && good_filter t); [|exact H].
      unfold a_unsubscribe. destruct (existsb (same_sub s (split_sep t)) a); [|exact H].
      eapply incl_Forall; [apply incl_filter | exact H].
  - exact H.
Qed.

Lemma fold_Forall (Q : sub -> list bytes -> Prop) : forall l a,
  Forall (fun e => Q (fst (fst e)) (snd (fst e))) a ->
  (forall t c s, In (OSub t c s) l -> Q s (split_sep t)) ->
  Forall (fun e => Q (fst (fst e)) (snd (fst e))) (fold_left ca_apply l a).
Proof.
  induction l as [|o l IH]; intros a H Hl; [exact H|].
  cbn [fold_left]. apply IH.
  - apply ca_apply_Forall; [exact H|]. intros t c s E. apply (Hl t c s). left. exact E.
  - intros t c s Hin. apply (Hl t c s). right. exact Hin.
Qed.

Definition nof (lv : list bytes) (a : list asub) : Prop := Forall (fun e => snd (fst e) <> lv) a.

Lemma ca_apply_removes : forall a f, good_filter f = true -> nof (split_sep f) (ca_apply a (OUnsub f 0)).
Proof.
  intros a f Hg. cbn [ca_apply]. change (0 =? 0) with true. cbv iota. rewrite Hg.
  apply Forall_forall. intros e He. apply filter_In in He as [_ He].
  apply samef_false. destruct (samef (split_sep f) e); [discriminate | reflexivity].
Qed.

Lemma op_subs_neq : forall f l, existsb (op_subs f) l = false ->
  forall t c s, In (OSub t c s) l -> split_sep t <> split_sep f.
Proof.
  intros f l H t c s Hin E. apply split_sep_inj in E. subst t.
  assert (X : existsb (op_subs f) l = true)
    by (apply existsb_exists; exists (OSub f c s); split; [exact Hin | apply beq_bytes_refl]).
  congruence.
Qed.

Lemma fold_nof : forall f, good_filter f = true -> forall l a,
  existsb (op_subs f) l = false ->
  (nof (split_sep f) a \/ In (OUnsub f 0) l) ->
  nof (split_sep f) (fold_left ca_apply l a).
Proof.
  intros f Hg. induction l as [|o l IH]; intros a Hs H.
  - destruct H as [H | []]. exact H.
  - pose proof (op_subs_neq f _ Hs) as Hne.
    cbn [existsb] in Hs. apply orb_false_iff in Hs as [Hs1 Hs2]. cbn [fold_left].
    apply IH; [exact Hs2|]. destruct H as [H | [H | H]].
    + left. apply (ca_apply_Forall (fun _ lv => lv <> split_sep f)); [exact H|].
      intros t c s E. apply (Hne t c s). left. exact E.
    + left. subst o. apply ca_apply_removes. exact Hg.
    + right. exact H.
Qed.

(* ---------- the operations of events ---------- *)

Lemma granted_ops_unsubs f s ts : forall codes, existsb (op_unsubs f) (granted_ops s ts codes) = false.
Proof.
  induction ts as [|t ts IH]; intros codes; [reflexivity|]. destruct codes as [|c cs]; [reflexivity|].
  rewrite granted_ops_cons, existsb_app, IH, orb_false_r. destruct (c =? QosFailure); reflexivity.
Qed.

Lemma granted_ops_subs f s ts : forall codes,
  existsb (op_subs f) (granted_ops s ts codes) =
  existsb (fun tc => beq_bytes (fst tc) f && negb (snd tc =? QosFailure)) (combine ts codes).
Proof.
  induction ts as [|t ts IH]; intros codes; [reflexivity|]. destruct codes as [|c cs]; [reflexivity|].
  rewrite granted_ops_cons, existsb_app, IH. cbn [combine existsb fst snd]. f_equal.
  destruct (c =? QosFailure); cbn [existsb op_subs negb].
  - rewrite andb_false_r. reflexivity.
  - rewrite andb_true_r, orb_false_r. reflexivity.
Qed.

Lemma granted_ops_in s ts : forall codes t c s',
  In (OSub t c s') (granted_ops s ts codes) -> s' = s /\ In (t, c) (combine ts codes).
Proof.
  induction ts as [|t0 ts IH]; intros codes t c s' H; [destruct H|]. destruct codes as [|c0 cs]; [destruct H|].
  rewrite granted_ops_cons in H. apply in_app_or in H. destruct H as [H | H].
  - destruct (c0 =? QosFailure); [destruct H|]. destruct H as [H | []]. inv H. split; [reflexivity | left; reflexivity].
  - apply IH in H. destruct H as [H1 H2]. split; [exact H1 | right; exact H2].
Qed.

Lemma granted_ops_has s ts : forall codes t c,
  In (t, c) (combine ts codes) -> (c =? QosFailure) = false -> In (OSub t c s) (granted_ops s ts codes).
Proof.
  induction ts as [|t0 ts IH]; intros codes t c H Hc; [destruct H|]. destruct codes as [|c0 cs]; [destruct H|].
  rewrite granted_ops_cons. apply in_or_app. destruct H as [H | H].
  - inv H. rewrite Hc. left. left. reflexivity.
  - right. apply IH; assumption.
Qed.

Lemma unsub_ops_unsubs f ts : existsb (op_unsubs f) (unsub_ops ts) = existsb (fun t => beq_bytes t f) ts.
Proof. induction ts as [|t ts IH]; [reflexivity|]. cbn [unsub_ops map existsb op_unsubs]. fold (unsub_ops ts). rewrite IH. reflexivity. Qed.

Lemma unsub_ops_subs f ts : existsb (op_subs f) (unsub_ops ts) = false.
Proof. induction ts as [|t ts IH]; [reflexivity|]. exact IH. Qed.

Lemma unsub_ops_no_sub ts : forall t c s, ~ In (OSub t c s) (unsub_ops ts).
Proof. intros t c s H. unfold unsub_ops in H. apply in_map_iff in H as (x & Hx & _). discriminate. Qed.

Lemma retain_ops_no_sub m : forall t c s, ~ In (OSub t c s) (retain_ops m).
Proof. intros t c s H. unfold retain_ops in H. destruct (pub_retain m); [destruct H as [H | []]; discriminate | destruct H]. Qed.

Lemma ev_ops_unsubs f n ev : existsb (op_unsubs f) (ev_ops n ev) = unsub_names f ev.
Proof.
  destruct ev as [cb ts codes | ts | m]; cbn [ev_ops unsub_names].
  - apply granted_ops_unsubs.
  - apply unsub_ops_unsubs.
  - unfold retain_ops. destruct (pub_retain m); reflexivity.
Qed.

Lemma ev_ops_subs f n ev : existsb (op_subs f) (ev_ops n ev) = sub_grants f ev.
Proof.
  destruct ev as [cb ts codes | ts | m]; cbn [ev_ops sub_grants].
  - apply granted_ops_subs.
  - apply unsub_ops_subs.
  - unfold retain_ops. destruct (pub_retain m); reflexivity.
Qed.

Lemma evs_ops_unsubs f evs : forall n,
  existsb (unsub_names f) evs = false -> existsb (op_unsubs f) (evs_ops n evs) = false.
Proof.
  induction evs as [|ev evs IH]; intros n H; [reflexivity|].
  cbn [existsb] in H. apply orb_false_iff in H as [H1 H2].
  cbn [evs_ops]. rewrite existsb_app, ev_ops_unsubs, H1, (IH _ H2). reflexivity.
Qed.

Lemma evs_ops_subs f evs : forall n,
  existsb (sub_grants f) evs = false -> existsb (op_subs f) (evs_ops n evs) = false.
Proof.
  induction evs as [|ev evs IH]; intros n H; [reflexivity|].
  cbn [existsb] in H. apply orb_false_iff in H as [H1 H2].
  cbn [evs_ops]. rewrite existsb_app, ev_ops_subs, H1, (IH _ H2). reflexivity.
Qed.

Lemma ev_next_ge n ev : n <= ev_next n ev.
Proof. destruct ev; cbn [ev_next]; lia. Qed.

(* later completions register under later subscriber ids *)
Lemma evs_ops_sub_ge evs : forall n t c s, In (OSub t c s) (evs_ops n evs) -> n <= s.
Proof.
  induction evs as [|ev evs IH]; intros n t c s H; [destruct H|].
  cbn [evs_ops] in H. apply in_app_or in H. destruct H as [H | H].
  - destruct ev as [cb ts codes | ts | m]; cbn [ev_ops] in H.
    + apply granted_ops_in in H. destruct H as [H _]. subst s. lia.
    + exfalso. exact (unsub_ops_no_sub _ _ _ _ H).
    + exfalso. exact (retain_ops_no_sub _ _ _ _ H).
  - apply IH in H. pose proof (ev_next_ge n ev). lia.
Qed.

(* ---------- steps ---------- *)

Lemma cb_of_subcb cl cl1 s : cl_subcb cl1 = cl_subcb cl -> cb_of cl1 s = cb_of cl s.
Proof. intros H. unfold cb_of. rewrite H. reflexivity. Qed.

Lemma cstep_tracks cl h ev cl1 o :
  ctracks cl h -> cstep cl ev cl1 o ->
  ctracks cl1 (h ++ ev_ops (cl_nextsub cl) ev) /\ cl_nextsub cl1 = ev_next (cl_nextsub cl) ev /\
  (forall s, s < cl_nextsub cl -> cb_of cl1 s = cb_of cl s).
Proof.
  intros T H. destruct H as [cl e sm n1 sa n2 cl1 o HT HS HA HL HD H | cl e um n1 hd n2 cl1 o HT HU HA HD H | cl m cl1 o GN VQ H];
    cbn [ev_ops ev_next].
  - split; [exact (suback_tracks cl h e sm n1 sa n2 cl1 o T HT HS HA HL HD H)|].
    destruct (suback_registers cl e sm n1 sa n2 cl1 o HT HS HA HL H) as (_ & _ & R3 & R4).
    split; [exact R4|]. intros s Hs. apply R3. lia.
  - destruct (unsuback_tracks cl h e um n1 hd n2 cl1 o T HT HU HA HD H) as (R1 & R2 & R3).
    split; [exact R1|]. split; [exact R3|]. intros s _. apply cb_of_subcb. exact R2.
  - destruct (end_to_end cl h m cl1 o T GN VQ H) as (R1 & _ & R2 & R3 & _).
    split; [exact R1|]. split; [exact R3|]. intros s _. apply cb_of_subcb. exact R2.
Qed.

Lemma steps_track_cb : forall cl evs cl2, csteps cl evs cl2 -> forall h,
  ctracks cl h ->
  ctracks cl2 (h ++ evs_ops (cl_nextsub cl) evs) /\ cl_nextsub cl <= cl_nextsub cl2 /\
  (forall s, s < cl_nextsub cl -> cb_of cl2 s = cb_of cl s).
Proof.
  intros cl evs cl2 H. induction H as [cl | cl ev cl1 o evs cl2 H1 H2 IH]; intros h T.
  - cbn [evs_ops]. rewrite app_nil_r. split; [exact T|]. split; [lia | reflexivity].
  - destruct (cstep_tracks cl h ev cl1 o T H1) as (T1 & N1 & C1).
    destruct (IH _ T1) as (T2 & N2 & C2). pose proof (ev_next_ge (cl_nextsub cl) ev) as G.
    cbn [evs_ops]. rewrite app_assoc, <- N1. split; [exact T2|]. split; [lia|].
    intros s Hs. rewrite C2 by lia. apply C1. exact Hs.
Qed.

Lemma steps_track : C20_steps_track.
Proof.
  intros cl h evs cl2 T H. destruct (steps_track_cb cl evs cl2 H h T) as (R1 & R2 & _). split; assumption.
Qed.

(* ---------- C20 in plain words ---------- *)

Lemma valid_qos_not_failure c : valid_qos c = true -> (c =? QosFailure) = false.
Proof. unfold valid_qos, QosFailure. intros H. apply N.ltb_lt in H. apply N.eqb_neq. lia. Qed.

Lemma callback_while_subscribed : C20_callback_while_subscribed.
Proof.
  intros cl h cb ts codes cl1 o1 f c evs cl2 m cl3 o T N0 S1 Hin Hg Hc SS Hu SP Hm.
  set (s := cl_nextsub cl) in *.
  destruct (cstep_tracks cl h _ cl1 o1 T S1) as (T1 & N1 & _). cbn [ev_ops ev_next] in T1, N1. fold s in T1, N1.
  assert (CB : cb_of cl1 s = cb).
  { inversion S1 as [cl' e sm n1 sa n2 cl1' o' HT HS HA HL HD H E1 E2 E3 E4 | |]. subst.
    destruct (suback_registers cl e sm n1 sa n2 cl1 o1 HT HS HA HL H) as (_ & R2 & _). exact R2. }
  destruct (steps_track_cb cl1 evs cl2 SS _ T1) as (T2 & N2 & C2).
  rewrite N1 in T2, C2.
  assert (CB2 : cb_of cl2 s = cb) by (rewrite C2 by lia; exact CB).
  set (h2 := (h ++ granted_ops s ts codes) ++ evs_ops (s + 1) evs) in *.
  assert (Hh : holds (ca_run h2) s (split_sep f)).
  { unfold h2. rewrite !ca_run_app.
    apply (fold_keeps f s N0 Hg); [apply evs_ops_unsubs; exact Hu|]. left.
    apply (fold_keeps f s N0 Hg); [apply granted_ops_unsubs|]. right.
    exists c. split; [|exact Hc]. apply granted_ops_has; [exact Hin | apply valid_qos_not_failure; exact Hc]. }
  destruct Hh as [q Hq].
  inversion SP as [ | | cl' m' cl3' o' GN VQ H E1 E2 E3 E4]. subst.
  destruct (end_to_end cl2 h2 m cl3 o T2 GN VQ H) as (_ & _ & _ & _ & P).
  apply (Permutation_in _ (Permutation_sym P)).
  rewrite <- CB2.
  apply (in_map (fun e => Some (cb_of cl2 (fst (fst e)), p_topic m, p_payload m)) _ (s, split_sep f, q)).
  unfold matching. apply filter_In. split; [exact Hq | exact Hm].
Qed.

Lemma no_callback_after_unsubscribe : C20_no_callback_after_unsubscribe.
Proof.
  intros cl h ts cl1 o1 f evs cl2 m cl3 o T S1 Hin Hg SS Hs SP.
  destruct (cstep_tracks cl h _ cl1 o1 T S1) as (T1 & N1 & _). cbn [ev_ops ev_next] in T1, N1.
  destruct (steps_track_cb cl1 evs cl2 SS _ T1) as (T2 & _ & _).
  set (h2 := (h ++ unsub_ops ts) ++ evs_ops (cl_nextsub cl1) evs) in *.
  inversion SP as [ | | cl' m' cl3' o' GN VQ H E1 E2 E3 E4]. subst.
  destruct (end_to_end cl2 h2 m cl3 o T2 GN VQ H) as (_ & _ & _ & _ & P).
  exists h2, (matching (ca_run h2) (p_topic m)).
  split; [exact T2|]. split; [reflexivity|]. split; [exact P|].
  unfold h2. rewrite !ca_run_app.
  apply (fold_nof f Hg); [apply evs_ops_subs; exact Hs|]. left.
  apply (fold_nof f Hg); [apply unsub_ops_subs|]. right.
  unfold unsub_ops. apply (in_map (fun t => OUnsub t 0)). exact Hin.
Qed.

Lemma single_filter_silenced : C20_single_filter_silenced.
Proof.
  intros cl h cb f c cl1 o1 evs cl2 ts cl3 o2 evs' cl4 m cl5 o T FR S1 SS S2 Hin Hg SS' SP.
  set (s := cl_nextsub cl) in *.
  destruct (cstep_tracks cl h _ cl1 o1 T S1) as (T1 & N1 & _). cbn [ev_ops ev_next] in T1, N1. fold s in T1, N1.
  destruct (steps_track_cb cl1 evs cl2 SS _ T1) as (T2 & N2 & _). rewrite N1 in T2, N2.
  destruct (cstep_tracks cl2 _ _ cl3 o2 T2 S2) as (T3 & N3 & _). cbn [ev_ops ev_next] in T3, N3.
  destruct (steps_track_cb cl3 evs' cl4 SS' _ T3) as (T4 & _ & _). rewrite N3 in T4.
  set (h4 := (((h ++ granted_ops s [f] [c]) ++ evs_ops (s + 1) evs) ++ unsub_ops ts) ++ evs_ops (cl_nextsub cl2) evs') in *.
  inversion SP as [ | | cl' m' cl5' o' GN VQ H E1 E2 E3 E4]. subst.
  destruct (end_to_end cl4 h4 m cl5 o T4 GN VQ H) as (_ & _ & _ & _ & P).
  exists h4. split; [exact T4|]. split; [|exact P].
  (* up to the UNSUBSCRIBE: the subscriber id holds at most the filter f *)
  assert (P2 : Forall (fun e => fst (fst e) = s -> snd (fst e) = split_sep f)
                      (ca_run ((h ++ granted_ops s [f] [c]) ++ evs_ops (s + 1) evs))).
  { rewrite !ca_run_app.
    apply (fold_Forall (fun s' lv => s' = s -> lv = split_sep f)).
    - apply (fold_Forall (fun s' lv => s' = s -> lv = split_sep f)).
      + eapply Forall_impl; [|exact FR]. intros e He E. contradiction.
      + intros t c' s' Hi _. apply granted_ops_in in Hi. destruct Hi as [_ [Hi | []]]. inv Hi. reflexivity.
    - intros t c' s' Hi E. apply evs_ops_sub_ge in Hi. lia. }
  (* the UNSUBSCRIBE: nothing is left of f, hence nothing of the subscriber id *)
  assert (P3 : Forall (fun e => fst (fst e) <> s)
                      (ca_run (((h ++ granted_ops s [f] [c]) ++ evs_ops (s + 1) evs) ++ unsub_ops ts))).
  { rewrite (ca_run_app _ (unsub_ops ts)).
    assert (A : nof (split_sep f) (fold_left ca_apply (unsub_ops ts) (ca_run ((h ++ granted_ops s [f] [c]) ++ evs_ops (s + 1) evs)))).
    { apply (fold_nof f Hg); [apply unsub_ops_subs|]. right.
      unfold unsub_ops. apply (in_map (fun t => OUnsub t 0)). exact Hin. }
    assert (B : Forall (fun e => fst (fst e) = s -> snd (fst e) = split_sep f)
                       (fold_left ca_apply (unsub_ops ts) (ca_run ((h ++ granted_ops s [f] [c]) ++ evs_ops (s + 1) evs)))).
    { apply (fold_Forall (fun s' lv => s' = s -> lv = split_sep f)); [exact P2|].
      intros t c' s' Hi. exfalso. exact (unsub_ops_no_sub _ _ _ _ Hi). }
    unfold nof in A. rewrite Forall_forall in A, B. apply Forall_forall. intros e He E.
    exact (A e He (B e He E)). }
  unfold h4. rewrite (ca_run_app _ (evs_ops (cl_nextsub cl2) evs')).
  apply (fold_Forall (fun s' _ => s' <> s)); [exact P3|].
  intros t c' s' Hi E. apply evs_ops_sub_ge in Hi. lia.
Qed.

Lemma once_per_subscription_only : C20_once_per_subscription_only.
Proof. vm_compute. split; reflexivity. Qed.

(* ---------- the steps are inhabited ---------- *)

(* the hypotheses of cstep can be met together: Subscribe("a/+", QoS 0, callback 101) through the API, the
   completion of its queue entry with the SUBACK bytes, a PUBLISH on "a/b", the completion of
   Unsubscribe("a/+"), the same PUBLISH again.  The callback is invoked once, then not at all *)
Definition ex_cl0 : client := fst (fst (c_subscribe client0 5 1 101 [([97;47;43], 0)])).
Definition ex_e1 : entry := mkE T_SUBSCRIBE T_SUBACK 5 [130;8;0;5;0;3;97;47;43;0] [144;3;0;5;0] 1.
Definition ex_e2 : entry := mkE T_UNSUBSCRIBE T_UNSUBACK 7 [162;7;0;7;0;3;97;47;43] [176;2;0;7] 2.
Definition ex_m : pubmsg := match pub_decode pub_new [48;6;0;3;97;47;98;49] with Ok (m, _) => m | _ => pub_new end.
Definition ex_cl1 : client := fst (complete ex_cl0 ex_e1).
Definition ex_cl2 : client := fst (Model.dispatch ex_cl1 ex_m).
Definition ex_cl3 : client := fst (complete ex_cl2 ex_e2).

Example steps_inhabited :
  cstep ex_cl0 (EvSuback 101 [[97;47;43]] [0]) ex_cl1 (snd (complete ex_cl0 ex_e1)) /\
  cstep ex_cl1 (EvPublish ex_m) ex_cl2 (snd (Model.dispatch ex_cl1 ex_m)) /\
  cstep ex_cl2 (EvUnsuback [[97;47;43]]) ex_cl3 (snd (complete ex_cl2 ex_e2)) /\
  cstep ex_cl3 (EvPublish ex_m) (fst (Model.dispatch ex_cl3 ex_m)) (snd (Model.dispatch ex_cl3 ex_m)) /\
  map pub_call (snd (Model.dispatch ex_cl1 ex_m)) = [Some (101, [97;47;98], [49])] /\
  map pub_call (snd (Model.dispatch ex_cl3 ex_m)) = [].
Proof.
  split; [|split; [|split; [|split; [|split]]]].
  - pose (sm := match sub_decode sub_new (e_msg ex_e1) with Ok (x, _) => x | _ => sub_new end).
    pose (n1 := match sub_decode sub_new (e_msg ex_e1) with Ok (_, n) => n | _ => O end).
    pose (sa := match suback_decode suback_new (e_ack ex_e1) with Ok (x, _) => x | _ => suback_new end).
    pose (n2 := match suback_decode suback_new (e_ack ex_e1) with Ok (_, n) => n | _ => O end).
    assert (HS : sub_decode sub_new (e_msg ex_e1) = Ok (sm, n1)) by (vm_compute; reflexivity).
    assert (HA : suback_decode suback_new (e_ack ex_e1) = Ok (sa, n2)) by (vm_compute; reflexivity).
    assert (HL : length (s_topics sm) = length (sa_codes sa)) by (vm_compute; reflexivity).
    assert (HD : forallb (fun t => good_filter t || refused t) (s_topics sm) = true) by (vm_compute; reflexivity).
    exact (step_suback ex_cl0 ex_e1 sm n1 sa n2 _ _ eq_refl HS HA HL HD (surjective_pairing _)).
  - apply step_publish; [vm_compute; reflexivity | vm_compute; reflexivity | apply surjective_pairing].
  - pose (um := match unsub_decode unsub_new (e_msg ex_e2) with Ok (x, _) => x | _ => unsub_new end).
    pose (n1 := match unsub_decode unsub_new (e_msg ex_e2) with Ok (_, n) => n | _ => O end).
    pose (hd := match ack_decode (ack_new (e_state ex_e2)) (e_ack ex_e2) with Ok (x, _) => x | _ => ack_new 0 end).
    pose (n2 := match ack_decode (ack_new (e_state ex_e2)) (e_ack ex_e2) with Ok (_, n) => n | _ => O end).
    assert (HU : unsub_decode unsub_new (e_msg ex_e2) = Ok (um, n1)) by (vm_compute; reflexivity).
    assert (HA : ack_decode (ack_new (e_state ex_e2)) (e_ack ex_e2) = Ok (hd, n2)) by (vm_compute; reflexivity).
    assert (HD : forallb (fun t => good_filter t || refused t) (u_topics um) = true) by (vm_compute; reflexivity).
    exact (step_unsuback ex_cl2 ex_e2 um n1 hd n2 _ _ eq_refl HU HA HD (surjective_pairing _)).
  - apply step_publish; [vm_compute; reflexivity | vm_compute; reflexivity | apply surjective_pairing].
  - vm_compute. reflexivity.
  - vm_compute. reflexivity.
Qed.

Print Assumptions store_subscribers.
Print Assumptions history_conservative.
Print Assumptions unsubscribe_all_result.
Print Assumptions unsubscribe_all_result_not_exact.
Print Assumptions suback_tracks_granted.
Print Assumptions suback_tracks.
Print Assumptions granted_abstract.
Print Assumptions unsuback_tracks.
Print Assumptions unsub_abstract.
Print Assumptions end_to_end.
Print Assumptions dispatch_qos3.
Print Assumptions steps_track.
Print Assumptions callback_while_subscribed.
Print Assumptions no_callback_after_unsubscribe.
Print Assumptions single_filter_silenced.
Print Assumptions once_per_subscription_only.
Print Assumptions steps_inhabited.
