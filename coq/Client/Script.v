(* Event scripts over the client model (see Client/Model.v).
   header [bufsize]; events:
     [0; bytes...]                              Connect: the bytes the server answers the CONNECT with
     [1; pid; done; pubcb; n; (q; len; filter...)*]   Subscribe
     [2; pid; done; n; (len; filter...)*]             Unsubscribe
     [3; q; retain; pid; done; tlen; topic...; payload...]   Publish
     [4; done]                                  Ping, answered by the server at once
     [5; bytes...]                              bytes from the server
     [6; q; pid; done; tlen; topic...]          Publish whose acknowledgement is processed before the
                                                sending call has registered the request (forced window)
   observation: [ok] ++ packets written ([1; len; bytes...]) ++ callbacks in order
   ([2; cb; flags; tlen; topic; plen; payload] publish callback, runs sorted; [3; cb; ack; err] completion; [4] closed) *)
From Base Require Import Tactics Bytes.
From Gen Require Import Tables.
From Codec Require Import Wire Impl Script.
From Topics Require Import Model Script.
From Proto Require Import Broker Script.
From Client Require Import Model.
Open Scope N_scope.

Fixpoint take_filters (n : nat) (withq : bool) (l : list N) : list (bytes * N) :=
  match n with
  | O => []
  | S k =>
      if withq then
        match l with
        | q :: ln :: r => (firstn (N.to_nat ln) r, q) :: take_filters k withq (skipn (N.to_nat ln) r)
        | _ => []
        end
      else
        match l with
        | ln :: r => (firstn (N.to_nat ln) r, 0) :: take_filters k withq (skipn (N.to_nat ln) r)
        | _ => []
        end
  end.

Definition enc_cb (x : cout) : list bytes :=
  match x with
  | CPub cb fl t p => [[2; cb; fl; len t] ++ t ++ [len p] ++ p]
  | _ => []
  end.

(* callbacks in order, runs of consecutive publish callbacks sorted (map order of the private store) *)
Fixpoint canon_cbs (l : list cout) (run : list bytes) : list N :=
  match l with
  | [] => concat (sort_bytes run)
  | CPub cb fl t p :: r => canon_cbs r (([2; cb; fl; len t] ++ t ++ [len p] ++ p) :: run)
  | CDone cb a e :: r => concat (sort_bytes run) ++ [3; cb; a; if e then 1 else 0] ++ canon_cbs r []
  | CClosed :: r => concat (sort_bytes run) ++ [4] ++ canon_cbs r []
  | CPkt _ :: r => canon_cbs r run
  end.

Definition canon_c (ok : bool) (o : list cout) : list N :=
  (if ok then 0 else 1)
  :: flat_map (fun x => match x with CPkt b => [1; len b] ++ b | _ => [] end) o
  ++ canon_cbs o [].

Definition c_event (bufsize : N) (cl : client) (ev : list N) : client * list N :=
  match ev with
  | 1 :: pid :: done :: pubcb :: n :: rest =>
      let '(cl1, o, ok) := c_subscribe cl pid done pubcb (take_filters (N.to_nat n) true rest) in (cl1, canon_c ok o)
  | 2 :: pid :: done :: n :: rest =>
      let '(cl1, o, ok) := c_unsubscribe cl pid done (map fst (take_filters (N.to_nat n) false rest)) in (cl1, canon_c ok o)
  | 3 :: q :: ret :: pid :: done :: tl :: rest =>
      let '(cl1, o, ok) := c_publish cl q (negb (ret =? 0)) pid done (firstn (N.to_nat tl) rest) (skipn (N.to_nat tl) rest) bufsize [] in
      (cl1, canon_c ok o)
  | [4; done] =>
      let '(cl1, o1, ok) := c_ping cl done in
      let '(cl2, o2, _) := cproc 3 bufsize cl1 [208; 0] in
      (cl2, canon_c ok (o1 ++ o2))
  | 5 :: b =>
      let '(cl1, o, _) := cproc (S (length b)) bufsize cl b in (cl1, canon_c true o)
  | 6 :: q :: pid :: done :: tl :: topic =>
      let early := (if q =? 1 then 64 else 80) :: 2 :: be16 pid in
      let '(cl1, o, ok) := c_publish cl q false pid done topic [119] bufsize early in
      (cl1, canon_c ok o)
  | _ => (cl, [99])
  end.

Fixpoint c_run (bufsize : N) (cl : client) (evs : list (list N)) : list (list N) :=
  match evs with
  | [] => []
  | ev :: r =>
      if cl_open cl then let '(cl1, o) := c_event bufsize cl ev in o :: c_run bufsize cl1 r
      else [[98]]
  end.

Definition run_client (hd : list N) (evs : list (list N)) : list (list N) :=
  match hd, evs with
  | [bufsize], (0 :: b) :: r =>
      match connect_result b with
      | ConnOk rest =>
          let '(cl1, o, _) := cproc (S (length rest)) bufsize client0 rest in
          canon_c true o :: c_run bufsize cl1 r
      | ConnRefused code => [[1; code]]
      | ConnError => [[2]]
      end
  | _, _ => [[98]]
  end.
