(* Extraction of the executable models to OCaml for the correspondence check.
   ExtrOcamlBasic only (bool, option, unit, prod, list, sumbool, sumor mapped to OCaml's);
   N, positive, Z, nat stay the extracted Coq datatypes; no Extract Constant. *)
From Coq Require Extraction ExtrOcamlBasic.
From Codec Require Script.
From Topics Require Script.
From Ackq Require Model.
From Ring Require Seq LiveScript.
From Proto Require Script.
From Client Require Script.
Extraction "model.ml" Codec.Script.run_codec Topics.Script.run_topics Ackq.Model.run_ackq Ring.Seq.run_ring
  Ring.LiveScript.run_live Proto.Script.run_broker Client.Script.run_client.
