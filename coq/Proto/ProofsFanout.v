(* C01: the fan-out of an accepted PUBLISH (C01_fanout, C01_fanout_store).

   By induction over the subscriber list the topic store reports: every step sets the QoS computed
   for that subscriber and writes the message once (C01_forward_roundtrip: the written packet reads
   back as the same topic, a byte-identical payload, that QoS, retain 0 and the publisher's dup
   flag), or hands the fields to an in-process subscriber; the message that goes on to the next
   subscriber is again a forwarded message that can be written.  Before the loop an accepted
   message with the retain flag is stored (retain_msg), which writes it once and changes neither
   its fields nor the subscription tree. *)
From Base Require Import Tactics Bytes.
From Gen Require Import Tables.
From Codec Require Import Wire Impl Script Statements ProofsHeader ProofsEncode.
From Topics Require Import Model.
From Proto Require Import Broker Props ProofsForward.
Open Scope N_scope.


(* ---------- the QoS the topic store reports is at most the message's, so a valid one ---------- *)

Fixpoint kids_match (l : bytes) (f : snode -> option (list (sub * N))) (q : N)
  (ks : list (bytes * snode)) : option (list (sub * N)) :=
  match ks with
  | [] => Some []
  | (k, c) :: ks' =>
      let here :=
        if beq_bytes k [MWC] then Some (match_qos q c)
        else if beq_bytes k [SWC] || beq_bytes k l then f c
        else Some [] in
      match here, kids_match l f q ks' with
      | Some a, Some b => Some (a ++ b)
      | _, _ => None
      end
  end.

Lemma smatch_cons_k : forall l r bad q n,
  smatch (l :: r) bad q n = kids_match l (smatch r bad q) q (s_kids n).
Proof.
  intros l r bad q n. cbn [smatch].
  induction (s_kids n) as [|[k c] ks IH]; [reflexivity|].
  cbn [kids_match]. rewrite <- IH. reflexivity.
Qed.

Lemma match_qos_le q n : Forall (fun sq : sub * N => snd sq <= q) (match_qos q n).
Proof.
  unfold match_qos. apply Forall_forall. intros x Hx.
  apply in_map_iff in Hx as (y & <- & _). cbn [snd].
  destruct (snd y <? q) eqn:E; lia.
Qed.

Lemma kids_match_le l f q : (forall c r, f c = Some r -> Forall (fun sq : sub * N => snd sq <= q) r) ->
  forall ks r, kids_match l f q ks = Some r -> Forall (fun sq : sub * N => snd sq <= q) r.
Proof.
  intros Hf. induction ks as [|[k c] ks IH]; intros r H.
  - injection H as <-. constructor.
  - cbn [kids_match] in H.
    destruct (kids_match l f q ks) as [b|] eqn:EK.
    2: { destruct (beq_bytes k [MWC]); [discriminate H|].
         destruct (beq_bytes k [SWC] || beq_bytes k l); [destruct (f c); discriminate H|discriminate H]. }
    specialize (IH b eq_refl).
    destruct (beq_bytes k [MWC]).
    + injection H as <-. apply Forall_app. split; [apply match_qos_le|exact IH].
    + destruct (beq_bytes k [SWC] || beq_bytes k l).
      * destruct (f c) as [a|] eqn:EF; [|discriminate H]. injection H as <-.
        apply Forall_app. split; [exact (Hf c a EF)|exact IH].
      * injection H as <-. exact IH.
Qed.

Lemma smatch_le ls : forall bad q n r,
  smatch ls bad q n = Some r -> Forall (fun sq : sub * N => snd sq <= q) r.
Proof.
  induction ls as [|l ls IH]; intros bad q n r H.
  - cbn [smatch] in H. destruct bad; [discriminate H|]. injection H as <-.
    apply Forall_app. split; [apply match_qos_le|].
    destruct (find_kid [MWC] (s_kids n)); [apply match_qos_le|constructor].
  - rewrite smatch_cons_k in H.
    apply (kids_match_le l (smatch ls bad q) q) with (ks := s_kids n); [|exact H].
    intros c r' Hc. exact (IH bad q c r' Hc).
Qed.

Lemma t_subscribers_lt3 st t q subs :
  t_subscribers st t q = Some subs -> Forall (fun sq : sub * N => snd sq < 3) subs.
Proof.
  unfold t_subscribers, valid_qos. intros H.
  destruct (negb (q <? 3)) eqn:EQ; [discriminate H|].
  destruct (levels_lazy t) as [ls bad].
  apply smatch_le in H. eapply Forall_impl; [|exact H].
  cbv beta. intros a Ha. lia.
Qed.

(* ---------- the setters of the loop ---------- *)

Lemma enc_ok_tp m m' :
  p_topic m' = p_topic m -> p_payload m' = p_payload m -> packet_id (p_h m') = packet_id (p_h m) ->
  enc_ok m -> enc_ok m'.
Proof.
  intros T Y P (E1 & E2 & E3 & E4 & E5). unfold enc_ok. rewrite T, Y, P. repeat split; assumption.
Qed.

Lemma set_qos_ok m v : pubtf (tf (p_h m)) = true -> v < 3 ->
  exists m', pub_set_qos m v = Some m'
    /\ fields_of m' = mkPF (p_topic m) (p_payload m) v (pub_retain m) (pub_dup m)
    /\ p_topic m' = p_topic m /\ p_payload m' = p_payload m
    /\ packet_id (p_h m') = packet_id (p_h m).
Proof.
  intros IT HV. destruct (tf_qos _ v IT HV) as (Q1 & Q2 & Q3 & Q4).
  unfold pub_set_qos. destruct (negb (v <? 3)) eqn:EV; [lia|].
  eexists. split; [reflexivity|].
  unfold fields_of, pub_qos, pub_retain, pub_dup, h_flags, packet_id.
  destruct (Bool.eqb (0 <? publish_qos_of_flags (tf (p_h m) mod 16)) (0 <? v));
    cbn [with_h p_h p_topic p_payload h_dirty set_tf tf pid];
    fold (qf (N.lor (N.land (tf (p_h m)) 249) (v * 2))); rewrite Q2, Q3, Q4;
    repeat split; reflexivity.
Qed.

Lemma set_retain_off m : pubtf (tf (p_h m)) = true ->
  fields_of (pub_set_retain m false) = mkPF (p_topic m) (p_payload m) (pub_qos m) false (pub_dup m)
  /\ p_topic (pub_set_retain m false) = p_topic m /\ p_payload (pub_set_retain m false) = p_payload m
  /\ packet_id (p_h (pub_set_retain m false)) = packet_id (p_h m).
Proof.
  intros IT. destruct (tf_retain_off _ IT) as (R1 & R2 & R3 & R4).
  unfold fields_of, pub_qos, pub_retain, pub_dup, h_flags, packet_id, pub_set_retain.
  cbn [with_h p_h p_topic p_payload set_tf tf pid].
  fold (qf (N.land (tf (p_h m)) 254)). fold (qf (tf (p_h m))). rewrite R2, R3, R4.
  repeat split; reflexivity.
Qed.

(* what an in-process subscriber is called with *)
Lemma ocall_fields m : pubtf (tf (p_h m)) = true ->
  mkPF (p_topic m) (p_payload m) ((h_flags (p_h m) / 2) mod 4)
       (N.testbit (h_flags (p_h m)) 0) (N.testbit (h_flags (p_h m)) 3) = fields_of m.
Proof.
  intros IT. destruct (tf_nibble _ IT) as (B0 & B3 & _).
  unfold fields_of, pub_qos, pub_retain, pub_dup, h_flags, publish_qos_of_flags.
  rewrite B0, B3. reflexivity.
Qed.

(* ---------- one delivery ---------- *)

Lemma deliver_conn_spec br d m : fwd m -> enc_ok m -> pub_retain m = false ->
  exists m' c' b, deliver_conn br d m = (with_counter br c', m', [OPkt d b])
    /\ pub_fields b = Some (fields_of m) /\ fields_of m' = fields_of m /\ enc_ok m' /\ fwd m'.
Proof.
  intros F EO HR.
  destruct (forward_roundtrip_fwd m (br_counter br) F EO) as (m' & c' & b & H1 & H2 & H3 & H4 & H5).
  exists m', c', b. unfold deliver_conn. rewrite HR, H1.
  split; [reflexivity|]. split; [exact H2|]. split; [exact H3|]. split; [exact H4|exact H5].
Qed.

Definition same_state (br br' : broker) : Prop :=
  br_store br' = br_store br /\ br_raw br' = br_raw br /\ br_sess br' = br_sess br /\ br_conns br' = br_conns br.

Lemma same_state_refl br : same_state br br.
Proof. repeat split; reflexivity. Qed.

Lemma same_state_counter br c : same_state br (with_counter br c).
Proof. repeat split; reflexivity. Qed.

Lemma same_state_trans a b c : same_state a b -> same_state b c -> same_state a c.
Proof.
  intros (A1 & A2 & A3 & A4) (B1 & B2 & B3 & B4). unfold same_state.
  rewrite B1, B2, B3, B4. repeat split; assumption.
Qed.

Lemma deliver_conn_state br d m br' m' o : deliver_conn br d m = (br', m', o) -> same_state br br'.
Proof.
  unfold deliver_conn. intros H.
  destruct (lenenc (MPub (if pub_retain m then pub_set_retain m false else m)) (br_counter br)) as [[mm c'] r].
  destruct mm; try (injection H as <- _ _; apply same_state_refl);
    destruct r; injection H as <- _ _; apply same_state_counter.
Qed.

(* ---------- the loop ---------- *)

Lemma fan_out_state subs : forall br m br' m' o,
  fan_out br m subs = (br', m', o) -> same_state br br'.
Proof.
  induction subs as [|[s q] r IH]; intros br m br' m' o H.
  - cbn [fan_out] in H. injection H as <- _ _. apply same_state_refl.
  - cbn [fan_out] in H.
    set (m1 := match pub_set_qos m q with Some x => x | None => m end) in H.
    destruct (if is_conn_sub s then deliver_conn br s m1
              else (br, m1, [OCall s (h_flags (p_h m1)) (p_topic m1) (p_payload m1)])) as [[br1 m2] o1] eqn:E1.
    destruct (fan_out br1 m2 r) as [[br2 m3] o2] eqn:E2.
    injection H as <- _ _.
    apply (same_state_trans br br1 br2); [|exact (IH _ _ _ _ _ E2)].
    destruct (is_conn_sub s).
    + exact (deliver_conn_state _ _ _ _ _ _ E1).
    + injection E1 as <- _ _. apply same_state_refl.
Qed.

Lemma fan_out_spec subs : forall br m br' m' o,
  fwd m -> enc_ok m -> pub_retain m = false ->
  Forall (fun sq : sub * N => snd sq < 3) subs ->
  fan_out br m subs = (br', m', o) ->
  map delivery o
  = map (fun sq : sub * N => Some (fst sq, mkPF (p_topic m) (p_payload m) (snd sq) false (pub_dup m))) subs.
Proof.
  induction subs as [|[s q] r IH]; intros br m br' m' o F EO HR HQ H.
  - cbn [fan_out] in H. injection H as _ _ <-. reflexivity.
  - cbn [fan_out] in H.
    inversion HQ as [|? ? HQ1 HQ2]; subst. cbn [snd] in HQ1.
    pose proof (fwd_finv m F) as [IT _].
    destruct (set_qos_ok m q IT HQ1) as (m1 & E1 & F1 & T1 & Y1 & P1).
    rewrite E1 in H. rewrite HR in F1.
    assert (FW1 : fwd m1) by exact (fwd_qos _ _ _ F E1).
    assert (EO1 : enc_ok m1) by exact (enc_ok_tp m m1 T1 Y1 P1 EO).
    assert (HR1 : pub_retain m1 = false) by exact (f_equal pf_retain F1).
    pose proof (fwd_finv m1 FW1) as [IT1 _].
    cbn [map fst snd].
    destruct (is_conn_sub s).
    + destruct (deliver_conn_spec br s m1 FW1 EO1 HR1) as (m2 & c' & b & DE & PF & FF & EO2 & FW2).
      rewrite DE in H.
      destruct (fan_out (with_counter br c') m2 r) as [[br2 m3] o2] eqn:E2.
      injection H as _ _ <-.
      pose proof (eq_trans FF F1) as F2.
      cbn [app map]. unfold delivery at 1. rewrite PF, F1. f_equal.
      rewrite (IH _ _ _ _ _ FW2 EO2 (f_equal pf_retain F2) HQ2 E2).
      rewrite (f_equal pf_topic F2 : p_topic m2 = _), (f_equal pf_payload F2 : p_payload m2 = _),
              (f_equal pf_dup F2 : pub_dup m2 = _). reflexivity.
    + destruct (fan_out br m1 r) as [[br2 m3] o2] eqn:E2.
      injection H as _ _ <-.
      cbn [app map]. unfold delivery at 1. rewrite (ocall_fields m1 IT1), F1. f_equal.
      rewrite (IH _ _ _ _ _ FW1 EO1 HR1 HQ2 E2).
      rewrite T1, Y1, (f_equal pf_dup F1 : pub_dup m1 = _). reflexivity.
Qed.

(* ---------- the retain step ---------- *)

Lemma t_retain_sroot st r : sroot (fst (t_retain st r)) = sroot st.
Proof.
  unfold t_retain. destruct (levels_lazy (r_topic r)) as [ls bad].
  destruct bad; destruct (length (r_payload r) =? 0)%nat; cbn [fst sroot]; try reflexivity.
  destruct (rremove ls (rroot st)); reflexivity.
Qed.

Definition same_subs (br br' : broker) : Prop :=
  sroot (br_store br') = sroot (br_store br) /\ br_sess br' = br_sess br /\ br_conns br' = br_conns br.

Lemma retain_msg_state br m br1 m1 : retain_msg br m = (br1, m1) -> same_subs br br1.
Proof.
  unfold retain_msg, same_subs. intros H.
  destruct (levels_lazy (p_topic m)) as [ls bad].
  destruct (length (p_payload m) =? 0)%nat.
  - pose proof (t_retain_sroot (br_store br) (mkR (p_topic m) [] (pub_qos m))) as TS.
    destruct (t_retain (br_store br) (mkR (p_topic m) [] (pub_qos m))) as [st ok]. cbn [fst] in TS.
    destruct ok; injection H as <- _; cbn [with_raw with_store br_store br_sess br_conns];
      repeat split; try reflexivity; exact TS.
  - destruct bad.
    + injection H as <- _. cbn [with_store br_store br_sess br_conns].
      split; [apply t_retain_sroot|split; reflexivity].
    + pose proof (t_retain_sroot (br_store br) (mkR (p_topic m) (p_payload m) (pub_qos m))) as TS.
      destruct (lenenc (MPub m) (br_counter br)) as [[mm c'] r].
      destruct mm; try (injection H as <- _; repeat split; reflexivity).
      destruct r as [b|?k ?n|]; try (injection H as <- _; repeat split; reflexivity).
      destruct (pub_decode pub_new b) as [[stored k]|?k ?n|]; try (injection H as <- _; repeat split; reflexivity).
      destruct (t_retain (br_store br) (mkR (p_topic m) (p_payload m) (pub_qos m))) as [st ok]. cbn [fst] in TS.
      injection H as <- _. cbn [with_raw with_store with_counter br_store br_sess br_conns].
      split; [exact TS|split; reflexivity].
Qed.

Lemma retain_msg_fwd br m br1 m1 : fwd m -> enc_ok m -> retain_msg br m = (br1, m1) ->
  fwd m1 /\ enc_ok m1 /\ fields_of m1 = fields_of m.
Proof.
  intros F EO H. unfold retain_msg in H.
  destruct (levels_lazy (p_topic m)) as [ls bad].
  destruct (length (p_payload m) =? 0)%nat.
  - destruct (t_retain (br_store br) (mkR (p_topic m) [] (pub_qos m))) as [st ok].
    injection H as _ <-. split; [exact F|split; [exact EO|reflexivity]].
  - destruct bad.
    + injection H as _ <-. split; [exact F|split; [exact EO|reflexivity]].
    + destruct (forward_roundtrip_fwd m (br_counter br) F EO) as (m' & c' & b & H1 & H2 & H3 & H4 & H5).
      rewrite H1 in H.
      destruct (pub_decode pub_new b) as [[stored k]|?k ?n|].
      * destruct (t_retain (br_store br) (mkR (p_topic m) (p_payload m) (pub_qos m))) as [st ok].
        injection H as _ <-. split; [exact H5|split; [exact H4|exact H3]].
      * injection H as _ <-. split; [exact H5|split; [exact H4|exact H3]].
      * injection H as _ <-. split; [exact H5|split; [exact H4|exact H3]].
Qed.

(* ---------- onPublish ---------- *)

Lemma fanout_store : C01_fanout_store.
Proof.
  intros br m br' o H. unfold on_publish in H.
  destruct (if pub_retain m then retain_msg br m else (br, m)) as [br1 m1] eqn:ER.
  assert (S1 : same_subs br br1 /\ (pub_retain m = false -> br1 = br)).
  { destruct (pub_retain m).
    - split; [exact (retain_msg_state _ _ _ _ ER)|intros X; discriminate X].
    - injection ER as <- _. split; [repeat split; reflexivity|reflexivity]. }
  destruct S1 as [(A1 & A2 & A3) S2].
  assert (S3 : same_state br1 br').
  { destruct (t_subscribers (br_store br1) (p_topic m1) (pub_qos m1)) as [subs|].
    - destruct (fan_out br1 (if pub_retain m1 then pub_set_retain m1 false else m1) subs) as [[br2 mx] o2] eqn:EF.
      injection H as <- _. exact (fan_out_state _ _ _ _ _ _ EF).
    - injection H as <- _. apply same_state_refl. }
  destruct S3 as (B1 & B2 & B3 & B4).
  split; [rewrite B1; exact A1|].
  split; [|split; [rewrite B3; exact A2|rewrite B4; exact A3]].
  intros HR. rewrite (S2 HR) in B1, B2. split; assumption.
Qed.

Lemma fanout : C01_fanout.
Proof.
  intros br m br' o F EO H. unfold on_publish in H.
  destruct (if pub_retain m then retain_msg br m else (br, m)) as [br1 m1] eqn:ER.
  assert (R1 : fwd m1 /\ enc_ok m1 /\ fields_of m1 = fields_of m).
  { destruct (pub_retain m).
    - exact (retain_msg_fwd _ _ _ _ F EO ER).
    - injection ER as _ <-. split; [exact F|split; [exact EO|reflexivity]]. }
  destruct R1 as (F1 & EO1 & FF1).
  assert (T1 : p_topic m1 = p_topic m) by exact (f_equal pf_topic FF1).
  assert (Y1 : p_payload m1 = p_payload m) by exact (f_equal pf_payload FF1).
  assert (Q1 : pub_qos m1 = pub_qos m) by exact (f_equal pf_qos FF1).
  assert (D1 : pub_dup m1 = pub_dup m) by exact (f_equal pf_dup FF1).
  pose proof (fwd_finv m1 F1) as [IT1 _].
  rewrite T1, Q1 in H.
  destruct (t_subscribers (br_store br1) (p_topic m) (pub_qos m)) as [subs|] eqn:ES.
  - set (m2 := if pub_retain m1 then pub_set_retain m1 false else m1) in H.
    destruct (fan_out br1 m2 subs) as [[br2 mx] o2] eqn:EF.
    injection H as <- <-.
    destruct (fan_out_state _ _ _ _ _ _ EF) as (B1 & _).
    rewrite B1, ES.
    assert (M2 : fwd m2 /\ enc_ok m2 /\ pub_retain m2 = false
                 /\ p_topic m2 = p_topic m /\ p_payload m2 = p_payload m /\ pub_dup m2 = pub_dup m).
    { unfold m2. destruct (pub_retain m1) eqn:ERT.
      - destruct (set_retain_off m1 IT1) as (G1 & G2 & G3 & G4).
        split; [exact (fwd_retain _ _ F1)|].
        split; [exact (enc_ok_tp m1 _ G2 G3 G4 EO1)|].
        split; [exact (f_equal pf_retain G1)|].
        split; [rewrite G2; exact T1|]. split; [rewrite G3; exact Y1|].
        rewrite <- D1. exact (f_equal pf_dup G1).
      - split; [exact F1|]. split; [exact EO1|]. split; [exact ERT|].
        split; [exact T1|]. split; [exact Y1|exact D1]. }
    destruct M2 as (F2 & EO2 & HR2 & T2 & Y2 & D2).
    rewrite (fan_out_spec subs _ _ _ _ _ F2 EO2 HR2 (t_subscribers_lt3 _ _ _ _ ES) EF).
    rewrite T2, Y2, D2. reflexivity.
  - injection H as <- <-. rewrite ES. reflexivity.
Qed.

Print Assumptions fanout.
Print Assumptions fanout_store.
