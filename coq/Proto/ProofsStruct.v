(* Structural proofs about the broker model: what each step can write and whom it can close
   (C05), which parts of the state it leaves alone (frame lemmas used by the other proof files),
   and the CONNACK code of the first packet (C11). *)
From Base Require Import Tactics Bytes.
From Gen Require Import Tables.
From Codec Require Import Wire Impl Script Statements ProofsTotal.
From Topics Require Import Model.
From Ackq Require Import Model Spec.
From Proto Require Import Broker Props ProofsBasic.
Open Scope N_scope.

(* ---------- the counter is the only thing writing a message changes ---------- *)

Definition ceq (br br' : broker) : Prop := exists c, br' = with_counter br c.

Lemma with_counter_id br : with_counter br (br_counter br) = br.
Proof. destruct br; reflexivity. Qed.

Lemma ceq_refl br : ceq br br.
Proof. exists (br_counter br). symmetry. apply with_counter_id. Qed.

Lemma ceq_trans a b c : ceq a b -> ceq b c -> ceq a c.
Proof. intros [x ->] [y ->]. exists y. reflexivity. Qed.

Lemma ceq_store a b : ceq a b -> br_store b = br_store a.
Proof. intros [x ->]. reflexivity. Qed.
Lemma ceq_raw a b : ceq a b -> br_raw b = br_raw a.
Proof. intros [x ->]. reflexivity. Qed.
Lemma ceq_sess a b : ceq a b -> br_sess b = br_sess a.
Proof. intros [x ->]. reflexivity. Qed.
Lemma ceq_conns a b : ceq a b -> br_conns b = br_conns a.
Proof. intros [x ->]. reflexivity. Qed.

(* ---------- outputs ---------- *)

Lemma closes_app a b : closes (a ++ b) = closes a ++ closes b.
Proof. unfold closes. apply flat_map_app. Qed.

Lemma only_to_nil c : only_to c [].
Proof. intros x []. Qed.

Lemma only_to_app c a b : only_to c a -> only_to c b -> only_to c (a ++ b).
Proof. intros Ha Hb x Hx. apply in_app_or in Hx. destruct Hx as [Hx|Hx]; [apply Ha|apply Hb]; exact Hx. Qed.

Lemma only_to_closes c o : only_to c o -> closes o = [].
Proof.
  induction o as [|x o IH]; intros H; [reflexivity|].
  assert (Hx := H x (or_introl eq_refl)).
  destruct x; try contradiction. cbn. apply IH.
  intros y Hy. apply H. right. exact Hy.
Qed.

(* ---------- send ---------- *)

Lemma send_cases br d m br' o : send br d m = (br', o) ->
  ceq br br' /\ (o = [] \/ exists b, o = [OPkt d b]).
Proof.
  unfold send. intros H.
  destruct (lenenc m (br_counter br)) as [[m1 c1] r].
  destruct r; inv H; (split; [eexists; reflexivity|]); eauto.
Qed.

Lemma send_only_to br d m br' o : send br d m = (br', o) -> only_to d o.
Proof.
  intros H. apply send_cases in H. destruct H as [_ [->|[b ->]]].
  - apply only_to_nil.
  - intros x [<-|[]]. reflexivity.
Qed.

Lemma send_closes br d m br' o : send br d m = (br', o) -> closes o = [].
Proof. intros H. eapply only_to_closes. eapply send_only_to. exact H. Qed.

Lemma send_ceq br d m br' o : send br d m = (br', o) -> ceq br br'.
Proof. intros H. apply send_cases in H. tauto. Qed.

(* ---------- fan-out ---------- *)

Lemma deliver_conn_cases br d m br' m' o : deliver_conn br d m = (br', m', o) ->
  ceq br br' /\ closes o = [].
Proof.
  unfold deliver_conn. intros H.
  destruct (lenenc _ (br_counter br)) as [[m1 c1] r].
  destruct m1; destruct r; inv H; split; try reflexivity; try apply ceq_refl; eexists; reflexivity.
Qed.

Lemma fan_out_cases subs : forall br m br' m' o, fan_out br m subs = (br', m', o) ->
  ceq br br' /\ closes o = [].
Proof.
  induction subs as [|[s q] r IH]; intros br m br' m' o H; cbn [fan_out] in H.
  - inv H. split; [apply ceq_refl|reflexivity].
  - destruct (is_conn_sub s).
    + match type of H with context [deliver_conn ?a ?b ?x] =>
        destruct (deliver_conn a b x) as [[br1 m2] o1] eqn:E1 end.
      destruct (fan_out br1 m2 r) as [[br2 m3] o2] eqn:E2. inv H.
      apply deliver_conn_cases in E1. apply IH in E2.
      destruct E1 as [A1 C1], E2 as [A2 C2].
      split; [eapply ceq_trans; eassumption|]. rewrite closes_app, C1, C2. reflexivity.
    + match type of H with context [fan_out br ?x r] =>
        destruct (fan_out br x r) as [[br2 m3] o2] eqn:E2 end.
      inv H. apply IH in E2. destruct E2 as [A2 C2].
      split; [exact A2|]. exact C2.
Qed.

(* what the retain step may touch: store, raw, counter *)
Definition sc_frame (br br' : broker) : Prop :=
  br_sess br' = br_sess br /\ br_conns br' = br_conns br.

Lemma sc_refl br : sc_frame br br.
Proof. split; reflexivity. Qed.
Lemma sc_trans a b c : sc_frame a b -> sc_frame b c -> sc_frame a c.
Proof. intros [A1 A2] [B1 B2]. split; congruence. Qed.
Lemma ceq_sc a b : ceq a b -> sc_frame a b.
Proof. intros [x ->]. split; reflexivity. Qed.

Lemma retain_msg_frame br m br' m' : retain_msg br m = (br', m') -> sc_frame br br'.
Proof.
  unfold retain_msg. intros H.
  destruct (levels_lazy (p_topic m)) as [ls bad].
  destruct (length (p_payload m) =? 0)%nat.
  { destruct (t_retain _ _) as [st ok]. destruct ok; inv H; split; reflexivity. }
  destruct bad.
  { inv H. split; reflexivity. }
  destruct (lenenc _ (br_counter br)) as [[m1 c1] r].
  destruct m1; try (inv H; split; reflexivity).
  destruct r; try (inv H; split; reflexivity).
  destruct (pub_decode pub_new a) as [[stored n]|cls n|]; try (inv H; split; reflexivity).
  destruct (t_retain _ _) as [st ok]. inv H. split; reflexivity.
Qed.

Lemma on_publish_cases br m br' o : on_publish br m = (br', o) ->
  sc_frame br br' /\ closes o = [].
Proof.
  unfold on_publish. intros H.
  destruct (if pub_retain m then retain_msg br m else (br, m)) as [br1 m1] eqn:E1.
  assert (F1 : sc_frame br br1).
  { destruct (pub_retain m); [eapply retain_msg_frame; exact E1|inv E1; apply sc_refl]. }
  destruct (t_subscribers _ _ _) as [subs|].
  - match type of H with context [fan_out br1 ?x subs] =>
      destruct (fan_out br1 x subs) as [[br2 m3] o2] eqn:E2 end.
    inv H. apply fan_out_cases in E2. destruct E2 as [A2 C2].
    split; [|exact C2]. eapply sc_trans; [exact F1|apply ceq_sc; exact A2].
  - inv H. split; [exact F1|reflexivity].
Qed.

Lemma release_pub2in_cases l : forall br br' o, release_pub2in br l = (br', o) ->
  sc_frame br br' /\ closes o = [].
Proof.
  induction l as [|e r IH]; intros br br' o H; cbn [release_pub2in] in H.
  - inv H. split; [apply sc_refl|reflexivity].
  - match type of H with context [let '(_, _) := ?x in _] =>
      destruct x as [br1 o1] eqn:E1 end.
    destruct (release_pub2in br1 r) as [br2 o2] eqn:E2. inv H.
    apply IH in E2. destruct E2 as [A2 C2].
    assert (A1 : sc_frame br br1 /\ closes o1 = []).
    { destruct (e_mtype e =? T_PUBLISH); [|inv E1; split; [apply sc_refl|reflexivity]].
      destruct (pub_decode pub_new (e_msg e)) as [[m n]|cls n|]; try (inv E1; split; [apply sc_refl|reflexivity]).
      destruct (ack_decode _ (e_ack e)) as [x|cls n'|]; try (inv E1; split; [apply sc_refl|reflexivity]).
      destruct (existsb _ acked_publish_states); [|inv E1; split; [apply sc_refl|reflexivity]].
      eapply on_publish_cases. exact E1. }
    destruct A1 as [A1 C1].
    split; [eapply sc_trans; eassumption|]. rewrite closes_app, C1, C2. reflexivity.
Qed.

(* ---------- SUBSCRIBE ---------- *)

Lemma send_pubs_cases ms : forall br c br' o, send_pubs br c ms = (br', o) ->
  ceq br br' /\ only_to c o.
Proof.
  induction ms as [|m r IH]; intros br c br' o H; cbn [send_pubs] in H.
  - inv H. split; [apply ceq_refl|apply only_to_nil].
  - destruct (send br c (MPub m)) as [br1 o1] eqn:E1.
    destruct (send_pubs br1 c r) as [br2 o2] eqn:E2. inv H.
    apply IH in E2. destruct E2 as [A2 C2].
    split; [eapply ceq_trans; [eapply send_ceq; exact E1|exact A2]|].
    apply only_to_app; [eapply send_only_to; exact E1|exact C2].
Qed.

Lemma process_subscribe_only_to br c k m br' o : process_subscribe br c k m = (br', o) -> only_to c o.
Proof.
  unfold process_subscribe. intros H.
  destruct (sub_all br c k (s_topics m) (s_qos m)) as [[br1 codes] rms].
  destruct (lenenc _ (br_counter br1)) as [[m1 c1] r].
  destruct r; try (inv H; apply only_to_nil).
  destruct (send_pubs br1 c rms) as [br2 o2] eqn:E2. inv H.
  apply send_pubs_cases in E2. destruct E2 as [_ C2].
  intros x [<-|Hx]; [reflexivity|apply C2; exact Hx].
Qed.

(* ---------- one packet ---------- *)

Lemma process_incoming_closes br c k raw m br' o r :
  process_incoming br c k raw m = (br', o, r) -> closes o = [].
Proof.
  unfold process_incoming. intros H. destruct m as [p|h|h|x|x|s|u|x]; try (inv H; reflexivity).
  - destruct (pub_qos p =? 2).
    { destruct (send _ c _) as [br2 o2] eqn:E. inv H. eapply send_closes; exact E. }
    destruct (pub_qos p =? 1).
    { destruct (send br c _) as [br1 o1] eqn:E1. destruct (on_publish br1 p) as [br2 o2] eqn:E2. inv H.
      apply send_closes in E1. apply on_publish_cases in E2. destruct E2 as [_ C2].
      rewrite closes_app, E1, C2. reflexivity. }
    destruct (on_publish br p) as [br1 o1] eqn:E1. inv H.
    apply on_publish_cases in E1. tauto.
  - destruct (h_type h =? T_PUBREL).
    { destruct (assoc_b k (br_sess br)) as [s|]; [|inv H; reflexivity].
      destruct (s_acked _) as [a2 rel].
      destruct (release_pub2in _ rel) as [br2 o1] eqn:E1.
      destruct (send br2 c _) as [br3 o2] eqn:E2. inv H.
      apply release_pub2in_cases in E1. apply send_closes in E2. destruct E1 as [_ C1].
      rewrite closes_app, C1, E2. reflexivity. }
    destruct (h_type h =? T_PUBREC); [|inv H; reflexivity].
    destruct (send br c _) as [br1 o1] eqn:E1. inv H. eapply send_closes; exact E1.
  - destruct (h_type h =? T_PINGREQ).
    { destruct (send br c _) as [br1 o1] eqn:E1. inv H. eapply send_closes; exact E1. }
    destruct (h_type h =? T_DISCONNECT); inv H; reflexivity.
  - destruct (process_subscribe br c k s) as [br1 o1] eqn:E1. inv H.
    eapply only_to_closes. eapply process_subscribe_only_to. exact E1.
  - destruct (send _ c _) as [br2 o2] eqn:E. inv H. eapply send_closes; exact E.
Qed.

(* ---------- teardown ---------- *)

Lemma stop_cases br c br' o : stop br c = (br', o) ->
  (o = [] /\ br' = br) \/ exists o', o = OClose c :: o' /\ closes o' = [].
Proof.
  unfold stop. intros H.
  destruct (conn_sess br c) as [[k s]|]; [|inv H; left; split; reflexivity].
  match type of H with context [let '(_, _) := ?x in _] => destruct x as [br2 o2] eqn:E2 end.
  inv H. right. eexists. split; [reflexivity|].
  destruct (se_willflag s); [|inv E2; reflexivity].
  destruct (se_will s) as [w|]; [|inv E2; reflexivity].
  apply on_publish_cases in E2. tauto.
Qed.

Lemma stop_closes br c br' o : stop br c = (br', o) -> forall d, In d (closes o) -> d = c.
Proof.
  intros H d Hd. apply stop_cases in H. destruct H as [[-> _]|[o' [-> C]]].
  - destruct Hd.
  - cbn in Hd. fold (closes o') in Hd. rewrite C in Hd. destruct Hd as [<-|[]]. reflexivity.
Qed.

(* ---------- C05 ---------- *)

Ltac dflt H := (inv H; eapply stop_closes; eassumption).

Lemma stop_only_self_closed : C05_stop_only_self_closed.
Proof. intros br c br' o H. eapply stop_closes. exact H. Qed.

Lemma only_self_closed : C05_only_self_closed.
Proof.
  intros fuel bufsize. induction fuel as [|f IH]; intros br c k b br' o rest H d Hd; cbn [proc] in H.
  { inv H. destruct Hd. }
  destruct (frame bufsize b) as [| |ty total].
  - inv H. destruct Hd.
  - destruct (stop br c) as [br1 o1] eqn:E. inv H. eapply stop_closes; eassumption.
  - destruct (new_msg ty) as [m0|].
    2: { destruct (stop br c) as [br1 o1] eqn:E. inv H. eapply stop_closes; eassumption. }
    destruct (do_dec m0 (firstn total b)) as [m obs].
    destruct (stop br c) as [brs os] eqn:Es.
    destruct obs as [|x obs]; [dflt H|].
    destruct x as [|p]; [dflt H|].
    repeat (destruct p as [p|p|]; try (dflt H)).
    destruct (process_incoming br c k (firstn total b) m) as [[br1 o1] r] eqn:E1.
    apply process_incoming_closes in E1.
    destruct r.
    + destruct (proc f bufsize br1 c k (skipn total b)) as [[br2 o2] rest'] eqn:E2. inv H.
      rewrite closes_app, E1 in Hd. eapply IH; eassumption.
    + destruct (stop br1 c) as [br2 o2] eqn:E2. inv H.
      rewrite closes_app, E1 in Hd. eapply stop_closes; eassumption.
Qed.

Lemma connect_only_self_closed : C05_connect_only_self_closed.
Proof.
  intros bufsize br c a b br' o r H d Hd. destruct r as [rest|].
  - apply connect_accepted_outputs in H. destruct H as [sp ->]. destruct Hd.
  - apply connect_refused_outputs in H.
    destruct H as [->|[code [_ ->]]]; cbn in Hd; destruct Hd as [<-|[]]; reflexivity.
Qed.

(* ---------- C11 ---------- *)

Lemma codes : C11_codes.
Proof.
  intros bufsize br c authok b br' o r total H HL HU.
  destruct b as [|b0 [|b1 rest]]; cbn [length] in HL; try lia.
  cbn [tl] in HU. unfold connect in H.
  destruct (uvarint4 (b1 :: rest)) as [[rl m]|]; [|contradiction].
  destruct HU as [-> HT].
  destruct (length (b0 :: b1 :: rest) <? N.to_nat (rl + 1 + N.of_nat m))%nat eqn:E; [lia|].
  pose proof (total_conn conn_new (firstn (N.to_nat (rl + 1 + N.of_nat m)) (b0 :: b1 :: rest))) as TC.
  destruct (conn_decode conn_new (firstn (N.to_nat (rl + 1 + N.of_nat m)) (b0 :: b1 :: rest))) as [[req n]|cls n|].
  - destruct authok; cbn [negb] in H.
    + rewrite send_connack in H by lia. inv H. eexists. split; reflexivity.
    + rewrite send_connack in H by lia. inv H. split; reflexivity.
  - destruct ((cls =? 1) || (cls =? 2)) eqn:E2.
    + assert (C : cls = 1 \/ cls = 2) by lia.
      rewrite send_connack in H by lia. inv H.
      split; [intros _; reflexivity|]. split; [intros; lia|reflexivity].
    + inv H. split; [intros; lia|]. split; reflexivity.
  - exact TC.
Qed.

Print Assumptions only_self_closed.
Print Assumptions connect_only_self_closed.
Print Assumptions stop_only_self_closed.
Print Assumptions codes.
