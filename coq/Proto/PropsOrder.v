(* Statements about the order of what the broker writes (C17: per-publisher order of the QoS 0 / QoS 1
   deliveries) and about the broker in the sender role of QoS 1 / 2 (C12: PUBREC -> PUBREL, PUBACK and
   PUBCOMP are silent), over the event-step model Proto/Broker.v.
   Only definitions: the proofs are in Proto/ProofsOrder.v. *)
From Base Require Import Tactics Bytes.
From Gen Require Import Tables.
From Codec Require Import Wire Impl Script Statements.
From Topics Require Import Model Spec.
From Ackq Require Import Model Spec.
From Proto Require Import Broker Props.
Open Scope N_scope.

(* ---------- one complete packet, as the processor loop sees it ---------- *)

(* raw is exactly one complete packet: peekMessageSize frames all of raw (and not more), the type is a
   known one and the decoder of that type accepts raw as m - the three tests of [proc] *)
Definition framed (bufsize : N) (raw : bytes) (m : msg) : Prop :=
  exists ty m0 t,
    frame bufsize raw = FPkt ty (length raw) /\ new_msg ty = Some m0 /\ do_dec m0 raw = (m, 20 :: t).

(* the only packet after which the processor loop stops *)
Definition is_disconnect (m : msg) : bool :=
  match m with MEmpty h => h_type h =? T_DISCONNECT | _ => false end.

(* the single steps: processIncoming on the packets one after the other, each in the state the
   previous one left; the outputs are kept per packet *)
Fixpoint pkt_run (br : broker) (c : N) (k : bytes) (pkts : list (bytes * msg)) : broker * list (list out) :=
  match pkts with
  | [] => (br, [])
  | (raw, m) :: r =>
      let '(br1, o1, _) := process_incoming br c k raw m in
      let '(br2, os) := pkt_run br1 c k r in
      (br2, o1 :: os)
  end.

(* ---------- C17: the processor loop is the composition of the single steps ---------- *)

(* bytes that are the concatenation of complete packets p1 ... pn (none of them a DISCONNECT), followed
   by anything: the loop does p1 ... pn one after the other - state threaded through, outputs appended in
   that order - and goes on with what follows, with the fuel that is left *)
Definition C17_proc_compositional : Prop := forall bufsize pkts fuel br c k tail,
  Forall (fun rm => framed bufsize (fst rm) (snd rm) /\ is_disconnect (snd rm) = false) pkts ->
  proc (length pkts + fuel) bufsize br c k (concat (map fst pkts) ++ tail)
  = let '(br1, os) := pkt_run br c k pkts in
    let '(br2, o2, rest) := proc fuel bufsize br1 c k tail in
    (br2, concat os ++ o2, rest).

(* without the condition on DISCONNECT the statement is false (refuted in ProofsOrder.v): what follows a
   DISCONNECT in the same bytes is dropped and the connection is torn down *)
Definition C17_proc_compositional_any : Prop := forall bufsize pkts fuel br c k tail,
  Forall (fun rm => framed bufsize (fst rm) (snd rm)) pkts ->
  proc (length pkts + fuel) bufsize br c k (concat (map fst pkts) ++ tail)
  = let '(br1, os) := pkt_run br c k pkts in
    let '(br2, o2, rest) := proc fuel bufsize br1 c k tail in
    (br2, concat os ++ o2, rest).

(* a single packet alone on the connection: the loop is processIncoming *)
Definition C17_proc_single : Prop := forall bufsize raw m fuel br c k,
  framed bufsize raw m -> is_disconnect m = false ->
  proc (S fuel) bufsize br c k raw
  = let '(br1, o1, _) := process_incoming br c k raw m in (br1, o1, []).

(* the driver's fuel (Proto/Script.v feed: one more than the number of bytes) is enough *)
Definition C17_fuel_enough : Prop := forall bufsize pkts,
  Forall (fun rm => framed bufsize (fst rm) (snd rm)) pkts ->
  (length pkts <= S (length (concat (map fst pkts))))%nat.

(* ---------- C17: one chunk of QoS 0 / QoS 1 PUBLISH packets ---------- *)

Definition pub_pkt (rp : bytes * pubmsg) : bytes * msg := (fst rp, MPub (snd rp)).

(* a complete well-formed PUBLISH packet with QoS 0 or 1 *)
Definition pub01 (bufsize : N) (rp : bytes * pubmsg) : Prop :=
  framed bufsize (fst rp) (MPub (snd rp)) /\ (pub_qos (snd rp) = 0 \/ pub_qos (snd rp) = 1).

(* what processIncoming does with such a packet: PUBACK first for QoS 1, then the fan-out *)
Definition pub_step (br : broker) (c : N) (p : pubmsg) : broker * list out :=
  if pub_qos p =? 1 then
    let '(br1, o1) := send br c (mk_ack T_PUBACK (packet_id (p_h p))) in
    let '(br2, o2) := on_publish br1 p in (br2, o1 ++ o2)
  else on_publish br p.

(* a single such packet: processIncoming is [pub_step], and so is the loop run on that packet alone *)
Definition C17_pub_single : Prop := forall bufsize raw p fuel br c k,
  pub01 bufsize (raw, p) ->
  process_incoming br c k raw (MPub p) = (let '(br1, o1) := pub_step br c p in (br1, o1, PContinue))
  /\ proc (S fuel) bufsize br c k raw = (let '(br1, o1) := pub_step br c p in (br1, o1, [])).

(* one chunk of bytes on connection c = PUBLISH packets p1 ... pn with QoS 0 or 1: the output of the
   processor loop is the concatenation, in the order p1 ... pn, of the outputs of the single packets
   (each one processed in the state the previous ones left); all bytes are consumed *)
Definition C17_publisher_order : Prop := forall bufsize pubs fuel br c k br' o rest,
  Forall (pub01 bufsize) pubs -> (length pubs <= fuel)%nat ->
  proc fuel bufsize br c k (concat (map fst pubs)) = (br', o, rest) ->
  let '(br1, os) := pkt_run br c k (map pub_pkt pubs) in
  br' = br1 /\ o = concat os /\ rest = [] /\ length os = length pubs.

(* ---------- C17: per receiver ---------- *)

(* the PUBLISH deliveries an output list makes to receiver d (connection or in-process subscriber), in order *)
Definition deliveries_to (d : N) (o : list out) : list pfields :=
  flat_map (fun x => match delivery x with
                     | Some (d', f) => if d' =? d then [f] else []
                     | None => []
                     end) o.

(* for every receiver d, what d gets from the chunk is what it gets from p1, then what it gets from p2,
   ...: filtering the output to one receiver gives the per-message delivery lists concatenated in
   publication order; and in the output itself everything written for p_i stands before everything
   written for p_j when i < j *)
Definition C17_receiver_order : Prop := forall bufsize pubs fuel br c k br' o rest,
  Forall (pub01 bufsize) pubs -> (length pubs <= fuel)%nat ->
  proc fuel bufsize br c k (concat (map fst pubs)) = (br', o, rest) ->
  let os := snd (pkt_run br c k (map pub_pkt pubs)) in
  (forall d, deliveries_to d o = concat (map (deliveries_to d) os))
  /\ (forall i j, (i < j < length pubs)%nat ->
        exists pre mid post, o = pre ++ nth i os [] ++ mid ++ nth j os [] ++ post).

(* ... and with C01 for each single message: the subscription tree does not change during the chunk, and
   receiver d gets, for p1, then for p2, ..., one delivery per (d, QoS) pair the tree reports for the
   topic and QoS of that message, in the reported order: same topic, byte-identical payload, that QoS,
   retain 0, the dup flag of the message.  (The PUBACKs on c are no deliveries.)  [enc_ok] is C01's
   condition: the message can be encoded at all. *)
Definition C17_receiver_fields : Prop := forall bufsize pubs fuel br c k br' o rest d,
  Forall (pub01 bufsize) pubs -> Forall (fun rp => enc_ok (snd rp)) pubs -> (length pubs <= fuel)%nat ->
  proc fuel bufsize br c k (concat (map fst pubs)) = (br', o, rest) ->
  deliveries_to d o
  = flat_map (fun rp =>
      let p := snd rp in
      match t_subscribers (br_store br) (p_topic p) (pub_qos p) with
      | None => []
      | Some subs => map (fun sq => mkPF (p_topic p) (p_payload p) (snd sq) false (pub_dup p))
                         (filter (fun sq => fst sq =? d) subs)
      end) pubs
  /\ sroot (br_store br') = sroot (br_store br).

(* ---------- C12: the broker in the sender role ---------- *)

(* every PUBREC arriving on a connection - whatever its identifier, whether or not a QoS 2 PUBLISH with
   that identifier was ever forwarded there - is answered on that connection by exactly one PUBREL with
   the same identifier; nothing else is written, nobody is closed, the loop continues and the broker
   state does not change at all (the broker keeps no record of the exchange) *)
Definition C12_broker_pubrec_pubrel : Prop := forall br c k raw h,
  h_type h = T_PUBREC -> packet_id h < 65536 ->
  process_incoming br c k raw (MAck h)
  = (br, [OPkt c (wire (PAck T_PUBREL (packet_id h)))], PContinue).

(* the same seen from the wire: the four bytes of a PUBREC with identifier pid arriving alone on
   connection c are answered by the four bytes of PUBREL pid *)
Definition C12_broker_pubrec_pubrel_wire : Prop := forall bufsize fuel br c k pid,
  pid < 65536 -> 4 <= max_packet bufsize ->
  wire (PAck T_PUBREC pid) = [80; 2; pid / 256 mod 256; pid mod 256]
  /\ wire (PAck T_PUBREL pid) = [98; 2; pid / 256 mod 256; pid mod 256]
  /\ proc (S fuel) bufsize br c k (wire (PAck T_PUBREC pid))
     = (br, [OPkt c (wire (PAck T_PUBREL pid))], []).

(* PUBACK and PUBCOMP arriving from a subscriber: nothing is written, nobody is closed, nothing changes *)
Definition C12_broker_ack_no_output : Prop := forall br c k raw h,
  h_type h = T_PUBACK \/ h_type h = T_PUBCOMP ->
  process_incoming br c k raw (MAck h) = (br, [], PContinue).

Definition C12_broker_ack_no_output_wire : Prop := forall bufsize fuel br c k ty pid,
  ty = T_PUBACK \/ ty = T_PUBCOMP -> pid < 65536 -> 4 <= max_packet bufsize ->
  proc (S fuel) bufsize br c k (wire (PAck ty pid)) = (br, [], []).
