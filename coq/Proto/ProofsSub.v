(* The acknowledgements the broker writes: PUBACK / PUBREC / PUBCOMP (C02), SUBACK / UNSUBACK (C07).
   The bytes come from the proved codec theorems (encode_ack, encode_suback): the messages the
   broker builds with the setters encode to the wire format of the packet. *)
From Base Require Import Tactics Bytes.
From Gen Require Import Tables.
From Codec Require Import Wire Impl Script Statements ProofsHeader ProofsEncode.
From Topics Require Import Model.
From Ackq Require Import Model Spec.
From Proto Require Import Broker Props ProofsBasic ProofsStruct ProofsSession.
Open Scope N_scope.

(* ---------- writing an acknowledgement ---------- *)

Lemma mk_ack_abs ty pid : abs_ack (set_pid (ack_new ty) pid) = PAck ty pid.
Proof.
  unfold abs_ack, h_type. rewrite set_pid_tf, set_pid_packet_id.
  unfold ack_new. rewrite new_hdr_tf, div16 by apply default_flags_lt16.
  destruct (pid =? 0) eqn:E; [|reflexivity].
  assert (pid = 0) by lia. subst. reflexivity.
Qed.

Lemma send_ack br c ty pid : is_ack_type ty = true -> pid < 65536 ->
  send br c (mk_ack ty pid) = (br, [OPkt c (wire (PAck ty pid))]).
Proof.
  intros HT HP.
  assert (B : built_ack (set_pid (ack_new ty) pid)).
  { apply ba_pid; [apply ba_new; exact HT|exact HP]. }
  pose proof (encode_ack _ (snd (ack_len (set_pid (ack_new ty) pid))) B) as E.
  rewrite mk_ack_abs in E.
  unfold send, lenenc, mk_ack. cbn [do_len].
  destruct (ack_len (set_pid (ack_new ty) pid)) as [h1 l].
  cbn [snd] in E. destruct E as [_ E]. destruct (E (le_n _)) as [h2 [E2 _]].
  cbn [do_enc]. rewrite E2. rewrite with_counter_id. reflexivity.
Qed.

(* ---------- C02 ---------- *)

Lemma puback : C02_puback.
Proof.
  intros br c k raw p br1 o r H HQ HP.
  unfold process_incoming in H. cbv zeta in H. rewrite HQ in H.
  change (1 =? 2) with false in H. change (1 =? 1) with true in H. cbv iota in H.
  rewrite send_ack in H by (reflexivity || exact HP).
  destruct (on_publish br p) as [br2 o2] eqn:E. inv H.
  exists o2. split; [reflexivity|]. split; reflexivity.
Qed.

Lemma upd_pub2in_frame br k f :
  br_store (upd_pub2in br k f) = br_store br /\ br_raw (upd_pub2in br k f) = br_raw br
  /\ br_conns (upd_pub2in br k f) = br_conns br.
Proof. unfold upd_pub2in. destruct (assoc_b k (br_sess br)); repeat split; reflexivity. Qed.

Lemma pubrec : C02_pubrec.
Proof.
  intros br c k raw p br1 o r H HQ HP.
  unfold process_incoming in H. cbv zeta in H. rewrite HQ in H.
  change (2 =? 2) with true in H. cbv iota in H.
  rewrite send_ack in H by (reflexivity || exact HP).
  inv H. split; [reflexivity|]. split; [reflexivity|]. apply upd_pub2in_frame.
Qed.

(* the comment of C02_pubrec also promises that the other sessions are untouched; the statement
   does not say so: here it is (additional, not part of Props.v) *)
Lemma beq_bytes_eq a : forall b, beq_bytes a b = true -> a = b.
Proof.
  induction a as [|x a IH]; intros [|y b] H; cbn [beq_bytes] in H; try discriminate; [reflexivity|].
  apply andb_true_iff in H. destruct H as [H1 H2].
  apply N.eqb_eq in H1. subst y. rewrite (IH _ H2). reflexivity.
Qed.

Lemma assoc_set_b_other {A} k k' (v : A) l : beq_bytes k k' = false ->
  assoc_b k' (set_b k v l) = assoc_b k' l.
Proof.
  intros H. unfold set_b. cbn [assoc_b]. rewrite H. unfold del_b.
  induction l as [|[k2 v2] l IH]; [reflexivity|].
  cbn [filter fst]. destruct (beq_bytes k2 k) eqn:E; cbn [negb].
  - apply beq_bytes_eq in E. subst k2. cbn [assoc_b]. rewrite H. exact IH.
  - cbn [assoc_b]. rewrite IH. reflexivity.
Qed.

Lemma pubrec_other_sessions br c k raw p br1 o r k' :
  process_incoming br c k raw (MPub p) = (br1, o, r) -> pub_qos p = 2 -> packet_id (p_h p) < 65536 ->
  beq_bytes k k' = false -> assoc_b k' (br_sess br1) = assoc_b k' (br_sess br).
Proof.
  intros H HQ HP HK.
  unfold process_incoming in H. cbv zeta in H. rewrite HQ in H.
  change (2 =? 2) with true in H. cbv iota in H.
  rewrite send_ack in H by (reflexivity || exact HP). inv H.
  unfold upd_pub2in. destruct (assoc_b k (br_sess br)); [|reflexivity].
  cbn [with_sess br_sess]. apply assoc_set_b_other. exact HK.
Qed.

Lemma pubcomp : C02_pubcomp.
Proof.
  intros br c k raw h s br1 o r H HT HP HA.
  unfold process_incoming in H. cbv zeta in H. rewrite HT in H.
  change (T_PUBREL =? T_PUBREL) with true in H. cbv iota in H.
  rewrite HA in H. cbv zeta.
  destruct (s_acked (fst (s_ack (se_pub2in s) T_PUBREL (packet_id h) raw))) as [a2 rel].
  destruct (release_pub2in (upd_pub2in br k (fun _ => a2)) rel) as [br2 o1] eqn:E.
  rewrite send_ack in H by (reflexivity || exact HP). inv H.
  eexists. eexists. split; [reflexivity|]. split; reflexivity.
Qed.

(* ---------- C07: UNSUBSCRIBE ---------- *)

Lemma unsub_all_store c k ts : forall br,
  br_store (unsub_all br c k ts) = unsub_store (br_store br) c ts.
Proof.
  induction ts as [|t r IH]; intros br; [reflexivity|].
  cbn [unsub_all unsub_store]. rewrite IH.
  destruct (assoc_b k _); reflexivity.
Qed.

Lemma unsuback : C07_unsuback.
Proof.
  intros br c k u br1 o r H HP.
  unfold process_incoming in H. cbv zeta in H.
  rewrite send_ack in H by (reflexivity || exact HP). inv H.
  split; [reflexivity|]. split; [reflexivity|]. apply unsub_all_store.
Qed.

(* ---------- C07: SUBSCRIBE ---------- *)

(* the return codes: a granted QoS 0..2, or 0x80 *)
Lemma t_subscribe_code st t q c :
  match snd (t_subscribe st t q c) with Some g => g < 3 | None => True end.
Proof.
  unfold t_subscribe, valid_qos.
  destruct (negb (q <? 3)) eqn:EQ; [exact I|].
  destruct (c =? 0); [exact I|].
  destruct (length t =? 0)%nat; [exact I|].
  destruct (levels_lazy t) as [ls bad].
  destruct bad; [exact I|]. cbn [snd]. unfold MaxQosAllowed.
  destruct (2 <? q) eqn:E2; lia.
Qed.

Lemma code_ok_lt3 g : g < 3 -> code_ok g = true.
Proof.
  intros H. assert (C : g = 0 \/ g = 1 \/ g = 2) by lia.
  destruct C as [->|[->| ->]]; reflexivity.
Qed.

Lemma code_ok_byte x : code_ok x = true -> byte_ok x = true.
Proof.
  unfold code_ok, suback_codes, byte_ok. cbn [existsb]. intros H. lia.
Qed.

Lemma codes_bytes_ok l : forallb code_ok l = true -> bytes_ok l = true.
Proof.
  unfold bytes_ok. induction l as [|x l IH]; [reflexivity|].
  cbn [forallb]. intros H. apply andb_true_iff in H. destruct H as [H1 H2].
  rewrite (code_ok_byte _ H1), (IH H2). reflexivity.
Qed.

Lemma sub_codes_facts ts : forall qs st c codes st', sub_codes st c ts qs = (codes, st') ->
  forallb code_ok codes = true /\ (length ts = length qs -> length codes = length ts).
Proof.
  induction ts as [|t ts IH]; intros qs st c codes st' H.
  { cbn [sub_codes] in H. inv H. split; reflexivity. }
  destruct qs as [|q qs].
  { cbn [sub_codes] in H. inv H. split; [reflexivity|]. cbn [length]. intros; lia. }
  cbn [sub_codes] in H.
  pose proof (t_subscribe_code st t q c) as HC.
  destruct (t_subscribe st t q c) as [st1 r]. cbn [snd] in HC.
  destruct (sub_codes st1 c ts qs) as [codes1 st2] eqn:E1.
  apply IH in E1. destruct E1 as [F1 L1]. inv H.
  split.
  - cbn [forallb]. rewrite F1. rewrite andb_true_r.
    destruct r as [g|]; [apply code_ok_lt3; exact HC|reflexivity].
  - cbn [length]. intros HL. rewrite L1 by lia. reflexivity.
Qed.

(* sub_all threads the whole broker, sub_codes only the store: same codes, same store *)
Lemma sub_one_spec br c k t q br1 code rms : sub_one br c k t q = (br1, code, rms) ->
  br_store br1 = fst (t_subscribe (br_store br) t q c)
  /\ code = (match snd (t_subscribe (br_store br) t q c) with Some g => g | None => QosFailure end).
Proof.
  unfold sub_one. intros H.
  destruct (t_subscribe (br_store br) t q c) as [st r]. cbn [fst snd].
  destruct r as [g|].
  - inv H. split; [|reflexivity].
    cbn [with_store br_sess]. destruct (assoc_b k (br_sess br)); reflexivity.
  - inv H. split; reflexivity.
Qed.

Lemma sub_all_codes ts : forall qs br c k br1 codes rms,
  sub_all br c k ts qs = (br1, codes, rms) ->
  sub_codes (br_store br) c ts qs = (codes, br_store br1).
Proof.
  induction ts as [|t ts IH]; intros qs br c k br1 codes rms H.
  { cbn [sub_all] in H. inv H. reflexivity. }
  destruct qs as [|q qs].
  { cbn [sub_all] in H. inv H. reflexivity. }
  cbn [sub_all] in H. cbn [sub_codes].
  destruct (sub_one br c k t q) as [[bra code] rmsa] eqn:E1.
  destruct (sub_all bra c k ts qs) as [[brb codesb] rmsb] eqn:E2.
  inv H. apply sub_one_spec in E1. destruct E1 as [S1 C1].
  apply IH in E2.
  destruct (t_subscribe (br_store br) t q c) as [st1 r]. cbn [fst snd] in S1, C1.
  rewrite <- S1, E2, C1. reflexivity.
Qed.

(* the SUBACK built with the setters *)
Lemma add_codes_ok ret : forall cur, forallb code_ok ret = true ->
  add_codes cur ret = (cur ++ ret, true).
Proof.
  induction ret as [|x ret IH]; intros cur H; cbn [add_codes].
  - rewrite app_nil_r. reflexivity.
  - cbn [forallb] in H. apply andb_true_iff in H. destruct H as [H1 H2].
    rewrite H1, (IH _ H2), <- app_assoc. reflexivity.
Qed.

Definition mk_suback (pid : N) (codes : list N) : subackmsg :=
  fst (suback_add_codes (suback_set_pid suback_new pid) codes).

Lemma mk_suback_built pid codes : pid < 65536 -> forallb code_ok codes = true ->
  built_suback (mk_suback pid codes).
Proof.
  intros HP HC. unfold mk_suback. apply bsa_codes.
  - apply bsa_pid; [apply bsa_new|exact HP].
  - apply codes_bytes_ok. exact HC.
Qed.

Lemma mk_suback_abs pid codes : forallb code_ok codes = true ->
  abs_suback (mk_suback pid codes) = PSuback pid codes.
Proof.
  intros HC. unfold mk_suback, suback_add_codes.
  cbn [suback_set_pid suback_new sa_codes sa_h].
  rewrite (add_codes_ok _ _ HC). cbn [fst app].
  unfold abs_suback. cbn [sa_h sa_codes].
  f_equal.
  change (packet_id (h_dirty (set_pid (new_hdr T_SUBACK) pid)))
    with (packet_id (set_pid (new_hdr T_SUBACK) pid)).
  rewrite set_pid_packet_id.
  destruct (pid =? 0) eqn:E; [|reflexivity].
  assert (pid = 0) by lia. subst. reflexivity.
Qed.

Lemma suback_packet_ok pid codes : pid < 65536 -> forallb code_ok codes = true ->
  len codes + 2 <= maxRemainingLength -> packet_ok (PSuback pid codes) = true.
Proof.
  intros HP HC HL. cbn [packet_ok].
  change (forallb (fun c => existsb (N.eqb c) suback_codes) codes) with (forallb code_ok codes).
  rewrite HC. unfold body_len_ok. rewrite len_app, len_be16.
  apply andb_true_iff. split; [apply andb_true_iff; split; [|reflexivity]|].
  - apply N.ltb_lt. exact HP.
  - apply N.leb_le. lia.
Qed.

Lemma lenenc_suback pid codes c : pid < 65536 -> forallb code_ok codes = true ->
  len codes + 2 <= maxRemainingLength ->
  exists m2, lenenc (MSuback (mk_suback pid codes)) c = (MSuback m2, c, Ok (wire (PSuback pid codes))).
Proof.
  intros HP HC HL.
  pose proof (encode_suback (mk_suback pid codes) (snd (suback_len (mk_suback pid codes)))
                (mk_suback_built _ _ HP HC)) as E.
  rewrite (mk_suback_abs _ _ HC) in E. specialize (E (suback_packet_ok _ _ HP HC HL)).
  unfold lenenc. cbn [do_len].
  destruct (suback_len (mk_suback pid codes)) as [m1 l].
  cbn [snd] in E. destruct E as [_ E]. destruct (E (le_n _)) as [m2 [E2 _]].
  cbn [do_enc]. rewrite E2. exists m2. reflexivity.
Qed.

Lemma suback : C07_suback.
Proof.
  intros br c k m br' o H HL HPos HP HLen.
  unfold process_subscribe in H.
  destruct (sub_all br c k (s_topics m) (s_qos m)) as [[br1 codes] rms] eqn:ES.
  apply sub_all_codes in ES. rewrite ES.
  pose proof (sub_codes_facts _ _ _ _ _ _ ES) as [HC HN]. specialize (HN HL).
  assert (HLen' : len codes + 2 <= maxRemainingLength).
  { unfold len. rewrite HN. exact HLen. }
  fold (mk_suback (packet_id (s_h m)) codes) in H.
  destruct (lenenc_suback (packet_id (s_h m)) codes (br_counter br1) HP HC HLen') as [m2 E].
  rewrite E in H.
  destruct (send_pubs br1 c rms) as [br2 o2] eqn:EP. inv H.
  apply send_pubs_cases in EP. destruct EP as [CE OT].
  exists o2. split; [reflexivity|]. split; [exact OT|].
  split; [rewrite (ceq_store _ _ CE); reflexivity|exact HN].
Qed.

Print Assumptions puback.
Print Assumptions pubrec.
Print Assumptions pubrec_other_sessions.
Print Assumptions pubcomp.
Print Assumptions unsuback.
Print Assumptions suback.
