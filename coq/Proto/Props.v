(* Statements of the broker-level properties over the event-step model Proto/Broker.v.
   Only definitions: the proofs are in Proto/Proofs*.v and the property files close them. *)
From Coq Require Import Permutation.
From Base Require Import Tactics Bytes.
From Gen Require Import Tables.
From Codec Require Import Wire Impl Script Statements.
From Topics Require Import Model Spec.
From Ackq Require Import Model Spec.
From Proto Require Import Broker.
Open Scope N_scope.

(* ---------- reading outputs back with the model's own decoder ---------- *)

Record pfields := mkPF { pf_topic : bytes; pf_payload : bytes; pf_qos : N; pf_retain : bool; pf_dup : bool }.

Definition fields_of (m : pubmsg) : pfields :=
  mkPF (p_topic m) (p_payload m) (pub_qos m) (pub_retain m) (pub_dup m).

Definition pub_fields (b : bytes) : option pfields :=
  match pub_decode pub_new b with
  | Ok (m, n) => if (n =? length b)%nat then Some (fields_of m) else None
  | _ => None
  end.

(* what one output delivers: (receiver, fields) *)
Definition delivery (x : out) : option (N * pfields) :=
  match x with
  | OPkt d b => match pub_fields b with Some f => Some (d, f) | None => None end
  | OCall s fl t p => Some (s, mkPF t p ((fl / 2) mod 4) (N.testbit fl 0) (N.testbit fl 3))
  | OClose _ => None
  end.

(* ---------- the PUBLISH messages the broker hands to its fan-out ---------- *)

Inductive fwd : pubmsg -> Prop :=
| fwd_dec raw m n : pub_decode pub_new raw = Ok (m, n) -> fwd m            (* decoded from the wire *)
| fwd_built m : built_pub m -> fwd m                                       (* built with the setters (a will) *)
| fwd_qos m q m' : fwd m -> pub_set_qos m q = Some m' -> fwd m'
| fwd_retain m r : fwd m -> fwd (pub_set_retain m r)
| fwd_enc m c m' c' b : fwd m -> lenenc (MPub m) c = (MPub m', c', Ok b) -> fwd m'.

(* the message can be encoded at all: what MQTT demands of its fields *)
Definition enc_ok (m : pubmsg) : Prop :=
  valid_topic (p_topic m) = true /\ str_ok (p_topic m) = true /\ bytes_ok (p_payload m) = true
  /\ len (p_topic m) + len (p_payload m) + 4 <= maxRemainingLength
  /\ packet_id (p_h m) < 65536.

(* C01 / C08 (codec side): whatever the fan-out did to a message before - QoS changes, retain flag
   toggling, earlier encodes - writing it yields a packet that decodes to the same topic, a
   byte-identical payload and the current QoS, retain and dup flags *)
Definition C01_forward_roundtrip : Prop := forall m c,
  fwd m -> enc_ok m ->
  exists m' c' b, lenenc (MPub m) c = (MPub m', c', Ok b)
    /\ pub_fields b = Some (fields_of m)
    /\ fields_of m' = fields_of m.

(* ---------- C01: fan-out ---------- *)

(* an accepted PUBLISH is delivered to exactly the subscribers the topic store reports for its topic
   and QoS - one delivery per reported (subscriber, QoS) pair, in that order, same topic, byte-identical
   payload, that QoS, retain flag 0 - and to nobody else; nobody is closed *)
Definition C01_fanout : Prop := forall br m br' o,
  fwd m -> enc_ok m ->
  on_publish br m = (br', o) ->
  match t_subscribers (br_store br') (p_topic m) (pub_qos m) with
  | None => o = []
  | Some subs =>
      map delivery o = map (fun sq => Some (fst sq, mkPF (p_topic m) (p_payload m) (snd sq) false (pub_dup m))) subs
  end.

(* the subscription tree is not changed by a fan-out; the retained tree only by the retain step *)
Definition C01_fanout_store : Prop := forall br m br' o,
  on_publish br m = (br', o) ->
  sroot (br_store br') = sroot (br_store br)
  /\ (pub_retain m = false -> br_store br' = br_store br /\ br_raw br' = br_raw br)
  /\ br_sess br' = br_sess br /\ br_conns br' = br_conns br.

(* ---------- C07: SUBSCRIBE / UNSUBSCRIBE ---------- *)

(* the return codes and the store after subscribing the filters one by one *)
Fixpoint sub_codes (st : store) (c : N) (ts : list bytes) (qs : list N) : list N * store :=
  match ts, qs with
  | t :: ts', q :: qs' =>
      let '(st1, r) := t_subscribe st t q c in
      let '(codes, st2) := sub_codes st1 c ts' qs' in
      ((match r with Some g => g | None => QosFailure end) :: codes, st2)
  | _, _ => ([], st)
  end.

Definition only_to (c : N) (o : list out) : Prop :=
  forall x, In x o -> match x with OPkt d _ => d = c | _ => False end.

(* every SUBSCRIBE is answered by exactly one SUBACK, first, with the request's identifier and one code
   per filter in request order: the granted QoS, or 0x80; everything else it writes goes to the same
   connection (the retained messages); the subscription tree afterwards is the one obtained by subscribing
   the filters in order with this connection as subscriber *)
Definition C07_suback : Prop := forall br c k m br' o,
  process_subscribe br c k m = (br', o) ->
  length (s_topics m) = length (s_qos m) -> (0 < length (s_topics m))%nat ->
  packet_id (s_h m) < 65536 -> N.of_nat (length (s_topics m)) + 2 <= maxRemainingLength ->
  let '(codes, st) := sub_codes (br_store br) c (s_topics m) (s_qos m) in
  exists rest, o = OPkt c (wire (PSuback (packet_id (s_h m)) codes)) :: rest
    /\ only_to c rest
    /\ sroot (br_store br') = sroot st /\ length codes = length (s_topics m).

Fixpoint unsub_store (st : store) (c : N) (ts : list bytes) : store :=
  match ts with
  | [] => st
  | t :: r => unsub_store (fst (t_unsubscribe st t c)) c r
  end.

(* every UNSUBSCRIBE is answered by an UNSUBACK with the same identifier, and every listed filter is
   unsubscribed for this connection *)
Definition C07_unsuback : Prop := forall br c k u br1 o r,
  process_incoming br c k [] (MUnsub u) = (br1, o, r) ->
  packet_id (u_h u) < 65536 ->
  o = [OPkt c (wire (PAck T_UNSUBACK (packet_id (u_h u))))] /\ r = PContinue
  /\ br_store br1 = unsub_store (br_store br) c (u_topics u).

(* ---------- C02: the receiving side of QoS 1 / 2 ---------- *)

Definition C02_puback : Prop := forall br c k raw p br1 o r,
  process_incoming br c k raw (MPub p) = (br1, o, r) -> pub_qos p = 1 -> packet_id (p_h p) < 65536 ->
  exists rest, o = OPkt c (wire (PAck T_PUBACK (packet_id (p_h p)))) :: rest /\ r = PContinue
    /\ on_publish br p = (br1, rest).

(* a QoS 2 PUBLISH is answered by PUBREC and handed to nobody; the subscription tree, the retained
   store and the other sessions are untouched *)
Definition C02_pubrec : Prop := forall br c k raw p br1 o r,
  process_incoming br c k raw (MPub p) = (br1, o, r) -> pub_qos p = 2 -> packet_id (p_h p) < 65536 ->
  o = [OPkt c (wire (PAck T_PUBREC (packet_id (p_h p))))] /\ r = PContinue
  /\ br_store br1 = br_store br /\ br_raw br1 = br_raw br /\ br_conns br1 = br_conns br.

(* a PUBREL is answered by PUBCOMP, last, after the hand-over of exactly the entries the ack queue
   releases (C13: a prefix of what was registered, each at most once) *)
Definition C02_pubcomp : Prop := forall br c k raw h s br1 o r,
  process_incoming br c k raw (MAck h) = (br1, o, r) -> h_type h = T_PUBREL -> packet_id h < 65536 ->
  assoc_b k (br_sess br) = Some s ->
  let a1 := fst (s_ack (se_pub2in s) T_PUBREL (packet_id h) raw) in
  let '(a2, rel) := s_acked a1 in
  exists o1 br2, release_pub2in (upd_pub2in br k (fun _ => a2)) rel = (br2, o1)
    /\ o = o1 ++ [OPkt c (wire (PAck T_PUBCOMP (packet_id h)))] /\ r = PContinue.

(* ---------- C05: only the offending connection can be closed ---------- *)

Definition closes (o : list out) : list N :=
  flat_map (fun x => match x with OClose d => [d] | _ => [] end) o.

Definition C05_only_self_closed : Prop := forall fuel bufsize br c k b br' o rest,
  proc fuel bufsize br c k b = (br', o, rest) -> forall d, In d (closes o) -> d = c.
Definition C05_connect_only_self_closed : Prop := forall bufsize br c a b br' o r,
  connect bufsize br c a b = (br', o, r) -> forall d, In d (closes o) -> d = c.
Definition C05_stop_only_self_closed : Prop := forall br c br' o,
  stop br c = (br', o) -> forall d, In d (closes o) -> d = c.

(* ---------- C09: the will ---------- *)

(* teardown publishes the stored will exactly when the will flag is still set, after the connection's
   subscriptions have been removed *)
Definition C09_stop_will : Prop := forall br c k s w,
  conn_sess br c = Some (k, s) -> se_willflag s = true -> se_will s = Some w ->
  exists br1 br2 o, stop br c = (br2, OClose c :: o) /\ snd (on_publish br1 w) = o
    /\ sroot (br_store br1) = sroot (fold_left (fun st tq => fst (t_unsubscribe st (fst tq) c)) (se_topics s) (br_store br))
    /\ rroot (br_store br1) = rroot (br_store br) /\ br_raw br1 = br_raw br /\ conn_key br1 c = None.
Definition C09_stop_no_will : Prop := forall br c k s,
  conn_sess br c = Some (k, s) -> se_willflag s = false ->
  exists br2, stop br c = (br2, [OClose c]).

(* DISCONNECT clears the will flag and ends the connection *)
Definition C09_disconnect : Prop := forall br c k raw h br1 o r s,
  process_incoming br c k raw (MEmpty h) = (br1, o, r) -> h_type h = T_DISCONNECT ->
  assoc_b k (br_sess br) = Some s ->
  r = PStop /\ o = [] /\ exists s1, assoc_b k (br_sess br1) = Some s1 /\ se_willflag s1 = false
    /\ se_will s1 = se_will s /\ se_topics s1 = se_topics s /\ se_clean s1 = se_clean s.

(* the will a connection leaves behind is the one of its own CONNECT: topic, payload, QoS and retain
   flag as given there, for a fresh and for a resumed session alike *)
Definition C09_connect_will : Prop := forall bufsize br c b br' o rest req n total,
  connect bufsize br c true b = (br', o, CAccepted rest) ->
  conn_decode conn_new (firstn total b) = Ok (req, n) -> rest = skipn total b ->
  exists k s, conn_sess br' c = Some (k, s)
    /\ se_willflag s = conn_willflag req /\ se_will s = build_will req.

(* ---------- C10: sessions ---------- *)

Definition C10_connect_session : Prop := forall bufsize br c b br' o rest req n total,
  connect bufsize br c true b = (br', o, CAccepted rest) ->
  conn_decode conn_new (firstn total b) = Ok (req, n) -> rest = skipn total b ->
  (length (c_cid req) =? 0)%nat = false ->
  let key := c_cid req in
  let old := if conn_clean req then None else assoc_b key (br_sess br) in
  o = [OPkt c [32; 2; (match old with Some _ => 1 | None => 0 end); 0]]
  /\ exists s, conn_sess br' c = Some (key, s)
       /\ se_clean s = conn_clean req
       /\ se_topics s = (match old with Some s0 => se_topics s0 | None => [] end)
       /\ sroot (br_store br') = sroot (resubscribe (br_store br) c (se_topics s)).

(* a clean session is discarded at the end of its connection, a persistent one is kept with its subscriptions *)
Definition C10_stop_session : Prop := forall br c k s br' o,
  conn_sess br c = Some (k, s) -> stop br c = (br', o) ->
  (se_clean s = true -> assoc_b k (br_sess br') = None)
  /\ (se_clean s = false -> exists s', assoc_b k (br_sess br') = Some s' /\ se_topics s' = se_topics s).

(* ---------- C11: the first packet ---------- *)

(* the CONNACK code follows the decoder's verdict: unsupported level / name -> 1, identifier -> 2,
   credentials -> 4, anything else undecodable -> closed without CONNACK *)
Definition C11_codes : Prop := forall bufsize br c authok b br' o r total,
  connect bufsize br c authok b = (br', o, r) ->
  (2 <= length b)%nat ->
  (match uvarint4 (tl b) with Some (rl, m) => total = N.to_nat (rl + 1 + N.of_nat m) /\ (total <= length b)%nat | None => False end) ->
  match conn_decode conn_new (firstn total b) with
  | Ok _ => if authok then exists sp, o = [OPkt c [32; 2; sp; 0]] /\ r = CAccepted (skipn total b)
            else o = [OPkt c [32; 2; 0; 4]; OClose c] /\ r = CRefused
  | Err cls _ => (cls = 1 \/ cls = 2 -> o = [OPkt c [32; 2; 0; cls]; OClose c]) /\ (cls <> 1 -> cls <> 2 -> o = [OClose c]) /\ r = CRefused
  | Panic => False
  end.
