(* End-to-end proofs (Proto/PropsE2E.v): the broker model composed with the topic-store specification.

   The broker's store is followed through SUBSCRIBE, UNSUBSCRIBE and PUBLISH as the result of a history
   of store operations; the broker-level fan-out theorem (ProofsFanout.fanout) says what is written in
   terms of what the store reports, and the store theorems of C06 (ProofsTrie.subscribers_partial,
   ProofsRetained.retained_partial) say what the store reports after any in-domain history in terms of
   the abstract subscription / retained lists of section 4.7.

   E2E_publish_tracks is FALSE as stated (publish_tracks_refuted): the retain step of onPublish stores the
   message only after it has been written into a buffer and read back (topicsMgr.Retain encodes and
   re-decodes); a message that cannot be written, or whose bytes do not read back, is fanned out but NOT
   retained, while the history of the statement records an ORetain.  The corrected statement carries
   exactly that condition (retain_writes), which holds for every forwarded message that can be encoded
   (fwd m, enc_ok m: publish_tracks_fwd). *)
From Coq Require Import Permutation.
From Base Require Import Tactics Bytes.
From Gen Require Import Tables.
From Codec Require Import Wire Impl Script Statements.
From Topics Require Import Model Spec ProofsTrie ProofsRetained.
From Ackq Require Import Model Spec.
From Proto Require Import Broker Props PropsE2E ProofsForward ProofsFanout ProofsStruct ProofsSub.
Open Scope N_scope.

(* ---------- histories ---------- *)

Lemma run_ops_app h l : run_ops (h ++ l) = fold_left apply_op l (run_ops h).
Proof. unfold run_ops. apply fold_left_app. Qed.

Lemma tracks_app br h br1 l :
  tracks br h ->
  br_store br1 = fold_left apply_op l (br_store br) ->
  forallb op_in_domain l = true ->
  tracks br1 (h ++ l).
Proof.
  intros [TS TD] HS HD. split.
  - rewrite run_ops_app, HS, TS. reflexivity.
  - rewrite forallb_app, TD, HD. reflexivity.
Qed.

(* ---------- SUBSCRIBE ---------- *)

Lemma sub_codes_run c ts : forall qs st,
  forallb (fun t => good_filter t || refused t) ts = true ->
  snd (sub_codes st c ts qs) = fold_left apply_op (sub_ops c ts qs) st
  /\ forallb op_in_domain (sub_ops c ts qs) = true.
Proof.
  induction ts as [|t ts IH]; intros qs st HD.
  { split; reflexivity. }
  destruct qs as [|q qs].
  { split; reflexivity. }
  cbn [forallb] in HD. apply andb_true_iff in HD. destruct HD as [HD1 HD2].
  unfold sub_ops. cbn [sub_codes combine map fold_left forallb fst snd apply_op op_in_domain].
  fold (sub_ops c ts qs).
  destruct (t_subscribe st t q c) as [st1 r] eqn:E1. cbn [fst].
  destruct (IH qs st1 HD2) as [I1 I2].
  destruct (sub_codes st1 c ts qs) as [codes st2] eqn:E2. cbn [snd] in I1 |- *.
  split; [exact I1|]. rewrite HD1, I2. reflexivity.
Qed.

Lemma process_subscribe_store br c k m br1 o :
  process_subscribe br c k m = (br1, o) ->
  br_store br1 = snd (sub_codes (br_store br) c (s_topics m) (s_qos m)).
Proof.
  unfold process_subscribe. intros H.
  destruct (sub_all br c k (s_topics m) (s_qos m)) as [[bra codes] rms] eqn:E1.
  apply sub_all_codes in E1. rewrite E1. cbn [snd].
  destruct (lenenc _ (br_counter bra)) as [[m1 c1] r].
  destruct r as [b|?k ?n|]; try (inv H; reflexivity).
  destruct (send_pubs bra c rms) as [br2 o2] eqn:E2. inv H.
  apply send_pubs_cases in E2. destruct E2 as [A2 _]. exact (ceq_store _ _ A2).
Qed.

Lemma subscribe_tracks : E2E_subscribe_tracks.
Proof.
  intros br h c k m br1 o T HD _ H.
  apply process_subscribe_store in H.
  destruct (sub_codes_run c (s_topics m) (s_qos m) (br_store br) HD) as [S1 S2].
  apply (tracks_app br h br1 _ T); [rewrite H; exact S1|exact S2].
Qed.

(* ---------- UNSUBSCRIBE ---------- *)

Lemma unsub_store_run c ts : forall st,
  unsub_store st c ts = fold_left apply_op (map (fun t => OUnsub t c) ts) st.
Proof.
  induction ts as [|t r IH]; intros st; [reflexivity|].
  cbn [unsub_store map fold_left apply_op]. apply IH.
Qed.

Lemma unsub_ops_domain c ts : c <> 0 ->
  forallb (fun t => good_filter t || refused t) ts = true ->
  forallb op_in_domain (map (fun t => OUnsub t c) ts) = true.
Proof.
  intros HC. induction ts as [|t r IH]; intros HD; [reflexivity|].
  cbn [forallb] in HD. apply andb_true_iff in HD. destruct HD as [HD1 HD2].
  cbn [map forallb op_in_domain]. rewrite HD1, (IH HD2).
  assert (E : (c =? 0) = false) by (apply N.eqb_neq; exact HC).
  rewrite E. reflexivity.
Qed.

Lemma unsubscribe_tracks : E2E_unsubscribe_tracks.
Proof.
  intros br h c k ts T HC HD.
  apply (tracks_app br h _ _ T).
  - rewrite unsub_all_store. apply unsub_store_run.
  - apply unsub_ops_domain; assumption.
Qed.

(* ---------- PUBLISH: the retain step ---------- *)

(* the condition under which topicsMgr.Retain reaches the store for a message with a payload and a topic
   the splitter accepts: the message can be written and the written bytes read back *)
Definition retain_writes (br : broker) (m : pubmsg) : Prop :=
  pub_retain m = true -> (length (p_payload m) =? 0)%nat = false -> snd (levels_lazy (p_topic m)) = false ->
  exists m1 c1 b stored n,
    lenenc (MPub m) (br_counter br) = (MPub m1, c1, Ok b) /\ pub_decode pub_new b = Ok (stored, n).

Lemma fwd_retain_writes br m : fwd m -> enc_ok m -> retain_writes br m.
Proof.
  intros F EO _ _ _.
  destruct (forward_roundtrip_fwd m (br_counter br) F EO) as (m' & c' & b & H1 & H2 & _).
  unfold pub_fields in H2.
  destruct (pub_decode pub_new b) as [[stored n]|?k ?n|] eqn:ED; try discriminate H2.
  exists m', c', b, stored, n. split; [exact H1|exact ED].
Qed.

(* a refused removal leaves the store as it was *)
Lemma t_retain_refused_clear st t q st' :
  t_retain st (mkR t [] q) = (st', false) -> st' = st.
Proof.
  unfold t_retain. cbn [r_topic r_payload length Nat.eqb].
  destruct (levels_lazy t) as [ls bad]. destruct bad.
  - intros H. inv H. reflexivity.
  - destruct (rremove ls (rroot st)); intros H; inv H. reflexivity.
Qed.

Lemma retain_msg_store br m br1 m1 :
  retain_msg br m = (br1, m1) -> pub_retain m = true -> retain_writes br m ->
  br_store br1 = fst (t_retain (br_store br) (mkR (p_topic m) (p_payload m) (pub_qos m))).
Proof.
  unfold retain_msg. intros H HR W. unfold retain_writes in W.
  destruct (levels_lazy (p_topic m)) as [ls bad] eqn:EL. cbn [snd] in W.
  destruct (length (p_payload m) =? 0)%nat eqn:EP.
  - assert (P0 : p_payload m = []) by (destruct (p_payload m); [reflexivity|discriminate EP]).
    rewrite P0.
    destruct (t_retain (br_store br) (mkR (p_topic m) [] (pub_qos m))) as [st ok] eqn:ET. cbn [fst].
    destruct ok.
    + inv H. reflexivity.
    + inv H. symmetry. exact (t_retain_refused_clear _ _ _ _ ET).
  - destruct bad.
    + inv H. reflexivity.
    + destruct (W HR eq_refl eq_refl) as (mx & cx & b & stored & n & W1 & W2).
      rewrite W1, W2 in H.
      destruct (t_retain (br_store br) (mkR (p_topic m) (p_payload m) (pub_qos m))) as [st ok].
      inv H. reflexivity.
Qed.

Lemma on_publish_store br m br1 o :
  on_publish br m = (br1, o) -> retain_writes br m ->
  br_store br1 = fold_left apply_op
                   (if pub_retain m then [ORetain (mkR (p_topic m) (p_payload m) (pub_qos m))] else [])
                   (br_store br).
Proof.
  unfold on_publish. intros H W.
  destruct (if pub_retain m then retain_msg br m else (br, m)) as [bra ma] eqn:E1.
  assert (S1 : br_store bra = fold_left apply_op
                   (if pub_retain m then [ORetain (mkR (p_topic m) (p_payload m) (pub_qos m))] else [])
                   (br_store br)).
  { destruct (pub_retain m) eqn:HR.
    - cbn [fold_left apply_op]. exact (retain_msg_store _ _ _ _ E1 HR W).
    - inv E1. reflexivity. }
  destruct (t_subscribers (br_store bra) (p_topic ma) (pub_qos ma)) as [subs|].
  - match type of H with context [fan_out bra ?x subs] =>
      destruct (fan_out bra x subs) as [[br2 m3] o2] eqn:E2 end.
    inv H. apply fan_out_cases in E2. destruct E2 as [A2 _].
    rewrite (ceq_store _ _ A2). exact S1.
  - inv H. exact S1.
Qed.

Definition E2E_publish_tracks_corrected : Prop := forall br h m br1 o,
  tracks br h -> (good_name (p_topic m) || snd (levels_lazy (p_topic m))) = true ->
  retain_writes br m ->                                   (* added: see the head of the file *)
  on_publish br m = (br1, o) ->
  tracks br1 (h ++ (if pub_retain m then [ORetain (mkR (p_topic m) (p_payload m) (pub_qos m))] else [])).

Lemma publish_tracks : E2E_publish_tracks_corrected.
Proof.
  intros br h m br1 o T HD W H.
  apply (tracks_app br h br1 _ T).
  - exact (on_publish_store _ _ _ _ H W).
  - destruct (pub_retain m); [|reflexivity].
    cbn [forallb op_in_domain r_topic]. rewrite HD. reflexivity.
Qed.

(* the form used below: every message the broker hands to its fan-out that MQTT allows to be written *)
Definition E2E_publish_tracks_fwd : Prop := forall br h m br1 o,
  tracks br h -> (good_name (p_topic m) || snd (levels_lazy (p_topic m))) = true ->
  fwd m -> enc_ok m ->                                    (* added *)
  on_publish br m = (br1, o) ->
  tracks br1 (h ++ (if pub_retain m then [ORetain (mkR (p_topic m) (p_payload m) (pub_qos m))] else [])).

Lemma publish_tracks_fwd : E2E_publish_tracks_fwd.
Proof.
  intros br h m br1 o T HD F EO H.
  exact (publish_tracks br h m br1 o T HD (fwd_retain_writes br m F EO) H).
Qed.

(* the statement without the condition is false: a PUBLISH object (topic "a", payload 01, retain flag set)
   whose header is marked clean with an empty cached buffer is "written" as zero bytes, which do not read
   back; onPublish goes on to the fan-out and the retained tree stays empty *)
Definition cx_pub : pubmsg := mkPub (mkHdr 0 49 None [] false false None) [97] [1].

Lemma publish_tracks_refuted : ~ E2E_publish_tracks.
Proof.
  intros H.
  assert (HD : (good_name (p_topic cx_pub) || snd (levels_lazy (p_topic cx_pub))) = true) by (vm_compute; reflexivity).
  destruct (H broker0 [] cx_pub _ _ tracks_initial HD (surjective_pairing _)) as [HS _].
  vm_compute in HS. discriminate HS.
Qed.

(* ---------- C01 end to end ---------- *)

Lemma a_run_app h l : a_run (h ++ l) = fold_left a_apply l (a_run h).
Proof. unfold a_run. apply fold_left_app. Qed.

Lemma end_to_end : C01_end_to_end.
Proof.
  intros br h m br1 o T F EO GN H.
  assert (HD : (good_name (p_topic m) || snd (levels_lazy (p_topic m))) = true) by (rewrite GN; reflexivity).
  pose proof (publish_tracks_fwd br h m br1 o T HD F EO H) as [TS TD].
  pose proof (fanout br m br1 o F EO H) as FO.
  assert (VQ : valid_qos (pub_qos m) = true).
  { destruct (fwd_finv m F) as [IT _]. pose proof (pubtf_qos _ IT) as Q.
    rewrite <- pub_qos_qf in Q. unfold valid_qos. lia. }
  destruct (subscribers_partial _ (p_topic m) (pub_qos m) TD GN VQ) as (l & L1 & L2).
  rewrite TS, L1 in FO.
  exists l. split; [|exact FO].
  rewrite a_run_app in L2.
  destruct (pub_retain m); exact L2.
Qed.

(* ---------- C08 end to end ---------- *)

Lemma retained_for : C08_retained_for.
Proof.
  intros br h f [TS TD] GF. rewrite TS. exact (retained_partial h f TD GF).
Qed.

Print Assumptions subscribe_tracks.
Print Assumptions unsubscribe_tracks.
Print Assumptions publish_tracks.
Print Assumptions publish_tracks_fwd.
Print Assumptions publish_tracks_refuted.
Print Assumptions end_to_end.
Print Assumptions retained_for.
