(* A retained update racing with a new subscription to its topic (C08: "with retained updates concurrent
   to new subscriptions").  The publisher's connection performs two operations on the topic store -
   store the retained message, look the subscribers up (and forward to them) - and so does the
   subscribing connection - register the subscription, read the retained messages (and send them).
   Each operation is atomic (it runs under the store's own lock: Locks/Discipline.v); the ORDER of
   the two operations of each side is read off the source (tie T1).  For EVERY interleaving of the two
   sides the subscription is sent the new value - as the retained message, as a forward, or both. *)
From Coq Require Import List Bool.
From Gen Require Import Tables.
Import ListNotations.

Inductive act := PRetain | PLookup | SRegister | SRead.

Record rstate := mkRS {
  store_new : bool;     (* the retained store holds the new value *)
  registered : bool;    (* the subscription is in the subscription tree *)
  sent_new : bool       (* the new value was sent to the subscriber *)
}.

Definition rstep (s : rstate) (a : act) : rstate :=
  match a with
  | PRetain => mkRS true (registered s) (sent_new s)
  | PLookup => mkRS (store_new s) (registered s) (sent_new s || registered s)   (* forwarded to whoever is registered *)
  | SRegister => mkRS (store_new s) true (sent_new s)
  | SRead => mkRS (store_new s) (registered s) (sent_new s || store_new s)      (* what the store holds is sent as retained *)
  end.

Definition publisher (retain_first : bool) : list act := if retain_first then [PRetain; PLookup] else [PLookup; PRetain].
Definition subscriber (register_first : bool) : list act := if register_first then [SRegister; SRead] else [SRead; SRegister].

(* all interleavings of two sequences *)
Fixpoint merges (a : list act) : list act -> list (list act) :=
  fix inner (b : list act) : list (list act) :=
    match a, b with
    | [], _ => [b]
    | _, [] => [a]
    | x :: a', y :: b' => map (cons x) (merges a' b) ++ map (cons y) (inner b')
    end.

Definition run (sched : list act) : rstate := fold_left rstep sched (mkRS false false false).

(* the orders the source has now *)
Definition schedules : list (list act) :=
  merges (publisher publish_retains_before_lookup) (subscriber subscribe_registers_before_retained).

Definition C08_update_not_missed : Prop := forall sched, In sched schedules -> sent_new (run sched) = true.

Lemma update_not_missed : C08_update_not_missed.
Proof.
  unfold C08_update_not_missed. apply (proj1 (forallb_forall (fun sc => sent_new (run sc)) schedules)).
  vm_compute. reflexivity.
Qed.

(* all six interleavings are there *)
Example six_schedules : length schedules = 6.
Proof. vm_compute. reflexivity. Qed.

(* the statement depends on both orders: with either side reversed some interleaving loses the update *)
Example reversed_publisher_loses : exists sched, In sched (merges (publisher false) (subscriber true)) /\ sent_new (run sched) = false.
Proof. exists [PLookup; SRegister; SRead; PRetain]. split; [vm_compute; tauto | reflexivity]. Qed.
Example reversed_subscriber_loses : exists sched, In sched (merges (publisher true) (subscriber false)) /\ sent_new (run sched) = false.
Proof. exists [SRead; PRetain; PLookup; SRegister]. split; [vm_compute; tauto | reflexivity]. Qed.
