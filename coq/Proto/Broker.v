(* Executable model of the broker (service/server.go handleConnection + getSession,
   service/service.go start / stop, service/process.go processIncoming and friends,
   Server.Publish / Subscribe / Unsubscribe / Close) as an event-step machine.

   One event - the first bytes of a connection, bytes arriving on an accepted connection, a
   connection dropping, an in-process call - is processed to completion: that is what the code
   does per connection (one processor goroutine), and across connections whenever the driver
   separates events by PINGREQ/PINGRESP barriers.  The model is built from the other models:
   packets are decoded, changed and encoded with the codec model (Codec/Impl.v, including the
   in-place changes a forwarded PUBLISH undergoes), subscriptions and retained messages live in
   the topic store model (Topics/Model.v), incoming QoS 2 exchanges in the ack-queue
   specification (Ackq/Spec.v, proved equal to the ring implementation: C13). *)
From Base Require Import Tactics Bytes.
From Gen Require Import Tables.
From Codec Require Import Wire Impl Script.
From Topics Require Import Model.
From Ackq Require Import Model Spec.
Open Scope N_scope.

(* ---------- state ---------- *)

Record sess := mkSess {
  se_clean : bool;
  se_willflag : bool;                  (* Cmsg.WillFlag(): cleared by DISCONNECT *)
  se_will : option pubmsg;             (* Session.Will *)
  se_topics : list (bytes * N);        (* Session.topics: filter -> requested QoS *)
  se_pub2in : aspec                    (* incoming QoS 2 PUBLISH waiting for PUBREL *)
}.

Record broker := mkB {
  br_store : store;                    (* subscription trie (subscriber = connection number, or
                                          >= 1000 for in-process subscribers) and retained trie *)
  br_raw : list (bytes * pubmsg);      (* the stored retained message object per topic *)
  br_sess : list (bytes * sess);       (* session store: client id -> session *)
  br_conns : list (N * bytes);         (* live accepted connections: number -> session key *)
  br_counter : N;                      (* message.gPacketID *)
  br_anon : N;                         (* source of generated client ids *)
  br_closed : bool                     (* Server.Close has run *)
}.

Definition broker0 : broker := mkB store0 [] [] [] 0 0 false.

Inductive out :=
| OPkt (c : N) (b : bytes)             (* bytes written to connection c *)
| OClose (c : N)                       (* connection c closed by the broker *)
| OCall (s : N) (flags : N) (topic payload : bytes).   (* in-process subscriber s called with a message *)

Definition is_conn_sub (s : N) : bool := s <? 1000.

Fixpoint assoc_b {A} (k : bytes) (l : list (bytes * A)) : option A :=
  match l with
  | [] => None
  | (k', v) :: r => if beq_bytes k' k then Some v else assoc_b k r
  end.
Definition del_b {A} (k : bytes) (l : list (bytes * A)) : list (bytes * A) :=
  filter (fun kv => negb (beq_bytes (fst kv) k)) l.
Definition set_b {A} (k : bytes) (v : A) (l : list (bytes * A)) : list (bytes * A) := (k, v) :: del_b k l.

Definition conn_key (br : broker) (c : N) : option bytes :=
  match find (fun cv => fst cv =? c) (br_conns br) with Some cv => Some (snd cv) | None => None end.
Definition conn_sess (br : broker) (c : N) : option (bytes * sess) :=
  match conn_key br c with
  | Some k => match assoc_b k (br_sess br) with Some s => Some (k, s) | None => None end
  | None => None
  end.

Definition with_store (br : broker) (st : store) := mkB st (br_raw br) (br_sess br) (br_conns br) (br_counter br) (br_anon br) (br_closed br).
Definition with_raw (br : broker) (r : list (bytes * pubmsg)) := mkB (br_store br) r (br_sess br) (br_conns br) (br_counter br) (br_anon br) (br_closed br).
Definition with_sess (br : broker) (k : bytes) (s : sess) := mkB (br_store br) (br_raw br) (set_b k s (br_sess br)) (br_conns br) (br_counter br) (br_anon br) (br_closed br).
Definition with_counter (br : broker) (c : N) := mkB (br_store br) (br_raw br) (br_sess br) (br_conns br) c (br_anon br) (br_closed br).

(* ---------- writing a message: l := Len(); Encode into exactly l bytes ---------- *)

Definition lenenc (m : msg) (c : N) : msg * N * outcome bytes :=
  let '(m1, l) := do_len m in do_enc m1 c l.

(* writeMessage(msg) on connection d for a message without identifier assignment *)
Definition send (br : broker) (d : N) (m : msg) : broker * list out :=
  match lenenc m (br_counter br) with
  | (_, c', Ok b) => (with_counter br c', [OPkt d b])
  | (_, c', _) => (with_counter br c', [])
  end.

Definition mk_ack (ty pid : N) : msg := MAck (set_pid (ack_new ty) pid).

(* ---------- retained store ---------- *)

(* topicsMgr.Retain(msg): the message object is encoded and re-decoded into the store; Len/Encode
   change msg itself (remaining length, and an identifier is assigned to an id-less QoS>0 message) *)
Definition retain_msg (br : broker) (m : pubmsg) : broker * pubmsg :=
  let topic := p_topic m in
  let '(ls, bad) := levels_lazy topic in
  if (length (p_payload m) =? 0)%nat then
    (* clear *)
    let '(st, ok) := t_retain (br_store br) (mkR topic [] (pub_qos m)) in
    (if ok then with_raw (with_store br st) (del_b topic (br_raw br)) else br, m)
  else if bad then
    (with_store br (fst (t_retain (br_store br) (mkR topic (p_payload m) (pub_qos m)))), m)
  else
    match lenenc (MPub m) (br_counter br) with
    | (MPub m1, c', Ok b) =>
        match pub_decode pub_new b with
        | Ok (stored, _) =>
            let '(st, _) := t_retain (br_store br) (mkR topic (p_payload m) (pub_qos m)) in
            (with_raw (with_store (with_counter br c') st) (set_b topic stored (br_raw br)), m1)
        | _ => (with_counter br c', m1)
        end
    | (MPub m1, c', _) => (with_counter br c', m1)
    | _ => (br, m)
    end.

(* the stored message objects for the results of Retained(filter) *)
Definition retained_for (br : broker) (filter : bytes) : list pubmsg :=
  match t_retained (br_store br) filter with
  | Some l => flat_map (fun r => match assoc_b (r_topic r) (br_raw br) with Some m => [m] | None => [] end) l
  | None => []
  end.

(* ---------- fan-out: onPublish ---------- *)

(* the onpub closure of connection d: clear the retain flag, publish, restore *)
Definition deliver_conn (br : broker) (d : N) (m : pubmsg) : broker * pubmsg * list out :=
  let sr := pub_retain m in
  let m1 := if sr then pub_set_retain m false else m in
  match lenenc (MPub m1) (br_counter br) with
  | (MPub m2, c', Ok b) => (with_counter br c', if sr then pub_set_retain m2 true else m2, [OPkt d b])
  | (MPub m2, c', _) => (with_counter br c', m2, [])          (* the error return skips the restore *)
  | _ => (br, m1, [])
  end.

Fixpoint fan_out (br : broker) (m : pubmsg) (subs : list (sub * N)) : broker * pubmsg * list out :=
  match subs with
  | [] => (br, m, [])
  | (s, q) :: r =>
      let m1 := match pub_set_qos m q with Some x => x | None => m end in
      let '(br1, m2, o1) :=
        if is_conn_sub s then deliver_conn br s m1
        else (br, m1, [OCall s (h_flags (p_h m1)) (p_topic m1) (p_payload m1)]) in
      let '(br2, m3, o2) := fan_out br1 m2 r in
      (br2, m3, o1 ++ o2)
  end.

Definition on_publish (br : broker) (m : pubmsg) : broker * list out :=
  let '(br1, m1) := if pub_retain m then retain_msg br m else (br, m) in
  match t_subscribers (br_store br1) (p_topic m1) (pub_qos m1) with
  | None => (br1, [])
  | Some subs =>
      (* the retain flag is cleared around the loop (MQTT-3.3.1-9) *)
      let m2 := if pub_retain m1 then pub_set_retain m1 false else m1 in
      let '(br2, _, o) := fan_out br1 m2 subs in (br2, o)
  end.

(* ---------- the receiving side of QoS 2: processAcked(Pub2in) ---------- *)

Fixpoint release_pub2in (br : broker) (l : list entry) : broker * list out :=
  match l with
  | [] => (br, [])
  | e :: r =>
      let '(br1, o1) :=
        if e_mtype e =? T_PUBLISH then
          match pub_decode pub_new (e_msg e) with
          | Ok (m, _) =>
              (* the stored acknowledgement must decode as its type too *)
              match ack_decode (ack_new (e_state e)) (e_ack e) with
              | Ok _ => if existsb (N.eqb (e_state e)) acked_publish_states then on_publish br m else (br, [])
              | _ => (br, [])
              end
          | _ => (br, [])
          end
        else (br, []) in
      let '(br2, o2) := release_pub2in br1 r in
      (br2, o1 ++ o2)
  end.

(* ---------- SUBSCRIBE / UNSUBSCRIBE ---------- *)

Definition set_topic_q (l : list (bytes * N)) (t : bytes) (q : N) := set_b t q l.

(* one filter of processSubscribe: return code, and the retained messages to send *)
Definition sub_one (br : broker) (c : N) (k : bytes) (t : bytes) (q : N) : broker * N * list pubmsg :=
  let '(st, r) := t_subscribe (br_store br) t q c in
  match r with
  | None => (with_store br st, QosFailure, [])
  | Some g =>
      let br1 := with_store br st in
      let br2 := match assoc_b k (br_sess br1) with
                 | Some s => with_sess br1 k (mkSess (se_clean s) (se_willflag s) (se_will s) (set_topic_q (se_topics s) t q) (se_pub2in s))
                 | None => br1
                 end in
      let rms := map (fun m => if g <? pub_qos m
                               then match pub_set_qos m g with Some x => x | None => m end
                               else m) (retained_for br2 t) in
      (br2, g, rms)
  end.

Fixpoint sub_all (br : broker) (c : N) (k : bytes) (ts : list bytes) (qs : list N) : broker * list N * list pubmsg :=
  match ts, qs with
  | t :: ts', q :: qs' =>
      let '(br1, code, rms) := sub_one br c k t q in
      let '(br2, codes, rms') := sub_all br1 c k ts' qs' in
      (br2, code :: codes, rms ++ rms')
  | _, _ => (br, [], [])
  end.

(* p.publish(rm, nil) for each retained message *)
Fixpoint send_pubs (br : broker) (c : N) (ms : list pubmsg) : broker * list out :=
  match ms with
  | [] => (br, [])
  | m :: r =>
      let '(br1, o1) := send br c (MPub m) in
      let '(br2, o2) := send_pubs br1 c r in
      (br2, o1 ++ o2)
  end.

Definition process_subscribe (br : broker) (c : N) (k : bytes) (m : submsg) : broker * list out :=
  let '(br1, codes, rms) := sub_all br c k (s_topics m) (s_qos m) in
  let resp := fst (suback_add_codes (suback_set_pid suback_new (packet_id (s_h m))) codes) in
  match lenenc (MSuback resp) (br_counter br1) with
  | (_, _, Ok b) =>
      let '(br2, o) := send_pubs br1 c rms in (br2, OPkt c b :: o)
  | _ => (br1, [])
  end.

Fixpoint unsub_all (br : broker) (c : N) (k : bytes) (ts : list bytes) : broker :=
  match ts with
  | [] => br
  | t :: r =>
      let br1 := with_store br (fst (t_unsubscribe (br_store br) t c)) in
      let br2 := match assoc_b k (br_sess br1) with
                 | Some s => with_sess br1 k (mkSess (se_clean s) (se_willflag s) (se_will s) (del_b t (se_topics s)) (se_pub2in s))
                 | None => br1
                 end in
      unsub_all br2 c k r
  end.

(* ---------- teardown: service.stop ---------- *)

Definition stop (br : broker) (c : N) : broker * list out :=
  match conn_sess br c with
  | None => (br, [])
  | Some (k, s) =>
      (* unsubscribe every topic of the session with this connection's subscriber *)
      let st := fold_left (fun st tq => fst (t_unsubscribe st (fst tq) c)) (se_topics s) (br_store br) in
      let br1 := mkB st (br_raw br) (br_sess br) (filter (fun cv => negb (fst cv =? c)) (br_conns br))
                     (br_counter br) (br_anon br) (br_closed br) in
      let '(br2, o) := if se_willflag s then
                         match se_will s with Some w => on_publish br1 w | None => (br1, []) end
                       else (br1, []) in
      let br3 := if se_clean s
                 then mkB (br_store br2) (br_raw br2) (del_b k (br_sess br2)) (br_conns br2) (br_counter br2) (br_anon br2) (br_closed br2)
                 else br2 in
      (br3, OClose c :: o)
  end.

(* ---------- one decoded packet: processIncoming ---------- *)

Inductive pres := PContinue | PStop.

Definition upd_pub2in (br : broker) (k : bytes) (f : aspec -> aspec) : broker :=
  match assoc_b k (br_sess br) with
  | Some s => with_sess br k (mkSess (se_clean s) (se_willflag s) (se_will s) (se_topics s) (f (se_pub2in s)))
  | None => br
  end.

Definition process_incoming (br : broker) (c : N) (k : bytes) (raw : bytes) (m : msg) : broker * list out * pres :=
  match m with
  | MPub p =>
      let q := pub_qos p in
      if q =? 2 then
        let br1 := upd_pub2in br k (fun a => fst (s_wait a T_PUBLISH 2 (packet_id (p_h p)) 0 raw)) in
        let '(br2, o) := send br1 c (mk_ack T_PUBREC (packet_id (p_h p))) in (br2, o, PContinue)
      else if q =? 1 then
        let '(br1, o1) := send br c (mk_ack T_PUBACK (packet_id (p_h p))) in
        let '(br2, o2) := on_publish br1 p in (br2, o1 ++ o2, PContinue)
      else let '(br1, o) := on_publish br p in (br1, o, PContinue)
  | MAck h =>
      let ty := h_type h in
      if ty =? T_PUBREL then
        match assoc_b k (br_sess br) with
        | Some s =>
            let a1 := fst (s_ack (se_pub2in s) T_PUBREL (packet_id h) raw) in
            let '(a2, rel) := s_acked a1 in
            let br1 := upd_pub2in br k (fun _ => a2) in
            let '(br2, o1) := release_pub2in br1 rel in
            let '(br3, o2) := send br2 c (mk_ack T_PUBCOMP (packet_id h)) in
            (br3, o1 ++ o2, PContinue)
        | None => (br, [], PContinue)
        end
      else if ty =? T_PUBREC then
        let '(br1, o) := send br c (mk_ack T_PUBREL (packet_id h)) in (br1, o, PContinue)
      else (br, [], PContinue)                      (* PUBACK, PUBCOMP, UNSUBACK: outgoing queues, nothing to see *)
  | MSub s => let '(br1, o) := process_subscribe br c k s in (br1, o, PContinue)
  | MUnsub u =>
      let br1 := unsub_all br c k (u_topics u) in
      let '(br2, o) := send br1 c (mk_ack T_UNSUBACK (packet_id (u_h u))) in (br2, o, PContinue)
  | MEmpty h =>
      let ty := h_type h in
      if ty =? T_PINGREQ then let '(br1, o) := send br c (MEmpty (empty_new T_PINGRESP)) in (br1, o, PContinue)
      else if ty =? T_DISCONNECT then
        let br1 := match assoc_b k (br_sess br) with
                   | Some s => with_sess br k (mkSess (se_clean s) false (se_will s) (se_topics s) (se_pub2in s))
                   | None => br
                   end in
        (br1, [], PStop)
      else (br, [], PContinue)                      (* PINGRESP *)
  | MSuback _ | MConnack _ | MConn _ => (br, [], PContinue)   (* logged, ignored *)
  end.

(* ---------- framing: peekMessageSize / peekMessage on the bytes received so far ---------- *)

Inductive fres :=
| FMore                       (* the packet is not complete yet: the processor waits *)
| FBad                        (* the connection is ended *)
| FPkt (ty : N) (total : nat).

Definition max_packet (bufsize : N) : N := bufsize - defaultReadBlockSize.

Definition frame (bufsize : N) (b : bytes) : fres :=
  match b with
  | [] | [_] => FMore
  | b0 :: rest =>
      match uvarint4 rest with
      | Some (rl, m) =>
          let total := rl + 1 + N.of_nat m in
          if max_packet bufsize <? total then FBad
          else if N.of_nat (length b) <? total then FMore
          else FPkt (b0 / 16) (N.to_nat total)
      | None =>
          (* fewer than 4 length bytes, all with the continuation bit: wait; 4 of them: error *)
          if (4 <=? length rest)%nat then FBad else FMore
      end
  end.

(* the processor loop over the bytes of connection c; returns the unconsumed bytes *)
Fixpoint proc (fuel : nat) (bufsize : N) (br : broker) (c : N) (k : bytes) (b : bytes) : broker * list out * bytes :=
  match fuel with
  | O => (br, [], b)
  | S f =>
      match frame bufsize b with
      | FMore => (br, [], b)
      | FBad => let '(br1, o) := stop br c in (br1, o, [])
      | FPkt ty total =>
          let raw := firstn total b in
          let rest := skipn total b in
          match new_msg ty with
          | None => let '(br1, o) := stop br c in (br1, o, [])
          | Some m0 =>
              match do_dec m0 raw with
              | (m, 20 :: _) =>
                  let '(br1, o1, r) := process_incoming br c k raw m in
                  match r with
                  | PStop => let '(br2, o2) := stop br1 c in (br2, o1 ++ o2, [])
                  | PContinue =>
                      let '(br2, o2, rest') := proc f bufsize br1 c k rest in (br2, o1 ++ o2, rest')
                  end
              | _ => let '(br1, o) := stop br c in (br1, o, [])
              end
          end
      end
  end.

(* ---------- the first packet: handleConnection / getSession / start ---------- *)

Definition mk_connack (sp : bool) (code : N) : msg :=
  MConnack (connack_set_code (connack_set_sp connack_new sp) code).

Definition build_will (m : connmsg) : option pubmsg :=
  if conn_willflag m then
    let w0 := pub_new in
    let w1 := match pub_set_qos w0 (conn_willqos m) with Some x => x | None => w0 end in
    let w2 := match pub_set_topic w1 (c_wt m) with Some x => x | None => w1 end in
    let w3 := pub_set_payload w2 (c_wm m) in
    Some (pub_set_retain w3 (conn_willretain m))
  else None.

Definition anon_key (n : N) : bytes := [0; n / 65536 mod 256; n / 256 mod 256; n mod 256].

(* re-activation of the stored subscriptions of a resumed session (service.start) *)
Definition resubscribe (st : store) (c : N) (topics : list (bytes * N)) : store :=
  fold_left (fun st tq => fst (t_subscribe st (fst tq) (snd tq) c)) topics st.

Inductive cres :=
| CAccepted (rest : bytes)     (* bytes after the CONNECT packet stay for the processor *)
| CRefused.

Definition connect (bufsize : N) (br : broker) (c : N) (authok : bool) (b : bytes) : broker * list out * cres :=
  (* getMessageBuffer: the driver always supplies a complete first packet or garbage *)
  match b with
  | [] | [_] => (br, [OClose c], CRefused)
  | b0 :: rest =>
      match uvarint4 rest with
      | None => (br, [OClose c], CRefused)
      | Some (rl, m) =>
          let total := N.to_nat (rl + 1 + N.of_nat m) in
          if (length b <? total)%nat then (br, [OClose c], CRefused) else
          match conn_decode conn_new (firstn total b) with
          | Ok (req, _) =>
              if negb authok then
                let '(br1, o) := send br c (mk_connack false 4) in (br1, o ++ [OClose c], CRefused)
              else
                let anon := (length (c_cid req) =? 0)%nat in
                let key := if anon then anon_key (br_anon br) else c_cid req in
                let clean := anon || conn_clean req in
                let old := if clean then None else assoc_b key (br_sess br) in
                let s := match old with
                         | Some s0 => mkSess false (conn_willflag req) (build_will req) (se_topics s0) (se_pub2in s0)
                         | None => mkSess clean (conn_willflag req) (build_will req) [] s_new
                         end in
                let sp := match old with Some _ => true | None => false end in
                let br1 := mkB (resubscribe (br_store br) c (se_topics s)) (br_raw br) (set_b key s (br_sess br))
                               ((c, key) :: br_conns br) (br_counter br) (br_anon br + 1) (br_closed br) in
                let '(br2, o) := send br1 c (mk_connack sp 0) in
                (br2, o, CAccepted (skipn total b))
          | Err cls _ =>
              if (cls =? 1) || (cls =? 2) then
                let '(br1, o) := send br c (mk_connack false cls) in (br1, o ++ [OClose c], CRefused)
              else (br, [OClose c], CRefused)
          | Panic => (br, [OClose c], CRefused)
          end
      end
  end.

(* ---------- in-process API ---------- *)

Definition srv_publish (br : broker) (b : bytes) : broker * list out :=
  match pub_decode pub_new b with
  | Ok (m, _) => on_publish br m
  | _ => (br, [])
  end.

Definition srv_subscribe (br : broker) (s : N) (q : N) (topic : bytes) : broker * list out :=
  let '(st, r) := t_subscribe (br_store br) topic q s in
  match r with
  | None => (with_store br st, [])
  | Some g =>
      let br1 := with_store br st in
      let rms := map (fun m => if g <? pub_qos m then match pub_set_qos m g with Some x => x | None => m end else m)
                     (retained_for br1 topic) in
      (br1, map (fun m => OCall s (h_flags (p_h m)) (p_topic m) (p_payload m)) rms)
  end.

Definition srv_unsubscribe (br : broker) (s : N) (topic : bytes) : broker :=
  with_store br (fst (t_unsubscribe (br_store br) topic s)).

Fixpoint stop_all (br : broker) (cs : list N) : broker * list out :=
  match cs with
  | [] => (br, [])
  | c :: r => let '(br1, o1) := stop br c in let '(br2, o2) := stop_all br1 r in (br2, o1 ++ o2)
  end.
Definition srv_close (br : broker) : broker * list out :=
  let '(br1, o) := stop_all br (rev (map fst (br_conns br))) in
  (mkB store0 [] [] [] (br_counter br1) (br_anon br1) true, o).
