(* Proofs of Proto/PropsOrder.v: the processor loop over a chunk of complete packets is the composition
   of the single steps (C17, per-publisher order of QoS 0 / QoS 1 deliveries, per receiver), and the
   broker's answers in the sender role (C12: PUBREC -> PUBREL; PUBACK / PUBCOMP silent). *)
From Base Require Import Tactics Bytes.
From Gen Require Import Tables.
From Codec Require Import Wire Impl Script Statements ProofsHeader ProofsAccept.
From Topics Require Import Model Spec.
From Ackq Require Import Model Spec.
From Proto Require Import Broker Props ProofsBasic ProofsStruct ProofsForward ProofsFanout ProofsSub PropsOrder.
Open Scope N_scope.

(* ---------- framing a packet that is followed by other bytes ---------- *)

Lemma uvarint4_app l v u rest : uvarint4 l = Some (v, u) -> uvarint4 (l ++ rest) = Some (v, u).
Proof.
  intros H. pose proof (uvarint4_prefix _ _ _ H (skipn u l ++ rest)) as G.
  rewrite app_assoc, firstn_skipn in G. exact G.
Qed.

Lemma frame_app bufsize raw ty rest : frame bufsize raw = FPkt ty (length raw) ->
  frame bufsize (raw ++ rest) = FPkt ty (length raw).
Proof.
  destruct raw as [|b0 [|b1 r]]; [discriminate|discriminate|].
  remember (length (b0 :: b1 :: r)) as L eqn:EL.
  assert (EL2 : length ((b0 :: b1 :: r) ++ rest) = (L + length rest)%nat) by (rewrite app_length, EL; reflexivity).
  unfold frame. cbn [app] in *. intros H.
  destruct (uvarint4 (b1 :: r)) as [[rl m]|] eqn:EU.
  - rewrite <- EL in H. rewrite EL2.
    change (b1 :: r ++ rest) with ((b1 :: r) ++ rest). rewrite (uvarint4_app _ _ _ rest EU).
    destruct (max_packet bufsize <? rl + 1 + N.of_nat m) eqn:E1; [discriminate H|].
    destruct (N.of_nat L <? rl + 1 + N.of_nat m) eqn:E2; [discriminate H|].
    destruct (N.of_nat (L + length rest) <? rl + 1 + N.of_nat m) eqn:E3; [lia|].
    exact H.
  - destr_if_in H; discriminate H.
Qed.

Lemma frame_pkt_nonempty bufsize raw ty n : frame bufsize raw = FPkt ty n -> (2 <= length raw)%nat.
Proof.
  destruct raw as [|b0 [|b1 r]]; [discriminate|discriminate|]. intros _. cbn [length]. lia.
Qed.

Lemma proc_nil fuel bufsize br c k : proc fuel bufsize br c k [] = (br, [], []).
Proof. destruct fuel; reflexivity. Qed.

(* ---------- only DISCONNECT stops the loop ---------- *)

Lemma process_incoming_pres br c k raw m br1 o r :
  process_incoming br c k raw m = (br1, o, r) -> r = if is_disconnect m then PStop else PContinue.
Proof.
  unfold process_incoming, is_disconnect. intros H.
  destruct m as [p|h|h|x|x|s|u|x]; try (inv H; reflexivity).
  - destruct (pub_qos p =? 2).
    { destruct (send _ c _) as [br2 o2]. inv H. reflexivity. }
    destruct (pub_qos p =? 1).
    { destruct (send br c _) as [br2 o1]. destruct (on_publish br2 p) as [br3 o2]. inv H. reflexivity. }
    destruct (on_publish br p) as [br2 o1]. inv H. reflexivity.
  - destruct (h_type h =? T_PUBREL).
    { destruct (assoc_b k (br_sess br)) as [s|]; [|inv H; reflexivity].
      destruct (s_acked _) as [a2 rel]. destruct (release_pub2in _ rel) as [br2 o1].
      destruct (send br2 c _) as [br3 o2]. inv H. reflexivity. }
    destruct (h_type h =? T_PUBREC); [|inv H; reflexivity].
    destruct (send br c _) as [br2 o1]. inv H. reflexivity.
  - cbv zeta in H. destruct (h_type h =? T_PINGREQ) eqn:E1.
    { destruct (send br c _) as [br2 o1]. inv H.
      assert (E2 : (h_type h =? T_DISCONNECT) = false) by (unfold T_PINGREQ, T_DISCONNECT in *; lia).
      rewrite E2. reflexivity. }
    destruct (h_type h =? T_DISCONNECT); inv H; reflexivity.
  - destruct (process_subscribe br c k s) as [br2 o1]. inv H. reflexivity.
  - destruct (send _ c _) as [br2 o1]. inv H. reflexivity.
Qed.

(* ---------- C17: composition ---------- *)

Lemma proc_compositional : C17_proc_compositional.
Proof.
  intros bufsize pkts fuel. induction pkts as [|[raw m] r IH]; intros br c k tail HF.
  - cbn [length Nat.add map concat app pkt_run].
    destruct (proc fuel bufsize br c k tail) as [[br2 o2] rest]. reflexivity.
  - inversion HF as [|x l [HFr HD] HF']; subst. cbn [fst snd] in HFr, HD.
    destruct HFr as (ty & m0 & t & F1 & F2 & F3).
    cbn [length Nat.add map concat fst pkt_run]. rewrite <- app_assoc.
    cbn [proc]. rewrite (frame_app _ _ _ _ F1).
    rewrite firstn_app_exact, skipn_app_exact by reflexivity.
    rewrite F2, F3. cbv beta iota.
    destruct (process_incoming br c k raw m) as [[br1 o1] pr] eqn:E1.
    pose proof (process_incoming_pres _ _ _ _ _ _ _ _ E1) as HP. rewrite HD in HP. subst pr.
    rewrite (IH br1 c k tail HF').
    destruct (pkt_run br1 c k r) as [br2 os].
    destruct (proc fuel bufsize br2 c k tail) as [[br3 o3] rest].
    cbn [concat]. rewrite app_assoc. reflexivity.
Qed.

Lemma proc_single : C17_proc_single.
Proof.
  intros bufsize raw m fuel br c k HF HD.
  assert (HA : Forall (fun rm : bytes * msg => framed bufsize (fst rm) (snd rm) /\ is_disconnect (snd rm) = false) [(raw, m)]).
  { constructor; [split; [exact HF|exact HD]|constructor]. }
  pose proof (proc_compositional bufsize [(raw, m)] fuel br c k [] HA) as G.
  cbn [length Nat.add map concat fst pkt_run] in G. rewrite !app_nil_r in G. rewrite G.
  destruct (process_incoming br c k raw m) as [[br1 o1] pr].
  rewrite proc_nil. cbn [concat]. rewrite !app_nil_r. reflexivity.
Qed.

Lemma fuel_enough : C17_fuel_enough.
Proof.
  intros bufsize pkts. induction pkts as [|[raw m] r IH]; intros HF; [cbn; lia|].
  inversion HF as [|x l HFr HF']; subst. cbn [fst snd] in HFr.
  destruct HFr as (ty & m0 & t & F1 & _).
  apply frame_pkt_nonempty in F1. specialize (IH HF').
  cbn [length map concat fst]. rewrite app_length. lia.
Qed.

Lemma pkt_run_length c k pkts : forall br, length (snd (pkt_run br c k pkts)) = length pkts.
Proof.
  induction pkts as [|[raw m] r IH]; intros br; [reflexivity|].
  cbn [pkt_run]. destruct (process_incoming br c k raw m) as [[br1 o1] pr].
  specialize (IH br1). destruct (pkt_run br1 c k r) as [br2 os].
  cbn [snd length] in *. rewrite IH. reflexivity.
Qed.

(* ---------- C17: PUBLISH packets ---------- *)

Lemma pub_incoming_step br c k raw p : pub_qos p = 0 \/ pub_qos p = 1 ->
  process_incoming br c k raw (MPub p) = (let '(br1, o1) := pub_step br c p in (br1, o1, PContinue)).
Proof.
  intros HQ. unfold process_incoming, pub_step. cbv zeta.
  destruct HQ as [HQ|HQ]; rewrite HQ.
  - change (0 =? 2) with false. change (0 =? 1) with false. cbv iota.
    destruct (on_publish br p) as [br1 o1]. reflexivity.
  - change (1 =? 2) with false. change (1 =? 1) with true. cbv iota.
    destruct (send br c _) as [br1 o1]. destruct (on_publish br1 p) as [br2 o2]. reflexivity.
Qed.

Lemma pub_single : C17_pub_single.
Proof.
  intros bufsize raw p fuel br c k [HF HQ]. cbn [fst snd] in HF, HQ.
  pose proof (pub_incoming_step br c k raw p HQ) as E.
  split; [exact E|].
  rewrite (proc_single bufsize raw (MPub p) fuel br c k HF eq_refl). rewrite E.
  destruct (pub_step br c p) as [br1 o1]. reflexivity.
Qed.

Lemma pub01_pkts bufsize pubs : Forall (pub01 bufsize) pubs ->
  Forall (fun rm : bytes * msg => framed bufsize (fst rm) (snd rm) /\ is_disconnect (snd rm) = false) (map pub_pkt pubs).
Proof.
  induction 1 as [|[raw p] l [HF _] _ IH]; [constructor|].
  cbn [map]. constructor; [|exact IH]. split; [exact HF|reflexivity].
Qed.

Lemma map_fst_pub_pkt pubs : map fst (map pub_pkt pubs) = map fst pubs.
Proof. rewrite map_map. apply map_ext. intros [raw p]. reflexivity. Qed.

Lemma publisher_order : C17_publisher_order.
Proof.
  intros bufsize pubs fuel br c k br' o rest HF HL H.
  pose proof (proc_compositional bufsize (map pub_pkt pubs) (fuel - length pubs)%nat br c k [] (pub01_pkts _ _ HF)) as G.
  rewrite map_length, map_fst_pub_pkt, app_nil_r in G.
  replace (length pubs + (fuel - length pubs))%nat with fuel in G by lia.
  rewrite H in G.
  pose proof (pkt_run_length c k (map pub_pkt pubs) br) as HLen. rewrite map_length in HLen.
  destruct (pkt_run br c k (map pub_pkt pubs)) as [br1 os]. cbn [snd] in HLen.
  rewrite proc_nil, app_nil_r in G. inv G.
  split; [reflexivity|]. split; [reflexivity|]. split; [reflexivity|exact HLen].
Qed.

(* ---------- C17: per receiver ---------- *)

Lemma flat_map_concat {A B} (f : A -> list B) (l : list (list A)) :
  flat_map f (concat l) = concat (map (flat_map f) l).
Proof.
  induction l as [|x l IH]; [reflexivity|].
  cbn [concat map]. rewrite flat_map_app, IH. reflexivity.
Qed.

Lemma deliveries_to_concat d os : deliveries_to d (concat os) = concat (map (deliveries_to d) os).
Proof. unfold deliveries_to. apply flat_map_concat. Qed.

Lemma deliveries_to_app d a b : deliveries_to d (a ++ b) = deliveries_to d a ++ deliveries_to d b.
Proof. unfold deliveries_to. apply flat_map_app. Qed.

Lemma concat_one {A} (os : list (list A)) : forall j, (j < length os)%nat ->
  exists mid post, concat os = mid ++ nth j os [] ++ post.
Proof.
  induction os as [|x r IH]; intros j HJ; [cbn in HJ; lia|].
  destruct j as [|j].
  - exists [], (concat r). reflexivity.
  - cbn [length] in HJ. destruct (IH j ltac:(lia)) as (mid & post & E).
    exists (x ++ mid), post. cbn [concat nth]. rewrite E, app_assoc. reflexivity.
Qed.

Lemma concat_two {A} (os : list (list A)) : forall i j, (i < j < length os)%nat ->
  exists pre mid post, concat os = pre ++ nth i os [] ++ mid ++ nth j os [] ++ post.
Proof.
  induction os as [|x r IH]; intros i j HJ; [cbn in HJ; lia|].
  cbn [length] in HJ. destruct j as [|j]; [lia|]. destruct i as [|i].
  - destruct (concat_one r j ltac:(lia)) as (mid & post & E).
    exists [], mid, post. cbn [concat nth app]. rewrite E. reflexivity.
  - destruct (IH i j ltac:(lia)) as (pre & mid & post & E).
    exists (x ++ pre), mid, post. cbn [concat nth]. rewrite E, app_assoc. reflexivity.
Qed.

Lemma receiver_order : C17_receiver_order.
Proof.
  intros bufsize pubs fuel br c k br' o rest HF HL H.
  pose proof (publisher_order bufsize pubs fuel br c k br' o rest HF HL H) as G.
  destruct (pkt_run br c k (map pub_pkt pubs)) as [br1 os]. cbn [snd].
  destruct G as (_ & -> & _ & HLen).
  split.
  - intros d. apply deliveries_to_concat.
  - intros i j HIJ. apply concat_two. lia.
Qed.

(* ---------- C17 with C01: what each receiver gets ---------- *)

Lemma framed_pub_decode ty m0 raw p t : new_msg ty = Some m0 -> do_dec m0 raw = (MPub p, 20 :: t) ->
  exists n, pub_decode pub_new raw = Ok (p, n).
Proof.
  intros HN HD.
  destruct m0 as [p0|h|h|x|x|s|u|x]; unfold do_dec in HD; cbv zeta in HD.
  2-8: match type of HD with (match ?r with _ => _ end, _) = _ => destruct r as [[? ?]|? ?|]; inv HD end.
  unfold new_msg in HN.
  destruct (ty =? T_PUBLISH).
  - inv HN. destruct (pub_decode pub_new raw) as [[p' n]|? ?|]; inv HD. exists n. reflexivity.
  - repeat (destr_if_in HN; [discriminate HN|]). discriminate HN.
Qed.

Lemma framed_fwd bufsize raw p : framed bufsize raw (MPub p) -> fwd p.
Proof.
  intros (ty & m0 & t & _ & F2 & F3).
  destruct (framed_pub_decode _ _ _ _ _ F2 F3) as [n E]. exact (fwd_dec _ _ _ E).
Qed.

Lemma t_subscribers_sroot st1 st2 t q : sroot st1 = sroot st2 -> t_subscribers st1 t q = t_subscribers st2 t q.
Proof. intros E. unfold t_subscribers. rewrite E. reflexivity. Qed.

Definition exp_fields (d : N) (st : store) (rp : bytes * pubmsg) : list pfields :=
  let p := snd rp in
  match t_subscribers st (p_topic p) (pub_qos p) with
  | None => []
  | Some subs => map (fun sq : sub * N => mkPF (p_topic p) (p_payload p) (snd sq) false (pub_dup p))
                     (filter (fun sq : sub * N => fst sq =? d) subs)
  end.

Lemma exp_fields_sroot d st1 st2 rp : sroot st1 = sroot st2 -> exp_fields d st1 rp = exp_fields d st2 rp.
Proof. intros E. unfold exp_fields. cbv zeta. rewrite (t_subscribers_sroot _ _ _ _ E). reflexivity. Qed.

Definition pick (d : N) (l : list (option (N * pfields))) : list pfields :=
  flat_map (fun x => match x with Some (d', f) => if d' =? d then [f] else [] | None => [] end) l.

Lemma deliveries_to_pick d o : deliveries_to d o = pick d (map delivery o).
Proof.
  unfold deliveries_to, pick. induction o as [|x o IH]; [reflexivity|].
  cbn [map flat_map]. rewrite IH. reflexivity.
Qed.

Lemma pick_subs d (F : sub * N -> pfields) subs :
  pick d (map (fun sq => Some (fst sq, F sq)) subs) = map F (filter (fun sq : sub * N => fst sq =? d) subs).
Proof.
  unfold pick. induction subs as [|sq r IH]; [reflexivity|].
  cbn [map flat_map filter]. rewrite IH. destruct (fst sq =? d); reflexivity.
Qed.

Lemma puback_no_delivery c pid : delivery (OPkt c (wire (PAck T_PUBACK pid))) = None.
Proof. reflexivity. Qed.

Lemma on_publish_fields d br p br1 o : fwd p -> enc_ok p -> on_publish br p = (br1, o) ->
  deliveries_to d o = exp_fields d (br_store br) (@nil N, p) /\ sroot (br_store br1) = sroot (br_store br).
Proof.
  intros HFw HE H.
  pose proof (fanout br p br1 o HFw HE H) as G.
  destruct (fanout_store br p br1 o H) as (S1 & _).
  split; [|exact S1].
  unfold exp_fields. cbv zeta. cbn [snd].
  rewrite <- (t_subscribers_sroot _ _ (p_topic p) (pub_qos p) S1).
  destruct (t_subscribers (br_store br1) (p_topic p) (pub_qos p)) as [subs|].
  - rewrite deliveries_to_pick, G.
    exact (pick_subs d (fun sq => mkPF (p_topic p) (p_payload p) (snd sq) false (pub_dup p)) subs).
  - rewrite G. reflexivity.
Qed.

Lemma pub_step_fields d br c raw p br1 o : fwd p -> enc_ok p -> pub_step br c p = (br1, o) ->
  deliveries_to d o = exp_fields d (br_store br) (raw, p) /\ sroot (br_store br1) = sroot (br_store br).
Proof.
  intros HFw HE H. unfold pub_step in H.
  change (exp_fields d (br_store br) (raw, p)) with (exp_fields d (br_store br) (@nil N, p)).
  destruct (pub_qos p =? 1).
  - assert (HP : packet_id (p_h p) < 65536) by (destruct HE as (_ & _ & _ & _ & HP); exact HP).
    rewrite send_ack in H by (reflexivity || exact HP).
    destruct (on_publish br p) as [br2 o2] eqn:E. inv H.
    change (OPkt c (fixed T_PUBACK (default_flags T_PUBACK) (be16 (packet_id (p_h p)))) :: o2) with ([OPkt c (wire (PAck T_PUBACK (packet_id (p_h p))))] ++ o2). rewrite deliveries_to_app.
    destruct (on_publish_fields d _ _ _ _ HFw HE E) as [G1 G2].
    split; [|exact G2]. rewrite G1. reflexivity.
  - exact (on_publish_fields d _ _ _ _ HFw HE H).
Qed.

Lemma pkt_run_fields d c k pubs bufsize : forall br,
  Forall (pub01 bufsize) pubs -> Forall (fun rp : bytes * pubmsg => enc_ok (snd rp)) pubs ->
  concat (map (deliveries_to d) (snd (pkt_run br c k (map pub_pkt pubs)))) = flat_map (exp_fields d (br_store br)) pubs
  /\ sroot (br_store (fst (pkt_run br c k (map pub_pkt pubs)))) = sroot (br_store br).
Proof.
  induction pubs as [|[raw p] r IH]; intros br HF HE; [split; reflexivity|].
  inversion HF as [|x l HF1 HF']; subst. inversion HE as [|x l HE1 HE']; subst.
  destruct HF1 as [HFr HQ]. cbn [fst snd] in HFr, HQ, HE1.
  cbn [map pub_pkt fst snd pkt_run]. rewrite (pub_incoming_step br c k raw p HQ).
  destruct (pub_step br c p) as [br1 o1] eqn:E1.
  destruct (pub_step_fields d br c raw p br1 o1 (framed_fwd _ _ _ HFr) HE1 E1) as [G1 G2].
  destruct (IH br1 HF' HE') as [I1 I2].
  destruct (pkt_run br1 c k (map pub_pkt r)) as [br2 os].
  cbn [fst snd] in *. cbn [map concat flat_map].
  split.
  - rewrite G1, I1. f_equal. apply flat_map_ext. intros rp. apply exp_fields_sroot. exact G2.
  - rewrite I2. exact G2.
Qed.

Lemma receiver_fields : C17_receiver_fields.
Proof.
  intros bufsize pubs fuel br c k br' o rest d HF HE HL H.
  pose proof (publisher_order bufsize pubs fuel br c k br' o rest HF HL H) as G.
  destruct (pkt_run_fields d c k pubs bufsize br HF HE) as [I1 I2].
  destruct (pkt_run br c k (map pub_pkt pubs)) as [br1 os]. cbn [fst snd] in I1, I2.
  destruct G as (-> & -> & _ & _).
  split; [|exact I2].
  rewrite deliveries_to_concat, I1. reflexivity.
Qed.

(* ---------- C12: the broker in the sender role ---------- *)

Lemma broker_pubrec_pubrel : C12_broker_pubrec_pubrel.
Proof.
  intros br c k raw h HT HP. unfold process_incoming. cbv zeta. rewrite HT.
  change (T_PUBREC =? T_PUBREL) with false. change (T_PUBREC =? T_PUBREC) with true. cbv iota.
  rewrite send_ack by (reflexivity || exact HP). reflexivity.
Qed.

Lemma broker_ack_no_output : C12_broker_ack_no_output.
Proof.
  intros br c k raw h HT. unfold process_incoming. cbv zeta.
  destruct HT as [HT|HT]; rewrite HT; reflexivity.
Qed.

(* an acknowledgement packet alone on the wire is framed and decoded *)
Lemma framed_ack bufsize ty pid : is_ack_type ty = true -> pid < 65536 -> 4 <= max_packet bufsize ->
  exists h, framed bufsize (wire (PAck ty pid)) (MAck h) /\ h_type h = ty /\ packet_id h = pid.
Proof.
  intros HT HP HB.
  assert (OK : packet_ok (PAck ty pid) = true).
  { cbn [packet_ok]. rewrite HT. cbn [andb]. lia. }
  destruct (accepts_ack ty pid [] OK) as [h [E A]]. rewrite app_nil_r in E.
  exists h. unfold abs_ack in A. injection A as A1 A2.
  split; [|split; assumption].
  assert (W : wire (PAck ty pid) = [ty * 16 + default_flags ty; 2; pid / 256 mod 256; pid mod 256]) by reflexivity.
  assert (HN : new_msg ty = Some (MAck (ack_new ty))).
  { unfold new_msg. rewrite HT. unfold is_ack_type in HT.
    destruct (ty =? T_PUBLISH) eqn:E3; [|reflexivity].
    unfold T_PUBLISH, T_PUBACK, T_PUBREC, T_PUBREL, T_PUBCOMP, T_UNSUBACK in *. lia. }
  exists ty, (MAck (ack_new ty)), [N.of_nat (length (wire (PAck ty pid)))].
  split; [|split; [exact HN|]].
  - rewrite W. unfold frame.
    assert (HU : uvarint4 [2; pid / 256 mod 256; pid mod 256] = Some (2, 1%nat)) by reflexivity.
    rewrite HU. cbv zeta. change (2 + 1 + N.of_nat 1) with 4.
    destruct (max_packet bufsize <? 4) eqn:E1; [lia|].
    cbn [length]. change (N.of_nat 4 <? 4) with false. cbv iota.
    change (N.to_nat 4) with 4%nat. f_equal.
    unfold is_ack_type in HT.
    assert (C : ty = T_PUBACK \/ ty = T_PUBREC \/ ty = T_PUBREL \/ ty = T_PUBCOMP \/ ty = T_UNSUBACK) by lia.
    destruct C as [->|[->|[->|[->| ->]]]]; reflexivity.
  - unfold do_dec. cbv zeta. rewrite E. reflexivity.
Qed.

Lemma broker_pubrec_pubrel_wire : C12_broker_pubrec_pubrel_wire.
Proof.
  intros bufsize fuel br c k pid HP HB.
  split; [reflexivity|]. split; [reflexivity|].
  destruct (framed_ack bufsize T_PUBREC pid eq_refl HP HB) as (h & HF & HT & HI).
  rewrite (proc_single bufsize _ (MAck h) fuel br c k HF eq_refl).
  rewrite (broker_pubrec_pubrel br c k _ h HT) by (rewrite HI; exact HP).
  rewrite HI. reflexivity.
Qed.

Lemma broker_ack_no_output_wire : C12_broker_ack_no_output_wire.
Proof.
  intros bufsize fuel br c k ty pid HT HP HB.
  assert (HA : is_ack_type ty = true) by (destruct HT as [->| ->]; reflexivity).
  destruct (framed_ack bufsize ty pid HA HP HB) as (h & HF & HTy & HI).
  rewrite (proc_single bufsize _ (MAck h) fuel br c k HF eq_refl).
  rewrite (broker_ack_no_output br c k _ h) by (rewrite HTy; exact HT).
  reflexivity.
Qed.

(* ====================================================================================== *)
(* the statements are not vacuous; the DISCONNECT condition is needed                      *)
(* ====================================================================================== *)

(* CONNECT "ca" / "cb" (persistent), SUBSCRIBE of "ca" to "s/+" QoS 1 and "s/x" QoS 2 *)
Definition conn_ca : bytes := [16;14;0;4;77;81;84;84;4;0;0;60;0;2;99;97].
Definition conn_cb : bytes := [16;14;0;4;77;81;84;84;4;0;0;60;0;2;99;98].
Definition sub_ca : bytes := [130;14;0;1;0;3;115;47;43;1;0;3;115;47;120;2].
(* PUBLISH "s/x" QoS 1 identifier 7 payload 01; PUBLISH "s/x" QoS 0 payload 02; DISCONNECT *)
Definition raw1 : bytes := [50;8;0;3;115;47;120;0;7;1].
Definition raw2 : bytes := [48;6;0;3;115;47;120;2].
Definition raw_disc : bytes := [224;0].
Definition dec_pub (raw : bytes) : pubmsg :=
  match do_dec (MPub pub_new) raw with (MPub p, _) => p | _ => pub_new end.
Definition dec_empty (ty : N) (raw : bytes) : hdr :=
  match do_dec (MEmpty (empty_new ty)) raw with (MEmpty h, _) => h | _ => empty_new ty end.

(* connection 1 = "ca" with its two subscriptions, connection 2 = "cb" *)
Definition br_two : broker :=
  let br0 := fst (fst (connect 262144 broker0 1 true conn_ca)) in
  let bra := fst (fst (proc 10 262144 br0 1 [99;97] sub_ca)) in
  fst (fst (connect 262144 bra 2 true conn_cb)).

Lemma framed_intro bufsize raw m ty m0 t :
  frame bufsize raw = FPkt ty (length raw) -> new_msg ty = Some m0 -> do_dec m0 raw = (m, 20 :: t) ->
  framed bufsize raw m.
Proof. intros A B C. exists ty, m0, t. split; [exact A|split; [exact B|exact C]]. Qed.

(* "cb" publishes the two messages in one chunk: the hypotheses of C17_receiver_fields hold; connection 1
   gets (PUBACK to 2 first) both deliveries of the first message - one per matching subscription -
   before both deliveries of the second *)
Example order_inhabited :
  let pubs := [(raw1, dec_pub raw1); (raw2, dec_pub raw2)] in
  Forall (pub01 262144) pubs /\ Forall (fun rp => enc_ok (snd rp)) pubs
  /\ snd (fst (proc 19 262144 br_two 2 [99;98] (raw1 ++ raw2)))
     = [OPkt 2 [64; 2; 0; 7]; OPkt 1 raw1; OPkt 1 raw1; OPkt 1 raw2; OPkt 1 raw2]
  /\ map pf_payload (deliveries_to 1 (snd (fst (proc 19 262144 br_two 2 [99;98] (raw1 ++ raw2))))) = [[1]; [1]; [2]; [2]].
Proof.
  cbv zeta. split; [|split; [|split]].
  - constructor; [|constructor; [|constructor]].
    + split; [eapply framed_intro; vm_compute; reflexivity|right; vm_compute; reflexivity].
    + split; [eapply framed_intro; vm_compute; reflexivity|left; vm_compute; reflexivity].
  - constructor; [|constructor; [|constructor]];
      (split; [|split; [|split; [|split]]]); vm_compute; (reflexivity || discriminate).
  - vm_compute. reflexivity.
  - vm_compute. reflexivity.
Qed.

(* PUBLISH, DISCONNECT, PUBLISH in one chunk: all three are complete well-formed packets, but the second
   PUBLISH is never processed *)
Lemma proc_compositional_any_refuted : ~ C17_proc_compositional_any.
Proof.
  intros H.
  specialize (H 262144 [(raw2, MPub (dec_pub raw2)); (raw_disc, MEmpty (dec_empty T_DISCONNECT raw_disc)); (raw2, MPub (dec_pub raw2))]
                16%nat br_two 2 [99;98] []).
  assert (HF : Forall (fun rm : bytes * msg => framed 262144 (fst rm) (snd rm))
                 [(raw2, MPub (dec_pub raw2)); (raw_disc, MEmpty (dec_empty T_DISCONNECT raw_disc)); (raw2, MPub (dec_pub raw2))]).
  { constructor; [|constructor; [|constructor; [|constructor]]]; eapply framed_intro; vm_compute; reflexivity. }
  specialize (H HF). vm_compute in H. discriminate H.
Qed.

Example disconnect_drops_rest :
  snd (fst (proc 19 262144 br_two 2 [99;98] (raw2 ++ raw_disc ++ raw2))) = [OPkt 1 raw2; OPkt 1 raw2; OClose 2].
Proof. vm_compute. reflexivity. Qed.

(* PUBREC, PUBACK, PUBCOMP with identifier 9 on connection 2, which was never sent anything: one PUBREL 9 *)
Example acks_example :
  snd (fst (proc 19 262144 br_two 2 [99;98] ([80;2;0;9] ++ [64;2;0;9] ++ [112;2;0;9]))) = [OPkt 2 [98;2;0;9]].
Proof. vm_compute. reflexivity. Qed.

Print Assumptions proc_compositional.
Print Assumptions proc_single.
Print Assumptions fuel_enough.
Print Assumptions pub_single.
Print Assumptions publisher_order.
Print Assumptions receiver_order.
Print Assumptions receiver_fields.
Print Assumptions broker_pubrec_pubrel.
Print Assumptions broker_pubrec_pubrel_wire.
Print Assumptions broker_ack_no_output.
Print Assumptions broker_ack_no_output_wire.
Print Assumptions proc_compositional_any_refuted.
Print Assumptions order_inhabited.
