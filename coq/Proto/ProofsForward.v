(* C01 / C08 (codec side): C01_forward_roundtrip.

   Every message the broker hands to its fan-out ([fwd]) satisfies an invariant [finv]:
   its type/flags byte is a PUBLISH byte with a valid QoS, and it is either dirty - then Len/Encode
   rebuild the packet from the fields (the argument of C03 encode_pub, replayed for the invariant
   instead of [built_pub], and C04 accepts_pub for reading the result back) - or not dirty, and then
   its decode buffer has the shape

       tf :: <remaining length bytes> ++ hi :: lo :: topic ++ <0 or 2 id bytes> ++ payload

   with the message's own current flags byte, topic and payload; the in-place patch of the flags
   byte by SetQoS / SetRetain (through [hal]) keeps that shape, and a buffer of that shape decodes
   to exactly these fields. *)
From Base Require Import Tactics Bytes.
From Gen Require Import Tables.
From Codec Require Import Wire Impl Script Statements ProofsIds ProofsHeader ProofsTotal ProofsEncode ProofsAccept.
From Topics Require Import Model.
From Proto Require Import Broker Props.
Open Scope N_scope.


(* ---------- the flags byte of a PUBLISH ---------- *)

Definition pubtf (t : N) : bool :=
  (48 <=? t) && (t <? 64) && (publish_qos_of_flags (t mod 16) <? 3).

Definition qf (t : N) : N := publish_qos_of_flags (t mod 16).

Lemma pubtf_range t : pubtf t = true -> 48 <= t < 64.
Proof. unfold pubtf. intros H. lia. Qed.

Lemma pubtf_qos t : pubtf t = true -> qf t < 3.
Proof. unfold pubtf, qf. intros H. lia. Qed.

Lemma pubtf_forall (P : N -> bool) :
  forallb (fun t => negb (pubtf t) || P t) (map N.of_nat (seq 48 16)) = true ->
  forall t, pubtf t = true -> P t = true.
Proof.
  intros H t Ht.
  pose proof (tf_range_forall (fun t => negb (pubtf t) || P t) H t (pubtf_range t Ht)) as G.
  cbv beta in G. rewrite Ht in G. exact G.
Qed.

(* what the flag setters do to a PUBLISH flags byte: by enumeration of the 16 bytes *)
Lemma tf_retain_on t : pubtf t = true ->
  pubtf (N.lor t 1) = true /\ qf (N.lor t 1) = qf t /\ N.testbit (N.lor t 1) 3 = N.testbit t 3
  /\ N.testbit (N.lor t 1) 0 = true.
Proof.
  intros Ht.
  pose proof (pubtf_forall (fun t => pubtf (N.lor t 1) && (qf (N.lor t 1) =? qf t)
     && Bool.eqb (N.testbit (N.lor t 1) 3) (N.testbit t 3) && N.testbit (N.lor t 1) 0)) as G.
  specialize (G ltac:(vm_compute; reflexivity) t Ht). cbv beta in G.
  apply andb_true_iff in G as [G G4]. apply andb_true_iff in G as [G G3]. apply andb_true_iff in G as [G1 G2].
  split; [exact G1|]. split; [apply N.eqb_eq; exact G2|]. split; [apply Bool.eqb_prop; exact G3|exact G4].
Qed.

Lemma tf_retain_off t : pubtf t = true ->
  pubtf (N.land t 254) = true /\ qf (N.land t 254) = qf t /\ N.testbit (N.land t 254) 3 = N.testbit t 3
  /\ N.testbit (N.land t 254) 0 = false.
Proof.
  intros Ht.
  pose proof (pubtf_forall (fun t => pubtf (N.land t 254) && (qf (N.land t 254) =? qf t)
     && Bool.eqb (N.testbit (N.land t 254) 3) (N.testbit t 3) && negb (N.testbit (N.land t 254) 0))) as G.
  specialize (G ltac:(vm_compute; reflexivity) t Ht). cbv beta in G.
  apply andb_true_iff in G as [G G4]. apply andb_true_iff in G as [G G3]. apply andb_true_iff in G as [G1 G2].
  split; [exact G1|]. split; [apply N.eqb_eq; exact G2|]. split; [apply Bool.eqb_prop; exact G3|].
  apply negb_true_iff. exact G4.
Qed.

Lemma tf_dup t : pubtf t = true -> pubtf (N.lor t 8) = true /\ pubtf (N.land t 247) = true.
Proof.
  intros Ht.
  pose proof (pubtf_forall (fun t => pubtf (N.lor t 8) && pubtf (N.land t 247))) as G.
  specialize (G ltac:(vm_compute; reflexivity) t Ht). cbv beta in G.
  apply andb_true_iff in G as [G1 G2]. split; assumption.
Qed.

Definition qos_facts (v t : N) : bool :=
  pubtf (N.lor (N.land t 249) (v * 2)) && (qf (N.lor (N.land t 249) (v * 2)) =? v)
  && Bool.eqb (N.testbit (N.lor (N.land t 249) (v * 2)) 3) (N.testbit t 3)
  && Bool.eqb (N.testbit (N.lor (N.land t 249) (v * 2)) 0) (N.testbit t 0).

Lemma tf_qos t v : pubtf t = true -> v < 3 ->
  pubtf (N.lor (N.land t 249) (v * 2)) = true /\ qf (N.lor (N.land t 249) (v * 2)) = v
  /\ N.testbit (N.lor (N.land t 249) (v * 2)) 3 = N.testbit t 3
  /\ N.testbit (N.lor (N.land t 249) (v * 2)) 0 = N.testbit t 0.
Proof.
  intros Ht Hv.
  assert (G : qos_facts v t = true).
  { assert (C : v = 0 \/ v = 1 \/ v = 2) by lia.
    destruct C as [ -> | [ -> | -> ] ].
    - apply (pubtf_forall (qos_facts 0)); [vm_compute; reflexivity|exact Ht].
    - apply (pubtf_forall (qos_facts 1)); [vm_compute; reflexivity|exact Ht].
    - apply (pubtf_forall (qos_facts 2)); [vm_compute; reflexivity|exact Ht]. }
  unfold qos_facts in G.
  apply andb_true_iff in G as [G G4]. apply andb_true_iff in G as [G G3]. apply andb_true_iff in G as [G1 G2].
  split; [exact G1|]. split; [apply N.eqb_eq; exact G2|].
  split; apply Bool.eqb_prop; assumption.
Qed.

Lemma tf_nibble t : pubtf t = true ->
  N.testbit (t mod 16) 0 = N.testbit t 0 /\ N.testbit (t mod 16) 3 = N.testbit t 3 /\ t / 16 = 3.
Proof.
  intros Ht.
  pose proof (pubtf_forall (fun t => Bool.eqb (N.testbit (t mod 16) 0) (N.testbit t 0)
     && Bool.eqb (N.testbit (t mod 16) 3) (N.testbit t 3) && (t / 16 =? 3))) as G.
  specialize (G ltac:(vm_compute; reflexivity) t Ht). cbv beta in G.
  apply andb_true_iff in G as [G G3]. apply andb_true_iff in G as [G1 G2].
  split; [apply Bool.eqb_prop; exact G1|]. split; [apply Bool.eqb_prop; exact G2|].
  apply N.eqb_eq. exact G3.
Qed.

Lemma pub_qos_qf m : pub_qos m = qf (tf (p_h m)).
Proof. reflexivity. Qed.

(* ---------- lists ---------- *)

Lemma firstn_plus {A} (l : list A) a b : firstn (a + b) l = firstn a l ++ firstn b (skipn a l).
Proof.
  revert l. induction a as [|a IH]; intros l; [reflexivity|].
  destruct l as [|x l]; [cbn [Nat.add firstn skipn]; rewrite firstn_nil; reflexivity|].
  cbn [Nat.add firstn skipn app]. rewrite IH. reflexivity.
Qed.

Lemma skipn_app_plus {A} (a b : list A) n j : n = (length a + j)%nat -> skipn n (a ++ b) = skipn j b.
Proof.
  intros ->. rewrite skipn_app. rewrite skipn_all2 by lia.
  replace (length a + j - length a)%nat with j by lia. reflexivity.
Qed.

Lemma patch0 x (r : bytes) v : patch (x :: r) 0 v = v :: r.
Proof. reflexivity. Qed.

(* ---------- uvarint reads only the bytes it uses ---------- *)

Lemma uvarint_fuel_prefix fuel : forall l shift acc used v u,
  uvarint_fuel fuel l shift acc used = Some (v, u) ->
  forall rest, uvarint_fuel fuel (firstn (u - used) l ++ rest) shift acc used = Some (v, u).
Proof.
  induction fuel as [|f IH]; intros l shift acc used v u H rest; [discriminate H|].
  pose proof (uvarint_fuel_used _ _ _ _ _ _ _ H) as [U1 U2].
  cbn [uvarint_fuel] in H. destruct l as [|b r]; [discriminate H|].
  replace (u - used)%nat with (S (u - S used)) by lia.
  cbn [firstn app uvarint_fuel].
  destruct (b <? 128) eqn:E; [exact H|].
  apply IH. exact H.
Qed.

Lemma uvarint4_prefix l v u : uvarint4 l = Some (v, u) ->
  forall rest, uvarint4 (firstn u l ++ rest) = Some (v, u).
Proof.
  unfold uvarint4. intros H rest.
  pose proof (uvarint_fuel_prefix _ _ _ _ _ _ _ H rest) as G.
  rewrite Nat.sub_0_r in G. exact G.
Qed.

(* ---------- inversion of the header decoder and of read_lp ---------- *)

Lemma hdr_decode_inv h src h' n : hdr_decode h src = Ok (h', n) ->
  exists rl m, n = S m /\ uvarint4 (skipn 1 src) = Some (rl, m)
    /\ h' = mkHdr rl (nth 0 src 0) (pid h) (firstn (S m + N.to_nat rl) src) (dirty h) true (pal h)
    /\ (S m + N.to_nat rl <= length src)%nat /\ rl <= maxRemainingLength
    /\ nth 0 src 0 / 16 = h_type h
    /\ (h_type h = T_PUBLISH -> publish_qos_of_flags (nth 0 src 0 mod 16) < 3)
    /\ (2 <= length src)%nat.
Proof.
  unfold hdr_decode. intros H.
  destruct (length src <? 2)%nat eqn:E0; [discriminate H|].
  rewrite idx_lt in H by lia. cbn [bind] in H.
  remember (nth 0 src 0) as b0 eqn:Eb0.
  destruct (negb (type_valid (b0 / 16))) eqn:E1; [discriminate H|].
  destruct (negb (h_type h =? b0 / 16)) eqn:E2; [discriminate H|].
  destruct (negb (b0 / 16 =? T_PUBLISH) && negb (b0 mod 16 =? default_flags (b0 / 16))) eqn:E3; [discriminate H|].
  destruct ((b0 / 16 =? T_PUBLISH) && negb (publish_qos_of_flags (b0 mod 16) <? 3)) eqn:E4; [discriminate H|].
  rewrite from_ok in H by lia. cbn [bind] in H.
  destruct (uvarint4 (skipn 1 src)) as [[rl m]|] eqn:EU; [|discriminate H].
  pose proof (uvarint4_used _ _ _ EU) as UU. rewrite skipn_length in UU.
  destruct (maxRemainingLength <? rl) eqn:E5; [discriminate H|].
  destruct (N.of_nat (length src - S m) <? rl) eqn:E6; [discriminate H|].
  rewrite sl_ok in H by lia. cbn [bind] in H.
  rewrite Nat.sub_0_r in H. change (skipn 0 src) with src in H.
  injection H as H1 H2.
  exists rl, m.
  apply negb_false_iff in E2. apply N.eqb_eq in E2.
  split; [symmetry; exact H2|]. split; [reflexivity|]. split; [symmetry; exact H1|].
  split; [lia|]. split; [lia|]. split; [symmetry; exact E2|].
  split; [|lia].
  intros HT. rewrite <- E2, HT in E4. change (T_PUBLISH =? T_PUBLISH) with true in E4. cbn [andb] in E4.
  apply negb_false_iff in E4. lia.
Qed.

Lemma read_lp_inv buf s n : read_lp buf = Ok (s, n) ->
  exists hi lo rest, buf = hi :: lo :: s ++ rest /\ rd16 hi lo = len s /\ n = (2 + length s)%nat.
Proof.
  unfold read_lp. intros H.
  destruct (length buf <? 2)%nat eqn:E0; [discriminate H|].
  destruct buf as [|hi [|lo r]]; [cbn [length] in E0; lia|cbn [length] in E0; lia|].
  rewrite idx_cons0 in H. unfold idx at 1 in H. cbn [nth_error bind] in H.
  remember (rd16 hi lo) as X eqn:EX.
  destruct (N.of_nat (length (hi :: lo :: r)) <? 2 + X) eqn:E1; [discriminate H|].
  cbn [length] in E1.
  rewrite sl_ok in H; [|lia|cbn [length]; lia].
  cbn [bind] in H. injection H as H1 H2.
  cbn [skipn] in H1.
  replace (_ - _)%nat with (N.to_nat X) in H1 by lia.
  exists hi, lo, (skipn (N.to_nat X) r).
  assert (LS : length s = N.to_nat X).
  { rewrite <- H1. apply firstn_length_le'. lia. }
  split; [rewrite <- H1; rewrite firstn_skipn; reflexivity|].
  split; [unfold len; lia|lia].
Qed.

Lemma read_lp_gen hi lo s rest : rd16 hi lo = len s ->
  read_lp (hi :: lo :: s ++ rest) = Ok (s, (2 + length s)%nat).
Proof.
  intros HR. unfold read_lp.
  assert (LL : length (hi :: lo :: s ++ rest) = (2 + length s + length rest)%nat).
  { cbn [length]. rewrite app_length. lia. }
  destruct (length (hi :: lo :: s ++ rest) <? 2)%nat eqn:E0; [lia|].
  rewrite idx_cons0. unfold idx at 1. cbn [nth_error bind].
  rewrite HR.
  destruct (N.of_nat (length (hi :: lo :: s ++ rest)) <? 2 + len s) eqn:E1.
  { unfold len in E1. lia. }
  rewrite to_nat_len.
  change (hi :: lo :: s ++ rest) with ([hi; lo] ++ s ++ rest).
  rewrite sl_app3 by reflexivity. reflexivity.
Qed.

(* ---------- the decode buffer of a message that is not dirty ---------- *)

Definition shape (m : pubmsg) : Prop :=
  exists vb hi lo pidb,
    dbuf (p_h m) = tf (p_h m) :: vb ++ (hi :: lo :: p_topic m ++ pidb ++ p_payload m)
    /\ (forall rest, uvarint4 (vb ++ rest) = Some (len (hi :: lo :: p_topic m ++ pidb ++ p_payload m), length vb))
    /\ len (hi :: lo :: p_topic m ++ pidb ++ p_payload m) <= maxRemainingLength
    /\ rd16 hi lo = len (p_topic m)
    /\ valid_topic (p_topic m) = true
    /\ length pidb = (if pub_qos m =? 0 then 0%nat else 2%nat)
    /\ hal (p_h m) = true.

Lemma hdr_decode_pub t vb B : pubtf t = true ->
  uvarint4 (vb ++ B) = Some (len B, length vb) -> len B <= maxRemainingLength ->
  hdr_decode (new_hdr T_PUBLISH) (t :: vb ++ B)
  = Ok (mkHdr (len B) t None (t :: vb ++ B) true true None, S (length vb)).
Proof.
  intros Ht HU HL.
  pose proof (uvarint4_used _ _ _ HU) as [U1 U2].
  destruct (tf_nibble t Ht) as (_ & _ & T16).
  pose proof (pubtf_qos t Ht) as HQ. unfold qf in HQ.
  unfold hdr_decode.
  assert (LS : length (t :: vb ++ B) = S (length vb + length B)).
  { cbn [length]. rewrite app_length. reflexivity. }
  remember (t :: vb ++ B) as src eqn:Es.
  destruct (length src <? 2)%nat eqn:E0; [lia|].
  rewrite Es at 1. rewrite idx_cons0. cbn [bind].
  rewrite T16, new_hdr_type.
  change (type_valid 3) with true. change (T_PUBLISH =? 3) with true. change (3 =? T_PUBLISH) with true.
  cbn [negb andb].
  destruct (publish_qos_of_flags (t mod 16) <? 3) eqn:E4; [|lia]. cbn [negb].
  rewrite from_ok by lia. cbn [bind]. rewrite Es at 1. cbn [skipn]. rewrite HU.
  destruct (maxRemainingLength <? len B) eqn:E5; [lia|].
  destruct (N.of_nat (length src - S (length vb)) <? len B) eqn:E6.
  { unfold len in E6. lia. }
  rewrite sl_ok; [|lia|unfold len; lia]. cbn [bind].
  rewrite Nat.sub_0_r. change (skipn 0 src) with src.
  rewrite firstn_all2 by (unfold len; lia).
  reflexivity.
Qed.

Lemma decode_of_shape t vb hi lo topic pidb payload :
  pubtf t = true ->
  (forall rest, uvarint4 (vb ++ rest) = Some (len (hi :: lo :: topic ++ pidb ++ payload), length vb)) ->
  len (hi :: lo :: topic ++ pidb ++ payload) <= maxRemainingLength ->
  rd16 hi lo = len topic -> valid_topic topic = true ->
  length pidb = (if qf t =? 0 then 0%nat else 2%nat) ->
  exists m', pub_decode pub_new (t :: vb ++ hi :: lo :: topic ++ pidb ++ payload)
             = Ok (m', length (t :: vb ++ hi :: lo :: topic ++ pidb ++ payload))
    /\ p_topic m' = topic /\ p_payload m' = payload /\ tf (p_h m') = t.
Proof.
  intros Ht HU HL HR HV HP.
  remember (hi :: lo :: topic ++ pidb ++ payload) as B eqn:EB.
  assert (LB : length B = (2 + length topic + length pidb + length payload)%nat).
  { rewrite EB. cbn [length]. rewrite !app_length. lia. }
  pose proof (uvarint4_used _ _ _ (HU B)) as [U1 U2].
  unfold pub_decode, pub_new. cbn [p_h].
  rewrite (hdr_decode_pub t vb B Ht (HU B) HL). cbn [bind dbuf tf remlen].
  assert (LS : length (t :: vb ++ B) = S (length vb + length B)).
  { cbn [length]. rewrite app_length. reflexivity. }
  rewrite from_ok by lia. cbn [bind].
  assert (SK : skipn (S (length vb)) (t :: vb ++ B) = B).
  { cbn [skipn]. apply skipn_app_exact. reflexivity. }
  rewrite SK.
  assert (RL : read_lp B = Ok (topic, (2 + length topic)%nat)).
  { rewrite EB. apply read_lp_gen. exact HR. }
  rewrite RL. cbn [at_off bind]. rewrite HV. cbn [negb].
  fold (qf t).
  pose proof (to_nat_len B) as TL.
  set (pre := t :: vb ++ hi :: lo :: topic).
  assert (LPRE : length pre = (S (length vb) + (2 + length topic))%nat).
  { unfold pre. cbn [length]. rewrite app_length. cbn [length]. lia. }
  remember (t :: vb ++ B) as src eqn:Es.
  destruct (qf t =? 0) eqn:EQ.
  - destruct pidb as [|? ?]; [|discriminate HP]. cbn [app] in EB. cbn [length] in LB.
    cbn [bind remlen].
    destruct (N.to_nat (len B) <? S (length vb) + (2 + length topic) - S (length vb))%nat eqn:E1; [lia|].
    assert (EF : src = pre ++ payload ++ []).
    { unfold pre. rewrite Es, EB, app_nil_r. cbn [app]. f_equal. rewrite <- app_assoc. reflexivity. }
    assert (S2 : sl src (S (length vb) + (2 + length topic))
                   (S (length vb) + (2 + length topic)
                    + (N.to_nat (len B) - (S (length vb) + (2 + length topic) - S (length vb))))
                 = Ok payload).
    { rewrite EF. apply sl_app3; lia. }
    rewrite S2. cbn [bind]. eexists. split.
    + apply ok_pair_eq. lia.
    + cbn [p_topic p_payload p_h h_clean tf]. repeat split; reflexivity.
  - destruct pidb as [|p1 [|p2 [|? ?]]]; try discriminate HP. cbn [length] in LB.
    destruct (length src <? S (length vb) + (2 + length topic) + 2)%nat eqn:E0; [lia|].
    assert (EF : src = pre ++ [p1; p2] ++ (payload ++ [])).
    { unfold pre. rewrite Es, EB, app_nil_r. cbn [app]. f_equal. rewrite <- app_assoc. reflexivity. }
    assert (S1 : sl src (S (length vb) + (2 + length topic)) (S (length vb) + (2 + length topic) + 2)
                 = Ok [p1; p2]).
    { rewrite EF. apply sl_app3; [lia|reflexivity]. }
    rewrite S1. cbn [bind idx nth_error remlen dbuf].
    destruct (N.to_nat (len B) <? S (length vb) + (2 + length topic) + 2 - S (length vb))%nat eqn:E1; [lia|].
    assert (EF2 : src = (pre ++ [p1; p2]) ++ payload ++ []).
    { rewrite EF. rewrite <- !app_assoc. reflexivity. }
    assert (S2 : sl src (S (length vb) + (2 + length topic) + 2)
                   (S (length vb) + (2 + length topic) + 2
                    + (N.to_nat (len B) - (S (length vb) + (2 + length topic) + 2 - S (length vb))))
                 = Ok payload).
    { rewrite EF2. apply sl_app3; [rewrite app_length; cbn [length]; lia|lia]. }
    rewrite S2. cbn [bind]. eexists. split.
    + apply ok_pair_eq. lia.
    + cbn [p_topic p_payload p_h h_clean tf]. repeat split; reflexivity.
Qed.

(* a freshly decoded message: not dirty, and its buffer has the shape *)
Lemma pub_decode_shape raw m n : pub_decode pub_new raw = Ok (m, n) ->
  dirty (p_h m) = false /\ pubtf (tf (p_h m)) = true /\ shape m.
Proof.
  unfold pub_decode. intros H.
  destruct (hdr_decode (p_h pub_new) raw) as [[h1 hn]|?c ?k|] eqn:EH; cbn [bind] in H; try discriminate H.
  apply hdr_decode_inv in EH as (rl & k & -> & EU & -> & L1 & L2 & T1 & T2 & L0).
  cbn [dbuf tf remlen] in H.
  change (h_type (p_h pub_new)) with 3 in T1. specialize (T2 eq_refl).
  pose proof (uvarint4_used _ _ _ EU) as [U1 U2]. rewrite skipn_length in U2.
  remember (nth 0 raw 0) as t eqn:Et.
  assert (HT : pubtf t = true).
  { unfold pubtf. apply andb_true_iff. split; [lia|]. apply N.ltb_lt. exact T2. }
  remember (N.to_nat rl) as R eqn:ER.
  set (vb := firstn k (skipn 1 raw)).
  set (B := firstn R (skipn (S k) raw)).
  assert (LV : length vb = k). { unfold vb. apply firstn_length_le'. rewrite skipn_length. lia. }
  assert (LBB : length B = R). { unfold B. apply firstn_length_le'. rewrite skipn_length. lia. }
  assert (ED : firstn (S k + R) raw = t :: vb ++ B).
  { destruct raw as [|x r]; [cbn [length] in L0; lia|].
    cbn [nth] in Et. subst t. unfold vb, B. cbn [Nat.add firstn skipn]. f_equal. apply firstn_plus. }
  rewrite ED in H.
  assert (LD : length (t :: vb ++ B) = (S k + R)%nat).
  { cbn [length]. rewrite app_length. lia. }
  rewrite from_ok in H by lia. cbn [bind] in H.
  assert (SK : skipn (S k) (t :: vb ++ B) = B).
  { cbn [skipn]. apply skipn_app_exact. symmetry. exact LV. }
  rewrite SK in H.
  destruct (read_lp B) as [[topic n1]|?c ?k|] eqn:ERL; cbn [at_off bind] in H; try discriminate H.
  apply read_lp_inv in ERL as (hi & lo & rest1 & EB & HR & ->).
  destruct (negb (valid_topic topic)) eqn:EV; [discriminate H|]. apply negb_false_iff in EV.
  assert (LR1 : (2 + length topic + length rest1 = R)%nat).
  { rewrite <- LBB, EB. cbn [length]. rewrite app_length. lia. }
  assert (RLB : len B = rl). { unfold len. lia. }
  assert (HU : forall rest, uvarint4 (vb ++ rest) = Some (len B, length vb)).
  { intros rest. rewrite RLB, LV. unfold vb. apply uvarint4_prefix. exact EU. }
  remember (t :: vb ++ B) as d eqn:Ed.
  assert (SKB : forall j, skipn (S k + j) d = skipn j B).
  { intros j. rewrite Ed. change (t :: vb ++ B) with ((t :: vb) ++ B).
    apply skipn_app_plus. cbn [length]. lia. }
  assert (SKR : forall j, skipn (2 + length topic + j) B = skipn j rest1).
  { intros j. rewrite EB. change (hi :: lo :: topic ++ rest1) with ((hi :: lo :: topic) ++ rest1).
    apply skipn_app_plus. cbn [length]. lia. }
  fold (qf t) in H.
  destruct (qf t =? 0) eqn:EQ; cbn [bind] in H.
  - cbn [remlen] in H. rewrite <- ER in H.
    destruct (R <? S k + (2 + length topic) - S k)%nat eqn:E1; [discriminate H|].
    rewrite sl_ok in H by lia. cbn [bind] in H. match type of H with Ok (?a, _) = Ok (m, n) => assert (H1 : a = m) by congruence; clear H end.
    pose proof (SKR 0%nat) as SKR0. rewrite Nat.add_0_r in SKR0. cbn [skipn] in SKR0.
    rewrite SKB, SKR0 in H1.
    rewrite firstn_all2 in H1 by lia.
    subst m. cbn [p_h p_topic p_payload h_clean dirty tf].
    split; [reflexivity|]. split; [exact HT|].
    exists vb, hi, lo, []. cbn [p_h p_topic p_payload h_clean dbuf tf hal app].
    rewrite <- EB.
    split; [exact Ed|]. split; [exact HU|]. split; [lia|]. split; [exact HR|]. split; [exact EV|].
    split; [|reflexivity].
    unfold pub_qos, h_flags, h_clean. cbn [p_h tf]. fold (qf t). rewrite EQ. reflexivity.
  - destruct (length d <? S k + (2 + length topic) + 2)%nat eqn:E0; [discriminate H|].
    rewrite sl_ok in H by lia. cbn [bind] in H.
    rewrite !idx_lt in H by (rewrite sl_len; lia). cbn [bind remlen dbuf] in H.
    rewrite <- ER in H.
    destruct (R <? S k + (2 + length topic) + 2 - S k)%nat eqn:E1; [discriminate H|].
    rewrite sl_ok in H by lia. cbn [bind] in H. match type of H with Ok (?a, _) = Ok (m, n) => assert (H1 : a = m) by congruence; clear H end.
    replace (S k + (2 + length topic) + 2)%nat with (S k + (2 + length topic + 2))%nat in H1 by lia.
    rewrite !SKB, !SKR in H1.
    rewrite (firstn_all2 (skipn 2 rest1)) in H1 by (rewrite skipn_length; lia).
    subst m. cbn [p_h p_topic p_payload h_clean dirty tf].
    split; [reflexivity|]. split; [exact HT|].
    exists vb, hi, lo, (firstn 2 rest1). cbn [p_h p_topic p_payload h_clean dbuf tf hal].
    rewrite firstn_skipn. rewrite <- EB.
    split; [exact Ed|]. split; [exact HU|]. split; [lia|]. split; [exact HR|]. split; [exact EV|].
    split; [|reflexivity].
    unfold pub_qos, h_flags, h_clean. cbn [p_h tf]. fold (qf t). rewrite EQ.
    apply firstn_length_le'. lia.
Qed.

(* ---------- a dirty message: Len / Encode rebuild the packet from the fields ---------- *)

(* C03 encode_pub (Codec/ProofsEncode.v), for the invariant [pub_inv] instead of [built_pub]; the
   conclusion also says what identifier the message carries afterwards *)
Lemma encode_pub_inv m c dl :
  pub_inv m -> packet_ok (abs_pub_c m c) = true ->
  let '(m1, l) := pub_len m in
  l = length (wire (abs_pub_c m c)) /\
  ((l <= dl)%nat -> exists m2,
     pub_encode m1 c dl = Ok (m2, (if pub_qos m =? 0 then c else counter_after (p_h m) c), wire (abs_pub_c m c))
     /\ abs_pub m2 = abs_pub_c m c
     /\ tf (p_h m2) = tf (p_h m) /\ dirty (p_h m2) = true
     /\ packet_id (p_h m2) = (if pub_qos m =? 0 then packet_id (p_h m) else pid_or_auto (p_h m) c)).
Proof.
  intros [ID IT] OK.
  pose proof (pub_tf_decomp _ IT) as DEC.
  unfold abs_pub_c in *. cbn [packet_ok wire] in *.
  remember (pub_qos m) as q eqn:Eq.
  remember (if q =? 0 then 0 else pid_or_auto (p_h m) c) as pidv eqn:Epidv.
  remember (if q =? 0 then [] else be16 pidv) as pidb eqn:Epidb.
  remember (lp (p_topic m) ++ pidb ++ p_payload m) as body eqn:Ebody.
  apply andb_true_iff in OK as [OK HBL]. apply body_len_ok_le in HBL.
  apply andb_true_iff in OK as [OK HQ2].
  apply andb_true_iff in OK as [OK HQ1].
  apply andb_true_iff in OK as [OK HPID]. apply N.ltb_lt in HPID.
  apply andb_true_iff in OK as [OK HPAY].
  apply andb_true_iff in OK as [OK HVT].
  apply andb_true_iff in OK as [HQ HSO]. apply N.ltb_lt in HQ.
  pose proof (str_ok_le _ HSO) as HTL.
  assert (ML : pub_msglen m = len body).
  { unfold pub_msglen. rewrite <- Eq, Ebody, Epidb, !len_app, len_lp.
    destruct (q =? 0); [rewrite len_nil|rewrite len_be16]; lia. }
  assert (TY : type_valid (h_type (p_h m)) = true).
  { unfold h_type. apply type_valid_iff. lia. }
  unfold pub_len. rewrite ID. cbn [negb]. rewrite ML.
  rewrite set_remlen_ok by exact HBL.
  set (h1 := {| remlen := len body; tf := tf (p_h m); pid := pid (p_h m); dbuf := dbuf (p_h m);
               dirty := true; hal := hal (p_h m); pal := pal (p_h m) |}).
  assert (HM1 : hdr_msglen h1 = S (length (varint (len body)))).
  { unfold hdr_msglen, h1. cbn [remlen]. apply hdr_msglen_of_varint. exact HBL. }
  rewrite HM1, to_nat_len, fixed_length.
  split; [reflexivity|].
  intros HL. unfold pub_encode.
  cbn [with_h p_h p_topic p_payload].
  change (dirty h1) with true. cbn [negb].
  destruct (len (p_topic m) =? 0) eqn:ET.
  { unfold valid_topic in HVT. rewrite ET in HVT. discriminate HVT. }
  rewrite (pub_msglen_with_h m h1 eq_refl), ML.
  rewrite set_remlen_ok by exact HBL.
  change {| remlen := len body; tf := tf h1; pid := pid h1; dbuf := dbuf h1; dirty := true;
            hal := hal h1; pal := pal h1 |} with h1.
  rewrite HM1, to_nat_len.
  match goal with |- context [if ?c then Err 0 0 else _] => destruct c eqn:E1 end; [lia|].
  rewrite hdr_encode_ok; [|rewrite HM1; lia|exact HBL|exact TY].
  cbn [bind].
  unfold write_lp. destruct (maxLPString <? len (p_topic m)) eqn:E2; [lia|].
  rewrite (pub_qos_with_h m h1 eq_refl), <- Eq.
  change (tf h1) with (tf (p_h m)). change (remlen h1) with (len body).
  assert (TFE : tf (p_h m) = T_PUBLISH * 16 + (b2n (pub_dup m) * 8 + q * 2 + b2n (pub_retain m))).
  { rewrite Eq. exact DEC. }
  destruct (q =? 0) eqn:EQ.
  - subst pidb. eexists. split; [|split; [|split; [|split]]].
    + unfold fixed. rewrite <- TFE, Ebody. reflexivity.
    + etransitivity; [apply (abs_pub_with_h m h1 eq_refl)|].
      rewrite <- Eq, EQ, Epidv. reflexivity.
    + reflexivity.
    + reflexivity.
    + reflexivity.
  - change (packet_id h1) with (packet_id (p_h m)).
    unfold pid_or_auto, counter_after in *.
    destruct (packet_id (p_h m) =? 0) eqn:EP.
    + destruct (auto_id_facts c) as [A1 A2].
      unfold auto_id in *.
      destruct (next_pid c) as [c' id] eqn:ENP. cbn [fst snd] in *.
      rewrite set_pid_packet_id.
      destruct (id =? 0) eqn:EI; [lia|].
      subst pidb pidv. eexists. split; [|split; [|split; [|split]]].
      * unfold fixed. rewrite <- TFE, Ebody. reflexivity.
      * etransitivity; [apply (abs_pub_with_h m (set_pid h1 id)); exact (set_pid_tf h1 id)|].
        rewrite set_pid_packet_id, EI, <- Eq, EQ. reflexivity.
      * cbn [with_h p_h]. rewrite set_pid_tf. reflexivity.
      * cbn [with_h p_h]. apply set_pid_dirty. reflexivity.
      * cbn [with_h p_h]. rewrite set_pid_packet_id, EI. reflexivity.
    + subst pidb pidv. eexists. split; [|split; [|split; [|split]]].
      * unfold fixed. rewrite <- TFE, Ebody. reflexivity.
      * etransitivity; [apply (abs_pub_with_h m h1 eq_refl)|].
        rewrite <- Eq, EQ. reflexivity.
      * reflexivity.
      * reflexivity.
      * reflexivity.
Qed.

(* ---------- Len(); Encode ---------- *)

Lemma lenenc_clean m c : dirty (p_h m) = false ->
  lenenc (MPub m) c = (MPub m, c, Ok (dbuf (p_h m))).
Proof.
  intros H. unfold lenenc, do_len, pub_len. rewrite H. cbn [negb do_enc].
  unfold pub_encode. rewrite H. cbn [negb]. rewrite Nat.ltb_irrefl. reflexivity.
Qed.

Lemma body_len_ok_intro X : len X <= maxRemainingLength -> body_len_ok X = true.
Proof. intros H. unfold body_len_ok. lia. Qed.

Lemma enc_ok_packet_ok m c : pubtf (tf (p_h m)) = true -> enc_ok m -> packet_ok (abs_pub_c m c) = true.
Proof.
  intros HT (E1 & E2 & E3 & E4 & E5).
  pose proof (pubtf_qos _ HT) as HQ. rewrite <- pub_qos_qf in HQ.
  destruct (auto_id_facts c) as [A1 A2].
  unfold abs_pub_c. cbn [packet_ok].
  remember (pub_qos m) as q eqn:Eq.
  remember (if q =? 0 then 0 else pid_or_auto (p_h m) c) as pidv eqn:Epidv.
  assert (BL : body_len_ok (lp (p_topic m) ++ (if q =? 0 then [] else be16 pidv) ++ p_payload m) = true).
  { apply body_len_ok_intro. rewrite !len_app, len_lp.
    destruct (q =? 0); [rewrite len_nil|rewrite len_be16]; lia. }
  rewrite BL, E1, E2, E3.
  assert (PV : (q = 0 /\ pidv = 0) \/ (q <> 0 /\ pidv <> 0 /\ pidv < 65536)).
  { unfold pid_or_auto in Epidv. destruct (q =? 0) eqn:EQ; [left; lia|right].
    destruct (packet_id (p_h m) =? 0) eqn:EP; subst pidv; lia. }
  clear Epidv BL.
  destruct (q <? 3) eqn:X1; [|lia].
  destruct (pidv <? 65536) eqn:X2; [|lia].
  destruct (q =? 0) eqn:X3; destruct (pidv =? 0) eqn:X4; try lia; reflexivity.
Qed.

Lemma fields_of_eq m1 m2 :
  p_topic m1 = p_topic m2 -> p_payload m1 = p_payload m2 -> tf (p_h m1) = tf (p_h m2) ->
  fields_of m1 = fields_of m2.
Proof.
  intros H1 H2 H3. unfold fields_of, pub_qos, pub_retain, pub_dup, h_flags. rewrite H1, H2, H3. reflexivity.
Qed.

Lemma abs_pub_fields m1 m2 c : abs_pub m1 = abs_pub_c m2 c -> fields_of m1 = fields_of m2.
Proof.
  unfold abs_pub, abs_pub_c, fields_of. intros H. injection H as H1 H2 H3 H4 H5 H6.
  rewrite H1, H2, H3, H4, H6. reflexivity.
Qed.

(* ---------- the invariant of forwarded messages ---------- *)

Definition finv (m : pubmsg) : Prop :=
  pubtf (tf (p_h m)) = true /\ (dirty (p_h m) = true \/ (dirty (p_h m) = false /\ shape m)).

Lemma built_pub_finv m : built_pub m -> dirty (p_h m) = true /\ pubtf (tf (p_h m)) = true.
Proof.
  induction 1 as [|m v B [ID IT]|m v B [ID IT]|m v m' B [ID IT] E|m t m' B [ID IT] HB E
                 |m t B [ID IT] HB|m v B [ID IT] HV|m B [ID IT]].
  - split; reflexivity.
  - destruct (tf_dup _ IT) as [D1 D2].
    unfold pub_set_dup. cbn [with_h p_h set_tf dirty tf]. split; [exact ID|].
    destruct v; assumption.
  - destruct (tf_retain_on _ IT) as (R1 & _). destruct (tf_retain_off _ IT) as (R0 & _).
    unfold pub_set_retain. cbn [with_h p_h set_tf dirty tf]. split; [exact ID|].
    destruct v; assumption.
  - unfold pub_set_qos in E. destruct (negb (v <? 3)) eqn:EV; [discriminate E|].
    assert (HV : v < 3) by lia. destruct (tf_qos _ v IT HV) as (Q1 & _).
    injection E as E. subst m'.
    destruct (Bool.eqb (0 <? pub_qos m) (0 <? v)); cbn [with_h p_h h_dirty set_tf dirty tf];
      (split; [try exact ID; reflexivity|exact Q1]).
  - unfold pub_set_topic in E. destruct (valid_topic t); [|discriminate E]. injection E as E. subst m'.
    cbn [p_h h_dirty dirty tf]. split; [reflexivity|exact IT].
  - unfold pub_set_payload. cbn [p_h h_dirty dirty tf]. split; [reflexivity|exact IT].
  - unfold pub_set_pid. cbn [with_h p_h]. rewrite set_pid_tf. split; [apply set_pid_dirty; exact ID|exact IT].
  - unfold pub_len. rewrite ID. cbn [negb]. unfold set_remlen.
    destruct (maxRemainingLength <? pub_msglen m); cbn [fst]; [split; assumption|].
    cbn [with_h p_h dirty tf]. split; [reflexivity|exact IT].
Qed.

Lemma set_qos_finv m v m' : finv m -> pub_set_qos m v = Some m' -> finv m'.
Proof.
  intros [IT ID] E.
  unfold pub_set_qos in E. destruct (negb (v <? 3)) eqn:EV; [discriminate E|].
  assert (HV : v < 3) by lia. destruct (tf_qos _ v IT HV) as (Q1 & Q2 & _).
  injection E as E. subst m'.
  destruct (Bool.eqb (0 <? pub_qos m) (0 <? v)) eqn:EB.
  2: { split; [exact Q1|left; reflexivity]. }
  destruct ID as [ID|[ID SH]].
  - split; [exact Q1|left; exact ID].
  - split; [exact Q1|right]. split; [exact ID|].
    destruct SH as (vb & hi & lo & pidb & D & U & L & R & V & P & HA).
    exists vb, hi, lo, pidb.
    unfold pub_qos, h_flags.
    cbn [with_h p_h p_topic p_payload set_tf dbuf tf hal].
    rewrite HA, D, patch0.
    split; [reflexivity|]. split; [exact U|]. split; [exact L|]. split; [exact R|]. split; [exact V|].
    split; [|reflexivity].
    fold (qf (N.lor (N.land (tf (p_h m)) 249) (v * 2))). rewrite Q2, P.
    apply Bool.eqb_prop in EB.
    destruct (pub_qos m =? 0) eqn:X1; destruct (v =? 0) eqn:X2; try reflexivity; lia.
Qed.

Lemma set_retain_finv m r : finv m -> finv (pub_set_retain m r).
Proof.
  intros [IT ID].
  destruct (tf_retain_on _ IT) as (R1 & R1q & _). destruct (tf_retain_off _ IT) as (R0 & R0q & _).
  set (t' := if r then N.lor (tf (p_h m)) 1 else N.land (tf (p_h m)) 254).
  assert (T1 : pubtf t' = true) by (unfold t'; destruct r; assumption).
  assert (T2 : qf t' = qf (tf (p_h m))) by (unfold t'; destruct r; assumption).
  unfold pub_set_retain. fold t'.
  destruct ID as [ID|[ID SH]].
  - split; [exact T1|left; exact ID].
  - split; [exact T1|right]. split; [exact ID|].
    destruct SH as (vb & hi & lo & pidb & D & U & L & R & V & P & HA).
    exists vb, hi, lo, pidb.
    unfold pub_qos, h_flags.
    cbn [with_h p_h p_topic p_payload set_tf dbuf tf hal].
    rewrite HA, D, patch0.
    split; [reflexivity|]. split; [exact U|]. split; [exact L|]. split; [exact R|]. split; [exact V|].
    split; [|reflexivity].
    fold (qf t'). rewrite T2, P. reflexivity.
Qed.

(* what Len(); Encode does to a dirty message, whenever it succeeds *)
Lemma lenenc_dirty_inv m c m' c' b : dirty (p_h m) = true ->
  lenenc (MPub m) c = (MPub m', c', Ok b) ->
  tf (p_h m') = tf (p_h m) /\ dirty (p_h m') = true.
Proof.
  intros ID H. unfold lenenc, do_len, pub_len in H. rewrite ID in H. cbn [negb] in H.
  destruct (set_remlen (p_h m) (pub_msglen m)) as [h|] eqn:ES.
  - unfold set_remlen in ES. destruct (maxRemainingLength <? pub_msglen m); [discriminate ES|].
    injection ES as ES. cbn [do_enc] in H.
    destruct (pub_encode (with_h m h) c (hdr_msglen h + N.to_nat (pub_msglen m))) as [[[p1 c1] b1]|?k ?n|] eqn:EE;
      try discriminate H.
    injection H as H1 H2 H3. subst p1.
    unfold pub_encode in EE. cbn [with_h p_h p_topic p_payload] in EE.
    assert (DH : dirty h = true) by (subst h; reflexivity).
    assert (TH : tf h = tf (p_h m)) by (subst h; reflexivity).
    rewrite DH in EE. cbn [negb] in EE.
    destruct (len (p_topic m) =? 0); [discriminate EE|].
    destruct (set_remlen h (pub_msglen (with_h m h))) as [h2|] eqn:ES2; [|discriminate EE].
    unfold set_remlen in ES2.
    destruct (maxRemainingLength <? pub_msglen (with_h m h)); [discriminate ES2|].
    injection ES2 as ES2.
    assert (DH2 : dirty h2 = true) by (subst h2; reflexivity).
    assert (TH2 : tf h2 = tf (p_h m)) by (subst h2; cbn [tf]; exact TH).
    destruct (_ <? _)%nat; [discriminate EE|].
    destruct (hdr_encode h2 _) as [hb|?k ?n|]; cbn [bind] in EE; try discriminate EE.
    destruct (write_lp (p_topic m)) as [tb|]; [|discriminate EE].
    destruct (pub_qos (with_h m h) =? 0).
    + injection EE as EE _ _. subst m'. cbn [with_h p_h]. split; assumption.
    + destruct (packet_id h2 =? 0).
      * destruct (next_pid c) as [cn id]. injection EE as EE _ _. subst m'. cbn [with_h p_h].
        rewrite set_pid_tf. split; [exact TH2|apply set_pid_dirty; exact DH2].
      * injection EE as EE _ _. subst m'. cbn [with_h p_h]. split; assumption.
  - cbn [do_enc] in H. unfold pub_encode in H. rewrite ID in H. cbn [negb] in H.
    destruct (len (p_topic m) =? 0); [discriminate H|]. rewrite ES in H. discriminate H.
Qed.

Lemma enc_finv m c m' c' b : finv m -> lenenc (MPub m) c = (MPub m', c', Ok b) -> finv m'.
Proof.
  intros [IT ID] H. destruct ID as [ID|[ID SH]].
  - destruct (lenenc_dirty_inv _ _ _ _ _ ID H) as [T D]. split; [rewrite T; exact IT|left; exact D].
  - rewrite (lenenc_clean m c ID) in H. injection H as H _ _. subst m'.
    split; [exact IT|right; split; assumption].
Qed.

Lemma fwd_finv m : fwd m -> finv m.
Proof.
  induction 1 as [raw m n H|m B|m q m' F I E|m r F I|m c m' c' b F I E].
  - destruct (pub_decode_shape raw m n H) as (D & T & S).
    split; [exact T|right; split; assumption].
  - destruct (built_pub_finv m B) as [D T]. split; [exact T|left; exact D].
  - exact (set_qos_finv _ _ _ I E).
  - exact (set_retain_finv _ _ I).
  - exact (enc_finv _ _ _ _ _ I E).
Qed.

(* ---------- the round trip ---------- *)

Lemma enc_ok_same m m' : fields_of m' = fields_of m -> packet_id (p_h m') < 65536 -> enc_ok m -> enc_ok m'.
Proof.
  intros F P (E1 & E2 & E3 & E4 & E5).
  assert (T : p_topic m' = p_topic m) by exact (f_equal pf_topic F).
  assert (Y : p_payload m' = p_payload m) by exact (f_equal pf_payload F).
  unfold enc_ok. rewrite T, Y. repeat split; assumption.
Qed.

(* the statement for the invariant; it also says that the message can be written again *)
Lemma roundtrip_finv m c : finv m -> enc_ok m ->
  exists m' c' b, lenenc (MPub m) c = (MPub m', c', Ok b)
    /\ pub_fields b = Some (fields_of m)
    /\ fields_of m' = fields_of m
    /\ enc_ok m' /\ finv m'.
Proof.
  intros I EO. pose proof I as [IT ID]. destruct ID as [ID|[ID SH]].
  - pose proof (enc_ok_packet_ok m c IT EO) as OK.
    assert (PI : pub_inv m) by (split; [exact ID|apply pubtf_range; exact IT]).
    destruct (pub_len m) as [m1 l] eqn:EL.
    pose proof (encode_pub_inv m c l PI OK) as G. rewrite EL in G.
    destruct G as [GL GE]. destruct (GE (le_n l)) as (m2 & E1 & A & T & D & P).
    assert (LE : lenenc (MPub m) c
                 = (MPub m2, (if pub_qos m =? 0 then c else counter_after (p_h m) c), Ok (wire (abs_pub_c m c)))).
    { unfold lenenc, do_len. rewrite EL. cbn [do_enc]. rewrite E1. reflexivity. }
    pose proof (abs_pub_fields _ _ _ A) as F2.
    exists m2, (if pub_qos m =? 0 then c else counter_after (p_h m) c), (wire (abs_pub_c m c)).
    split; [exact LE|]. split; [|split; [exact F2|split]].
    + unfold abs_pub_c in *.
      destruct (accepts_pub _ _ _ _ _ _ [] OK) as (md & DE & AB).
      rewrite app_nil_r in DE. unfold pub_fields. rewrite DE, Nat.eqb_refl. f_equal.
      exact (abs_pub_fields md m c AB).
    + apply (enc_ok_same m m2 F2); [|exact EO].
      destruct EO as (_ & _ & _ & _ & E5). destruct (auto_id_facts c) as [_ A2].
      rewrite P. unfold pid_or_auto.
      destruct (pub_qos m =? 0); [exact E5|]. destruct (packet_id (p_h m) =? 0); assumption.
    + exact (enc_finv _ _ _ _ _ I LE).
  - exists m, c, (dbuf (p_h m)).
    split; [apply lenenc_clean; exact ID|]. split; [|split; [reflexivity|split; assumption]].
    destruct SH as (vb & hi & lo & pidb & D & U & L & R & V & P & HA).
    rewrite pub_qos_qf in P.
    destruct (decode_of_shape _ vb hi lo _ pidb _ IT U L R V P) as (md & DE & T1 & T2 & T3).
    rewrite D. unfold pub_fields. rewrite DE, Nat.eqb_refl. f_equal.
    apply fields_of_eq; assumption.
Qed.

Lemma forward_roundtrip : C01_forward_roundtrip.
Proof.
  intros m c F EO.
  destruct (roundtrip_finv m c (fwd_finv m F) EO) as (m' & c' & b & H1 & H2 & H3 & _).
  exists m', c', b. split; [exact H1|]. split; [exact H2|exact H3].
Qed.

(* the same with what the fan-out needs to go on: the written message is again a forwarded one *)
Lemma forward_roundtrip_fwd m c : fwd m -> enc_ok m ->
  exists m' c' b, lenenc (MPub m) c = (MPub m', c', Ok b)
    /\ pub_fields b = Some (fields_of m)
    /\ fields_of m' = fields_of m
    /\ enc_ok m' /\ fwd m'.
Proof.
  intros F EO.
  destruct (roundtrip_finv m c (fwd_finv m F) EO) as (m' & c' & b & H1 & H2 & H3 & H4 & _).
  exists m', c', b. split; [exact H1|]. split; [exact H2|]. split; [exact H3|]. split; [exact H4|].
  exact (fwd_enc _ _ _ _ _ F H1).
Qed.

Print Assumptions forward_roundtrip.
Print Assumptions forward_roundtrip_fwd.
