(* History-level statements over the broker model Proto/Broker.v: properties of SEQUENCES of steps,
   composed from the per-step statements of Proto/Props.v.

   C10: a persistent session survives the end of its connection and is active again after the next
        CONNECT with the same client identifier (stop ; connect), a clean one is discarded.
   C02: over any sequence of QoS 2 PUBLISH and PUBREL packets of one connection whose PUBRELs arrive
        in the order in which their identifiers first arrived, every exchange hands its first payload
        on exactly once, at its PUBREL.

   Only definitions: the proofs are in Proto/ProofsHist.v. *)
From Base Require Import Tactics Bytes.
From Gen Require Import Tables.
From Codec Require Import Wire Impl Script Statements.
From Topics Require Import Model Spec.
From Ackq Require Import Model Spec.
From Proto Require Import Broker Props.
Open Scope N_scope.

(* ====================================================================================== *)
(* C10: stop ; connect                                                                     *)
(* ====================================================================================== *)

(* what teardown does to the subscription tree: every stored filter is unsubscribed for c *)
Definition unsub_conn (st : store) (c : N) (topics : list (bytes * N)) : store :=
  fold_left (fun st tq => fst (t_unsubscribe st (fst tq) c)) topics st.

(* the store operations (Topics/Spec.v) of the re-activation: one OSub per stored (filter, QoS), in
   stored order, with exactly the stored QoS, for the new connection *)
Definition resub_ops (c : N) (topics : list (bytes * N)) : list top_op :=
  map (fun tq => OSub (fst tq) (snd tq) c) topics.

(* the later CONNECT: an accepted first packet on connection c' whose decoded CONNECT has client
   identifier k and CleanSession = 0.  (A CONNECT with an EMPTY identifier and CleanSession = 0 is never
   accepted - the decoder answers "identifier rejected" - so no hypothesis on the length of k is
   needed: see conn_decode_cid_nonempty in ProofsHist.v.) *)
Definition resuming_connect (bufsize : N) (br1 : broker) (c' : N) (k : bytes) (br2 : broker) (o2 : list out) : Prop :=
  exists b rest req n total,
    connect bufsize br1 c' true b = (br2, o2, CAccepted rest)
    /\ conn_decode conn_new (firstn total b) = Ok (req, n) /\ rest = skipn total b
    /\ c_cid req = k /\ conn_clean req = false.

(* Connection c is live with session key k, the session s is persistent.  After the end of c
   (for whatever reason: stop) the session is still stored, unchanged in every field, c is no longer a
   connection and its subscriptions are out of the tree.  EVERY later accepted CONNECT with the same
   client identifier and CleanSession = 0, on any connection number c', is answered with CONNACK
   session-present 1, code 0; the store afterwards is resubscribe (br_store br1) c' (se_topics s),
   i.e. the stored (filter, QoS) pairs subscribed again, in order, for c', each with exactly its stored
   QoS; and the session of c' is the old one: persistent, same subscriptions, same queue of
   incoming QoS 2 exchanges (the will is the one of the new CONNECT).
   No hypothesis on c' (it may be any number, also c again) and none on the other connections. *)
Definition C10_resume_roundtrip : Prop := forall br c k s br1 o1,
  conn_sess br c = Some (k, s) -> se_clean s = false ->
  stop br c = (br1, o1) ->
  (assoc_b k (br_sess br1) = Some s
   /\ conn_key br1 c = None
   /\ sroot (br_store br1) = sroot (unsub_conn (br_store br) c (se_topics s)))
  /\ forall bufsize c' br2 o2,
       resuming_connect bufsize br1 c' k br2 o2 ->
       o2 = [OPkt c' [32; 2; 1; 0]]
       /\ br_store br2 = resubscribe (br_store br1) c' (se_topics s)
       /\ br_store br2 = fold_left apply_op (resub_ops c' (se_topics s)) (br_store br1)
       /\ exists s', conn_sess br2 c' = Some (k, s')
            /\ se_clean s' = false
            /\ se_topics s' = se_topics s
            /\ se_pub2in s' = se_pub2in s.

(* Conversely: a clean session is gone after the end of its connection; a later CONNECT with that
   client identifier and CleanSession = 0 is answered with session-present 0, installs no subscription
   (the store is not changed at all) and starts from an empty session *)
Definition C10_clean_discards : Prop := forall br c k s br1 o1,
  conn_sess br c = Some (k, s) -> se_clean s = true ->
  stop br c = (br1, o1) ->
  assoc_b k (br_sess br1) = None
  /\ conn_key br1 c = None
  /\ forall bufsize c' br2 o2,
       resuming_connect bufsize br1 c' k br2 o2 ->
       o2 = [OPkt c' [32; 2; 0; 0]]
       /\ br_store br2 = br_store br1
       /\ exists s', conn_sess br2 c' = Some (k, s')
            /\ se_clean s' = false /\ se_topics s' = [] /\ se_pub2in s' = s_new.

(* ---------- the same, with other connections' events in between ---------- *)

(* Between the end of c and the next CONNECT of k anything may happen on connections that do not use
   the key k: packets processed (proc), teardowns (stop), in-process publishes, subscriptions and
   unsubscriptions, first packets of other clients.  EXTRA HYPOTHESES, visible here: the events in between belong to connections whose
   session key is not k (for proc and stop: the key the connection is registered with), and a first
   packet in between is accepted under a key different from k or refused.  (Server.Close is not among the
   events: it empties the session store.) *)
Inductive other_event (k : bytes) : broker -> broker -> Prop :=
| oe_proc fuel bufsize br d kd b br' o rest :
    conn_key br d = Some kd -> kd <> k ->
    proc fuel bufsize br d kd b = (br', o, rest) -> other_event k br br'
| oe_stop br d kd br' o :
    conn_key br d = Some kd -> kd <> k ->
    stop br d = (br', o) -> other_event k br br'
| oe_publish br b br' o :
    srv_publish br b = (br', o) -> other_event k br br'
| oe_subscribe br sb q t br' o :
    srv_subscribe br sb q t = (br', o) -> other_event k br br'
| oe_unsubscribe br sb t :
    other_event k br (srv_unsubscribe br sb t)
| oe_connect bufsize br d a b br' o r kd :
    connect bufsize br d a b = (br', o, r) ->
    (r <> CRefused -> conn_key br' d = Some kd /\ kd <> k) -> other_event k br br'.

Inductive other_events (k : bytes) : broker -> broker -> Prop :=
| oes_nil br : other_events k br br
| oes_cons br br1 br2 : other_event k br br1 -> other_events k br1 br2 -> other_events k br br2.

(* no live connection uses the key k *)
Definition key_free (br : broker) (k : bytes) : Prop := forall d, conn_key br d <> Some k.

(* the stored session of k is not touched by other connections' events, whatever they are and however
   many: after them the resuming CONNECT finds it as the ended connection left it *)
Definition C10_resume_after_others : Prop := forall br c k s br1 o1 br1',
  conn_sess br c = Some (k, s) -> se_clean s = false ->
  (forall d, d <> c -> conn_key br d <> Some k) ->       (* EXTRA: k is used by c only *)
  stop br c = (br1, o1) ->
  other_events k br1 br1' ->
  assoc_b k (br_sess br1') = Some s /\ key_free br1' k
  /\ forall bufsize c' br2 o2,
       resuming_connect bufsize br1' c' k br2 o2 ->
       o2 = [OPkt c' [32; 2; 1; 0]]
       /\ br_store br2 = resubscribe (br_store br1') c' (se_topics s)
       /\ exists s', conn_sess br2 c' = Some (k, s')
            /\ se_clean s' = false /\ se_topics s' = se_topics s /\ se_pub2in s' = se_pub2in s.

(* ====================================================================================== *)
(* C02: QoS 2, exactly once over a history                                                 *)
(* ====================================================================================== *)

(* ---------- the abstract run on the queue of incoming QoS 2 exchanges ---------- *)

(* the two packets of the receiving side: PUBLISH (QoS 2) and PUBREL, with identifier and packet bytes *)
Inductive q2ev :=
| QPub (pid : N) (raw : bytes)
| QRel (pid : N) (raw : bytes).

Definition q2_pid (ev : q2ev) : N := match ev with QPub p _ => p | QRel p _ => p end.
(* the acknowledgement the broker answers with *)
Definition q2_ack (ev : q2ev) : N := match ev with QPub _ _ => T_PUBREC | QRel _ _ => T_PUBCOMP end.

(* exactly the queue operations process_incoming uses (Broker.v, MPub with QoS 2 / MAck with PUBREL);
   second component: the entries released = the entries handed to release_pub2in *)
Definition q2_step (a : aspec) (ev : q2ev) : aspec * list entry :=
  match ev with
  | QPub pid raw => (fst (s_wait a T_PUBLISH 2 pid 0 raw), [])
  | QRel pid raw => s_acked (fst (s_ack a T_PUBREL pid raw))
  end.

(* result: the final queue, and per event the list of released entries *)
Fixpoint q2_run (evs : list q2ev) (a : aspec) : aspec * list (list entry) :=
  match evs with
  | [] => (a, [])
  | ev :: r =>
      let '(a1, rel) := q2_step a ev in
      let '(a2, rels) := q2_run r a1 in
      (a2, rel :: rels)
  end.

(* ---------- the abstract run IS the model ---------- *)

(* the event of a decoded packet *)
Definition q2_ev (raw : bytes) (m : msg) : option q2ev :=
  match m with
  | MPub p => if pub_qos p =? 2 then Some (QPub (packet_id (p_h p)) raw) else None
  | MAck h => if h_type h =? T_PUBREL then Some (QRel (packet_id h) raw) else None
  | _ => None
  end.

(* what release_pub2in hands to the fan-out for a list of released entries: the decoded stored PUBLISH
   of every entry that is a PUBLISH released by a PUBREL whose stored bytes decode *)
Definition handed1 (e : entry) : list pubmsg :=
  if e_mtype e =? T_PUBLISH then
    match pub_decode pub_new (e_msg e) with
    | Ok (m, _) =>
        match ack_decode (ack_new (e_state e)) (e_ack e) with
        | Ok _ => if existsb (N.eqb (e_state e)) acked_publish_states then [m] else []
        | _ => []
        end
    | _ => []
    end
  else [].
Definition handed (l : list entry) : list pubmsg := flat_map handed1 l.

Fixpoint pub_all (br : broker) (ms : list pubmsg) : broker * list out :=
  match ms with
  | [] => (br, [])
  | m :: r => let '(br1, o1) := on_publish br m in let '(br2, o2) := pub_all br1 r in (br2, o1 ++ o2)
  end.

Definition C02_release_hands : Prop := forall l br,
  release_pub2in br l = pub_all br (handed l).

(* one packet, in terms of the abstract step: the session's queue becomes the abstract queue, the
   released entries are handed on, the acknowledgement is written last *)
Definition q2_bstep (br : broker) (c : N) (k : bytes) (a : aspec) (ev : q2ev) : broker * list out :=
  let '(a1, rel) := q2_step a ev in
  let '(br1, o1) := pub_all (upd_pub2in br k (fun _ => a1)) (handed rel) in
  (br1, o1 ++ [OPkt c (wire (PAck (q2_ack ev) (q2_pid ev)))]).

Definition C02_q2_step_is_model : Prop := forall br c k raw m ev s,
  q2_ev raw m = Some ev -> q2_pid ev < 65536 ->
  assoc_b k (br_sess br) = Some s ->
  let '(br1, o) := q2_bstep br c k (se_pub2in s) ev in
  process_incoming br c k raw m = (br1, o, PContinue)
  /\ exists s1, assoc_b k (br_sess br1) = Some s1
       /\ se_pub2in s1 = fst (q2_step (se_pub2in s) ev)
       /\ se_clean s1 = se_clean s /\ se_willflag s1 = se_willflag s /\ se_will s1 = se_will s
       /\ se_topics s1 = se_topics s.

(* ---------- the reference: open exchanges ---------- *)

(* An exchange is open from the first PUBLISH with its identifier to its PUBREL.  The reference keeps
   the open exchanges in arrival order with the bytes of their FIRST PUBLISH:
   - PUBLISH, identifier not open: a new exchange is opened with these bytes; nothing is handed on
   - PUBLISH, identifier open (a repeated PUBLISH): nothing changes, nothing is handed on
   - PUBREL for the oldest open exchange: it is closed and its stored PUBLISH is handed on,
     together with the bytes of this PUBREL
   - any other PUBREL (identifier not open: repeated or unknown): nothing changes, nothing is handed on.
     (A PUBREL for an open exchange that is not the oldest is excluded by q2_inorder below; there the
     reference does not describe the model - that case is finding F18, see q2_out_of_order_* in
     ProofsHist.v.) *)
Definition open_entry (pr : N * bytes) : entry := mkE T_PUBLISH 0 (fst pr) (snd pr) [] 0.
Definition done_entry (pid : N) (raw rraw : bytes) : entry := mkE T_PUBLISH T_PUBREL pid raw rraw 0.
Definition is_open (open : list (N * bytes)) (pid : N) : bool := existsb (fun pr => fst pr =? pid) open.

Definition q2_ref_step (open : list (N * bytes)) (ev : q2ev) : list (N * bytes) * list entry :=
  match ev with
  | QPub pid raw => (if is_open open pid then open else open ++ [(pid, raw)], [])
  | QRel pid rraw =>
      match open with
      | (p0, raw0) :: rest => if p0 =? pid then (rest, [done_entry pid raw0 rraw]) else (open, [])
      | [] => (open, [])
      end
  end.

Fixpoint q2_ref_run (evs : list q2ev) (open : list (N * bytes)) : list (N * bytes) * list (list entry) :=
  match evs with
  | [] => (open, [])
  | ev :: r =>
      let '(open1, rel) := q2_ref_step open ev in
      let '(open2, rels) := q2_ref_run r open1 in
      (open2, rel :: rels)
  end.

(* in order: no PUBREL names an open exchange other than the oldest one *)
Fixpoint q2_inorder (open : list (N * bytes)) (evs : list q2ev) : Prop :=
  match evs with
  | [] => True
  | ev :: r =>
      match ev with QRel pid _ => ~ In pid (map fst (tl open)) | QPub _ _ => True end
      /\ q2_inorder (fst (q2_ref_step open ev)) r
  end.

(* the invariant: the queue holds exactly the open exchanges, in arrival order, all in state 0
   (not acknowledged), with distinct identifiers; the PINGREQ cell is not waiting to be released *)
Definition q2_inv (a : aspec) (open : list (N * bytes)) : Prop :=
  s_list a = map open_entry open
  /\ NoDup (map fst open)
  /\ e_state (s_ping a) <> T_PINGRESP.

(* ---------- exactly once ---------- *)

(* over ANY in-order sequence of QoS 2 PUBLISH and PUBREL packets, from any queue satisfying the
   invariant (the empty queue of a new session: q2_inv_new), the entries the queue releases are, event
   by event, those of the reference, and the invariant holds again at the end *)
Definition C02_qos2_once : Prop := forall evs a open,
  q2_inv a open -> q2_inorder open evs ->
  snd (q2_run evs a) = snd (q2_ref_run evs open)
  /\ q2_inv (fst (q2_run evs a)) (fst (q2_ref_run evs open))
  /\ s_ping (fst (q2_run evs a)) = s_ping a.

(* repeated packets: a PUBLISH whose identifier is still held, and a PUBREL whose identifier is not
   held (repeated, or never seen), change nothing and hand on nothing *)
Definition C02_qos2_repeats : Prop := forall a open pid raw,
  q2_inv a open ->
  (is_open open pid = true -> q2_step a (QPub pid raw) = (a, []))
  /\ (is_open open pid = false -> q2_step a (QRel pid raw) = (a, [])).

(* one exchange, without the reference: in an in-order history  pre ++ PUBLISH pid raw :: mid ++ PUBREL pid rraw :: post
   where the PUBLISH opens the exchange (pid is not open after pre) and mid has no PUBREL for pid (it may
   have any number of repeated PUBLISH packets with pid, with any bytes, and any packets of other exchanges),
   - the PUBREL releases exactly one entry: the PUBLISH bytes raw of the FIRST PUBLISH, with the PUBREL's bytes
   - no event from the PUBLISH up to the PUBREL releases an entry with this identifier
   - afterwards pid is not open: further PUBRELs for it hand on nothing (C02_qos2_repeats) until a new PUBLISH *)
Definition C02_qos2_exchange : Prop := forall a open pre pid raw mid rraw post,
  let evs := pre ++ QPub pid raw :: mid ++ QRel pid rraw :: post in
  q2_inv a open -> q2_inorder open evs ->
  is_open (fst (q2_ref_run pre open)) pid = false ->
  (forall r, ~ In (QRel pid r) mid) ->
  let outs := snd (q2_run evs a) in
  nth (length pre + S (length mid)) outs [] = [done_entry pid raw rraw]
  /\ (forall i e, (length pre <= i < length pre + S (length mid))%nat -> In e (nth i outs []) -> e_pid e <> pid)
  /\ is_open (fst (q2_ref_run (pre ++ QPub pid raw :: mid ++ [QRel pid rraw]) open)) pid = false.

(* a released exchange is handed to the fan-out as the decoded FIRST PUBLISH, once *)
Definition C02_handed_done : Prop := forall pid raw rraw m n x,
  pub_decode pub_new raw = Ok (m, n) -> ack_decode (ack_new T_PUBREL) rraw = Ok x ->
  handed [done_entry pid raw rraw] = [m].

(* in the processor loop a packet reaches process_incoming only after the decoder accepted its bytes
   (proc: new_msg ty = Some m0 and do_dec m0 raw = (m, 20 :: _), raw = the packet's bytes); for the two
   packets of QoS 2 that is exactly what release_pub2in asks of the stored bytes later, and the message
   handed on is the decoded PUBLISH itself *)
Definition C02_proc_bytes_decode : Prop := forall ty m0 raw m t ev,
  new_msg ty = Some m0 -> do_dec m0 raw = (m, 20 :: t) -> q2_ev raw m = Some ev ->
  match ev with
  | QPub _ r => exists p n, m = MPub p /\ pub_decode pub_new r = Ok (p, n)
  | QRel _ r => exists x, ack_decode (ack_new T_PUBREL) r = Ok x
  end.

(* ---------- the broker over a packet sequence ---------- *)

(* the processor loop of connection c (session key k) over decoded packets *)
Fixpoint q2_proc (br : broker) (c : N) (k : bytes) (pkts : list (bytes * msg)) : broker * list out :=
  match pkts with
  | [] => (br, [])
  | (raw, m) :: r =>
      let '(br1, o1, _) := process_incoming br c k raw m in
      let '(br2, o2) := q2_proc br1 c k r in
      (br2, o1 ++ o2)
  end.

Fixpoint q2_evs (pkts : list (bytes * msg)) : option (list q2ev) :=
  match pkts with
  | [] => Some []
  | (raw, m) :: r =>
      match q2_ev raw m, q2_evs r with
      | Some ev, Some evs => Some (ev :: evs)
      | _, _ => None
      end
  end.

(* the broker according to the reference: per packet, the session's queue becomes the list of open
   exchanges, the exchange the reference closes (if any) is handed to the fan-out, then the
   acknowledgement (PUBREC / PUBCOMP with the packet's identifier) is written *)
Fixpoint q2_ref_proc (br : broker) (c : N) (k : bytes) (ping : entry) (open : list (N * bytes)) (evs : list q2ev)
  : broker * list out :=
  match evs with
  | [] => (br, [])
  | ev :: r =>
      let '(open1, rel) := q2_ref_step open ev in
      let '(br1, o1) := pub_all (upd_pub2in br k (fun _ => mkS (map open_entry open1) ping)) (handed rel) in
      let '(br2, o2) := q2_ref_proc br1 c k ping open1 r in
      (br2, o1 ++ OPkt c (wire (PAck (q2_ack ev) (q2_pid ev))) :: o2)
  end.

(* over any in-order sequence of QoS 2 PUBLISH and PUBREL packets on a connection with a stored session,
   the broker does exactly what the reference says: states and outputs *)
Definition C02_qos2_once_broker : Prop := forall pkts evs br c k s open,
  assoc_b k (br_sess br) = Some s -> q2_inv (se_pub2in s) open ->
  q2_evs pkts = Some evs -> Forall (fun ev => q2_pid ev < 65536) evs ->
  q2_inorder open evs ->
  q2_proc br c k pkts = q2_ref_proc br c k (s_ping (se_pub2in s)) open evs.
