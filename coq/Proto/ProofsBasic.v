(* Structural facts about the broker model that need no reasoning about packet contents:
   what a refused first packet does (nothing), which CONNACK bytes go out, who can be closed. *)
From Base Require Import Tactics Bytes.
From Gen Require Import Tables.
From Codec Require Import Wire Impl Script.
From Topics Require Import Model.
From Proto Require Import Broker.
Open Scope N_scope.

(* the CONNACK the broker writes: 20 02 <session present> <code>; the counter is untouched *)
Lemma send_connack br c sp code : code <= 5 ->
  send br c (mk_connack sp code) = (br, [OPkt c [32; 2; b2n sp; code]]).
Proof.
  intros H.
  assert (Hc : code = 0 \/ code = 1 \/ code = 2 \/ code = 3 \/ code = 4 \/ code = 5) by lia.
  destruct br as [st raw ss cs cnt an cl].
  destruct sp; destruct Hc as [->|[->|[->|[->|[->| ->]]]]]; reflexivity.
Qed.

(* a first packet that is not accepted changes nothing, whatever follows it in the same bytes *)
Lemma connect_refused_no_effect bufsize br c authok b br' o :
  connect bufsize br c authok b = (br', o, CRefused) -> br' = br.
Proof.
  unfold connect. intros H.
  destruct b as [|b0 [|b1 rest]]; [inv H; reflexivity | inv H; reflexivity |].
  destruct (uvarint4 (b1 :: rest)) as [[rl m]|]; [|inv H; reflexivity].
  destruct (length (b0 :: b1 :: rest) <? N.to_nat (rl + 1 + N.of_nat m))%nat; [inv H; reflexivity|].
  destruct (conn_decode conn_new (firstn (N.to_nat (rl + 1 + N.of_nat m)) (b0 :: b1 :: rest))) as [[req n]|cls n|].
  - destruct (negb authok).
    + rewrite send_connack in H by lia. inv H. reflexivity.
    + match type of H with context [send ?x ?y ?z] => destruct (send x y z) end. inv H.
  - destruct ((cls =? 1) || (cls =? 2)) eqn:E.
    + apply orb_true_iff in E. destruct E as [E|E]; apply N.eqb_eq in E; subst cls;
        rewrite send_connack in H by lia; inv H; reflexivity.
    + inv H. reflexivity.
  - inv H. reflexivity.
Qed.

(* ... and all it produces is an optional CONNACK with a non-zero code, and the closure *)
Lemma connect_refused_outputs bufsize br c authok b br' o :
  connect bufsize br c authok b = (br', o, CRefused) ->
  o = [OClose c] \/ exists code, (code = 1 \/ code = 2 \/ code = 4) /\ o = [OPkt c [32; 2; 0; code]; OClose c].
Proof.
  unfold connect. intros H.
  destruct b as [|b0 [|b1 rest]]; [inv H; auto | inv H; auto |].
  destruct (uvarint4 (b1 :: rest)) as [[rl m]|]; [|inv H; auto].
  destruct (length (b0 :: b1 :: rest) <? N.to_nat (rl + 1 + N.of_nat m))%nat; [inv H; auto|].
  destruct (conn_decode conn_new (firstn (N.to_nat (rl + 1 + N.of_nat m)) (b0 :: b1 :: rest))) as [[req n]|cls n|].
  - destruct (negb authok).
    + rewrite send_connack in H by lia. inv H. right. exists 4. auto.
    + match type of H with context [send ?x ?y ?z] => destruct (send x y z) end. inv H.
  - destruct ((cls =? 1) || (cls =? 2)) eqn:E.
    + apply orb_true_iff in E. destruct E as [E|E]; apply N.eqb_eq in E; subst cls;
        rewrite send_connack in H by lia; inv H; right; eexists; (split; [|reflexivity]); auto.
    + inv H. auto.
  - inv H. auto.
Qed.

(* an accepted first packet is answered with CONNACK code 0 first *)
Lemma connect_accepted_outputs bufsize br c authok b br' o rest :
  connect bufsize br c authok b = (br', o, CAccepted rest) ->
  exists sp, o = [OPkt c [32; 2; b2n sp; 0]].
Proof.
  unfold connect. intros H.
  destruct b as [|b0 [|b1 r]]; [inv H | inv H |].
  destruct (uvarint4 (b1 :: r)) as [[rl m]|]; [|inv H].
  destruct (length (b0 :: b1 :: r) <? N.to_nat (rl + 1 + N.of_nat m))%nat; [inv H|].
  destruct (conn_decode conn_new (firstn (N.to_nat (rl + 1 + N.of_nat m)) (b0 :: b1 :: r))) as [[req n]|cls n|].
  - destruct (negb authok).
    + rewrite send_connack in H by lia. inv H.
    + rewrite send_connack in H by lia. inv H. eexists. reflexivity.
  - destruct ((cls =? 1) || (cls =? 2)) eqn:E; [|inv H].
    apply orb_true_iff in E. destruct E as [E|E]; apply N.eqb_eq in E; subst cls;
      rewrite send_connack in H by lia; inv H.
  - inv H.
Qed.

Print Assumptions connect_refused_no_effect.
