(* Proofs of the history-level statements of Proto/PropsHist.v. *)
From Base Require Import Tactics Bytes.
From Gen Require Import Tables.
From Codec Require Import Wire Impl Script Statements.
From Topics Require Import Model Spec.
From Ackq Require Import Model Spec ProofsFifo.
From Proto Require Import Broker Props PropsHist ProofsBasic ProofsStruct ProofsSession ProofsSub ProofsFanout.
Open Scope N_scope.

(* ====================================================================================== *)
(* C10: stop ; connect                                                                     *)
(* ====================================================================================== *)

(* ---------- an accepted CONNECT with CleanSession = 0 has a client identifier ---------- *)

Lemma conn_decode_body_cid m src m' n : conn_decode_body m src = Ok (m', n) ->
  (length (c_cid m') =? 0)%nat && negb (N.testbit (c_flags m') 1) = false.
Proof.
  unfold conn_decode_body. intros H.
  repeat match type of H with
  | bind ?x _ = _ =>
      let E := fresh "E" in destruct x as [?|? ?|] eqn:E; cbn [bind] in H; [|discriminate H|discriminate H]
  | (let '(_, _) := ?p in _) = _ => destruct p
  | (if ?c then _ else _) = _ => let E := fresh "E" in destruct c eqn:E; [discriminate H|]
  end.
  inv H. cbn [c_cid c_flags]. assumption.
Qed.

Lemma conn_decode_cid_nonempty m0 src req n :
  conn_decode m0 src = Ok (req, n) -> conn_clean req = false ->
  (length (c_cid req) =? 0)%nat = false.
Proof.
  unfold conn_decode. intros H HC.
  destruct (hdr_decode (c_h m0) src) as [[h hn]|? ?|]; cbn [bind] in H; try discriminate H.
  destruct (from (dbuf h) hn) as [rest|? ?|]; cbn [bind] in H; try discriminate H.
  destruct (conn_decode_body (cwh m0 h) rest) as [[m' n']|? ?|] eqn:EB; cbn [at_off bind] in H; try discriminate H.
  inv H. apply conn_decode_body_cid in EB.
  unfold conn_clean in HC. cbn [cwh c_flags c_cid] in *. rewrite HC in EB.
  cbn [negb] in EB. rewrite andb_true_r in EB. exact EB.
Qed.

(* ---------- the resuming CONNECT, from what the session store holds for k ---------- *)

Lemma resume_connect bufsize br1 c' k br2 o2 :
  resuming_connect bufsize br1 c' k br2 o2 ->
  let old := assoc_b k (br_sess br1) in
  o2 = [OPkt c' [32; 2; (match old with Some _ => 1 | None => 0 end); 0]]
  /\ br_store br2 = resubscribe (br_store br1) c' (match old with Some s0 => se_topics s0 | None => [] end)
  /\ exists s', conn_sess br2 c' = Some (k, s')
       /\ se_clean s' = false
       /\ se_topics s' = (match old with Some s0 => se_topics s0 | None => [] end)
       /\ se_pub2in s' = (match old with Some s0 => se_pub2in s0 | None => s_new end).
Proof.
  intros (b & rest & req & n & total & HC & HD & HR & HK & HCl).
  destruct (connect_accepted_req _ _ _ _ _ _ _ _ _ _ HC HD HR) as [-> ->].
  pose proof (conn_decode_cid_nonempty _ _ _ _ HD HCl) as HN.
  unfold accept_state. rewrite HN, HCl, HK. cbv beta iota zeta. cbn [orb fst snd].
  destruct (assoc_b k (br_sess br1)) as [s0|] eqn:EA.
  - split; [reflexivity|]. split; [reflexivity|].
    eexists. split.
    { unfold conn_sess, conn_key. cbn [br_conns find fst snd br_sess].
      rewrite N.eqb_refl. cbn [snd]. rewrite assoc_set_b. reflexivity. }
    cbn [se_clean se_topics se_pub2in]. repeat split; reflexivity.
  - split; [reflexivity|]. split; [reflexivity|].
    eexists. split.
    { unfold conn_sess, conn_key. cbn [br_conns find fst snd br_sess].
      rewrite N.eqb_refl. cbn [snd]. rewrite assoc_set_b. reflexivity. }
    cbn [se_clean se_topics se_pub2in]. repeat split; reflexivity.
Qed.

Lemma resubscribe_ops c l : forall st,
  resubscribe st c l = fold_left apply_op (resub_ops c l) st.
Proof.
  unfold resubscribe, resub_ops. induction l as [|tq l IH]; intros st; [reflexivity|].
  cbn [fold_left map apply_op]. apply IH.
Qed.

Lemma resubscribe_nil st c : resubscribe st c [] = st.
Proof. reflexivity. Qed.

(* ---------- teardown ---------- *)

Lemma stop_frame br c k s br1 o1 :
  conn_sess br c = Some (k, s) -> stop br c = (br1, o1) ->
  br_sess br1 = (if se_clean s then del_b k (br_sess br) else br_sess br)
  /\ br_conns br1 = filter (fun cv => negb (fst cv =? c)) (br_conns br)
  /\ sroot (br_store br1) = sroot (unsub_conn (br_store br) c (se_topics s)).
Proof.
  intros HS H. unfold stop in H. rewrite HS in H.
  match type of H with context [let '(_, _) := ?x in _] => destruct x as [br2 o2] eqn:E2 end.
  match type of E2 with context [on_publish ?b _] => set (br0 := b) in * end.
  assert (HB : br_sess br2 = br_sess br /\ br_conns br2 = filter (fun cv => negb (fst cv =? c)) (br_conns br)
               /\ sroot (br_store br2) = sroot (unsub_conn (br_store br) c (se_topics s))).
  { assert (H0 : br_sess br0 = br_sess br /\ br_conns br0 = filter (fun cv => negb (fst cv =? c)) (br_conns br)
               /\ sroot (br_store br0) = sroot (unsub_conn (br_store br) c (se_topics s))).
    { subst br0. cbn [br_sess br_conns br_store]. repeat split; reflexivity. }
    destruct (se_willflag s); [|inv E2; exact H0].
    destruct (se_will s) as [w|]; [|inv E2; exact H0].
    apply fanout_store in E2. destruct E2 as (F1 & _ & F3 & F4).
    destruct H0 as (A & B & C). rewrite F1, F3, F4. repeat split; assumption. }
  destruct HB as (A & B & C).
  inv H. destruct (se_clean s); cbn [br_sess br_conns br_store]; rewrite ?A; repeat split; assumption.
Qed.

Lemma conn_key_filtered br c d l :
  br_conns br = filter (fun cv => negb (fst cv =? c)) l ->
  conn_key br d = (if d =? c then None
                   else match find (fun cv => fst cv =? d) l with Some cv => Some (snd cv) | None => None end).
Proof.
  intros H. unfold conn_key. rewrite H. clear H.
  destruct (N.eqb_spec d c) as [->|HN].
  - rewrite find_filtered. reflexivity.
  - induction l as [|[x kx] l IH]; [reflexivity|].
    cbn [filter find fst]. destruct (N.eqb_spec x c) as [->|HX]; cbn [negb].
    + assert (E : (c =? d) = false) by lia. rewrite E. exact IH.
    + cbn [find fst]. destruct (x =? d); [reflexivity|exact IH].
Qed.

(* ---------- C10 ---------- *)

Lemma resume_roundtrip : C10_resume_roundtrip.
Proof.
  intros br c k s br1 o1 HS HCl HSt.
  destruct (stop_frame _ _ _ _ _ _ HS HSt) as (FS & FC & FR).
  rewrite HCl in FS.
  destruct (conn_sess_inv _ _ _ _ HS) as [_ HA].
  assert (HA1 : assoc_b k (br_sess br1) = Some s) by (rewrite FS; exact HA).
  split.
  - split; [exact HA1|]. split; [|exact FR].
    rewrite (conn_key_filtered _ _ _ _ FC), N.eqb_refl. reflexivity.
  - intros bufsize c' br2 o2 HR.
    apply resume_connect in HR. cbv zeta in HR. rewrite HA1 in HR.
    destruct HR as (HO & HST & s' & HS' & H1 & H2 & H3).
    split; [exact HO|]. split; [exact HST|].
    split; [rewrite HST; apply resubscribe_ops|].
    exists s'. repeat split; assumption.
Qed.

Lemma clean_discards : C10_clean_discards.
Proof.
  intros br c k s br1 o1 HS HCl HSt.
  destruct (stop_frame _ _ _ _ _ _ HS HSt) as (FS & FC & FR).
  rewrite HCl in FS.
  assert (HA1 : assoc_b k (br_sess br1) = None) by (rewrite FS; apply assoc_del_b).
  split; [exact HA1|]. split.
  - rewrite (conn_key_filtered _ _ _ _ FC), N.eqb_refl. reflexivity.
  - intros bufsize c' br2 o2 HR.
    apply resume_connect in HR. cbv zeta in HR. rewrite HA1 in HR.
    destruct HR as (HO & HST & s' & HS' & H1 & H2 & H3).
    split; [exact HO|]. split; [exact HST|].
    exists s'. repeat split; assumption.
Qed.

(* ====================================================================================== *)
(* C02: QoS 2 over a history                                                               *)
(* ====================================================================================== *)

(* ---------- lists ---------- *)

Lemma NoDup_snoc {A} (l : list A) x : NoDup l -> ~ In x l -> NoDup (l ++ [x]).
Proof.
  induction l as [|y l IH]; intros HN HI; cbn [app].
  - constructor; [intros []|constructor].
  - inversion HN as [|? ? H1 H2]; subst. constructor.
    + intros HX. apply in_app_or in HX. destruct HX as [HX|[HX|[]]]; [exact (H1 HX)|].
      apply HI. left. symmetry. exact HX.
    + apply IH; [exact H2|]. intros HX. apply HI. right. exact HX.
Qed.

Lemma is_open_In open pid : is_open open pid = true <-> In pid (map fst open).
Proof.
  unfold is_open. induction open as [|[p r] open IH]; cbn [existsb map fst In].
  - split; [discriminate|intros []].
  - rewrite orb_true_iff, IH. split; intros [H|H]; auto; left; lia.
Qed.

Lemma is_open_false open pid : is_open open pid = false <-> ~ In pid (map fst open).
Proof.
  pose proof (is_open_In open pid) as H. destruct (is_open open pid).
  - split; [discriminate|]. intros HN. exfalso. apply HN. apply H. reflexivity.
  - split; [|reflexivity]. intros _ HX. apply H in HX. discriminate.
Qed.

Lemma has_pid_open open pid : has_pid (map open_entry open) pid = is_open open pid.
Proof.
  unfold has_pid, is_open. induction open as [|[p r] open IH]; [reflexivity|].
  cbn [map existsb open_entry e_pid fst]. rewrite IH. reflexivity.
Qed.

Lemma release_open l : release (map open_entry l) = ([], map open_entry l).
Proof. destruct l as [|p l]; reflexivity. Qed.

(* ---------- the reference keeps identifiers distinct ---------- *)

Lemma ref_step_nodup open ev : NoDup (map fst open) -> NoDup (map fst (fst (q2_ref_step open ev))).
Proof.
  intros HN. destruct ev as [pid raw|pid rraw]; cbn [q2_ref_step fst].
  - destruct (is_open open pid) eqn:E; [exact HN|].
    rewrite map_app. cbn [map fst]. apply NoDup_snoc; [exact HN|].
    apply is_open_false. exact E.
  - destruct open as [|[p0 raw0] rest]; [exact HN|].
    destruct (p0 =? pid); cbn [fst]; [|exact HN].
    cbn [map fst] in HN. inversion HN; assumption.
Qed.

Lemma q2_inv_new : q2_inv s_new [].
Proof. split; [reflexivity|]. split; [constructor|]. cbn. discriminate. Qed.

(* ---------- one event: the queue does what the reference says ---------- *)

Lemma q2_step_ref a open ev :
  q2_inv a open ->
  match ev with QRel pid _ => ~ In pid (map fst (tl open)) | QPub _ _ => True end ->
  q2_step a ev = (mkS (map open_entry (fst (q2_ref_step open ev))) (s_ping a), snd (q2_ref_step open ev)).
Proof.
  intros (HL & HN & HP) HO. destruct a as [l ping]. cbn [s_list s_ping] in *. subst l.
  destruct ev as [pid raw|pid rraw].
  - unfold q2_step, s_wait.
    change (T_PUBLISH =? T_PUBLISH) with true. change (2 =? 0) with false. cbv iota.
    cbn [fst s_list s_ping q2_ref_step snd].
    rewrite has_pid_open. destruct (is_open open pid); [reflexivity|].
    rewrite map_app. reflexivity.
  - unfold q2_step, s_ack.
    change (existsb (N.eqb T_PUBREL) ack_indexed_types) with true. cbv iota.
    cbn [fst]. rewrite s_acked_eq. cbn [s_list s_ping].
    destruct (N.eqb_spec (e_state ping) T_PINGRESP) as [EP|_]; [contradiction|].
    cbn [app].
    destruct open as [|[p0 raw0] rest]; [reflexivity|].
    cbn [tl] in HO. apply is_open_false in HO. rewrite <- has_pid_open in HO.
    pose proof (map_no_pid (fun e => mkE (e_mtype e) T_PUBREL (e_pid e) (e_msg e) rraw (e_cb e)) _ _ HO) as M.
    cbv beta in M.
    cbn [map]. rewrite M. cbn [open_entry e_pid fst q2_ref_step].
    destruct (N.eqb_spec p0 pid) as [->|HNE].
    + cbn [release].
      match goal with |- context [terminal ?x] => change (terminal x) with true end.
      cbv iota. rewrite release_open. reflexivity.
    + match goal with |- context [release (?e :: map open_entry rest)] =>
        change (e :: map open_entry rest) with (map open_entry ((p0, raw0) :: rest)) end.
      rewrite release_open. reflexivity.
Qed.

Lemma q2_step_inv a open ev :
  q2_inv a open ->
  match ev with QRel pid _ => ~ In pid (map fst (tl open)) | QPub _ _ => True end ->
  q2_inv (fst (q2_step a ev)) (fst (q2_ref_step open ev))
  /\ s_ping (fst (q2_step a ev)) = s_ping a.
Proof.
  intros HI HO. rewrite (q2_step_ref a open ev HI HO). cbn [fst s_ping].
  split; [|reflexivity]. destruct HI as (_ & HN & HP).
  split; [reflexivity|]. split; [apply ref_step_nodup; exact HN|exact HP].
Qed.

(* ---------- C02: exactly once ---------- *)

Lemma qos2_once : C02_qos2_once.
Proof.
  intros evs. induction evs as [|ev evs IH]; intros a open HI HO.
  - cbn [q2_run q2_ref_run fst snd]. split; [reflexivity|]. split; [exact HI|reflexivity].
  - cbn [q2_inorder] in HO. destruct HO as [HO1 HO2].
    pose proof (q2_step_ref a open ev HI HO1) as ST.
    destruct (q2_step_inv a open ev HI HO1) as [HI1 HP1].
    cbn [q2_run q2_ref_run]. rewrite ST in *. cbn [fst] in HI1, HP1.
    destruct (q2_ref_step open ev) as [open1 rel] eqn:ER. cbn [fst snd] in *.
    destruct (IH _ _ HI1 HO2) as (I1 & I2 & I3).
    destruct (q2_run evs (mkS (map open_entry open1) (s_ping a))) as [a2 rels].
    destruct (q2_ref_run evs open1) as [open2 rels'].
    cbn [fst snd] in *. split; [f_equal; exact I1|]. split; [exact I2|exact I3].
Qed.

Lemma qos2_repeats : C02_qos2_repeats.
Proof.
  intros a open pid raw HI. split; intros HO.
  - rewrite (q2_step_ref a open (QPub pid raw) HI I). cbn [q2_ref_step fst snd]. rewrite HO.
    destruct HI as (HL & _). destruct a as [l ping]. cbn [s_list s_ping] in *. subst l. reflexivity.
  - assert (HT : ~ In pid (map fst (tl open))).
    { apply is_open_false in HO. intros HX. apply HO. destruct open; [exact HX|]. right. exact HX. }
    rewrite (q2_step_ref a open (QRel pid raw) HI HT). cbn [q2_ref_step].
    assert (E : (match open with
                 | [] => (open, [])
                 | (p0, raw0) :: rest => if p0 =? pid then (rest, [done_entry pid raw0 raw]) else (open, [])
                 end) = (open, @nil entry)).
    { destruct open as [|[p0 raw0] rest]; [reflexivity|].
      unfold is_open in HO. cbn [existsb fst] in HO. apply orb_false_iff in HO. destruct HO as [HO _].
      rewrite HO. reflexivity. }
    rewrite E. cbn [fst snd].
    destruct HI as (HL & _). destruct a as [l ping]. cbn [s_list s_ping] in *. subst l. reflexivity.
Qed.

(* ---------- runs over concatenated histories ---------- *)

Lemma q2_run_app x : forall y a,
  q2_run (x ++ y) a = (fst (q2_run y (fst (q2_run x a))), snd (q2_run x a) ++ snd (q2_run y (fst (q2_run x a)))).
Proof.
  induction x as [|ev x IH]; intros y a; cbn [app q2_run].
  - cbn [fst snd app]. destruct (q2_run y a); reflexivity.
  - destruct (q2_step a ev) as [a1 rel]. rewrite IH.
    destruct (q2_run x a1) as [a2 rels]. cbn [fst snd app]. reflexivity.
Qed.

Lemma q2_ref_run_app x : forall y open,
  q2_ref_run (x ++ y) open
  = (fst (q2_ref_run y (fst (q2_ref_run x open))),
     snd (q2_ref_run x open) ++ snd (q2_ref_run y (fst (q2_ref_run x open)))).
Proof.
  induction x as [|ev x IH]; intros y open; cbn [app q2_ref_run].
  - cbn [fst snd app]. destruct (q2_ref_run y open); reflexivity.
  - destruct (q2_ref_step open ev) as [o1 rel]. rewrite IH.
    destruct (q2_ref_run x o1) as [o2 rels]. cbn [fst snd app]. reflexivity.
Qed.

Lemma q2_ref_run_length evs : forall open, length (snd (q2_ref_run evs open)) = length evs.
Proof.
  induction evs as [|ev evs IH]; intros open; cbn [q2_ref_run]; [reflexivity|].
  destruct (q2_ref_step open ev) as [o1 rel]. specialize (IH o1).
  destruct (q2_ref_run evs o1) as [o2 rels]. cbn [snd length] in *. rewrite IH. reflexivity.
Qed.

Lemma q2_inorder_app x : forall y open,
  q2_inorder open (x ++ y) <-> q2_inorder open x /\ q2_inorder (fst (q2_ref_run x open)) y.
Proof.
  induction x as [|ev x IH]; intros y open; cbn [app q2_inorder q2_ref_run].
  - cbn [fst]. tauto.
  - rewrite IH. destruct (q2_ref_step open ev) as [o1 rel]. cbn [fst].
    destruct (q2_ref_run x o1) as [o2 rels]. cbn [fst]. tauto.
Qed.

Lemma ref_run_nodup evs : forall open, NoDup (map fst open) -> NoDup (map fst (fst (q2_ref_run evs open))).
Proof.
  induction evs as [|ev evs IH]; intros open HN; cbn [q2_ref_run]; [exact HN|].
  pose proof (ref_step_nodup open ev HN) as H1.
  destruct (q2_ref_step open ev) as [o1 rel]. cbn [fst] in H1. specialize (IH o1 H1).
  destruct (q2_ref_run evs o1) as [o2 rels]. exact IH.
Qed.

(* ---------- one exchange ---------- *)

(* while the exchange (pid, raw) is open and no PUBREL for pid arrives, it stays in the list with its
   first bytes, and nothing with its identifier is released *)
Lemma ref_mid pid raw mid : forall front back,
  NoDup (map fst (front ++ (pid, raw) :: back)) ->
  (forall r, ~ In (QRel pid r) mid) ->
  exists front' back',
    fst (q2_ref_run mid (front ++ (pid, raw) :: back)) = front' ++ (pid, raw) :: back'
    /\ Forall (Forall (fun e => e_pid e <> pid)) (snd (q2_ref_run mid (front ++ (pid, raw) :: back))).
Proof.
  induction mid as [|ev mid IH]; intros front back HN HR.
  - exists front, back. cbn [q2_ref_run fst snd]. split; [reflexivity|constructor].
  - assert (HR' : forall r, ~ In (QRel pid r) mid).
    { intros r HX. apply (HR r). right. exact HX. }
    pose proof (ref_step_nodup _ ev HN) as HN1.
    assert (HS : exists f1 b1, fst (q2_ref_step (front ++ (pid, raw) :: back) ev) = f1 ++ (pid, raw) :: b1
                 /\ Forall (fun e => e_pid e <> pid) (snd (q2_ref_step (front ++ (pid, raw) :: back) ev))).
    { destruct ev as [p r|p r]; cbn [q2_ref_step].
      - destruct (is_open _ p); cbn [fst snd].
        + exists front, back. split; [reflexivity|constructor].
        + exists front, (back ++ [(p, r)]). split; [|constructor].
          rewrite <- app_assoc. reflexivity.
      - assert (HP : p <> pid).
        { intros ->. apply (HR r). left. reflexivity. }
        destruct front as [|[p0 r0] front]; cbn [app].
        + assert (E : (pid =? p) = false) by lia. rewrite E. cbn [fst snd].
          exists [], back. split; [reflexivity|constructor].
        + destruct (N.eqb_spec p0 p) as [->|HNE]; cbn [fst snd].
          * exists front, back. split; [reflexivity|].
            constructor; [|constructor]. cbn [done_entry e_pid]. exact HP.
          * exists ((p0, r0) :: front), back. split; [reflexivity|constructor]. }
    destruct HS as (f1 & b1 & HS1 & HS2).
    cbn [q2_ref_run].
    destruct (q2_ref_step (front ++ (pid, raw) :: back) ev) as [o1 rel]. cbn [fst snd] in *. subst o1.
    destruct (IH f1 b1 HN1 HR') as (f2 & b2 & I1 & I2).
    destruct (q2_ref_run mid (f1 ++ (pid, raw) :: b1)) as [o2 rels]. cbn [fst snd] in *.
    exists f2, b2. split; [exact I1|]. constructor; assumption.
Qed.

Lemma nth_exchange {A} (O1 O2 O3 : list A) x y d :
  nth (length O1 + S (length O2)) (O1 ++ x :: O2 ++ y :: O3) d = y.
Proof.
  rewrite app_nth2 by lia.
  replace (length O1 + S (length O2) - length O1)%nat with (S (length O2)) by lia.
  cbn [nth]. rewrite app_nth2 by lia. rewrite Nat.sub_diag. reflexivity.
Qed.

Lemma nth_between {A} (O1 O2 O3 : list A) x y d i :
  (length O1 <= i < length O1 + S (length O2))%nat ->
  In (nth i (O1 ++ x :: O2 ++ y :: O3) d) (x :: O2).
Proof.
  intros H. rewrite app_nth2 by lia.
  destruct (i - length O1)%nat as [|j] eqn:E; cbn [nth]; [left; reflexivity|].
  right. rewrite app_nth1 by lia. apply nth_In. lia.
Qed.

Lemma qos2_exchange : C02_qos2_exchange.
Proof.
  intros a open pre pid raw mid rraw post evs HI HO HNO HR outs.
  destruct (qos2_once evs a open HI HO) as (EQ & _ & _).
  subst outs. rewrite EQ. clear EQ.
  destruct HI as (_ & HN & _).
  (* the reference over the three parts *)
  subst evs.
  apply q2_inorder_app in HO. destruct HO as [_ HO].
  set (open1 := fst (q2_ref_run pre open)) in *.
  assert (HN1 : NoDup (map fst open1)) by (apply ref_run_nodup; exact HN).
  change (QPub pid raw :: mid ++ QRel pid rraw :: post)
    with ([QPub pid raw] ++ mid ++ QRel pid rraw :: post) in *.
  apply q2_inorder_app in HO. destruct HO as [_ HO].
  assert (E2 : q2_ref_run [QPub pid raw] open1 = (open1 ++ (pid, raw) :: [], [[]])).
  { cbn [q2_ref_run q2_ref_step]. rewrite HNO. reflexivity. }
  rewrite E2 in HO. cbn [fst] in HO.
  assert (HN2 : NoDup (map fst (open1 ++ (pid, raw) :: []))).
  { rewrite map_app. cbn [map fst]. apply NoDup_snoc; [exact HN1|]. apply is_open_false. exact HNO. }
  apply q2_inorder_app in HO. destruct HO as [_ HO].
  destruct (ref_mid pid raw mid open1 [] HN2 HR) as (f3 & b3 & E3 & F3).
  assert (HN3 : NoDup (map fst (f3 ++ (pid, raw) :: b3))).
  { rewrite <- E3. apply ref_run_nodup. exact HN2. }
  set (open3 := fst (q2_ref_run mid (open1 ++ [(pid, raw)]))) in *.
  cbn [q2_inorder] in HO. destruct HO as [HO _].
  assert (Hf : f3 = []).
  { destruct f3 as [|x f3]; [reflexivity|]. exfalso. apply HO. rewrite E3. cbn [app tl].
    rewrite map_app. apply in_or_app. right. left. reflexivity. }
  subst f3. cbn [app] in E3, HN3.
  assert (E4 : q2_ref_step open3 (QRel pid rraw) = (b3, [done_entry pid raw rraw])).
  { rewrite E3. cbn [q2_ref_step]. rewrite N.eqb_refl. reflexivity. }
  assert (Hb : is_open b3 pid = false).
  { apply is_open_false. cbn [map fst] in HN3. inversion HN3; assumption. }
  (* the outputs *)
  assert (EO : forall tl, snd (q2_ref_run (pre ++ [QPub pid raw] ++ mid ++ QRel pid rraw :: tl) open)
                = snd (q2_ref_run pre open) ++ [] :: snd (q2_ref_run mid (open1 ++ [(pid, raw)]))
                  ++ [done_entry pid raw rraw] :: snd (q2_ref_run tl b3)
               /\ fst (q2_ref_run (pre ++ [QPub pid raw] ++ mid ++ QRel pid rraw :: tl) open)
                  = fst (q2_ref_run tl b3)).
  { intros tl0. rewrite q2_ref_run_app. fold open1. rewrite q2_ref_run_app. rewrite E2. cbn [fst snd].
    rewrite q2_ref_run_app. fold open3.
    cbn [q2_ref_run]. rewrite E4.
    destruct (q2_ref_run tl0 b3) as [o5 rels5]. cbn [fst snd app]. split; reflexivity. }
  destruct (EO post) as [EO1 _]. destruct (EO []) as [_ EO2].
  rewrite EO1.
  pose proof (q2_ref_run_length pre open) as L1.
  pose proof (q2_ref_run_length mid (open1 ++ [(pid, raw)])) as L2.
  split; [|split].
  - rewrite <- L1, <- L2. apply nth_exchange.
  - intros i e Hi Hin. rewrite <- L1, <- L2 in Hi.
    pose proof (nth_between _ _ (snd (q2_ref_run post b3)) [] [done_entry pid raw rraw] [] i Hi) as HB.
    destruct HB as [HB|HB].
    + rewrite <- HB in Hin. destruct Hin.
    + rewrite Forall_forall in F3. specialize (F3 _ HB). rewrite Forall_forall in F3. apply F3. exact Hin.
  - change (pre ++ QPub pid raw :: mid ++ [QRel pid rraw]) with (pre ++ [QPub pid raw] ++ mid ++ QRel pid rraw :: []).
    rewrite EO2. cbn [q2_ref_run fst]. exact Hb.
Qed.

(* ---------- the abstract run is the model ---------- *)

Lemma release_hands : C02_release_hands.
Proof.
  intros l. induction l as [|e l IH]; intros br; [reflexivity|].
  cbn [release_pub2in]. unfold handed. cbn [flat_map]. fold (handed l). unfold handed1.
  destruct (e_mtype e =? T_PUBLISH).
  2: { cbn [app]. rewrite IH. destruct (pub_all br (handed l)); reflexivity. }
  destruct (pub_decode pub_new (e_msg e)) as [[m n]|? ?|].
  2, 3: cbn [app]; rewrite IH; destruct (pub_all br (handed l)); reflexivity.
  destruct (ack_decode (ack_new (e_state e)) (e_ack e)) as [x|? ?|].
  2, 3: cbn [app]; rewrite IH; destruct (pub_all br (handed l)); reflexivity.
  destruct (existsb (N.eqb (e_state e)) acked_publish_states).
  2: { cbn [app]. rewrite IH. destruct (pub_all br (handed l)); reflexivity. }
  cbn [app pub_all]. destruct (on_publish br m) as [br1 o1]. rewrite IH. reflexivity.
Qed.

Lemma pub_all_frame ms : forall br br' o, pub_all br ms = (br', o) -> sc_frame br br'.
Proof.
  induction ms as [|m ms IH]; intros br br' o H; cbn [pub_all] in H.
  - inv H. apply sc_refl.
  - destruct (on_publish br m) as [br1 o1] eqn:E1. destruct (pub_all br1 ms) as [br2 o2] eqn:E2. inv H.
    apply on_publish_cases in E1. destruct E1 as [F1 _].
    eapply sc_trans; [exact F1|]. eapply IH. exact E2.
Qed.

Lemma handed_done : C02_handed_done.
Proof.
  intros pid raw rraw m n x HP HA. unfold handed. cbn [flat_map]. unfold handed1.
  cbn [done_entry e_mtype e_msg e_state e_ack].
  change (T_PUBLISH =? T_PUBLISH) with true. cbv iota. rewrite HP, HA.
  destruct x. reflexivity.
Qed.

Lemma q2_step_is_model : C02_q2_step_is_model.
Proof.
  intros br c k raw m ev s HE HP HA.
  destruct m as [p|h|h|x|x|x|x|x]; cbn [q2_ev] in HE; try discriminate HE.
  - (* PUBLISH, QoS 2 *)
    destruct (pub_qos p =? 2) eqn:EQ; [|discriminate HE]. inv HE. cbn [q2_pid] in HP.
    unfold q2_bstep. cbn [q2_step handed flat_map pub_all app q2_ack q2_pid].
    split.
    + unfold process_incoming. cbv zeta. rewrite EQ.
      rewrite send_ack by (reflexivity || exact HP).
      f_equal. f_equal. unfold upd_pub2in. rewrite HA. reflexivity.
    + unfold upd_pub2in. rewrite HA. cbn [with_sess br_sess]. rewrite assoc_set_b.
      eexists. split; [reflexivity|]. cbn [se_pub2in se_clean se_willflag se_will se_topics fst].
      repeat split; reflexivity.
  - (* PUBREL *)
    destruct (h_type h =? T_PUBREL) eqn:ET; [|discriminate HE]. inv HE. cbn [q2_pid] in HP.
    unfold q2_bstep. cbn [q2_step q2_ack q2_pid].
    destruct (s_acked (fst (s_ack (se_pub2in s) T_PUBREL (packet_id h) raw))) as [a2 rel] eqn:EA.
    destruct (pub_all (upd_pub2in br k (fun _ => a2)) (handed rel)) as [br2 o1] eqn:EP.
    split.
    + unfold process_incoming. cbv zeta. rewrite ET. rewrite HA, EA.
      rewrite release_hands, EP.
      rewrite send_ack by (reflexivity || exact HP). reflexivity.
    + apply pub_all_frame in EP. destruct EP as [FS _]. rewrite FS.
      unfold upd_pub2in. rewrite HA. cbn [with_sess br_sess]. rewrite assoc_set_b.
      eexists. split; [reflexivity|]. cbn [se_pub2in se_clean se_willflag se_will se_topics fst].
      repeat split; reflexivity.
Qed.

(* ---------- the broker over an in-order packet sequence ---------- *)

Lemma qos2_once_broker : C02_qos2_once_broker.
Proof.
  intros pkts. induction pkts as [|[raw m] pkts IH]; intros evs br c k s open HA HI HE HP HO.
  - cbn [q2_evs] in HE. inv HE. reflexivity.
  - cbn [q2_evs] in HE.
    destruct (q2_ev raw m) as [ev|] eqn:E1; [|discriminate HE].
    destruct (q2_evs pkts) as [evs'|] eqn:E2; [|discriminate HE]. inv HE.
    inversion HP as [|? ? HP1 HP2]; subst.
    cbn [q2_inorder] in HO. destruct HO as [HO1 HO2].
    pose proof (q2_step_is_model br c k raw m ev s E1 HP1 HA) as M.
    unfold q2_bstep in M.
    pose proof (q2_step_ref _ _ ev HI HO1) as ST. rewrite ST in M.
    destruct HI as (_ & HN & HPing).
    pose proof (ref_step_nodup open ev HN) as HN1.
    cbn [q2_proc q2_ref_proc].
    destruct (q2_ref_step open ev) as [open1 rel]. cbn [fst snd] in *.
    destruct (pub_all (upd_pub2in br k (fun _ => mkS (map open_entry open1) (s_ping (se_pub2in s)))) (handed rel))
      as [br1 o1].
    destruct M as [M (s1 & A1 & Q1 & _)]. rewrite M.
    assert (HI1 : q2_inv (se_pub2in s1) open1).
    { rewrite Q1. split; [reflexivity|]. split; [exact HN1|exact HPing]. }
    rewrite (IH evs' br1 c k s1 open1 A1 HI1 eq_refl HP2 HO2).
    rewrite Q1. cbn [s_ping].
    destruct (q2_ref_proc br1 c k (s_ping (se_pub2in s)) open1 evs') as [br2 o2].
    rewrite <- app_assoc. reflexivity.
Qed.

(* ---------- the stored bytes decode ---------- *)

Lemma hdr_decode_type h0 src h1 t : hdr_decode h0 src = Ok (h1, t) -> h_type h1 = h_type h0.
Proof.
  unfold hdr_decode. intros H.
  repeat match type of H with
  | bind ?x _ = _ =>
      let E := fresh "E" in destruct x as [?|? ?|] eqn:E; cbn [bind] in H; [|discriminate H|discriminate H]
  | (let '(_, _) := ?p in _) = _ => destruct p
  | (if ?c then _ else _) = _ => let E := fresh "E" in destruct c eqn:E; [discriminate H|]
  | match ?x with Some _ => _ | None => _ end = _ => destruct x as [[? ?]|]; [|discriminate H]
  end.
  inv H. unfold h_type at 1. cbn [tf]. lia.
Qed.

Lemma ack_decode_type h0 src h n : ack_decode h0 src = Ok (h, n) -> h_type h = h_type h0.
Proof.
  unfold ack_decode. intros H.
  destruct (hdr_decode h0 src) as [[h1 t]|? ?|] eqn:EH; cbn [bind] in H; try discriminate H.
  apply hdr_decode_type in EH.
  repeat match type of H with
  | bind ?x _ = _ =>
      let E := fresh "E" in destruct x as [?|? ?|] eqn:E; cbn [bind] in H; [|discriminate H|discriminate H]
  | (if ?c then _ else _) = _ => let E := fresh "E" in destruct c eqn:E; [discriminate H|]
  end.
  inv H. unfold h_type in *. cbn [tf]. exact EH.
Qed.

Lemma ack_new_type ty : is_ack_type ty = true -> h_type (ack_new ty) = ty.
Proof.
  unfold is_ack_type. intros H.
  assert (C : ty = T_PUBACK \/ ty = T_PUBREC \/ ty = T_PUBREL \/ ty = T_PUBCOMP \/ ty = T_UNSUBACK) by lia.
  destruct C as [->|[->|[->|[->| ->]]]]; reflexivity.
Qed.

Lemma proc_bytes_decode : C02_proc_bytes_decode.
Proof.
  intros ty m0 raw m t ev HN HD HQ. unfold new_msg in HN.
  destruct (ty =? T_PUBLISH).
  { inv HN. unfold do_dec in HD. cbv zeta in HD.
    destruct (pub_decode pub_new raw) as [[p n]|? ?|] eqn:EP; inv HD.
    cbn [q2_ev] in HQ. destruct (pub_qos p =? 2); inv HQ.
    exists p, n. split; [reflexivity|exact EP]. }
  destruct (is_ack_type ty) eqn:EA.
  { inv HN. unfold do_dec in HD. cbv zeta in HD.
    destruct (ack_decode (ack_new ty) raw) as [[h n]|? ?|] eqn:EP; inv HD.
    cbn [q2_ev] in HQ. destruct (h_type h =? T_PUBREL) eqn:ET; inv HQ.
    pose proof (ack_decode_type _ _ _ _ EP) as HT. rewrite (ack_new_type _ EA) in HT.
    assert (E6 : ty = T_PUBREL) by lia. rewrite E6 in EP. eexists. exact EP. }
  destruct (is_empty_type ty).
  { inv HN. unfold do_dec in HD. cbv zeta in HD.
    destruct (empty_decode (empty_new ty) raw) as [[? ?]|? ?|]; inv HD; discriminate HQ. }
  destruct (ty =? T_CONNACK).
  { inv HN. unfold do_dec in HD. cbv zeta in HD.
    destruct (connack_decode connack_new raw) as [[? ?]|? ?|]; inv HD; discriminate HQ. }
  destruct (ty =? T_SUBACK).
  { inv HN. unfold do_dec in HD. cbv zeta in HD.
    destruct (suback_decode suback_new raw) as [[? ?]|? ?|]; inv HD; discriminate HQ. }
  destruct (ty =? T_SUBSCRIBE).
  { inv HN. unfold do_dec in HD. cbv zeta in HD.
    destruct (sub_decode sub_new raw) as [[? ?]|? ?|]; inv HD; discriminate HQ. }
  destruct (ty =? T_UNSUBSCRIBE).
  { inv HN. unfold do_dec in HD. cbv zeta in HD.
    destruct (unsub_decode unsub_new raw) as [[? ?]|? ?|]; inv HD; discriminate HQ. }
  destruct (ty =? T_CONNECT); [|discriminate HN].
  inv HN. unfold do_dec in HD. cbv zeta in HD.
  destruct (conn_decode conn_new raw) as [[? ?]|? ?|]; inv HD; discriminate HQ.
Qed.

(* ---------- out of order: why q2_inorder is a hypothesis (finding F18) ---------- *)

(* a PUBREL for the second open exchange is answered (PUBCOMP) but hands on nothing; the second
   exchange is handed on together with the first, at the PUBREL of the first *)
Example q2_out_of_order_late :
  snd (q2_run [QPub 1 [11]; QPub 2 [22]; QRel 2 [62]; QRel 1 [61]] s_new)
  = [[]; []; []; [done_entry 1 [11] [61]; done_entry 2 [22] [62]]].
Proof. vm_compute. reflexivity. Qed.

(* ... and a new exchange that reuses the identifier after that PUBCOMP is lost: its PUBLISH counts as
   a repetition of the old one (payload 22 is handed on, payload 33 never) *)
Example q2_out_of_order_lost :
  q2_run [QPub 1 [11]; QPub 2 [22]; QRel 2 [62]; QPub 2 [33]; QRel 1 [61]; QRel 2 [63]] s_new
  = (s_new, [[]; []; []; []; [done_entry 1 [11] [61]; done_entry 2 [22] [62]]; []]).
Proof. vm_compute. reflexivity. Qed.

(* the same history is not in order *)
Example q2_out_of_order_excluded :
  ~ q2_inorder [] [QPub 1 [11]; QPub 2 [22]; QRel 2 [62]; QRel 1 [61]].
Proof. cbn. intros (_ & _ & H & _). apply H. left. reflexivity. Qed.

(* ====================================================================================== *)
(* C10 with other connections' events in between                                           *)
(* ====================================================================================== *)

Lemma beq_bytes_neq a b : a <> b -> beq_bytes a b = false.
Proof.
  intros H. destruct (beq_bytes a b) eqn:E; [|reflexivity].
  exfalso. apply H. apply beq_bytes_eq. exact E.
Qed.

Lemma assoc_del_b_other {A} k k' (l : list (bytes * A)) : k <> k' ->
  assoc_b k' (del_b k l) = assoc_b k' l.
Proof.
  intros H. unfold del_b. induction l as [|[k2 v2] l IH]; [reflexivity|].
  cbn [filter fst]. destruct (beq_bytes k2 k) eqn:E; cbn [negb].
  - apply beq_bytes_eq in E. subst k2. cbn [assoc_b]. rewrite (beq_bytes_neq _ _ H). exact IH.
  - cbn [assoc_b]. rewrite IH. reflexivity.
Qed.

(* a step of a connection with key kd leaves the stored session of every other key, and the table of
   connections, alone *)
Definition keeps (k : bytes) (br br' : broker) : Prop :=
  assoc_b k (br_sess br') = assoc_b k (br_sess br) /\ br_conns br' = br_conns br.

Lemma keeps_refl k br : keeps k br br.
Proof. split; reflexivity. Qed.
Lemma keeps_trans k a b c : keeps k a b -> keeps k b c -> keeps k a c.
Proof. intros [A1 A2] [B1 B2]. split; congruence. Qed.
Lemma sc_keeps k a b : sc_frame a b -> keeps k a b.
Proof. intros [A1 A2]. split; [rewrite A1; reflexivity|exact A2]. Qed.
Lemma ceq_keeps k a b : ceq a b -> keeps k a b.
Proof. intros H. apply sc_keeps. apply ceq_sc. exact H. Qed.

Lemma with_sess_keeps k kd br s : kd <> k -> keeps k br (with_sess br kd s).
Proof.
  intros H. split; [|reflexivity]. cbn [with_sess br_sess].
  apply assoc_set_b_other. apply beq_bytes_neq. exact H.
Qed.

Lemma upd_pub2in_keeps k kd br f : kd <> k -> keeps k br (upd_pub2in br kd f).
Proof.
  intros H. unfold upd_pub2in. destruct (assoc_b kd (br_sess br)); [|apply keeps_refl].
  apply with_sess_keeps. exact H.
Qed.

Lemma sub_one_keeps k kd br c t q br1 code rms : kd <> k ->
  sub_one br c kd t q = (br1, code, rms) -> keeps k br br1.
Proof.
  intros HK H. unfold sub_one in H.
  destruct (t_subscribe (br_store br) t q c) as [st r].
  destruct r as [g|]; inv H; [|split; reflexivity].
  cbn [with_store br_sess].
  destruct (assoc_b kd (br_sess br)) as [s|]; [|split; reflexivity].
  eapply keeps_trans; [|apply with_sess_keeps; exact HK]. split; reflexivity.
Qed.

Lemma sub_all_keeps k kd c ts : forall qs br br1 codes rms, kd <> k ->
  sub_all br c kd ts qs = (br1, codes, rms) -> keeps k br br1.
Proof.
  induction ts as [|t ts IH]; intros qs br br1 codes rms HK H.
  { cbn [sub_all] in H. inv H. apply keeps_refl. }
  destruct qs as [|q qs].
  { cbn [sub_all] in H. inv H. apply keeps_refl. }
  cbn [sub_all] in H.
  destruct (sub_one br c kd t q) as [[bra code] rmsa] eqn:E1.
  destruct (sub_all bra c kd ts qs) as [[brb codesb] rmsb] eqn:E2. inv H.
  eapply keeps_trans; [eapply sub_one_keeps; eassumption|eapply IH; eassumption].
Qed.

Lemma process_subscribe_keeps k kd br c m br1 o : kd <> k ->
  process_subscribe br c kd m = (br1, o) -> keeps k br br1.
Proof.
  intros HK H. unfold process_subscribe in H.
  destruct (sub_all br c kd (s_topics m) (s_qos m)) as [[bra codes] rms] eqn:E1.
  pose proof (sub_all_keeps _ _ _ _ _ _ _ _ _ HK E1) as K1.
  destruct (lenenc _ (br_counter bra)) as [[m1 c1] r].
  destruct r; try (inv H; exact K1).
  destruct (send_pubs bra c rms) as [br2 o2] eqn:E2. inv H.
  apply send_pubs_cases in E2. destruct E2 as [C2 _].
  eapply keeps_trans; [exact K1|apply ceq_keeps; exact C2].
Qed.

Lemma unsub_all_keeps k kd c ts : forall br, kd <> k -> keeps k br (unsub_all br c kd ts).
Proof.
  induction ts as [|t ts IH]; intros br HK; cbn [unsub_all]; [apply keeps_refl|].
  eapply keeps_trans; [|apply IH; exact HK].
  cbn [with_store br_sess].
  destruct (assoc_b kd (br_sess br)) as [s|]; [|split; reflexivity].
  eapply keeps_trans; [|apply with_sess_keeps; exact HK]. split; reflexivity.
Qed.

Lemma process_incoming_keeps k kd br c raw m br1 o r : kd <> k ->
  process_incoming br c kd raw m = (br1, o, r) -> keeps k br br1.
Proof.
  intros HK H. unfold process_incoming in H.
  destruct m as [p|h|h|x|x|s|u|x]; try (inv H; apply keeps_refl).
  - destruct (pub_qos p =? 2).
    { destruct (send _ c _) as [br2 o2] eqn:E. inv H.
      eapply keeps_trans; [apply upd_pub2in_keeps; exact HK|].
      apply ceq_keeps. eapply send_ceq. exact E. }
    destruct (pub_qos p =? 1).
    { destruct (send br c _) as [bra o1] eqn:E1. destruct (on_publish bra p) as [br2 o2] eqn:E2. inv H.
      apply send_ceq in E1. apply on_publish_cases in E2. destruct E2 as [F2 _].
      eapply keeps_trans; [apply ceq_keeps; exact E1|apply sc_keeps; exact F2]. }
    destruct (on_publish br p) as [bra o1] eqn:E1. inv H.
    apply on_publish_cases in E1. apply sc_keeps. tauto.
  - destruct (h_type h =? T_PUBREL).
    { destruct (assoc_b kd (br_sess br)) as [s|] eqn:EA; [|inv H; apply keeps_refl].
      destruct (s_acked _) as [a2 rel].
      destruct (release_pub2in _ rel) as [br2 o1] eqn:E1.
      destruct (send br2 c _) as [br3 o2] eqn:E2. inv H.
      apply release_pub2in_cases in E1. destruct E1 as [F1 _]. apply send_ceq in E2.
      eapply keeps_trans; [apply upd_pub2in_keeps; exact HK|].
      eapply keeps_trans; [apply sc_keeps; exact F1|apply ceq_keeps; exact E2]. }
    destruct (h_type h =? T_PUBREC); [|inv H; apply keeps_refl].
    destruct (send br c _) as [bra o1] eqn:E1. inv H. apply ceq_keeps. eapply send_ceq. exact E1.
  - destruct (h_type h =? T_PINGREQ).
    { destruct (send br c _) as [bra o1] eqn:E1. inv H. apply ceq_keeps. eapply send_ceq. exact E1. }
    destruct (h_type h =? T_DISCONNECT); [|inv H; apply keeps_refl].
    inv H. destruct (assoc_b kd (br_sess br)); [|apply keeps_refl]. apply with_sess_keeps. exact HK.
  - destruct (process_subscribe br c kd s) as [bra o1] eqn:E1. inv H.
    eapply process_subscribe_keeps; eassumption.
  - destruct (send _ c _) as [br2 o2] eqn:E. inv H.
    eapply keeps_trans; [apply unsub_all_keeps; exact HK|].
    apply ceq_keeps. eapply send_ceq. exact E.
Qed.

(* the invariant between the end of c and the next CONNECT of k *)
Definition parked (k : bytes) (s : sess) (br : broker) : Prop :=
  assoc_b k (br_sess br) = Some s /\ key_free br k.

Lemma keeps_parked k s br br' : keeps k br br' -> parked k s br -> parked k s br'.
Proof.
  intros [K1 K2] [P1 P2]. split; [rewrite K1; exact P1|].
  intros d. unfold conn_key. rewrite K2. apply P2.
Qed.

Lemma keeps_conn_key k br br' d : keeps k br br' -> conn_key br' d = conn_key br d.
Proof. intros [_ K2]. unfold conn_key. rewrite K2. reflexivity. Qed.

Lemma stop_parked k s br d kd br' o : kd <> k ->
  conn_key br d = Some kd -> stop br d = (br', o) -> parked k s br -> parked k s br'.
Proof.
  intros HK HD H [P1 P2].
  destruct (conn_sess br d) as [[kd' s']|] eqn:ES.
  - destruct (conn_sess_inv _ _ _ _ ES) as [HK' _]. rewrite HD in HK'. inv HK'.
    destruct (stop_frame _ _ _ _ _ _ ES H) as (FS & FC & _).
    split.
    + rewrite FS. destruct (se_clean s'); [|exact P1].
      rewrite assoc_del_b_other by exact HK. exact P1.
    + intros d'. rewrite (conn_key_filtered _ _ _ _ FC).
      destruct (d' =? d); [discriminate|]. apply P2.
  - unfold stop in H. rewrite ES in H. inv H. split; assumption.
Qed.

Ltac dflt_parked H Es :=
  (inv H; eapply stop_parked; [eassumption|eassumption|exact Es|eassumption]).

Lemma proc_parked k s d kd fuel bufsize : kd <> k -> forall br b br' o rest,
  conn_key br d = Some kd -> proc fuel bufsize br d kd b = (br', o, rest) ->
  parked k s br -> parked k s br'.
Proof.
  intros HK. induction fuel as [|f IH]; intros br b br' o rest HD H HP; cbn [proc] in H.
  { inv H. exact HP. }
  destruct (stop br d) as [brs os] eqn:Es.
  destruct (frame bufsize b) as [| |ty total].
  - inv H. exact HP.
  - dflt_parked H Es.
  - destruct (new_msg ty) as [m0|]; [|dflt_parked H Es].
    destruct (do_dec m0 (firstn total b)) as [m obs].
    destruct obs as [|x obs]; [dflt_parked H Es|].
    destruct x as [|p]; [dflt_parked H Es|].
    repeat (destruct p as [p|p|]; try (dflt_parked H Es)).
    destruct (process_incoming br d kd (firstn total b) m) as [[br1 o1] r] eqn:E1.
    pose proof (process_incoming_keeps _ _ _ _ _ _ _ _ _ HK E1) as K1.
    pose proof (keeps_parked _ _ _ _ K1 HP) as HP1.
    assert (HD1 : conn_key br1 d = Some kd) by (rewrite (keeps_conn_key _ _ _ _ K1); exact HD).
    destruct r.
    + destruct (proc f bufsize br1 d kd (skipn total b)) as [[br2 o2] rest'] eqn:E2. inv H.
      eapply IH; eassumption.
    + destruct (stop br1 d) as [br2 o2] eqn:E2. inv H.
      eapply stop_parked; [exact HK|exact HD1|exact E2|exact HP1].
Qed.

Lemma connect_noauth_refused bufsize br c b br' o rest :
  connect bufsize br c false b = (br', o, CAccepted rest) -> False.
Proof.
  unfold connect. intros H.
  destruct b as [|b0 [|b1 r]]; [inv H | inv H |].
  destruct (uvarint4 (b1 :: r)) as [[rl m]|]; [|inv H].
  destruct (length (b0 :: b1 :: r) <? N.to_nat (rl + 1 + N.of_nat m))%nat; [inv H|].
  destruct (conn_decode conn_new (firstn (N.to_nat (rl + 1 + N.of_nat m)) (b0 :: b1 :: r))) as [[req n]|cls n|].
  - cbn [negb] in H. destruct (send br c (mk_connack false 4)). inv H.
  - destruct ((cls =? 1) || (cls =? 2)); [|inv H]. destruct (send br c (mk_connack false cls)). inv H.
  - inv H.
Qed.

Lemma other_event_parked k s br br' : other_event k br br' -> parked k s br -> parked k s br'.
Proof.
  intros HE HP. destruct HE as [fuel bufsize br d kd b br' o rest HD HK H
                               |br d kd br' o HD HK H
                               |br b br' o H
                               |br sb q t br' o H
                               |br sb t
                               |bufsize br d a b br' o r kd H HA].
  - eapply proc_parked; eassumption.
  - eapply stop_parked; eassumption.
  - unfold srv_publish in H. destruct (pub_decode pub_new b) as [[m n]|? ?|]; try (inv H; exact HP).
    apply on_publish_cases in H. destruct H as [F _]. eapply keeps_parked; [apply sc_keeps; exact F|exact HP].
  - unfold srv_subscribe in H. destruct (t_subscribe (br_store br) t q sb) as [st r].
    destruct r as [g|]; inv H; (eapply keeps_parked; [|exact HP]); split; reflexivity.
  - eapply keeps_parked; [|exact HP]. split; reflexivity.
  - destruct r as [rest|].
    2: { apply connect_refused_no_effect in H. subst br'. exact HP. }
    destruct a; [|exfalso; eapply connect_noauth_refused; exact H].
    destruct HA as [HA1 HA2]; [discriminate|].
    apply connect_accepted_inv in H. destruct H as (total & req & n & _ & _ & _ & -> & _).
    unfold accept_state in *. cbv zeta in *. cbn [fst] in *.
    unfold conn_key in HA1. cbn [br_conns find fst] in HA1. rewrite N.eqb_refl in HA1. cbn [snd] in HA1.
    inv HA1. destruct HP as [P1 P2]. split.
    + cbn [br_sess]. rewrite assoc_set_b_other by (apply beq_bytes_neq; exact HA2). exact P1.
    + intros d'. unfold conn_key. cbn [br_conns find fst].
      destruct (d =? d'); cbn [snd]; [congruence|apply P2].
Qed.

Lemma resume_after_others : C10_resume_after_others.
Proof.
  intros br c k s br1 o1 br1' HS HCl HU HSt HEs.
  destruct (stop_frame _ _ _ _ _ _ HS HSt) as (FS & FC & _). rewrite HCl in FS.
  destruct (conn_sess_inv _ _ _ _ HS) as [_ HA].
  assert (HP : parked k s br1).
  { split; [rewrite FS; exact HA|].
    intros d. rewrite (conn_key_filtered _ _ _ _ FC).
    destruct (N.eqb_spec d c) as [->|HN]; [discriminate|]. apply (HU d HN). }
  assert (HP' : parked k s br1').
  { clear - HEs HP. induction HEs as [br|br bra brb HE _ IH]; [exact HP|].
    apply IH. eapply other_event_parked; eassumption. }
  destruct HP' as [P1 P2]. split; [exact P1|]. split; [exact P2|].
  intros bufsize c' br2 o2 HR.
  apply resume_connect in HR. cbv zeta in HR. rewrite P1 in HR.
  destruct HR as (HO & HST & s' & HS' & H1 & H2 & H3).
  split; [exact HO|]. split; [exact HST|].
  exists s'. repeat split; assumption.
Qed.

(* ====================================================================================== *)
(* the statements are not vacuous: concrete instances                                      *)
(* ====================================================================================== *)

(* CONNECT, client identifier "ca", CleanSession = 0, keep-alive 60 *)
Definition conn_ca : bytes := [16;14;0;4;77;81;84;84;4;0;0;60;0;2;99;97].
(* SUBSCRIBE (identifier 1) to "s/+" with QoS 1 and "s/x" with QoS 2 *)
Definition sub_ca : bytes := [130;14;0;1;0;3;115;47;43;1;0;3;115;47;120;2].

(* connection 1 connects as "ca" (persistent) and subscribes; it ends; connection 3 connects as "ca"
   again: the hypotheses of C10_resume_roundtrip hold, and the stored subscriptions are the two
   filters with their QoS *)
Example resume_roundtrip_inhabited :
  let br0 := fst (fst (connect 262144 broker0 1 true conn_ca)) in
  let bra := fst (fst (proc 10 262144 br0 1 [99;97] sub_ca)) in
  let br1 := fst (stop bra 1) in
  (exists s, conn_sess bra 1 = Some ([99;97], s) /\ se_clean s = false
             /\ se_topics s = [([115;47;120], 2); ([115;47;43], 1)])
  /\ exists br2 o2, resuming_connect 262144 br1 3 [99;97] br2 o2.
Proof.
  cbv zeta. split.
  - eexists. split; [vm_compute; reflexivity|]. split; reflexivity.
  - eexists. eexists. exists conn_ca. eexists. eexists. eexists. exists 16%nat.
    split; [vm_compute; reflexivity|]. split; [vm_compute; reflexivity|].
    split; [reflexivity|]. split; reflexivity.
Qed.

(* an in-order history with a repeated PUBLISH (other bytes) and a repeated PUBREL: each exchange is
   released once, with the bytes of its first PUBLISH, at its PUBREL *)
Example q2_in_order_example :
  q2_inorder [] [QPub 1 [11]; QPub 1 [12]; QPub 2 [22]; QRel 1 [61]; QRel 1 [61]; QRel 2 [62]; QPub 1 [13]; QRel 1 [63]]
  /\ q2_run [QPub 1 [11]; QPub 1 [12]; QPub 2 [22]; QRel 1 [61]; QRel 1 [61]; QRel 2 [62]; QPub 1 [13]; QRel 1 [63]] s_new
     = (s_new, [[]; []; []; [done_entry 1 [11] [61]]; []; [done_entry 2 [22] [62]]; []; [done_entry 1 [13] [63]]]).
Proof.
  split; [|vm_compute; reflexivity].
  cbn. repeat split; try exact I; intros H; repeat (destruct H as [H|H]; [discriminate H|]); exact H.
Qed.

(* ====================================================================================== *)

Print Assumptions conn_decode_cid_nonempty.
Print Assumptions resume_roundtrip.
Print Assumptions clean_discards.
Print Assumptions resume_after_others.
Print Assumptions qos2_once.
Print Assumptions qos2_repeats.
Print Assumptions qos2_exchange.
Print Assumptions release_hands.
Print Assumptions handed_done.
Print Assumptions q2_step_is_model.
Print Assumptions qos2_once_broker.
Print Assumptions proc_bytes_decode.
