(* Event scripts over the broker model: the interface the correspondence check drives.
   header: [bufsize]
   events: [1; c; authok; bytes...]  first bytes of connection c
           [2; c; bytes...]          bytes arriving on the accepted connection c
           [3; c]                    connection c drops
           [4; s; q; topic...]       Server.Subscribe with in-process subscriber s (>= 1000)
           [5; s; topic...]          Server.Unsubscribe
           [6; bytes...]             Server.Publish of the PUBLISH packet
           [7]                       Server.Close
           [8; q; retain; tlen; topic...; payload...]  Server.Publish of a message built with the setters
           [9; c; bytes...]          the client of connection c writes the bytes and closes at once
   observation per event, canonical: for every connection in ascending order its packets
   ([1; c; len; bytes...]; runs of consecutive PUBLISH packets sorted, since the fan-out order is
   the iteration order of Go maps) and its closure ([2; c]); then the in-process calls sorted
   ([3; s; flags; tlen; topic...; plen; payload...]). *)
From Base Require Import Tactics Bytes.
From Gen Require Import Tables.
From Codec Require Import Wire Impl Script.
From Topics Require Import Model Script.
From Proto Require Import Broker.
Open Scope N_scope.

Record bstate := mkBS { bs_br : broker; bs_pend : list (N * bytes); bs_buf : N }.

Definition pend_of (s : bstate) (c : N) : bytes :=
  match find (fun cb => fst cb =? c) (bs_pend s) with Some cb => snd cb | None => [] end.
Definition set_pend (l : list (N * bytes)) (c : N) (b : bytes) : list (N * bytes) :=
  (c, b) :: filter (fun cb => negb (fst cb =? c)) l.

Definition feed (s : bstate) (c : N) (b : bytes) : bstate * list out :=
  match conn_key (bs_br s) c with
  | None => (s, [])
  | Some k =>
      let all := pend_of s c ++ b in
      let '(br1, o, rest) := proc (S (length all)) (bs_buf s) (bs_br s) c k all in
      (mkBS br1 (set_pend (bs_pend s) c rest) (bs_buf s), o)
  end.

Definition b_event (s : bstate) (ev : list N) : bstate * list out :=
  match ev with
  | 1 :: c :: authok :: b =>
      let '(br1, o, r) := connect (bs_buf s) (bs_br s) c (negb (authok =? 0)) b in
      let s1 := mkBS br1 (bs_pend s) (bs_buf s) in
      match r with
      | CAccepted rest => let '(s2, o2) := feed s1 c rest in (s2, o ++ o2)
      | CRefused => (s1, o)
      end
  | 2 :: c :: b => feed s c b
  | [3; c] => let '(br1, o) := stop (bs_br s) c in (mkBS br1 (bs_pend s) (bs_buf s), o)
  | 4 :: sub :: q :: topic => let '(br1, o) := srv_subscribe (bs_br s) sub q topic in (mkBS br1 (bs_pend s) (bs_buf s), o)
  | 5 :: sub :: topic => (mkBS (srv_unsubscribe (bs_br s) sub topic) (bs_pend s) (bs_buf s), [])
  | 6 :: b => let '(br1, o) := srv_publish (bs_br s) b in (mkBS br1 (bs_pend s) (bs_buf s), o)
  | [7] => let '(br1, o) := srv_close (bs_br s) in (mkBS br1 (bs_pend s) (bs_buf s), o)
  | 9 :: c :: b =>
      (* the client writes the bytes and closes at once: everything complete is processed, then the connection ends
         (without DISCONNECT unless the bytes contained one) *)
      let '(s1, o1) := feed s c b in
      match conn_key (bs_br s1) c with
      | Some _ => let '(br2, o2) := stop (bs_br s1) c in (mkBS br2 (bs_pend s1) (bs_buf s1), o1 ++ o2)
      | None => (s1, o1)
      end
  | 8 :: q :: ret :: tl :: rest =>
      (* Server.Publish of a message built with the setters (no packet identifier yet) *)
      let w1 := match pub_set_qos pub_new q with Some x => x | None => pub_new end in
      let w2 := match pub_set_topic w1 (firstn (N.to_nat tl) rest) with Some x => x | None => w1 end in
      let w3 := pub_set_retain (pub_set_payload w2 (skipn (N.to_nat tl) rest)) (negb (ret =? 0)) in
      let '(br1, o) := on_publish (bs_br s) w3 in (mkBS br1 (bs_pend s) (bs_buf s), o)
  | _ => (s, [])
  end.

(* ---------- canonical form of an event's outputs ---------- *)

Fixpoint ins_bytes (x : bytes) (l : list bytes) : list bytes :=
  match l with
  | [] => [x]
  | y :: r => if ble_bytes x y then x :: l else y :: ins_bytes x r
  end.
Definition sort_bytes (l : list bytes) : list bytes := fold_right ins_bytes [] l.

Definition is_publish (b : bytes) : bool := match b with b0 :: _ => b0 / 16 =? T_PUBLISH | [] => false end.

(* items of one connection: Some bytes = packet, None = closure *)
Fixpoint sort_runs (items : list (option bytes)) (run : list bytes) : list (option bytes) :=
  match items with
  | [] => map Some (sort_bytes run)
  | Some b :: r => if is_publish b then sort_runs r (b :: run)
                   else map Some (sort_bytes run) ++ Some b :: sort_runs r []
  | None :: r => map Some (sort_bytes run) ++ None :: sort_runs r []
  end.

Definition conn_items (c : N) (o : list out) : list (option bytes) :=
  flat_map (fun x => match x with
                     | OPkt d b => if d =? c then [Some b] else []
                     | OClose d => if d =? c then [None] else []
                     | OCall _ _ _ _ => []
                     end) o.
Definition out_conns (o : list out) : list N :=
  flat_map (fun x => match x with OPkt d _ | OClose d => [d] | OCall _ _ _ _ => [] end) o.
Fixpoint dedup (l : list N) : list N :=
  match l with
  | [] => []
  | x :: r => if existsb (N.eqb x) r then dedup r else x :: dedup r
  end.

Definition enc_call (x : out) : list bytes :=
  match x with
  | OCall s fl t p => [[3; s; fl; len t] ++ t ++ [len p] ++ p]
  | _ => []
  end.

Definition canon (o : list out) : list N :=
  let conns := Topics.Script.sort_n (dedup (out_conns o)) in
  flat_map (fun c => flat_map (fun it => match it with
                                         | Some b => [1; c; len b] ++ b
                                         | None => [2; c]
                                         end) (sort_runs (conn_items c o) [])) conns
  ++ concat (sort_bytes (flat_map enc_call o)).

Fixpoint b_run (s : bstate) (evs : list (list N)) : list (list N) :=
  match evs with
  | [] => []
  | ev :: r =>
      let '(s', o) := b_event s ev in
      (* packets written while Server.Close tears the connections down may or may not leave the
         broker before the connection is closed: only closures and in-process calls are compared *)
      let o' := match ev with
                | [7] => filter (fun x => match x with OPkt _ _ => false | _ => true end) o
                | 9 :: c :: _ =>
                    (* nothing can be observed on a connection whose client has gone *)
                    filter (fun x => match x with OPkt d _ | OClose d => negb (d =? c) | _ => true end) o
                | _ => o
                end in
      (0 :: canon o') :: b_run s' r
  end.

Definition run_broker (hd : list N) (evs : list (list N)) : list (list N) :=
  match hd with
  | [bufsize] => b_run (mkBS broker0 [] bufsize) evs
  | _ => [[98]]
  end.
