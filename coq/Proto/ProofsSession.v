(* The will (C09) and the session store (C10): what teardown, DISCONNECT and an accepted CONNECT
   do to the session of the connection. *)
From Base Require Import Tactics Bytes.
From Gen Require Import Tables.
From Codec Require Import Wire Impl Script Statements.
From Topics Require Import Model.
From Ackq Require Import Model Spec.
From Proto Require Import Broker Props ProofsBasic ProofsStruct.
Open Scope N_scope.

(* ---------- association lists ---------- *)

Lemma beq_bytes_refl k : beq_bytes k k = true.
Proof. induction k as [|x k IH]; [reflexivity|]. cbn [beq_bytes]. rewrite N.eqb_refl, IH. reflexivity. Qed.

Lemma assoc_set_b {A} k (v : A) l : assoc_b k (set_b k v l) = Some v.
Proof. unfold set_b. cbn [assoc_b]. rewrite beq_bytes_refl. reflexivity. Qed.

Lemma assoc_del_b {A} k (l : list (bytes * A)) : assoc_b k (del_b k l) = None.
Proof.
  unfold del_b. induction l as [|[k' v] l IH]; [reflexivity|].
  cbn [filter fst]. destruct (beq_bytes k' k) eqn:E; cbn [negb].
  - exact IH.
  - cbn [assoc_b]. rewrite E. exact IH.
Qed.

Lemma find_filtered (c : N) (l : list (N * bytes)) :
  find (fun cv => fst cv =? c) (filter (fun cv => negb (fst cv =? c)) l) = None.
Proof.
  induction l as [|[d k] l IH]; [reflexivity|].
  cbn [filter fst]. destruct (d =? c) eqn:E; cbn [negb].
  - exact IH.
  - cbn [find fst]. rewrite E. exact IH.
Qed.

Lemma conn_sess_inv br c k s : conn_sess br c = Some (k, s) ->
  conn_key br c = Some k /\ assoc_b k (br_sess br) = Some s.
Proof.
  unfold conn_sess. intros H.
  destruct (conn_key br c) as [k'|]; [|discriminate].
  destruct (assoc_b k' (br_sess br)) as [s'|] eqn:E; [|discriminate].
  inv H. split; [reflexivity|exact E].
Qed.

(* ---------- the topic store under unsubscribe ---------- *)

Lemma t_unsubscribe_rroot st t c : rroot (fst (t_unsubscribe st t c)) = rroot st.
Proof.
  unfold t_unsubscribe. destruct (levels_lazy t) as [ls bad].
  destruct bad; [reflexivity|].
  destruct (sremove ls _ (sroot st)); reflexivity.
Qed.

Lemma fold_unsub_rroot (c : N) (l : list (bytes * N)) : forall st,
  rroot (fold_left (fun st tq => fst (t_unsubscribe st (fst tq) c)) l st) = rroot st.
Proof.
  induction l as [|tq l IH]; intros st; [reflexivity|].
  cbn [fold_left]. rewrite IH. apply t_unsubscribe_rroot.
Qed.

(* ---------- C09: teardown ---------- *)

Lemma stop_will : C09_stop_will.
Proof.
  intros br c k s w HS HF HW. unfold stop. rewrite HS, HF, HW.
  match goal with |- context [on_publish ?b w] => set (br1 := b) end.
  destruct (on_publish br1 w) as [br2 o] eqn:E.
  exists br1. eexists. exists o.
  split; [reflexivity|]. rewrite E. split; [reflexivity|].
  subst br1. cbn [br_store br_raw].
  split; [reflexivity|]. split; [apply fold_unsub_rroot|]. split; [reflexivity|].
  unfold conn_key. cbn [br_conns]. rewrite find_filtered. reflexivity.
Qed.

Lemma stop_no_will : C09_stop_no_will.
Proof.
  intros br c k s HS HF. unfold stop. rewrite HS, HF. eexists. reflexivity.
Qed.

Lemma disconnect : C09_disconnect.
Proof.
  intros br c k raw h br1 o r s H HT HA.
  unfold process_incoming in H. rewrite HT in H. cbv zeta in H.
  change (T_DISCONNECT =? T_PINGREQ) with false in H.
  change (T_DISCONNECT =? T_DISCONNECT) with true in H.
  cbv iota in H. rewrite HA in H. inv H.
  split; [reflexivity|]. split; [reflexivity|].
  eexists. cbn [with_sess br_sess]. rewrite assoc_set_b.
  split; [reflexivity|]. cbn. repeat split; reflexivity.
Qed.

(* ---------- an accepted CONNECT ---------- *)

Definition accept_state (br : broker) (c : N) (req : connmsg) : broker * bool :=
  let anon := (length (c_cid req) =? 0)%nat in
  let key := if anon then anon_key (br_anon br) else c_cid req in
  let clean := anon || conn_clean req in
  let old := if clean then None else assoc_b key (br_sess br) in
  let s := match old with
           | Some s0 => mkSess false (conn_willflag req) (build_will req) (se_topics s0) (se_pub2in s0)
           | None => mkSess clean (conn_willflag req) (build_will req) [] s_new
           end in
  let sp := match old with Some _ => true | None => false end in
  (mkB (resubscribe (br_store br) c (se_topics s)) (br_raw br) (set_b key s (br_sess br))
       ((c, key) :: br_conns br) (br_counter br) (br_anon br + 1) (br_closed br), sp).

Lemma connect_accepted_inv bufsize br c b br' o rest :
  connect bufsize br c true b = (br', o, CAccepted rest) ->
  exists total req n,
    (total <= length b)%nat
    /\ conn_decode conn_new (firstn total b) = Ok (req, n)
    /\ rest = skipn total b
    /\ br' = fst (accept_state br c req)
    /\ o = [OPkt c [32; 2; b2n (snd (accept_state br c req)); 0]].
Proof.
  unfold connect. intros H.
  destruct b as [|b0 [|b1 r]]; [inv H | inv H |].
  destruct (uvarint4 (b1 :: r)) as [[rl m]|]; [|inv H].
  destruct (length (b0 :: b1 :: r) <? N.to_nat (rl + 1 + N.of_nat m))%nat eqn:EL; [inv H|].
  destruct (conn_decode conn_new (firstn (N.to_nat (rl + 1 + N.of_nat m)) (b0 :: b1 :: r))) as [[req n]|cls n|] eqn:ED.
  - cbn [negb] in H. rewrite send_connack in H by lia. inv H.
    exists (N.to_nat (rl + 1 + N.of_nat m)), req, n.
    split; [lia|]. split; [exact ED|]. split; [reflexivity|]. split; reflexivity.
  - destruct ((cls =? 1) || (cls =? 2)) eqn:E; [|inv H].
    assert (C : cls = 1 \/ cls = 2) by lia.
    rewrite send_connack in H by lia. inv H.
  - inv H.
Qed.

Lemma skipn_eq_firstn {A} (b : list A) t t0 :
  (t0 <= length b)%nat -> skipn t b = skipn t0 b -> firstn t b = firstn t0 b.
Proof.
  intros H0 H.
  assert (HL : length (skipn t b) = length (skipn t0 b)) by congruence.
  rewrite !skipn_length in HL.
  destruct (le_lt_dec t (length b)) as [Ht|Ht].
  - assert (t = t0) by lia. subst. reflexivity.
  - assert (t0 = length b) by lia. subst.
    rewrite firstn_all. rewrite firstn_all2 by lia. reflexivity.
Qed.

(* the statements name the request through an arbitrary split point [total] with the same rest *)
Lemma connect_accepted_req bufsize br c b br' o rest req n total :
  connect bufsize br c true b = (br', o, CAccepted rest) ->
  conn_decode conn_new (firstn total b) = Ok (req, n) -> rest = skipn total b ->
  br' = fst (accept_state br c req)
  /\ o = [OPkt c [32; 2; b2n (snd (accept_state br c req)); 0]].
Proof.
  intros H HD HR.
  apply connect_accepted_inv in H.
  destruct H as (total0 & req0 & n0 & HT & HD0 & HR0 & HB & HO).
  assert (HF : firstn total b = firstn total0 b).
  { apply skipn_eq_firstn; [exact HT|congruence]. }
  rewrite HF in HD. rewrite HD0 in HD. inv HD. split; reflexivity.
Qed.

Lemma accept_state_sess br c req :
  exists k s, conn_sess (fst (accept_state br c req)) c = Some (k, s)
    /\ k = (if (length (c_cid req) =? 0)%nat then anon_key (br_anon br) else c_cid req)
    /\ se_willflag s = conn_willflag req /\ se_will s = build_will req
    /\ (let clean := (length (c_cid req) =? 0)%nat || conn_clean req in
        let old := if clean then None else assoc_b k (br_sess br) in
        se_clean s = clean
        /\ se_topics s = (match old with Some s0 => se_topics s0 | None => [] end)
        /\ snd (accept_state br c req) = (match old with Some _ => true | None => false end))
    /\ br_store (fst (accept_state br c req)) = resubscribe (br_store br) c (se_topics s).
Proof.
  unfold accept_state. cbv zeta.
  set (key := if (length (c_cid req) =? 0)%nat then anon_key (br_anon br) else c_cid req).
  set (clean := (length (c_cid req) =? 0)%nat || conn_clean req).
  set (old := if clean then None else assoc_b key (br_sess br)).
  cbn [fst snd].
  eexists. eexists. split.
  { unfold conn_sess, conn_key. cbn [br_conns find fst snd br_sess].
    rewrite N.eqb_refl. cbn [snd]. rewrite assoc_set_b. reflexivity. }
  split; [reflexivity|].
  clearbody key. clearbody clean. subst old.
  destruct clean; [repeat split; reflexivity|].
  destruct (assoc_b key (br_sess br)); repeat split; reflexivity.
Qed.

Lemma connect_will : C09_connect_will.
Proof.
  intros bufsize br c b br' o rest req n total H HD HR.
  destruct (connect_accepted_req _ _ _ _ _ _ _ _ _ _ H HD HR) as [-> _].
  destruct (accept_state_sess br c req) as (k & s & HS & _ & HW & HM & _).
  exists k, s. split; [exact HS|]. split; assumption.
Qed.

(* ---------- C10 ---------- *)

Lemma connect_session : C10_connect_session.
Proof.
  intros bufsize br c b br' o rest req n total H HD HR HA.
  destruct (connect_accepted_req _ _ _ _ _ _ _ _ _ _ H HD HR) as [-> ->].
  destruct (accept_state_sess br c req) as (k & s & HS & HK & _ & _ & HC & HST).
  rewrite HA in HK, HC. cbn [orb] in HC. subst k.
  cbv zeta in HC. destruct HC as (HC1 & HC2 & HC3).
  cbv zeta. split.
  - rewrite HC3. destruct (if conn_clean req then None else assoc_b (c_cid req) (br_sess br)); reflexivity.
  - exists s. split; [exact HS|]. split; [exact HC1|]. split; [exact HC2|].
    rewrite HST. reflexivity.
Qed.

Lemma stop_session : C10_stop_session.
Proof.
  intros br c k s br' o HS H.
  unfold stop in H. rewrite HS in H.
  apply conn_sess_inv in HS. destruct HS as [_ HA].
  match type of H with context [let '(_, _) := ?x in _] => destruct x as [br2 o2] eqn:E2 end.
  assert (HB : br_sess br2 = br_sess br).
  { destruct (se_willflag s); [|inv E2; reflexivity].
    destruct (se_will s) as [w|]; [|inv E2; reflexivity].
    apply on_publish_cases in E2. destruct E2 as [[E2 _] _]. exact E2. }
  inv H. split; intros HC; rewrite HC.
  - cbn [br_sess]. apply assoc_del_b.
  - exists s. split; [|reflexivity]. rewrite HB. exact HA.
Qed.

Print Assumptions stop_will.
Print Assumptions stop_no_will.
Print Assumptions disconnect.
Print Assumptions connect_will.
Print Assumptions connect_session.
Print Assumptions stop_session.
