(* End-to-end statements: the broker model composed with the topic-store specification (section 4.7).
   Proto/Props.v relates what the broker writes to what its topic store reports; Topics/Spec.v relates
   what the store reports, after any history of in-domain operations, to the abstract list of held
   subscriptions matched by the rules of section 4.7.  Here the two are joined: the states of the
   broker are tracked together with the history of store operations that produced its store, and
   deliveries / retained messages are stated against the ABSTRACT subscription list. *)
From Coq Require Import Permutation.
From Base Require Import Tactics Bytes.
From Gen Require Import Tables.
From Codec Require Import Wire Impl Script Statements.
From Topics Require Import Model Spec.
From Ackq Require Import Model Spec.
From Proto Require Import Broker Props.
Open Scope N_scope.

(* the broker's store is the result of the operation history h, all of it inside the domain of C06 (valid filters
   and names without empty levels, or strings the splitter refuses) *)
Definition tracks (br : broker) (h : list top_op) : Prop :=
  br_store br = run_ops h /\ forallb op_in_domain h = true.

Example tracks_initial : tracks broker0 [].
Proof. split; reflexivity. Qed.

(* ----- how the broker's operations extend the history ----- *)

(* SUBSCRIBE with in-domain filters: one OSub per filter, in order, for the connection *)
Definition sub_ops (c : N) (ts : list bytes) (qs : list N) : list top_op :=
  map (fun tq => OSub (fst tq) (snd tq) c) (combine ts qs).
Definition E2E_subscribe_tracks : Prop := forall br h c k m br1 o,
  tracks br h ->
  forallb (fun t => good_filter t || refused t) (s_topics m) = true ->
  length (s_topics m) = length (s_qos m) ->
  process_subscribe br c k m = (br1, o) ->
  tracks br1 (h ++ sub_ops c (s_topics m) (s_qos m)).

(* UNSUBSCRIBE: one OUnsub per filter *)
Definition E2E_unsubscribe_tracks : Prop := forall br h c k ts,
  tracks br h -> c <> 0 ->
  forallb (fun t => good_filter t || refused t) ts = true ->
  tracks (unsub_all br c k ts) (h ++ map (fun t => OUnsub t c) ts).

(* a PUBLISH handed to the fan-out: one ORetain if its retain flag is set *)
Definition E2E_publish_tracks : Prop := forall br h m br1 o,
  tracks br h -> (good_name (p_topic m) || snd (levels_lazy (p_topic m))) = true ->
  on_publish br m = (br1, o) ->
  tracks br1 (h ++ (if pub_retain m then [ORetain (mkR (p_topic m) (p_payload m) (pub_qos m))] else [])).

(* ----- C01 end to end ----- *)

(* a PUBLISH with a good topic name is delivered to exactly the holders of a matching subscription in the
   abstract list - one delivery per matching (subscriber, filter) pair, QoS = min(publish QoS, granted QoS), same
   topic, byte-identical payload, retain flag clear - and to nobody else *)
Definition C01_end_to_end : Prop := forall br h m br1 o,
  tracks br h -> fwd m -> enc_ok m -> good_name (p_topic m) = true ->
  on_publish br m = (br1, o) ->
  exists subs,
    Permutation subs (a_subscribers (a_run h) (split_sep (p_topic m)) (pub_qos m)) /\
    map delivery o = map (fun sq => Some (fst sq, mkPF (p_topic m) (p_payload m) (snd sq) false (pub_dup m))) subs.

(* ----- C08 end to end ----- *)

(* the retained messages a new subscription to a good filter receives are exactly the abstract retained list
   selected by section 4.7 *)
Definition C08_retained_for : Prop := forall br h f,
  tracks br h -> good_filter f = true ->
  exists l, t_retained (br_store br) f = Some l /\ Permutation l (a_retained (r_run h) (split_sep f)).
