(* Concrete instances (closed by computation): the refinement on a history that grows the ring
   while it is wrapped, and non-vacuity of the statements' premises. *)
From Base Require Import Tactics Bytes.
From Ackq Require Import Model Spec.
Open Scope N_scope.

Definition h_wrapped : list qop :=
  [QWait 3 2 1 1 [1]; QWait 3 2 2 2 [2]; QAck 6 1 [61]; QAcked;
   QWait 3 2 3 3 [3]; QWait 3 2 4 4 [4]; QWait 3 2 5 5 [5];
   QAck 6 3 [63]; QAck 6 2 [62]; QAcked; QAck 6 5 [65]; QAcked; QAck 6 4 [64]; QAcked].

Lemma refines_on_wrapped_growth : q_outs (q_new (2 ^ 1)) h_wrapped = s_outs s_new h_wrapped.
Proof. vm_compute. reflexivity. Qed.

Lemma wrapped_growth_hands_back_all :
  map e_cb (handed_back (q_outs (q_new (2 ^ 1)) h_wrapped)) = [1; 2; 3; 4; 5].
Proof. vm_compute. reflexivity. Qed.
