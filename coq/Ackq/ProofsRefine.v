(* C13, refinement: the growing ring with its packet-identifier index (Ackq/Model.v) returns, over
   every history, exactly what the FIFO list (Ackq/Spec.v) returns.
   Plan: a representation invariant [inv]; every operation preserves it and commutes with the
   abstraction [abs]; induction over the history. *)
From Base Require Import Tactics Bytes.
From Gen Require Import Tables.
From Ackq Require Import Model Spec.
Open Scope N_scope.

(* ---------- arithmetic: the mask is a one-step wrap-around ---------- *)

Definition wrap (n a : N) : N := if a <? n then a else a - n.

Lemma mod_wrap : forall n a, 0 < n -> a < 2 * n -> a mod n = wrap n a.
Proof.
  intros n a Hn Ha. unfold wrap. destruct (N.ltb_spec a n) as [E|E].
  - apply N.mod_small. exact E.
  - replace a with ((a - n) + 1 * n) at 1 by lia.
    rewrite N.mod_add by lia. apply N.mod_small. lia.
Qed.

Lemma pow2_pos : forall k, 0 < 2 ^ k.
Proof. intro k. apply N.neq_0_lt_0. apply N.pow_nonzero. discriminate. Qed.

Lemma land_wrap : forall k size a, size = 2 ^ k -> a < 2 * size -> N.land a (size - 1) = wrap size a.
Proof.
  intros k size a Hs Ha. subst size.
  rewrite N.sub_1_r, <- N.ones_equiv, N.land_ones.
  apply mod_wrap; [apply pow2_pos | exact Ha].
Qed.

(* destruct every comparison introduced by [wrap], then linear arithmetic *)
Ltac wrap_lia :=
  unfold wrap in *;
  repeat match goal with
         | |- context [?a <? ?b] => destruct (N.ltb_spec a b)
         | H : context [?a <? ?b] |- _ => destruct (N.ltb_spec a b)
         end;
  lia.

(* ---------- lists ---------- *)

Lemma set_slot_length : forall l i e, length (set_slot l i e) = length l.
Proof. induction l as [|x l IH]; intros [|i] e; cbn; auto. Qed.

Lemma nth_set_slot_eq : forall l i e d, (i < length l)%nat -> nth i (set_slot l i e) d = e.
Proof.
  induction l as [|x l IH]; intros [|i] e d H; cbn in *; try lia; auto.
  apply IH. lia.
Qed.

Lemma nth_set_slot_neq : forall l i j e d, i <> j -> nth j (set_slot l i e) d = nth j l d.
Proof.
  induction l as [|x l IH]; intros [|i] [|j] e d H; cbn; auto; try congruence.
Qed.

Lemma nthN_set : forall l i j e, i < N.of_nat (length l) ->
  nth (N.to_nat j) (set_slot l (N.to_nat i) e) e_zero
  = if j =? i then e else nth (N.to_nat j) l e_zero.
Proof.
  intros l i j e Hi. destruct (N.eqb_spec j i) as [E|E].
  - subst j. apply nth_set_slot_eq. lia.
  - apply nth_set_slot_neq. lia.
Qed.

Lemma repeat_e_length : forall n, length (repeat_e n) = n.
Proof. induction n; cbn; auto. Qed.

Lemma nth_skipn_e : forall (l : list entry) h j d, nth j (skipn h l) d = nth (h + j) l d.
Proof.
  induction l as [|x l IH]; intros [|h] j d; cbn; auto.
  destruct j; reflexivity.
Qed.

Lemma nth_firstn_e : forall (l : list entry) h j d, (j < h)%nat -> nth j (firstn h l) d = nth j l d.
Proof.
  induction l as [|x l IH]; intros [|h] [|j] d H; cbn; auto; try lia.
  apply IH. lia.
Qed.

Lemma rot_nth : forall (l : list entry) h j, (h < length l)%nat -> (j < length l)%nat ->
  nth j (skipn h l ++ firstn h l) e_zero
  = nth (if (h + j <? length l)%nat then (h + j)%nat else (h + j - length l)%nat) l e_zero.
Proof.
  intros l h j Hh Hj. destruct (Nat.ltb_spec (h + j) (length l)) as [E|E].
  - rewrite app_nth1 by (rewrite skipn_length; lia). apply nth_skipn_e.
  - rewrite app_nth2 by (rewrite skipn_length; lia). rewrite skipn_length.
    rewrite nth_firstn_e by lia. f_equal. lia.
Qed.

Lemma firstn_app_exact : forall (l r : list entry) n, length l = n -> firstn n (l ++ r) = l.
Proof.
  induction l as [|x l IH]; intros r n H; cbn in *; subst n; cbn.
  - reflexivity.
  - f_equal. apply IH. reflexivity.
Qed.

Lemma nth_map_seq : forall (f : nat -> entry) n j, (j < n)%nat -> nth j (map f (seq 0 n)) e_zero = f j.
Proof.
  intros f n j H.
  rewrite nth_indep with (d' := f 0%nat) by (rewrite map_length, seq_length; exact H).
  rewrite map_nth. rewrite seq_nth by exact H. reflexivity.
Qed.

Lemma nth_map_in : forall (f : entry -> entry) l j, (j < length l)%nat ->
  nth j (map f l) e_zero = f (nth j l e_zero).
Proof.
  intros f l j H.
  rewrite nth_indep with (d' := f e_zero) by (rewrite map_length; exact H).
  apply map_nth.
Qed.

Lemma nthN_ext : forall (l l' : list entry) c, length l = N.to_nat c -> length l' = N.to_nat c ->
  (forall j, j < c -> nth (N.to_nat j) l e_zero = nth (N.to_nat j) l' e_zero) -> l = l'.
Proof.
  intros l l' c H1 H2 H. apply nth_ext with (d := e_zero) (d' := e_zero); [congruence|].
  intros n Hn. specialize (H (N.of_nat n)). rewrite Nat2N.id in H. apply H. lia.
Qed.

(* ---------- the index ---------- *)

Lemma emap_get_del : forall m k p, emap_get (emap_del m k) p = if k =? p then None else emap_get m p.
Proof.
  intros m k p. unfold emap_get, emap_del. induction m as [|[a b] m IH]; cbn [filter find fst snd].
  - destruct (k =? p); reflexivity.
  - destruct (N.eqb_spec a k) as [E1|E1]; cbn [negb].
    + rewrite IH. subst a. destruct (N.eqb_spec k p); reflexivity.
    + cbn [find fst snd]. destruct (N.eqb_spec a p) as [E2|E2].
      * subst a. destruct (N.eqb_spec k p); [congruence | reflexivity].
      * exact IH.
Qed.

Lemma emap_get_set : forall m k v p, emap_get (emap_set m k v) p = if k =? p then Some v else emap_get m p.
Proof.
  intros m k v p. unfold emap_set.
  assert (H := emap_get_del m k p). unfold emap_get in *. cbn [find fst snd].
  destruct (k =? p); [reflexivity | exact H].
Qed.

(* ---------- the live window ---------- *)

Definition winl (size head count : N) (ring : list entry) : list entry :=
  map (fun k => nth (N.to_nat (N.land (head + N.of_nat k) (size - 1))) ring e_zero)
      (seq 0 (N.to_nat count)).

Lemma abs_list : forall q, s_list (abs q) = winl (q_size q) (q_head q) (q_count q) (q_ring q).
Proof. reflexivity. Qed.
Lemma abs_ping : forall q, s_ping (abs q) = q_ping q.
Proof. reflexivity. Qed.
Lemma abs_eq : forall q l pg, s_list (abs q) = l -> q_ping q = pg -> abs q = mkS l pg.
Proof. intros q l pg H1 H2. subst. reflexivity. Qed.

Lemma abs_ext : forall q1 q2, s_list (abs q1) = s_list (abs q2) -> q_ping q1 = q_ping q2 -> abs q1 = abs q2.
Proof. intros q1 q2 H1 H2. unfold abs in *. cbn [s_list] in H1. rewrite H1, H2. reflexivity. Qed.

Lemma winl_length : forall size head count ring, length (winl size head count ring) = N.to_nat count.
Proof. intros. unfold winl. rewrite map_length, seq_length. reflexivity. Qed.

Lemma winl_nth : forall k size head count ring j, size = 2 ^ k -> head < size -> count <= size -> j < count ->
  nth (N.to_nat j) (winl size head count ring) e_zero
  = nth (N.to_nat (wrap size (head + j))) ring e_zero.
Proof.
  intros k size head count ring j Hs Hh Hc Hj. unfold winl.
  rewrite nth_map_seq by lia. rewrite N2Nat.id.
  rewrite (land_wrap k) by (auto; lia). reflexivity.
Qed.

(* ---------- the representation invariant ---------- *)

Definition emap_ok (size count head : N) (ring : list entry) (m : list (N * N)) : Prop :=
  forall p i, emap_get m p = Some i <->
              exists j, j < count /\ i = wrap size (head + j) /\ e_pid (nth (N.to_nat i) ring e_zero) = p.

Definition inv (q : ackq) : Prop :=
  exists k, q_size q = 2 ^ k
    /\ length (q_ring q) = N.to_nat (q_size q)
    /\ q_count q <= q_size q
    /\ q_head q < q_size q
    /\ q_tail q = wrap (q_size q) (q_head q + q_count q)
    /\ emap_ok (q_size q) (q_count q) (q_head q) (q_ring q) (q_emap q).

(* the suggested mod-form of the tail equation *)
Lemma inv_tail_mod : forall q, inv q -> q_tail q = (q_head q + q_count q) mod q_size q.
Proof.
  intros q (k & Hs & _ & Hc & Hh & Ht & _). rewrite Ht. symmetry. apply mod_wrap.
  - rewrite Hs. apply pow2_pos.
  - lia.
Qed.

Lemma inv_new : forall k, inv (q_new (2 ^ k)).
Proof.
  intro k. exists k. unfold q_new. cbn [q_size q_ring q_count q_head q_tail q_emap].
  pose proof (pow2_pos k) as Hp.
  repeat split.
  - apply repeat_e_length.
  - lia.
  - exact Hp.
  - unfold wrap. rewrite N.add_0_r. destruct (N.ltb_spec 0 (2 ^ k)); [reflexivity | lia].
  - intro H. discriminate H.
  - intros (j & Hj & _). lia.
Qed.

Lemma abs_new : forall k, abs (q_new (2 ^ k)) = s_new.
Proof. reflexivity. Qed.

(* ---------- consequences of the invariant ---------- *)

Lemma emap_live : forall k size count head ring m j,
  size = 2 ^ k -> emap_ok size count head ring m -> j < count ->
  emap_get m (e_pid (nth (N.to_nat (wrap size (head + j))) ring e_zero)) = Some (wrap size (head + j)).
Proof.
  intros k size count head ring m j Hs Hm Hj. apply Hm. exists j. auto.
Qed.

Lemma emap_inj : forall k size count head ring m j1 j2,
  size = 2 ^ k -> head < size -> count <= size -> emap_ok size count head ring m ->
  j1 < count -> j2 < count ->
  e_pid (nth (N.to_nat (wrap size (head + j1))) ring e_zero)
  = e_pid (nth (N.to_nat (wrap size (head + j2))) ring e_zero) -> j1 = j2.
Proof.
  intros k size count head ring m j1 j2 Hs Hh Hc Hm H1 H2 E.
  pose proof (emap_live k size count head ring m j1 Hs Hm H1) as G1.
  pose proof (emap_live k size count head ring m j2 Hs Hm H2) as G2.
  rewrite E in G1. rewrite G1 in G2. injection G2 as G2.
  clear - Hh Hc H1 H2 G2. wrap_lia.
Qed.

Lemma has_pid_winl : forall k size count head ring m p,
  size = 2 ^ k -> head < size -> count <= size -> emap_ok size count head ring m ->
  has_pid (winl size head count ring) p = match emap_get m p with Some _ => true | None => false end.
Proof.
  intros k size count head ring m p Hs Hh Hc Hm. unfold has_pid.
  destruct (emap_get m p) as [i|] eqn:E.
  - apply Hm in E. destruct E as (j & Hj & Hi & Hp).
    apply existsb_exists. exists (nth (N.to_nat j) (winl size head count ring) e_zero). split.
    + apply nth_In. rewrite winl_length. lia.
    + rewrite (winl_nth k) by assumption. rewrite <- Hi. apply N.eqb_eq. exact Hp.
  - destruct (existsb (fun e => e_pid e =? p) (winl size head count ring)) eqn:EX; [|reflexivity].
    apply existsb_exists in EX. destruct EX as (x & Hin & Hx).
    apply In_nth with (d := e_zero) in Hin. destruct Hin as (n & Hn & Hnth).
    rewrite winl_length in Hn.
    assert (Hj : N.of_nat n < count) by lia.
    pose proof (winl_nth k size head count ring (N.of_nat n) Hs Hh Hc Hj) as W.
    rewrite Nat2N.id in W. rewrite Hnth in W.
    pose proof (emap_live k size count head ring m (N.of_nat n) Hs Hm Hj) as G.
    rewrite <- W in G. apply N.eqb_eq in Hx. rewrite Hx in G. congruence.
Qed.

Lemma nodup_winl : forall k size count head ring m,
  size = 2 ^ k -> head < size -> count <= size -> emap_ok size count head ring m ->
  NoDup (map e_pid (winl size head count ring)).
Proof.
  intros k size count head ring m Hs Hh Hc Hm.
  apply (NoDup_nth _ (e_pid e_zero)). intros a b Ha Hb E.
  rewrite map_length, winl_length in Ha, Hb.
  rewrite !map_nth in E.
  assert (Ha' : N.of_nat a < count) by lia. assert (Hb' : N.of_nat b < count) by lia.
  pose proof (winl_nth k size head count ring (N.of_nat a) Hs Hh Hc Ha') as Wa.
  pose proof (winl_nth k size head count ring (N.of_nat b) Hs Hh Hc Hb') as Wb.
  rewrite Nat2N.id in Wa, Wb. rewrite Wa, Wb in E.
  pose proof (emap_inj k size count head ring m _ _ Hs Hh Hc Hm Ha' Hb' E). lia.
Qed.

(* ---------- ack ---------- *)

Definition upd (atype : N) (abytes : bytes) (e : entry) : entry :=
  mkE (e_mtype e) atype (e_pid e) (e_msg e) abytes (e_cb e).

Lemma ack_ok : forall q atype pid abytes, inv q ->
  inv (fst (ack q atype pid abytes))
  /\ abs (fst (ack q atype pid abytes)) = fst (s_ack (abs q) atype pid abytes)
  /\ snd (ack q atype pid abytes) = snd (s_ack (abs q) atype pid abytes).
Proof.
  intros q atype pid abytes Hinv. unfold ack, s_ack.
  destruct (existsb (N.eqb atype) ack_indexed_types) eqn:E1.
  - destruct q as [size count head tail ring m ping].
    destruct Hinv as (k & Hs & Hl & Hc & Hh & Ht & Hm).
    cbn [q_size q_count q_head q_tail q_ring q_emap q_ping slot] in *.
    destruct (emap_get m pid) as [i|] eqn:E2; cbn [fst snd].
    + pose proof E2 as E2'. apply Hm in E2'. destruct E2' as (j0 & Hj0 & Hi & Hp).
      assert (Hisz : i < N.of_nat (length ring)) by (rewrite Hl; clear - Hi Hh Hc Hj0; wrap_lia).
      assert (Hpid : forall x, e_pid (nth (N.to_nat x)
                        (set_slot ring (N.to_nat i) (upd atype abytes (nth (N.to_nat i) ring e_zero))) e_zero)
                      = e_pid (nth (N.to_nat x) ring e_zero)).
      { intro x. rewrite nthN_set by exact Hisz. destruct (N.eqb_spec x i) as [Ex|Ex]; [subst x|]; reflexivity. }
      split; [|split; [|reflexivity]].
      * exists k. cbn [q_size q_count q_head q_tail q_ring q_emap].
        repeat split; try assumption.
        -- rewrite set_slot_length. exact Hl.
        -- intro G. apply Hm in G. destruct G as (j & Hj & Hji & Hjp).
           exists j. repeat split; try assumption. fold (upd atype abytes (nth (N.to_nat i) ring e_zero)).
           rewrite Hpid. exact Hjp.
        -- intros (j & Hj & Hji & Hjp). apply Hm. exists j. repeat split; try assumption.
           fold (upd atype abytes (nth (N.to_nat i) ring e_zero)) in Hjp. rewrite Hpid in Hjp. exact Hjp.
      * apply abs_eq; [|reflexivity]. rewrite !abs_list. cbn [q_size q_count q_head q_ring].
        apply nthN_ext with (c := count).
        -- apply winl_length.
        -- rewrite map_length. apply winl_length.
        -- intros j Hj. rewrite nth_map_in by (rewrite winl_length; lia).
           rewrite !(winl_nth k) by assumption.
           fold (upd atype abytes (nth (N.to_nat i) ring e_zero)).
           rewrite nthN_set by exact Hisz.
           destruct (N.eqb_spec (wrap size (head + j)) i) as [Ei|Ei].
           ++ rewrite Ei. rewrite (proj2 (N.eqb_eq _ _) Hp). reflexivity.
           ++ destruct (N.eqb_spec (e_pid (nth (N.to_nat (wrap size (head + j))) ring e_zero)) pid) as [Ep|Ep]; [|reflexivity].
              exfalso. pose proof (emap_live k size count head ring m j Hs Hm Hj) as G.
              rewrite Ep in G. congruence.
    + split; [|split; [|reflexivity]].
      * exact (ex_intro _ k (conj Hs (conj Hl (conj Hc (conj Hh (conj Ht Hm)))))).
      * apply abs_eq; [|reflexivity]. rewrite !abs_list. cbn [q_size q_count q_head q_ring].
        apply nthN_ext with (c := count).
        -- apply winl_length.
        -- rewrite map_length. apply winl_length.
        -- intros j Hj. rewrite nth_map_in by (rewrite winl_length; lia).
           rewrite !(winl_nth k) by assumption.
           destruct (N.eqb_spec (e_pid (nth (N.to_nat (wrap size (head + j))) ring e_zero)) pid) as [Ep|Ep]; [|reflexivity].
           exfalso. pose proof (emap_live k size count head ring m j Hs Hm Hj) as G.
           rewrite Ep in G. congruence.
  - destruct (existsb (N.eqb atype) ack_ping_types) eqn:E3.
    + rewrite abs_ping. destruct (e_mtype (q_ping q) =? T_PINGREQ) eqn:E4; cbn [fst snd].
      * destruct q as [size count head tail ring m ping]. split; [exact Hinv | split; reflexivity].
      * auto.
    + cbn [fst snd]. auto.
Qed.

(* ---------- grow ---------- *)

Definition build (l : list (N * entry)) (m : list (N * N)) : list (N * N) :=
  fold_left (fun m ie => emap_set m (e_pid (snd ie)) (fst ie)) l m.

Lemma build_seq : forall live s m p i, NoDup (map e_pid live) ->
  (emap_get (build (combine (map N.of_nat (seq s (length live))) live) m) p = Some i <->
   (exists j, (j < length live)%nat /\ i = N.of_nat (s + j) /\ e_pid (nth j live e_zero) = p)
   \/ ((forall e, In e live -> e_pid e <> p) /\ emap_get m p = Some i)).
Proof.
  induction live as [|a live IH]; intros s m p i Hnd.
  - cbn. split.
    + intro H. right. split; [intros e []|exact H].
    + intros [(j & Hj & _)|[_ H]]; [lia|exact H].
  - cbn [length seq map combine build fold_left fst snd].
    fold (build (combine (map N.of_nat (seq (S s) (length live))) live) (emap_set m (e_pid a) (N.of_nat s))).
    cbn [map] in Hnd. apply NoDup_cons_iff in Hnd. destruct Hnd as [Hnin Hnd].
    rewrite (IH (S s) _ p i Hnd). rewrite emap_get_set. split.
    + intros [(j & Hj & Hi & Hp)|[Hall Hg]].
      * left. exists (S j). cbn [nth]. repeat split; [lia|lia|exact Hp].
      * destruct (N.eqb_spec (e_pid a) p) as [E|E].
        -- left. exists 0%nat. cbn [nth]. injection Hg as Hg. repeat split; [lia|lia|exact E].
        -- right. split; [|exact Hg]. intros e [He|He]; [subst e; exact E|apply Hall; exact He].
    + intros [(j & Hj & Hi & Hp)|[Hall Hg]].
      * destruct j as [|j]; cbn [nth] in Hp.
        -- right. split.
           ++ intros e He Hep. apply Hnin. rewrite Hp, <- Hep. apply in_map. exact He.
           ++ rewrite (proj2 (N.eqb_eq _ _) Hp). f_equal. lia.
        -- left. exists j. repeat split; [lia|lia|exact Hp].
      * right. split.
        -- intros e He. apply Hall. right. exact He.
        -- destruct (N.eqb_spec (e_pid a) p) as [E|E]; [|exact Hg].
           exfalso. apply (Hall a); [left; reflexivity|exact E].
Qed.

Lemma grow_ok : forall q, inv q -> full q = true ->
  inv (grow q) /\ abs (grow q) = abs q /\ q_count (grow q) < q_size (grow q).
Proof.
  intros q Hinv Hf.
  destruct q as [size count head tail ring m ping].
  destruct Hinv as (k & Hs & Hl & Hc & Hh & Ht & Hm).
  unfold full in Hf. cbn [q_size q_count q_head q_tail q_ring q_emap q_ping] in *.
  apply N.eqb_eq in Hf. subst count.
  assert (Htl : tail = head) by (clear - Ht Hh; wrap_lia). clear Ht. subst tail.
  unfold grow. cbn [q_size q_count q_head q_tail q_ring q_emap q_ping].
  rewrite N.ltb_irrefl.
  set (live := skipn (N.to_nat head) ring ++ firstn (N.to_nat head) ring).
  assert (Hll : length live = N.to_nat size).
  { unfold live. rewrite app_length, skipn_length, firstn_length. lia. }
  assert (Hnth : forall j, j < size ->
            nth (N.to_nat j) live e_zero = nth (N.to_nat (wrap size (head + j))) ring e_zero).
  { intros j Hj. unfold live. rewrite rot_nth by lia. f_equal. rewrite Hl.
    destruct (Nat.ltb_spec (N.to_nat head + N.to_nat j) (N.to_nat size)); clear - H Hh Hj; wrap_lia. }
  assert (Hlw : live = winl size head size ring).
  { apply nthN_ext with (c := size); [exact Hll|apply winl_length|].
    intros j Hj. rewrite (winl_nth k) by (auto; lia). apply Hnth. exact Hj. }
  set (zs := repeat_e (N.to_nat (size * 2) - length live)).
  assert (Hsz2 : size * 2 = 2 ^ (k + 1)).
  { rewrite N.pow_add_r, N.pow_1_r. rewrite Hs. reflexivity. }
  pose proof (pow2_pos k) as Hpos. rewrite <- Hs in Hpos.
  assert (Hnth2 : forall j, j < size ->
            nth (N.to_nat (wrap (size * 2) (0 + j))) (live ++ zs) e_zero = nth (N.to_nat j) live e_zero).
  { intros j Hj. replace (wrap (size * 2) (0 + j)) with j by (clear - Hj; wrap_lia).
    apply app_nth1. lia. }
  split; [|split].
  - exists (k + 1). cbn [q_size q_count q_head q_tail q_ring q_emap q_ping].
    split; [exact Hsz2|]. split.
    { rewrite app_length. unfold zs. rewrite repeat_e_length. lia. }
    split; [lia|]. split; [lia|]. split; [clear - Hpos; wrap_lia|].
    rewrite firstn_app_exact by exact Hll.
    rewrite <- Hll.
    fold (build (combine (map N.of_nat (seq 0 (length live))) live) []).
    assert (Hnd : NoDup (map e_pid live)).
    { rewrite Hlw. apply (nodup_winl k size size head ring m); auto; lia. }
    intros p i. rewrite (build_seq live 0 [] p i Hnd). split.
    + intros [(j & Hj & Hi & Hp)|[_ Hg]]; [|discriminate Hg].
      exists (N.of_nat j). split; [lia|]. split; [clear - Hj Hi Hll; wrap_lia|].
      subst i. cbn [Nat.add]. rewrite Nat2N.id. rewrite app_nth1 by exact Hj. exact Hp.
    + intros (j & Hj & Hi & Hp). left. exists (N.to_nat j). split; [lia|]. split.
      * clear - Hj Hi. wrap_lia.
      * rewrite Hi in Hp. rewrite Hnth2 in Hp by exact Hj. exact Hp.
  - apply abs_ext; [|reflexivity]. rewrite !abs_list. cbn [q_size q_count q_head q_ring].
    apply nthN_ext with (c := size); [apply winl_length|apply winl_length|].
    intros j Hj. rewrite (winl_nth (k + 1)) by (auto; lia). rewrite (winl_nth k) by (auto; lia).
    rewrite Hnth2 by exact Hj. apply Hnth. exact Hj.
  - cbn [q_size q_count]. lia.
Qed.

(* ---------- insert / wait ---------- *)

Definition insert_core (q : ackq) (e : entry) : ackq :=
  match emap_get (q_emap q) (e_pid e) with
  | Some _ => q
  | None =>
      mkQ (q_size q) (q_count q + 1) (q_head q) (increment q (q_tail q))
          (set_slot (q_ring q) (N.to_nat (q_tail q)) e)
          (emap_set (q_emap q) (e_pid e) (q_tail q)) (q_ping q)
  end.

Lemma insert_unfold : forall q e, insert q e = insert_core (if full q then grow q else q) e.
Proof. reflexivity. Qed.

Lemma insert_core_ok : forall q e, inv q -> q_count q < q_size q ->
  inv (insert_core q e)
  /\ s_list (abs (insert_core q e))
     = (if has_pid (s_list (abs q)) (e_pid e) then s_list (abs q) else s_list (abs q) ++ [e])
  /\ q_ping (insert_core q e) = q_ping q.
Proof.
  intros q e Hinv Hlt.
  destruct q as [size count head tail ring m ping].
  pose proof Hinv as (k & Hs & Hl & Hc & Hh & Ht & Hm).
  cbn [q_size q_count q_head q_tail q_ring q_emap q_ping] in *.
  rewrite abs_list. cbn [q_size q_count q_head q_ring].
  rewrite (has_pid_winl k size count head ring m) by assumption.
  unfold insert_core. cbn [q_size q_count q_head q_tail q_ring q_emap q_ping].
  destruct (emap_get m (e_pid e)) as [i|] eqn:EG.
  - split; [exact Hinv|]. split; reflexivity.
  - assert (Htsz : tail < N.of_nat (length ring)) by (rewrite Hl; clear - Ht Hh Hlt; wrap_lia).
    assert (Hinc : increment (mkQ size count head tail ring m ping) tail = wrap size (head + (count + 1))).
    { unfold increment, index. cbn [q_size]. rewrite (land_wrap k) by (auto; clear - Ht Hh Hlt; wrap_lia).
      clear - Ht Hh Hlt. wrap_lia. }
    rewrite Hinc.
    assert (Hfresh : forall j, j < count -> e_pid (nth (N.to_nat (wrap size (head + j))) ring e_zero) <> e_pid e).
    { intros j Hj E. pose proof (emap_live k size count head ring m j Hs Hm Hj) as G.
      rewrite E in G. congruence. }
    split; [|split; [|reflexivity]].
    + exists k. cbn [q_size q_count q_head q_tail q_ring q_emap q_ping].
      split; [exact Hs|]. split; [rewrite set_slot_length; exact Hl|].
      split; [lia|]. split; [exact Hh|]. split; [reflexivity|].
      intros p i. rewrite emap_get_set. split.
      * destruct (N.eqb_spec (e_pid e) p) as [E|E].
        -- intro G. injection G as G. subst i. exists count. split; [lia|]. split; [exact Ht|].
           rewrite nthN_set by exact Htsz. rewrite N.eqb_refl. exact E.
        -- intro G. apply Hm in G. destruct G as (j & Hj & Hi & Hp). exists j. split; [lia|]. split; [exact Hi|].
           rewrite nthN_set by exact Htsz.
           destruct (N.eqb_spec i tail) as [Ei|Ei]; [|exact Hp].
           exfalso. clear - Ei Hi Ht Hj Hh Hlt. wrap_lia.
      * intros (j & Hj & Hi & Hp). rewrite nthN_set in Hp by exact Htsz.
        destruct (N.eqb_spec i tail) as [Ei|Ei].
        -- rewrite (proj2 (N.eqb_eq _ _) Hp). f_equal. symmetry. exact Ei.
        -- assert (Hj' : j < count) by (clear - Ei Hi Ht Hj Hh Hlt; wrap_lia).
           destruct (N.eqb_spec (e_pid e) p) as [E|E].
           ++ exfalso. apply (Hfresh j Hj'). rewrite <- Hi. congruence.
           ++ apply Hm. exists j. auto.
    + rewrite abs_list. cbn [q_size q_count q_head q_ring].
      apply nthN_ext with (c := count + 1).
      * apply winl_length.
      * rewrite app_length, winl_length. cbn [length]. lia.
      * intros j Hj. rewrite (winl_nth k) by (auto; lia).
        rewrite nthN_set by exact Htsz.
        destruct (N.ltb_spec j count) as [Hjc|Hjc].
        -- rewrite app_nth1 by (rewrite winl_length; lia).
           rewrite (winl_nth k) by assumption.
           destruct (N.eqb_spec (wrap size (head + j)) tail) as [Ei|Ei]; [|reflexivity].
           exfalso. clear - Ei Ht Hjc Hh Hlt. wrap_lia.
        -- assert (j = count) by lia. subst j.
           rewrite app_nth2 by (rewrite winl_length; lia). rewrite winl_length.
           rewrite Nat.sub_diag. cbn [nth]. rewrite <- Ht. rewrite N.eqb_refl. reflexivity.
Qed.

Lemma insert_ok : forall q e, inv q ->
  inv (insert q e)
  /\ s_list (abs (insert q e))
     = (if has_pid (s_list (abs q)) (e_pid e) then s_list (abs q) else s_list (abs q) ++ [e])
  /\ q_ping (insert q e) = q_ping q.
Proof.
  intros q e Hinv. rewrite insert_unfold. destruct (full q) eqn:EF.
  - destruct (grow_ok q Hinv EF) as (Hi1 & Ha1 & Hc1).
    destruct (insert_core_ok (grow q) e Hi1 Hc1) as (R1 & R2 & R3).
    rewrite Ha1 in R2. split; [exact R1|]. split; [exact R2|]. rewrite R3. reflexivity.
  - apply insert_core_ok; [exact Hinv|].
    destruct Hinv as (k & Hs & Hl & Hc & Hh & Ht & Hm). unfold full in EF. lia.
Qed.

Lemma wait_ok : forall q m qo p c b, inv q ->
  inv (fst (wait q m qo p c b))
  /\ abs (fst (wait q m qo p c b)) = fst (s_wait (abs q) m qo p c b)
  /\ snd (wait q m qo p c b) = snd (s_wait (abs q) m qo p c b).
Proof.
  intros q m qo p c b Hinv. unfold wait, s_wait.
  assert (Hins : inv (insert q (mkE m 0 p b [] c)) /\
                 abs (insert q (mkE m 0 p b [] c))
                 = mkS (if has_pid (s_list (abs q)) p then s_list (abs q) else s_list (abs q) ++ [mkE m 0 p b [] c])
                       (s_ping (abs q))).
  { destruct (insert_ok q (mkE m 0 p b [] c) Hinv) as (R1 & R2 & R3). split; [exact R1|].
    apply abs_eq; [exact R2|]. rewrite R3. reflexivity. }
  destruct Hins as [Hi1 Hi2].
  destruct (m =? T_PUBLISH) eqn:E1.
  - destruct (qo =? 0) eqn:E2; cbn [fst snd]; auto.
  - destruct ((m =? T_SUBSCRIBE) || (m =? T_UNSUBSCRIBE)) eqn:E2; cbn [fst snd]; auto.
    destruct (m =? T_PINGREQ) eqn:E3; cbn [fst snd]; auto.
Qed.

(* ---------- remove_head / pop_loop / acked ---------- *)

Lemma abs_empty : forall q, q_count q = 0 -> s_list (abs q) = [].
Proof. intros q H. rewrite abs_list. unfold winl. rewrite H. reflexivity. Qed.

Lemma remove_head_ok : forall q, inv q -> 0 < q_count q ->
  inv (remove_head q)
  /\ s_list (abs q) = slot q (q_head q) :: s_list (abs (remove_head q))
  /\ q_ping (remove_head q) = q_ping q.
Proof.
  intros q Hinv Hpos.
  destruct q as [size count head tail ring m ping].
  destruct Hinv as (k & Hs & Hl & Hc & Hh & Ht & Hm).
  cbn [q_size q_count q_head q_tail q_ring q_emap q_ping] in *.
  unfold remove_head, slot. cbn [q_size q_count q_head q_tail q_ring q_emap q_ping].
  assert (Hhsz : head < N.of_nat (length ring)) by (rewrite Hl; lia).
  assert (Hinc : increment (mkQ size count head tail ring m ping) head = wrap size (head + 1)).
  { unfold increment, index. cbn [q_size]. apply (land_wrap k); auto. lia. }
  rewrite Hinc.
  assert (Hh' : wrap size (head + 1) < size) by (clear - Hh; wrap_lia).
  split; [|split; [|reflexivity]].
  - exists k. cbn [q_size q_count q_head q_tail q_ring q_emap q_ping].
    split; [exact Hs|]. split; [rewrite set_slot_length; exact Hl|].
    split; [lia|]. split; [exact Hh'|]. split; [clear - Ht Hh Hc Hpos; wrap_lia|].
    intros p i. rewrite emap_get_del. split.
    + destruct (N.eqb_spec (e_pid (nth (N.to_nat head) ring e_zero)) p) as [E|E]; [intro G; discriminate G|].
      intro G. apply Hm in G. destruct G as (j & Hj & Hi & Hp).
      assert (Hj0 : j <> 0).
      { intro J. subst j. apply E. rewrite <- Hp. subst i. f_equal. f_equal. f_equal. clear - Hh. wrap_lia. }
      exists (j - 1). split; [lia|]. split; [clear - Hi Hj Hj0 Hh Hc; wrap_lia|].
      rewrite nthN_set by exact Hhsz.
      destruct (N.eqb_spec i head) as [Ei|Ei]; [|exact Hp].
      exfalso. clear - Ei Hi Hj Hj0 Hh Hc. wrap_lia.
    + intros (j & Hj & Hi & Hp). rewrite nthN_set in Hp by exact Hhsz.
      assert (Hi' : i = wrap size (head + (j + 1))) by (clear - Hi Hj Hh Hc Hpos; wrap_lia).
      assert (Ei : i <> head) by (clear - Hi' Hj Hh Hc Hpos; wrap_lia).
      destruct (N.eqb_spec i head) as [Ei'|_]; [contradiction|].
      assert (G : emap_get m p = Some i).
      { apply Hm. exists (j + 1). split; [lia|]. auto. }
      destruct (N.eqb_spec (e_pid (nth (N.to_nat head) ring e_zero)) p) as [E|E]; [|exact G].
      exfalso. assert (G0 : emap_get m p = Some head).
      { apply Hm. exists 0. split; [lia|]. split; [clear - Hh; wrap_lia|exact E]. }
      congruence.
  - rewrite !abs_list. cbn [q_size q_count q_head q_ring].
    apply nthN_ext with (c := count).
    + apply winl_length.
    + cbn [length]. rewrite winl_length. lia.
    + intros j Hj. rewrite (winl_nth k) by assumption.
      destruct (N.eqb_spec j 0) as [J|J].
      * subst j. cbn [N.to_nat nth]. f_equal. f_equal. clear - Hh. wrap_lia.
      * replace (N.to_nat j) with (S (N.to_nat (j - 1))) by lia. cbn [nth].
        rewrite (winl_nth k) by (auto; lia).
        rewrite nthN_set by exact Hhsz.
        assert (Hw : wrap size (wrap size (head + 1) + (j - 1)) = wrap size (head + j))
          by (clear - J Hj Hh Hc; wrap_lia).
        rewrite Hw.
        destruct (N.eqb_spec (wrap size (head + j)) head) as [Ei|Ei]; [|reflexivity].
        exfalso. clear - Ei J Hj Hh Hc. wrap_lia.
Qed.

Lemma pop_loop_ok : forall fuel q acc, inv q -> (N.to_nat (q_count q) <= fuel)%nat ->
  inv (fst (pop_loop fuel q acc))
  /\ s_list (abs (fst (pop_loop fuel q acc))) = snd (release (s_list (abs q)))
  /\ snd (pop_loop fuel q acc) = acc ++ fst (release (s_list (abs q)))
  /\ q_ping (fst (pop_loop fuel q acc)) = q_ping q.
Proof.
  induction fuel as [|f IH]; intros q acc Hinv Hfuel.
  - cbn [pop_loop fst snd]. rewrite (abs_empty q) by lia. cbn [release fst snd].
    rewrite app_nil_r. auto.
  - cbn [pop_loop]. unfold empty. destruct (N.eqb_spec (q_count q) 0) as [E0|E0].
    + cbn [fst snd]. rewrite (abs_empty q) by exact E0. cbn [release fst snd].
      rewrite app_nil_r. auto.
    + assert (Hpos : 0 < q_count q) by lia.
      destruct (remove_head_ok q Hinv Hpos) as (Hi1 & Hl1 & Hp1).
      rewrite Hl1. cbn [release].
      destruct (terminal (e_state (slot q (q_head q)))) eqn:ET.
      * assert (Hf1 : (N.to_nat (q_count (remove_head q)) <= f)%nat).
        { unfold remove_head. cbn [q_count]. lia. }
        destruct (IH (remove_head q) (acc ++ [slot q (q_head q)]) Hi1 Hf1) as (R1 & R2 & R3 & R4).
        destruct (release (s_list (abs (remove_head q)))) as [d rest] eqn:ER.
        cbn [fst snd] in *. split; [exact R1|]. split; [exact R2|]. split.
        -- rewrite R3. rewrite <- app_assoc. reflexivity.
        -- rewrite R4. exact Hp1.
      * cbn [fst snd]. rewrite app_nil_r. rewrite <- Hl1. auto.
Qed.

Lemma acked_ok : forall q, inv q ->
  inv (fst (acked q))
  /\ abs (fst (acked q)) = fst (s_acked (abs q))
  /\ snd (acked q) = snd (s_acked (abs q)).
Proof.
  intros q Hinv. unfold acked, s_acked. rewrite abs_ping.
  destruct (e_state (q_ping q) =? T_PINGRESP) eqn:EP.
  - cbv beta iota.
    set (q1 := mkQ (q_size q) (q_count q) (q_head q) (q_tail q) (q_ring q) (q_emap q) e_zero).
    assert (Hi1 : inv q1) by exact Hinv.
    assert (Hl1 : s_list (abs q1) = s_list (abs q)) by reflexivity.
    destruct (pop_loop_ok (N.to_nat (q_count q1)) q1 [q_ping q] Hi1 (le_n _)) as (R1 & R2 & R3 & R4).
    rewrite Hl1 in R2, R3.
    destruct (release (s_list (abs q))) as [d rest] eqn:ER. cbn [fst snd] in *.
    split; [exact R1|]. split; [|exact R3].
    apply abs_eq; [exact R2|exact R4].
  - cbv beta iota.
    destruct (pop_loop_ok (N.to_nat (q_count q)) q [] Hinv (le_n _)) as (R1 & R2 & R3 & R4).
    destruct (release (s_list (abs q))) as [d rest] eqn:ER. cbn [fst snd] in *.
    split; [exact R1|]. split; [|exact R3].
    apply abs_eq; [exact R2|exact R4].
Qed.

(* ---------- one step, histories ---------- *)

Lemma step_ok : forall q o, inv q ->
  inv (fst (q_apply q o))
  /\ abs (fst (q_apply q o)) = fst (s_apply (abs q) o)
  /\ snd (q_apply q o) = snd (s_apply (abs q) o).
Proof.
  intros q o Hinv. destruct o as [m qo p c b|a p b|]; cbn [q_apply s_apply].
  - destruct (wait_ok q m qo p c b Hinv) as (R1 & R2 & R3).
    destruct (wait q m qo p c b) as [q' r]. destruct (s_wait (abs q) m qo p c b) as [s' r'].
    cbn [fst snd] in *. subst. auto.
  - destruct (ack_ok q a p b Hinv) as (R1 & R2 & R3).
    destruct (ack q a p b) as [q' r]. destruct (s_ack (abs q) a p b) as [s' r'].
    cbn [fst snd] in *. subst. auto.
  - destruct (acked_ok q Hinv) as (R1 & R2 & R3).
    destruct (acked q) as [q' r]. destruct (s_acked (abs q)) as [s' r'].
    cbn [fst snd] in *. subst. auto.
Qed.

Lemma outs_ok : forall h q, inv q -> q_outs q h = s_outs (abs q) h.
Proof.
  induction h as [|o h IH]; intros q Hinv; cbn [q_outs s_outs].
  - reflexivity.
  - destruct (step_ok q o Hinv) as (R1 & R2 & R3).
    destruct (q_apply q o) as [q' x]. destruct (s_apply (abs q) o) as [s' x'].
    cbn [fst snd] in *. subst. f_equal. apply IH. exact R1.
Qed.

(* the state reached by a history satisfies the invariant and abstracts to the list's state *)
Lemma reach_ok : forall h q, inv q ->
  inv (fold_left (fun q o => fst (q_apply q o)) h q)
  /\ abs (fold_left (fun q o => fst (q_apply q o)) h q)
     = fold_left (fun s o => fst (s_apply s o)) h (abs q).
Proof.
  induction h as [|o h IH]; intros q Hinv; cbn [fold_left].
  - auto.
  - destruct (step_ok q o Hinv) as (R1 & R2 & _).
    destruct (IH _ R1) as [I1 I2]. split; [exact I1|]. rewrite I2, R2. reflexivity.
Qed.

Lemma refines : C13_refines.
Proof.
  intros k h. rewrite (outs_ok h _ (inv_new k)). rewrite abs_new. reflexivity.
Qed.

Print Assumptions refines.
