(* Executable model of sessions/ackqueue.go: a growing ring of in-flight requests with an index
   from packet identifier to slot, plus the single PINGREQ cell.  The ring, the cursors and the
   index are modelled as they are in the Go code (including the two-part copy of grow and the
   re-indexing); Ackq/Spec.v is the FIFO list it is proved to implement. *)
From Base Require Import Tactics Bytes.
From Gen Require Import Tables.
Open Scope N_scope.

Record entry := mkE {
  e_mtype : N;      (* type of the waiting request *)
  e_state : N;      (* type of the last acknowledgement, RESERVED (0) before any *)
  e_pid : N;
  e_msg : bytes;    (* copy of the request's bytes *)
  e_ack : bytes;    (* copy of the last acknowledgement's bytes *)
  e_cb : N          (* identity of the completion callback *)
}.
Definition e_zero : entry := mkE 0 0 0 [] [] 0.

Record ackq := mkQ {
  q_size : N; q_count : N; q_head : N; q_tail : N;
  q_ring : list entry;            (* length = size *)
  q_emap : list (N * N);          (* packet id -> slot index *)
  q_ping : entry
}.

Fixpoint repeat_e (n : nat) : list entry := match n with O => [] | S k => e_zero :: repeat_e k end.

(* newAckqueue(n) for a power of two n (defaultQueueSize) *)
Definition q_new (n : N) : ackq := mkQ n 0 0 0 (repeat_e (N.to_nat n)) [] e_zero.

Definition index (q : ackq) (n : N) : N := N.land n (q_size q - 1).
Definition increment (q : ackq) (n : N) : N := index q (n + 1).
Definition full (q : ackq) : bool := q_count q =? q_size q.
Definition empty (q : ackq) : bool := q_count q =? 0.

Definition slot (q : ackq) (i : N) : entry := nth (N.to_nat i) (q_ring q) e_zero.
Fixpoint set_slot (l : list entry) (i : nat) (e : entry) : list entry :=
  match l, i with
  | [], _ => []
  | _ :: r, O => e :: r
  | x :: r, S j => x :: set_slot r j e
  end.

Definition emap_get (m : list (N * N)) (k : N) : option N :=
  match find (fun kv => fst kv =? k) m with Some kv => Some (snd kv) | None => None end.
Definition emap_del (m : list (N * N)) (k : N) : list (N * N) := filter (fun kv => negb (fst kv =? k)) m.
Definition emap_set (m : list (N * N)) (k v : N) : list (N * N) := (k, v) :: emap_del m k.

(* grow: double the ring, copy ring[head:] then ring[:tail], re-index *)
Definition grow (q : ackq) : ackq :=
  let size := q_size q in
  let newsize := size * 2 in
  let live := if q_head q <? q_tail q
              then firstn (N.to_nat (q_tail q - q_head q)) (skipn (N.to_nat (q_head q)) (q_ring q))
              else skipn (N.to_nat (q_head q)) (q_ring q) ++ firstn (N.to_nat (q_tail q)) (q_ring q) in
  let newring := live ++ repeat_e (N.to_nat newsize - length live) in
  let tail := q_count q in
  let emap := fold_left (fun m ie => emap_set m (e_pid (snd ie)) (fst ie))
                (combine (map N.of_nat (seq 0 (N.to_nat tail))) (firstn (N.to_nat tail) newring)) [] in
  mkQ newsize (q_count q) 0 tail newring emap (q_ping q).

(* insert(pktid, msg, onComplete); the entry's bytes always encode (well-formed request) *)
Definition insert (q : ackq) (e : entry) : ackq :=
  let q := if full q then grow q else q in
  match emap_get (q_emap q) (e_pid e) with
  | Some _ => q                                         (* duplicate identifier: nothing is stored *)
  | None =>
      mkQ (q_size q) (q_count q + 1) (q_head q) (increment q (q_tail q))
          (set_slot (q_ring q) (N.to_nat (q_tail q)) e)
          (emap_set (q_emap q) (e_pid e) (q_tail q)) (q_ping q)
  end.

(* Wait(msg, onComplete): kind = message type; qos only matters for PUBLISH.  false = errWaitMessage *)
Definition wait (q : ackq) (mtype qos pid cb : N) (msg : bytes) : ackq * bool :=
  if mtype =? T_PUBLISH then
    if qos =? 0 then (q, false) else (insert q (mkE mtype 0 pid msg [] cb), true)
  else if (mtype =? T_SUBSCRIBE) || (mtype =? T_UNSUBSCRIBE) then (insert q (mkE mtype 0 pid msg [] cb), true)
  else if mtype =? T_PINGREQ then
    (mkQ (q_size q) (q_count q) (q_head q) (q_tail q) (q_ring q) (q_emap q) (mkE T_PINGREQ 0 0 msg [] cb), true)
  else (q, false).

(* Ack(msg): false = errAckMessage *)
Definition ack (q : ackq) (atype pid : N) (abytes : bytes) : ackq * bool :=
  if existsb (N.eqb atype) ack_indexed_types then
    match emap_get (q_emap q) pid with
    | Some i =>
        let e := slot q i in
        (mkQ (q_size q) (q_count q) (q_head q) (q_tail q)
             (set_slot (q_ring q) (N.to_nat i) (mkE (e_mtype e) atype (e_pid e) (e_msg e) abytes (e_cb e)))
             (q_emap q) (q_ping q), true)
    | None => (q, true)
    end
  else if existsb (N.eqb atype) ack_ping_types then
    if e_mtype (q_ping q) =? T_PINGREQ then
      let p := q_ping q in
      (mkQ (q_size q) (q_count q) (q_head q) (q_tail q) (q_ring q) (q_emap q)
           (mkE (e_mtype p) T_PINGRESP (e_pid p) (e_msg p) abytes (e_cb p)), true)
    else (q, true)
  else (q, false).

Definition terminal (s : N) : bool := existsb (N.eqb s) acked_terminal_states.

Definition remove_head (q : ackq) : ackq :=
  let it := slot q (q_head q) in
  mkQ (q_size q) (q_count q - 1) (increment q (q_head q)) (q_tail q)
      (set_slot (q_ring q) (N.to_nat (q_head q)) e_zero) (emap_del (q_emap q) (e_pid it)) (q_ping q).

(* the FORNOTEMPTY loop: fuel = count *)
Fixpoint pop_loop (fuel : nat) (q : ackq) (acc : list entry) : ackq * list entry :=
  match fuel with
  | O => (q, acc)
  | S f =>
      if empty q then (q, acc)
      else if terminal (e_state (slot q (q_head q)))
           then pop_loop f (remove_head q) (acc ++ [slot q (q_head q)])
           else (q, acc)
  end.

(* Acked() *)
Definition acked (q : ackq) : ackq * list entry :=
  let '(q, done) :=
    if e_state (q_ping q) =? T_PINGRESP
    then (mkQ (q_size q) (q_count q) (q_head q) (q_tail q) (q_ring q) (q_emap q) e_zero, [q_ping q])
    else (q, []) in
  pop_loop (N.to_nat (q_count q)) q done.

(* ---------- scripts ---------- *)

Definition take (n : N) (l : bytes) : bytes := firstn (N.to_nat n) l.
Definition enc_entry (e : entry) : list N :=
  [e_mtype e; e_state e; e_pid e; e_cb e; len (e_msg e)] ++ e_msg e ++ [len (e_ack e)] ++ e_ack e.

Definition q_step (q : ackq) (op : list N) : ackq * list N :=
  match op with
  | 1 :: mtype :: qos :: pid :: cb :: msg =>
      let '(q', ok) := wait q mtype qos pid cb msg in (q', [if ok then 0 else 1])
  | 2 :: atype :: pid :: _ :: abytes =>     (* the fourth number is the harness's tag for building the ack *)
      let '(q', ok) := ack q atype pid abytes in (q', [if ok then 0 else 1])
  | [3] => let '(q', l) := acked q in (q', N.of_nat (length l) :: flat_map enc_entry l)
  | [4] => (q, [q_size q; q_count q; q_head q; q_tail q])
  | _ => (q, [99])
  end.

Fixpoint q_run (q : ackq) (ops : list (list N)) : list (list N) :=
  match ops with
  | [] => []
  | op :: r => let '(q', o) := q_step q op in o :: q_run q' r
  end.

Definition run_ackq (size : N) (ops : list (list N)) : list (list N) := q_run (q_new size) ops.
