(* The specification of an acknowledgement queue: a FIFO list of in-flight requests keyed by
   packet identifier, plus the statements of property C13. *)
From Base Require Import Tactics Bytes.
From Gen Require Import Tables.
From Ackq Require Import Model.
Open Scope N_scope.

Record aspec := mkS { s_list : list entry; s_ping : entry }.
Definition s_new : aspec := mkS [] e_zero.

Definition has_pid (l : list entry) (p : N) : bool := existsb (fun e => e_pid e =? p) l.

Definition s_wait (s : aspec) (mtype qos pid cb : N) (msg : bytes) : aspec * bool :=
  let reg := mkS (if has_pid (s_list s) pid then s_list s else s_list s ++ [mkE mtype 0 pid msg [] cb]) (s_ping s) in
  if mtype =? T_PUBLISH then (if qos =? 0 then (s, false) else (reg, true))
  else if (mtype =? T_SUBSCRIBE) || (mtype =? T_UNSUBSCRIBE) then (reg, true)
  else if mtype =? T_PINGREQ then (mkS (s_list s) (mkE T_PINGREQ 0 0 msg [] cb), true)
  else (s, false).

Definition s_ack (s : aspec) (atype pid : N) (abytes : bytes) : aspec * bool :=
  if existsb (N.eqb atype) ack_indexed_types then
    (mkS (map (fun e => if e_pid e =? pid then mkE (e_mtype e) atype (e_pid e) (e_msg e) abytes (e_cb e) else e) (s_list s))
         (s_ping s), true)
  else if existsb (N.eqb atype) ack_ping_types then
    if e_mtype (s_ping s) =? T_PINGREQ then
      let p := s_ping s in (mkS (s_list s) (mkE (e_mtype p) T_PINGRESP (e_pid p) (e_msg p) abytes (e_cb p)), true)
    else (s, true)
  else (s, false).

(* the longest prefix of entries in a terminal state is released *)
Fixpoint release (l : list entry) : list entry * list entry :=
  match l with
  | [] => ([], [])
  | e :: r => if terminal (e_state e) then let '(d, rest) := release r in (e :: d, rest) else ([], l)
  end.

Definition s_acked (s : aspec) : aspec * list entry :=
  let '(ping, pd) := if e_state (s_ping s) =? T_PINGRESP then (e_zero, [s_ping s]) else (s_ping s, []) in
  let '(d, rest) := release (s_list s) in
  (mkS rest ping, pd ++ d).

(* ---------- typed operations and histories ---------- *)

Inductive qop :=
| QWait (mtype qos pid cb : N) (msg : bytes)
| QAck (atype pid : N) (abytes : bytes)
| QAcked.

Inductive qout := OutBool (b : bool) | OutList (l : list entry).

Definition q_apply (q : ackq) (o : qop) : ackq * qout :=
  match o with
  | QWait m qo p c b => let '(q', r) := wait q m qo p c b in (q', OutBool r)
  | QAck a p b => let '(q', r) := ack q a p b in (q', OutBool r)
  | QAcked => let '(q', l) := acked q in (q', OutList l)
  end.
Definition s_apply (s : aspec) (o : qop) : aspec * qout :=
  match o with
  | QWait m qo p c b => let '(s', r) := s_wait s m qo p c b in (s', OutBool r)
  | QAck a p b => let '(s', r) := s_ack s a p b in (s', OutBool r)
  | QAcked => let '(s', l) := s_acked s in (s', OutList l)
  end.

Fixpoint q_outs (q : ackq) (h : list qop) : list qout :=
  match h with [] => [] | o :: r => let '(q', x) := q_apply q o in x :: q_outs q' r end.
Fixpoint s_outs (s : aspec) (h : list qop) : list qout :=
  match h with [] => [] | o :: r => let '(s', x) := s_apply s o in x :: s_outs s' r end.

(* the abstraction: the count slots from head, modulo size *)
Definition abs (q : ackq) : aspec :=
  mkS (map (fun k => slot q (index q (q_head q + N.of_nat k))) (seq 0 (N.to_nat (q_count q)))) (q_ping q).

(* ---------- statements of C13 ---------- *)

(* refinement: for every initial capacity 2^k and every history of register / acknowledge /
   collect operations - any number of in-flight entries, any order of acknowledgements - the ring
   returns exactly what the FIFO list returns *)
Definition C13_refines : Prop := forall k h,
  q_outs (q_new (2 ^ k)) h = s_outs s_new h.

(* consequences, stated on what the queue hands back over a whole history *)
Fixpoint handed_back (outs : list qout) : list entry :=
  match outs with
  | [] => []
  | OutList l :: r => filter (fun e => negb (e_mtype e =? T_PINGREQ)) l ++ handed_back r
  | _ :: r => handed_back r
  end.
(* the registrations the queue accepted, in order (a duplicate identifier is not stored) *)
Fixpoint registered (s : aspec) (h : list qop) : list entry :=
  match h with
  | [] => []
  | o :: r =>
      let here := match o with
                  | QWait m qo p c b =>
                      if ((m =? T_PUBLISH) && negb (qo =? 0) || (m =? T_SUBSCRIBE) || (m =? T_UNSUBSCRIBE))
                         && negb (has_pid (s_list s) p)
                      then [mkE m 0 p b [] c] else []
                  | _ => []
                  end in
      here ++ registered (fst (s_apply s o)) r
  end.

Definition same_request (a b : entry) : Prop :=
  e_mtype a = e_mtype b /\ e_pid a = e_pid b /\ e_msg a = e_msg b /\ e_cb a = e_cb b.

(* FIFO: what is handed back over any history is, request for request (type, identifier, bytes,
   callback), a PREFIX of what was registered: at most once each, in registration order, and an
   entry only after every earlier one *)
Definition C13_fifo_prefix : Prop := forall k h,
  let hb := handed_back (q_outs (q_new (2 ^ k)) h) in
  let rg := registered s_new h in
  (length hb <= length rg)%nat /\ Forall2 same_request hb (firstn (length hb) rg).

(* released only in a terminal state, carrying the bytes of an acknowledgement that really arrived
   with its identifier *)
Definition C13_terminal_ack : Prop := forall k h e,
  In e (handed_back (q_outs (q_new (2 ^ k)) h)) ->
  terminal (e_state e) = true /\
  exists pre post, h = pre ++ QAck (e_state e) (e_pid e) (e_ack e) :: post.

(* an acknowledgement for an unknown identifier changes nothing *)
Definition C13_unknown_ack : Prop := forall k h atype pid abytes,
  let q := fold_left (fun q o => fst (q_apply q o)) h (q_new (2 ^ k)) in
  has_pid (s_list (abs q)) pid = false ->
  existsb (N.eqb atype) ack_indexed_types = true ->
  abs (fst (ack q atype pid abytes)) = abs q /\ snd (ack q atype pid abytes) = true.
