(* C13, consequences of the refinement, proved on the FIFO-list specification:
   an acknowledgement for an unknown identifier changes nothing; an entry is handed back only in a
   terminal state with the bytes of an acknowledgement that arrived; what is handed back is a
   prefix, request for request, of what was registered. *)
From Base Require Import Tactics Bytes.
From Gen Require Import Tables.
From Ackq Require Import Model Spec ProofsRefine.
Open Scope N_scope.

(* ---------- unknown acknowledgement ---------- *)

Lemma map_no_pid : forall (g : entry -> entry) l p, has_pid l p = false ->
  map (fun e => if e_pid e =? p then g e else e) l = l.
Proof.
  intros g l p. unfold has_pid. induction l as [|a l IH]; cbn [existsb map]; intro H.
  - reflexivity.
  - apply orb_false_iff in H. destruct H as [H1 H2]. rewrite H1. f_equal. apply IH. exact H2.
Qed.

Lemma unknown_ack : C13_unknown_ack.
Proof.
  intros k h atype pid abytes q Hno Hix.
  destruct (reach_ok h _ (inv_new k)) as [Hinv _]. fold q in Hinv.
  destruct (ack_ok q atype pid abytes Hinv) as (_ & R2 & R3).
  rewrite R2, R3. unfold s_ack. rewrite Hix. cbn [fst snd]. split; [|reflexivity].
  rewrite (map_no_pid _ _ _ Hno). destruct (abs q) as [L pg]. reflexivity.
Qed.

(* ---------- facts about the specification ---------- *)

Lemma release_split : forall l,
  l = fst (release l) ++ snd (release l)
  /\ Forall (fun e => terminal (e_state e) = true) (fst (release l)).
Proof.
  induction l as [|e l IH]; cbn [release].
  - cbn. split; [reflexivity|constructor].
  - destruct (terminal (e_state e)) eqn:ET.
    + destruct (release l) as [d rest]. cbn [fst snd] in *. destruct IH as [I1 I2]. split.
      * cbn [app]. f_equal. exact I1.
      * constructor; assumption.
    + cbn [fst snd app]. split; [reflexivity|constructor].
Qed.

Lemma s_acked_eq : forall s,
  s_acked s = (mkS (snd (release (s_list s))) (if e_state (s_ping s) =? T_PINGRESP then e_zero else s_ping s),
               (if e_state (s_ping s) =? T_PINGRESP then [s_ping s] else []) ++ fst (release (s_list s))).
Proof.
  intro s. unfold s_acked. destruct (e_state (s_ping s) =? T_PINGRESP); destruct (release (s_list s)); reflexivity.
Qed.

Definition accept (m qo : N) : bool :=
  (m =? T_PUBLISH) && negb (qo =? 0) || (m =? T_SUBSCRIBE) || (m =? T_UNSUBSCRIBE).

Lemma accept_mtype : forall m qo, accept m qo = true -> m <> T_PINGREQ.
Proof.
  intros m qo H E. subst m. unfold accept in H. cbn in H. discriminate H.
Qed.

Lemma s_wait_list : forall s m qo p c b,
  s_list (fst (s_wait s m qo p c b))
  = s_list s ++ (if accept m qo && negb (has_pid (s_list s) p) then [mkE m 0 p b [] c] else []).
Proof.
  intros s m qo p c b. unfold s_wait, accept.
  destruct (N.eqb_spec m T_PUBLISH) as [E1|E1].
  - subst m. cbn [N.eqb T_PUBLISH T_SUBSCRIBE T_UNSUBSCRIBE Pos.eqb orb andb].
    destruct (qo =? 0); cbn [negb fst s_list andb].
    + rewrite app_nil_r. reflexivity.
    + destruct (has_pid (s_list s) p); cbn [negb]; [rewrite app_nil_r|]; reflexivity.
  - cbn [andb orb].
    destruct ((m =? T_SUBSCRIBE) || (m =? T_UNSUBSCRIBE)) eqn:E2; cbn [fst s_list andb].
    + destruct (has_pid (s_list s) p); cbn [negb]; [rewrite app_nil_r|]; reflexivity.
    + destruct (m =? T_PINGREQ); cbn [fst s_list]; rewrite app_nil_r; reflexivity.
Qed.

(* the PINGREQ cell is handed back only as a PINGREQ *)
Definition ping_ok (s : aspec) : Prop :=
  e_state (s_ping s) = T_PINGRESP -> e_mtype (s_ping s) = T_PINGREQ.

Lemma ping_ok_step : forall s o, ping_ok s -> ping_ok (fst (s_apply s o)).
Proof.
  intros s o Hp. destruct o as [m qo p c b|a p b|]; cbn [s_apply].
  - unfold s_wait.
    destruct (m =? T_PUBLISH); [destruct (qo =? 0); exact Hp|].
    destruct ((m =? T_SUBSCRIBE) || (m =? T_UNSUBSCRIBE)); [exact Hp|].
    destruct (m =? T_PINGREQ); [|exact Hp].
    cbn [fst]. unfold ping_ok. cbn [s_ping e_state]. intro H. discriminate H.
  - unfold s_ack.
    destruct (existsb (N.eqb a) ack_indexed_types); [exact Hp|].
    destruct (existsb (N.eqb a) ack_ping_types); [|exact Hp].
    destruct (N.eqb_spec (e_mtype (s_ping s)) T_PINGREQ) as [E|E]; [|exact Hp].
    cbn [fst]. unfold ping_ok. cbn [s_ping e_state e_mtype]. intros _. exact E.
  - rewrite s_acked_eq. cbn [fst]. unfold ping_ok. cbn [s_ping].
    destruct (e_state (s_ping s) =? T_PINGRESP) eqn:E; [|exact Hp].
    cbn. intro H. discriminate H.
Qed.

Lemma ping_filtered : forall s, ping_ok s ->
  filter (fun e => negb (e_mtype e =? T_PINGREQ)) (if e_state (s_ping s) =? T_PINGRESP then [s_ping s] else []) = [].
Proof.
  intros s Hp. destruct (N.eqb_spec (e_state (s_ping s)) T_PINGRESP) as [E|E]; [|reflexivity].
  cbn [filter]. rewrite (Hp E). reflexivity.
Qed.

(* ---------- terminal state, bytes of a real acknowledgement ---------- *)

Definition from_ack (pre : list qop) (e : entry) : Prop :=
  e_state e = 0 \/ exists a b, pre = a ++ QAck (e_state e) (e_pid e) (e_ack e) :: b.

Lemma from_ack_mono : forall pre x e, from_ack pre e -> from_ack (pre ++ x) e.
Proof.
  intros pre x e [H|(a & b & H)]; [left; exact H|right].
  exists a, (b ++ x). rewrite H. rewrite <- app_assoc. reflexivity.
Qed.

Definition tinv (pre : list qop) (s : aspec) : Prop :=
  Forall (from_ack pre) (s_list s) /\ ping_ok s.

Lemma Forall_mono_ack : forall pre x l, Forall (from_ack pre) l -> Forall (from_ack (pre ++ x)) l.
Proof.
  intros pre x l H. eapply Forall_impl; [|exact H]. intros e He. apply from_ack_mono. exact He.
Qed.

Lemma tinv_step : forall pre s o, tinv pre s -> tinv (pre ++ [o]) (fst (s_apply s o)).
Proof.
  intros pre s o [Hl Hp]. split; [|apply ping_ok_step; exact Hp].
  pose proof (Forall_mono_ack pre [o] _ Hl) as Hl'.
  destruct o as [m qo p c b|a p b|]; cbn [s_apply].
    replace (fst (let '(s', r) := s_wait s m qo p c b in (s', OutBool r))) with (fst (s_wait s m qo p c b))
      by (destruct (s_wait s m qo p c b); reflexivity).
    rewrite s_wait_list. apply Forall_app. split; [exact Hl'|].
    destruct (accept m qo && negb (has_pid (s_list s) p)); constructor; [|constructor].
    left. reflexivity.
  - replace (fst (let '(s', r) := s_ack s a p b in (s', OutBool r))) with (fst (s_ack s a p b))
      by (destruct (s_ack s a p b); reflexivity).
    unfold s_ack.
    destruct (existsb (N.eqb a) ack_indexed_types).
    + cbn [fst s_list]. apply Forall_forall. intros e He. apply in_map_iff in He.
      destruct He as (x & Hx & Hin).
      destruct (N.eqb_spec (e_pid x) p) as [E|E].
      * subst e. right. cbn [e_state e_pid e_ack]. exists pre, []. rewrite E. reflexivity.
      * subst e. rewrite Forall_forall in Hl'. apply Hl'. exact Hin.
    + destruct (existsb (N.eqb a) ack_ping_types); [|exact Hl'].
      destruct (e_mtype (s_ping s) =? T_PINGREQ); exact Hl'.
  - replace (fst (let '(s', l) := s_acked s in (s', OutList l))) with (fst (s_acked s))
      by (destruct (s_acked s); reflexivity).
    rewrite s_acked_eq. cbn [fst s_list].
    destruct (release_split (s_list s)) as [R1 _]. rewrite R1 in Hl'.
    apply Forall_app in Hl'. apply Hl'.
Qed.

Lemma terminal_zero : terminal 0 = false.
Proof. reflexivity. Qed.

Lemma term_gen : forall h pre s, tinv pre s -> forall e, In e (handed_back (s_outs s h)) ->
  terminal (e_state e) = true /\ exists a b, pre ++ h = a ++ QAck (e_state e) (e_pid e) (e_ack e) :: b.
Proof.
  induction h as [|o h IH]; intros pre s Hinv e Hin.
  - cbn in Hin. contradiction.
  - pose proof (tinv_step pre s o Hinv) as Hstep.
    assert (Hrec : In e (handed_back (s_outs (fst (s_apply s o)) h)) ->
                   terminal (e_state e) = true /\
                   exists a b, pre ++ o :: h = a ++ QAck (e_state e) (e_pid e) (e_ack e) :: b).
    { intro H. destruct (IH _ _ Hstep e H) as [T (a & b & Hab)]. split; [exact T|].
      exists a, b. rewrite <- Hab. rewrite <- app_assoc. reflexivity. }
    cbn [s_outs] in Hin. destruct o as [m qo p c b|a p b|]; cbn [s_apply] in *.
    + destruct (s_wait s m qo p c b) as [s' r]. cbn [handed_back fst] in *. apply Hrec. exact Hin.
    + destruct (s_ack s a p b) as [s' r]. cbn [handed_back fst] in *. apply Hrec. exact Hin.
    + rewrite s_acked_eq in *. cbn [handed_back fst] in *.
      apply in_app_or in Hin. destruct Hin as [Hin|Hin]; [|apply Hrec; exact Hin].
      destruct Hinv as [Hl Hp].
      rewrite filter_app in Hin. rewrite (ping_filtered s Hp) in Hin. cbn [app] in Hin.
      apply filter_In in Hin. destruct Hin as [Hin _].
      destruct (release_split (s_list s)) as [R1 R2].
      rewrite Forall_forall in R2. pose proof (R2 e Hin) as T. split; [exact T|].
      assert (HinL : In e (s_list s)) by (rewrite R1; apply in_or_app; left; exact Hin).
      rewrite Forall_forall in Hl. destruct (Hl e HinL) as [Z|(a & b & Hab)].
      * rewrite Z, terminal_zero in T. discriminate T.
      * exists a, (b ++ QAcked :: h). rewrite Hab. rewrite <- app_assoc. reflexivity.
Qed.

Lemma terminal_ack : C13_terminal_ack.
Proof.
  intros k h e Hin. rewrite (refines k h) in Hin.
  assert (Hinv : tinv [] s_new).
  { split; [constructor|]. unfold ping_ok. cbn. intro H. discriminate H. }
  destruct (term_gen h [] s_new Hinv e Hin) as [T (a & b & Hab)].
  split; [exact T|]. exists a, b. exact Hab.
Qed.

(* ---------- FIFO prefix ---------- *)

Lemma same_request_refl : forall e, same_request e e.
Proof. intro e. unfold same_request. auto. Qed.

Lemma Forall2_sr_refl : forall l, Forall2 same_request l l.
Proof. induction l; constructor; auto using same_request_refl. Qed.

Lemma Forall2_len : forall (a b : list entry), Forall2 same_request a b -> length a = length b.
Proof. intros a b H. induction H; cbn; auto. Qed.

Lemma Forall2_upd : forall a p b l l0, Forall2 same_request l l0 ->
  Forall2 same_request
    (map (fun e => if e_pid e =? p then mkE (e_mtype e) a (e_pid e) (e_msg e) b (e_cb e) else e) l) l0.
Proof.
  intros a p b l l0 H. induction H as [|x y l l0 Hxy H IH]; cbn [map]; constructor; [|exact IH].
  destruct (e_pid x =? p); [|exact Hxy].
  unfold same_request in *. cbn [e_mtype e_pid e_msg e_cb]. exact Hxy.
Qed.

Definition ginv (s : aspec) : Prop :=
  Forall (fun e => e_mtype e <> T_PINGREQ) (s_list s) /\ ping_ok s.

Lemma ginv_step : forall s o, ginv s -> ginv (fst (s_apply s o)).
Proof.
  intros s o [Hl Hp]. split; [|apply ping_ok_step; exact Hp].
  destruct o as [m qo p c b|a p b|]; cbn [s_apply].
  - replace (fst (let '(s', r) := s_wait s m qo p c b in (s', OutBool r))) with (fst (s_wait s m qo p c b))
      by (destruct (s_wait s m qo p c b); reflexivity).
    rewrite s_wait_list. apply Forall_app. split; [exact Hl|].
    destruct (accept m qo) eqn:EA; cbn [andb]; [|constructor].
    destruct (negb (has_pid (s_list s) p)); constructor; [|constructor].
    cbn [e_mtype]. apply (accept_mtype m qo EA).
  - replace (fst (let '(s', r) := s_ack s a p b in (s', OutBool r))) with (fst (s_ack s a p b))
      by (destruct (s_ack s a p b); reflexivity).
    unfold s_ack.
    destruct (existsb (N.eqb a) ack_indexed_types).
    + cbn [fst s_list]. apply Forall_forall. intros e He. apply in_map_iff in He.
      destruct He as (x & Hx & Hin). rewrite Forall_forall in Hl. specialize (Hl x Hin).
      destruct (e_pid x =? p); subst e; cbn [e_mtype]; exact Hl.
    + destruct (existsb (N.eqb a) ack_ping_types); [|exact Hl].
      destruct (e_mtype (s_ping s) =? T_PINGREQ); exact Hl.
  - replace (fst (let '(s', l) := s_acked s in (s', OutList l))) with (fst (s_acked s))
      by (destruct (s_acked s); reflexivity).
    rewrite s_acked_eq. cbn [fst s_list].
    destruct (release_split (s_list s)) as [R1 _]. rewrite R1 in Hl.
    apply Forall_app in Hl. apply Hl.
Qed.

Definition sr_prefix (a b : list entry) : Prop :=
  exists b1 b2, b = b1 ++ b2 /\ Forall2 same_request a b1.

Lemma filter_keep : forall l, Forall (fun e => e_mtype e <> T_PINGREQ) l ->
  filter (fun e => negb (e_mtype e =? T_PINGREQ)) l = l.
Proof.
  induction l as [|e l IH]; intro H; cbn [filter]; [reflexivity|].
  inversion H as [|? ? H1 H2]; subst.
  destruct (N.eqb_spec (e_mtype e) T_PINGREQ) as [E|E]; [contradiction|].
  cbn [negb]. f_equal. apply IH. exact H2.
Qed.

Lemma fifo_gen : forall h s L0, ginv s -> Forall2 same_request (s_list s) L0 ->
  sr_prefix (handed_back (s_outs s h)) (L0 ++ registered s h).
Proof.
  induction h as [|o h IH]; intros s L0 Hinv HL.
  - cbn. exists [], (L0 ++ []). split; [reflexivity|constructor].
  - pose proof (ginv_step s o Hinv) as Hstep.
    cbn [s_outs registered]. destruct o as [m qo p c b|a p b|]; cbn [s_apply] in *.
    + pose proof (s_wait_list s m qo p c b) as HW.
      destruct (s_wait s m qo p c b) as [s' r]. cbn [handed_back fst] in *.
      fold (accept m qo).
      set (here := if accept m qo && negb (has_pid (s_list s) p) then [mkE m 0 p b [] c] else []) in *.
      rewrite app_assoc. apply IH; [exact Hstep|].
      rewrite HW. apply Forall2_app; [exact HL|apply Forall2_sr_refl].
    + assert (HA : Forall2 same_request (s_list (fst (s_ack s a p b))) L0).
      { unfold s_ack. destruct (existsb (N.eqb a) ack_indexed_types).
        - cbn [fst s_list]. apply Forall2_upd. exact HL.
        - destruct (existsb (N.eqb a) ack_ping_types); [|exact HL].
          destruct (e_mtype (s_ping s) =? T_PINGREQ); exact HL. }
      destruct (s_ack s a p b) as [s' r]. cbn [handed_back fst app] in *.
      apply IH; [exact Hstep|exact HA].
    + rewrite s_acked_eq in *. cbn [handed_back fst app] in *.
      destruct Hinv as [Hl Hp].
      destruct (release_split (s_list s)) as [R1 _].
      set (d := fst (release (s_list s))) in *. set (rest := snd (release (s_list s))) in *.
      rewrite filter_app, (ping_filtered s Hp). cbn [app].
      rewrite R1 in Hl. apply Forall_app in Hl. destruct Hl as [Hd Hrest].
      rewrite (filter_keep d Hd).
      rewrite R1 in HL. apply Forall2_app_inv_l in HL. destruct HL as (L0d & L0r & HLd & HLr & HL0).
      destruct (IH _ L0r Hstep HLr) as (b1 & b2 & Hb & HF).
      exists (L0d ++ b1), b2. split.
      * rewrite HL0. rewrite <- !app_assoc. f_equal. exact Hb.
      * apply Forall2_app; assumption.
Qed.

Lemma fifo_prefix : C13_fifo_prefix.
Proof.
  intros k h hb rg. subst hb rg. rewrite (refines k h).
  assert (Hinv : ginv s_new).
  { split; [constructor|]. unfold ping_ok. cbn. intro H. discriminate H. }
  destruct (fifo_gen h s_new [] Hinv (Forall2_nil _)) as (b1 & b2 & Hb & HF).
  cbn [app] in Hb. rewrite Hb. pose proof (Forall2_len _ _ HF) as Hlen.
  rewrite Hlen. split.
  - rewrite app_length. lia.
  - rewrite firstn_app_exact by reflexivity. exact HF.
Qed.

Print Assumptions unknown_ack.
Print Assumptions terminal_ack.
Print Assumptions fifo_prefix.
