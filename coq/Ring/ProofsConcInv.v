(* C14: auxiliary lemmas and the global invariant of the byte-granular two-thread ring model
   Ring/Conc.v, with its preservation by every move. The statements of Ring/ConcSpec.v are derived
   from it in Ring/ProofsConc.v. *)
From Coq Require Import Relations.
From Base Require Import Tactics Bytes.
From Ring Require Import Conc ConcSpec.
Open Scope Z_scope.

(* ---------- arithmetic ---------- *)
Lemma mod_neq size i j : 0 < size -> 0 < j - i < size -> i mod size <> j mod size.
Proof.
  intros Hs Hd E.
  assert (H : (j - i) mod size = 0).
  { rewrite Zminus_mod, E, Z.sub_diag. apply Z.mod_0_l. lia. }
  rewrite (Z.mod_small (j - i) size) in H by lia. lia.
Qed.

Lemma mod_neq_sym size i j : 0 < size -> 0 < j - i < size -> j mod size <> i mod size.
Proof. intros Hs Hd E. symmetry in E. revert E. apply mod_neq; assumption. Qed.

Lemma read_count_le size pl cpos ppos : 0 < size -> cpos < ppos ->
  read_count size pl cpos ppos <= ppos - cpos.
Proof.
  intros Hs Hlt. unfold read_count.
  pose proof (Z.mod_pos_bound cpos size Hs) as Hm.
  remember (cpos mod size) as ci eqn:Eci. clear Eci.
  destruct (cpos + pl <? ppos) eqn:E1.
  - apply Z.ltb_lt in E1. lia.
  - destruct (ci + (ppos - cpos) <? size) eqn:E2.
    + lia.
    + apply Z.ltb_ge in E2. lia.
Qed.

(* ---------- set_b / nth ---------- *)
Lemma set_b_length l : forall i v, length (set_b l i v) = length l.
Proof. induction l as [|x r IH]; intros [|j] v; cbn; auto. Qed.

Lemma nth_set_b_same l : forall i v d, (i < length l)%nat -> nth i (set_b l i v) d = v.
Proof.
  induction l as [|x r IH]; intros [|j] v d H; cbn in *; try lia; auto.
  apply IH; lia.
Qed.

Lemma nth_set_b_other l : forall i j v d, i <> j -> nth j (set_b l i v) d = nth j l d.
Proof.
  induction l as [|x r IH]; intros [|i] [|j] v d H; cbn; auto; try congruence;
  try (apply IH; congruence).
Qed.

Lemma nth_b_set_same l a v : 0 <= a < Z.of_nat (length l) -> nth_b (set_b l (Z.to_nat a) v) a = v.
Proof. intros H. unfold nth_b. apply nth_set_b_same. lia. Qed.

Lemma nth_b_set_other l a b v : 0 <= a -> 0 <= b -> a <> b ->
  nth_b (set_b l (Z.to_nat a) v) b = nth_b l b.
Proof. intros Ha Hb H. unfold nth_b. apply nth_set_b_other. lia. Qed.

(* ---------- firstn / skipn / slice ---------- *)
Lemma firstn_snoc (l : list N) : forall k, (k < length l)%nat ->
  firstn (S k) l = firstn k l ++ [nth k l 0%N].
Proof.
  induction l as [|x r IH]; intros k H; cbn [length] in H; [lia|].
  destruct k as [|k]; [reflexivity|].
  change (firstn (S (S k)) (x :: r)) with (x :: firstn (S k) r).
  rewrite IH by lia. reflexivity.
Qed.

Lemma nth_skipn (l : list N) : forall a k d, nth k (skipn a l) d = nth (a + k) l d.
Proof.
  induction l as [|x r IH]; intros [|a] k d; cbn; auto.
  destruct k; reflexivity.
Qed.

Lemma skipn_cons_nth (l : list N) : forall a d, (a < length l)%nat ->
  skipn a l = nth a l d :: skipn (S a) l.
Proof.
  induction l as [|x r IH]; intros a d H; cbn [length] in H; [lia|].
  destruct a as [|a]; [reflexivity|].
  change (skipn (S a) (x :: r)) with (skipn a r).
  change (nth (S a) (x :: r) d) with (nth a r d).
  change (skipn (S (S a)) (x :: r)) with (skipn (S a) r).
  apply IH. lia.
Qed.

Lemma firstn_firstn_skipn (l : list N) : forall a m,
  firstn a l ++ firstn m (skipn a l) = firstn (a + m) l.
Proof.
  induction l as [|x r IH]; intros a m.
  - rewrite skipn_nil, !firstn_nil. reflexivity.
  - destruct a as [|a]; [reflexivity|].
    cbn. f_equal. apply IH.
Qed.

Lemma slice_O l from : slice l from 0 = [].
Proof. reflexivity. Qed.

Lemma slice_length l from m : (Z.to_nat from + m <= length l)%nat -> length (slice l from m) = m.
Proof. intros H. unfold slice. rewrite firstn_length, skipn_length. lia. Qed.

Lemma slice_app l p from m : (Z.to_nat from + m <= length l)%nat ->
  slice (l ++ p) from m = slice l from m.
Proof.
  intros H. unfold slice. rewrite skipn_app, firstn_app, skipn_length.
  replace (m - (length l - Z.to_nat from))%nat with 0%nat by lia.
  rewrite firstn_O, app_nil_r. reflexivity.
Qed.

Lemma slice_snoc l from k : (Z.to_nat from + k < length l)%nat ->
  slice l from (S k) = slice l from k ++ [nth (Z.to_nat from + k) l 0%N].
Proof.
  intros H. unfold slice. rewrite firstn_snoc by (rewrite skipn_length; lia).
  rewrite nth_skipn. reflexivity.
Qed.

Lemma slice_cons l from m : 0 <= from -> (Z.to_nat from < length l)%nat ->
  slice l from (S m) = nth (Z.to_nat from) l 0%N :: slice l (from + 1) m.
Proof.
  intros H0 H. unfold slice.
  rewrite (skipn_cons_nth l (Z.to_nat from) 0%N H).
  replace (Z.to_nat (from + 1)) with (S (Z.to_nat from)) by lia. reflexivity.
Qed.

Lemma firstn_slice l from m : 0 <= from ->
  firstn (Z.to_nat from) l ++ slice l from m = firstn (Z.to_nat from + m) l.
Proof. intros _. unfold slice. apply firstn_firstn_skipn. Qed.

Lemma ring_get_slice size buf stream : forall m cpos,
  0 <= cpos -> cpos + Z.of_nat m <= Z.of_nat (length stream) ->
  (forall i, cpos <= i < cpos + Z.of_nat m -> nth_b buf (i mod size) = nth (Z.to_nat i) stream 0%N) ->
  ring_get size buf cpos m = slice stream cpos m.
Proof.
  induction m as [|m IH]; intros cpos H0 Hlen Hc.
  - reflexivity.
  - cbn [ring_get]. rewrite slice_cons by lia.
    rewrite Hc by lia. f_equal. apply IH; try lia.
    intros i Hi. apply Hc. lia.
Qed.

(* ---------- the invariant ---------- *)
Definition reserved (size gate ppos : Z) (p : list N) : Prop :=
  ppos + Z.of_nat (length p) <= gate + size.
Definition placed (size : Z) (buf : list N) (ppos : Z) (p : list N) (k : nat) : Prop :=
  forall j, (j < k)%nat -> nth_b buf ((ppos + Z.of_nat j) mod size) = nth j p 0%N.

(* what is known while a waitForWriteSpace call of mode m is in progress *)
Definition minv (size gate : Z) (buf : list N) (pseq : Z) (m : pmode) (p : list N) : Prop :=
  match m with
  | MWrite => True
  | MReserve r => Z.of_nat (length p) <= r
  | MCommit2 => reserved size gate pseq p /\ placed size buf pseq p (length p)
  end.

Definition pinv (size gate : Z) (buf : list N) (pseq : Z) (pc : ppc) : Prop :=
  match pc with
  | P_idle => True
  | P_wfs m p => minv size gate buf pseq m p
  | P_wfs_load m p ppos => ppos = pseq /\ minv size gate buf pseq m p
  | P_copy _ p ppos k => ppos = pseq /\ reserved size gate ppos p /\ placed size buf ppos p k
  | P_store p ppos => ppos = pseq /\ reserved size gate ppos p /\ placed size buf ppos p (length p)
  end.

Definition cinv (cseq pseq : Z) (stream : list N) (pc : cpc) : Prop :=
  match pc with
  | C_idle | C_read _ | C_peek _ _ => True
  | C_read_loaded _ cpos | C_peek_loaded _ _ cpos => cpos = cseq
  | C_read_copy cpos n k out | C_peek_tmp cpos n k out =>
      cpos = cseq /\ cpos + Z.of_nat n <= pseq /\ (k <= n)%nat /\ out = slice stream cpos k
  | C_read_store cpos out =>
      cpos = cseq /\ cpos + Z.of_nat (length out) <= pseq /\ out = slice stream cpos (length out)
  | C_commit n => 0 <= n
  | C_commit_loaded n cpos => 0 <= n /\ cpos = cseq
  end.

Definition vinv (cseq pseq : Z) (stream : list N) (v : view) : Prop :=
  match v with
  | NoView => True
  | Window cpos m => cpos = cseq /\ cpos + Z.of_nat m <= pseq
  | Tmp cpos bytes =>
      cpos = cseq /\ cpos + Z.of_nat (length bytes) <= pseq /\ bytes = slice stream cpos (length bytes)
  end.

Record Inv (size : Z) (s : cstate) : Prop := mkInv {
  i_size : c_size s = size;
  i_ord : 0 <= c_gate s /\ c_gate s <= c_cseq s /\ c_cseq s <= c_pseq s /\ c_pseq s <= c_gate s + size;
  i_buf : length (c_buf s) = Z.to_nat size;
  i_slen : Z.of_nat (length (c_stream s)) = c_pseq s;
  i_clen : Z.of_nat (length (c_consumed s)) = c_cseq s;
  i_pre : c_consumed s = firstn (length (c_consumed s)) (c_stream s);
  i_ring : forall i, c_cseq s <= i < c_pseq s ->
             nth_b (c_buf s) (i mod size) = nth (Z.to_nat i) (c_stream s) 0%N;
  i_view : vinv (c_cseq s) (c_pseq s) (c_stream s) (c_view s);
  i_p : pinv size (c_gate s) (c_buf s) (c_pseq s) (c_ppc s);
  i_c : cinv (c_cseq s) (c_pseq s) (c_stream s) (c_cpc s)
}.

Ltac proj :=
  cbn [c_size c_buf c_pseq c_cseq c_gate c_ppc c_cpc c_view c_stream c_consumed wp wc] in *.

Lemma zeros_length n : length (zeros n) = n.
Proof. induction n; cbn; auto. Qed.

Lemma inv_init size : 0 < size -> Inv size (cinit size).
Proof.
  intros Hs. unfold cinit. constructor; proj; cbn [length pinv cinv vinv]; auto; try lia.
  apply zeros_length.
Qed.

(* the consumer-side clauses survive the producer's commit *)
Lemma cinv_commit cseq pseq stream p pc :
  0 <= cseq -> Z.of_nat (length stream) = pseq ->
  cinv cseq pseq stream pc -> cinv cseq (pseq + Z.of_nat (length p)) (stream ++ p) pc.
Proof.
  intros H0 Hlen. destruct pc; cbn [cinv]; auto.
  - intros (-> & Hle & Hk & ->). repeat split; try lia. symmetry. apply slice_app. lia.
  - intros (-> & Hle & Ho). repeat split; try lia. rewrite slice_app by lia. exact Ho.
  - intros (-> & Hle & Hk & ->). repeat split; try lia. symmetry. apply slice_app. lia.
Qed.

Lemma vinv_commit cseq pseq stream p v :
  0 <= cseq -> Z.of_nat (length stream) = pseq ->
  vinv cseq pseq stream v -> vinv cseq (pseq + Z.of_nat (length p)) (stream ++ p) v.
Proof.
  intros H0 Hlen. destruct v; cbn [vinv]; auto.
  - intros (-> & Hle). split; lia.
  - intros (-> & Hle & Ho). repeat split; try lia. rewrite slice_app by lia. exact Ho.
Qed.

Lemma placed_weaken size buf ppos p k k' : (k' <= k)%nat -> placed size buf ppos p k -> placed size buf ppos p k'.
Proof. intros Hk H j Hj. apply H. lia. Qed.

(* ---------- producer steps preserve the invariant ---------- *)
Lemma pstep_inv size s s' : 0 < size -> Inv size s -> pstep s = Some s' -> Inv size s'.
Proof.
  intros Hpos HI Hstep.
  destruct s as [sz buf pseq cseq gate pc cc vw stream consumed].
  destruct HI as [Hsz Hord Hbuf Hslen Hclen Hpre Hring Hview Hp Hc].
  unfold pstep in Hstep. proj. subst sz.
  destruct pc as [|m p|m p ppos|c2 p ppos k|p ppos]; cbn [pinv] in Hp.
  - discriminate.
  - (* P_wfs *)
    destruct ((gate <? pseq + want m p - size) || (pseq <? gate)) eqn:E;
      injection Hstep as <-; constructor; proj; auto.
    + cbn [pinv]. auto.
    + apply orb_false_iff in E. destruct E as [E1 E2].
      apply Z.ltb_ge in E1. apply Z.ltb_ge in E2.
      destruct m as [|r|]; cbn [after_wfs pinv minv want] in *.
      * repeat split; auto. unfold reserved. lia. intros j Hj. lia.
      * repeat split; auto. unfold reserved. lia. intros j Hj. lia.
      * destruct Hp as [Hr Hpl]. repeat split; auto.
  - (* P_wfs_load *)
    destruct Hp as [-> Hm].
    destruct (cseq <? pseq + want m p - size) eqn:E; [discriminate|].
    apply Z.ltb_ge in E.
    injection Hstep as <-; constructor; proj; auto; try lia.
    destruct m as [|r|]; cbn [after_wfs pinv minv want] in *.
    + repeat split; auto. unfold reserved. lia. intros j Hj. lia.
    + repeat split; auto. unfold reserved. lia. intros j Hj. lia.
    + destruct Hm as [Hr Hpl]. unfold reserved in *. repeat split; auto. lia.
  - (* P_copy *)
    destruct Hp as (-> & Hr & Hpl). unfold reserved in Hr.
    destruct (nth_error p k) as [x|] eqn:En.
    + assert (Hk : (k < length p)%nat) by (apply nth_error_Some; congruence).
      assert (Hx : nth k p 0%N = x) by (apply nth_error_nth; exact En).
      pose proof (Z.mod_pos_bound (pseq + Z.of_nat k) size Hpos) as Hq.
      injection Hstep as <-; constructor; proj; auto.
      * rewrite set_b_length. exact Hbuf.
      * intros i Hi.
        pose proof (Z.mod_pos_bound i size Hpos) as Hqi.
        rewrite nth_b_set_other; [apply Hring; exact Hi|lia|lia|].
        apply mod_neq_sym; [exact Hpos|]. clear - Hi Hk Hr Hord. lia.
      * cbn [pinv]. split; [reflexivity|]. split; [exact Hr|].
        intros j Hj.
        destruct (Nat.eq_dec j k) as [->|Hne].
        -- rewrite nth_b_set_same; [symmetry; exact Hx|]. rewrite Hbuf. lia.
        -- pose proof (Z.mod_pos_bound (pseq + Z.of_nat j) size Hpos) as Hqj.
           rewrite nth_b_set_other; [apply Hpl; lia|lia|lia|].
           apply mod_neq_sym; [exact Hpos|]. clear - Hj Hne Hk Hr Hord. lia.
    + apply nth_error_None in En.
      assert (Hpl' : placed size buf pseq p (length p)) by (apply placed_weaken with k; assumption).
      destruct c2; injection Hstep as <-; constructor; proj; auto; cbn [pinv minv]; auto.
  - (* P_store *)
    destruct Hp as (-> & Hr & Hpl). unfold reserved in Hr.
    injection Hstep as <-; constructor; proj; auto; try lia.
    + rewrite app_length. lia.
    + rewrite firstn_app. replace (length consumed - length stream)%nat with 0%nat by lia.
      rewrite firstn_O, app_nil_r. exact Hpre.
    + intros i Hi. destruct (Z_lt_dec i pseq) as [Hlt|Hge].
      * rewrite app_nth1 by lia. apply Hring. lia.
      * rewrite app_nth2 by lia.
        replace i with (pseq + Z.of_nat (Z.to_nat i - length stream)) at 1 by lia.
        apply Hpl. lia.
    + apply vinv_commit; auto; lia.
    + cbn [pinv]. exact I.
    + apply cinv_commit; auto; lia.
Qed.

(* one byte copied out of the ring extends the slice obtained so far *)
Lemma copy_byte size buf cseq pseq stream n k :
  0 <= cseq -> Z.of_nat (length stream) = pseq ->
  (forall i, cseq <= i < pseq -> nth_b buf (i mod size) = nth (Z.to_nat i) stream 0%N) ->
  cseq + Z.of_nat n <= pseq -> (k < n)%nat ->
  slice stream cseq k ++ [nth_b buf ((cseq + Z.of_nat k) mod size)] = slice stream cseq (S k).
Proof.
  intros H0 Hlen Hring Hn Hk.
  rewrite slice_snoc by lia. rewrite Hring by lia.
  replace (Z.to_nat (cseq + Z.of_nat k)) with (Z.to_nat cseq + k)%nat by lia. reflexivity.
Qed.

(* appending the slice just obtained keeps [consumed] a prefix of [stream] *)
Lemma consumed_extend consumed stream cseq out :
  0 <= cseq -> Z.of_nat (length consumed) = cseq ->
  consumed = firstn (length consumed) stream ->
  cseq + Z.of_nat (length out) <= Z.of_nat (length stream) ->
  out = slice stream cseq (length out) ->
  consumed ++ out = firstn (length (consumed ++ out)) stream.
Proof.
  intros H0 Hclen Hpre Hle Hout.
  rewrite app_length.
  assert (El : length consumed = Z.to_nat cseq) by lia.
  rewrite El in Hpre. rewrite El.
  rewrite <- firstn_slice by exact H0. rewrite <- Hout, <- Hpre. reflexivity.
Qed.

(* ---------- consumer steps preserve the invariant ---------- *)
Lemma cstep_inv size s s' : 0 < size -> Inv size s -> cstep s = Some s' -> Inv size s'.
Proof.
  intros Hpos HI Hstep.
  destruct s as [sz buf pseq cseq gate pc cc vw stream consumed].
  destruct HI as [Hsz Hord Hbuf Hslen Hclen Hpre Hring Hview Hp Hc].
  unfold cstep in Hstep. proj. subst sz.
  destruct cc as [|pl|pl cpos|cpos n k out|cpos out|w n|w n cpos|cpos m k acc|n|n cpos]; cbn [cinv] in Hc.
  - discriminate.
  - (* C_read *)
    injection Hstep as <-; constructor; proj; auto; try exact I. cbn [cinv]. reflexivity.
  - (* C_read_loaded *)
    subst cpos.
    destruct (cseq <? pseq) eqn:E; [|discriminate]. apply Z.ltb_lt in E.
    injection Hstep as <-; constructor; proj; auto; try exact I. cbn [cinv].
    pose proof (read_count_le size pl cseq pseq Hpos E) as Hrc.
    repeat split; try lia.
  - (* C_read_copy *)
    destruct Hc as (-> & Hn & Hk & ->).
    destruct (k <? n)%nat eqn:E.
    + apply Nat.ltb_lt in E.
      injection Hstep as <-; constructor; proj; auto; try exact I. cbn [cinv].
      repeat split; try lia. apply copy_byte with pseq n; auto; lia.
    + apply Nat.ltb_ge in E. assert (k = n) by lia. subst k.
      injection Hstep as <-; constructor; proj; auto; try exact I. cbn [cinv].
      rewrite slice_length by lia. repeat split; try lia.
  - (* C_read_store *)
    destruct Hc as (-> & Hn & Hout).
    injection Hstep as <-; constructor; proj; auto; try exact I; try lia.
    + rewrite app_length. lia.
    + apply consumed_extend with cseq; auto; lia.
    + intros i Hi. apply Hring. lia.
  - (* C_peek *)
    injection Hstep as <-; constructor; proj; auto; try exact I. cbn [cinv]. reflexivity.
  - (* C_peek_loaded *)
    subst cpos.
    set (enough := if w then cseq + n <=? pseq else cseq <? pseq) in Hstep.
    destruct enough eqn:Een; cbn [negb] in Hstep; [|discriminate].
    set (m := Z.to_nat (if w then n else Z.min n (pseq - cseq))) in Hstep.
    assert (Hm : cseq + Z.of_nat m <= pseq).
    { subst m enough. destruct w.
      - apply Z.leb_le in Een. lia.
      - apply Z.ltb_lt in Een. lia. }
    destruct (size <? cseq mod size + Z.of_nat m) eqn:E;
      injection Hstep as <-; constructor; proj; auto; try exact I.
    + cbn [cinv]. repeat split; try lia.
    + cbn [vinv]. split; [reflexivity|exact Hm].
  - (* C_peek_tmp *)
    destruct Hc as (-> & Hn & Hk & ->).
    destruct (k <? m)%nat eqn:E.
    + apply Nat.ltb_lt in E.
      injection Hstep as <-; constructor; proj; auto; try exact I. cbn [cinv].
      repeat split; try lia. apply copy_byte with pseq m; auto; lia.
    + apply Nat.ltb_ge in E. assert (k = m) by lia. subst k.
      injection Hstep as <-; constructor; proj; auto; try exact I. cbn [vinv].
      rewrite slice_length by lia. repeat split; try lia.
  - (* C_commit *)
    injection Hstep as <-; constructor; proj; auto; try exact I. cbn [cinv]. split; [exact Hc|reflexivity].
  - (* C_commit_loaded *)
    destruct Hc as (Hn & ->).
    destruct (cseq + n <=? pseq) eqn:E.
    + apply Z.leb_le in E.
      assert (Hrg : ring_get size buf cseq (Z.to_nat n) = slice stream cseq (Z.to_nat n)).
      { apply ring_get_slice; try lia. intros i Hi. apply Hring. lia. }
      assert (Hlen : length (slice stream cseq (Z.to_nat n)) = Z.to_nat n)
        by (apply slice_length; lia).
      injection Hstep as <-; constructor; proj; auto; try exact I; try lia.
      * rewrite app_length, Hrg, Hlen. lia.
      * rewrite Hrg. apply consumed_extend with cseq; auto; try lia;
          try (rewrite Hlen; reflexivity).
      * intros i Hi. apply Hring. lia.
    + injection Hstep as <-; constructor; proj; auto; try exact I.
Qed.

(* ---------- every move preserves it, so it holds in every reachable state ---------- *)
Lemma cmove_inv size s s' : 0 < size -> Inv size s -> cmove s s' -> Inv size s'.
Proof.
  intros Hpos HI Hm. destruct Hm as [s s' Hp|s s' Hc|s c Hidle Hok|s c Hidle Hok].
  - eapply pstep_inv; eassumption.
  - eapply cstep_inv; eassumption.
  - destruct HI as [Hsz Hord Hbuf Hslen Hclen Hpre Hring Hview Hp Hc].
    constructor; proj; auto; try exact I.
    destruct c as [p|r p]; cbn [pinv minv]; auto.
  - destruct HI as [Hsz Hord Hbuf Hslen Hclen Hpre Hring Hview Hp Hc].
    constructor; proj; auto; try exact I.
    destruct c as [pl|n|n|n]; cbn [cinv]; auto. lia.
Qed.

Lemma reachable_inv size s : 0 < size -> creachable size s -> Inv size s.
Proof.
  intros Hpos Hr. unfold creachable in Hr.
  apply clos_rt_rtn1 in Hr.
  induction Hr as [|y z Hyz Hr IH].
  - apply inv_init. exact Hpos.
  - eapply cmove_inv; eassumption.
Qed.
