(* Sequential executable model of service/buffer.go: every method of the byte ring run to
   completion on a state (buf, size, pseq, cseq, gate, done).  A call that would block (wait for
   data or space) is the explicit outcome Block: in the sequential correspondence the harness
   never issues such a call; the concurrent models (Ring/Conc.v, Ring/Live.v) refine waiting.
   Cursors are unbounded Z; size is a power of two. *)
From Base Require Import Tactics Bytes.
From Gen Require Import Tables.
Open Scope Z_scope.

Record ring := mkRing {
  size : Z;
  buf : list N;          (* length = size *)
  pseq : Z;              (* producer cursor: bytes committed so far *)
  cseq : Z;              (* consumer cursor: bytes consumed so far *)
  gate : Z;              (* producer's cached copy of the consumer cursor *)
  done : bool
}.

Fixpoint zeros (n : nat) : list N := match n with O => [] | S k => 0%N :: zeros k end.
Definition ring_new (sz : Z) : ring := mkRing sz (zeros (Z.to_nat sz)) 0 0 0 false.

Definition rlen (r : ring) : Z := pseq r - cseq r.
Definition ridx (r : ring) (pos : Z) : nat := Z.to_nat (pos mod size r).

(* results of calls *)
Inductive rres (A : Type) :=
| ROk (a : A)
| REof
| RFull           (* bufio.ErrBufferFull *)
| RInsufficient   (* ErrBufferInsufficientData *)
| RBlock.         (* the call would wait *)
Arguments ROk {A} a. Arguments REof {A}. Arguments RFull {A}. Arguments RInsufficient {A}. Arguments RBlock {A}.

Fixpoint set_at (l : list N) (i : nat) (v : N) : list N :=
  match l, i with
  | [], _ => []
  | _ :: r, O => v :: r
  | x :: r, S j => x :: set_at r j v
  end.

(* ringCopy(buf, p, start): byte k of p goes to index (start + k) mod size *)
Fixpoint ring_copy (sz : Z) (b : list N) (p : list N) (pos : Z) : list N :=
  match p with
  | [] => b
  | x :: r => ring_copy sz (set_at b (Z.to_nat (pos mod sz)) x) r (pos + 1)
  end.

(* the m bytes at positions pos, pos+1, ... (wrapping) *)
Fixpoint ring_get (sz : Z) (b : list N) (pos : Z) (m : nat) : list N :=
  match m with
  | O => []
  | S k => nth (Z.to_nat (pos mod sz)) b 0%N :: ring_get sz b (pos + 1) k
  end.

(* waitForWriteSpace(n): start position, or EOF / Block; updates gate *)
Definition wfs (r : ring) (n : Z) : ring * rres Z :=
  if done r then (r, REof) else
  let ppos := pseq r in
  let next := ppos + n in
  let wrap := next - size r in
  if (gate r <? wrap) || (ppos <? gate r) then
    let cpos := cseq r in
    if cpos <? wrap then (r, RBlock)
    else (mkRing (size r) (buf r) (pseq r) (cseq r) cpos (done r), ROk ppos)
  else (r, ROk ppos).

(* Write(p) *)
Definition r_write (r : ring) (p : list N) : ring * rres Z :=
  if done r then (r, REof) else
  match wfs r (Z.of_nat (length p)) with
  | (r1, ROk start) =>
      (mkRing (size r1) (ring_copy (size r1) (buf r1) p start) (start + Z.of_nat (length p)) (cseq r1) (gate r1) (done r1),
       ROk (Z.of_nat (length p)))
  | (r1, REof) => (r1, REof)
  | (r1, _) => (r1, RBlock)
  end.

(* WriteWait(n): window start index, window length, wrap flag *)
Definition r_write_wait (r : ring) (n : Z) : ring * rres (Z * Z * bool) :=
  match wfs r n with
  | (r1, ROk start) =>
      let pstart := start mod size r1 in
      if size r1 <? pstart + n then (r1, ROk (pstart, size r1 - pstart, true))
      else (r1, ROk (pstart, n, false))
  | (r1, REof) => (r1, REof)
  | (r1, _) => (r1, RBlock)
  end.

(* the caller fills the window returned by WriteWait (no wrap) with p *)
Definition r_fill (r : ring) (p : list N) : ring :=
  mkRing (size r) (ring_copy (size r) (buf r) p (pseq r)) (pseq r) (cseq r) (gate r) (done r).

(* WriteCommit(n) *)
Definition r_write_commit (r : ring) (n : Z) : ring * rres Z :=
  match wfs r n with
  | (r1, ROk start) => (mkRing (size r1) (buf r1) (start + n) (cseq r1) (gate r1) (done r1), ROk n)
  | (r1, REof) => (r1, REof)
  | (r1, _) => (r1, RBlock)
  end.

(* Read(p) with len(p) = pl: the bytes copied *)
Definition r_read (r : ring) (pl : Z) : ring * rres (list N) :=
  if done r && (rlen r =? 0) then (r, REof) else
  let cpos := cseq r in
  let ppos := pseq r in
  let cindex := cpos mod size r in
  if cpos + pl <? ppos then
    let n := Z.min pl (size r - cindex) in
    (mkRing (size r) (buf r) (pseq r) (cpos + n) (gate r) (done r), ROk (ring_get (size r) (buf r) cpos (Z.to_nat n)))
  else if cpos <? ppos then
    let b := ppos - cpos in
    let n := if cindex + b <? size r then Z.min pl b else Z.min pl (size r - cindex) in
    (mkRing (size r) (buf r) (pseq r) (cpos + n) (gate r) (done r), ROk (ring_get (size r) (buf r) cpos (Z.to_nat n)))
  else if done r then (r, REof)
  else (r, RBlock).

(* ReadPeek(n): the bytes visible and whether fewer than n were available *)
Definition r_read_peek (r : ring) (n : Z) : rres (list N * bool) :=
  if size r <? n then RFull else
  let cpos := cseq r in
  let ppos := pseq r in
  if ppos <=? cpos then (if done r then REof else RBlock) else
  let avail := ppos - cpos in
  let m := if n <=? avail then n else avail in
  ROk (ring_get (size r) (buf r) cpos (Z.to_nat m), avail <? n).

(* ReadWait(n) *)
Definition r_read_wait (r : ring) (n : Z) : rres (list N) :=
  if size r <? n then RFull else
  let cpos := cseq r in
  let ppos := pseq r in
  if ppos <? cpos + n then (if done r then REof else RBlock) else
  ROk (ring_get (size r) (buf r) cpos (Z.to_nat n)).

(* ReadCommit(n) *)
Definition r_read_commit (r : ring) (n : Z) : ring * rres Z :=
  if size r <? n then (r, RFull) else
  if cseq r + n <=? pseq r then
    (mkRing (size r) (buf r) (pseq r) (cseq r + n) (gate r) (done r), ROk n)
  else (r, RInsufficient).

Definition r_close (r : ring) : ring := mkRing (size r) (buf r) (pseq r) (cseq r) (gate r) true.

(* the two write paths of service.writeMessage on a bare buffer *)
Definition r_write_message (r : ring) (p : list N) : ring * rres (Z * bool) :=
  match r_write_wait r (Z.of_nat (length p)) with
  | (r1, ROk (_, _, true)) =>
      match r_write r1 p with
      | (r2, ROk n) => (r2, ROk (n, true))
      | (r2, REof) => (r2, REof)
      | (r2, _) => (r2, RBlock)
      end
  | (r1, ROk (_, _, false)) =>
      match r_write_commit (r_fill r1 p) (Z.of_nat (length p)) with
      | (r2, ROk n) => (r2, ROk (n, false))
      | (r2, REof) => (r2, REof)
      | (r2, _) => (r2, RBlock)
      end
  | (r1, REof) => (r1, REof)
  | (r1, _) => (r1, RBlock)
  end.

(* ---------- scripts ---------- *)

Definition zn (z : Z) : N := Z.to_N z.
Definition o_res {A} (f : A -> list N) (x : rres A) : list N :=
  match x with
  | ROk a => 0%N :: f a
  | REof => [1%N]
  | RFull => [2%N]
  | RInsufficient => [3%N]
  | RBlock => [4%N]
  end.
Definition b2n (b : bool) : N := if b then 1%N else 0%N.

Definition r_step (r : ring) (op : list N) : ring * list N :=
  match op with
  | 1%N :: p => let '(r', x) := r_write r p in (r', o_res (fun n => [zn n]) x)
  | [2%N; n] => let '(r', x) := r_write_wait r (Z.of_N n) in
                (r', o_res (fun w => let '(s, l, wr) := w in [zn s; zn l; b2n wr]) x)
  | 3%N :: p => (r_fill r p, [0%N])
  | [4%N; n] => let '(r', x) := r_write_commit r (Z.of_N n) in (r', o_res (fun n => [zn n]) x)
  | [5%N; n] => let '(r', x) := r_read r (Z.of_N n) in (r', o_res (fun l => l) x)
  | [6%N; n] => (r, o_res (fun lb => b2n (snd lb) :: fst lb) (r_read_peek r (Z.of_N n)))
  | [7%N; n] => (r, o_res (fun l => l) (r_read_wait r (Z.of_N n)))
  | [8%N; n] => let '(r', x) := r_read_commit r (Z.of_N n) in (r', o_res (fun n => [zn n]) x)
  | [9%N] => (r_close r, [0%N])
  | [10%N] => (r, [zn (pseq r); zn (cseq r); zn (gate r); b2n (done r)])
  | 11%N :: p => let '(r', x) := r_write_message r p in (r', o_res (fun nw => [zn (fst nw); b2n (snd nw)]) x)
  | _ => (r, [99%N])
  end.

Fixpoint r_run (r : ring) (ops : list (list N)) : list (list N) :=
  match ops with
  | [] => []
  | op :: rest => let '(r', o) := r_step r op in o :: r_run r' rest
  end.

Definition run_ring (sz : N) (ops : list (list N)) : list (list N) := r_run (ring_new (Z.of_N sz)) ops.
