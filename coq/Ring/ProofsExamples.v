(* Concrete instances closed by computation (non-vacuity; regression witnesses). *)
From Base Require Import Tactics Bytes.
From Ring Require Import Seq Live LiveScript.
Open Scope Z_scope.

(* a wrapped history on a 16-byte ring: 12 written, 10 read, 10 written across the end, all read *)
Definition wrap_history : list (list N) :=
  [ 1 :: [1;2;3;4;5;6;7;8;9;10;11;12]; [5; 10]; 1 :: [13;14;15;16;17;18;19;20;21;22]; [7; 12]; [8; 12]; [10] ]%N.
Lemma seq_wrap_instance :
  run_ring 16 wrap_history =
  [ [0;12]; 0 :: [1;2;3;4;5;6;7;8;9;10]; [0;10]; 0 :: [11;12;13;14;15;16;17;18;19;20;21;22]; [0;12]; [22;22;10;0] ]%N.
Proof. vm_compute. reflexivity. Qed.

(* the window in which the unrepaired ReadWait lost its wake-up: the consumer has loaded the cursors,
   the producer then commits and broadcasts; the repaired protocol re-reads the producer cursor
   after locking and returns without parking *)
Definition window_schedule : list (list N) :=
  [ [1;20;3;4]; [1;1];                                   (* consumer: ReadWait(4), cursors loaded *)
    [0;20;5;4]; [0;1]; [0;14]; [0;13]; [0;2]; [0;4]; [0;18]; [0;6]; [0;21];   (* producer: Write(4), complete *)
    [1;2]; [1;4]; [1;6]; [1;21] ]%N.                     (* consumer: PreLockC, LockedC, UnlockedC, return *)
Lemma no_lost_wakeup_window_instance :
  last (run_live [16;0;0;0;2]%N window_schedule) [] = [1;4;0;0;0;4]%N.
Proof. vm_compute. reflexivity. Qed.
